(* model driver: one case per line "op a1 a2 ..." -> one result line "r1 r2 ..." *)
let coq_string_of (s : string) : Model.string =
  let n = String.length s in
  let rec go i =
    if i = n then Model.EmptyString
    else
      let c = Char.code s.[i] in
      let b k = (c lsr k) land 1 = 1 in
      Model.String (Model.Ascii (b 0, b 1, b 2, b 3, b 4, b 5, b 6, b 7), go (i + 1))
  in go 0
(* real-number text of the platform: printf("%.17lg") on the double with the given bit pattern, and
   stold (longest valid prefix after leading white space) *)
let fmt_double bits =
  let s = Printf.sprintf "%.17g" (Model_z.to_float_bits (Zio.to_zt bits)) in
  List.init (String.length s) (fun i -> Zio.of_zt (Model_z.of_int (Char.code s.[i])))
let parse_double (bs : 'a list) =
  let b = Buffer.create 32 in
  List.iter (fun c -> let v = Model_z.to_int (Zio.to_zt c) in if v >= 0 && v < 256 then Buffer.add_char b (Char.chr v)) bs;
  let s = Buffer.contents b in
  let n = String.length s in
  let i = ref 0 in
  while !i < n && (s.[!i] = ' ' || (Char.code s.[!i] >= 9 && Char.code s.[!i] <= 13)) do incr i done;
  let rec try_len l =
    if l <= 0 then None
    else match float_of_string_opt (String.sub s !i l) with
      | Some f when (let c = s.[!i + l - 1] in c <> '_' && c <> ' ') && not (String.contains (String.sub s !i l) '_') -> Some (Zio.of_zt (Model_z.of_float_bits f))
      | _ -> try_len (l - 1) in
  try_len (n - !i)

let () =
  let buf = Buffer.create 65536 in
  (try
    while true do
      let line = input_line stdin in
      let toks = List.filter (fun t -> t <> "") (String.split_on_char ' ' line) in
      (match toks with
       | [] -> Buffer.add_string buf "\n"
       | op :: args ->
         let zs = List.map Zio.of_string args in
         (match Model.dispatch2 fmt_double parse_double (coq_string_of op) zs with
          | None -> Buffer.add_string buf "NOOP\n"
          | Some r ->
            Buffer.add_string buf (String.concat " " (List.map Zio.to_string r));
            Buffer.add_char buf '\n'));
      if Buffer.length buf > 60000 then (print_string (Buffer.contents buf); Buffer.clear buf)
    done
  with End_of_file -> ());
  print_string (Buffer.contents buf)
