(* model driver: one case per line "op a1 a2 ..." -> one result line "r1 r2 ..." *)
let coq_string_of (s : string) : Model.string =
  let n = String.length s in
  let rec go i =
    if i = n then Model.EmptyString
    else
      let c = Char.code s.[i] in
      let b k = (c lsr k) land 1 = 1 in
      Model.String (Model.Ascii (b 0, b 1, b 2, b 3, b 4, b 5, b 6, b 7), go (i + 1))
  in go 0
let () =
  let buf = Buffer.create 65536 in
  (try
    while true do
      let line = input_line stdin in
      let toks = List.filter (fun t -> t <> "") (String.split_on_char ' ' line) in
      (match toks with
       | [] -> Buffer.add_string buf "\n"
       | op :: args ->
         let zs = List.map Zio.of_string args in
         (match Model.dispatch (coq_string_of op) zs with
          | None -> Buffer.add_string buf "NOOP\n"
          | Some r ->
            Buffer.add_string buf (String.concat " " (List.map Zio.to_string r));
            Buffer.add_char buf '\n'));
      if Buffer.length buf > 60000 then (print_string (Buffer.contents buf); Buffer.clear buf)
    done
  with End_of_file -> ());
  print_string (Buffer.contents buf)
