(* with ExtrOcamlZBigInt the extracted Z is zarith's Z.t *)
let of_string s : Big_int_Z.big_int = Z.of_string s
let to_string (x : Big_int_Z.big_int) = Z.to_string x
let to_zt (x : Big_int_Z.big_int) : Z.t = x
let of_zt (x : Z.t) : Big_int_Z.big_int = x
