(* zarith's Z under a name the extracted module Model.Z does not shadow, plus double <-> bit pattern *)
type t = Z.t
let of_int = Z.of_int
let to_int = Z.to_int
let two64 = Z.shift_left Z.one 64
let to_float_bits (z : Z.t) : float =
  let z = Z.erem z two64 in
  let i = if Z.lt z (Z.shift_left Z.one 63) then Z.to_int64 z else Z.to_int64 (Z.sub z two64) in
  Int64.float_of_bits i
let of_float_bits (f : float) : Z.t =
  let i = Int64.bits_of_float f in
  let z = Z.of_int64 i in if Z.sign z < 0 then Z.add z two64 else z
