#!/bin/sh
# builds the two model drivers from the Coq development: ocaml/pure/driver and ocaml/fast/driver
set -e
here=$(cd "$(dirname "$0")" && pwd)
coq=$here/../coq
for flavour in pure fast; do
  d=$here/$flavour
  mkdir -p "$d"
  cd "$d"
  rm -f model.ml model.mli
  if [ $flavour = pure ]; then v=ExtractPure; else v=ExtractFast; fi
  cp "$coq/Extract/$v.v" "$d/$v.v"
  timeout 600 coqc -Q "$coq" TV "$d/$v.v" >/dev/null
  rm -f "$d/$v.v" "$d/$v.vo" "$d/$v.vok" "$d/$v.vos" "$d/$v.glob" "$d/.$v.aux"
  cp "$here/zio_$flavour.ml" zio.ml
  cp "$here/driver.ml" driver.ml; cp "$here/model_z.ml" model_z.ml
  ocamlfind ocamlopt -package zarith -linkpkg -w -a -o driver model_z.ml model.mli model.ml zio.ml driver.ml
  rm -f *.cmi *.cmx *.o
done
echo "model drivers built"
