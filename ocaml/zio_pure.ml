(* conversions between decimal strings and the extracted (pure) Z *)
module ZA = Z
open Model
let rec pos_of_z (n : ZA.t) : positive =
  if ZA.equal n ZA.one then XH
  else if ZA.is_even n then XO (pos_of_z (ZA.shift_right n 1))
  else XI (pos_of_z (ZA.shift_right n 1))
let of_zt (n : ZA.t) : z =
  if ZA.sign n = 0 then Z0 else if ZA.sign n > 0 then Zpos (pos_of_z n) else Zneg (pos_of_z (ZA.neg n))
let rec z_of_pos (p : positive) : ZA.t = match p with
  | XH -> ZA.one
  | XO q -> ZA.shift_left (z_of_pos q) 1
  | XI q -> ZA.succ (ZA.shift_left (z_of_pos q) 1)
let to_zt (x : z) : ZA.t = match x with Z0 -> ZA.zero | Zpos p -> z_of_pos p | Zneg p -> ZA.neg (z_of_pos p)
let of_string s = of_zt (ZA.of_string s)
let to_string x = ZA.to_string (to_zt x)
