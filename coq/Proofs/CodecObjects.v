(* Proofs/CodecObjects.v — C05/C17/C18 on the object codecs: every importer is a well-behaved program,
   import inverts export (up to the variance normalisation of key material), structure of the key set exports. *)
From Coq Require Import ZArith Lia List Bool.
From TV Require Import Base.Int32 Codec.Stream Codec.Text Codec.Objects Proofs.CodecGen Proofs.CodecPrim Proofs.CodecText.
Import ListNotations.
Local Open Scope Z_scope.

Section WithDoubles.
Variable fmt_double : Z -> list Z.
Variable parse_double : list Z -> option Z.
(* the doubles for which the platform's text round trip is assumed (finite values; measured by the check) *)
Variable dok : Z -> Prop.
Hypothesis double_text_roundtrip : forall d, dok d -> parse_double (fmt_double d) = Some d.
Hypothesis double_text_plain : forall d, dok d -> val_ok (fmt_double d).
Variable t : transport.

Lemma val_ok_i64 z : val_ok (fmt_i64 z).
Proof. eapply Forall_impl; [|apply fmt_i64_chars]. intros c [->|[->|H]]; unfold NL, CR, SP; try lia.
  unfold is_digit in H. rewrite andb_true_iff, !Z.leb_le in H. lia. Qed.

Ltac keyok := split; [discriminate|unfold wordc; repeat constructor; cbn; lia].
Ltac titleok := unfold wordc; repeat constructor; cbn; lia.

Lemma i32_i64 z : is_i32 z -> - p63 <= z < p63.
Proof. unfold is_i32, p31, p63. lia. Qed.

(* ---------------- well-formedness ---------------- *)
Definition wf_lp (p : lweparams) : Prop := is_i32 (lp_n p) /\ dok (lp_amin p) /\ dok (lp_amax p).
Definition wf_tp (p : tlweparams) : Prop := is_i32 (tp_N p) /\ is_i32 (tp_k p) /\ dok (tp_amin p) /\ dok (tp_amax p).
Definition wf_gp (p : tgswparams) : Prop := wf_tp (gp_tlwe p) /\ is_i32 (gp_l p) /\ 0 <= gp_l p /\ is_i32 (gp_Bgbit p).

(* ---------------- parameter sections ---------------- *)
Lemma pure_prop_int m k z r : get_prop k m = Some (fmt_i64 z) -> is_i32 z -> forall {B} (f : Z -> prog B),
  run (pbind (prop_int m k) f) r = run (f z) r.
Proof. intros Hg Hz B f. unfold prop_int. rewrite Hg, stol_fmt_i64 by (now apply i32_i64). cbn [pbind]. now rewrite w32_id. Qed.
Lemma pure_prop_double m k d r : get_prop k m = Some (fmt_double d) -> dok d -> forall {B} (f : Z -> prog B),
  run (pbind (prop_double parse_double m k) f) r = run (f d) r.
Proof. intros Hg Hd B f. unfold prop_double. rewrite Hg, double_text_roundtrip by assumption. reflexivity. Qed.

Theorem rt_lweparams p : wf_lp p -> rt (imp_lweparams parse_double t) (exp_lweparams fmt_double p) p.
Proof. intros (Hn & Ha & Hb) r. unfold imp_lweparams, exp_lweparams. cbn [run].
  set (m := set_prop _ _ _).
  assert (Hm : m = [(K_alpha_max, fmt_double (lp_amax p)); (K_alpha_min, fmt_double (lp_amin p)); (K_n, fmt_i64 (lp_n p))]) by reflexivity.
  rewrite read_section_ok; [|titleok|].
  2:{ rewrite Hm. unfold props_ok. repeat (apply Forall_cons; [split; cbn [fst snd]; [keyok|auto using val_ok_i64]|]). constructor. }
  assert (Hr : replay_props m [] = m) by (rewrite Hm; reflexivity). rewrite Hr.
  unfold expect_title. cbn [fst snd]. rewrite list_eqb_refl. cbn [pbind].
  rewrite (pure_prop_int m K_n (lp_n p)) by (try assumption; rewrite Hm; reflexivity).
  rewrite (pure_prop_double m K_alpha_min (lp_amin p)) by (try assumption; rewrite Hm; reflexivity).
  rewrite (pure_prop_double m K_alpha_max (lp_amax p)) by (try assumption; rewrite Hm; reflexivity).
  cbn [run]. destruct p; reflexivity. Qed.

Theorem rt_tlweparams p : wf_tp p -> rt (imp_tlweparams parse_double t) (exp_tlweparams fmt_double p) p.
Proof. intros (HN & Hk & Ha & Hb) r. unfold imp_tlweparams, exp_tlweparams. cbn [run].
  set (m := set_prop _ _ _).
  assert (Hm : m = [(K_N, fmt_i64 (tp_N p)); (K_alpha_max, fmt_double (tp_amax p)); (K_alpha_min, fmt_double (tp_amin p)); (K_k, fmt_i64 (tp_k p))]) by reflexivity.
  assert (Hr : replay_props m [] = m) by (rewrite Hm; reflexivity).
  rewrite read_section_ok; [|titleok|].
  2:{ rewrite Hm. unfold props_ok. repeat (apply Forall_cons; [split; cbn [fst snd]; [keyok|auto using val_ok_i64]|]). constructor. }
  rewrite Hr. unfold expect_title. cbn [fst snd]. rewrite list_eqb_refl. cbn [pbind].
  rewrite (pure_prop_int m K_N (tp_N p)) by (try assumption; rewrite Hm; reflexivity).
  rewrite (pure_prop_int m K_k (tp_k p)) by (try assumption; rewrite Hm; reflexivity).
  rewrite (pure_prop_double m K_alpha_min (tp_amin p)) by (try assumption; rewrite Hm; reflexivity).
  rewrite (pure_prop_double m K_alpha_max (tp_amax p)) by (try assumption; rewrite Hm; reflexivity).
  cbn [run]. destruct p; reflexivity. Qed.

Lemma rt_tgsw_section tp l B : is_i32 l -> 0 <= l -> is_i32 B ->
  rt (imp_tgsw_section t tp) (exp_tgsw_section {| gp_tlwe := tp; gp_l := l; gp_Bgbit := B |}) {| gp_tlwe := tp; gp_l := l; gp_Bgbit := B |}.
Proof. intros Hl Hl0 HB r. unfold imp_tgsw_section, exp_tgsw_section. cbn [run gp_l gp_Bgbit].
  set (m := set_prop _ _ _).
  assert (Hm : m = [(K_Bgbit, fmt_i64 B); (K_l, fmt_i64 l)]) by reflexivity.
  assert (Hr : replay_props m [] = m) by (rewrite Hm; reflexivity).
  rewrite read_section_ok; [|titleok|].
  2:{ rewrite Hm. unfold props_ok. repeat (apply Forall_cons; [split; cbn [fst snd]; [keyok|auto using val_ok_i64]|]). constructor. }
  rewrite Hr. unfold expect_title. cbn [fst snd]. rewrite list_eqb_refl. cbn [pbind].
  rewrite (pure_prop_int m K_l l) by (try assumption; rewrite Hm; reflexivity).
  rewrite (pure_prop_int m K_Bgbit B) by (try assumption; rewrite Hm; reflexivity).
  unfold alloc_guard. destruct (Z.ltb_spec l 0); [lia|]. reflexivity. Qed.

Theorem rt_tgswparams p : wf_gp p -> rt (imp_tgswparams parse_double t) (exp_tgswparams fmt_double p) p.
Proof. intros (Htp & Hl & Hl0 & HB). unfold imp_tgswparams, exp_tgswparams.
  apply rt_pbind with (a := gp_tlwe p); [now apply rt_tlweparams|].
  destruct p as [tp l B]. now apply rt_tgsw_section. Qed.

Lemma rt_ks_section n kt b : is_i32 n -> is_i32 kt -> is_i32 b ->
  rt (imp_ks_section t) (exp_ks_section n kt b) (n, kt, b).
Proof. intros Hn Ht Hb r. unfold imp_ks_section, exp_ks_section. cbn [run].
  set (m := set_prop _ _ _).
  assert (Hm : m = [(K_basebit, fmt_i64 b); (K_n, fmt_i64 n); (K_t, fmt_i64 kt)]) by reflexivity.
  assert (Hr : replay_props m [] = m) by (rewrite Hm; reflexivity).
  rewrite read_section_ok; [|titleok|].
  2:{ rewrite Hm. unfold props_ok. repeat (apply Forall_cons; [split; cbn [fst snd]; [keyok|auto using val_ok_i64]|]). constructor. }
  rewrite Hr. unfold expect_title. cbn [fst snd]. rewrite list_eqb_refl. cbn [pbind].
  rewrite (pure_prop_int m K_n n) by (try assumption; rewrite Hm; reflexivity).
  rewrite (pure_prop_int m K_t kt) by (try assumption; rewrite Hm; reflexivity).
  rewrite (pure_prop_int m K_basebit b) by (try assumption; rewrite Hm; reflexivity).
  reflexivity. Qed.

Definition wf_ps (p : paramset) : Prop := is_i32 (ps_ks_t p) /\ is_i32 (ps_ks_basebit p) /\ wf_lp (ps_in p) /\ wf_gp (ps_gp p).
Theorem rt_paramset p : wf_ps p -> rt (imp_paramset parse_double t) (exp_paramset fmt_double p) p.
Proof. intros (Ht & Hb & Hlp & Hgp) r. unfold imp_paramset, exp_paramset, exp_gb_section. cbn [run].
  set (m := set_prop _ _ _).
  assert (Hm : m = [(K_ks_basebit, fmt_i64 (ps_ks_basebit p)); (K_ks_t, fmt_i64 (ps_ks_t p))]) by reflexivity.
  assert (Hr : replay_props m [] = m) by (rewrite Hm; reflexivity).
  rewrite <- app_assoc.
  rewrite read_section_ok; [|titleok|].
  2:{ rewrite Hm. unfold props_ok. repeat (apply Forall_cons; [split; cbn [fst snd]; [keyok|auto using val_ok_i64]|]). constructor. }
  rewrite Hr. unfold expect_title. cbn [fst snd]. rewrite list_eqb_refl. cbn [pbind].
  rewrite (pure_prop_int m K_ks_t (ps_ks_t p)) by (try assumption; rewrite Hm; reflexivity).
  rewrite (pure_prop_int m K_ks_basebit (ps_ks_basebit p)) by (try assumption; rewrite Hm; reflexivity).
  rewrite run_pbind, <- app_assoc, (rt_lweparams _ Hlp).
  rewrite run_pbind, (rt_tgswparams _ Hgp). cbn [run]. destruct p; reflexivity. Qed.

(* ---------------- binary sections ---------------- *)
Definition wf_poly (N : Z) (a : list Z) : Prop := length a = nat_of N /\ Forall is_i32 a.
Definition wf_f64 (v : Z) : Prop := 0 <= v < p64.
Definition wf_lwesample (n : Z) (s : lwesample) : Prop := wf_poly n (ls_a s) /\ is_i32 (ls_b s) /\ wf_f64 (ls_var s).
Definition wf_tlwesample (tp : tlweparams) (s : tlwesample) : Prop :=
  length (ts_polys s) = nat_of (tp_k tp + 1) /\ Forall (wf_poly (tp_N tp)) (ts_polys s) /\ wf_f64 (ts_var s).

Lemma rt_poly N a : wf_poly N a -> rt (read_i32s t (nat_of N)) (enc_i32s a) a.
Proof. intros [HL HA]. rewrite <- HL. now apply rt_read_i32s. Qed.

Theorem rt_lwesample n s : wf_lwesample n s -> rt (imp_lwesample t n) (exp_lwesample s) s.
Proof. intros (Ha & Hb & Hv). unfold imp_lwesample, exp_lwesample.
  apply rt_pbind with (a := tt); [apply rt_check_tag|].
  apply rt_pbind with (a := ls_a s); [now apply rt_poly|].
  apply rt_pbind with (a := ls_b s); [now apply rt_read_i32|].
  rewrite <- (app_nil_r (le64 (ls_var s))).
  apply rt_pbind with (a := ls_var s); [now apply rt_read_f64|]. destruct s. apply rt_done. Qed.

Lemma rt_polys cnt N ps : length ps = nat_of cnt -> Forall (wf_poly N) ps -> rt (imp_polys t cnt N) (exp_polys ps) ps.
Proof. intros HL HP. unfold imp_polys, exp_polys. rewrite <- HL. apply rt_prepeat.
  intros a Ha. rewrite Forall_forall in HP. now apply rt_poly, HP. Qed.

Theorem rt_tlwesample tp s : wf_tlwesample tp s -> rt (imp_tlwesample t tp) (exp_tlwesample s) s.
Proof. intros (HL & HP & Hv). unfold imp_tlwesample, exp_tlwesample.
  apply rt_pbind with (a := tt); [apply rt_check_tag|].
  apply rt_pbind with (a := ts_polys s); [now apply rt_polys|].
  rewrite <- (app_nil_r (le64 (ts_var s))).
  apply rt_pbind with (a := ts_var s); [now apply rt_read_f64|]. destruct s. apply rt_done. Qed.

Theorem rt_tgswsample gp rows : length rows = nat_of (kpl gp) -> Forall (wf_tlwesample (gp_tlwe gp)) rows ->
  rt (imp_tgswsample t gp) (exp_tgswsample rows) rows.
Proof. intros HL HR. unfold imp_tgswsample, exp_tgswsample.
  apply rt_pbind with (a := tt); [apply rt_check_tag|]. rewrite <- HL. apply rt_prepeat.
  intros a Ha. rewrite Forall_forall in HR. now apply rt_tlwesample, HR. Qed.

Lemma rt_lwekey_content n k : 0 <= n -> wf_poly n k -> rt (imp_lwekey_content t n) (exp_lwekey_content k) k.
Proof. intros Hn Hk. unfold imp_lwekey_content, exp_lwekey_content, alloc_guard.
  destruct (Z.ltb_spec n 0); [lia|].
  apply rt_pbind with (a := tt); [apply rt_check_tag|]. now apply rt_poly. Qed.
Theorem rt_lwekey k : wf_lp (lk_params k) -> 0 <= lp_n (lk_params k) -> wf_poly (lp_n (lk_params k)) (lk_key k) ->
  rt (imp_lwekey parse_double t) (exp_lwekey fmt_double k) k.
Proof. intros Hp Hn Hk. unfold imp_lwekey, exp_lwekey.
  apply rt_pbind with (a := lk_params k); [now apply rt_lweparams|].
  rewrite <- (app_nil_r (exp_lwekey_content (lk_key k))).
  apply rt_pbind with (a := lk_key k); [now apply rt_lwekey_content|]. destruct k. apply rt_done. Qed.

Lemma rt_tlwekey_content uid tp k : 0 <= tp_k tp -> 0 <= tp_N tp -> length k = nat_of (tp_k tp) -> Forall (wf_poly (tp_N tp)) k ->
  rt (imp_tlwekey_content t uid tp) (exp_tlwekey_content uid k) k.
Proof. intros Hk HN HL HP. unfold imp_tlwekey_content, exp_tlwekey_content, alloc_guard.
  destruct (Z.ltb_spec (tp_k tp) 0); [lia|]. destruct (Z.ltb_spec (tp_N tp) 0); [lia|].
  apply rt_pbind with (a := tt); [apply rt_check_tag|]. now apply rt_polys. Qed.
Definition wf_tkeypolys (tp : tlweparams) (k : list (list Z)) : Prop :=
  0 <= tp_k tp /\ 0 <= tp_N tp /\ length k = nat_of (tp_k tp) /\ Forall (wf_poly (tp_N tp)) k.
Theorem rt_tlwekey k : wf_tp (tk_params k) -> wf_tkeypolys (tk_params k) (tk_key k) ->
  rt (imp_tlwekey parse_double t) (exp_tlwekey fmt_double k) k.
Proof. intros Hp (H1 & H2 & H3 & H4). unfold imp_tlwekey, exp_tlwekey.
  apply rt_pbind with (a := tk_params k); [now apply rt_tlweparams|].
  rewrite <- (app_nil_r (exp_tlwekey_content _ (tk_key k))).
  apply rt_pbind with (a := tk_key k); [now apply rt_tlwekey_content|]. destruct k. apply rt_done. Qed.
Theorem rt_tgswkey k : wf_gp (gk_params k) -> wf_tkeypolys (gp_tlwe (gk_params k)) (gk_key k) ->
  rt (imp_tgswkey parse_double t) (exp_tgswkey fmt_double k) k.
Proof. intros Hp (H1 & H2 & H3 & H4). unfold imp_tgswkey, exp_tgswkey.
  apply rt_pbind with (a := gk_params k); [now apply rt_tgswparams|].
  rewrite <- (app_nil_r (exp_tlwekey_content _ (gk_key k))).
  apply rt_pbind with (a := gk_key k); [now apply rt_tlwekey_content|]. destruct k. apply rt_done. Qed.

(* ---------------- key-switching and bootstrapping keys: variance normalised ---------------- *)
Lemma max_var_range vs : Forall wf_f64 vs -> wf_f64 (max_var vs).
Proof. intro H. unfold max_var. destruct vs as [|v vs]; [unfold wf_f64, MINUS_ONE_BITS, p64; lia|].
  assert (G : forall l, Forall wf_f64 l -> wf_f64 (fold_right Z.max 0 l)).
  { induction 1 as [|x l Hx _ IH]; cbn [fold_right]; [unfold wf_f64, p64; lia|]. unfold wf_f64 in *. lia. }
  now apply G. Qed.

Definition wf_ksrows (nout : Z) (cnt : Z) (rows : list lwesample) : Prop :=
  length rows = nat_of cnt /\ Forall (wf_lwesample nout) rows.
Lemma rt_ks_content nout n kt b rows : wf_ksrows nout (ks_count n kt b) rows ->
  rt (imp_ks_content t nout n kt b) (exp_ks_content rows) (norm_ksrows rows).
Proof. intros (HL & HR). unfold imp_ks_content, exp_ks_content, norm_ksrows.
  set (v := max_var (map ls_var rows)).
  assert (Hv : wf_f64 v).
  { apply max_var_range. apply Forall_map. eapply Forall_impl; [|exact HR]. intros r (_ & _ & H). exact H. }
  apply rt_pbind with (a := tt); [apply rt_check_tag|].
  apply rt_pbind with (a := v); [now apply rt_read_f64|].
  rewrite <- HL. apply (rt_prepeat_map _ (fun r => enc_i32s (ls_a r) ++ le32 (ls_b r)) (fun r => {| ls_a := ls_a r; ls_b := ls_b r; ls_var := v |})).
  intros r Hr. rewrite Forall_forall in HR. destruct (HR r Hr) as (Ha & Hb & _).
  apply rt_pbind with (a := ls_a r); [now apply rt_poly|].
  rewrite <- (app_nil_r (le32 (ls_b r))).
  apply rt_pbind with (a := ls_b r); [now apply rt_read_i32|]. apply rt_done. Qed.

Definition norm_ks (k : kskey) : kskey :=
  {| ks_out := ks_out k; ks_n := ks_n k; ks_t := ks_t k; ks_basebit := ks_basebit k; ks_rows := norm_ksrows (ks_rows k) |}.
Definition wf_ks (k : kskey) : Prop :=
  wf_lp (ks_out k) /\ 0 <= lp_n (ks_out k) /\ is_i32 (ks_n k) /\ is_i32 (ks_t k) /\ is_i32 (ks_basebit k) /\
  0 <= ks_count (ks_n k) (ks_t k) (ks_basebit k) /\ wf_ksrows (lp_n (ks_out k)) (ks_count (ks_n k) (ks_t k) (ks_basebit k)) (ks_rows k).
Theorem rt_kskey k : wf_ks k -> rt (imp_kskey parse_double t) (exp_kskey fmt_double k) (norm_ks k).
Proof. intros (Hp & Hn0 & Hn & Ht & Hb & Hc & Hr). unfold imp_kskey, exp_kskey.
  apply rt_pbind with (a := ks_out k); [now apply rt_lweparams|]. unfold imp_kskey_with.
  apply rt_pbind with (a := (ks_n k, ks_t k, ks_basebit k)); [now apply rt_ks_section|].
  unfold alloc_guard. destruct (Z.ltb_spec (ks_count (ks_n k) (ks_t k) (ks_basebit k)) 0); [lia|].
  destruct (Z.ltb_spec (lp_n (ks_out k)) 0); [lia|].
  rewrite <- (app_nil_r (exp_ks_content (ks_rows k))).
  apply rt_pbind with (a := norm_ksrows (ks_rows k)); [now apply rt_ks_content|]. apply rt_done. Qed.

Definition wf_bkrows (tp : tlweparams) (cnt : Z) (rows : list tlwesample) : Prop :=
  length rows = nat_of cnt /\ Forall (wf_tlwesample tp) rows.
Lemma rt_bk_content nin gp rows : wf_bkrows (gp_tlwe gp) (w32 (nin * kpl gp)) rows ->
  rt (imp_bk_content t nin gp) (exp_bk_content rows) (norm_bkrows rows).
Proof. intros (HL & HR). unfold imp_bk_content, exp_bk_content, norm_bkrows.
  set (v := max_var (map ts_var rows)).
  assert (Hv : wf_f64 v).
  { apply max_var_range. apply Forall_map. eapply Forall_impl; [|exact HR]. intros r (_ & _ & H). exact H. }
  apply rt_pbind with (a := tt); [apply rt_check_tag|].
  apply rt_pbind with (a := v); [now apply rt_read_f64|].
  rewrite <- HL. apply (rt_prepeat_map _ (fun r => exp_polys (ts_polys r)) (fun r => {| ts_polys := ts_polys r; ts_var := v |})).
  intros r Hr. rewrite Forall_forall in HR. destruct (HR r Hr) as (Ha & Hb & _).
  rewrite <- (app_nil_r (exp_polys (ts_polys r))).
  apply rt_pbind with (a := ts_polys r); [now apply rt_polys|]. apply rt_done. Qed.

Definition norm_bk (b : bkey) : bkey :=
  {| bk_in := bk_in b; bk_gp := bk_gp b; bk_ks := norm_ks (bk_ks b); bk_rows := norm_bkrows (bk_rows b) |}.
(* a bootstrapping key as the library builds it: its key-switching key goes from the extracted key (N*k) to the input key *)
Definition wf_bk (b : bkey) : Prop :=
  let ks := bk_ks b in let gp := bk_gp b in let lp := bk_in b in
  ks_out ks = lp /\ ks_n ks = w32 (tp_N (gp_tlwe gp) * tp_k (gp_tlwe gp)) /\ is_i32 (ks_t ks) /\ is_i32 (ks_basebit ks) /\
  0 <= lp_n lp /\ 0 <= ks_count (ks_n ks) (ks_t ks) (ks_basebit ks) /\ 0 <= kpl gp /\
  wf_ksrows (lp_n lp) (ks_count (ks_n ks) (ks_t ks) (ks_basebit ks)) (ks_rows ks) /\
  wf_bkrows (gp_tlwe gp) (w32 (lp_n lp * kpl gp)) (bk_rows b).
Lemma rt_bk_body b : wf_bk b -> rt (imp_bk_body t (bk_in b) (bk_gp b)) (exp_bk_body b) (norm_bk b).
Proof. intros (Ho & Hn & Ht & Hb & Hn0 & Hc & Hk & Hkr & Hbr). unfold imp_bk_body, exp_bk_body.
  apply rt_pbind with (a := (ks_n (bk_ks b), ks_t (bk_ks b), ks_basebit (bk_ks b))).
  { apply rt_ks_section; try assumption. rewrite Hn. apply w32_range. }
  rewrite Hn at 1. rewrite Z.eqb_refl. cbn [negb].
  unfold alloc_guard. destruct (Z.ltb_spec (lp_n (bk_in b)) 0); [lia|].
  destruct (Z.ltb_spec (ks_count (ks_n (bk_ks b)) (ks_t (bk_ks b)) (ks_basebit (bk_ks b))) 0); [lia|].
  destruct (Z.ltb_spec (kpl (bk_gp b)) 0); [lia|].
  apply rt_pbind with (a := norm_ksrows (ks_rows (bk_ks b))); [now apply rt_ks_content|].
  rewrite <- (app_nil_r (exp_bk_content (bk_rows b))).
  apply rt_pbind with (a := norm_bkrows (bk_rows b)); [now apply rt_bk_content|].
  unfold norm_bk, norm_ks. rewrite Ho. apply rt_done. Qed.
Theorem rt_bkey b : wf_lp (bk_in b) -> wf_gp (bk_gp b) -> wf_bk b -> rt (imp_bkey parse_double t) (exp_bkey fmt_double b) (norm_bk b).
Proof. intros Hl Hg Hb. unfold imp_bkey, exp_bkey.
  apply rt_pbind with (a := bk_in b); [now apply rt_lweparams|].
  apply rt_pbind with (a := bk_gp b); [now apply rt_tgswparams|]. now apply rt_bk_body. Qed.

(* ---------------- key sets ---------------- *)
Definition wf_cloud (c : cloudkey) : Prop :=
  wf_ps (ck_params c) /\ bk_in (ck_bk c) = ps_in (ck_params c) /\ bk_gp (ck_bk c) = ps_gp (ck_params c) /\ wf_bk (ck_bk c).
Definition norm_cloud (c : cloudkey) : cloudkey := {| ck_params := ck_params c; ck_bk := norm_bk (ck_bk c) |}.
Theorem rt_cloud c : wf_cloud c -> rt (imp_cloud parse_double t) (exp_cloud fmt_double c) (norm_cloud c).
Proof. intros (Hp & Hi & Hg & Hb). unfold imp_cloud, exp_cloud.
  apply rt_pbind with (a := ck_params c); [now apply rt_paramset|].
  rewrite <- (app_nil_r (exp_bk_body (ck_bk c))).
  apply rt_pbind with (a := norm_bk (ck_bk c)); [rewrite <- Hi, <- Hg; now apply rt_bk_body|]. apply rt_done. Qed.

Definition wf_secret (s : secretkey) : Prop :=
  let p := ck_params (sk_cloud s) in
  wf_cloud (sk_cloud s) /\ wf_poly (lp_n (ps_in p)) (sk_lwe s) /\ wf_tkeypolys (gp_tlwe (ps_gp p)) (sk_tgsw s).
Definition norm_secret (s : secretkey) : secretkey := {| sk_cloud := norm_cloud (sk_cloud s); sk_lwe := sk_lwe s; sk_tgsw := sk_tgsw s |}.
Theorem rt_secret s : wf_secret s -> rt (imp_secret parse_double t) (exp_secret fmt_double s) (norm_secret s).
Proof. intros ((Hp & Hi & Hg & Hb) & Hl & (H1 & H2 & H3 & H4)). unfold imp_secret, exp_secret, exp_cloud.
  rewrite <- !app_assoc.
  apply rt_pbind with (a := ck_params (sk_cloud s)); [now apply rt_paramset|].
  apply rt_pbind with (a := norm_bk (ck_bk (sk_cloud s))); [rewrite <- Hi, <- Hg; now apply rt_bk_body|].
  apply rt_pbind with (a := sk_lwe s).
  { apply rt_lwekey_content; [|exact Hl]. destruct Hb as (_ & _ & _ & _ & Hn0 & _). rewrite <- Hi. exact Hn0. }
  rewrite <- (app_nil_r (exp_tlwekey_content _ (sk_tgsw s))).
  apply rt_pbind with (a := sk_tgsw s); [now apply rt_tlwekey_content|]. apply rt_done. Qed.
End WithDoubles.
