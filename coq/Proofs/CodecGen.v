(* Proofs/CodecGen.v — generic theory of importer programs: well-behaved readers, the truncation
   theorem (no clean run on a proper prefix of what a clean run consumes), round-trip combinators. *)
From Coq Require Import ZArith Lia List Bool.
From TV Require Import Base.Int32 Codec.Stream.
Import ListNotations.
Local Open Scope Z_scope.

Definition notclean {A} (r : outcome A) : Prop := match r with Stop _ => True | Ret _ s => good s = false end.

Lemma good_mk s : good s = true -> s = mk (rest s).
Proof. destruct s as [r e f]. unfold good, mk. cbn. destruct e, f; cbn; congruence. Qed.
Lemma good_mk_true r : good (mk r) = true. Proof. reflexivity. Qed.

Record wb {V} (o : op V) : Prop := {
  sticky : forall s v s', good s = false -> o s = Ret v s' -> good s' = false;
  suffix : forall s v s', o s = Ret v s' -> exists c, rest s = c ++ rest s';
  local  : forall c r v, o (mk (c ++ r)) = Ret v (mk r) -> forall r', o (mk (c ++ r')) = Ret v (mk r') }.

(* a shortfall is flagged: follows from locality and the suffix property *)
Lemma short {V} (o : op V) : wb o -> forall c r v, o (mk (c ++ r)) = Ret v (mk r) ->
  forall c' x t, c = c' ++ x :: t -> notclean (o (mk c')).
Proof. intros W c r v H c' x t Hc. destruct (o (mk c')) as [v' s''|h] eqn:E; cbn; [|exact I].
  destruct (good s'') eqn:G; [exfalso|reflexivity].
  pose proof (good_mk _ G) as Es. rewrite Es in E.
  destruct (suffix o W _ _ _ E) as [c'' Hc'']. cbn [rest mk] in Hc''.
  rewrite Hc'' in E.
  pose proof (local o W c'' (rest s'') v' E (rest s'' ++ x :: t ++ r)) as L.
  replace (c'' ++ rest s'' ++ x :: t ++ r) with (c ++ r) in L by (rewrite Hc, Hc'', <- !app_assoc; reflexivity).
  rewrite H in L. inversion L as [[Hv Hr]].
  apply (f_equal (@length Z)) in Hr. rewrite !app_length in Hr. cbn [length] in Hr. rewrite app_length in Hr. lia. Qed.

Inductive wbprog {A} : prog A -> Prop :=
| wb_done a : wbprog (Done a)
| wb_halt h : wbprog (Halt h)
| wb_bind V (o : op V) k : wb o -> (forall v, wbprog (k v)) -> wbprog (Bind o k).

Lemma run_sticky {A} (p : prog A) : wbprog p -> forall s, good s = false -> notclean (run p s).
Proof. induction 1 as [a|h|V o k W _ IH]; intros s Hs; cbn; auto.
  destruct (o s) as [v s'|h] eqn:E; cbn; auto. apply IH. eapply sticky; eauto. Qed.
Lemma run_suffix {A} (p : prog A) : wbprog p -> forall s a s', run p s = Ret a s' -> exists c, rest s = c ++ rest s'.
Proof. induction 1 as [a0|h|V o k W _ IH]; intros s a s' H; cbn in H.
  - inversion H; subst. exists []. reflexivity.
  - discriminate.
  - destruct (o s) as [v s1|h] eqn:E; [|discriminate].
    destruct (suffix o W _ _ _ E) as [c1 H1]. destruct (IH v _ _ _ H) as [c2 H2].
    exists (c1 ++ c2). rewrite H1, H2, app_assoc. reflexivity. Qed.

Lemma app_split {X} (c : list X) : forall s x t r1, c ++ r1 = s ++ x :: t ->
  (exists s2, s = c ++ s2 /\ r1 = s2 ++ x :: t) \/ (exists y u, c = s ++ y :: u).
Proof. induction c as [|b c IH]; intros s x t r1 H; cbn in *.
  - left. exists s. auto.
  - destruct s as [|b' s']; cbn in *.
    + right. eauto.
    + inversion H; subst. destruct (IH s' x t r1 H2) as [[s2 [-> ->]]|[y [u ->]]].
      * left. exists s2. auto. * right. eauto. Qed.

(* the truncation theorem: a run that cleanly consumes exactly c is never clean on a proper prefix of c,
   whatever follows c in the stream *)
Theorem prefix_never_clean {A} (p : prog A) : wbprog p -> forall c r a,
  run p (mk (c ++ r)) = Ret a (mk r) ->
  forall s x t, c = s ++ x :: t -> notclean (run p (mk s)).
Proof.
  induction 1 as [a0|h|V o k W Wk IH]; intros c r a Hrun s x t Hc; cbn in *.
  - inversion Hrun as [[Ha Hr]]. apply (f_equal (@length Z)) in Hr. rewrite app_length, Hc, app_length in Hr. cbn in Hr. lia.
  - discriminate.
  - destruct (o (mk (c ++ r))) as [v s1|h] eqn:E; [|discriminate].
    destruct (good s1) eqn:G1.
    2:{ pose proof (run_sticky (k v) (Wk v) s1 G1) as Hn. rewrite Hrun in Hn. cbn in Hn. discriminate. }
    pose proof (good_mk _ G1) as Es1. rewrite Es1 in E, Hrun.
    destruct (suffix o W _ _ _ E) as [c1 Hc1]. cbn [rest mk] in Hc1.
    destruct (run_suffix (k v) (Wk v) _ _ _ Hrun) as [c2 Hc2]. cbn [rest mk] in Hc2.
    assert (Hcc : c = c1 ++ c2).
    { rewrite Hc2, app_assoc in Hc1. now apply app_inv_tail in Hc1. }
    rewrite Hc1 in E.
    assert (Hsplit : c1 ++ c2 = s ++ x :: t) by (rewrite <- Hcc; exact Hc).
    destruct (app_split c1 s x t c2 Hsplit) as [[s2 [-> Hc2']]|[y [u Hcu]]].
    + rewrite (local o W c1 (rest s1) v E s2). rewrite Hc2 in Hrun. eapply IH; eauto.
    + pose proof (short o W c1 (rest s1) v E s y u Hcu) as Hs.
      destruct (o (mk s)) as [v' s''|h']; cbn; auto.
      apply run_sticky; auto.
Qed.

(* ---- sequencing ---- *)
Lemma run_pbind {A B} (p : prog A) (f : A -> prog B) s :
  run (pbind p f) s = match run p s with Ret a s' => run (f a) s' | Stop h => Stop h end.
Proof. revert s. induction p as [a|h|V o k IH]; intro s; cbn; auto.
  destruct (o s) as [v s'|h]; auto. Qed.
Lemma wb_pbind {A B} (p : prog A) (f : A -> prog B) : wbprog p -> (forall a, wbprog (f a)) -> wbprog (pbind p f).
Proof. induction 1 as [a|h|V o k W _ IH]; intro Hf; cbn; [apply Hf|constructor|].
  constructor; auto. Qed.
Lemma wb_prepeat {A} n (p : prog A) : wbprog p -> wbprog (prepeat n p).
Proof. intro H. induction n as [|n IH]; cbn; [constructor|].
  apply wb_pbind; [exact H|]. intro a. apply wb_pbind; [exact IH|]. intro l. constructor. Qed.

(* ---- round trip ---- *)
Definition rt {A} (p : prog A) (e : list Z) (a : A) : Prop := forall r, run p (mk (e ++ r)) = Ret a (mk r).
Lemma rt_done {A} (a : A) : rt (Done a) [] a.
Proof. intro r. reflexivity. Qed.
Lemma rt_pbind {A B} (p : prog A) (f : A -> prog B) e1 e2 a b : rt p e1 a -> rt (f a) e2 b -> rt (pbind p f) (e1 ++ e2) b.
Proof. intros H1 H2 r. rewrite run_pbind, <- app_assoc, H1. apply H2. Qed.
Lemma rt_bind {A V} (o : op V) (k : V -> prog A) e1 e2 v b :
  (forall r, o (mk (e1 ++ r)) = Ret v (mk r)) -> rt (k v) e2 b -> rt (Bind o k) (e1 ++ e2) b.
Proof. intros H1 H2 r. cbn. rewrite <- app_assoc, H1. apply H2. Qed.
Lemma rt_prepeat {A} (p : prog A) (enc : A -> list Z) : forall l, (forall a, In a l -> rt p (enc a) a) ->
  rt (prepeat (length l) p) (concat (map enc l)) l.
Proof. induction l as [|a l IH]; intro H; cbn [length prepeat map concat]; [apply rt_done|].
  apply rt_pbind with (a := a); [apply H; now left|].
  rewrite <- (app_nil_r (concat (map enc l))).
  apply rt_pbind with (a := l); [apply IH; intros; apply H; now right|apply rt_done]. Qed.
Lemma rt_prepeat_map {A B} (p : prog B) (enc : A -> list Z) (g : A -> B) : forall l, (forall a, In a l -> rt p (enc a) (g a)) ->
  rt (prepeat (length l) p) (concat (map enc l)) (map g l).
Proof. induction l as [|a l IH]; intro H; cbn [length prepeat map concat]; [apply rt_done|].
  apply rt_pbind with (a := g a); [apply H; now left|].
  rewrite <- (app_nil_r (concat (map enc l))).
  apply rt_pbind with (a := map g l); [apply IH; intros; apply H; now right|apply rt_done]. Qed.
Lemma rt_ext {A} (p : prog A) e e' a : e = e' -> rt p e a -> rt p e' a.
Proof. intros ->. auto. Qed.

(* a clean complete run implies every truncation is flagged *)
Corollary rt_never_clean {A} (p : prog A) e a : wbprog p -> rt p e a ->
  forall s x t, e = s ++ x :: t -> notclean (run p (mk s)).
Proof. intros W H s x t He. apply (prefix_never_clean p W e [] a) with (x := x) (t := t); [|exact He].
  specialize (H []). exact H. Qed.
