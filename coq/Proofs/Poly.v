(* Proofs/Poly.v — C11: products and monomial multiplications are exact in Z[X]/(X^N+1) mod 2^32. *)
From Coq Require Import ZArith Lia List Bool.
From TV Require Import Base.Int32 Base.Sums Ring.NegaRing Model.Lwe Model.Poly Proofs.Lwe.
Import ListNotations.
Local Open Scope Z_scope.

(* ---- checked construction ---- *)
Lemma all_some_map_ok {A} (f : nat -> option A) (g : nat -> A) : forall l,
  (forall i, In i l -> f i = Some (g i)) -> all_some (map f l) = Some (map g l).
Proof. induction l as [|x l IH]; intro H; cbn [map all_some]; [reflexivity|].
  rewrite (H x (or_introl eq_refl)). rewrite IH by (intros; apply H; now right). reflexivity. Qed.

Lemma build_ok N f g : (forall i, (i < N)%nat -> f (Z.of_nat i) = Some (g i)) ->
  build N f = Some (map g (seq 0 N)).
Proof. intro H. unfold build. apply (all_some_map_ok (fun i => f (Z.of_nat i)) g).
  intros i Hi. apply in_seq in Hi. apply H. lia. Qed.

Lemma getz_ok v i : (i < length v)%nat -> getz v (Z.of_nat i) = Some (nth i v 0).
Proof. intro H. unfold getz. destruct (Z.ltb_spec (Z.of_nat i) 0); [lia|].
  rewrite Nat2Z.id. apply nth_error_nth'. exact H. Qed.
Lemma getz_okz v z : 0 <= z < Z.of_nat (length v) -> getz v z = Some (nth (Z.to_nat z) v 0).
Proof. intro H. rewrite <- (Z2Nat.id z) at 1 by lia. apply getz_ok. lia. Qed.

Lemma nth_map_seq (g : nat -> Z) N i : (i < N)%nat -> nth i (map g (seq 0 N)) 0 = g i.
Proof. intro H. rewrite nth_indep with (d' := g 0%nat) by (rewrite map_length, seq_length; lia).
  rewrite map_nth. rewrite seq_nth by lia. reflexivity. Qed.

(* ---- monomial multiplication ---- *)
Section Mono.
Variable src : list Z.
Let N := length src.
Hypothesis Npos : (0 < N)%nat.

(* closed form of the result for 0 <= a < 2N *)
Definition xai_coeff (a i : nat) : Z :=
  if (a <? N)%nat then (if (i <? a)%nat then w32 (- nth (N - a + i) src 0) else nth (i - a) src 0)
  else (if (i <? a - N)%nat then nth (N - (a - N) + i) src 0 else w32 (- nth (i - (a - N)) src 0)).

Theorem mulByXai_ok a : (a < 2 * N)%nat ->
  mulByXai (Z.of_nat a) src = Some (map (xai_coeff a) (seq 0 N)).
Proof. intro Ha. unfold mulByXai. fold N. unfold xai_coeff.
  destruct (Z.ltb_spec (Z.of_nat a) (Z.of_nat N)) as [H|H].
  - destruct (Nat.ltb_spec a N); [|lia]. apply build_ok. intros i Hi.
    destruct (Z.ltb_spec (Z.of_nat i) (Z.of_nat a)); destruct (Nat.ltb_spec i a); try lia.
    + rewrite getz_okz by (subst N; lia). cbn [oneg option_map]. repeat f_equal; lia.
    + rewrite getz_okz by (subst N; lia). repeat f_equal; lia.
  - destruct (Nat.ltb_spec a N); [lia|]. apply build_ok. intros i Hi.
    destruct (Z.ltb_spec (Z.of_nat i) (Z.of_nat a - Z.of_nat N)); destruct (Nat.ltb_spec i (a - N)); try lia.
    + rewrite getz_okz by (subst N; lia). repeat f_equal; lia.
    + rewrite getz_okz by (subst N; lia). cbn [oneg option_map]. repeat f_equal; lia. Qed.

(* the closed form is the a-fold negacyclic shift, i.e. multiplication by X^a in Z[X]/(X^N+1) *)
Theorem xai_is_shift a i : (a < 2 * N)%nat -> (i < N)%nat ->
  eqm32 (xai_coeff a i) (Shn N a (ofl src) i).
Proof. intros Ha Hi. unfold xai_coeff. destruct (Nat.ltb_spec a N) as [H|H].
  - rewrite (Shn_closed N Npos a (ofl src) ltac:(lia) i Hi). unfold ofl.
    destruct (i <? a)%nat; [apply w32_eqm|apply eqm32_refl].
  - replace (Shn N a (ofl src) i) with (Shn N ((a - N) + N) (ofl src) i) by (f_equal; lia).
    rewrite (Shn_add N (a - N)%nat N (ofl src) i).
    rewrite (Shn_extN N Npos (a - N)%nat _ _ (ShN_opp N Npos (ofl src)) i Hi).
    rewrite (Shn_closed N Npos (a - N)%nat (vopp (ofl src)) ltac:(lia) i Hi). unfold vopp, ofl.
    destruct (i <? a - N)%nat.
    + rewrite Z.opp_involutive. apply eqm32_refl.
    + apply w32_eqm. Qed.

(* (X^a - 1) * src *)
Theorem mulByXaiMinusOne_ok a : (a < 2 * N)%nat ->
  mulByXaiMinusOne (Z.of_nat a) src = Some (map (fun i => w32 (xai_coeff a i - nth i src 0)) (seq 0 N)).
Proof. intro Ha. unfold mulByXaiMinusOne. fold N. unfold xai_coeff.
  destruct (Z.ltb_spec (Z.of_nat a) (Z.of_nat N)) as [H|H].
  - destruct (Nat.ltb_spec a N); [|lia]. apply build_ok. intros i Hi.
    destruct (Z.ltb_spec (Z.of_nat i) (Z.of_nat a)); destruct (Nat.ltb_spec i a); try lia.
    + rewrite getz_okz by (subst N; lia). rewrite getz_ok by (subst N; lia). cbn [oneg option_map osub].
      repeat f_equal; lia.
    + rewrite getz_okz by (subst N; lia). rewrite getz_ok by (subst N; lia). cbn [osub]. repeat f_equal; lia.
  - destruct (Nat.ltb_spec a N); [lia|]. apply build_ok. intros i Hi.
    destruct (Z.ltb_spec (Z.of_nat i) (Z.of_nat a - Z.of_nat N)); destruct (Nat.ltb_spec i (a - N)); try lia.
    + rewrite getz_okz by (subst N; lia). rewrite getz_ok by (subst N; lia). cbn [osub]. repeat f_equal; lia.
    + rewrite getz_okz by (subst N; lia). rewrite getz_ok by (subst N; lia). cbn [oneg option_map osub].
      repeat f_equal; lia. Qed.
End Mono.

(* ---- group law of monomials: X^a X^b = X^((a+b) mod 2N), X^N = -1 ---- *)
Theorem Xai_group N (HN : (0 < N)%nat) a b f : eqN N (Shn N a (Shn N b f)) (Shn N ((a + b) mod (2 * N)) f).
Proof.
  assert (Hper : forall q r g, eqN N (Shn N (q * (2 * N) + r) g) (Shn N r g)).
  { induction q as [|q IH]; intros r g; [apply eqN_refl || (intros i Hi; reflexivity)|].
    replace (S q * (2 * N) + r)%nat with ((N + N) + (q * (2 * N) + r))%nat by lia.
    eapply eqN_trans; [apply eqv_eqN, Shn_add|].
    eapply eqN_trans; [apply (Shn_2N N HN)|]. apply IH. }
  eapply eqN_trans; [apply eqv_eqN; intro i; symmetry; apply Shn_add|].
  intros i Hi. pose proof (Nat.div_mod (a + b) (2 * N) ltac:(lia)) as E.
  replace (Shn N (a + b) f i) with (Shn N ((a + b) / (2 * N) * (2 * N) + (a + b) mod (2 * N)) f i) by (f_equal; lia).
  apply Hper. exact Hi. Qed.

Theorem X_pow_N_is_minus_one N (HN : (0 < N)%nat) f : eqN N (Shn N N f) (vopp f).
Proof. now apply ShN_opp. Qed.

(* ---- schoolbook product: the executable model computes the convolution formula of the C loops,
        which is the product of the ring ---- *)
Theorem poly_mul_is_negaconv a b i : length a = length b -> (i < length a)%nat ->
  nth i (poly_mul a b) 0 = w32 (negaconv (length a) (ofl a) (ofl b) i).
Proof. intros Hl Hi. unfold poly_mul.
  assert (HN : (0 < length a)%nat) by lia.
  rewrite nth_indep with (d' := w32 0) by (rewrite map_length, (lact_length (length a) HN); lia).
  rewrite map_nth. f_equal. apply (lact_is_negaconv (length a) HN a b eq_refl (eq_sym Hl) i Hi). Qed.

Theorem poly_mul_is_ring_mul a b i : length a = length b -> (i < length a)%nat ->
  nth i (poly_mul a b) 0 = w32 (mul (length a) a b i).
Proof. intros Hl Hi. rewrite poly_mul_is_negaconv by assumption. f_equal. symmetry.
  apply mul_is_negaconv; lia. Qed.

Theorem poly_addmul_spec r a b i : length a = length b -> length r = length a -> (i < length a)%nat ->
  nth i (poly_addmul r a b) 0 = w32 (nth i r 0 + mul (length a) a b i).
Proof. intros Hl Hr Hi. unfold poly_addmul. assert (HN : (0 < length a)%nat) by lia.
  assert (Hla : length (lact a b) = length a) by (rewrite (lact_length (length a) HN); lia).
  rewrite nth_zipw by lia. f_equal. f_equal.
  pose proof (lact_is_negaconv (length a) HN a b eq_refl (eq_sym Hl) i Hi) as H. unfold ofl in H at 1. rewrite H.
  symmetry. apply mul_is_negaconv; lia. Qed.
Theorem poly_submul_spec r a b i : length a = length b -> length r = length a -> (i < length a)%nat ->
  nth i (poly_submul r a b) 0 = w32 (nth i r 0 - mul (length a) a b i).
Proof. intros Hl Hr Hi. unfold poly_submul. assert (HN : (0 < length a)%nat) by lia.
  assert (Hla : length (lact a b) = length a) by (rewrite (lact_length (length a) HN); lia).
  rewrite nth_zipw by lia. f_equal. f_equal.
  pose proof (lact_is_negaconv (length a) HN a b eq_refl (eq_sym Hl) i Hi) as H. unfold ofl in H at 1. rewrite H.
  symmetry. apply mul_is_negaconv; lia. Qed.

(* coefficient-wise operations are the ring operations mod 2^32, for every p incl. INT32_MIN *)
Theorem poly_addmulz_spec a p b i : length a = length b -> (i < length a)%nat ->
  nth i (poly_addmulz a p b) 0 = w32 (nth i a 0 + p * nth i b 0).
Proof. intros Hl Hi. unfold poly_addmulz. rewrite nth_zipw by lia. apply w32_add_r. Qed.
Theorem poly_submulz_spec a p b i : length a = length b -> (i < length a)%nat ->
  nth i (poly_submulz a p b) 0 = w32 (nth i a 0 - p * nth i b 0).
Proof. intros Hl Hi. unfold poly_submulz. rewrite nth_zipw by lia. apply w32_sub_r. Qed.
Theorem poly_add_spec a b i : length a = length b -> (i < length a)%nat ->
  nth i (poly_add a b) 0 = w32 (nth i a 0 + nth i b 0).
Proof. intros Hl Hi. unfold poly_add. now rewrite nth_zipw by lia. Qed.
Theorem poly_sub_spec a b i : length a = length b -> (i < length a)%nat ->
  nth i (poly_sub a b) 0 = w32 (nth i a 0 - nth i b 0).
Proof. intros Hl Hi. unfold poly_sub. now rewrite nth_zipw by lia. Qed.
