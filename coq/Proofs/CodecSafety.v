(* Proofs/CodecSafety.v — every importer is a well-behaved program (hence never clean on a proper prefix
   of a clean input); mistyped sections abort; structure of the key-set exports (C17). *)
From Coq Require Import ZArith Lia List Bool.
From TV Require Import Base.Int32 Codec.Stream Codec.Text Codec.Objects Proofs.CodecGen Proofs.CodecPrim Proofs.CodecText Proofs.CodecObjects.
Import ListNotations.
Local Open Scope Z_scope.

Section Safety.
Variable parse_double : list Z -> option Z.
Variable t : transport.

Ltac wbp := repeat first
  [ apply wb_pbind | apply wb_prepeat | apply wb_check_tag | apply wb_read_i32s | apply wb_read_i32 | apply wb_read_f64
  | constructor | apply wb_read_section | intro ].

Lemma wb_expect_title T sec : wbprog (expect_title T sec).
Proof. unfold expect_title. destruct (list_eqb _ _); constructor. Qed.
Lemma wb_prop_int m k : wbprog (prop_int m k).
Proof. unfold prop_int. destruct (get_prop k m); [|constructor]. destruct (stol l); constructor. Qed.
Lemma wb_prop_double m k : wbprog (prop_double parse_double m k).
Proof. unfold prop_double. destruct (get_prop k m); [|constructor]. destruct (parse_double l); constructor. Qed.
Lemma wb_alloc_guard {A} z (p : prog A) : wbprog p -> wbprog (alloc_guard z p).
Proof. intro H. unfold alloc_guard. destruct (z <? 0); [constructor|exact H]. Qed.

Hint Resolve wb_expect_title wb_prop_int wb_prop_double wb_check_tag wb_read_i32s wb_read_i32 wb_read_f64 wb_read_section : wbdb.

Lemma wb_lweparams : wbprog (imp_lweparams parse_double t).
Proof. unfold imp_lweparams. constructor; [apply wb_read_section|]. intro sec.
  apply wb_pbind; [apply wb_expect_title|]. intro m.
  apply wb_pbind; [apply wb_prop_int|]. intro n.
  apply wb_pbind; [apply wb_prop_double|]. intro a.
  apply wb_pbind; [apply wb_prop_double|]. intro b. constructor. Qed.
Lemma wb_tlweparams : wbprog (imp_tlweparams parse_double t).
Proof. unfold imp_tlweparams. constructor; [apply wb_read_section|]. intro sec.
  apply wb_pbind; [apply wb_expect_title|]. intro m.
  apply wb_pbind; [apply wb_prop_int|]. intro N. apply wb_pbind; [apply wb_prop_int|]. intro k.
  apply wb_pbind; [apply wb_prop_double|]. intro a.
  apply wb_pbind; [apply wb_prop_double|]. intro b. constructor. Qed.
Lemma wb_tgsw_section tp : wbprog (imp_tgsw_section t tp).
Proof. unfold imp_tgsw_section. constructor; [apply wb_read_section|]. intro sec.
  apply wb_pbind; [apply wb_expect_title|]. intro m.
  apply wb_pbind; [apply wb_prop_int|]. intro l. apply wb_pbind; [apply wb_prop_int|]. intro B.
  apply wb_alloc_guard. constructor. Qed.
Lemma wb_tgswparams : wbprog (imp_tgswparams parse_double t).
Proof. unfold imp_tgswparams. apply wb_pbind; [apply wb_tlweparams|]. intro. apply wb_tgsw_section. Qed.
Lemma wb_ks_section : wbprog (imp_ks_section t).
Proof. unfold imp_ks_section. constructor; [apply wb_read_section|]. intro sec.
  apply wb_pbind; [apply wb_expect_title|]. intro m.
  apply wb_pbind; [apply wb_prop_int|]. intro n. apply wb_pbind; [apply wb_prop_int|]. intro k.
  apply wb_pbind; [apply wb_prop_int|]. intro b. constructor. Qed.
Lemma wb_paramset : wbprog (imp_paramset parse_double t).
Proof. unfold imp_paramset. constructor; [apply wb_read_section|]. intro sec.
  apply wb_pbind; [apply wb_expect_title|]. intro m.
  apply wb_pbind; [apply wb_prop_int|]. intro a. apply wb_pbind; [apply wb_prop_int|]. intro b.
  apply wb_pbind; [apply wb_lweparams|]. intro lp. apply wb_pbind; [apply wb_tgswparams|]. intro gp. constructor. Qed.

Lemma wb_lwesample n : wbprog (imp_lwesample t n).
Proof. unfold imp_lwesample. apply wb_pbind; [apply wb_check_tag|]. intro.
  apply wb_pbind; [apply wb_read_i32s|]. intro. apply wb_pbind; [apply wb_read_i32|]. intro.
  apply wb_pbind; [apply wb_read_f64|]. intro. constructor. Qed.
Lemma wb_polys c N : wbprog (imp_polys t c N).
Proof. unfold imp_polys. apply wb_prepeat, wb_read_i32s. Qed.
Lemma wb_tlwesample tp : wbprog (imp_tlwesample t tp).
Proof. unfold imp_tlwesample. apply wb_pbind; [apply wb_check_tag|]. intro.
  apply wb_pbind; [apply wb_polys|]. intro. apply wb_pbind; [apply wb_read_f64|]. intro. constructor. Qed.
Lemma wb_tgswsample gp : wbprog (imp_tgswsample t gp).
Proof. unfold imp_tgswsample. apply wb_pbind; [apply wb_check_tag|]. intro. apply wb_prepeat, wb_tlwesample. Qed.
Lemma wb_lwekey_content n : wbprog (imp_lwekey_content t n).
Proof. unfold imp_lwekey_content. apply wb_alloc_guard. apply wb_pbind; [apply wb_check_tag|]. intro. apply wb_read_i32s. Qed.
Lemma wb_lwekey : wbprog (imp_lwekey parse_double t).
Proof. unfold imp_lwekey. apply wb_pbind; [apply wb_lweparams|]. intro. apply wb_pbind; [apply wb_lwekey_content|]. intro. constructor. Qed.
Lemma wb_tlwekey_content uid tp : wbprog (imp_tlwekey_content t uid tp).
Proof. unfold imp_tlwekey_content. do 2 apply wb_alloc_guard. apply wb_pbind; [apply wb_check_tag|]. intro. apply wb_polys. Qed.
Lemma wb_tlwekey : wbprog (imp_tlwekey parse_double t).
Proof. unfold imp_tlwekey. apply wb_pbind; [apply wb_tlweparams|]. intro. apply wb_pbind; [apply wb_tlwekey_content|]. intro. constructor. Qed.
Lemma wb_tgswkey : wbprog (imp_tgswkey parse_double t).
Proof. unfold imp_tgswkey. apply wb_pbind; [apply wb_tgswparams|]. intro. apply wb_pbind; [apply wb_tlwekey_content|]. intro. constructor. Qed.
Lemma wb_ks_content nout n kt b : wbprog (imp_ks_content t nout n kt b).
Proof. unfold imp_ks_content. apply wb_pbind; [apply wb_check_tag|]. intro. apply wb_pbind; [apply wb_read_f64|]. intro.
  apply wb_prepeat. apply wb_pbind; [apply wb_read_i32s|]. intro. apply wb_pbind; [apply wb_read_i32|]. intro. constructor. Qed.
Lemma wb_kskey_with out : wbprog (imp_kskey_with t out).
Proof. unfold imp_kskey_with. apply wb_pbind; [apply wb_ks_section|]. intros [[n kt] b].
  do 2 apply wb_alloc_guard. apply wb_pbind; [apply wb_ks_content|]. intro. constructor. Qed.
Lemma wb_kskey : wbprog (imp_kskey parse_double t).
Proof. unfold imp_kskey. apply wb_pbind; [apply wb_lweparams|]. intro. apply wb_kskey_with. Qed.
Lemma wb_bk_content nin gp : wbprog (imp_bk_content t nin gp).
Proof. unfold imp_bk_content. apply wb_pbind; [apply wb_check_tag|]. intro. apply wb_pbind; [apply wb_read_f64|]. intro.
  apply wb_prepeat. apply wb_pbind; [apply wb_polys|]. intro. constructor. Qed.
Lemma wb_bk_body lp gp : wbprog (imp_bk_body t lp gp).
Proof. unfold imp_bk_body. apply wb_pbind; [apply wb_ks_section|]. intros [[n kt] b].
  destruct (negb _); [constructor|]. do 3 apply wb_alloc_guard.
  apply wb_pbind; [apply wb_ks_content|]. intro. apply wb_pbind; [apply wb_bk_content|]. intro. constructor. Qed.
Lemma wb_bkey : wbprog (imp_bkey parse_double t).
Proof. unfold imp_bkey. apply wb_pbind; [apply wb_lweparams|]. intro. apply wb_pbind; [apply wb_tgswparams|]. intro. apply wb_bk_body. Qed.
Lemma wb_cloud : wbprog (imp_cloud parse_double t).
Proof. unfold imp_cloud. apply wb_pbind; [apply wb_paramset|]. intro. apply wb_pbind; [apply wb_bk_body|]. intro. constructor. Qed.
Lemma wb_secret : wbprog (imp_secret parse_double t).
Proof. unfold imp_secret. apply wb_pbind; [apply wb_paramset|]. intro. apply wb_pbind; [apply wb_bk_body|]. intro.
  apply wb_pbind; [apply wb_lwekey_content|]. intro. apply wb_pbind; [apply wb_tlwekey_content|]. intro. constructor. Qed.

(* ---- mistyped input: a section whose title differs from the expected one aborts; a wrong binary tag
        aborts (FILE: always; C++ stream: always when the four tag bytes are present) ---- *)
Theorem wrong_title_aborts T sec : list_eqb (fst sec) T = false -> forall s {B} (f : props -> prog B),
  run (pbind (expect_title T sec) f) s = Stop Abort.
Proof. intros H s B f. unfold expect_title. rewrite H. reflexivity. Qed.

Theorem wrong_tag_aborts uid init bs r : length bs = 4%nat -> Forall (fun b => 0 <= b < 256) bs -> bs <> le32 uid ->
  run (check_tag t uid init) (mk (bs ++ r)) = Stop Abort.
Proof. intros HL HR Hne. unfold check_tag. cbn [run]. rewrite <- HL. rewrite read_raw_ok.
  rewrite merge_init_full by assumption.
  assert (Hm : existsb (fun xe => (0 <=? fst xe) && negb (fst xe =? snd xe)) (combine bs (le32 uid)) = true).
  { assert (L2 : length (le32 uid) = length bs) by (rewrite le32_length; lia).
    revert Hne L2. generalize (le32 uid). clear HL. induction HR as [|b bs Hb _ IH]; intros l Hne L2; destruct l as [|e l]; cbn in L2; try lia; [congruence|].
    cbn [combine existsb fst snd]. destruct (Z.eqb_spec b e) as [->|Hd].
    - cbn [negb]. rewrite andb_false_r. cbn [orb]. apply IH; [congruence|lia].
    - destruct (Z.leb_spec 0 b); [reflexivity|lia]. }
  rewrite Hm. reflexivity. Qed.
End Safety.

(* ---- C17: the cloud export is a strict prefix of the secret export; what follows is exactly the two key sections ---- *)
Theorem cloud_is_strict_prefix_of_secret fmt s :
  exp_secret fmt s = exp_cloud fmt (sk_cloud s) ++ (exp_lwekey_content (sk_lwe s) ++ exp_tlwekey_content UID_TGSW_KEY (sk_tgsw s))
  /\ exp_lwekey_content (sk_lwe s) ++ exp_tlwekey_content UID_TGSW_KEY (sk_tgsw s) <> [].
Proof. split; [unfold exp_secret; now rewrite app_assoc|].
  unfold exp_lwekey_content. unfold le32 at 1. cbn [le_bytes app]. discriminate. Qed.

(* provenance: the cloud export is, in order, the parameter sections, the key-switch section, one variance,
   the (a,b) of every key-switching row, one variance, the coefficients of every bootstrapping row —
   a function of these public fields only (the secret keys are not among its arguments) *)
Theorem cloud_export_provenance fmt c :
  exp_cloud fmt c =
  exp_paramset fmt (ck_params c) ++
  exp_ks_section (ks_n (bk_ks (ck_bk c))) (ks_t (bk_ks (ck_bk c))) (ks_basebit (bk_ks (ck_bk c))) ++
  (le32 UID_KS ++ le64 (max_var (map ls_var (ks_rows (bk_ks (ck_bk c))))) ++
     concat (map (fun r => enc_i32s (ls_a r) ++ le32 (ls_b r)) (ks_rows (bk_ks (ck_bk c))))) ++
  (le32 UID_BK ++ le64 (max_var (map ts_var (bk_rows (ck_bk c)))) ++
     concat (map (fun r => concat (map enc_i32s (ts_polys r))) (bk_rows (ck_bk c)))).
Proof. reflexivity. Qed.

(* exact size *)
Lemma concat_length_const {A} (f : A -> list Z) (w : nat) l : (forall a, In a l -> length (f a) = w) ->
  length (concat (map f l)) = (w * length l)%nat.
Proof. induction l as [|a l IH]; intro H; cbn [map concat length]; [lia|].
  rewrite app_length, H by (now left). rewrite IH by (intros; apply H; now right). lia. Qed.

Theorem cloud_export_length fmt c nout N k1 :
  (forall r, In r (ks_rows (bk_ks (ck_bk c))) -> length (ls_a r) = nout) ->
  (forall r, In r (bk_rows (ck_bk c)) -> length (ts_polys r) = k1 /\ forall p, In p (ts_polys r) -> length p = N) ->
  length (exp_cloud fmt c) =
  (length (exp_paramset fmt (ck_params c)) +
   length (exp_ks_section (ks_n (bk_ks (ck_bk c))) (ks_t (bk_ks (ck_bk c))) (ks_basebit (bk_ks (ck_bk c)))) +
   (12 + 4 * (nout + 1) * length (ks_rows (bk_ks (ck_bk c)))) +
   (12 + 4 * N * k1 * length (bk_rows (ck_bk c))))%nat.
Proof. intros Hks Hbk. rewrite cloud_export_provenance. rewrite !app_length, !le32_length, !le64_length.
  rewrite (concat_length_const _ (4 * (nout + 1))).
  2:{ intros r Hr. rewrite app_length, enc_i32s_length, le32_length, (Hks r Hr). lia. }
  rewrite (concat_length_const _ (4 * N * k1)).
  2:{ intros r Hr. destruct (Hbk r Hr) as [H1 H2]. rewrite (concat_length_const _ (4 * N)).
      - rewrite H1. lia.
      - intros p Hp. rewrite enc_i32s_length, (H2 p Hp). lia. }
  lia. Qed.
