(* Proofs/TgswDecrypt.v — C03 for TGSW samples: tGswSymDecrypt inverts tGswSymEncrypt.
   A TGSW encryption of the integer polynomial mu is the list Z0 of (k+1)*l TLWE encryptions of zero with mu*h_i
   added to component u of row (u,i) (tGswAddMuH).  tGswSymDecrypt decomposes the indicator 1/Msize in the gadget
   basis, takes sum_i dec_i * phase(row (k,i)) and switches every coefficient back to Z_Msize.  Theorem: the result is
   mu, for every N, k >= 1, valid (l,Bgbit), Msize of C13's domain, binary or not key, whenever Msize times
   (noise + Msize * truncation error + Msize) stays below 2^31 - Msize. *)
From Coq Require Import ZArith Lia List Bool.
From TV Require Import Base.Int32 Base.Sums Ring.NegaRing Model.Numeric Model.Lwe Model.Poly Model.Tlwe Model.Decomp Model.Tgsw
  Proofs.Numeric Proofs.Lwe Proofs.Poly Proofs.Tlwe Proofs.Digits Proofs.Decomp Proofs.Karatsuba Proofs.Tgsw Proofs.Gadget Proofs.Decrypt Model.Gates Model.Encrypt Proofs.Encrypt.
Import ListNotations.
Local Open Scope Z_scope.

(* ---- the gadget digits of 0 are 0 (finite sweep over the valid layouts) ---- *)
Definition layouts : list (nat * Z) := flat_map (fun B => map (fun l => (l, Z.of_nat B)) (seq 1 32)) (seq 1 30).
Definition zero_ok (lB : nat * Z) : bool :=
  if Z.of_nat (fst lB) * snd lB <=? 32 then forallb (fun p => spec_digit (fst lB) (snd lB) 0 p =? 0) (seq 0 (fst lB)) else true.
Lemma zero_sweep : forallb zero_ok layouts = true. Proof. vm_compute. reflexivity. Qed.
Lemma spec_digit_zero l B p : valid_layout l B -> (p < l)%nat -> spec_digit l B 0 p = 0.
Proof. intros (HB & Hl & HlB) Hp.
  assert (Hin : In (l, B) layouts).
  { unfold layouts. apply in_flat_map. exists (Z.to_nat B). split; [apply in_seq; lia|].
    apply in_map_iff. exists l. split; [f_equal; lia|apply in_seq; nia]. }
  pose proof (proj1 (forallb_forall zero_ok layouts) zero_sweep (l, B) Hin) as H. unfold zero_ok in H. cbn [fst snd] in H.
  destruct (Z.leb_spec (Z.of_nat l * B) 32); [|lia].
  pose proof (proj1 (forallb_forall _ _) H p ltac:(apply in_seq; lia)) as H'. cbv beta in H'. lia. Qed.

(* modSwitchFromTorus32 reads its argument modulo 2^32 *)
Lemma modSwitchFrom_eqm x y M : eqm32 x y -> modSwitchFrom x M = modSwitchFrom y M.
Proof. intro H. unfold modSwitchFrom, phase64, u32. rewrite H. reflexivity. Qed.

Lemma nth_map_gen {A B} (f : A -> B) (L : list A) j d d0 : (j < length L)%nat -> nth j (map f L) d = f (nth j L d0).
Proof. intro H. rewrite nth_indep with (d' := f d0) by (rewrite map_length; lia). apply map_nth. Qed.

Lemma map_repeat' {A B} (f : A -> B) x n : map f (repeat x n) = repeat (f x) n.
Proof. induction n as [|n IH]; [reflexivity|]. cbn. now rewrite IH. Qed.

Section TD.
Variable N : nat.
Hypothesis Npos : (0 < N)%nat.
Variable key : list (list Z).
Variable k : nat.
Hypothesis Hkey : wf_tkey N k key.
Hypothesis Hk1 : (1 <= k)%nat.
Variables (l : nat) (B : Z).
Hypothesis V : valid_layout l B.
Variable M : Z.
Hypothesis D : inDomain M.

Notation PH := (PHv N key).
Notation "f ~ g" := (eqNm N f g) (at level 70).

(* ---- a polynomial times a constant polynomial ---- *)
Lemma act_zeros n v : eqv (act N (repeat 0 n) v) vzero.
Proof. induction n as [|n IH]; intro j; [reflexivity|]. cbn [repeat act]. unfold vadd, vscale.
  rewrite (Sh_ext N _ vzero IH j). rewrite (Sh_vzero N j). unfold vzero. ring. Qed.
Lemma act_const c n v : eqv (act N (c :: repeat 0 n) v) (vscale c v).
Proof. intro j. cbn [act]. unfold vadd. rewrite (Sh_ext N _ vzero (act_zeros n v) j). rewrite (Sh_vzero N j). unfold vzero. ring. Qed.

(* ---- what tGswAddMuH does to a row of block k: the body polynomial gets mu * h_i ---- *)
Definition addmu (mu : list Z) (i : nat) (a : list Z) : list Z := zipw (fun x m => x + w32 (m * h32 B i)) a mu.
Lemma addmu_len mu i a : lenN N mu -> lenN N a -> lenN N (addmu mu i a).
Proof. unfold lenN, addmu. intros Hm Ha. rewrite zipw_length; lia. Qed.
Lemma ofl_addmu mu i a : lenN N mu -> lenN N a -> ofl (addmu mu i a) ~ vadd (ofl a) (vscale (hpow B i) (ofl mu)).
Proof. unfold lenN. intros Hm Ha j Hj. unfold addmu, zipw, ofl, vadd, vscale.
  rewrite (nth_map_gen _ _ j 0 (0, 0)) by (rewrite combine_length; lia).
  rewrite combine_nth by lia. cbn [fst snd].
  eapply eqm32_trans; [apply w32_eqm|]. apply eqm32_add; [apply eqm32_refl|].
  eapply eqm32_trans; [apply w32_eqm|]. rewrite Z.mul_comm. apply eqm32_mul; [apply w32_eqm|apply eqm32_refl]. Qed.

Lemma add_mu_h_nth mu (C : tgsw) p : (p < length C)%nat ->
  nth p (add_mu_h l B mu C) [] = upd_nth (p / l) (addmu mu (p mod l)) (nth p C []).
Proof. intro Hp. unfold add_mu_h.
  set (F := fun pr : nat * tsample => upd_nth (fst pr / l) (fun a => zipw (fun x m => x + w32 (m * h32 B (fst pr mod l))) a mu) (snd pr)).
  change (nth p (map F (combine (seq 0 (length C)) C)) [] = upd_nth (p / l) (addmu mu (p mod l)) (nth p C [])).
  assert (Hd : F (p, nth p C []) = upd_nth (p / l) (addmu mu (p mod l)) (nth p C [])) by reflexivity. rewrite <- Hd.
  rewrite nth_indep with (d' := F (0%nat, [])) by (rewrite map_length, combine_length, seq_length; lia).
  rewrite map_nth. f_equal. rewrite combine_nth by (now rewrite seq_length). rewrite seq_nth by lia. reflexivity. Qed.

Lemma lpos : (0 < l)%nat. Proof. destruct V as (_ & H & _). lia. Qed.

Lemma body_row_phase mu Z0 i : lenN N mu -> Forall (wf_tsample N k) Z0 -> length Z0 = (S k * l)%nat -> (i < l)%nat ->
  PH (nth (k * l + i) (add_mu_h l B mu Z0) []) ~ vadd (PH (nth (k * l + i) Z0 [])) (vscale (hpow B i) (ofl mu)).
Proof. intros Hmu HZ HlZ Hi. pose proof lpos as Hl.
  assert (Hp : (k * l + i < length Z0)%nat) by (rewrite HlZ; nia).
  rewrite add_mu_h_nth by exact Hp.
  assert (E1 : ((k * l + i) / l = k)%nat) by (rewrite Nat.div_add_l by lia; rewrite Nat.div_small by lia; lia).
  assert (E2 : ((k * l + i) mod l = i)%nat).
  { rewrite Nat.add_comm, Nat.mod_add by lia. apply Nat.mod_small, Hi. }
  rewrite E1, E2.
  assert (Hrow : wf_tsample N k (nth (k * l + i) Z0 [])) by (rewrite Forall_forall in HZ; apply HZ, nth_In, Hp).
  pose proof (PHv_upd N Npos key k Hkey (addmu mu i) (vscale (hpow B i) (ofl mu))
                (fun a Ha => ofl_addmu mu i a Hmu Ha) (nth (k * l + i) Z0 []) k Hrow (Nat.le_refl k)) as H.
  rewrite Nat.eqb_refl in H. exact H. Qed.

(* ---- the accumulation loop of tGswSymDecrypt ---- *)
Lemma phase_len c : wf_tsample N k c -> lenN N (tlwe_phase key c).
Proof. intro Hc. destruct Hkey as [Hkl Hkf]. destruct (wf_split N Npos k c Hc) as (m & b & -> & Hm & Hmf & Hb).
  unfold tlwe_phase. rewrite last_last, removelast_last.
  destruct (phase_aux_PHv N Npos key m (map w32 b)) as [H _]; [rewrite map_length; exact Hb|exact Hkf|exact Hmf|exact H]. Qed.

Lemma fold_decrypt : forall ds rows t, lenN N t -> Forall (lenN N) ds -> Forall (wf_tsample N k) rows ->
  lenN N (fold_left (fun t dr => poly_addmul t (fst dr) (tlwe_phase key (snd dr))) (combine ds rows) t) /\
  ofl (fold_left (fun t dr => poly_addmul t (fst dr) (tlwe_phase key (snd dr))) (combine ds rows) t) ~ vadd (ofl t) (rows_sum N PH ds rows).
Proof. induction ds as [|d ds IH]; intros rows t Ht Hd Hr.
  - cbn. split; [exact Ht|]. intros i _. unfold vadd, vzero. rewrite Z.add_0_r. apply eqm32_refl.
  - destruct rows as [|c rows]; [cbn; split; [exact Ht|]; intros i _; unfold vadd, vzero; rewrite Z.add_0_r; apply eqm32_refl|].
    apply Forall_cons_iff in Hr as [Hc Hr']. apply Forall_cons_iff in Hd as [Hd0 Hd'].
    cbn [combine fold_left fst snd rows_sum].
    pose proof (phase_len c Hc) as Hpl.
    destruct (IH rows (poly_addmul t d (tlwe_phase key c)) (poly_addmul_len N Npos t d _ Ht Hd0 Hpl) Hd' Hr') as [IH1 IH2].
    split; [exact IH1|]. eapply eqNm_trans; [exact IH2|].
    eapply eqNm_trans; [apply vadd_eqm; [apply (ofl_addmul N Npos); assumption|apply eqNm_refl]|].
    intros i Hi. unfold vadd.
    pose proof (act_eqm N Npos d _ _ (phase_is_PHv N Npos key k c Hc Hkey) i Hi) as E.
    replace (ofl t i + (act N d (PH c) i + rows_sum N PH ds rows i)) with (ofl t i + act N d (PH c) i + rows_sum N PH ds rows i) by ring.
    apply eqm32_add; [apply eqm32_add; [apply eqm32_refl|exact E]|apply eqm32_refl]. Qed.

(* ---- the digits of the indicator polynomial ---- *)
Definition indic : Z := modSwitchTo 1 M.
Definition cdig (i : nat) : Z := spec_digit l B indic i.
Lemma indic_digits : fst (decompH_scalar l B (indic :: repeat 0 (N - 1))) = map (fun i => cdig i :: repeat 0 (N - 1)) (seq 0 l).
Proof. rewrite (decompH_scalar_digits l B _ V). apply map_ext_in. intros p Hp. apply in_seq in Hp.
  cbn [map]. unfold cdig. f_equal. rewrite map_repeat'. f_equal. apply spec_digit_zero; [exact V|lia]. Qed.

Lemma key_hd_len : length (hd [] key) = N.
Proof. destruct Hkey as [Hl Hf]. destruct key as [|s r]; [cbn in Hl; lia|]. cbn [hd]. now inversion Hf. Qed.

Lemma nth_firstn_skipn {A} (d : A) (L : list A) a b i : (i < b)%nat -> nth i (firstn b (skipn a L)) d = nth (a + i) L d.
Proof. intro Hi.
  assert (F : forall b (L : list A) i, (i < b)%nat -> nth i (firstn b L) d = nth i L d).
  { clear. induction b as [|b IH]; intros L i Hi; [lia|]. destruct L as [|x L]; [destruct i; reflexivity|].
    destruct i as [|i]; [reflexivity|]. cbn [firstn nth]. apply IH. lia. }
  rewrite F by exact Hi. clear F. revert L. induction a as [|a IH]; intro L; [reflexivity|].
  destruct L as [|x L]; [cbn; destruct i; reflexivity|]. cbn [skipn Nat.add nth]. apply IH. Qed.

(* sum_i cdig_i * h_i = indic - err *)
Definition ierr : Z := decomp_err l B indic.
Lemma indic_recompose : eqm32 (zsum l (fun i => cdig i * hpow B i)) (indic - ierr).
Proof. exact (proj1 (decomp_recompose l B indic V)). Qed.

(* the value on which modSwitchFrom is applied, coefficient j *)
Theorem tgsw_decrypt_phase mu Z0 : lenN N mu -> Forall (wf_tsample N k) Z0 -> length Z0 = (S k * l)%nat ->
  exists tv, tgsw_decrypt l B key (add_mu_h l B mu Z0) M = map (fun c => modSwitchFrom c M) tv /\ lenN N tv /\
    ofl tv ~ vadd (vsum l (fun i => vscale (cdig i) (PH (nth (k * l + i) Z0 [])))) (vscale (indic - ierr) (ofl mu)).
Proof. intros Hmu HZ HlZ. pose proof lpos as Hl. unfold tgsw_decrypt. destruct Hkey as [Hkl Hkf]. rewrite Hkl, key_hd_len.
  fold indic. rewrite indic_digits.
  set (C := add_mu_h l B mu Z0).
  assert (HlC : length C = (S k * l)%nat) by (unfold C, add_mu_h; rewrite map_length, combine_length, seq_length; lia).
  set (rows := firstn l (skipn (k * l) C)).
  set (ds := map (fun i => cdig i :: repeat 0 (N - 1)) (seq 0 l)).
  assert (Hdl : length ds = l) by (unfold ds; now rewrite map_length, seq_length).
  assert (Hrl : length rows = l) by (unfold rows; rewrite firstn_length, skipn_length; nia).
  assert (HCwf : Forall (wf_tsample N k) C).
  { apply Forall_forall. intros c Hc. apply (In_nth _ _ []) in Hc as (p & Hp & <-). unfold C. rewrite add_mu_h_nth by (unfold C, add_mu_h in Hp; rewrite map_length, combine_length, seq_length in Hp; lia).
    apply upd_wf; [intros a Ha; now apply addmu_len|].
    rewrite Forall_forall in HZ. apply HZ, nth_In. unfold C, add_mu_h in Hp; rewrite map_length, combine_length, seq_length in Hp; lia. }
  assert (Hrwf : Forall (wf_tsample N k) rows).
  { apply Forall_forall. intros c Hc. apply (In_nth _ _ []) in Hc as (i & Hi0 & <-). assert (Hi : (i < l)%nat) by (rewrite <- Hrl; exact Hi0).
    rewrite Forall_forall in HCwf.
    apply (eq_ind (nth (k * l + i) C []) (wf_tsample N k)); [apply HCwf, nth_In; nia|symmetry; unfold rows; apply nth_firstn_skipn, Hi]. }
  assert (Hdlen : Forall (lenN N) ds).
  { apply Forall_forall. intros d Hd. unfold ds in Hd. apply in_map_iff in Hd as (i & <- & _). unfold lenN. cbn [length]. rewrite repeat_length. lia. }
  destruct (fold_decrypt ds rows (repeat 0 N) (repeat_length 0 N) Hdlen Hrwf) as [Htl Htv].
  eexists. split; [reflexivity|]. split; [exact Htl|].
  eapply eqNm_trans; [exact Htv|].
  intros j Hj. unfold vadd. rewrite (ofl_zeros N j). unfold vzero. rewrite Z.add_0_l.
  rewrite (rows_sum_vsum N Npos PH ds rows ltac:(lia) j). rewrite Hdl.
  unfold vsum, vscale.
  (* per row *)
  eapply eqm32_trans.
  { apply zsum_eqm. intros i Hi.
    assert (Ed : nth i ds [] = cdig i :: repeat 0 (N - 1)).
    { unfold ds. rewrite nth_indep with (d' := (fun i => cdig i :: repeat 0 (N - 1)) 0%nat) by (now rewrite map_length, seq_length).
      rewrite (map_nth (fun i => cdig i :: repeat 0 (N - 1))). rewrite seq_nth by lia. reflexivity. }
    rewrite Ed. rewrite (act_const (cdig i) (N - 1) _ j). unfold vscale.
    assert (Er : nth i rows [] = nth (k * l + i) C []) by (unfold rows; now apply nth_firstn_skipn). rewrite Er.
    apply eqm32_mul; [apply eqm32_refl|]. unfold C. apply (body_row_phase mu Z0 i Hmu HZ HlZ Hi j Hj). }
  unfold vadd, vscale.
  rewrite (zsum_ext l _ (fun i => cdig i * PH (nth (k * l + i) Z0 []) j + ofl mu j * (cdig i * hpow B i))) by (intros; ring).
  rewrite zsum_add, zsum_scale. apply eqm32_add; [apply eqm32_refl|].
  rewrite (Z.mul_comm (indic - ierr)). apply eqm32_mul; [apply eqm32_refl|apply indic_recompose]. Qed.

(* C03 for TGSW: decryption returns the message polynomial *)
Theorem tgsw_decrypt_correct mu Z0 (noise : vec) : lenN N mu -> Forall (wf_tsample N k) Z0 -> length Z0 = (S k * l)%nat ->
  (forall j, (j < N)%nat -> 0 <= nth j mu 0 < M) ->
  vsum l (fun i => vscale (cdig i) (PH (nth (k * l + i) Z0 []))) ~ noise ->
  (forall j, (j < N)%nat -> M * (Z.abs (noise j) + M * pow2 (32 - Z.of_nat l * B) + M) + M + 1 < p31) ->
  tgsw_decrypt l B key (add_mu_h l B mu Z0) M = mu.
Proof. intros Hmu HZ HlZ Hrange Hnoise Hsmall.
  destruct (tgsw_decrypt_phase mu Z0 Hmu HZ HlZ) as (tv & -> & Htl & Htv).
  apply nth_ext with (d := modSwitchFrom 0 M) (d' := 0); [rewrite map_length; unfold lenN in *; lia|].
  rewrite map_length. intros j Hj. unfold lenN in Htl. rewrite Htl in Hj.
  rewrite (map_nth (fun c => modSwitchFrom c M)).
  pose proof (Hrange j Hj) as Hm. set (m := nth j mu 0) in *.
  pose proof (modSwitchTo_encT M D m Hm) as [Em _]. pose proof (modSwitchTo_encT M D 1 ltac:(destruct (goodM_range M (inDomain_good M D)); lia)) as [E1 _].
  pose proof (encT_scale M m Hm) as Hsc.
  pose proof (proj2 (decomp_recompose l B indic V)) as Herr. fold ierr in Herr.
  set (e := noise j - m * ierr - (encT M m - m * encT M 1)).
  rewrite (modSwitchFrom_eqm (nth j tv 0) (w32 (modSwitchTo m M + e)) M).
  - apply (modSwitchFrom_near M D m e Hm). specialize (Hsmall j Hj).
    assert (Z.abs e <= Z.abs (noise j) + M * pow2 (32 - Z.of_nat l * B) + M) by (unfold e; nia).
    destruct (goodM_range M (inDomain_good M D)). nia.
  - eapply eqm32_trans; [apply (Htv j Hj)|]. apply eqm32_sym. eapply eqm32_trans; [apply w32_eqm|].
    unfold vadd, vscale. change (ofl mu j) with m. unfold e.
    replace (modSwitchTo m M + (noise j - m * ierr - (encT M m - m * encT M 1)))
      with (noise j + ((modSwitchTo m M - encT M m) + m * (encT M 1 - ierr))) by ring.
    apply eqm32_add; [apply eqm32_sym, (Hnoise j Hj)|].
    replace ((indic - ierr) * m) with (0 + m * (indic - ierr)) by ring.
    apply eqm32_add.
    + rewrite Em. apply eqm32_iff_divide. replace (w32 (encT M m) - encT M m - 0) with (w32 (encT M m) - encT M m) by ring.
      apply eqm32_iff_divide, w32_eqm.
    + apply eqm32_mul; [apply eqm32_refl|]. apply eqm32_sub; [|apply eqm32_refl]. unfold indic. rewrite E1. apply eqm32_sym, w32_eqm. Qed.

(* with rows whose phases are within eta of zero the noise term is at most l * (Bg/2) * eta *)
Corollary tgsw_decrypt_correct_bounded mu Z0 eta (E : nat -> vec) : lenN N mu -> Forall (wf_tsample N k) Z0 -> length Z0 = (S k * l)%nat ->
  (forall j, (j < N)%nat -> 0 <= nth j mu 0 < M) ->
  (forall i, (i < l)%nat -> PH (nth (k * l + i) Z0 []) ~ E i /\ forall j, (j < N)%nat -> Z.abs (E i j) <= eta) ->
  M * (Z.of_nat l * halfBg B * eta + M * pow2 (32 - Z.of_nat l * B) + M) + M + 1 < p31 ->
  tgsw_decrypt l B key (add_mu_h l B mu Z0) M = mu.
Proof. intros Hmu HZ HlZ Hrange HE Hsmall.
  apply (tgsw_decrypt_correct mu Z0 (vsum l (fun i => vscale (cdig i) (E i)))); try assumption.
  - apply vsum_eqm. intros i Hi j Hj. unfold vscale. apply eqm32_mul; [apply eqm32_refl|apply (proj1 (HE i Hi) j Hj)].
  - intros j Hj. unfold vsum, vscale.
    assert (Hb : Z.abs (zsum l (fun i => cdig i * E i j)) <= zsum l (fun _ => halfBg B * eta)).
    { apply zsum_abs_le. intros i Hi. rewrite Z.abs_mul. pose proof (decomp_range l B indic i V Hi) as R. fold (cdig i) in R.
      pose proof (proj2 (HE i Hi) j Hj). assert (Z.abs (cdig i) <= halfBg B) by lia. pose proof (Z.abs_nonneg (E i j)). nia. }
    assert (Hc : zsum l (fun _ => halfBg B * eta) = Z.of_nat l * halfBg B * eta).
    { clear. induction l as [|n IH]; [cbn; ring|]. cbn [zsum]. rewrite IH. lia. }
    destruct (goodM_range M (inDomain_good M D)). nia. Qed.

(* ---- composition with tGswSymEncrypt: the rows are fresh TLWE encryptions of zero, whose phases are the converted draws ---- *)
Definition fresh_row (ds : list draw) (c : tsample) : Prop :=
  wf_tsample N k c /\ exists gs, length gs = N /\ PH c ~ ofl (map (gaussian32 0) gs) /\ forall g, In g gs -> In (DG (fst g) (snd g)) ds.
Lemma tgsw_encrypt_zero_spec : forall rows ds C r, tgsw_encrypt_zero rows key N ds = Some (C, r) ->
  length C = rows /\ Forall (fresh_row ds) C.
Proof using Npos Hkey. destruct Hkey as [Hkl Hkf]. induction rows as [|rows IH]; intros ds C r H; cbn [tgsw_encrypt_zero] in H.
  - inversion H; subst. split; [reflexivity|constructor].
  - destruct (tlwe_encrypt_zero key N ds) as [[c r1]|] eqn:E1; [|discriminate].
    destruct (tgsw_encrypt_zero rows key N r1) as [[C' r2]|] eqn:E2; [|discriminate]. inversion H; subst.
    destruct (IH _ _ _ E2) as [Hl HF].
    destruct (tlwe_encrypt_zero_spec N Npos key ds c r1 Hkf E1) as (gs & Hg & Hwf & Hds & Hph).
    split; [cbn [length]; now rewrite Hl|]. constructor.
    + split; [rewrite <- Hkl; exact Hwf|]. exists gs. split; [exact Hg|]. split; [exact Hph|].
      intros g Hin. rewrite Hds. apply in_or_app. left. apply in_map_iff. exists g. split; [reflexivity|exact Hin].
    + eapply Forall_impl; [|exact HF]. intros c' (Hw & gs' & Hg' & Hp' & Hin'). split; [exact Hw|]. exists gs'. split; [exact Hg'|]. split; [exact Hp'|].
      intros g Hin. rewrite Hds. apply in_or_app. right. apply in_or_app. right. apply Hin', Hin. Qed.

Theorem tgsw_decrypt_encrypt mu ds C r eta : lenN N mu -> (forall j, (j < N)%nat -> 0 <= nth j mu 0 < M) ->
  tgsw_sym_encrypt l B key N mu ds = Some (C, r) ->
  (forall g, In (DG (fst g) (snd g)) ds -> Z.abs (gaussian32 0 g) <= eta) ->
  M * (Z.of_nat l * halfBg B * eta + M * pow2 (32 - Z.of_nat l * B) + M) + M + 1 < p31 ->
  tgsw_decrypt l B key C M = mu.
Proof. intros Hmu Hrange H Heta Hsmall. unfold tgsw_sym_encrypt in H. pose proof Hkey as [Hkl Hkf]. rewrite Hkl in H.
  destruct (tgsw_encrypt_zero (S k * l) key N ds) as [[Z0 r1]|] eqn:E; [|discriminate]. inversion H; subst C r. clear H.
  destruct (tgsw_encrypt_zero_spec _ _ _ _ E) as [HlZ HF].
  pose proof lpos as Hl.
  assert (Hrow : forall i, (i < l)%nat -> fresh_row ds (nth (k * l + i) Z0 [])).
  { intros i Hi. rewrite Forall_forall in HF. apply HF, nth_In. rewrite HlZ. nia. }
  apply (tgsw_decrypt_correct_bounded mu Z0 eta
           (fun i j => match (lt_dec j N) with left _ => PH (nth (k * l + i) Z0 []) j - p32 * ((PH (nth (k * l + i) Z0 []) j + p31) / p32) | right _ => 0 end));
    try assumption.
  - eapply Forall_impl; [|exact HF]. intros c Hc. exact (proj1 Hc).
  - intros i Hi. destruct (Hrow i Hi) as (Hw & gs & Hg & Hp & Hin). split.
    + intros j Hj. destruct (lt_dec j N) as [_|]; [|lia]. apply eqm32_iff_divide.
      exists ((PH (nth (k * l + i) Z0 []) j + p31) / p32). ring.
    + intros j Hj. destruct (lt_dec j N) as [_|]; [|lia].
      (* the centred representative of the phase is the converted draw *)
      specialize (Hp j Hj). set (x := PH (nth (k * l + i) Z0 []) j) in *.
      assert (Eg : ofl (map (gaussian32 0) gs) j = gaussian32 0 (nth j gs (0, 0))).
      { unfold ofl. apply nth_map_gen. lia. }
      rewrite Eg in Hp. set (g := nth j gs (0, 0)) in *.
      assert (Hgin : In g gs) by (apply nth_In; lia).
      pose proof (Heta g (Hin g Hgin)) as Hb.
      assert (Ew : x - p32 * ((x + p31) / p32) = w32 x) by (unfold w32; rewrite Z.mod_eq by (unfold p32; lia); ring).
      rewrite Ew. rewrite (eqm32_w32 x (gaussian32 0 g) Hp). unfold gaussian32 at 1. rewrite w32_idem. exact Hb. Qed.
End TD.
