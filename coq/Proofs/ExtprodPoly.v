(* Proofs/ExtprodPoly.v — C09: the external product multiplies *polynomial* messages.
   tGswSymEncrypt / tGswNoiselessTrivial / tGswAddMuH put  mu * h_i  (a whole polynomial) on the block diagonal of the rows of
   zero-encryptions.  For every accumulator
       phase(C (x) acc) = mu * (phase(acc) - phase(eps(acc))) + sum_p dec_p(acc) * phase(Z_p)        (mod 2^32, in the ring)
   which is Gadget.extprod_message with the integer m replaced by the ring element mu. *)
From Coq Require Import ZArith Lia List Bool.
From TV Require Import Base.Int32 Base.Sums Ring.NegaRing Model.Lwe Model.Poly Model.Tlwe Model.Decomp Model.Tgsw
  Proofs.Lwe Proofs.Poly Proofs.Tlwe Proofs.Digits Proofs.Decomp Proofs.Karatsuba Proofs.Tgsw Proofs.Gadget Proofs.TgswDecrypt Proofs.BlindRotate Proofs.BootKey.
Import ListNotations.
Local Open Scope Z_scope.

Section EP.
Variable N : nat.
Hypothesis Npos : (0 < N)%nat.
Variable key : list (list Z).
Variable k : nat.
Hypothesis Hkey : wf_tkey N k key.
Variables (l : nat) (B : Z).
Hypothesis V : valid_layout l B.
Variable mu : list Z.
Hypothesis Hmu : lenN N mu.

Notation PH := (PHv N key).
Notation "f ~ g" := (eqNm N f g) (at level 70).

(* what tGswAddMuH does to one component of row (u,i) *)
Lemma addmu_len' i a : lenN N a -> lenN N (addmu B mu i a).
Proof. unfold lenN, addmu in *. intro Ha. rewrite zipw_length; lia. Qed.
Lemma ofl_addmu' i a : lenN N a -> ofl (addmu B mu i a) ~ vadd (ofl a) (vscale (hpow B i) (ofl mu)).
Proof. unfold lenN in *. intros Ha j Hj. unfold addmu, zipw, ofl, vadd, vscale.
  rewrite (nth_map_gen _ _ j 0 (0, 0)) by (rewrite combine_length, Ha, Hmu, Nat.min_id; exact Hj).
  rewrite combine_nth by (now rewrite Ha, Hmu). cbn [fst snd].
  eapply eqm32_trans; [apply w32_eqm|]. apply eqm32_add; [apply eqm32_refl|].
  eapply eqm32_trans; [apply w32_eqm|]. rewrite Z.mul_comm. apply eqm32_mul; [apply w32_eqm|apply eqm32_refl]. Qed.
Lemma add_mu_h_nth' (C : tgsw) p : (p < length C)%nat ->
  nth p (add_mu_h l B mu C) [] = upd_nth (p / l) (addmu B mu (p mod l)) (nth p C []).
Proof. intro Hp. unfold add_mu_h.
  set (F := fun pr : nat * tsample => upd_nth (fst pr / l) (fun a => zipw (fun x m => x + w32 (m * h32 B (fst pr mod l))) a mu) (snd pr)).
  change (nth p (map F (combine (seq 0 (length C)) C)) [] = upd_nth (p / l) (addmu B mu (p mod l)) (nth p C [])).
  assert (Hd : F (p, nth p C []) = upd_nth (p / l) (addmu B mu (p mod l)) (nth p C [])) by reflexivity. rewrite <- Hd.
  rewrite nth_indep with (d' := F (0%nat, [])) by (rewrite map_length, combine_length, seq_length, Nat.min_id; exact Hp).
  rewrite map_nth. f_equal. rewrite combine_nth by (now rewrite seq_length). rewrite seq_nth by exact Hp. reflexivity. Qed.

Definition gpoly (i : nat) : vec := vscale (hpow B i) (ofl mu).
Definition gpvec (u i : nat) : vec := if (u =? k)%nat then gpoly i else vopp (act N (nth u key []) (gpoly i)).
Definition Rpoly (a : list Z) : vec := act N mu (vsub (ofl a) (ofl (err_poly l B a))).

Lemma row_phase_poly p row : wf_tsample N k row -> (p / l <= k)%nat ->
  PH (upd_nth (p / l) (addmu B mu (p mod l)) row) ~ vadd (PH row) (gpvec (p / l) (p mod l)).
Proof. intros Hr Hu. unfold gpvec, gpoly.
  apply (PHv_upd N Npos key k Hkey (addmu B mu (p mod l)) (vscale (hpow B (p mod l)) (ofl mu))); try assumption.
  intros a Ha. now apply ofl_addmu'. Qed.

(* sum_i h_i * digit_i(a) = a - eps(a), coefficient-wise mod 2^32 *)
Lemma recompose_poly1 a : lenN N a ->
  vsum l (fun i => vscale (hpow B i) (ofl (map (fun x => spec_digit l B x i) a))) ~ vsub (ofl a) (ofl (err_poly l B a)).
Proof. unfold lenN. intros Ha j Hj. unfold vsum, vscale, vsub, ofl, err_poly.
  rewrite (nth_map_gen (decomp_err l B) a j 0 0) by (rewrite Ha; exact Hj).
  rewrite (zsum_ext l _ (fun i => spec_digit l B (nth j a 0) i * pow2 (shp 32 B i))).
  2:{ intros i Hi. rewrite (nth_map_gen (fun x => spec_digit l B x i) a j 0 0) by (rewrite Ha; exact Hj). unfold hpow, shp. ring. }
  apply (proj1 (decomp_recompose l B (nth j a 0) V)). Qed.

(* a digit polynomial times  h_i * mu  is  mu  times  h_i * (digit polynomial)   (commutativity of the ring product) *)
Lemma act_digit_gpoly (d : list Z) i : lenN N d -> act N d (gpoly i) ~ act N mu (vscale (hpow B i) (ofl d)).
Proof. unfold lenN in *. intros Hd j Hj. unfold gpoly.
  rewrite (act_vscale N d (hpow B i) (ofl mu) j). rewrite (act_vscale N mu (hpow B i) (ofl d) j). unfold vscale.
  pose proof (mul_comm N Npos d mu ltac:(rewrite Hd; apply Nat.le_refl) ltac:(rewrite Hmu; apply Nat.le_refl) j Hj) as E.
  unfold mul in E. rewrite E. apply eqm32_refl. Qed.

Lemma digit_len a i : lenN N a -> lenN N (map (fun x => spec_digit l B x i) a).
Proof. unfold lenN. intro H. now rewrite map_length. Qed.

(* the l rows of block u together *)
Lemma block_sum_poly acc u : wf_tsample N k acc -> (u <= k)%nat ->
  vsum l (fun i => act N (nth (u * l + i) (tlwe_decomp l B acc) []) (gpvec u i)) ~
  (if (u =? k)%nat then Rpoly (nth u acc []) else vopp (act N (nth u key []) (Rpoly (nth u acc [])))).
Proof. intros Hacc Hu. pose proof Hacc as [Hal Haf].
  assert (Ha : lenN N (nth u acc [])) by (rewrite Forall_forall in Haf; apply Haf, nth_In; rewrite Hal; apply le_n_S, Hu).
  set (a := nth u acc []) in *.
  eapply eqNm_trans.
  { apply vsum_eqm. intros i Hi. rewrite (decomp_nth N Npos k l B V acc u i Hacc Hu Hi). fold a. apply eqNm_refl. }
  (* the body-block statement *)
  assert (Hbody : vsum l (fun i => act N (map (fun x => spec_digit l B x i) a) (gpoly i)) ~ Rpoly a).
  { eapply eqNm_trans; [apply vsum_eqm; intros i Hi; apply act_digit_gpoly, digit_len, Ha|].
    intros j Hj. unfold Rpoly.
    pose proof (act_vsum N mu l (fun i => vscale (hpow B i) (ofl (map (fun x => spec_digit l B x i) a))) j) as E.
    rewrite <- E. apply (act_eqm N Npos mu _ _ (recompose_poly1 a Ha) j Hj). }
  unfold gpvec. destruct (Nat.eqb_spec u k) as [Huk|Huk]; [exact Hbody|].
  set (s := nth u key []).
  eapply eqNm_trans.
  { apply vsum_eqm. intros i Hi. intros j Hj.
    rewrite (act_vopp N _ (act N s (gpoly i)) j). unfold vopp.
    rewrite (act_comm N _ s (gpoly i) j). apply eqm32_refl. }
  intros j Hj. unfold vsum. rewrite zsum_opp. unfold vopp. apply eqm32_opp.
  pose proof (act_vsum N s l (fun i => act N (map (fun x => spec_digit l B x i) a) (gpoly i)) j) as E. unfold vsum in E. rewrite <- E.
  apply (act_eqm N Npos s _ _ Hbody j Hj). Qed.

(* C09, polynomial messages: for every message polynomial mu, every accumulator, every rows of zero-encryptions Z0 *)
Theorem extprod_message_poly Z0 acc : wf_tsample N k acc -> Forall (wf_tsample N k) Z0 -> length Z0 = (S k * l)%nat ->
  PH (extprod l B (add_mu_h l B mu Z0) acc) ~
  vadd (act N mu (vsub (PH acc) (PH (err_sample l B acc)))) (rows_sum N PH (tlwe_decomp l B acc) Z0).
Proof. intros Hacc HZ HlZ. pose proof (decomp_length N k l B V acc Hacc) as Hdl.
  set (ds := tlwe_decomp l B acc) in *. set (C := add_mu_h l B mu Z0).
  assert (HlC : length C = (S k * l)%nat) by (unfold C, add_mu_h; rewrite map_length, combine_length, seq_length, Nat.min_id; exact HlZ).
  assert (Hl0 : (0 < l)%nat) by (destruct V as (_ & ? & _); lia).
  assert (Hrow : forall p, (p < S k * l)%nat -> (p / l <= k)%nat).
  { intros p Hp. assert (p / l < S k)%nat by (apply Nat.div_lt_upper_bound; lia). lia. }
  assert (HZp : forall p, (p < S k * l)%nat -> wf_tsample N k (nth p Z0 [])).
  { intros p Hp. rewrite Forall_forall in HZ. apply HZ, nth_In. rewrite HlZ. exact Hp. }
  assert (HCwf : Forall (wf_tsample N k) C).
  { apply Forall_forall. intros c Hc. destruct (In_nth _ _ [] Hc) as (p & Hp & <-).
    assert (Hp' : (p < length Z0)%nat) by (rewrite HlZ, <- HlC; exact Hp). unfold C. rewrite add_mu_h_nth' by exact Hp'.
    apply upd_wf; [intros a Ha; now apply addmu_len'|]. apply HZp. rewrite <- HlZ. exact Hp'. }
  eapply eqNm_trans; [apply (extprod_phase_vec N Npos key k l B C acc Hkey Hacc HCwf)|]. fold ds.
  intros j Hj. rewrite (rows_sum_vsum N Npos PH ds C ltac:(rewrite Hdl, HlC; reflexivity) j). unfold vadd at 1.
  rewrite (rows_sum_vsum N Npos PH ds Z0 ltac:(rewrite Hdl, HlZ; reflexivity) j).
  rewrite Hdl.
  assert (Hp : forall p, (p < S k * l)%nat ->
     act N (nth p ds []) (PH (nth p C [])) ~ vadd (act N (nth p ds []) (PH (nth p Z0 []))) (act N (nth p ds []) (gpvec (p / l) (p mod l)))).
  { intros p Hp. unfold C. rewrite add_mu_h_nth' by (rewrite HlZ; exact Hp).
    eapply eqNm_trans; [apply (act_eqm N Npos), row_phase_poly; [apply HZp, Hp|apply Hrow, Hp]|].
    intros i Hi. rewrite (act_vadd N (nth p ds []) _ _ i). unfold vadd. apply eqm32_refl. }
  eapply eqm32_trans; [apply (vsum_eqm N (S k * l) _ _ Hp j Hj)|].
  unfold vsum at 1. rewrite (zsum_ext (S k * l) _ (fun p => act N (nth p ds []) (PH (nth p Z0 [])) j + act N (nth p ds []) (gpvec (p / l) (p mod l)) j)) by (intros; reflexivity).
  rewrite zsum_add. rewrite Z.add_comm. apply eqm32_add; [|apply eqm32_refl].
  rewrite (zsum_split (S k) l).
  rewrite (zsum_ext (S k) _ (fun u => vsum l (fun i => act N (nth (u * l + i) ds []) (gpvec u i)) j)).
  2:{ intros u Hu. unfold vsum. apply zsum_ext. intros i Hi.
      rewrite Nat.div_add_l by lia. rewrite (Nat.div_small i l Hi), Nat.add_0_r.
      rewrite Nat.add_comm, Nat.mod_add by lia. rewrite (Nat.mod_small i l Hi). reflexivity. }
  eapply eqm32_trans; [apply zsum_eqm; intros u Hu; apply (block_sum_poly acc u Hacc ltac:(lia) j Hj)|].
  cbn [zsum]. rewrite Nat.eqb_refl.
  rewrite (zsum_ext k _ (fun u => - act N (nth u key []) (Rpoly (nth u acc [])) j)) by (intros u Hu; destruct (Nat.eqb_spec u k); [lia|reflexivity]).
  destruct Hkey as [Hk Hkf]. destruct (wf_split N Npos k acc Hacc) as (ma & b & -> & Hma & Hmaf & Hb).
  unfold err_sample. rewrite map_app. cbn [map]. rewrite !PHv_app.
  replace (nth k (ma ++ [b]) []) with b by (rewrite <- Hma; symmetry; apply nth_middle).
  (* right-hand side: mu * ( (b - sum s_u a_u) - (eps b - sum s_u eps a_u) ) *)
  set (EP := err_poly l B).
  assert (Hrhs : eqm32 (act N mu (vsub (vsub (ofl b) (mask_sum N key ma)) (vsub (ofl (EP b)) (mask_sum N key (map EP ma)))) j)
                       (Rpoly b j + zsum k (fun u => - act N (nth u key []) (Rpoly (nth u ma [])) j))).
  { unfold Rpoly. fold EP.
    assert (EXY : eqv (vsub (vsub (ofl b) (mask_sum N key ma)) (vsub (ofl (EP b)) (mask_sum N key (map EP ma))))
                      (vsub (vsub (ofl b) (ofl (EP b))) (vsub (mask_sum N key ma) (mask_sum N key (map EP ma)))))
      by (intro; unfold vsub; ring).
    rewrite (act_ext N mu _ _ EXY j).
    rewrite (act_vsub N mu _ _ j). unfold vsub at 1. rewrite zsum_opp.
    match goal with |- eqm32 (?x - ?y) (?x + - ?z) => assert (E : y = z); [|rewrite E; replace (x - z) with (x + - z) by ring; apply eqm32_refl] end.
    rewrite (act_ext N mu _ (vsum k (fun u => act N (nth u key []) (vsub (ofl (nth u ma [])) (ofl (EP (nth u ma [])))))) ) .
    2:{ intro i. unfold vsub at 1. rewrite (mask_sum_vsum N Npos key ma ltac:(lia) i), (mask_sum_vsum N Npos key (map EP ma) ltac:(rewrite map_length; lia) i).
        unfold vsum. rewrite Hk. rewrite <- zsum_sub. apply zsum_ext. intros u Hu.
        rewrite (act_vsub N (nth u key []) _ _ i). unfold vsub. f_equal. f_equal. f_equal. exact (map_nth EP ma [] u). }
    rewrite (act_vsum N mu k _ j). unfold vsum. apply zsum_ext. intros u Hu.
    apply (act_comm N mu (nth u key []) _ j). }
  eapply eqm32_trans; [|apply eqm32_sym, Hrhs].
  rewrite Z.add_comm. apply eqm32_add; [apply eqm32_refl|].
  rewrite (zsum_ext k _ (fun u => - act N (nth u key []) (Rpoly (nth u ma [])) j)) by (intros u Hu; rewrite app_nth1 by lia; reflexivity).
  apply eqm32_refl. Qed.

End EP.

(* ---- worst-case error: rows with noise at most eta, binary ring key ---- *)
Section EPB.
Variable N : nat.
Hypothesis Npos : (0 < N)%nat.
Variable key : list (list Z).
Variable k : nat.
Hypothesis Hkey : wf_tkey N k key.
Hypothesis Hbin : Forall (Forall (fun x => x = 0 \/ x = 1)) key.
Variables (l : nat) (B : Z).
Hypothesis V : valid_layout l B.
Variable mu : list Z.
Hypothesis Hmu : lenN N mu.
Variable Z0 : tgsw.
Hypothesis HZ : Forall (wf_tsample N k) Z0.
Hypothesis HlZ : length Z0 = (S k * l)%nat.
Variable e : nat -> vec.
Variable eta : Z.
Hypothesis He : forall p, (p < S k * l)%nat -> eqNm N (PHv N key (nth p Z0 [])) (e p).
Hypothesis Heta : forall p j, (p < S k * l)%nat -> (j < N)%nat -> Z.abs (e p j) <= eta.
Hypothesis Heta0 : 0 <= eta.

Notation PH := (PHv N key).
Notation "f ~ g" := (eqNm N f g) (at level 70).

Definition Ep (t : tsample) : vec :=
  vsub (vsum (S k * l) (fun p => act N (nth p (tlwe_decomp l B t) []) (e p))) (act N mu (PH (err_sample l B t))).
Definition beta_poly : Z := Z.of_nat (S k * l) * (Z.of_nat N * halfBg B * eta) + l1 mu * ((1 + Z.of_nat k * Z.of_nat N) * Tr l B).

Lemma rows_noise_bound t : wf_tsample N k t -> forall j, (j < N)%nat ->
  Z.abs (vsum (S k * l) (fun p => act N (nth p (tlwe_decomp l B t) []) (e p)) j) <= Z.of_nat (S k * l) * (Z.of_nat N * halfBg B * eta).
Proof. intros Ht j Hj. apply (vsum_bound N Npos); [|exact Hj]. intros p i Hp Hi.
  eapply Z.le_trans; [apply (act_bound N Npos); [exact Heta0|intros q Hq; apply Heta; assumption|exact Hi]|].
  assert (Hl0 : (0 < l)%nat) by (destruct V as (_ & ? & _); lia).
  pose proof (Nat.div_mod p l ltac:(lia)) as Hdm. pose proof (Nat.mod_upper_bound p l ltac:(lia)) as Hmd.
  assert (Hu : (p / l <= k)%nat) by (assert (p / l < S k)%nat by (apply Nat.div_lt_upper_bound; lia); lia).
  replace p with (p / l * l + p mod l)%nat at 1 by lia.
  rewrite (decomp_nth N Npos k l B V t (p / l) (p mod l) Ht Hu Hmd).
  pose proof (l1_digits N Npos l B V (nth (p / l) t []) (p mod l) Hmd) as Hd.
  assert (Hlen : length (nth (p / l) t []) = N) by (destruct Ht as [Htl Htf]; rewrite Forall_forall in Htf; apply Htf, nth_In; lia).
  rewrite Hlen in Hd. pose proof (l1_nonneg N Npos (map (fun x => spec_digit l B x (p mod l)) (nth (p / l) t []))). nia. Qed.

Theorem extprod_poly_error_bound t : wf_tsample N k t ->
  PH (extprod l B (add_mu_h l B mu Z0) t) ~ vadd (act N mu (PH t)) (Ep t) /\ (forall j, (j < N)%nat -> Z.abs (Ep t j) <= beta_poly).
Proof. intro Ht. split.
  - eapply eqNm_trans; [apply (extprod_message_poly N Npos key k Hkey l B V mu Hmu Z0 t Ht HZ HlZ)|].
    pose proof (decomp_length N k l B V t Ht) as Hdl.
    intros j Hj. unfold vadd at 1. rewrite (rows_sum_vsum N Npos PH (tlwe_decomp l B t) Z0 ltac:(lia) j). rewrite Hdl.
    assert (HR : vsum (S k * l) (fun p => act N (nth p (tlwe_decomp l B t) []) (PH (nth p Z0 []))) ~
                 vsum (S k * l) (fun p => act N (nth p (tlwe_decomp l B t) []) (e p))).
    { apply vsum_eqm. intros p Hp. apply (act_eqm N Npos), He, Hp. }
    eapply eqm32_trans; [apply eqm32_add; [apply eqm32_refl|apply (HR j Hj)]|].
    rewrite (act_vsub N mu (PH t) (PH (err_sample l B t)) j).
    unfold Ep, vadd, vsub. match goal with |- eqm32 ?x ?y => replace y with x by ring end. apply eqm32_refl.
  - intros j Hj. unfold Ep, vsub, beta_poly.
    pose proof (rows_noise_bound t Ht j Hj) as H1.
    assert (HT : 0 <= (1 + Z.of_nat k * Z.of_nat N) * Tr l B).
    { pose proof (err_phase_bound N Npos key k Hkey Hbin l B V t Ht j Hj). pose proof (Z.abs_nonneg (PH (err_sample l B t) j)). lia. }
    pose proof (act_bound N Npos mu (PH (err_sample l B t)) _ HT (fun i Hi => err_phase_bound N Npos key k Hkey Hbin l B V t Ht i Hi) j Hj) as H2.
    pose proof (Z.abs_triangle (vsum (S k * l) (fun p => act N (nth p (tlwe_decomp l B t) []) (e p)) j) (- act N mu (PH (err_sample l B t)) j)).
    rewrite Z.abs_opp in *.
    replace (vsum (S k * l) (fun p => act N (nth p (tlwe_decomp l B t) []) (e p)) j - act N mu (PH (err_sample l B t)) j)
      with (vsum (S k * l) (fun p => act N (nth p (tlwe_decomp l B t) []) (e p)) j + - act N mu (PH (err_sample l B t)) j) by ring.
    lia. Qed.
End EPB.
