(* Proofs/TlweOps.v — C14: the remaining TLWE operations act on phases as the ring says: trivial samples, tLweAddTTo (add a
   constant to coefficient 0 of one component), tLweAddRTTo (add an integer polynomial times a constant to one component). *)
From Coq Require Import ZArith Lia List Bool.
From TV Require Import Base.Int32 Base.Sums Ring.NegaRing Model.Lwe Model.Poly Model.Tlwe Model.Decomp Model.Tgsw
  Proofs.Lwe Proofs.Poly Proofs.Tlwe Proofs.Digits Proofs.Decomp Proofs.Karatsuba Proofs.Tgsw Proofs.Gadget.
Import ListNotations.
Local Open Scope Z_scope.

Lemma upd_at_nth {A} (f : A -> A) : forall n (l : list A), upd_at n f l = upd_nth n f l.
Proof. intros. reflexivity. Qed.
Lemma bump0_bump x a : bump0 x a = bump x a. Proof. destruct a; reflexivity. Qed.

Section TO.
Variable N : nat.
Hypothesis Npos : (0 < N)%nat.
Variable key : list (list Z).
Variable k : nat.
Hypothesis Hkey : wf_tkey N k key.
Notation PH := (PHv N key).
Notation "f ~ g" := (eqNm N f g) (at level 70).

Theorem tlwe_trivial_phase mu : lenN N mu -> PH (tlwe_trivial k mu) ~ ofl mu.
Proof. unfold lenN. intros Hm. unfold tlwe_trivial. rewrite PHv_app, Hm. intros i Hi. unfold vsub.
  rewrite (mask_sum_zeros N key k i). unfold vzero. rewrite Z.sub_0_r. apply eqm32_refl. Qed.

Theorem tlwe_add_t_phase c u x : wf_tsample N k c -> (u <= k)%nat ->
  PH (tlwe_add_t c u x) ~ vadd (PH c) (if (u =? k)%nat then vscale x e0 else vopp (act N (nth u key []) (vscale x e0))).
Proof. intros Hc Hu. unfold tlwe_add_t. rewrite upd_at_nth.
  apply (PHv_upd N Npos key k Hkey (bump0 x) (vscale x e0)); try assumption.
  intros a Ha. rewrite bump0_bump. now apply ofl_bump. Qed.

Lemma ofl_addpx p x a : lenN N p -> lenN N a -> ofl (zipw (fun y q => y + w32 (q * x)) a p) ~ vadd (ofl a) (vscale x (ofl p)).
Proof. unfold lenN. intros Hp Ha j Hj. unfold zipw, ofl, vadd, vscale.
  assert (E : nth j (map (fun xy : Z * Z => w32 (fst xy + w32 (snd xy * x))) (combine a p)) 0 = w32 (nth j a 0 + w32 (nth j p 0 * x))).
  { rewrite nth_indep with (d' := (fun xy : Z * Z => w32 (fst xy + w32 (snd xy * x))) (0, 0)) by (rewrite map_length, combine_length; lia).
    rewrite (map_nth (fun xy : Z * Z => w32 (fst xy + w32 (snd xy * x)))). rewrite combine_nth by lia. reflexivity. }
  rewrite E. eapply eqm32_trans; [apply w32_eqm|]. apply eqm32_add; [apply eqm32_refl|].
  eapply eqm32_trans; [apply w32_eqm|]. rewrite Z.mul_comm. apply eqm32_refl. Qed.

Theorem tlwe_add_rt_phase c u p x : wf_tsample N k c -> (u <= k)%nat -> lenN N p ->
  PH (tlwe_add_rt c u p x) ~ vadd (PH c) (if (u =? k)%nat then vscale x (ofl p) else vopp (act N (nth u key []) (vscale x (ofl p)))).
Proof. intros Hc Hu Hp. unfold tlwe_add_rt. rewrite upd_at_nth.
  apply (PHv_upd N Npos key k Hkey (fun a => zipw (fun y q => y + w32 (q * x)) a p) (vscale x (ofl p))); try assumption.
  intros a Ha. now apply ofl_addpx. Qed.
End TO.
