(* Proofs/Tgsw.v — C09: the phase of a TLWE sample is linear over the ring, hence the phase of the
   external product is the decomposition-weighted sum of the phases of the TGSW rows. *)
From Coq Require Import ZArith Lia List Bool.
From TV Require Import Base.Int32 Base.Sums Ring.NegaRing Model.Lwe Model.Poly Model.Tlwe Model.Decomp Model.Tgsw
  Proofs.Lwe Proofs.Poly Proofs.Tlwe.
Import ListNotations.
Local Open Scope Z_scope.

Section Ext.
Variable N : nat.
Hypothesis Npos : (0 < N)%nat.

(* coefficient-wise congruence modulo 2^32 on [0,N) *)
Definition eqNm (f g : vec) : Prop := forall i, (i < N)%nat -> eqm32 (f i) (g i).
Lemma eqNm_refl f : eqNm f f. Proof. intros i _. apply eqm32_refl. Qed.
Lemma eqNm_sym f g : eqNm f g -> eqNm g f. Proof. intros H i Hi. apply eqm32_sym, H, Hi. Qed.
Lemma eqNm_trans f g h : eqNm f g -> eqNm g h -> eqNm f h.
Proof. intros H1 H2 i Hi. eapply eqm32_trans; [apply H1|apply H2]; exact Hi. Qed.
Lemma eqN_eqNm f g : eqN N f g -> eqNm f g. Proof. intros H i Hi. rewrite (H i Hi). apply eqm32_refl. Qed.
Lemma eqv_eqNm f g : eqv f g -> eqNm f g. Proof. intros H i _. rewrite (H i). apply eqm32_refl. Qed.

Definition vsub (f g : vec) : vec := fun i => f i - g i.
Lemma vadd_eqm f f' g g' : eqNm f f' -> eqNm g g' -> eqNm (vadd f g) (vadd f' g').
Proof. intros H1 H2 i Hi. unfold vadd. apply eqm32_add; [apply H1|apply H2]; exact Hi. Qed.
Lemma vsub_eqm f f' g g' : eqNm f f' -> eqNm g g' -> eqNm (vsub f g) (vsub f' g').
Proof. intros H1 H2 i Hi. unfold vsub. apply eqm32_sub; [apply H1|apply H2]; exact Hi. Qed.

Lemma Sh_eqm f g : eqNm f g -> eqNm (Sh N f) (Sh N g).
Proof. intros H [|j] Hi; cbn [Sh]; [apply eqm32_opp, H; lia|apply H; lia]. Qed.
Lemma act_eqm a f g : eqNm f g -> eqNm (act N a f) (act N a g).
Proof. induction a as [|x a IH]; intros H i Hi; cbn [act]; [apply eqm32_refl|].
  unfold vadd, vscale. apply eqm32_add; [apply eqm32_mul; [apply eqm32_refl|apply H, Hi]|].
  apply Sh_eqm; [apply IH, H|exact Hi]. Qed.
Lemma Shn_eqm k f g : eqNm f g -> eqNm (Shn N k f) (Shn N k g).
Proof. induction k as [|k IH]; intro H; cbn [Shn]; [exact H|]. apply Sh_eqm, IH, H. Qed.

Lemma act_vsub a u v : eqv (act N a (vsub u v)) (vsub (act N a u) (act N a v)).
Proof. intro i.
  rewrite (act_ext N a (vsub u v) (vadd u (vscale (-1) v)) ltac:(intro j; unfold vsub, vadd, vscale; ring) i).
  rewrite (act_vadd N a u (vscale (-1) v) i). unfold vadd, vsub. rewrite (act_vscale N a (-1) v i).
  unfold vscale. ring. Qed.

(* ---- the phase as a vector over Z: b - sum_u s_u * a_u ---- *)
Fixpoint mask_sum (key mask : list (list Z)) : vec :=
  match key, mask with
  | s :: key', a :: mask' => vadd (act N s (ofl a)) (mask_sum key' mask')
  | _, _ => vzero
  end.
Definition PHv (key : list (list Z)) (c : tsample) : vec := vsub (ofl (last c [])) (mask_sum key (removelast c)).

Definition lenN (a : list Z) : Prop := length a = N.

Lemma ofl_nth (a : list Z) i : ofl a i = nth i a 0. Proof. reflexivity. Qed.

Lemma phase_aux_PHv : forall (key mask : list (list Z)) acc,
  length acc = N -> Forall lenN key -> Forall lenN mask ->
  length (tlwe_phase_aux key mask acc) = N /\
  eqNm (ofl (tlwe_phase_aux key mask acc)) (vsub (ofl acc) (mask_sum key mask)).
Proof. induction key as [|s key IH]; intros mask acc Ha Hk Hm; cbn [tlwe_phase_aux mask_sum].
  - split; [exact Ha|]. intros i _. unfold vsub, vzero. rewrite Z.sub_0_r. apply eqm32_refl.
  - destruct mask as [|a mask].
    + split; [exact Ha|]. intros i _. unfold vsub, vzero. rewrite Z.sub_0_r. apply eqm32_refl.
    + apply Forall_cons_iff in Hk as [Hs Hk']. apply Forall_cons_iff in Hm as [Hal Hm']. unfold lenN in Hs, Hal.
      assert (Hla : length (lact s a) = N) by (rewrite (lact_length N Npos); lia).
      assert (Hacc' : length (poly_submul acc s a) = N) by (unfold poly_submul; rewrite zipw_length; lia).
      destruct (IH mask (poly_submul acc s a) Hacc' Hk' Hm') as [Hlen Hc]. split; [exact Hlen|].
      eapply eqNm_trans; [exact Hc|]. intros i Hi. unfold vsub, vadd.
      replace (ofl acc i - (act N s (ofl a) i + mask_sum key mask i))
        with ((ofl acc i - act N s (ofl a) i) - mask_sum key mask i) by ring.
      apply eqm32_sub; [|apply eqm32_refl].
      unfold poly_submul. rewrite ofl_nth, nth_zipw by lia.
      eapply eqm32_trans; [apply w32_eqm|]. apply eqm32_sub; [apply eqm32_refl|].
      pose proof (ofl_lact N Npos s a Hal i Hi) as H. rewrite ofl_nth in H. rewrite H. apply eqm32_refl. Qed.

Lemma wf_split k (c : tsample) : wf_tsample N k c ->
  exists m b, c = m ++ [b] /\ length m = k /\ Forall lenN m /\ lenN b.
Proof. intros [Hl Hf]. assert (Hne : c <> []) by (destruct c; [cbn in Hl; lia|discriminate]).
  destruct (exists_last Hne) as (m & b & ->). exists m, b. split; [reflexivity|].
  rewrite app_length in Hl. cbn in Hl. apply Forall_app in Hf as [Hm Hb]. apply Forall_cons_iff in Hb as [Hb _].
  repeat split; [lia|exact Hm|exact Hb]. Qed.

Lemma PHv_app key m b : PHv key (m ++ [b]) = vsub (ofl b) (mask_sum key m).
Proof. unfold PHv. now rewrite last_last, removelast_last. Qed.

(* the phase computed by the wrapping C loops is the vector phase mod 2^32 *)
Theorem phase_is_PHv key k c : wf_tsample N k c -> wf_tkey N k key -> eqNm (ofl (tlwe_phase key c)) (PHv key c).
Proof. intros Hc [Hk Hkf]. destruct (wf_split k c Hc) as (m & b & -> & Hm & Hmf & Hb).
  unfold tlwe_phase. rewrite PHv_app, last_last, removelast_last.
  destruct (phase_aux_PHv key m (map w32 b)) as [_ H]; [rewrite map_length; exact Hb|exact Hkf|exact Hmf|].
  eapply eqNm_trans; [exact H|]. apply vsub_eqm; [|apply eqNm_refl].
  intros i Hi. rewrite ofl_nth. rewrite nth_indep with (d' := w32 0) by (rewrite map_length; unfold lenN in Hb; lia).
  rewrite map_nth. apply w32_eqm. Qed.

(* ---- linearity: r + d * C ---- *)
Lemma map2_app {A B C} (f : A -> B -> C) m1 b1 m2 b2 : length m1 = length m2 ->
  map2 f (m1 ++ [b1]) (m2 ++ [b2]) = map2 f m1 m2 ++ [f b1 b2].
Proof. intro H. unfold map2. rewrite combine_app_eq by exact H. rewrite map_app. reflexivity. Qed.

Lemma poly_addmul_len r d a : lenN r -> lenN d -> lenN a -> lenN (poly_addmul r d a).
Proof. unfold lenN. intros Hr Hd Ha. unfold poly_addmul. rewrite zipw_length; [exact Hr|].
  rewrite (lact_length N Npos); lia. Qed.
Lemma ofl_addmul r d a : lenN r -> lenN d -> lenN a ->
  eqNm (ofl (poly_addmul r d a)) (vadd (ofl r) (act N d (ofl a))).
Proof. unfold lenN. intros Hr Hd Ha i Hi. rewrite ofl_nth.
  rewrite (poly_addmul_spec r d a i) by lia. eapply eqm32_trans; [apply w32_eqm|].
  unfold vadd, mul. rewrite Hd. apply eqm32_refl. Qed.

Lemma mask_sum_addmulR d : lenN d -> forall key mr mC, Forall lenN key -> Forall lenN mr -> Forall lenN mC ->
  length mr = length mC ->
  eqNm (mask_sum key (map2 (fun ri si => poly_addmul ri d si) mr mC))
       (vadd (mask_sum key mr) (act N d (mask_sum key mC))).
Proof. intros Hd. induction key as [|s key IH]; intros mr mC Hk Hr HC Hl.
  - cbn [mask_sum]. intros i _. unfold vadd. rewrite (act_vzero N d i). unfold vzero. apply eqm32_refl.
  - destruct mr as [|r mr]; destruct mC as [|c mC]; cbn [length] in Hl; try lia.
    + cbn [map2 combine map mask_sum]. intros i _. unfold vadd. rewrite (act_vzero N d i). unfold vzero. apply eqm32_refl.
    + apply Forall_cons_iff in Hk as [Hs Hk']. apply Forall_cons_iff in Hr as [Hr0 Hr']. apply Forall_cons_iff in HC as [Hc0 HC'].
      unfold map2. cbn [combine map fst snd mask_sum]. fold (map2 (fun ri si => poly_addmul ri d si) mr mC).
      eapply eqNm_trans.
      { apply vadd_eqm; [apply act_eqm, ofl_addmul; assumption|apply IH; try assumption; lia]. }
      intros i Hi.
      pose proof (act_vadd N s (ofl r) (act N d (ofl c)) i) as E1.
      pose proof (act_comm N s d (ofl c) i) as E2.
      pose proof (act_vadd N d (act N s (ofl c)) (mask_sum key mC) i) as E3.
      unfold vadd in *. rewrite E1, E2, E3.
      match goal with |- eqm32 ?x ?y => replace y with x by ring end. apply eqm32_refl. Qed.

Lemma addmulR_wf k r d C : wf_tsample N k r -> wf_tsample N k C -> lenN d -> wf_tsample N k (tlwe_addmulR r d C).
Proof. intros [Hr Hrf] [HC HCf] Hd. unfold tlwe_addmulR, map2. split.
  - rewrite map_length, combine_length. lia.
  - apply Forall_forall. intros x Hx. apply in_map_iff in Hx as ((a & b) & <- & Hin). cbn [fst snd].
    pose proof (in_combine_l _ _ _ _ Hin) as Ha. pose proof (in_combine_r _ _ _ _ Hin) as Hb.
    rewrite Forall_forall in Hrf, HCf. apply poly_addmul_len; [apply Hrf, Ha|exact Hd|apply HCf, Hb]. Qed.

Theorem PHv_addmulR key k r d C : wf_tkey N k key -> wf_tsample N k r -> wf_tsample N k C -> lenN d ->
  eqNm (PHv key (tlwe_addmulR r d C)) (vadd (PHv key r) (act N d (PHv key C))).
Proof. intros [Hk Hkf] Hr HC Hd.
  destruct (wf_split k r Hr) as (mr & br & -> & Hmr & Hmrf & Hbr).
  destruct (wf_split k C HC) as (mC & bC & -> & HmC & HmCf & HbC).
  unfold tlwe_addmulR. rewrite map2_app by lia. rewrite !PHv_app.
  eapply eqNm_trans.
  { apply vsub_eqm; [apply ofl_addmul; assumption|apply mask_sum_addmulR; try assumption; lia]. }
  intros i Hi. pose proof (act_vsub d (ofl bC) (mask_sum key mC) i) as E1.
  unfold vsub, vadd in *. rewrite E1.
  match goal with |- eqm32 ?x ?y => replace y with x by ring end. apply eqm32_refl. Qed.

(* ---- the accumulation loop of the external product ---- *)
Fixpoint rows_sum (ph : tsample -> vec) (ds : list (list Z)) (C : tgsw) : vec :=
  match ds, C with
  | d :: ds', c :: C' => vadd (act N d (ph c)) (rows_sum ph ds' C')
  | _, _ => vzero
  end.

Lemma fold_addmulR key k : wf_tkey N k key -> forall ds C r, wf_tsample N k r -> Forall (wf_tsample N k) C -> Forall lenN ds ->
  eqNm (PHv key (fold_left (fun r dp => tlwe_addmulR r (fst dp) (snd dp)) (combine ds C) r))
       (vadd (PHv key r) (rows_sum (PHv key) ds C)).
Proof. intro Hkey. induction ds as [|d ds IH]; intros C r Hr HC Hd.
  - cbn. intros i _. unfold vadd, vzero. rewrite Z.add_0_r. apply eqm32_refl.
  - destruct C as [|c C]; [cbn; intros i _; unfold vadd, vzero; rewrite Z.add_0_r; apply eqm32_refl|].
    apply Forall_cons_iff in HC as [Hc HC']. apply Forall_cons_iff in Hd as [Hd0 Hd'].
    cbn [combine fold_left fst snd rows_sum].
    eapply eqNm_trans; [apply IH; [apply addmulR_wf; assumption|exact HC'|exact Hd']|].
    eapply eqNm_trans; [apply vadd_eqm; [apply (PHv_addmulR key k); assumption|apply eqNm_refl]|].
    intros i Hi. unfold vadd. match goal with |- eqm32 ?x ?y => replace y with x by ring end. apply eqm32_refl. Qed.

Lemma ofl_zeros n : eqv (ofl (repeat 0 n)) vzero.
Proof. intro i. unfold ofl, vzero. revert i. induction n as [|n IH]; intros [|i]; cbn; try reflexivity. apply IH. Qed.
Lemma mask_sum_zeros key : forall m, eqv (mask_sum key (repeat (repeat 0 N) m)) vzero.
Proof. induction key as [|s key IH]; intros [|m] i; cbn [repeat mask_sum]; try reflexivity.
  unfold vadd. rewrite (IH m i). rewrite (act_ext N s _ _ (ofl_zeros N) i). rewrite (act_vzero N s i). reflexivity. Qed.
Lemma PHv_clear key k : eqv (PHv key (tlwe_clear k N)) vzero.
Proof. intro i. unfold tlwe_clear. replace (S k) with (k + 1)%nat by lia. rewrite repeat_app. cbn [repeat].
  rewrite PHv_app. unfold vsub. rewrite (ofl_zeros N i), (mask_sum_zeros key k i). reflexivity. Qed.
Lemma clear_wf k : wf_tsample N k (tlwe_clear k N).
Proof. unfold tlwe_clear. split; [apply repeat_length|]. apply Forall_forall. intros x Hx. apply repeat_spec in Hx. subst.
  unfold lenN. apply repeat_length. Qed.

Lemma decomp_rows_len l B : forall polys, Forall lenN polys -> Forall lenN (tlwe_decomp l B polys).
Proof. intros polys H. unfold tlwe_decomp, tlwe_decompH. cbn [fst]. apply Forall_forall. intros x Hx.
  apply in_concat in Hx as (row & Hrow & Hx). apply in_map_iff in Hrow as (r & <- & Hr).
  apply in_map_iff in Hr as (poly & <- & Hp). unfold decompH_scalar in Hx. cbn [fst] in Hx.
  apply in_map_iff in Hx as (p & <- & _). unfold lenN. rewrite !map_length.
  rewrite Forall_forall in H. apply H, Hp. Qed.

(* C09: phase (extprod C acc) = sum_p dec_p(acc) * phase(C_p), modulo 2^32, for every key, every rows, every accumulator *)
Theorem extprod_phase_vec key k l B C acc : wf_tkey N k key -> wf_tsample N k acc -> Forall (wf_tsample N k) C ->
  eqNm (PHv key (extprod l B C acc)) (rows_sum (PHv key) (tlwe_decomp l B acc) C).
Proof. intros Hkey Hacc HC. unfold extprod.
  destruct Hacc as [Hal Haf].
  assert (H1 : (length acc - 1)%nat = k) by lia.
  assert (H2 : length (hd [] acc) = N).
  { destruct acc as [|a acc]; [cbn in Hal; lia|]. apply Forall_cons_iff in Haf as [Ha _]. exact Ha. }
  rewrite H1, H2.
  eapply eqNm_trans; [apply (fold_addmulR key k Hkey); [apply clear_wf|exact HC|apply decomp_rows_len; exact Haf]|].
  intros i Hi. unfold vadd. rewrite (PHv_clear key k i). unfold vzero. rewrite Z.add_0_l. apply eqm32_refl. Qed.

Lemma rows_sum_eqm ph1 ph2 : forall ds C, (forall c, In c C -> eqNm (ph1 c) (ph2 c)) ->
  eqNm (rows_sum ph1 ds C) (rows_sum ph2 ds C).
Proof. induction ds as [|d ds IH]; intros C H; [apply eqNm_refl|]. destruct C as [|c C]; [apply eqNm_refl|].
  cbn [rows_sum]. apply vadd_eqm; [apply act_eqm, H; now left|apply IH; intros; apply H; now right]. Qed.

(* the same statement about the implementation-level functions only *)
Theorem extprod_phase key k l B C acc : wf_tkey N k key -> wf_tsample N k acc -> Forall (wf_tsample N k) C ->
  Forall (wf_tsample N k) [extprod l B C acc] ->
  eqNm (ofl (tlwe_phase key (extprod l B C acc)))
       (rows_sum (fun c => ofl (tlwe_phase key c)) (tlwe_decomp l B acc) C).
Proof. intros Hkey Hacc HC Hres. apply Forall_cons_iff in Hres as [Hres _].
  eapply eqNm_trans; [apply (phase_is_PHv key k); assumption|].
  eapply eqNm_trans; [apply (extprod_phase_vec key k); assumption|].
  apply rows_sum_eqm. intros c Hc. apply eqNm_sym, (phase_is_PHv key k); [|exact Hkey].
  rewrite Forall_forall in HC. apply HC, Hc. Qed.

End Ext.
