(* Proofs/Ledger.v — C16: what delete releases is exactly what new requested (a permutation of the same blocks), for every
   object tree, hence for every type and every parameter value; any number of objects deleted in any order leave an empty
   ledger; the checked TLWE extraction never indexes out of range. *)
From Coq Require Import ZArith Lia List Bool Permutation.
From TV Require Import Base.Int32 Model.Lwe Model.Poly Model.Tlwe Model.Ledger Proofs.Poly Proofs.Tlwe.
Import ListNotations.
Local Open Scope Z_scope.

(* induction principle for the nested tree *)
Lemma otree_ind2 (P : otree -> Prop) : (forall s os, Forall P os -> P (Node s os)) -> forall t, P t.
Proof. intro H. fix IH 1. intros [s os]. apply H. induction os as [|o os IHos]; constructor; [apply IH|exact IHos]. Qed.

Theorem release_is_permutation_of_blocks : forall t, Permutation (blocks t) (release t).
Proof. apply otree_ind2. intros s os H. cbn [blocks release].
  set (gb := fix go (l : list otree) : list Z := match l with [] => [] | o :: r => blocks o ++ go r end).
  set (gr := fix go (l : list otree) : list Z := match l with [] => [] | o :: r => release o ++ go r end).
  assert (HP : Permutation (gb os) (gr os)).
  { induction H as [|o os Ho Hos IH]; cbn; [constructor|]. apply Permutation_app; assumption. }
  apply Permutation_cons_app. rewrite app_nil_r. exact HP. Qed.

(* any population of objects, deleted in any order: everything requested is released *)
Theorem ledger_balanced objs objs' : Permutation objs objs' ->
  Permutation (flat_map blocks objs) (flat_map release objs').
Proof. intro H. induction H as [|x l l' H IH|x y l|l l' l'' H1 IH1 H2 IH2]; cbn [flat_map].
  - constructor.
  - apply Permutation_app; [apply release_is_permutation_of_blocks|exact IH].
  - rewrite !app_assoc. apply Permutation_app.
    + eapply Permutation_trans; [apply Permutation_app_comm|]. apply Permutation_app; apply release_is_permutation_of_blocks.
    + clear. induction l as [|o l IH]; cbn; [constructor|]. apply Permutation_app; [apply release_is_permutation_of_blocks|exact IH].
  - eapply Permutation_trans; [exact IH1|].
    (* flat_map release respects permutations *)
    clear -H2. induction H2 as [|x l l' H IH|x y l|l l' l'' H1 IH1 H2 IH2]; cbn [flat_map].
    + constructor. + now apply Permutation_app_head. + rewrite !app_assoc. apply Permutation_app_tail, Permutation_app_comm.
    + eapply Permutation_trans; eassumption. Qed.

(* the number of bytes live after new is the sum of the block sizes; after delete nothing of the object is live *)
Definition total (l : list Z) : Z := fold_right Z.add 0 l.
Lemma total_perm l l' : Permutation l l' -> total l = total l'.
Proof. induction 1; unfold total in *; cbn [fold_right] in *; lia. Qed.
Theorem bytes_balanced t : total (blocks t) = total (release t).
Proof. apply total_perm, release_is_permutation_of_blocks. Qed.

(* ---- index safety of the checked TLWE extraction (lwe.cpp:41-54): every access is in range for every N, k, index ---- *)
Lemma extract_poly_ok (a : list Z) (j : nat) : (j < length a)%nat ->
  extract_poly a (Z.of_nat j) =
  Some (map (fun m => if (m <=? j)%nat then nth (j - m) a 0 else w32 (- nth (length a + j - m) a 0)) (seq 0 (length a))).
Proof. intro Hj. unfold extract_poly. apply build_ok. intros m Hm.
  destruct (Z.leb_spec (Z.of_nat m) (Z.of_nat j)); destruct (Nat.leb_spec m j); try lia.
  - replace (Z.of_nat j - Z.of_nat m) with (Z.of_nat (j - m)) by lia. now rewrite getz_ok by lia.
  - replace (Z.of_nat (length a) + Z.of_nat j - Z.of_nat m) with (Z.of_nat (length a + j - m)) by lia.
    rewrite getz_ok by lia. reflexivity. Qed.

Lemma all_some_Forall {A} (l : list (option A)) : Forall (fun o => o <> None) l -> exists r, all_some l = Some r /\ length r = length l.
Proof. induction l as [|[x|] l IH]; intro H; cbn [all_some].
  - exists []. split; reflexivity.
  - apply Forall_cons_iff in H as [_ H]. destruct (IH H) as (r & -> & Hr). exists (x :: r). split; [reflexivity|cbn; lia].
  - apply Forall_cons_iff in H as [H _]. congruence. Qed.

(* no checked access of the extraction fails: for every N >= 1, every k, every index j < N *)
Theorem tlwe_extract_in_range N k c j : (0 < N)%nat -> (j < N)%nat -> wf_tsample N k c ->
  exists s, tlwe_extract c (Z.of_nat j) = Some s /\ length (fst s) = (k * N)%nat.
Proof. intros HN Hj [Hl Hf]. unfold tlwe_extract, concat_opt.
  assert (Hne : c <> []) by (destruct c; [cbn in Hl; lia|discriminate]).
  assert (Hb : length (last c []) = N) by (apply (Forall_last (fun a => length a = N)); assumption).
  assert (Hm : Forall (fun a => length a = N) (removelast c)) by now apply Forall_removelast.
  assert (Hml : length (removelast c) = k) by (rewrite removelast_len; lia).
  assert (HA : exists ls, all_some (map (fun a => extract_poly a (Z.of_nat j)) (removelast c)) = Some ls /\ length ls = k /\ Forall (fun r => length r = N) ls).
  { clear Hl Hf Hne Hb. revert Hm Hml. generalize (removelast c) as m. intros m. revert k. induction m as [|a m IH]; intros k' Hm' Hk'; cbn [map all_some].
    - exists []. cbn in Hk'. split; [reflexivity|split; [cbn; lia|constructor]].
    - apply Forall_cons_iff in Hm' as [Ha Hm']. rewrite extract_poly_ok by lia.
      destruct (IH (length m) Hm' eq_refl) as (ls & -> & Hls & Hlf). eexists. split; [reflexivity|]. split; [cbn in *; lia|].
      constructor; [rewrite map_length, seq_length; exact Ha|exact Hlf]. }
  destruct HA as (ls & -> & Hls & Hlf).
  rewrite getz_ok by lia. eexists. split; [reflexivity|]. cbn [fst].
  clear -Hls Hlf. revert k Hls. induction Hlf as [|r ls Hr Hf IH]; intros k Hk; cbn in *; [lia|].
  rewrite app_length, (IH (length ls) eq_refl). lia. Qed.
