(* Proofs/Encrypt.v — C07 / C03: encryption as a function of the draw stream: the mask is exactly the next draws, each used
   once; the phase error is exactly the converted Gaussian draw; key-switching rows carry the recentred noises. *)
From Coq Require Import ZArith Lia List Bool.
From TV Require Import Base.Int32 Base.Sums Ring.NegaRing Model.Numeric Model.Lwe Model.Poly Model.Tlwe Model.Decomp Model.Tgsw
  Model.KeySwitch Model.Gates Model.Encrypt Proofs.Lwe Proofs.Tlwe Proofs.Tgsw Proofs.Gates.
Import ListNotations.
Local Open Scope Z_scope.

(* ---- the stream readers consume exactly what they return ---- *)
Lemma take_u_spec n : forall ds ws r, take_u n ds = Some (ws, r) -> ds = map DU ws ++ r /\ length ws = n.
Proof. induction n as [|n IH]; intros ds ws r H; cbn [take_u] in H.
  - inversion H; subst. split; reflexivity.
  - destruct ds as [|[w|b|a k] ds]; try discriminate. destruct (take_u n ds) as [[ws' r']|] eqn:E; [|discriminate].
    inversion H; subst. destruct (IH _ _ _ E) as [-> Hl]. split; [reflexivity|cbn; lia]. Qed.
Lemma take_g_spec n : forall ds gs r, take_g n ds = Some (gs, r) -> ds = map (fun g => DG (fst g) (snd g)) gs ++ r /\ length gs = n.
Proof. induction n as [|n IH]; intros ds gs r H; cbn [take_g] in H.
  - inversion H; subst. split; reflexivity.
  - destruct ds as [|[w|b|a k] ds]; try discriminate. destruct (take_g n ds) as [[gs' r']|] eqn:E; [|discriminate].
    inversion H; subst. destruct (IH _ _ _ E) as [-> Hl]. split; [reflexivity|cbn; lia]. Qed.
Lemma take_b_spec n : forall ds bs r, take_b n ds = Some (bs, r) -> ds = map DB bs ++ r /\ length bs = n.
Proof. induction n as [|n IH]; intros ds bs r H; cbn [take_b] in H.
  - inversion H; subst. split; reflexivity.
  - destruct ds as [|[w|b|a k] ds]; try discriminate. destruct (take_b n ds) as [[bs' r']|] eqn:E; [|discriminate].
    inversion H; subst. destruct (IH _ _ _ E) as [-> Hl]. split; [reflexivity|cbn; lia]. Qed.

(* ---- LWE: b = g32 + <a,key> in wrapping arithmetic, so the phase is g32 ---- *)
Lemma enc_fold_eqm : forall mask key acc,
  eqm32 (fold_left (fun b xy => w32 (b + w32 (fst xy * snd xy))) (combine mask key) acc) (acc + dot mask key).
Proof. induction mask as [|x mask IH]; intros [|y key] acc; cbn [combine fold_left dot]; try (rewrite Z.add_0_r; apply eqm32_refl).
  eapply eqm32_trans; [apply IH|]. cbn [fst snd].
  replace (acc + (x * y + dot mask key)) with ((acc + x * y) + dot mask key) by ring.
  apply eqm32_add; [|apply eqm32_refl]. eapply eqm32_trans; [apply w32_eqm|].
  apply eqm32_add; [apply eqm32_refl|apply w32_eqm]. Qed.

Theorem lwe_encrypt_with_phase key g32 mask : lwe_phase key (lwe_encrypt_with key g32 mask) = w32 g32.
Proof. rewrite lwe_phase_spec. unfold lwe_encrypt_with. cbn [fst snd]. apply eqm32_w32.
  eapply eqm32_trans; [apply eqm32_sub; [apply enc_fold_eqm|apply eqm32_refl]|].
  replace (g32 + dot mask key - dot mask key) with g32 by ring. apply eqm32_refl. Qed.

(* the mask is exactly the n draws that follow the Gaussian draw; the rest of the stream is untouched; the phase error is the
   converted Gaussian draw: neither larger, smaller nor zeroed relative to the sampler *)
Theorem lwe_sym_encrypt_spec key message ds c r : lwe_sym_encrypt key message ds = Some (c, r) ->
  exists g mask, ds = DG (fst g) (snd g) :: map DU mask ++ r /\ length mask = length key /\ fst c = mask /\
    lwe_phase key c = w32 (message + dtot32 (fst g) (snd g)).
Proof. unfold lwe_sym_encrypt. intro H.
  destruct (take_g 1 ds) as [[[|g [|g' gs]] r1]|] eqn:E1; try discriminate.
  destruct (take_u (length key) r1) as [[mask r2]|] eqn:E2; [|discriminate]. inversion H; subst.
  destruct (take_g_spec _ _ _ _ E1) as [-> _]. destruct (take_u_spec _ _ _ _ E2) as [-> Hl].
  exists g, mask. repeat split; [assumption|]. rewrite lwe_encrypt_with_phase. unfold gaussian32. apply w32_idem. Qed.

(* two successive encryptions read disjoint, adjacent stream segments *)
Theorem lwe_encrypt_twice_disjoint key m1 m2 ds c1 r1 c2 r2 :
  lwe_sym_encrypt key m1 ds = Some (c1, r1) -> lwe_sym_encrypt key m2 r1 = Some (c2, r2) ->
  exists g1 g2, ds = (DG (fst g1) (snd g1) :: map DU (fst c1)) ++ (DG (fst g2) (snd g2) :: map DU (fst c2)) ++ r2.
Proof. intros H1 H2. destruct (lwe_sym_encrypt_spec _ _ _ _ _ H1) as (g1 & k1 & -> & _ & <- & _).
  destruct (lwe_sym_encrypt_spec _ _ _ _ _ H2) as (g2 & k2 & -> & _ & <- & _).
  exists g1, g2. cbn [app]. rewrite <- ?app_assoc. reflexivity. Qed.

Theorem boots_encrypt_phase key bit ds c r : boots_sym_encrypt key bit ds = Some (c, r) ->
  exists g, lwe_phase key c = w32 (encode_bit bit + dtot32 (fst g) (snd g)).
Proof. intro H. destruct (lwe_sym_encrypt_spec _ _ _ _ _ H) as (g & _ & _ & _ & _ & Hp). now exists g. Qed.

Theorem lwe_encrypt_ext_phase key message noise ds c r : lwe_sym_encrypt_ext key message noise ds = Some (c, r) ->
  lwe_phase key c = w32 (message + dtot32 (fst noise) (snd noise)) /\ ds = map DU (fst c) ++ r.
Proof. unfold lwe_sym_encrypt_ext. intro H. destruct (take_u (length key) ds) as [[mask r2]|] eqn:E; [|discriminate].
  inversion H; subst. destruct (take_u_spec _ _ _ _ E) as [-> _]. split; [|reflexivity].
  rewrite lwe_encrypt_with_phase. apply w32_idem. Qed.

(* ---- key-switching key: phases of all rows, in row order ---- *)
Fixpoint ks_expected (cells : list (Z * Z)) (noises : list dy) : list Z :=
  match cells with
  | [] => []
  | (mess, h) :: cells' =>
    if h =? 0 then 0 :: ks_expected cells' noises
    else match noises with
         | nz :: noises' => w32 (mess + dtot32_dy nz) :: ks_expected cells' noises'
         | [] => []
         end
  end.
Theorem ks_rows_phases out_key : forall cells noises ds rows r, ks_rows out_key cells noises ds = Some (rows, r) ->
  map (lwe_phase out_key) rows = ks_expected cells noises /\
  (forall idx, (idx < length cells)%nat -> snd (nth idx cells (0, 0)) = 0 -> nth idx rows ([], 1) = lwe_trivial (length out_key) 0).
Proof. induction cells as [|[mess h] cells IH]; intros noises ds rows r H; cbn [ks_rows] in H.
  - inversion H; subst. split; [reflexivity|]. intros idx Hi. cbn in Hi. lia.
  - cbn [ks_expected]. destruct (Z.eqb_spec h 0) as [Hh|Hh].
    + destruct (ks_rows out_key cells noises ds) as [[rows' r']|] eqn:E; [|discriminate]. inversion H; subst.
      destruct (IH _ _ _ _ E) as [Hp Ht]. split.
      * cbn [map]. rewrite phase_trivial. f_equal. exact Hp.
      * intros [|idx] Hi Hz; [reflexivity|]. cbn [nth]. apply Ht; [cbn in Hi; lia|exact Hz].
    + destruct noises as [|nz noises]; [discriminate|].
      destruct (take_u (length out_key) ds) as [[mask r1]|] eqn:E1; [|discriminate].
      destruct (ks_rows out_key cells noises r1) as [[rows' r']|] eqn:E; [|discriminate]. inversion H; subst.
      destruct (IH _ _ _ _ E) as [Hp Ht]. split.
      * cbn [map]. rewrite lwe_encrypt_with_phase, w32_idem. f_equal. exact Hp.
      * intros [|idx] Hi Hz; [cbn in Hz; congruence|]. cbn [nth]. apply Ht; [cbn in Hi; lia|exact Hz]. Qed.

(* ---- TLWE: the mask polynomials are the drawn words, the phase is the vector of converted Gaussian draws ---- *)
(* lweCreateKeySwitchKey_fromArray (used by lweCreateKeySwitchKey_old): every cell, h = 0 included, is a fresh encryption whose
   phase is its message plus its own converted draw *)
Theorem ks_rows_fresh_spec out_key : forall cells ds rows r, ks_rows_fresh out_key cells ds = Some (rows, r) ->
  length rows = length cells /\ exists gs, length gs = length cells /\
    map (lwe_phase out_key) rows = map (fun cg => w32 (fst (fst cg) + dtot32 (fst (snd cg)) (snd (snd cg)))) (combine cells gs).
Proof. induction cells as [|[mess h] cells IH]; intros ds rows r H; cbn [ks_rows_fresh] in H.
  - inversion H; subst. split; [reflexivity|]. exists []. split; reflexivity.
  - destruct (lwe_sym_encrypt out_key mess ds) as [[c r1]|] eqn:E1; [|discriminate].
    destruct (ks_rows_fresh out_key cells r1) as [[rows' r2]|] eqn:E2; [|discriminate]. inversion H; subst. clear H.
    destruct (IH _ _ _ E2) as (Hl & gs & Hg & Hp).
    destruct (lwe_sym_encrypt_spec _ _ _ _ _ E1) as (g & mask & _ & _ & _ & Hph).
    split; [cbn; now rewrite Hl|]. exists (g :: gs). split; [cbn; now rewrite Hg|].
    cbn [map combine fst snd]. rewrite Hph, Hp. reflexivity. Qed.

Section T.
Variable N : nat.
Hypothesis Npos : (0 < N)%nat.

Lemma tlwe_masks_spec : forall key b ds ms b' r, Forall (lenN N) key -> lenN N b ->
  tlwe_masks key N b ds = Some (ms, b', r) ->
  length ms = length key /\ Forall (lenN N) ms /\ lenN N b' /\ ds = concat (map (map DU) ms) ++ r /\
  eqNm N (ofl b') (vadd (ofl b) (mask_sum N key ms)).
Proof. induction key as [|s key IH]; intros b ds ms b' r Hk Hb H; cbn [tlwe_masks] in H.
  - inversion H; subst. repeat split; try constructor; try assumption.
    intros i _. unfold vadd. cbn [mask_sum]. unfold vzero. rewrite Z.add_0_r. apply eqm32_refl.
  - apply Forall_cons_iff in Hk as [Hs Hk'].
    destruct (take_u N ds) as [[a r1]|] eqn:E1; [|discriminate].
    destruct (tlwe_masks key N (poly_addmul b s a) r1) as [[[ms' b''] r2]|] eqn:E2; [|discriminate]. inversion H; subst.
    destruct (take_u_spec _ _ _ _ E1) as [-> Hla].
    assert (Hb1 : lenN N (poly_addmul b s a)) by (apply poly_addmul_len; assumption).
    destruct (IH _ _ _ _ _ Hk' Hb1 E2) as (Hl & Hf & Hb' & -> & Hph).
    repeat split; [cbn; lia|constructor; assumption|assumption|cbn [map concat]; now rewrite app_assoc|].
    eapply eqNm_trans; [exact Hph|]. cbn [mask_sum].
    eapply eqNm_trans; [apply vadd_eqm; [apply ofl_addmul; assumption|apply eqNm_refl]|].
    intros i Hi. unfold vadd. match goal with |- eqm32 ?x ?y => replace y with x by ring end. apply eqm32_refl. Qed.

Theorem tlwe_encrypt_zero_spec key ds c r : Forall (lenN N) key -> tlwe_encrypt_zero key N ds = Some (c, r) ->
  exists gs, length gs = N /\ wf_tsample N (length key) c /\
    ds = map (fun g => DG (fst g) (snd g)) gs ++ concat (map (map DU) (removelast c)) ++ r /\
    eqNm N (PHv N key c) (ofl (map (gaussian32 0) gs)).
Proof. intros Hk H. unfold tlwe_encrypt_zero in H.
  destruct (take_g N ds) as [[gs r1]|] eqn:E1; [|discriminate].
  destruct (tlwe_masks key N (map (gaussian32 0) gs) r1) as [[[ms b] r2]|] eqn:E2; [|discriminate]. inversion H; subst.
  destruct (take_g_spec _ _ _ _ E1) as [-> Hg].
  assert (Hb0 : lenN N (map (gaussian32 0) gs)) by (unfold lenN; now rewrite map_length).
  destruct (tlwe_masks_spec _ _ _ _ _ _ Hk Hb0 E2) as (Hl & Hf & Hb & -> & Hph).
  exists gs. split; [exact Hg|]. split.
  { split; [rewrite app_length; cbn; lia|]. apply Forall_app. split; [exact Hf|constructor; [exact Hb|constructor]]. }
  split; [now rewrite removelast_last|].
  rewrite PHv_app. intros i Hi. unfold vsub. specialize (Hph i Hi). unfold vadd in Hph.
  eapply eqm32_trans; [apply eqm32_sub; [exact Hph|apply eqm32_refl]|].
  match goal with |- eqm32 ?x ?y => replace x with y by ring end. apply eqm32_refl. Qed.
End T.
