(* Proofs/FftInstance.v — a concrete commutative ring with a root of X^4 + 1, so that the hypotheses of the C10 theorems
   about the transforms are met by something: Z[X]/(X^4+1) as 4-tuples of integers, w = X, N = 4 (n = 1, m = 1). *)
From Coq Require Import ZArith Lia List Ring Ring_theory.
From TV Require Import Ring.NegaRing Proofs.Eval Proofs.FftInverse Proofs.FftAlg.
Import ListNotations.
Local Open Scope Z_scope.

Definition Q8 : Type := (Z * Z * Z * Z)%type.
Definition q0 : Q8 := (0, 0, 0, 0).
Definition q1 : Q8 := (1, 0, 0, 0).
Definition qX : Q8 := (0, 1, 0, 0).
Definition qadd (a b : Q8) : Q8 := let '(a0, a1, a2, a3) := a in let '(b0, b1, b2, b3) := b in (a0 + b0, a1 + b1, a2 + b2, a3 + b3).
Definition qopp (a : Q8) : Q8 := let '(a0, a1, a2, a3) := a in (- a0, - a1, - a2, - a3).
Definition qsub (a b : Q8) : Q8 := qadd a (qopp b).
Definition qmul (a b : Q8) : Q8 := let '(a0, a1, a2, a3) := a in let '(b0, b1, b2, b3) := b in
  (a0 * b0 - a1 * b3 - a2 * b2 - a3 * b1, a0 * b1 + a1 * b0 - a2 * b3 - a3 * b2,
   a0 * b2 + a1 * b1 + a2 * b0 - a3 * b3, a0 * b3 + a1 * b2 + a2 * b1 + a3 * b0).

Lemma Q8_ring : ring_theory q0 q1 qadd qmul qsub qopp (@eq Q8).
Proof. constructor; intros; repeat match goal with x : Q8 |- _ => destruct x as [[[? ?] ?] ?] end;
  unfold qsub, qadd, qmul, qopp, q0, q1; repeat (f_equal; try ring). Qed.

Lemma qX_root : rpow Q8 q1 qmul qX (2 ^ 2) = qopp q1.
Proof. reflexivity. Qed.

(* the inverse-transform identity at work: coefficients (3, -5, 7, 11), j = 2 *)
Definition fex : vec := fun i => nth i [3; -5; 7; 11] 0.
Example inverse_transform_instance :
  rsum Q8 q0 qadd 4 (fun k => qmul (rpow Q8 q1 qmul qX ((2 * k + 1) * (2 * 4 - 2)))
                                   (ev Q8 q0 q1 qadd qmul qopp 4 (rpow Q8 q1 qmul qX (2 * k + 1)) fex))
  = qmul (zr Q8 q0 q1 qadd qmul qopp 4) (zr Q8 q0 q1 qadd qmul qopp 7).
Proof. exact (inverse_transform Q8 q0 q1 qadd qmul qsub qopp Q8_ring 1 qX qX_root fex 2 ltac:(cbn; lia)). Qed.
Example inverse_transform_value :
  qmul (zr Q8 q0 q1 qadd qmul qopp 4) (zr Q8 q0 q1 qadd qmul qopp 7) = (28, 0, 0, 0).
Proof. vm_compute. reflexivity. Qed.

(* the fold-twist-FFT scheme on the same coefficients: two outputs, the evaluations at X and X^5 = -X *)
Example half_complex_instance :
  fft Q8 q0 q1 qadd qmul qsub 1 (rpow Q8 q1 qmul qX 4) (fold_twist Q8 q0 q1 qadd qmul qopp 1 qX fex)
  = [(3, -5, 7, 11); (3, 5, 7, -11)].
Proof. vm_compute. reflexivity. Qed.
Example half_complex_instance_thm :
  fft Q8 q0 q1 qadd qmul qsub 1 (rpow Q8 q1 qmul qX 4) (fold_twist Q8 q0 q1 qadd qmul qopp 1 qX fex)
  = tab Q8 2 (fun k => ev Q8 q0 q1 qadd qmul qopp 4 (rpow Q8 q1 qmul qX (4 * k + 1)) fex).
Proof. exact (half_complex_transform Q8 q0 q1 qadd qmul qsub qopp Q8_ring 1 qX qX_root fex). Qed.

(* the automorphism X -> X^7 = X^-1 of Z[X]/(X^4+1) ("complex conjugation"): the hypotheses of the conjugate-symmetry theorems are met *)
Definition qconj (a : Q8) : Q8 := let '(a0, a1, a2, a3) := a in (a0, - a3, - a2, - a1).
Lemma qconj_add x y : qconj (qadd x y) = qadd (qconj x) (qconj y).
Proof. destruct x as [[[? ?] ?] ?], y as [[[? ?] ?] ?]. unfold qconj, qadd. repeat (f_equal; try ring). Qed.
Lemma qconj_mul x y : qconj (qmul x y) = qmul (qconj x) (qconj y).
Proof. destruct x as [[[? ?] ?] ?], y as [[[? ?] ?] ?]. unfold qconj, qmul. repeat (f_equal; try ring). Qed.
Lemma qconj_one : qconj q1 = q1. Proof. reflexivity. Qed.
Lemma qconj_X : qconj qX = rpow Q8 q1 qmul qX (2 * 2 ^ 2 - 1). Proof. reflexivity. Qed.
Example other_half_instance :
  ev Q8 q0 q1 qadd qmul qopp 4 (rpow Q8 q1 qmul qX (4 * (2 ^ 1 - 0 - 1) + 3)) fex
  = qconj (ev Q8 q0 q1 qadd qmul qopp 4 (rpow Q8 q1 qmul qX (4 * 0 + 1)) fex).
Proof. exact (other_half_by_conjugation Q8 q0 q1 qadd qmul qsub qopp Q8_ring qconj qconj_add qconj_mul qconj_one 1 qX qX_root qconj_X fex 0 ltac:(cbn; lia)). Qed.

(* the inverse transform from the stored half, at work: the two stored points of fex (N = 4, M = 2), coefficient j = 1 *)
Example inverse_from_half_instance :
  let H := rsum Q8 q0 qadd 2 (fun k => qmul (rpow Q8 q1 qmul qX ((4 * k + 1) * (2 * 2 ^ 2 - 1)))
                                            (ev Q8 q0 q1 qadd qmul qopp 4 (rpow Q8 q1 qmul qX (4 * k + 1)) fex)) in
  qadd H (qconj H) = (-20, 0, 0, 0).
Proof. vm_compute. reflexivity. Qed.
Example inverse_from_half_instance_thm :
  let H := rsum Q8 q0 qadd 2 (fun k => qmul (rpow Q8 q1 qmul qX ((4 * k + 1) * (2 * 2 ^ 2 - 1)))
                                            (ev Q8 q0 q1 qadd qmul qopp 4 (rpow Q8 q1 qmul qX (4 * k + 1)) fex)) in
  qadd H (qconj H) = qmul (zr Q8 q0 q1 qadd qmul qopp 4) (zr Q8 q0 q1 qadd qmul qopp (-5)).
Proof. exact (inverse_from_half Q8 q0 q1 qadd qmul qsub qopp Q8_ring qconj qconj_add qconj_mul qconj_one 1 qX qX_root qconj_X fex 1 ltac:(cbn; lia)). Qed.
