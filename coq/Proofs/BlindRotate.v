(* Proofs/BlindRotate.v — C09 / C04: the CMux step and the blind rotation on phases.
   Key element i is characterised by what C09's external-product theorems give for a TGSW encryption of a bit s_i:
   phase(bk_i (x) t) = s_i * phase(t) + E_i(t)  (mod 2^32).  Then one CMux step multiplies the accumulator phase by
   X^(a s_i) up to E_i, and the whole loop (zero exponents skipped) multiplies it by X^(sum_i a_i s_i) up to an error whose
   sup norm is at most (number of executed steps) * beta, for every exponent vector in [0,2N)^n and every n. *)
From Coq Require Import ZArith Lia List Bool.
From TV Require Import Base.Int32 Base.Sums Ring.NegaRing Model.Numeric Model.Lwe Model.Poly Model.Tlwe Model.Decomp Model.Tgsw Model.KeySwitch
  Model.Bootstrap Proofs.Lwe Proofs.Poly Proofs.Tlwe Proofs.Tgsw.
Import ListNotations.
Local Open Scope Z_scope.

Section BR.
Variable N : nat.
Hypothesis Npos : (0 < N)%nat.
Variable key : list (list Z).
Variable k : nat.
Hypothesis Hkey : wf_tkey N k key.
Variables (l : nat) (B : Z).

Notation PH := (PHv N key).
Notation "f ~ g" := (eqNm N f g) (at level 70).

(* ---- more linearity ---- *)
Lemma Shn_vadd a f g : eqv (Shn N a (vadd f g)) (vadd (Shn N a f) (Shn N a g)).
Proof. induction a as [|a IH]; intro i; cbn [Shn]; [reflexivity|].
  rewrite (Sh_ext N _ _ IH i). apply Sh_vadd. Qed.
Lemma Shn_vsub a f g : eqv (Shn N a (vsub f g)) (vsub (Shn N a f) (Shn N a g)).
Proof. intro i.
  rewrite (Shn_ext N a (vsub f g) (vadd f (vopp g)) ltac:(intro j; unfold vsub, vadd, vopp; ring) i).
  rewrite (Shn_vadd a f (vopp g) i). unfold vadd, vsub. rewrite (Shn_vopp N a g i). unfold vopp. ring. Qed.
Lemma act_Shn s a f : eqv (act N s (Shn N a f)) (Shn N a (act N s f)).
Proof. induction a as [|a IH]; intro i; cbn [Shn]; [reflexivity|].
  rewrite (act_Sh N s (Shn N a f) i). apply Sh_ext. exact IH. Qed.

(* component-wise operations on samples and their phases *)
Lemma ofl_poly_add a b : lenN N a -> lenN N b -> ofl (poly_add a b) ~ vadd (ofl a) (ofl b).
Proof. unfold lenN. intros Ha Hb i Hi. rewrite ofl_nth. rewrite (poly_add_spec a b i) by lia. apply w32_eqm. Qed.
Lemma poly_add_len a b : lenN N a -> lenN N b -> lenN N (poly_add a b).
Proof. unfold lenN, poly_add. intros Ha Hb. rewrite zipw_length; lia. Qed.

Lemma mask_sum_add : forall ky m1 m2, Forall (lenN N) ky -> Forall (lenN N) m1 -> Forall (lenN N) m2 -> length m1 = length m2 ->
  mask_sum N ky (map2 poly_add m1 m2) ~ vadd (mask_sum N ky m1) (mask_sum N ky m2).
Proof. induction ky as [|s ky IH]; intros m1 m2 Hk H1 H2 Hl.
  - cbn [mask_sum]. intros i _. unfold vadd, vzero. apply eqm32_refl.
  - destruct m1 as [|a m1]; destruct m2 as [|b m2]; cbn [length] in Hl; try lia.
    + cbn [map2 combine map mask_sum]. intros i _. unfold vadd, vzero. apply eqm32_refl.
    + apply Forall_cons_iff in Hk as [Hs Hk']. apply Forall_cons_iff in H1 as [Ha H1']. apply Forall_cons_iff in H2 as [Hb H2'].
      unfold map2. cbn [combine map fst snd mask_sum]. fold (map2 poly_add m1 m2).
      eapply eqNm_trans; [apply vadd_eqm; [apply (act_eqm N Npos), ofl_poly_add; assumption|apply IH; try assumption; lia]|].
      intros i Hi. pose proof (act_vadd N s (ofl a) (ofl b) i) as E1. unfold vadd in *. rewrite E1.
      match goal with |- eqm32 ?x ?y => replace y with x by ring end. apply eqm32_refl. Qed.

Theorem PHv_add x y : wf_tsample N k x -> wf_tsample N k y -> PH (tlwe_add x y) ~ vadd (PH x) (PH y).
Proof. intros Hx Hy. destruct Hkey as [Hk Hkf].
  destruct (wf_split N Npos k x Hx) as (mx & bx & -> & Hmx & Hmxf & Hbx).
  destruct (wf_split N Npos k y Hy) as (my & by' & -> & Hmy & Hmyf & Hby).
  unfold tlwe_add. rewrite map2_app by lia. rewrite !PHv_app.
  eapply eqNm_trans; [apply vsub_eqm; [apply ofl_poly_add; assumption|apply mask_sum_add; try assumption; lia]|].
  intros i Hi. unfold vsub, vadd. match goal with |- eqm32 ?x ?y => replace y with x by ring end. apply eqm32_refl. Qed.
Lemma tlwe_add_wf x y : wf_tsample N k x -> wf_tsample N k y -> wf_tsample N k (tlwe_add x y).
Proof. intros [Hx Hxf] [Hy Hyf]. unfold tlwe_add, map2. split; [rewrite map_length, combine_length; lia|].
  apply Forall_forall. intros p Hp. apply in_map_iff in Hp as ((a & b) & <- & Hin). cbn [fst snd].
  rewrite Forall_forall in Hxf, Hyf. apply poly_add_len; [apply Hxf|apply Hyf]; [eapply in_combine_l|eapply in_combine_r]; exact Hin. Qed.

(* (X^a - 1) * c, component-wise, for 0 <= a < 2N *)
Definition xm1 (a : nat) (src : list Z) : list Z := map (fun i => w32 (xai_coeff src a i - nth i src 0)) (seq 0 (length src)).
Lemma xm1_len a src : length (xm1 a src) = length src. Proof. unfold xm1. now rewrite map_length, seq_length. Qed.
Lemma ofl_xm1 a src : lenN N src -> (a < 2 * N)%nat -> ofl (xm1 a src) ~ vsub (Shn N a (ofl src)) (ofl src).
Proof. unfold lenN. intros Hs Ha i Hi. rewrite ofl_nth. unfold xm1. rewrite Hs.
  rewrite (nth_map_seq _ N i Hi). eapply eqm32_trans; [apply w32_eqm|]. unfold vsub.
  apply eqm32_sub; [|apply eqm32_refl].
  assert (H1 : (0 < length src)%nat) by lia. assert (H2 : (a < 2 * length src)%nat) by lia. assert (H3 : (i < length src)%nat) by lia.
  pose proof (xai_is_shift src H1 a i H2 H3) as H. rewrite Hs in H. exact H. Qed.

Lemma mulXm1_ok a c : wf_tsample N k c -> (a < 2 * N)%nat ->
  tlwe_mulByXaiMinusOne (Z.of_nat a) c = Some (map (xm1 a) c).
Proof. intros [Hl Hf] Ha. unfold tlwe_mulByXaiMinusOne. clear Hl. induction Hf as [|p c Hp Hf IH]; [reflexivity|].
  cbn [map Poly.all_some]. unfold lenN in Hp.
  assert (H1 : (0 < length p)%nat) by lia. assert (H2 : (a < 2 * length p)%nat) by lia.
  rewrite (mulByXaiMinusOne_ok p H1 a H2). fold (xm1 a p). rewrite IH. reflexivity. Qed.
Lemma xm1_wf a c : wf_tsample N k c -> wf_tsample N k (map (xm1 a) c).
Proof. intros [Hl Hf]. split; [now rewrite map_length|]. apply Forall_forall. intros p Hp. apply in_map_iff in Hp as (q & <- & Hq).
  rewrite Forall_forall in Hf. unfold lenN. rewrite xm1_len. apply Hf, Hq. Qed.

Lemma Shn_vzero a i : Shn N a vzero i = 0.
Proof. revert i. induction a as [|a IHa]; intro i; cbn [Shn]; [reflexivity|]. destruct i; cbn [Sh]; rewrite IHa; reflexivity. Qed.
Lemma mask_sum_xm1 a : (a < 2 * N)%nat -> forall ky m, Forall (lenN N) ky -> Forall (lenN N) m ->
  mask_sum N ky (map (xm1 a) m) ~ vsub (Shn N a (mask_sum N ky m)) (mask_sum N ky m).
Proof. intros Ha. induction ky as [|s ky IH]; intros m Hk Hm.
  - cbn [mask_sum]. intros i Hi. unfold vsub. rewrite Shn_vzero. unfold vzero. apply eqm32_refl.
  - destruct m as [|p m]; cbn [map mask_sum].
    + intros i Hi. unfold vsub. rewrite Shn_vzero. unfold vzero. apply eqm32_refl.
    + apply Forall_cons_iff in Hk as [Hs Hk']. apply Forall_cons_iff in Hm as [Hp Hm'].
      eapply eqNm_trans; [apply vadd_eqm; [apply (act_eqm N Npos), ofl_xm1; assumption|apply IH; assumption]|].
      intros i Hi.
      pose proof (act_vsub N s (Shn N a (ofl p)) (ofl p) i) as E1.
      pose proof (act_Shn s a (ofl p) i) as E2.
      pose proof (Shn_vadd a (act N s (ofl p)) (mask_sum N ky m) i) as E3.
      unfold vadd, vsub in *. rewrite E1, E2, E3.
      match goal with |- eqm32 ?x ?y => replace y with x by ring end. apply eqm32_refl. Qed.

Theorem PHv_xm1 a c : wf_tsample N k c -> (a < 2 * N)%nat -> PH (map (xm1 a) c) ~ vsub (Shn N a (PH c)) (PH c).
Proof. intros Hc Ha. destruct Hkey as [Hk Hkf]. destruct (wf_split N Npos k c Hc) as (m & b & -> & Hm & Hmf & Hb).
  rewrite map_app. cbn [map]. rewrite !PHv_app.
  eapply eqNm_trans; [apply vsub_eqm; [apply ofl_xm1; assumption|apply mask_sum_xm1; assumption]|].
  intros i Hi. pose proof (Shn_vsub a (ofl b) (mask_sum N key m) i) as E. unfold vsub in *. rewrite E.
  match goal with |- eqm32 ?x ?y => replace y with x by ring end. apply eqm32_refl. Qed.

(* the external product returns a well-formed sample *)
Lemma fold_addmulR_wf : forall ds C r, wf_tsample N k r -> Forall (wf_tsample N k) C -> Forall (lenN N) ds ->
  wf_tsample N k (fold_left (fun r dp => tlwe_addmulR r (fst dp) (snd dp)) (combine ds C) r).
Proof. induction ds as [|d ds IH]; intros C r Hr HC Hd; [exact Hr|]. destruct C as [|c C]; [exact Hr|].
  apply Forall_cons_iff in HC as [Hc HC']. apply Forall_cons_iff in Hd as [Hd0 Hd']. cbn [combine fold_left fst snd].
  apply IH; [apply (addmulR_wf N Npos); assumption|exact HC'|exact Hd']. Qed.
Theorem extprod_wf C acc : wf_tsample N k acc -> Forall (wf_tsample N k) C -> wf_tsample N k (extprod l B C acc).
Proof. intros Hacc HC. unfold extprod. destruct Hacc as [Hal Haf].
  assert (H1 : (length acc - 1)%nat = k) by lia.
  assert (H2 : length (hd [] acc) = N) by (destruct acc as [|a acc]; [cbn in Hal; lia|apply Forall_cons_iff in Haf as [Ha _]; exact Ha]).
  rewrite H1, H2. apply fold_addmulR_wf; [apply clear_wf|exact HC|apply decomp_rows_len; exact Haf]. Qed.

(* ---- a key element that acts like the bit s up to the error E ---- *)
Definition acts_like (g : tgsw) (s : Z) (E : tsample -> vec) (beta : Z) : Prop :=
  Forall (wf_tsample N k) g /\ (s = 0 \/ s = 1) /\
  forall t, wf_tsample N k t -> PH (extprod l B g t) ~ vadd (vscale s (PH t)) (E t) /\ (forall j, (j < N)%nat -> Z.abs (E t j) <= beta).

(* one CMux step: ACC + bk (X^a - 1) ACC  has phase  X^(a s) * phase(ACC) + E *)
Theorem cmux_phase g s E beta a acc : acts_like g s E beta -> wf_tsample N k acc -> (a < 2 * N)%nat ->
  exists acc' err, mux_rotate l B g (Z.of_nat a) acc = Some acc' /\ wf_tsample N k acc' /\
    PH acc' ~ vadd (Shn N (a * Z.to_nat s) (PH acc)) err /\ (forall j, (j < N)%nat -> Z.abs (err j) <= beta).
Proof. intros (Hg & Hs & HE) Hacc Ha. unfold mux_rotate. rewrite (mulXm1_ok a acc Hacc Ha).
  pose proof (xm1_wf a acc Hacc) as Ht. destruct (HE _ Ht) as [Hph Hb].
  eexists. exists (E (map (xm1 a) acc)). split; [reflexivity|]. split; [apply tlwe_add_wf; [apply extprod_wf; assumption|assumption]|]. split; [|exact Hb].
  eapply eqNm_trans; [apply PHv_add; [apply extprod_wf; assumption|assumption]|].
  eapply eqNm_trans; [apply vadd_eqm; [exact Hph|apply eqNm_refl]|].
  pose proof (PHv_xm1 a acc Hacc Ha) as Hx.
  intros i Hi. specialize (Hx i Hi). unfold vadd, vscale, vsub in *.
  destruct Hs as [-> | ->].
  - cbn [Z.to_nat]. rewrite Nat.mul_0_r. cbn [Shn]. match goal with |- eqm32 ?x ?y => replace x with y by ring end. apply eqm32_refl.
  - change (Z.to_nat 1) with 1%nat. rewrite Nat.mul_1_r.
    eapply eqm32_trans; [apply eqm32_add; [apply eqm32_add; [apply eqm32_mul; [apply eqm32_refl|exact Hx]|apply eqm32_refl]|apply eqm32_refl]|].
    match goal with |- eqm32 ?x ?y => replace x with y by ring end. apply eqm32_refl. Qed.

(* sup norm on [0,N) is invariant under multiplication by a monomial *)
Lemma Shn_bound a f beta : (forall j, (j < N)%nat -> Z.abs (f j) <= beta) -> forall j, (j < N)%nat -> Z.abs (Shn N a f j) <= beta.
Proof. induction a as [|a IH]; intros H j Hj; cbn [Shn]; [apply H, Hj|].
  destruct j as [|j]; cbn [Sh]; [rewrite Z.abs_opp; apply IH; [exact H|lia]|apply IH; [exact H|lia]]. Qed.

(* ---- the loop: key elements g_i acting like s_i, exponents a_i ---- *)
Inductive good_key : list tgsw -> list Z -> Z -> Prop :=
| gk_nil beta : good_key [] [] beta
| gk_cons g gs s ss E beta : acts_like g s E beta -> good_key gs ss beta -> good_key (g :: gs) (s :: ss) beta.

Fixpoint expo (bara : list nat) (ss : list Z) : nat :=
  match bara, ss with a :: bara', s :: ss' => (a * Z.to_nat s + expo bara' ss')%nat | _, _ => 0%nat end.
Fixpoint steps (bara : list nat) : Z := match bara with [] => 0 | a :: r => (if Nat.eqb a 0 then 0 else 1) + steps r end.

Theorem blind_rotate_phase : forall bk ss beta, good_key bk ss beta -> 0 <= beta ->
  forall (bara : list nat) acc, length bara = length bk -> Forall (fun a => (a < 2 * N)%nat) bara -> wf_tsample N k acc ->
  exists accf err, blind_rotate l B bk (map Z.of_nat bara) acc = Some accf /\ wf_tsample N k accf /\
    PH accf ~ vadd (Shn N (expo bara ss) (PH acc)) err /\ (forall j, (j < N)%nat -> Z.abs (err j) <= steps bara * beta).
Proof. intros bk ss beta HG Hbeta. unfold blind_rotate. induction HG as [beta|g gs s ss E beta Hg HG IH]; intros bara acc Hl Hb Hacc.
  - destruct bara; [|cbn in Hl; lia]. exists acc, vzero. cbn. repeat split; try assumption; try apply Hacc.
    + intros i Hi. unfold vadd, vzero. rewrite Z.add_0_r. apply eqm32_refl.
    + intros j Hj. unfold vzero. cbn. lia.
  - destruct bara as [|a bara]; [cbn in Hl; lia|]. apply Forall_cons_iff in Hb as [Ha Hb'].
    cbn [map combine fold_left br_step snd fst].
    destruct (Nat.eqb_spec a 0) as [->|Hne].
    + (* skipped *)
      cbn [Z.of_nat Z.eqb]. destruct (IH Hbeta bara acc ltac:(cbn in Hl; lia) Hb' Hacc) as (accf & err & Hr & Hw & Hp & He).
      exists accf, err. split; [exact Hr|]. split; [exact Hw|]. split.
      * cbn [expo]. rewrite Nat.mul_0_l, Nat.add_0_l. exact Hp.
      * intros j Hj. cbn [steps]. rewrite Nat.eqb_refl. specialize (He j Hj). lia.
    + destruct (Z.eqb_spec (Z.of_nat a) 0) as [H0|_]; [lia|].
      destruct (cmux_phase g s E beta a acc Hg Hacc Ha) as (acc1 & e1 & Hm & Hw1 & Hp1 & He1). rewrite Hm.
      destruct (IH Hbeta bara acc1 ltac:(cbn in Hl; lia) Hb' Hw1) as (accf & err & Hr & Hw & Hp & He).
      exists accf, (vadd (Shn N (expo bara ss) e1) err). split; [exact Hr|]. split; [exact Hw|]. split.
      * eapply eqNm_trans; [exact Hp|]. cbn [expo].
        eapply eqNm_trans; [apply vadd_eqm; [apply (Shn_eqm N Npos); exact Hp1|apply eqNm_refl]|].
        intros i Hi.
        pose proof (Shn_vadd (expo bara ss) (Shn N (a * Z.to_nat s) (PH acc)) e1 i) as E1.
        pose proof (Shn_add N (expo bara ss) (a * Z.to_nat s) (PH acc) i) as E2.
        unfold vadd in *. rewrite E1. rewrite <- E2. rewrite (Nat.add_comm (expo bara ss)).
        match goal with |- eqm32 ?x ?y => replace x with y by ring end. apply eqm32_refl.
      * intros j Hj. cbn [steps]. destruct (Nat.eqb_spec a 0); [contradiction|].
        unfold vadd. pose proof (Shn_bound (expo bara ss) e1 beta He1 j Hj). specialize (He j Hj).
        pose proof (Z.abs_triangle (Shn N (expo bara ss) e1 j) (err j)). lia. Qed.
End BR.
