(* Proofs/Eval.v — C10 (algebraic content of the half-complex FFT): over ANY commutative ring R and any w in R
   with w^N = -1, evaluation at w turns the negacyclic product into the point-wise product, and commutes with
   addition, scaling and constants.  (The FFT back-ends evaluate at the N/2 odd 2N-th roots of unity of C.) *)
From Coq Require Import ZArith Lia List Ring Ring_theory InitialRing Setoid.
From TV Require Import Base.Sums Ring.NegaRing.
Import ListNotations.

Section Ev.
Variable R : Type.
Variables (rO rI : R) (radd rmul rsub : R -> R -> R) (ropp : R -> R).
Variable Rth : ring_theory rO rI radd rmul rsub ropp (@eq R).
Add Ring Rring : Rth.
Notation "x + y" := (radd x y). Notation "x * y" := (rmul x y). Notation "- x" := (ropp x). Notation "x - y" := (rsub x y).

Definition zr : Z -> R := gen_phiZ rO rI radd rmul ropp.
Let M := gen_phiZ_morph (Eqsth R) (Eq_ext radd rmul ropp) Rth.
Lemma zr_add x y : zr (x + y)%Z = zr x + zr y. Proof. apply (morph_add M). Qed.
Lemma zr_mul x y : zr (x * y)%Z = zr x * zr y. Proof. apply (morph_mul M). Qed.
Lemma zr_opp x : zr (- x)%Z = - zr x. Proof. apply (morph_opp M). Qed.
Lemma zr_0 : zr 0%Z = rO. Proof. apply (morph0 M). Qed.
Lemma zr_1 : zr 1%Z = rI. Proof. apply (morph1 M). Qed.

(* sum_{i<n} g i *)
Fixpoint rsum (n : nat) (g : nat -> R) : R := match n with O => rO | S n' => rsum n' g + g n' end.
Lemma rsum_ext n g h : (forall i, (i < n)%nat -> g i = h i) -> rsum n g = rsum n h.
Proof. induction n as [|n IH]; intro H; cbn [rsum]; [reflexivity|]. rewrite IH by (intros; apply H; lia). rewrite H by lia. reflexivity. Qed.
Lemma rsum_add n g h : rsum n (fun i => g i + h i) = rsum n g + rsum n h.
Proof. induction n as [|n IH]; cbn [rsum]; [ring|]. rewrite IH. ring. Qed.
Lemma rsum_scale n c g : rsum n (fun i => c * g i) = c * rsum n g.
Proof. induction n as [|n IH]; cbn [rsum]; [ring|]. rewrite IH. ring. Qed.
Lemma rsum_shift n g : rsum (S n) g = g O + rsum n (fun i => g (S i)).
Proof. induction n as [|n IH]; [cbn; ring|]. change (rsum (S (S n)) g) with (rsum (S n) g + g (S n)). rewrite IH. cbn [rsum]. ring. Qed.

Lemma rsum_zero n g : (forall i, g i = rO) -> rsum n g = rO.
Proof. intro H. induction n as [|n IH]; cbn [rsum]; [reflexivity|]. rewrite IH, H. ring. Qed.

Variable N : nat.
Hypothesis Npos : (0 < N)%nat.
Variable w : R.
Fixpoint rpow (n : nat) : R := match n with O => rI | S n' => w * rpow n' end.
Hypothesis wN : rpow N = - rI.

(* evaluation of a coefficient vector at w *)
Definition ev (f : vec) : R := rsum N (fun i => zr (f i) * rpow i).

Lemma ev_ext f g : eqN N f g -> ev f = ev g.
Proof. intro H. apply rsum_ext. intros i Hi. now rewrite (H i Hi). Qed.
Lemma ev_vadd f g : ev (vadd f g) = ev f + ev g.
Proof. unfold ev, vadd. rewrite <- rsum_add. apply rsum_ext. intros i _. rewrite zr_add. ring. Qed.
Lemma ev_vscale c f : ev (vscale c f) = zr c * ev f.
Proof. unfold ev, vscale. rewrite <- rsum_scale. apply rsum_ext. intros i _. rewrite zr_mul. ring. Qed.
Lemma ev_vzero : ev vzero = rO.
Proof. unfold ev, vzero. apply rsum_zero. intro i. rewrite zr_0. ring. Qed.

(* multiplication by X: the shift with sign flip at the wrap-around *)
Lemma ev_Sh f : ev (Sh N f) = w * ev f.
Proof. unfold ev. destruct N as [|n] eqn:E; [lia|].
  rewrite rsum_shift. cbn [Sh]. replace (S n - 1)%nat with n by lia.
  rewrite (rsum_ext n (fun i => zr (f i) * rpow (S i)) (fun i => w * (zr (f i) * rpow i))) by (intros; cbn [rpow]; ring).
  rewrite rsum_scale. cbn [rsum rpow]. rewrite zr_opp.
  assert (H : w * rpow n = - rI) by (rewrite <- wN; reflexivity).
  set (A := rsum n (fun i => zr (f i) * rpow i)).
  transitivity (w * A + zr (f n) * (w * rpow n)); [rewrite H; ring|ring]. Qed.

(* Horner evaluation of a coefficient list *)
Fixpoint peval (a : list Z) : R := match a with [] => rO | x :: a' => zr x + w * peval a' end.

Theorem ev_act a v : ev (act N a v) = peval a * ev v.
Proof. induction a as [|x a IH]; cbn [act peval]; [rewrite ev_vzero; ring|].
  rewrite ev_vadd, ev_vscale, ev_Sh, IH. ring. Qed.

Lemma ev_e0 : ev (e0) = rI.
Proof. unfold ev. destruct N as [|n]; [lia|]. rewrite rsum_shift. cbn [e0 rpow].
  rewrite (rsum_zero n) by (intro i; unfold e0; rewrite zr_0; ring).
  rewrite zr_1. ring. Qed.

Lemma ev_ofl b : (length b <= N)%nat -> ev (ofl b) = peval b.
Proof. intro H. rewrite (ev_ext (ofl b) (act N b e0)) by (apply eqN_sym, act_e0; assumption).
  rewrite ev_act, ev_e0. ring. Qed.

(* C10: the point-wise product of the evaluations is the evaluation of the negacyclic product *)
Theorem ev_mul a b : (length b <= N)%nat -> ev (mul N a b) = peval a * peval b.
Proof. intro H. unfold mul. rewrite ev_act, ev_ofl by assumption. reflexivity. Qed.
(* constants: the polynomial c*X^0 evaluates to c at every root *)
Theorem ev_constant c : ev (vscale c e0) = zr c.
Proof. rewrite ev_vscale, ev_e0. ring. Qed.
End Ev.

(* ---- the conversion double -> Torus32 at the end of the direct transform: Torus32(int64_t(x)) ---- *)
From TV Require Import Base.Int32.
Local Open Scope Z_scope.
(* x = num/den (den > 0) is the double before conversion, v the exact integer coefficient: if |x - v| < d then the
   stored value differs from v by at most d units, modulo 2^32 *)
Theorem trunc_conversion num den v d : 0 < den -> 0 < d -> Z.abs (num - v * den) < d * den ->
  exists delta, Z.abs delta <= d /\ eqm32 (w32 (Z.quot num den)) (v + delta).
Proof. intros Hden Hd H. exists (Z.quot num den - v). split.
  - pose proof (Z.quot_rem' num den) as E. pose proof (Z.rem_bound_abs num den ltac:(lia)) as Hr.
    set (q := Z.quot num den) in *. set (r := Z.rem num den) in *.
    assert (Z.abs ((q - v) * den) < (d + 1) * den) by (rewrite (Z.abs_eq den) in Hr by lia; lia).
    rewrite Z.abs_mul, (Z.abs_eq den) in H0 by lia. nia.
  - eapply eqm32_trans; [apply w32_eqm|]. replace (v + (Z.quot num den - v)) with (Z.quot num den) by ring. apply eqm32_refl. Qed.
