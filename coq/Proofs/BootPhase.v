(* Proofs/BootPhase.v — C04: blind-rotate-and-extract returns an LWE sample whose phase under the extracted key is the p-th
   coefficient of the anticyclic extension of the test polynomial, p = barb - sum_i bara_i s_i mod 2N, plus the blind-rotation
   error at coefficient 0 — for all 2N values of p, every n (n > N included), every test polynomial. *)
From Coq Require Import ZArith Lia List Bool.
From TV Require Import Base.Int32 Base.Sums Ring.NegaRing Model.Numeric Model.Lwe Model.Poly Model.Tlwe Model.Decomp Model.Tgsw Model.KeySwitch
  Model.Bootstrap Proofs.Lwe Proofs.Poly Proofs.Tlwe Proofs.Tgsw Proofs.BlindRotate Proofs.Bootstrap Proofs.Ledger Proofs.Numeric Proofs.Digits Proofs.KeySwitch.
Import ListNotations.
Local Open Scope Z_scope.

(* the phase depends on (a, b) only modulo 2^32 *)
Lemma dot_congr : forall a a' key, Forall2 eqm32 a a' -> eqm32 (dot a key) (dot a' key).
Proof. intros a a' key H. revert key. induction H as [|x y a a' Hxy H IH]; intros [|s key]; cbn [dot]; try apply eqm32_refl.
  apply eqm32_add; [apply eqm32_mul; [exact Hxy|apply eqm32_refl]|apply IH]. Qed.
Lemma lwe_phase_congr key a a' b b' : Forall2 eqm32 a a' -> eqm32 b b' -> lwe_phase key (a, b) = lwe_phase key (a', b').
Proof. intros Ha Hb. rewrite !lwe_phase_spec. cbn [fst snd]. apply eqm32_w32. apply eqm32_sub; [exact Hb|apply dot_congr, Ha]. Qed.

Section BP.
Variable N : nat.
Hypothesis Npos : (0 < N)%nat.
Variable key : list (list Z).
Variable k : nat.
Hypothesis Hkey : wf_tkey N k key.
Variables (l : nat) (B : Z).
Notation PH := (PHv N key).
Notation "f ~ g" := (eqNm N f g) (at level 70).

(* ---- the checked extraction, explicitly, and its phase ---- *)
Definition ext_checked (a : list Z) (j : nat) : list Z :=
  map (fun m => if (m <=? j)%nat then nth (j - m) a 0 else w32 (- nth (N + j - m) a 0)) (seq 0 N).
Lemma ext_checked_spec a j : Forall2 eqm32 (ext_checked a j) (ext_spec N (ofl a) j).
Proof. unfold ext_checked, ext_spec. induction (seq 0 N) as [|m ms IH]; cbn [map]; constructor; [|exact IH].
  unfold ofl. destruct (m <=? j)%nat; [apply eqm32_refl|apply w32_eqm]. Qed.

Lemma tlwe_extract_explicit c j : (j < N)%nat -> wf_tsample N k c ->
  tlwe_extract c (Z.of_nat j) = Some (concat (map (fun a => ext_checked a j) (removelast c)), nth j (last c []) 0).
Proof. intros Hj [Hl Hf]. unfold tlwe_extract, concat_opt.
  assert (Hne : c <> []) by (destruct c; [cbn in Hl; lia|discriminate]).
  assert (Hb : length (last c []) = N) by (apply (Forall_last (fun a => length a = N)); assumption).
  assert (Hm : Forall (fun a => length a = N) (removelast c)) by now apply Forall_removelast.
  assert (HA : Poly.all_some (map (fun a => extract_poly a (Z.of_nat j)) (removelast c)) = Some (map (fun a => ext_checked a j) (removelast c))).
  { clear -Hm Hj. induction Hm as [|a m Ha Hm IH]; [reflexivity|]. cbn [map Poly.all_some]. rewrite extract_poly_ok by lia. rewrite IH.
    unfold ext_checked. rewrite Ha. reflexivity. }
  rewrite HA. rewrite getz_ok by lia. reflexivity. Qed.

Lemma Forall2_concat_map {A} (R : Z -> Z -> Prop) (f g : A -> list Z) (xs : list A) : (forall x, Forall2 R (f x) (g x)) ->
  Forall2 R (concat (map f xs)) (concat (map g xs)).
Proof. intro H. induction xs as [|x xs IH]; cbn [map concat]; [constructor|]. apply Forall2_app; [apply H|exact IH]. Qed.

Lemma ext_mask_length c j : wf_tsample N k c -> length (concat (map (fun a => ext_checked a j) (removelast c))) = (k * N)%nat.
Proof. intros [Hl Hf]. assert (Hm : length (removelast c) = k) by (rewrite removelast_len; lia). rewrite <- Hm. clear.
  induction (removelast c) as [|a m IH]; [reflexivity|]. cbn [map concat length]. rewrite app_length, IH. unfold ext_checked. rewrite map_length, seq_length. lia. Qed.
Theorem tlwe_extract_phase c j : (j < N)%nat -> wf_tsample N k c ->
  exists smp, tlwe_extract c (Z.of_nat j) = Some smp /\ length (fst smp) = (k * N)%nat /\ eqm32 (lwe_phase (tlwe_extract_key key) smp) (PH c j).
Proof. intros Hj Hc. eexists. split; [apply tlwe_extract_explicit; assumption|]. split; [cbn [fst]; apply ext_mask_length, Hc|].
  rewrite (lwe_phase_congr _ _ (fst (tlwe_extract_spec N c j)) _ (snd (tlwe_extract_spec N c j))).
  - replace (fst (tlwe_extract_spec N c j), snd (tlwe_extract_spec N c j)) with (tlwe_extract_spec N c j) by (destruct (tlwe_extract_spec N c j); reflexivity).
    rewrite (extract_phase N k key c j Npos Hj Hc Hkey). eapply eqm32_trans; [apply w32_eqm|].
    pose proof (phase_is_PHv N Npos key k c Hc Hkey j Hj) as H. rewrite ofl_nth in H. exact H.
  - unfold tlwe_extract_spec. cbn [fst]. apply Forall2_concat_map. intro a. apply ext_checked_spec.
  - unfold tlwe_extract_spec. cbn [snd]. apply eqm32_refl. Qed.

(* ---- the rotated test polynomial and the initial accumulator ---- *)
Lemma Shn_period c f : eqN N (Shn N (c * (2 * N)) f) f.
Proof. induction c as [|c IH]; [intros i _; reflexivity|].
  replace (S c * (2 * N))%nat with ((N + N) + c * (2 * N))%nat by lia.
  intros i Hi. rewrite (Shn_add N (N + N) (c * (2 * N)) f i). rewrite (Shn_2N N Npos (Shn N (c * (2 * N)) f) i Hi). apply IH, Hi. Qed.

Lemma rotated_testvect_shift v barb : lenN N v -> (barb < 2 * N)%nat ->
  exists tv, rotated_testvect v (Z.of_nat barb) = Some tv /\ lenN N tv /\ ofl tv ~ Shn N (2 * N - barb) (ofl v).
Proof. unfold lenN. intros Hv Hb. unfold rotated_testvect. destruct (Z.eqb_spec (Z.of_nat barb) 0) as [H0|H0].
  - exists v. split; [reflexivity|]. split; [exact Hv|]. assert (barb = 0)%nat by lia. subst barb. rewrite Nat.sub_0_r.
    intros i Hi. replace (2 * N)%nat with (1 * (2 * N))%nat by lia. rewrite (Shn_period 1 (ofl v) i Hi). apply eqm32_refl.
  - rewrite Hv. replace (2 * Z.of_nat N - Z.of_nat barb) with (Z.of_nat (2 * N - barb)) by lia.
    assert (H1 : (0 < length v)%nat) by lia. assert (H2 : (2 * N - barb < 2 * length v)%nat) by lia.
    rewrite (mulByXai_ok v H1 (2 * N - barb)%nat H2). eexists. split; [reflexivity|]. split; [rewrite map_length, seq_length; exact Hv|].
    intros i Hi. rewrite ofl_nth, Hv. rewrite (nth_map_seq _ N i Hi).
    assert (H3 : (i < length v)%nat) by lia. pose proof (xai_is_shift v H1 (2 * N - barb)%nat i H2 H3) as H. rewrite Hv in H. exact H. Qed.

Lemma trivial_wf tv : lenN N tv -> wf_tsample N k (tlwe_trivial k tv).
Proof. intro H. unfold tlwe_trivial. split; [rewrite app_length, repeat_length; cbn; lia|].
  apply Forall_app. split; [apply Forall_forall; intros x Hx; apply repeat_spec in Hx; subst; rewrite repeat_length; exact H|constructor; [exact H|constructor]]. Qed.
Lemma trivial_phase tv : lenN N tv -> PH (tlwe_trivial k tv) ~ ofl tv.
Proof. intro H. unfold tlwe_trivial. rewrite PHv_app. unfold lenN in H. rewrite H. intros i Hi. unfold vsub.
  rewrite (mask_sum_zeros N key k i). unfold vzero. rewrite Z.sub_0_r. apply eqm32_refl. Qed.

(* ---- C04: blind rotate and extract ---- *)
Theorem bre_phase bk ss beta : good_key N key k l B bk ss beta -> 0 <= beta ->
  forall (bara : list nat) (barb : nat) v, length bara = length bk -> Forall (fun a => (a < 2 * N)%nat) bara -> (barb < 2 * N)%nat -> lenN N v ->
  exists smp e0, blind_rotate_extract l B k v bk (Z.of_nat barb) (map Z.of_nat bara) = Some smp /\ length (fst smp) = (k * N)%nat /\
    eqm32 (lwe_phase (tlwe_extract_key key) smp) (Shn N (expo bara ss + (2 * N - barb)) (ofl v) 0%nat + e0) /\
    Z.abs e0 <= steps bara * beta.
Proof. intros HG Hbeta bara barb v Hl Hb Hbb Hv. unfold blind_rotate_extract.
  destruct (rotated_testvect_shift v barb Hv Hbb) as (tv & -> & Htv & Hsh).
  destruct (blind_rotate_phase N Npos key k Hkey l B bk ss beta HG Hbeta bara (tlwe_trivial k tv) Hl Hb (trivial_wf tv Htv)) as (accf & err & -> & Hw & Hp & He).
  destruct (tlwe_extract_phase accf 0 Npos Hw) as (smp & Hx & Hlen & Hph). change (Z.of_nat 0) with 0 in Hx. rewrite Hx.
  exists smp, (err 0%nat). split; [reflexivity|]. split; [exact Hlen|]. split; [|apply He, Npos].
  eapply eqm32_trans; [exact Hph|]. eapply eqm32_trans; [apply (Hp 0%nat Npos)|]. unfold vadd. apply eqm32_add; [|apply eqm32_refl].
  assert (H1 : Shn N (expo bara ss) (PH (tlwe_trivial k tv)) ~ Shn N (expo bara ss) (Shn N (2 * N - barb) (ofl v))).
  { apply (Shn_eqm N Npos). eapply eqNm_trans; [apply trivial_phase, Htv|exact Hsh]. }
  eapply eqm32_trans; [apply (H1 0%nat Npos)|]. rewrite <- (Shn_add N (expo bara ss) (2 * N - barb) (ofl v) 0%nat). apply eqm32_refl. Qed.

(* coefficient 0 of X^q * v is the ((-q) mod 2N)-th coefficient of the anticyclic extension of v *)
Theorem Shn_coeff0_anti v q : lenN N v ->
  eqm32 (Shn N q (ofl v) 0%nat) (anti v ((- Z.of_nat q) mod (2 * Z.of_nat N))).
Proof. unfold lenN. intro Hv. 
  set (r := (q mod (2 * N))%nat). assert (Hr : (r < 2 * N)%nat) by (apply Nat.mod_upper_bound; lia).
  assert (Hq : q = ((q / (2 * N)) * (2 * N) + r)%nat) by (pose proof (Nat.div_mod q (2 * N) ltac:(lia)); unfold r; lia).
  assert (E : Shn N q (ofl v) 0%nat = Shn N r (ofl v) 0%nat).
  { rewrite Hq at 1. rewrite (Nat.add_comm _ r). rewrite (Shn_add N r _ (ofl v) 0%nat).
    apply (Shn_extN N Npos r _ _ (Shn_period (q / (2 * N)) (ofl v)) 0%nat Npos). }
  rewrite E.
  assert (Hp : (- Z.of_nat q) mod (2 * Z.of_nat N) = if Nat.eqb r 0 then 0 else 2 * Z.of_nat N - Z.of_nat r).
  { destruct (Nat.eqb_spec r 0) as [H0|H0].
    - symmetry. apply Z.mod_unique with (q := - Z.of_nat (q / (2 * N))); [lia|]. rewrite Hq at 1. rewrite H0. lia.
    - symmetry. apply Z.mod_unique with (q := - Z.of_nat (q / (2 * N)) - 1); [lia|]. rewrite Hq at 1. lia. }
  rewrite Hp. unfold anti. rewrite Hv.
  destruct (Nat.eqb_spec r 0) as [H0|H0].
  - rewrite H0. cbn [Shn]. destruct (Z.ltb_spec 0 (Z.of_nat N)); [|lia]. unfold ofl. apply eqm32_refl.
  - destruct (Nat.le_gt_cases r N) as [HrN|HrN].
    + (* r <= N: - v_(N-r) *)
      rewrite (Shn_closed N Npos r (ofl v) HrN 0%nat Npos). destruct (Nat.ltb_spec 0 r); [|lia].
      destruct (Z.ltb_spec (2 * Z.of_nat N - Z.of_nat r) (Z.of_nat N)); [lia|].
      replace (Z.to_nat (2 * Z.of_nat N - Z.of_nat r - Z.of_nat N)) with (N - r + 0)%nat by lia. unfold ofl. apply eqm32_sym, w32_eqm.
    + (* N < r < 2N: v_(2N-r) *)
      replace r with ((r - N) + N)%nat by lia. rewrite (Shn_add N (r - N) N (ofl v) 0%nat).
      rewrite (Shn_extN N Npos (r - N) _ _ (ShN_opp N Npos (ofl v)) 0%nat Npos).
      rewrite (Shn_closed N Npos (r - N) (vopp (ofl v)) ltac:(lia) 0%nat Npos). destruct (Nat.ltb_spec 0 (r - N)); [|lia].
      replace (r - N + N)%nat with r by lia.
      destruct (Z.ltb_spec (2 * Z.of_nat N - Z.of_nat r) (Z.of_nat N)); [|lia].
      unfold vopp, ofl. rewrite Z.opp_involutive. replace (Z.to_nat (2 * Z.of_nat N - Z.of_nat r)) with (N - (r - N) + 0)%nat by lia. apply eqm32_refl. Qed.
End BP.

(* ---- the bootstrapping without key switch: sign of the rounded phase ---- *)
Section BW.
Variable N : nat.
Hypothesis Npos : (0 < N)%nat.
Hypothesis Dom : inDomain (2 * Z.of_nat N).       (* 2N is in the domain of C13's modulus-switch theorem *)
Variable key : list (list Z).
Variable k : nat.
Hypothesis Hkey : wf_tkey N k key.
Variables (l : nat) (B : Z).

Lemma msf_range x : 0 <= modSwitchFrom x (2 * Z.of_nat N) < 2 * Z.of_nat N.
Proof. exact (proj1 (modSwitchFrom_nearest x (2 * Z.of_nat N) Dom)). Qed.

Lemma dotz_expo : forall (bara : list nat) ss acc, Forall (fun s => s = 0 \/ s = 1) ss ->
  fold_left (fun a xy => a + fst xy * snd xy) (combine (map Z.of_nat bara) ss) acc = acc + Z.of_nat (expo bara ss).
Proof. induction bara as [|a bara IH]; intros [|s ss] acc Hs; cbn [map combine fold_left expo]; try lia.
  apply Forall_cons_iff in Hs as [H0 Hs]. rewrite IH by exact Hs. cbn [fst snd]. destruct H0; subst; cbn [Z.to_nat]; lia. Qed.

Lemma good_key_bits bk ss beta : good_key N key k l B bk ss beta -> Forall (fun s => s = 0 \/ s = 1) ss /\ length ss = length bk.
Proof. induction 1 as [|g gs s ss E beta (_ & Hs & _) HG [IH1 IH2]]; [split; [constructor|reflexivity]|]. split; [constructor; assumption|cbn; lia]. Qed.

Lemma steps_le_length : forall bara : list nat, steps bara <= Z.of_nat (length bara).
Proof. induction bara as [|a bara IH]; cbn [steps length]; [lia|]. rewrite Nat2Z.inj_succ. destruct (Nat.eqb a 0); lia. Qed.

Theorem bootstrap_woKS_phase bk ss beta mu x : good_key N key k l B bk ss beta -> 0 <= beta -> length (fst x) = length bk ->
  exists smp e0, bootstrap_woKS true l B k N bk mu x = Some smp /\ length (fst smp) = (k * N)%nat /\
    eqm32 (lwe_phase (tlwe_extract_key key) smp) ((if rot_exponent N ss x <? Z.of_nat N then mu else w32 (- mu)) + e0) /\
    Z.abs e0 <= Z.of_nat (length bk) * beta.
Proof. intros HG Hbeta Hlen. destruct (good_key_bits bk ss beta HG) as [Hbits Hls].
  unfold bootstrap_woKS. cbv zeta. rewrite (bara_in_range (length (fst x)) _ (fst x) eq_refl).
  set (barb := Z.to_nat (modSwitchFrom (snd x) (2 * Z.of_nat N))).
  set (bara := map (fun a => Z.to_nat (modSwitchFrom a (2 * Z.of_nat N))) (fst x)).
  assert (Hb : Z.of_nat barb = modSwitchFrom (snd x) (2 * Z.of_nat N)) by (unfold barb; pose proof (msf_range (snd x));  lia).
  assert (Ha : map Z.of_nat bara = map (fun a => modSwitchFrom a (2 * Z.of_nat N)) (fst x)).
  { unfold bara. rewrite map_map. apply map_ext. intro a. pose proof (msf_range a).  lia. }
  rewrite <- Hb, <- Ha.
  assert (Hbl : length bara = length bk) by (unfold bara; now rewrite map_length).
  assert (Hbr : Forall (fun a => (a < 2 * N)%nat) bara).
  { unfold bara. apply Forall_forall. intros a Hin. apply in_map_iff in Hin as (z & <- & _). pose proof (msf_range z).  lia. }
  assert (Hbb : (barb < 2 * N)%nat) by (pose proof (msf_range (snd x));  lia).
  destruct (bre_phase N Npos key k Hkey l B bk ss beta HG Hbeta bara barb (repeat mu N) Hbl Hbr Hbb ltac:(unfold lenN; apply repeat_length)) as (smp & e0 & Hr & Hsl & Hp & He).
  exists smp, e0. split; [exact Hr|]. split; [exact Hsl|]. split.
  - eapply eqm32_trans; [exact Hp|]. apply eqm32_add; [|apply eqm32_refl].
    eapply eqm32_trans; [apply (Shn_coeff0_anti N Npos (repeat mu N) _ ltac:(unfold lenN; apply repeat_length))|].
    assert (Hexp : (- Z.of_nat (expo bara ss + (2 * N - barb))) mod (2 * Z.of_nat N) = rot_exponent N ss x).
    { unfold rot_exponent. cbv zeta.  rewrite <- Hb, <- Ha. unfold dotz. rewrite (dotz_expo bara ss 0 Hbits).
      replace (- Z.of_nat (expo bara ss + (2 * N - barb))) with ((Z.of_nat barb - (0 + Z.of_nat (expo bara ss))) + (-1) * (2 * Z.of_nat N)) by lia.
      apply Z_mod_plus_full. }
    rewrite Hexp. rewrite (anti_constant mu N (rot_exponent N ss x) (rot_exponent_range N ss x Npos)). apply eqm32_refl.
  - eapply Z.le_trans; [exact He|]. apply Zmult_le_compat_r; [|exact Hbeta].
    rewrite <- Hbl. apply steps_le_length. Qed.

(* with the final key switch (C08): the same message, plus the rounding of the extracted mask to t*basebit bits and the noise of
   the key-switching rows actually used *)
Theorem bootstrap_phase bk ss beta mu x (ksraw : list sample) (t : nat) (b : Z) (lkey : list Z) (nout : nat) (e : nat -> nat -> Z -> Z) :
  good_key N key k l B bk ss beta -> 0 <= beta -> length (fst x) = length bk -> valid_ks t b ->
  (forall i j h, (i < k * N)%nat -> (j < t)%nat -> 1 <= h < pow2 b ->
     exists row, ks_get ksraw (Z.of_nat t) (pow2 b) i j h = Some row /\ length (fst row) = nout /\
                 eqm32 (lwe_phase lkey row) (h * nth i (tlwe_extract_key key) 0 * pow2 (shp 32 b j) + e i j h)) ->
  exists (res u : sample) e0, bootstrap l B k N bk ksraw t b nout mu x = Some res /\ length (fst res) = nout /\ Z.abs e0 <= Z.of_nat (length bk) * beta /\
    eqm32 (lwe_phase lkey res)
          ((if rot_exponent N ss x <? Z.of_nat N then mu else w32 (- mu)) + e0
           + zsum (k * N) (fun i => nth i (tlwe_extract_key key) 0 * (nth i (fst u) 0 - round_tb (Z.of_nat t) b (nth i (fst u) 0)))
           - zsum (k * N) (fun i => zsum t (ee b e i (aibar (Z.of_nat t) b (nth i (fst u) 0))))).
Proof. intros HG Hbeta Hlen Vks Hrows. unfold bootstrap.
  destruct (bootstrap_woKS_phase bk ss beta mu x HG Hbeta Hlen) as (u & e0 & -> & Hul & Hp & He).
  destruct (keyswitch_phase ksraw t b Vks lkey nout (k * N)%nat (fun i => nth i (tlwe_extract_key key) 0) e Hrows u Hul) as (res & -> & Hrl & Hph).
  exists res, u, e0. split; [reflexivity|]. split; [exact Hrl|]. split; [exact He|].
  eapply eqm32_trans; [exact Hph|].
  (* b_u - sum s_i round(a_i) = (b_u - sum s_i a_i) + sum s_i (a_i - round a_i) *)
  rewrite lwe_phase_spec in Hp. pose proof (eqm32_trans _ _ _ (eqm32_sym _ _ (w32_eqm _)) Hp) as Hp'.
  assert (Hdot : dot (fst u) (tlwe_extract_key key) = zsum (k * N) (fun i => nth i (fst u) 0 * nth i (tlwe_extract_key key) 0)).
  { rewrite dot_as_zsum, Hul. reflexivity. }
  rewrite Hdot in Hp'.
  set (Z1 := zsum (k * N) (fun i => nth i (tlwe_extract_key key) 0 * round_tb (Z.of_nat t) b (nth i (fst u) 0))).
  set (Z3 := zsum (k * N) (fun i => zsum t (ee b e i (aibar (Z.of_nat t) b (nth i (fst u) 0))))).
  rewrite (zsum_ext (k * N) (fun i => nth i (tlwe_extract_key key) 0 * (nth i (fst u) 0 - round_tb (Z.of_nat t) b (nth i (fst u) 0)))
                    (fun i => nth i (fst u) 0 * nth i (tlwe_extract_key key) 0 - nth i (tlwe_extract_key key) 0 * round_tb (Z.of_nat t) b (nth i (fst u) 0))) by (intros; ring).
  rewrite zsum_sub. fold Z1.
  set (D := zsum (k * N) (fun i => nth i (fst u) 0 * nth i (tlwe_extract_key key) 0)) in *.
  replace (snd u - Z1 - Z3) with ((snd u - D) + (D - Z1) - Z3) by ring.
  apply eqm32_sub; [|apply eqm32_refl]. apply eqm32_add; [exact Hp'|apply eqm32_refl]. Qed.
End BW.
