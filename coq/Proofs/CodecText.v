(* Proofs/CodecText.v — "%10ld"/stol round trip; the section parser inverts the section writer and
   is a well-behaved reader on both transports. *)
From Coq Require Import ZArith Lia List Bool.
From TV Require Import Base.Int32 Codec.Stream Codec.Text Proofs.CodecGen Proofs.CodecPrim.
Import ListNotations.
Local Open Scope Z_scope.

(* ---------- integers ---------- *)
Definition dval (l : list Z) (a : Z) : Z := fold_left (fun acc c => acc * 10 + (c - 48)) l a.
Fixpoint V (fuel : nat) (n a : Z) : Z :=
  match fuel with O => a | S f => if n <? 10 then a * 10 + n else V f (n / 10) a * 10 + n mod 10 end.

Lemma dval_digits fuel : forall n acc a, dval (digits_fuel fuel n acc) a = dval acc (V fuel n a).
Proof. induction fuel as [|f IH]; intros n acc a; cbn [digits_fuel V]; [reflexivity|].
  destruct (n <? 10).
  - unfold dval. cbn [fold_left]. f_equal. ring.
  - rewrite IH. unfold dval. cbn [fold_left]. f_equal. ring. Qed.
Lemma V_zero fuel : forall n, 0 <= n < 10 ^ Z.of_nat fuel -> V fuel n 0 = n.
Proof. induction fuel as [|f IH]; intros n Hn.
  - cbn in Hn. cbn. lia.
  - cbn [V]. destruct (Z.ltb_spec n 10); [lia|].
    rewrite IH.
    + pose proof (Z.div_mod n 10 ltac:(lia)). lia.
    + rewrite Nat2Z.inj_succ, Z.pow_succ_r in Hn by lia.
      split; [apply Z.div_pos; lia|apply Z.div_lt_upper_bound; lia]. Qed.
Lemma digits_all fuel : forall n acc, 0 <= n -> Forall (fun c => is_digit c = true) acc ->
  Forall (fun c => is_digit c = true) (digits_fuel fuel n acc).
Proof. induction fuel as [|f IH]; intros n acc Hn Ha; cbn [digits_fuel]; [assumption|].
  destruct (Z.ltb_spec n 10).
  - constructor; [|assumption]. unfold is_digit. apply andb_true_iff. split; apply Z.leb_le; lia.
  - apply IH; [apply Z.div_pos; lia|]. constructor; [|assumption].
    pose proof (Z.mod_pos_bound n 10 ltac:(lia)). unfold is_digit. apply andb_true_iff. split; apply Z.leb_le; lia. Qed.
Lemma digits_nonempty fuel : forall n acc, digits_fuel (S fuel) n acc <> [].
Proof. induction fuel as [|f IH]; intros n acc; cbn [digits_fuel].
  - destruct (n <? 10); discriminate.
  - destruct (n <? 10); [discriminate|]. apply IH. Qed.
Lemma take_digits_all l : Forall (fun c => is_digit c = true) l -> forall a seen, (l <> [] \/ seen = true) ->
  take_digits l a seen = Some (dval l a).
Proof. unfold dval. induction 1 as [|c l Hc _ IH]; intros a seen Hs; cbn [take_digits fold_left].
  - destruct Hs as [Hs| ->]; [congruence|reflexivity].
  - rewrite Hc. apply IH. now right. Qed.
Lemma log2_pow10 n : 0 <= n -> n < 10 ^ Z.of_nat (S (Z.to_nat (Z.log2 n))).
Proof. intro Hn. destruct (Z.eq_dec n 0) as [->|Hz]; [cbn; lia|].
  pose proof (Z.log2_spec n ltac:(lia)) as [_ H]. pose proof (Z.log2_nonneg n).
  rewrite Nat2Z.inj_succ, Z2Nat.id by lia.
  eapply Z.lt_le_trans; [exact H|]. apply Z.pow_le_mono_l. lia. Qed.

Lemma skip_spaces_repeat k l : (match l with c :: _ => is_space c = false | [] => True end) ->
  skip_spaces (repeat SP k ++ l) = l.
Proof. intro H. induction k as [|k IH]; cbn [repeat app].
  - destruct l as [|c l]; [reflexivity|]. cbn [skip_spaces]. now rewrite H.
  - cbn [skip_spaces]. change (is_space SP) with true. cbn. exact IH. Qed.
Lemma digit_not_space c : is_digit c = true -> is_space c = false.
Proof. unfold is_digit, is_space. rewrite andb_true_iff, !Z.leb_le. intros [H1 H2].
  destruct (Z.eqb_spec c 32); [lia|]. cbn. destruct (Z.leb_spec 9 c), (Z.leb_spec c 13); cbn; try reflexivity; lia. Qed.

Theorem stol_fmt_i64 z : - p63 <= z < p63 -> stol (fmt_i64 z) = Some z.
Proof. intro Hz. unfold fmt_i64, stol. cbv zeta.
  set (ds := digits (Z.abs z)).
  assert (Hall : Forall (fun c => is_digit c = true) ds) by (apply digits_all; [lia|constructor]).
  assert (Hne : ds <> []) by apply digits_nonempty.
  assert (Hval : take_digits ds 0 false = Some (Z.abs z)).
  { rewrite take_digits_all by (try assumption; now left). f_equal. unfold ds, digits.
    rewrite dval_digits. unfold dval. cbn [fold_left]. apply V_zero. split; [lia|]. apply log2_pow10. lia. }
  destruct ds as [|d0 ds'] eqn:Eds; [congruence|].
  assert (Hd0 : is_digit d0 = true) by (now inversion Hall).
  destruct (Z.ltb_spec z 0) as [Hneg|Hpos].
  - rewrite skip_spaces_repeat by reflexivity. cbn [app]. rewrite Hval.
    replace (- Z.abs z) with z by lia.
    destruct (Z.leb_spec (- p63) z), (Z.ltb_spec z p63); try lia. reflexivity.
  - cbn [app]. rewrite skip_spaces_repeat by (now apply digit_not_space).
    assert (d0 <> 45 /\ d0 <> 43).
    { unfold is_digit in Hd0. rewrite andb_true_iff, !Z.leb_le in Hd0. lia. }
    destruct (Z.eq_dec d0 45); [lia|]. destruct (Z.eq_dec d0 43); [lia|].
    assert (Hm : (match d0 :: ds' with 45 :: r => (true, r) | 43 :: r => (false, r) | _ => (false, d0 :: ds') end) = (false, d0 :: ds')).
    { destruct d0 as [|p|p]; try reflexivity.
      do 6 (destruct p as [p|p|]; try reflexivity); lia. }
    rewrite Hm, Hval. replace (Z.abs z) with z by lia.
    destruct (Z.leb_spec (- p63) z), (Z.ltb_spec z p63); try lia. reflexivity. Qed.

Lemma fmt_i64_chars z : Forall (fun c => c = SP \/ c = 45 \/ is_digit c = true) (fmt_i64 z).
Proof. unfold fmt_i64. cbv zeta. apply Forall_app. split.
  - apply Forall_forall. intros c Hc. apply repeat_spec in Hc. now left.
  - apply Forall_app. split.
    + destruct (z <? 0); constructor; auto.
    + eapply Forall_impl; [|apply digits_all; [lia|constructor]]. cbn. auto. Qed.

(* ---------- sections ---------- *)
Definition wordc (c : Z) : Prop := 65 <= c <= 122.
Definition key_ok (k : list Z) : Prop := k <> [] /\ Forall wordc k.
Definition val_ok (v : list Z) : Prop := Forall (fun c => c <> NL /\ c <> CR) v.
Definition plain (l : list Z) : Prop := Forall (fun c => c <> NL /\ c <> CR) l.

Lemma wordc_plain l : Forall wordc l -> plain l.
Proof. apply Forall_impl. unfold wordc, NL, CR. intros; lia. Qed.
Lemma plain_app a b : plain a -> plain b -> plain (a ++ b).
Proof. intros. apply Forall_app. auto. Qed.

Lemma split_nl_ok : forall L rest0, Forall (fun c => c <> NL) L -> split_nl (L ++ NL :: rest0) = Some (L, rest0).
Proof. induction L as [|c L IH]; intros rest0 H; cbn [app split_nl].
  - rewrite Z.eqb_refl. reflexivity.
  - apply Forall_cons_iff in H as [Hc HL]. destruct (Z.eqb_spec c NL); [congruence|]. rewrite IH by assumption. reflexivity. Qed.
Lemma split_nl_spec : forall x l r, split_nl x = Some (l, r) -> x = l ++ NL :: r.
Proof. induction x as [|c x IH]; intros l r H; cbn [split_nl] in H; [discriminate|].
  destruct (Z.eqb_spec c NL) as [->|Hc].
  - inversion H; subst. reflexivity.
  - destruct (split_nl x) as [[a b]|] eqn:E; [|discriminate]. inversion H; subst. cbn. f_equal. now apply IH. Qed.
Lemma filter_cr_id L : Forall (fun c => c <> CR) L -> filter (fun c => negb (c =? CR)) L = L.
Proof. induction 1 as [|c L Hc _ IH]; cbn; [reflexivity|]. destruct (Z.eqb_spec c CR); [congruence|]. cbn. now rewrite IH. Qed.

Lemma get_line_ok t L rest0 : plain L -> get_line t (mk (L ++ NL :: rest0)) = (L, mk rest0).
Proof. intro H. unfold get_line. cbn [rest mk good eof fail negb andb].
  rewrite split_nl_ok by (eapply Forall_impl; [|exact H]; cbn; tauto).
  destruct t; [|reflexivity]. rewrite filter_cr_id by (eapply Forall_impl; [|exact H]; cbn; tauto). reflexivity. Qed.

Lemma starts_with_app p x : starts_with p (p ++ x) = true.
Proof. induction p as [|c p IH]; cbn; [reflexivity|]. now rewrite Z.eqb_refl, IH. Qed.
Lemma list_eqb_refl l : list_eqb l l = true.
Proof. induction l as [|c l IH]; cbn; [reflexivity|]. now rewrite Z.eqb_refl, IH. Qed.
Lemma list_eqb_eq : forall a b, list_eqb a b = true -> a = b.
Proof. induction a as [|x a IH]; intros [|y b] H; cbn in H; try discriminate; [reflexivity|].
  apply andb_true_iff in H as [H1 H2]. apply Z.eqb_eq in H1. subst. f_equal. now apply IH. Qed.
Lemma ends_with_app x p : ends_with p (x ++ p) = true.
Proof. unfold ends_with. apply andb_true_iff. split; [apply Nat.leb_le; rewrite app_length; lia|].
  replace (length (x ++ p) - length p)%nat with (length x) by (rewrite app_length; lia).
  rewrite skipn_app_exact. apply list_eqb_refl. Qed.

Lemma starts_with_head p c l d x : p = c :: l -> d <> c -> starts_with p (d :: x) = false.
Proof. intros -> H. cbn. destruct (Z.eqb_spec c d); [congruence|reflexivity]. Qed.
Lemma list_eqb_head c l d x : d <> c -> list_eqb (d :: x) (c :: l) = false.
Proof. intro H. cbn. destruct (Z.eqb_spec d c); [congruence|reflexivity]. Qed.

Lemma find_colsp_key : forall k v, Forall wordc k -> find_colsp (k ++ COLSP ++ v) = Some (length k).
Proof. induction k as [|c k IH]; intros v H.
  - reflexivity.
  - apply Forall_cons_iff in H as [Hc Hk]. cbn [app find_colsp length].
    assert (Hs : starts_with COLSP (c :: k ++ COLSP ++ v) = false).
    { unfold COLSP. cbn [starts_with]. unfold wordc in Hc. destruct (Z.eqb_spec 58 c); [lia|reflexivity]. }
    rewrite Hs, IH by assumption. reflexivity. Qed.

(* the three kinds of lines the writer produces *)
Lemma step_begin st title : sec_step st (BEGIN_ ++ title ++ DASHES) =
  inl {| ps_title := title; ps_end := END_ ++ title ++ DASHES; ps_started := true; ps_props := ps_props st |}.
Proof. unfold sec_step. rewrite starts_with_app.
  replace (BEGIN_ ++ title ++ DASHES) with ((BEGIN_ ++ title) ++ DASHES) at 1 by (now rewrite app_assoc).
  rewrite ends_with_app. cbn [andb].
  assert (Ht : firstn (length (BEGIN_ ++ title ++ DASHES) - 16) (skipn 11 (BEGIN_ ++ title ++ DASHES)) = title).
  { change 11%nat with (length BEGIN_) at 2. rewrite skipn_app_exact.
    replace (length (BEGIN_ ++ title ++ DASHES) - 16)%nat with (length title) by (rewrite !app_length; cbn; lia).
    apply firstn_app_exact. }
  rewrite Ht. reflexivity. Qed.

Lemma step_prop st k v : ps_started st = true -> (exists title, ps_end st = END_ ++ title ++ DASHES) -> key_ok k ->
  sec_step st (k ++ COLSP ++ v) =
  inl {| ps_title := ps_title st; ps_end := ps_end st; ps_started := true; ps_props := set_prop k v (ps_props st) |}.
Proof. intros Hs [title He] [Hne Hk]. unfold sec_step.
  destruct k as [|c k2]; [congruence|]. pose proof (Forall_inv Hk) as Hc. unfold wordc in Hc.
  cbn [app]. rewrite (starts_with_head BEGIN_ 45 (tl BEGIN_)) by (try reflexivity; lia). cbn [andb].
  rewrite Hs. cbn [negb]. rewrite He.
  change (END_ ++ title ++ DASHES) with (45 :: (tl END_ ++ title ++ DASHES)).
  rewrite list_eqb_head by lia.
  change (c :: k2 ++ COLSP ++ v) with ((c :: k2) ++ COLSP ++ v). rewrite find_colsp_key by assumption.
  rewrite firstn_app_exact.
  replace (length (c :: k2) + 2)%nat with (length ((c :: k2) ++ COLSP)) by (rewrite app_length; reflexivity).
  rewrite (app_assoc (c :: k2) COLSP v), skipn_app_exact. reflexivity. Qed.

Lemma step_end st : ps_started st = true -> (exists title, ps_end st = END_ ++ title ++ DASHES) ->
  sec_step st (ps_end st) = inr (ps_title st, ps_props st).
Proof. intros Hs [title He]. unfold sec_step. rewrite He.
  assert (Hb : starts_with BEGIN_ (END_ ++ title ++ DASHES) = false) by reflexivity.
  rewrite Hb. cbn [andb]. rewrite Hs. cbn [negb]. rewrite list_eqb_refl. reflexivity. Qed.

Lemma sec_loop_step t f st L rest0 : plain L ->
  sec_loop t (S f) st (mk (L ++ NL :: rest0)) =
  match sec_step st L with inl st2 => sec_loop t f st2 (mk rest0) | inr v => Ret v (mk rest0) end.
Proof. intro H. cbn [sec_loop]. rewrite get_line_ok by assumption.
  assert (Hf : at_feof t (mk rest0) = false) by (destruct t; reflexivity). rewrite Hf. reflexivity. Qed.

Definition props_ok (m : props) : Prop := Forall (fun kv => key_ok (fst kv) /\ val_ok (snd kv)) m.
Definition lines_of (m : props) : list Z := concat (map (fun kv => fst kv ++ COLSP ++ snd kv ++ [NL]) m).
Definition replay_props (m acc : props) : props := fold_left (fun a kv => set_prop (fst kv) (snd kv) a) m acc.

Lemma sec_loop_props t : forall m f st rest0, props_ok m -> ps_started st = true ->
  (exists title, ps_end st = END_ ++ title ++ DASHES) ->
  sec_loop t (length m + f) st (mk (lines_of m ++ rest0)) =
  sec_loop t f {| ps_title := ps_title st; ps_end := ps_end st; ps_started := true; ps_props := replay_props m (ps_props st) |} (mk rest0).
Proof. induction m as [|[k v] m IH]; intros f st rest0 Hm Hs He.
  - cbn. destruct st; cbn in *. now rewrite Hs.
  - apply Forall_cons_iff in Hm as [[Hk Hv] Hm]. cbn [fst snd] in *.
    unfold lines_of. cbn [map concat length Nat.add fst snd]. fold (lines_of m).
    replace ((k ++ COLSP ++ v ++ [NL]) ++ lines_of m) with ((k ++ COLSP ++ v) ++ NL :: lines_of m) by (rewrite <- !app_assoc; reflexivity).
    rewrite <- app_assoc. cbn [app].
    rewrite sec_loop_step.
    2:{ apply plain_app; [apply wordc_plain, Hk|]. apply plain_app; [|exact Hv]. unfold COLSP, plain, NL, CR. repeat constructor; lia. }
    rewrite step_prop by assumption.
    rewrite IH; [reflexivity|assumption|reflexivity|exact He]. Qed.

(* the parser inverts the writer: any title of word characters, any keys of word characters, any values
   without line breaks; whatever follows in the stream is left untouched *)
Theorem read_section_ok t title m rest0 : Forall wordc title -> props_ok m ->
  read_section t (mk (section_bytes title m ++ rest0)) = Ret (title, replay_props m []) (mk rest0).
Proof. intros Ht Hm. unfold read_section. cbn [rest mk].
  unfold section_bytes. fold (lines_of m).
  set (endl := END_ ++ title ++ DASHES).
  assert (Hlen : exists f, S (length ((BEGIN_ ++ title ++ DASHES ++ [NL] ++ lines_of m ++ END_ ++ title ++ DASHES ++ [NL]) ++ rest0)) = S (length m + S f)).
  { assert (H : (length m <= length (lines_of m))%nat).
    { clear. induction m as [|kv m IH]; [cbn; lia|]. unfold lines_of in *. cbn [map concat length]. rewrite !app_length. cbn [length]. lia. }
    exists (length ((BEGIN_ ++ title ++ DASHES ++ [NL] ++ lines_of m ++ END_ ++ title ++ DASHES ++ [NL]) ++ rest0) - length m - 1)%nat.
    assert (length m + 1 <= length ((BEGIN_ ++ title ++ DASHES ++ [NL] ++ lines_of m ++ END_ ++ title ++ DASHES ++ [NL]) ++ rest0))%nat by (rewrite !app_length; cbn [length]; lia).
    lia. }
  destruct Hlen as [f Hf]. rewrite Hf.
  replace ((BEGIN_ ++ title ++ DASHES ++ [NL] ++ lines_of m ++ END_ ++ title ++ DASHES ++ [NL]) ++ rest0)
    with ((BEGIN_ ++ title ++ DASHES) ++ NL :: (lines_of m ++ (endl ++ NL :: rest0))).
  2:{ unfold endl. repeat (rewrite <- ?app_assoc; cbn [app]). reflexivity. }
  assert (Pb : plain (BEGIN_ ++ title ++ DASHES)).
  { apply plain_app; [unfold plain, BEGIN_, NL, CR; cbn; repeat constructor; lia|].
    apply plain_app; [now apply wordc_plain|unfold plain, DASHES, NL, CR; cbn; repeat constructor; lia]. }
  rewrite sec_loop_step by assumption. rewrite step_begin.
  rewrite sec_loop_props; [|assumption|reflexivity|cbn; eauto].
  cbn [ps_title ps_end ps_props ps0].
  assert (Pe : plain endl).
  { unfold endl. apply plain_app; [unfold plain, END_, NL, CR; cbn; repeat constructor; lia|].
    apply plain_app; [now apply wordc_plain|unfold plain, DASHES, NL, CR; cbn; repeat constructor; lia]. }
  rewrite sec_loop_step by assumption.
  pose proof (step_end {| ps_title := title; ps_end := endl; ps_started := true; ps_props := replay_props m [] |} eq_refl ltac:(cbn; unfold endl; eauto)) as SE.
  cbn [ps_end ps_title ps_props] in SE. unfold endl in SE |- *. rewrite SE. reflexivity. Qed.

(* ---------- the section parser is a well-behaved reader ---------- *)
Lemma get_line_suffix t s l s2 : get_line t s = (l, s2) -> exists c, rest s = c ++ rest s2.
Proof. unfold get_line. destruct t.
  - destruct (split_nl (rest s)) as [[a b]|] eqn:E; intro H; injection H as _ Hs; subst s2; cbn [rest].
    + apply split_nl_spec in E. exists (a ++ [NL]). rewrite E, <- app_assoc. reflexivity.
    + exists (rest s). now rewrite app_nil_r.
  - destruct (good s).
    + destruct (split_nl (rest s)) as [[a b]|] eqn:E.
      * intro H; injection H as _ Hs; subst s2; cbn [rest]. apply split_nl_spec in E. exists (a ++ [NL]). rewrite E, <- app_assoc. reflexivity.
      * destruct (rest s) as [|z0 l0] eqn:R; intro H; injection H as _ Hs; subst s2; cbn [rest]; [exists []; reflexivity|].
        exists (z0 :: l0). now rewrite app_nil_r.
    + intro H; injection H as _ Hs; subst s2; cbn [rest]. exists []. reflexivity. Qed.

Lemma sec_loop_suffix t : forall f st s v s2, sec_loop t f st s = Ret v s2 -> exists c, rest s = c ++ rest s2.
Proof. induction f as [|f IH]; intros st s v s2 H; cbn [sec_loop] in H; [discriminate|].
  destruct (get_line t s) as [line s1] eqn:G. destruct (get_line_suffix t s line s1 G) as [c1 Hc1].
  destruct (at_feof t s1); [discriminate|].
  destruct (sec_step st line) as [st2|v2].
  - destruct (IH _ _ _ _ H) as [c2 Hc2]. exists (c1 ++ c2). rewrite Hc1, Hc2, app_assoc. reflexivity.
  - inversion H; subst. exists c1. exact Hc1. Qed.

(* a stream that is not good never yields a clean result *)
Lemma sec_loop_sticky t : forall f st s v s2, good s = false -> sec_loop t f st s = Ret v s2 -> good s2 = false.
Proof. induction f as [|f IH]; intros st s v s2 Hs H; cbn [sec_loop] in H; [discriminate|].
  destruct (get_line t s) as [line s1] eqn:G.
  assert (Hs1 : at_feof t s1 = true \/ good s1 = false).
  { unfold get_line in G. destruct t.
    - destruct (split_nl (rest s)) as [[a b]|]; inversion G; subst; cbn [at_feof eof].
      + unfold good in *. cbn [eof fail]. destruct (eof s); [now left|right; exact Hs].
      + now left.
    - rewrite Hs in G. inversion G; subst. now left. }
  destruct Hs1 as [Hf|Hg].
  - rewrite Hf in H. discriminate.
  - destruct (at_feof t s1); [discriminate|]. destruct (sec_step st line) as [st2|v2].
    + eapply IH; eauto.
    + inversion H; subst. exact Hg. Qed.

(* on a good stream, a line either ends inside the input (and the next state is good with the rest),
   or the end of input is hit and the next state is at feof or not good *)
Lemma get_line_good t r : 
  (exists l r2, split_nl r = Some (l, r2) /\ get_line t (mk r) = ((match t with CFile => filter (fun c => negb (c =? CR)) l | CppStream => l end), mk r2))
  \/ (split_nl r = None /\ forall l s2, get_line t (mk r) = (l, s2) -> at_feof t s2 = true \/ good s2 = false).
Proof. destruct (split_nl r) as [[l r2]|] eqn:E.
  - left. exists l, r2. split; [reflexivity|]. unfold get_line. cbn [rest mk good eof fail negb andb]. rewrite E. destruct t; reflexivity.
  - right. split; [reflexivity|]. intros l s2 G. unfold get_line in G. cbn [rest mk good eof fail negb andb] in G. rewrite E in G.
    destruct t.
    + inversion G; subst. now left.
    + destruct r; inversion G; subst; [now left|now right]. Qed.

Lemma split_nl_nonl : forall x l r, split_nl x = Some (l, r) -> Forall (fun c => c <> NL) l.
Proof. induction x as [|c x IH]; intros l r H; cbn [split_nl] in H; [discriminate|].
  destruct (Z.eqb_spec c NL) as [->|Hc].
  - inversion H; subst. constructor.
  - destruct (split_nl x) as [[a b]|] eqn:E; [|discriminate]. inversion H; subst. constructor; [assumption|]. eapply IH; eauto. Qed.

Lemma get_line_split t l rem : Forall (fun c => c <> NL) l ->
  get_line t (mk (l ++ NL :: rem)) = ((match t with CFile => filter (fun c => negb (c =? CR)) l | CppStream => l end), mk rem).
Proof. intro H. unfold get_line. cbn [rest mk good eof fail negb andb]. rewrite split_nl_ok by assumption. destruct t; reflexivity. Qed.

Lemma sec_loop_local t : forall f st c r v, sec_loop t f st (mk (c ++ r)) = Ret v (mk r) ->
  forall r2 f2, (length c < f2)%nat -> sec_loop t f2 st (mk (c ++ r2)) = Ret v (mk r2).
Proof. induction f as [|f IH]; intros st c r v H r2 f2 Hf2; cbn [sec_loop] in H; [discriminate|].
  assert (Hfe : forall x, at_feof t (mk x) = false) by (intro; destruct t; reflexivity).
  destruct (get_line_good t (c ++ r)) as [(l & rem & Hsp & Hg)|(Hsp & Hbad)].
  2:{ (* end of input hit: no clean result possible *)
    destruct (get_line t (mk (c ++ r))) as [line s1] eqn:G. destruct (Hbad line s1 eq_refl) as [Hf|Hg].
    - rewrite Hf in H. discriminate.
    - destruct (at_feof t s1); [discriminate|]. destruct (sec_step st line) as [st2|v2].
      + pose proof (sec_loop_sticky t f st2 s1 v (mk r) Hg H). discriminate.
      + inversion H; subst. discriminate. }
  rewrite Hg, Hfe in H.
  pose proof (split_nl_nonl _ _ _ Hsp) as Hl. apply split_nl_spec in Hsp.
  set (line := match t with CFile => filter (fun c0 => negb (c0 =? CR)) l | CppStream => l end) in *.
  assert (Hrem : exists c2, rem = c2 ++ r /\ c = l ++ NL :: c2).
  { destruct (sec_step st line) as [st2|v2].
    - destruct (sec_loop_suffix t f st2 (mk rem) v (mk r) H) as [c2 Hc2]. cbn [rest mk] in Hc2.
      exists c2. split; [exact Hc2|]. rewrite Hc2 in Hsp.
      replace (l ++ NL :: c2 ++ r) with ((l ++ NL :: c2) ++ r) in Hsp by (rewrite <- app_assoc; reflexivity).
      now apply app_inv_tail in Hsp.
    - inversion H; subst. exists []. split; [reflexivity|].
      replace (l ++ NL :: r) with ((l ++ [NL]) ++ r) in Hsp by (rewrite <- app_assoc; reflexivity).
      apply app_inv_tail in Hsp. exact Hsp. }
  destruct Hrem as (c2 & Hr & Hc). subst rem c.
  destruct f2 as [|f2]; [lia|]. cbn [sec_loop].
  replace ((l ++ NL :: c2) ++ r2) with (l ++ NL :: (c2 ++ r2)) by (rewrite <- app_assoc; reflexivity).
  rewrite get_line_split by assumption. rewrite Hfe. fold line.
  destruct (sec_step st line) as [st2|v2].
  - apply (IH st2 c2 r v H). rewrite app_length in Hf2. cbn [length] in Hf2. lia.
  - inversion H as [[Hv Hrr]]. 
    assert (c2 = []).
    { apply (f_equal (@length Z)) in Hrr. rewrite app_length in Hrr. destruct c2; [reflexivity|cbn in Hrr; lia]. }
    subst c2. reflexivity. Qed.

Theorem wb_read_section t : wb (read_section t).
Proof. constructor.
  - intros s v s2 Hs H. unfold read_section in H. eapply sec_loop_sticky; eauto.
  - intros s v s2 H. unfold read_section in H. eapply sec_loop_suffix; eauto.
  - intros c r v H r2. unfold read_section in *. cbn [rest mk] in *.
    eapply sec_loop_local; [exact H|]. rewrite app_length. lia. Qed.

(* ---- a section is closed only by the exact END line of its own title ---- *)


Definition ps_inv (st : pstate) : Prop := ps_started st = true -> ps_end st = END_ ++ ps_title st ++ DASHES.
Lemma sec_step_inv st line st' : ps_inv st -> sec_step st line = inl st' -> ps_inv st'.
Proof. unfold sec_step, ps_inv. intros Hi H.
  destruct (starts_with BEGIN_ line && ends_with DASHES line).
  - inversion H; subst. cbn. intros _. reflexivity.
  - destruct (negb (ps_started st)) eqn:Es; [inversion H; subst; exact Hi|].
    destruct (list_eqb line (ps_end st)); [discriminate|].
    destruct (find_colsp line); inversion H; subst; cbn; [|exact Hi].
    intros _. apply Hi. now apply negb_false_iff in Es. Qed.
Lemma sec_step_ret st line v : ps_inv st -> sec_step st line = inr v -> line = END_ ++ fst v ++ DASHES.
Proof. unfold sec_step, ps_inv. intros Hi H.
  destruct (starts_with BEGIN_ line && ends_with DASHES line); [discriminate|].
  destruct (negb (ps_started st)) eqn:Es; [discriminate|].
  destruct (list_eqb line (ps_end st)) eqn:E; [|destruct (find_colsp line); discriminate].
  inversion H; subst. cbn [fst]. apply list_eqb_eq in E. rewrite E. apply Hi. now apply negb_false_iff in Es. Qed.

Theorem section_closed_only_by_its_own_end t : forall fuel st s v s', ps_inv st -> sec_loop t fuel st s = Ret v s' ->
  exists s0, get_line t s0 = (END_ ++ fst v ++ DASHES, s').
Proof. induction fuel as [|f IH]; intros st s v s' Hi H; cbn [sec_loop] in H; [discriminate|].
  destruct (get_line t s) as [line s1] eqn:G. destruct (at_feof t s1); [discriminate|].
  destruct (sec_step st line) as [st'|v'] eqn:E.
  - exact (IH st' s1 v s' (sec_step_inv st line st' Hi E) H).
  - inversion H; subst v' s1. exists s. rewrite G. f_equal. exact (sec_step_ret st line v Hi E). Qed.
Corollary read_section_needs_exact_end t s v s' : read_section t s = Ret v s' ->
  exists s0, get_line t s0 = (END_ ++ fst v ++ DASHES, s').
Proof. unfold read_section. apply section_closed_only_by_its_own_end. unfold ps_inv, ps0. cbn. discriminate. Qed.
