(* Proofs/Decomp.v — C12: balanced digits, recomposition, input restored, lanes = scalar. *)
From Coq Require Import ZArith Lia List Bool.
From TV Require Import Base.Int32 Base.Sums Model.Decomp Proofs.Digits.
Import ListNotations.
Local Open Scope Z_scope.

Definition valid_layout (l:nat) (B:Z) : Prop := 1 <= B <= 30 /\ (1 <= l)%nat /\ Z.of_nat l * B <= 32.

Lemma halfBg_eq B : 1 <= B -> halfBg B = pow2 (B - 1).
Proof. intro H. unfold halfBg. replace B with (1 + (B - 1)) at 1 by lia.
  rewrite pow2_add by lia. change (pow2 1) with 2. rewrite Z.mul_comm, Z.div_mul by lia. reflexivity. Qed.
Lemma halfBg_double B : 1 <= B -> 2 * halfBg B = pow2 B.
Proof. intro H. rewrite halfBg_eq by assumption. replace B with (1 + (B-1)) at 2 by lia.
  rewrite pow2_add by lia. reflexivity. Qed.

Lemma sum_h_eqm B l : eqm32 (sum_h B l) (zsum l (hpow B)).
Proof. induction l as [|l IH]; cbn [sum_h zsum]; [apply eqm32_refl|].
  eapply eqm32_trans; [apply u32_eqm|]. apply eqm32_add; [exact IH|apply eqm32_refl]. Qed.

Lemma offset_eqm l B : eqm32 (offset l B) (zsum l (fun p => halfBg B * pow2 (shp 32 B p))).
Proof. unfold offset. eapply eqm32_trans; [apply u32_eqm|].
  rewrite zsum_scale. rewrite Z.mul_comm. apply eqm32_mul; [apply eqm32_refl|].
  eapply eqm32_trans; [apply sum_h_eqm|]. apply eqm32_refl. Qed.

(* the C expression (buf >> decal) & maskMod) - halfBg equals the div/mod digit *)
Lemma dec_digit_spec B p buf : 1 <= B <= 30 -> (Z.of_nat p + 1) * B <= 32 -> 0 <= buf < p32 ->
  dec_digit B p buf = digit buf (32 - (Z.of_nat p + 1) * B) B - halfBg B.
Proof. intros HB Hp Hbuf. unfold dec_digit, maskMod.
  rewrite digit_shift_mask by lia.
  apply w32_id. pose proof (digit_range buf (32 - (Z.of_nat p + 1) * B) B ltac:(lia)) as Hd.
  pose proof (halfBg_double B ltac:(lia)). 
  assert (pow2 B <= pow2 30) by (unfold pow2; apply Z.pow_le_mono_r; lia).
  change (pow2 30) with 1073741824 in *. unfold is_i32, p31. lia. Qed.

Theorem decomp_range l B x p : valid_layout l B -> (p < l)%nat ->
  - halfBg B <= spec_digit l B x p < halfBg B.
Proof. intros (HB & Hl & HlB) Hp. unfold spec_digit.
  pose proof (digit_range (u32 (x + offset l B)) (32 - (Z.of_nat p + 1) * B) B ltac:(lia)).
  pose proof (halfBg_double B ltac:(lia)). lia. Qed.

(* recomposition: sum_p d_p * 2^(32-(p+1)B) = x - err  (mod 2^32),  0 <= err < 2^(32-lB) *)
Definition decomp_err (l:nat) (B:Z) (x:Z) : Z := u32 (x + offset l B) mod pow2 (32 - Z.of_nat l * B).

Theorem decomp_recompose l B x : valid_layout l B ->
  eqm32 (zsum l (fun p => spec_digit l B x p * pow2 (shp 32 B p))) (x - decomp_err l B x)
  /\ 0 <= decomp_err l B x < pow2 (32 - Z.of_nat l * B).
Proof. intros (HB & Hl & HlB). split.
  - unfold spec_digit, decomp_err. set (y := u32 (x + offset l B)).
    rewrite (zsum_ext l _ (fun p => digit y (shp 32 B p) B * pow2 (shp 32 B p) - halfBg B * pow2 (shp 32 B p)))
      by (intros; unfold shp; ring).
    rewrite zsum_sub. rewrite digit_expansion32; [|apply u32_range|lia|lia].
    (* y - y mod 2^s - sum(halfBg 2^..) == x + off - y mod 2^s - off *)
    replace (x - y mod pow2 (32 - Z.of_nat l * B)) with ((x + offset l B) - y mod pow2 (32 - Z.of_nat l * B) - offset l B) by ring.
    apply eqm32_sub; [|apply eqm32_sym, offset_eqm].
    apply eqm32_sub; [apply u32_eqm|apply eqm32_refl].
  - unfold decomp_err. apply Z.mod_pos_bound. apply pow2_pos. lia. Qed.

Corollary decomp_exact_when_full l B x : valid_layout l B -> Z.of_nat l * B = 32 -> decomp_err l B x = 0.
Proof. intros V H. unfold decomp_err. rewrite H. change (pow2 (32 - 32)) with 1. apply Z.mod_1_r. Qed.

(* the scalar routine computes the specification digits at every position, and restores its input *)
Theorem decompH_scalar_digits l B coefs : valid_layout l B ->
  fst (decompH_scalar l B coefs) = map (fun p => map (fun x => spec_digit l B x p) coefs) (seq 0 l).
Proof. intros (HB & Hl & HlB). unfold decompH_scalar. cbn [fst].
  apply map_ext_in. intros p Hp. apply in_seq in Hp. rewrite map_map. apply map_ext. intro x.
  unfold add_off, spec_digit. apply dec_digit_spec; [lia|nia|apply u32_range]. Qed.

Theorem decompH_restores_input l B coefs : Forall is_i32 coefs ->
  snd (decompH_scalar l B coefs) = coefs.
Proof. intro H. unfold decompH_scalar. cbn [snd]. rewrite map_map.
  induction H as [|x xs Hx _ IH]; cbn [map]; [reflexivity|]. rewrite IH. f_equal.
  unfold sub_off, add_off. rewrite <- (w32_id x Hx) at 2.
  apply eqm32_w32. replace x with ((x + offset l B) - offset l B) at 2 by ring.
  apply eqm32_sub; [apply u32_eqm|apply eqm32_refl]. Qed.

(* position j of every output depends only on position j of the input *)
Theorem decompH_pointwise l B coefs p j d : valid_layout l B -> (p < l)%nat ->
  nth_error coefs j = Some d ->
  exists row, nth_error (fst (decompH_scalar l B coefs)) p = Some row /\
              nth_error row j = Some (spec_digit l B d p).
Proof. intros V Hp Hj. rewrite decompH_scalar_digits by assumption.
  exists (map (fun x => spec_digit l B x p) coefs). split.
  - rewrite nth_error_map.
    assert (nth_error (seq 0 l) p = Some p) as ->; [|reflexivity].
    { clear -Hp. rewrite nth_error_nth' with (d := 0%nat) by (rewrite seq_length; lia). rewrite seq_nth by lia. reflexivity. }
  - rewrite nth_error_map, Hj. reflexivity. Qed.

(* the 8-lane loops compute the same function and stay inside the buffer iff N is a positive multiple of 8 *)
Lemma lanes_ok f : forall m fuel v, (1 <= m)%nat -> length v = (8 * m)%nat -> (m <= fuel)%nat ->
  lanes fuel f v = Some (map f v).
Proof. induction m as [|m IH]; intros fuel v Hm Hlen Hfuel; [lia|].
  destruct fuel as [|fuel]; [lia|].
  destruct v as [|a [|b [|c [|d [|e [|f0 [|g [|h r]]]]]]]]; cbn [length] in Hlen; try lia.
  cbn [lanes take8]. destruct r as [|x r'].
  - reflexivity.
  - assert (Hm' : (1 <= m)%nat) by (cbn [length] in Hlen; lia).
    rewrite (IH fuel (x :: r')) by (cbn [length] in *; lia). reflexivity. Qed.

Lemma all_some_map {A B} (g : A -> B) (l : list A) : all_some (map (fun a => Some (g a)) l) = Some (map g l).
Proof. induction l as [|a l IH]; cbn [map all_some]; [reflexivity|]. rewrite IH. reflexivity. Qed.

Theorem decompH_avx_eq_scalar l B coefs m : (1 <= m)%nat -> length coefs = (8 * m)%nat ->
  decompH_avx l B coefs = Some (decompH_scalar l B coefs).
Proof. intros Hm Hlen. unfold decompH_avx, decompH_scalar.
  rewrite (lanes_ok _ m) by (try assumption; lia).
  assert (Hl2 : length (map (add_off (offset l B)) coefs) = (8 * m)%nat) by (rewrite map_length; exact Hlen).
  rewrite (map_ext_in _ (fun p => Some (map (dec_digit B p) (map (add_off (offset l B)) coefs)))).
  2:{ intros p _. apply (lanes_ok _ m); try assumption; lia. }
  rewrite all_some_map.
  rewrite (lanes_ok _ m) by (try assumption; lia). reflexivity. Qed.

(* N below the vector width (or not a multiple of it) makes the do-while loops overrun: noted as D7,
   outside the property's quantifier (the FFT fixes N = 1024) *)
Theorem decompH_avx_small_N_refuted : decompH_avx 2 10 [1;2;3;4] = None /\ decompH_avx 2 10 [1;2;3;4;5;6;7;8;9;10;11;12] = None.
Proof. split; vm_compute; reflexivity. Qed.

(* TLWE wrapper: row i*l+p holds digit p of polynomial i *)
Theorem tlwe_decomp_rows l B polys : valid_layout l B ->
  fst (tlwe_decompH l B polys) =
  concat (map (fun poly => map (fun p => map (fun x => spec_digit l B x p) poly) (seq 0 l)) polys)
  /\ (Forall (Forall is_i32) polys -> snd (tlwe_decompH l B polys) = polys).
Proof. intro V. unfold tlwe_decompH. cbn [fst snd]. split.
  - f_equal. rewrite map_map. apply map_ext. intro poly. now apply decompH_scalar_digits.
  - intro H. rewrite map_map. induction H as [|poly ps Hp _ IH]; cbn [map]; [reflexivity|].
    rewrite IH. f_equal. now apply decompH_restores_input. Qed.
