(* Proofs/Tlwe.v — C14 (TLWE part): extraction of coefficient j commutes with the phase. *)
From Coq Require Import ZArith Lia List Bool.
From TV Require Import Base.Int32 Base.Sums Ring.NegaRing Model.Lwe Model.Poly Model.Tlwe Proofs.Lwe.
Import ListNotations.
Local Open Scope Z_scope.

Lemma zsum_all_zero n f : (forall m, f m = 0) -> zsum n f = 0.
Proof. intro H. rewrite (zsum_ext n f (fun _ => 0)) by (intros; apply H). apply zsum_zero. Qed.

Lemma dot_map_seq f : forall n s key,
  dot (map f (seq s n)) key = zsum n (fun m => f (s + m)%nat * nth m key 0).
Proof. induction n as [|n IH]; intros s key; [reflexivity|].
  cbn [seq map]. rewrite zsum_shift. destruct key as [|y k'].
  - cbn [dot nth]. rewrite zsum_all_zero; [ring|]. intro m. destruct m; cbn; ring.
  - cbn [dot nth]. rewrite Nat.add_0_r. f_equal. rewrite IH. apply zsum_ext. intros m _.
    replace (S s + m)%nat with (s + S m)%nat by lia. reflexivity. Qed.

Lemma dot_app l1 : forall k1 l2 k2, length l1 = length k1 -> dot (l1 ++ l2) (k1 ++ k2) = dot l1 k1 + dot l2 k2.
Proof. induction l1 as [|x l1 IH]; intros [|y k1] l2 k2 H; cbn [length] in H; try lia; cbn [app dot]; [ring|].
  rewrite IH by lia. ring. Qed.


Section Extract.
Variable N : nat.
Hypothesis Npos : (0 < N)%nat.

(* one polynomial: <extracted mask, key> = coefficient j of key * a *)
Lemma dot_ext_spec a key j : (j < N)%nat ->
  dot (ext_spec N (ofl a) j) key = negaconv N (ofl key) (ofl a) j.
Proof. intro Hj. unfold ext_spec. rewrite dot_map_seq. unfold negaconv. apply zsum_ext. intros m Hm.
  cbn [Nat.add]. unfold ofl. destruct (m <=? j)%nat; ring. Qed.

Lemma ext_spec_length a j : length (ext_spec N a j) = N.
Proof. unfold ext_spec. now rewrite map_length, seq_length. Qed.

(* all k polynomials *)
Lemma dot_concat_ext j : (j < N)%nat -> forall (mask key : list (list Z)),
  length mask = length key -> Forall (fun s => length s = N) key ->
  dot (concat (map (fun a => ext_spec N (ofl a) j) mask)) (concat key)
  = fold_right Z.add 0 (map (fun sa => negaconv N (ofl (fst sa)) (ofl (snd sa)) j) (combine key mask)).
Proof. intros Hj. induction mask as [|a mask IH]; intros [|s key] Hl Hk; cbn [length] in Hl; try lia; [reflexivity|].
  cbn [map concat combine fold_right fst snd]. apply Forall_cons_iff in Hk as [Hs Hk'].
  rewrite dot_app by (rewrite ext_spec_length; lia). rewrite dot_ext_spec by assumption.
  rewrite IH by (try lia; assumption). reflexivity. Qed.

(* the phase polynomial, coefficient j *)
Lemma phase_aux_coeff j : (j < N)%nat -> forall (key mask : list (list Z)) acc,
  length acc = N -> Forall (fun s => length s = N) key -> Forall (fun a => length a = N) mask ->
  length (tlwe_phase_aux key mask acc) = N /\
  eqm32 (nth j (tlwe_phase_aux key mask acc) 0)
        (nth j acc 0 - fold_right Z.add 0 (map (fun sa => negaconv N (ofl (fst sa)) (ofl (snd sa)) j) (combine key mask))).
Proof. intros Hj. induction key as [|s key IH]; intros mask acc Ha Hk Hm; cbn [tlwe_phase_aux].
  - cbn. split; [assumption|]. rewrite Z.sub_0_r. apply eqm32_refl.
  - destruct mask as [|a mask].
    + cbn. split; [assumption|]. rewrite Z.sub_0_r. apply eqm32_refl.
    + apply Forall_cons_iff in Hk as [Hs Hk']. apply Forall_cons_iff in Hm as [Hal Hm'].
      assert (Hla : length (lact s a) = N) by (rewrite (lact_length N Npos); lia).
      assert (Hacc' : length (poly_submul acc s a) = N).
      { unfold poly_submul. rewrite zipw_length; lia. }
      destruct (IH mask (poly_submul acc s a) Hacc' Hk' Hm') as [Hlen Hcoef]. split; [exact Hlen|].
      eapply eqm32_trans; [exact Hcoef|]. cbn [combine map fold_right fst snd].
      set (rest := fold_right Z.add 0 _).
      replace (nth j acc 0 - (negaconv N (ofl s) (ofl a) j + rest))
        with ((nth j acc 0 - negaconv N (ofl s) (ofl a) j) - rest) by ring.
      apply eqm32_sub; [|apply eqm32_refl].
      unfold poly_submul. rewrite nth_zipw by lia.
      eapply eqm32_trans; [apply w32_eqm|]. apply eqm32_sub; [apply eqm32_refl|].
      pose proof (lact_is_negaconv N Npos s a Hs Hal j Hj) as H. unfold ofl in H at 1.
      rewrite H. apply eqm32_refl. Qed.
End Extract.


Definition wf_tsample (N k : nat) (c : tsample) : Prop := length c = S k /\ Forall (fun a => length a = N) c.
Definition wf_tkey (N k : nat) (key : list (list Z)) : Prop := length key = k /\ Forall (fun s => length s = N) key.

Lemma Forall_removelast {A} (P : A -> Prop) l : Forall P l -> Forall P (removelast l).
Proof. induction 1 as [|x l Hx Hl IH]; [constructor|]. destruct l; [constructor|].
  change (removelast (x :: a :: l)) with (x :: removelast (a :: l)). constructor; assumption. Qed.
Lemma Forall_last {A} (P : A -> Prop) l d : Forall P l -> l <> [] -> P (last l d).
Proof. induction 1 as [|x l Hx Hl IH]; intro Hne; [congruence|]. destruct l; [exact Hx|].
  change (last (x :: a :: l) d) with (last (a :: l) d). apply IH. discriminate. Qed.
Lemma removelast_len {A} (l : list A) : length (removelast l) = (length l - 1)%nat.
Proof. induction l as [|x l IH]; [reflexivity|]. destruct l; [reflexivity|].
  change (removelast (x :: a :: l)) with (x :: removelast (a :: l)). cbn [length] in *. lia. Qed.

Theorem extract_phase N k key c j : (0 < N)%nat -> (j < N)%nat -> wf_tsample N k c -> wf_tkey N k key ->
  lwe_phase (tlwe_extract_key key) (tlwe_extract_spec N c j) = w32 (nth j (tlwe_phase key c) 0).
Proof. intros HN Hj [Hc Hcf] [Hk Hkf]. rewrite lwe_phase_spec. apply eqm32_w32.
  unfold tlwe_extract_spec, tlwe_extract_key, tlwe_phase. cbn [fst snd].
  assert (Hne : c <> []) by (destruct c; [cbn in Hc; lia|discriminate]).
  assert (Hb : length (last c []) = N) by (apply (Forall_last (fun a => length a = N)); assumption).
  rewrite (dot_concat_ext N HN j Hj) by (try assumption; rewrite removelast_len; lia).
  destruct (phase_aux_coeff N HN j Hj key (removelast c) (map w32 (last c []))) as [_ H];
    [rewrite map_length; exact Hb|exact Hkf|now apply Forall_removelast|].
  apply eqm32_sym. eapply eqm32_trans; [exact H|]. apply eqm32_sub; [|apply eqm32_refl].
  rewrite nth_indep with (d' := w32 0) by (rewrite map_length; lia). rewrite map_nth. apply w32_eqm. Qed.

(* the executable extraction wraps every coefficient to int32; the phase is unchanged by that *)
Lemma dot_map_w32 a : forall k, eqm32 (dot (map w32 a) k) (dot a k).
Proof. induction a as [|x a IH]; intro k; cbn [map dot]; [apply eqm32_refl|].
  destruct k as [|y k]; [apply eqm32_refl|]. apply eqm32_add; [|apply IH].
  apply eqm32_mul; [apply w32_eqm|apply eqm32_refl]. Qed.
Lemma lwe_phase_w32 key c : lwe_phase key (map w32 (fst c), w32 (snd c)) = lwe_phase key c.
Proof. rewrite !lwe_phase_spec. apply eqm32_w32. cbn [fst snd].
  apply eqm32_sub; [apply w32_eqm|apply dot_map_w32]. Qed.
Theorem extract_phase_exec N k key c j : (0 < N)%nat -> (j < N)%nat -> wf_tsample N k c -> wf_tkey N k key ->
  lwe_phase (tlwe_extract_key key) (tlwe_extract_exec N c j) = w32 (nth j (tlwe_phase key c) 0).
Proof. intros. unfold tlwe_extract_exec. cbv zeta. rewrite lwe_phase_w32. now apply extract_phase with (k := k). Qed.
