(* Proofs/Params.v — C19: the selector's decision rule *)
From Coq Require Import ZArith Lia Bool.
From TV Require Import Model.Params.
Local Open Scope Z_scope.

Theorem select_spec lambda :
  ((lambda <= 0 \/ 128 < lambda) -> select lambda = Abort) /\
  (1 <= lambda <= 80 -> select lambda = Set80) /\
  (81 <= lambda <= 128 -> select lambda = Set128).
Proof. unfold select.
  destruct (Z.ltb_spec 128 lambda), (Z.ltb_spec 80 lambda), (Z.leb_spec lambda 128),
           (Z.ltb_spec 0 lambda), (Z.leb_spec lambda 80); cbn [andb];
  repeat split; intros; try reflexivity; lia. Qed.

(* never a weaker set than requested *)
Definition level (c : choice) : Z := match c with Abort => 0 | Set80 => 80 | Set128 => 128 end.
Theorem select_monotone lambda : select lambda <> Abort -> lambda <= level (select lambda).
Proof. destruct (select_spec lambda) as (H1 & H2 & H3).
  destruct (Z_le_gt_dec lambda 0); [rewrite H1 by lia; congruence|].
  destruct (Z_le_gt_dec lambda 80); [rewrite H2 by lia; cbn; lia|].
  destruct (Z_le_gt_dec lambda 128); [rewrite H3 by lia; cbn; lia|].
  rewrite H1 by lia. congruence. Qed.
Theorem select_total_on_int32 lambda : select lambda = Abort \/ select lambda = Set80 \/ select lambda = Set128.
Proof. destruct (select lambda); auto. Qed.
