(* Proofs/FftInverse.v — C10 (the algebra of the inverse transform).  Over ANY commutative ring R and any w with
   w^N = -1, N = 2^(n+1): the N odd powers w^(2k+1) are the evaluation points of the half-complex transforms.
   Evaluating at all of them and summing against the inverse powers w^(-(2k+1) j) = w^((2k+1)(2N-j)) gives back
   N times coefficient j (orthogonality of the odd powers), hence "transform, transform, point-wise product, inverse
   transform" yields exactly N times the negacyclic product of the ring model: in C, where N is invertible, exactly the
   product.  No hypothesis on zero divisors or on N being invertible is needed. *)
From Coq Require Import ZArith Lia List Ring Ring_theory InitialRing Setoid PeanoNat.
From TV Require Import Base.Sums Ring.NegaRing Proofs.Eval.
Import ListNotations.

Section Inv.
Variable R : Type.
Variables (rO rI : R) (radd rmul rsub : R -> R -> R) (ropp : R -> R).
Variable Rth : ring_theory rO rI radd rmul rsub ropp (@eq R).
Add Ring RringInv : Rth.
Notation "x + y" := (radd x y). Notation "x * y" := (rmul x y). Notation "- x" := (ropp x). Notation "x - y" := (rsub x y).
Notation pw := (rpow R rI rmul).
Notation Zr := (zr R rO rI radd rmul ropp).
Notation sum := (rsum R rO radd).
Notation evR := (ev R rO rI radd rmul ropp).
Notation pevR := (peval R rO rI radd rmul ropp).

(* ---- powers ---- *)
Lemma pw_add x a b : pw x (a + b) = pw x a * pw x b.
Proof. induction a as [|a IH]; cbn [Nat.add rpow]; [ring|]. rewrite IH. ring. Qed.
Lemma pw_one n : pw rI n = rI.
Proof. induction n as [|n IH]; cbn [rpow]; [reflexivity|]. rewrite IH. ring. Qed.
Lemma pw_mul x a b : pw x (a * b) = pw (pw x a) b.
Proof. induction b as [|b IH]; [rewrite Nat.mul_0_r; reflexivity|].
  replace (a * S b)%nat with (a + a * b)%nat by lia. rewrite pw_add, IH. cbn [rpow]. ring. Qed.
Lemma pw_sq x a : pw x (2 * a) = pw (x * x) a.
Proof. rewrite pw_mul. f_equal. cbn [rpow]. ring. Qed.
Lemma pw_neg1_sq : pw (- rI) 2 = rI. Proof. cbn [rpow]. ring. Qed.
Lemma pw_neg1_odd q : pw (- rI) (2 * q + 1) = - rI.
Proof. rewrite pw_add, pw_mul, pw_neg1_sq, pw_one. cbn [rpow]. ring. Qed.
Lemma pw_neg1_even q : pw (- rI) (2 * q) = rI.
Proof. rewrite pw_mul, pw_neg1_sq, pw_one. reflexivity. Qed.

(* ---- sums ---- *)
Lemma sum_ext n g h : (forall i, (i < n)%nat -> g i = h i) -> sum n g = sum n h.
Proof. apply rsum_ext. Qed.
Lemma sum_split a b g : sum (a + b) g = sum a g + sum b (fun k => g (a + k)%nat).
Proof. induction b as [|b IH]; [rewrite Nat.add_0_r; cbn [rsum]; ring|].
  replace (a + S b)%nat with (S (a + b)) by lia. cbn [rsum]. rewrite IH. ring. Qed.
Lemma sum_zero n g : (forall i, (i < n)%nat -> g i = rO) -> sum n g = rO.
Proof. intro H. rewrite (sum_ext n g (fun _ => rO)) by assumption. apply (rsum_zero R rO rI radd rmul rsub ropp Rth). reflexivity. Qed.
Lemma sum_swap n m (g : nat -> nat -> R) : sum n (fun i => sum m (fun k => g i k)) = sum m (fun k => sum n (fun i => g i k)).
Proof. induction n as [|n IH]; cbn [rsum].
  - symmetry. apply (rsum_zero R rO rI radd rmul rsub ropp Rth). reflexivity.
  - rewrite IH. rewrite <- (rsum_add R rO rI radd rmul rsub ropp Rth). reflexivity. Qed.
Lemma sum_scale n c g : sum n (fun i => c * g i) = c * sum n g.
Proof. apply (rsum_scale R rO rI radd rmul rsub ropp Rth). Qed.
Lemma sum_const_one n : sum n (fun _ => rI) = Zr (Z.of_nat n).
Proof. induction n as [|n IH]; [cbn [rsum]; symmetry; apply (zr_0 R rO rI radd rmul rsub ropp Rth)|].
  cbn [rsum]. rewrite IH. replace (Z.of_nat (S n)) with (Z.of_nat n + 1)%Z by lia.
  rewrite (zr_add R rO rI radd rmul rsub ropp Rth), (zr_1 R rO rI radd rmul rsub ropp Rth). reflexivity. Qed.
(* a sum with a single non-zero term *)
Lemma sum_single n j c g : (j < n)%nat -> (forall i, (i < n)%nat -> i <> j -> g i = rO) -> g j = c -> sum n g = c.
Proof. induction n as [|n IH]; intros Hj H0 Hc; [lia|]. cbn [rsum].
  destruct (Nat.eq_dec j n) as [->|Hne].
  - rewrite sum_zero by (intros i Hi; apply H0; lia). rewrite Hc. ring.
  - rewrite IH by (try lia; try assumption; intros i Hi Hij; apply H0; lia). rewrite (H0 n) by lia. ring. Qed.

(* ---- orthogonality: for v with v^(2^n) = -1 (a principal 2^(n+1)-th root of unity) and e not a multiple of 2^(n+1),
        the geometric sum of the powers of v^e over one period vanishes ---- *)
Lemma geometric_zero : forall n v e, pw v (2 ^ n) = - rI -> ~ Nat.divide (2 ^ S n) e ->
  sum (2 ^ S n) (fun k => pw v (e * k)) = rO.
Proof. induction n as [|m IH]; intros v e Hv Hnd.
  - (* period 2: e is odd *)
    destruct (Nat.Even_or_Odd e) as [[q ->]|[q ->]].
    + exfalso. apply Hnd. exists q. cbn. lia.
    + assert (Hv' : v = - rI) by (rewrite <- Hv; cbn [Nat.pow rpow]; ring).
      rewrite Hv'. change (2 ^ 1)%nat with 2%nat. cbn [rsum].
      rewrite Nat.mul_0_r, Nat.mul_1_r, pw_neg1_odd. cbn [rpow]. ring.
  - destruct (Nat.Even_or_Odd e) as [[q ->]|[q ->]].
    + (* e = 2q: pass to v^2 and the half period, twice *)
      assert (Hv2 : pw (v * v) (2 ^ m) = - rI) by (rewrite <- pw_sq, <- Nat.pow_succ_r'; exact Hv).
      assert (Hq : ~ Nat.divide (2 ^ S m) q).
      { intros [z Hz]. apply Hnd. exists z. rewrite (Nat.pow_succ_r' 2 (S m)). lia. }
      pose proof (IH (v * v) q Hv2 Hq) as S0.
      rewrite (Nat.pow_succ_r' 2 (S m)). replace (2 * 2 ^ S m)%nat with (2 ^ S m + 2 ^ S m)%nat by lia.
      rewrite sum_split.
      rewrite (sum_ext _ (fun k => pw v (2 * q * k)) (fun k => pw (v * v) (q * k)))
        by (intros k _; rewrite <- pw_sq; f_equal; lia).
      rewrite (sum_ext _ (fun k => pw v (2 * q * (2 ^ S m + k))) (fun k => pw (v * v) (q * k))).
      * rewrite S0. ring.
      * intros k _. replace (2 * q * (2 ^ S m + k))%nat with (2 * (2 ^ S m * q + q * k))%nat by lia.
        rewrite pw_sq, pw_add, (pw_mul (v * v) (2 ^ S m) q).
        replace (pw (v * v) (2 ^ S m)) with rI; [rewrite pw_one; ring|].
        rewrite (Nat.pow_succ_r' 2 m), (Nat.mul_comm 2 (2 ^ m)), pw_mul, Hv2. symmetry. apply pw_neg1_sq.
    + (* e odd: the second half period is the opposite of the first *)
      rewrite (Nat.pow_succ_r' 2 (S m)). replace (2 * 2 ^ S m)%nat with (2 ^ S m + 2 ^ S m)%nat by lia.
      rewrite sum_split.
      rewrite (sum_ext _ (fun k => pw v ((2 * q + 1) * (2 ^ S m + k))) (fun k => (- rI) * pw v ((2 * q + 1) * k))).
      * rewrite sum_scale. ring.
      * intros k _. replace ((2 * q + 1) * (2 ^ S m + k))%nat with (2 ^ S m * (2 * q + 1) + (2 * q + 1) * k)%nat by lia.
        rewrite pw_add, (pw_mul v (2 ^ S m)), Hv, pw_neg1_odd. reflexivity. Qed.

(* ---- the inverse transform ---- *)
Variable n : nat.
Let N := (2 ^ S n)%nat.
Variable w : R.
Hypothesis wN : pw w N = - rI.

Lemma w2N : pw w (2 * N) = rI.
Proof. rewrite Nat.mul_comm, pw_mul, wN. apply pw_neg1_sq. Qed.
(* every odd power of w is again a root of X^N + 1 *)
Lemma odd_power_root k : pw (pw w (2 * k + 1)) N = - rI.
Proof. rewrite <- pw_mul, Nat.mul_comm, pw_mul, wN. apply pw_neg1_odd. Qed.

Lemma Npos' : (0 < N)%nat. Proof. unfold N. apply Nat.neq_0_lt_0, Nat.pow_nonzero. lia. Qed.

(* sum over the N evaluation points of w^((2k+1) e) *)
Lemma odd_power_sum e : sum N (fun k => pw w ((2 * k + 1) * e)) =
  if (e mod N =? 0)%nat then Zr (Z.of_nat N) * pw w e else rO.
Proof.
  rewrite (sum_ext _ _ (fun k => pw w e * pw (w * w) (e * k)))
    by (intros k _; rewrite <- pw_sq, <- pw_add; f_equal; lia).
  rewrite sum_scale.
  destruct (e mod N =? 0)%nat eqn:E.
  - apply Nat.eqb_eq in E. apply Nat.mod_divide in E; [|pose proof Npos'; lia]. destruct E as [z ->].
    rewrite (sum_ext _ _ (fun _ => rI)).
    + rewrite sum_const_one. ring.
    + intros k _. rewrite <- pw_sq. replace (2 * (z * N * k))%nat with (2 * N * (z * k))%nat by lia.
      rewrite pw_mul, w2N. apply pw_one.
  - apply Nat.eqb_neq in E. replace (sum N (fun k => pw (w * w) (e * k))) with rO; [ring|]. symmetry. apply geometric_zero.
    + rewrite <- pw_sq, <- Nat.pow_succ_r'. exact wN.
    + intro D. apply E. apply Nat.mod_divide; [pose proof Npos'; lia|exact D]. Qed.

(* C10: summing the evaluations at the odd powers against the inverse powers returns N times the coefficient *)
Theorem inverse_transform (f : vec) j : (j < N)%nat ->
  sum N (fun k => pw w ((2 * k + 1) * (2 * N - j)) * evR N (pw w (2 * k + 1)) f) = Zr (Z.of_nat N) * Zr (f j).
Proof. intro Hj. unfold ev.
  rewrite (sum_ext _ _ (fun k => sum N (fun i => Zr (f i) * pw w ((2 * k + 1) * (2 * N - j + i))))).
  2:{ intros k _. rewrite <- sum_scale. apply sum_ext. intros i _.
      rewrite Nat.mul_add_distr_l, (pw_add w ((2 * k + 1) * (2 * N - j)) ((2 * k + 1) * i)), (pw_mul w (2 * k + 1) i). ring. }
  rewrite sum_swap.
  rewrite (sum_ext _ _ (fun i => Zr (f i) * sum N (fun k => pw w ((2 * k + 1) * (2 * N - j + i)))))
    by (intros i _; apply sum_scale).
  apply (sum_single N j); [exact Hj| |].
  - intros i Hi Hij. rewrite odd_power_sum.
    replace ((2 * N - j + i) mod N =? 0)%nat with false; [ring|].
    symmetry. apply Nat.eqb_neq. intro E. apply Nat.mod_divide in E; [|lia]. destruct E as [z Hz].
    destruct z as [|[|[|z]]]; nia.
  - rewrite odd_power_sum. replace (2 * N - j + j)%nat with (2 * N)%nat by lia.
    replace ((2 * N) mod N =? 0)%nat with true.
    + rewrite w2N. ring.
    + symmetry. apply Nat.eqb_eq. apply (Nat.mod_mul 2 N). lia. Qed.

(* C10: the whole pipeline.  Point-wise product of the two transforms, then the inverse sums: N times the negacyclic
   product of the ring model (the one the C loops compute, C11), coefficient by coefficient *)
Theorem fft_product_pipeline (a b : list Z) j : (length b <= N)%nat -> (j < N)%nat ->
  sum N (fun k => pw w ((2 * k + 1) * (2 * N - j)) * (pevR (pw w (2 * k + 1)) a * pevR (pw w (2 * k + 1)) b))
  = Zr (Z.of_nat N) * Zr (mul N a b j).
Proof. intros Hb Hj. rewrite <- (inverse_transform (mul N a b) j Hj).
  apply sum_ext. intros k _. f_equal. symmetry.
  apply (ev_mul R rO rI radd rmul rsub ropp Rth N Npos' (pw w (2 * k + 1)) (odd_power_root k)). exact Hb. Qed.

(* two coefficient vectors with the same transform agree up to the factor N (injectivity when N is regular in R) *)
Corollary transform_injective (f g : vec) :
  (forall k, (k < N)%nat -> evR N (pw w (2 * k + 1)) f = evR N (pw w (2 * k + 1)) g) ->
  forall j, (j < N)%nat -> Zr (Z.of_nat N) * Zr (f j) = Zr (Z.of_nat N) * Zr (g j).
Proof. intros H j Hj. rewrite <- !inverse_transform by exact Hj. apply sum_ext. intros k Hk. rewrite (H k Hk). reflexivity. Qed.
End Inv.
