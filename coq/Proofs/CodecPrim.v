(* Proofs/CodecPrim.v — the binary primitives: raw reads are well behaved; little-endian round trips. *)
From Coq Require Import ZArith Lia List Bool.
From TV Require Import Base.Int32 Codec.Stream Proofs.CodecGen.
Import ListNotations.
Local Open Scope Z_scope.

Lemma firstn_app_exact {X} (a b : list X) : firstn (length a) (a ++ b) = a.
Proof. induction a; cbn; [now destruct b|]. now f_equal. Qed.
Lemma skipn_app_exact {X} (a b : list X) : skipn (length a) (a ++ b) = b.
Proof. induction a; cbn; auto. Qed.

Lemma read_raw_ok t bs r : read_raw t (length bs) (mk (bs ++ r)) = Ret bs (mk r).
Proof. unfold read_raw. cbn [rest mk good eof fail negb andb].
  assert (H : (length bs <=? length (bs ++ r))%nat = true) by (apply Nat.leb_le; rewrite app_length; lia).
  destruct t; rewrite H, firstn_app_exact, skipn_app_exact; reflexivity. Qed.

Lemma wb_read_raw t n : wb (read_raw t n).
Proof. constructor.
  - intros s v s' Hs H. unfold read_raw in H. destruct t.
    + destruct (n <=? length (rest s))%nat; inversion H; subst. unfold good in *. cbn. exact Hs.
    + rewrite Hs in H. inversion H; subst. unfold good. cbn. now rewrite andb_false_r.
  - intros s v s' H. unfold read_raw in H. destruct t.
    + destruct (n <=? length (rest s))%nat; inversion H; subst. cbn. exists (firstn n (rest s)). now rewrite firstn_skipn.
    + destruct (good s).
      * destruct (n <=? length (rest s))%nat; inversion H; subst; cbn.
        -- exists (firstn n (rest s)). now rewrite firstn_skipn.
        -- exists (rest s). now rewrite app_nil_r.
      * inversion H; subst. cbn. exists []. reflexivity.
  - intros c r v H r'.
    assert (Hn : (n <= length (c ++ r))%nat /\ v = firstn n (c ++ r) /\ skipn n (c ++ r) = r).
    { unfold read_raw in H. cbn [rest mk good eof fail negb andb] in H. destruct t.
      - destruct (Nat.leb_spec n (length (c ++ r))) as [Hle|Hgt]; [|discriminate].
        injection H as Hv Hs. auto.
      - destruct (Nat.leb_spec n (length (c ++ r))) as [Hle|Hgt]; [|discriminate].
        injection H as Hv Hs. auto. }
    destruct Hn as (Hle & Hv & Hs).
    assert (Hlen : n = length c).
    { apply (f_equal (@length Z)) in Hs. rewrite skipn_length, app_length in Hs. rewrite app_length in Hle. lia. }
    subst n. rewrite firstn_app_exact in Hv. subst v. apply read_raw_ok. Qed.

(* ---- little endian ---- *)
Lemma le_bytes_length nb : forall z, length (le_bytes nb z) = nb.
Proof. induction nb; intro z; cbn; auto. Qed.
Lemma le_bytes_range nb : forall z, Forall (fun b => 0 <= b < 256) (le_bytes nb z).
Proof. induction nb; intro z; cbn; constructor; auto. apply Z.mod_pos_bound. lia. Qed.
Lemma le_value_le_bytes nb : forall z, le_value (le_bytes nb z) = z mod 256 ^ Z.of_nat nb.
Proof. induction nb as [|nb IH]; intro z; cbn [le_bytes le_value].
  - cbn. now rewrite Z.mod_1_r.
  - rewrite IH. rewrite Nat2Z.inj_succ, Z.pow_succ_r by lia.
    rewrite Z.rem_mul_r by (try lia; apply Z.pow_nonzero; lia). reflexivity. Qed.
Lemma clean_id bs : Forall (fun b => 0 <= b < 256) bs -> map (fun b => if b <? 0 then 0 else b) bs = bs.
Proof. induction 1 as [|b bs Hb _ IH]; cbn; [reflexivity|]. rewrite IH. destruct (Z.ltb_spec b 0); [lia|reflexivity]. Qed.

Lemma i32_of_le32 z : i32_of (le32 z) = w32 z.
Proof. unfold i32_of, le32. rewrite clean_id by apply le_bytes_range. rewrite le_value_le_bytes.
  change (256 ^ Z.of_nat 4) with p32. unfold u32. rewrite Z.mod_mod by (unfold p32; lia). apply w32_u32. Qed.
Lemma u64_of_le64 z : u64_of (le64 z) = u64 z.
Proof. unfold u64_of, le64. rewrite clean_id by apply le_bytes_range. rewrite le_value_le_bytes.
  change (256 ^ Z.of_nat 8) with p64. unfold u64. apply Z.mod_mod. unfold p64. lia. Qed.
Lemma le32_length z : length (le32 z) = 4%nat. Proof. apply le_bytes_length. Qed.
Lemma le64_length z : length (le64 z) = 8%nat. Proof. apply le_bytes_length. Qed.

(* ---- typed reads ---- *)
Lemma rt_read_i32 t z : is_i32 z -> rt (read_i32 t) (le32 z) z.
Proof. intros Hz r. unfold read_i32. cbn [run].
  rewrite <- (le32_length z) at 1. rewrite read_raw_ok. cbn [run]. rewrite i32_of_le32, w32_id by assumption. reflexivity. Qed.
Lemma rt_read_f64 t z : 0 <= z < p64 -> rt (read_f64 t) (le64 z) z.
Proof. intros Hz r. unfold read_f64. cbn [run].
  rewrite <- (le64_length z) at 1. rewrite read_raw_ok. cbn [run]. rewrite u64_of_le64. unfold u64. rewrite Z.mod_small by assumption. reflexivity. Qed.

Lemma enc_i32s_length l : length (enc_i32s l) = (4 * length l)%nat.
Proof. induction l as [|x l IH]; [reflexivity|]. unfold enc_i32s in *. cbn [map concat length]. rewrite app_length, le32_length, IH. lia. Qed.

Lemma decode_i32s : forall l, Forall is_i32 l ->
  map (fun i => i32_of (firstn 4 (skipn (4 * i) (enc_i32s l)))) (seq 0 (length l)) = l.
Proof. induction l as [|x l IH]; intro H; [reflexivity|].
  apply Forall_cons_iff in H as [Hx Hl]. cbn [length seq map].
  unfold enc_i32s at 1. cbn [map concat]. f_equal.
  - change (4 * 0)%nat with 0%nat. cbn [skipn]. rewrite <- (le32_length x) at 1. rewrite firstn_app_exact, i32_of_le32. now apply w32_id.
  - rewrite <- seq_shift, map_map. rewrite <- (IH Hl) at 2. apply map_ext. intro i.
    f_equal. f_equal. unfold enc_i32s. cbn [map concat].
    replace (4 * S i)%nat with (length (le32 x) + 4 * i)%nat by (rewrite le32_length; lia).
    rewrite skipn_app. rewrite skipn_all2 by lia. cbn [app].
    replace (length (le32 x) + 4 * i - length (le32 x))%nat with (4 * i)%nat by lia. reflexivity. Qed.

Lemma rt_read_i32s t l : Forall is_i32 l -> rt (read_i32s t (length l)) (enc_i32s l) l.
Proof. intros H r. unfold read_i32s. cbn [run]. rewrite <- enc_i32s_length. rewrite read_raw_ok. cbn [run].
  rewrite decode_i32s by assumption. reflexivity. Qed.

(* ---- type tags ---- *)
Lemma existsb_self_false (l : list Z) : Forall (fun b => 0 <= b) l ->
  existsb (fun xe => (0 <=? fst xe) && negb (fst xe =? snd xe)) (combine l l) = false.
Proof. induction 1 as [|b l Hb _ IH]; cbn; [reflexivity|]. rewrite IH, Z.eqb_refl. cbn. now rewrite andb_false_r. Qed.
Lemma has_undef_false (l : list Z) : Forall (fun b => 0 <= b < 256) l -> has_undef l = false.
Proof. unfold has_undef. induction 1 as [|b l Hb _ IH]; cbn [existsb]; [reflexivity|]. rewrite IH. destruct (Z.ltb_spec b 0); [lia|reflexivity]. Qed.
Lemma merge_init_full init bs : Forall (fun b => 0 <= b < 256) bs -> length bs = 4%nat -> merge_init init bs = bs.
Proof. intros H L. destruct init as [v|]; [|reflexivity]. cbn [merge_init].
  assert (L2 : length (le32 v) = length bs) by (rewrite le32_length; lia).
  revert L2. generalize (le32 v). clear L. induction H as [|b bs Hb _ IH]; intros l L2; destruct l; cbn in *; try lia; [reflexivity|].
  rewrite IH by lia. destruct (Z.ltb_spec b 0); [lia|reflexivity]. Qed.

Lemma rt_check_tag t uid init : rt (check_tag t uid init) (le32 uid) tt.
Proof. intro r. unfold check_tag. cbn [run]. rewrite <- (le32_length uid) at 1. rewrite read_raw_ok.
  pose proof (le_bytes_range 4 (u32 uid)) as R. fold (le32 uid) in R.
  rewrite merge_init_full by (try assumption; apply le32_length).
  rewrite existsb_self_false by (eapply Forall_impl; [|exact R]; cbn; lia).
  rewrite has_undef_false by assumption. reflexivity. Qed.

Lemma wb_check_tag t uid init : wbprog (check_tag t uid init).
Proof. unfold check_tag. constructor; [apply wb_read_raw|]. intro bs.
  destruct (existsb _ _); [constructor|]. destruct (has_undef _); constructor. Qed.
Lemma wb_read_i32s t n : wbprog (read_i32s t n).
Proof. unfold read_i32s. constructor; [apply wb_read_raw|]. intro; constructor. Qed.
Lemma wb_read_i32 t : wbprog (read_i32 t).
Proof. unfold read_i32. constructor; [apply wb_read_raw|]. intro; constructor. Qed.
Lemma wb_read_f64 t : wbprog (read_f64 t).
Proof. unfold read_f64. constructor; [apply wb_read_raw|]. intro; constructor. Qed.
