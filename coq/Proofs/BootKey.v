(* Proofs/BootKey.v — C09 / C04: a TGSW encryption of a bit s (rows = encryptions of zero with phases e_p, plus s times the
   gadget) acts on every accumulator like s up to an error bounded by
        beta = (k+1) l * N * (Bg/2) * eta  +  (1 + k N) * 2^(32 - l Bgbit)
   (eta the sup norm of the row noises, keys binary), hence a bootstrapping key made of such samples rotates the accumulator
   phase by X^(sum_i a_i s_i) up to (number of non-zero exponents) * beta: the analytic bound of C09 in worst-case form. *)
From Coq Require Import ZArith Lia List Bool.
From TV Require Import Base.Int32 Base.Sums Ring.NegaRing Model.Lwe Model.Poly Model.Tlwe Model.Decomp Model.Tgsw Model.Bootstrap
  Proofs.Lwe Proofs.Poly Proofs.Tlwe Proofs.Digits Proofs.Decomp Proofs.Karatsuba Proofs.Tgsw Proofs.Gadget Proofs.BlindRotate.
Import ListNotations.
Local Open Scope Z_scope.

Section BK.
Variable N : nat.
Hypothesis Npos : (0 < N)%nat.
Variable key : list (list Z).
Variable k : nat.
Hypothesis Hkey : wf_tkey N k key.
Hypothesis Hbin : Forall (Forall (fun x => x = 0 \/ x = 1)) key.          (* the ring key is binary *)
Variables (l : nat) (B : Z).
Hypothesis V : valid_layout l B.

Notation PH := (PHv N key).
Notation "f ~ g" := (eqNm N f g) (at level 70).

Fixpoint l1 (a : list Z) : Z := match a with [] => 0 | x :: r => Z.abs x + l1 r end.
Lemma l1_nonneg a : 0 <= l1 a. Proof. induction a; cbn; lia. Qed.

Lemma act_bound a : forall v beta, 0 <= beta -> (forall i, (i < N)%nat -> Z.abs (v i) <= beta) ->
  forall j, (j < N)%nat -> Z.abs (act N a v j) <= l1 a * beta.
Proof. induction a as [|x a IH]; intros v beta Hb Hv j Hj; cbn [act l1]; [unfold vzero; cbn; lia|].
  unfold vadd, vscale.
  assert (HS : Z.abs (Sh N (act N a v) j) <= l1 a * beta).
  { destruct j as [|j]; cbn [Sh]; [rewrite Z.abs_opp; apply IH; try assumption; lia|apply IH; try assumption; lia]. }
  pose proof (Hv j Hj). pose proof (Z.abs_triangle (x * v j) (Sh N (act N a v) j)). rewrite Z.abs_mul in *.
  pose proof (Z.abs_nonneg x). nia. Qed.

Lemma l1_binary s : Forall (fun x => x = 0 \/ x = 1) s -> l1 s <= Z.of_nat (length s).
Proof. induction 1 as [|x s Hx Hs IH]; [cbn; lia|]. cbn [l1 length]. destruct Hx; subst; cbn [Z.abs]; lia. Qed.
Lemma l1_digits a i : (i < l)%nat -> l1 (map (fun x => spec_digit l B x i) a) <= Z.of_nat (length a) * halfBg B.
Proof. intro Hi. induction a as [|x a IH]; [cbn; lia|]. cbn [map l1 length].
  pose proof (decomp_range l B x i V Hi). rewrite Nat2Z.inj_succ. lia. Qed.

Lemma vsum_bound n F c : (forall p j, (p < n)%nat -> (j < N)%nat -> Z.abs (F p j) <= c) -> forall j, (j < N)%nat -> Z.abs (vsum n F j) <= Z.of_nat n * c.
Proof. intros H j Hj. unfold vsum. induction n as [|n IH]; [cbn; lia|]. cbn [zsum].
  pose proof (IH ltac:(intros; apply H; lia)). pose proof (H n j ltac:(lia) Hj). pose proof (Z.abs_triangle (zsum n (fun p => F p j)) (F n j)). lia. Qed.

Definition Tr : Z := pow2 (32 - Z.of_nat l * B).          (* truncation of the gadget decomposition *)

(* phase of the error sample: every coefficient below (1 + k N) * 2^(32 - l Bgbit) in absolute value, as an integer *)
Lemma err_phase_bound t : wf_tsample N k t -> forall j, (j < N)%nat ->
  Z.abs (PH (err_sample l B t) j) <= (1 + Z.of_nat k * Z.of_nat N) * Tr.
Proof. intros Ht j Hj. destruct Hkey as [Hk Hkf]. destruct (wf_split N Npos k t Ht) as (ma & b & -> & Hma & Hmaf & Hb).
  unfold err_sample. rewrite map_app. cbn [map]. rewrite PHv_app.
  assert (HT : 0 <= Tr) by (unfold Tr; destruct V as (? & ? & ?); apply Z.lt_le_incl, pow2_pos; lia).
  assert (Herr : forall a i, Z.abs (ofl (err_poly l B a) i) <= Tr).
  { intros a i. unfold ofl, err_poly. destruct (Nat.lt_ge_cases i (length a)) as [Hi|Hi].
    - rewrite (nth_map_z N Npos (decomp_err l B)) by lia. pose proof (proj2 (decomp_recompose l B (nth i a 0) V)). unfold Tr. lia.
    - rewrite nth_overflow by (rewrite map_length; lia). cbn. lia. }
  unfold vsub. rewrite (mask_sum_vsum N Npos key (map (err_poly l B) ma) ltac:(rewrite map_length; lia) j).
  assert (HM : Z.abs (vsum (length key) (fun u => act N (nth u key []) (ofl (nth u (map (err_poly l B) ma) []))) j) <= Z.of_nat (length key) * (Z.of_nat N * Tr)).
  { apply vsum_bound; [|exact Hj]. intros u i Hu Hi.
    eapply Z.le_trans; [apply act_bound; [exact HT| |exact Hi]|].
    - intros q Hq. destruct (Nat.lt_ge_cases u (length ma)) as [Hul|Hul].
      + replace (nth u (map (err_poly l B) ma) []) with (err_poly l B (nth u ma [])) by (symmetry; exact (map_nth (err_poly l B) ma [] u)). apply Herr.
      + rewrite nth_overflow by (rewrite map_length; lia). unfold ofl. destruct q; cbn; lia.
    - assert (Hs : l1 (nth u key []) <= Z.of_nat N).
      { rewrite Forall_forall in Hbin, Hkf. rewrite <- (Hkf (nth u key []) ltac:(apply nth_In; lia)). apply l1_binary, Hbin, nth_In. lia. }
      pose proof (l1_nonneg (nth u key [])). nia. }
  pose proof (Herr b j). pose proof (Z.abs_triangle (ofl (err_poly l B b) j) (- vsum (length key) (fun u => act N (nth u key []) (ofl (nth u (map (err_poly l B) ma) []))) j)).
  rewrite Z.abs_opp in *. rewrite Hk in *. replace (ofl (err_poly l B b) j - vsum k (fun u => act N (nth u key []) (ofl (nth u (map (err_poly l B) ma) []))) j)
    with (ofl (err_poly l B b) j + - vsum k (fun u => act N (nth u key []) (ofl (nth u (map (err_poly l B) ma) []))) j) by ring. nia. Qed.

(* ---- one key element ---- *)
Variable s : Z.
Hypothesis Hs : s = 0 \/ s = 1.
Variable Z0 : tgsw.
Hypothesis HZ : Forall (wf_tsample N k) Z0.
Hypothesis HlZ : length Z0 = (S k * l)%nat.
Variable e : nat -> vec.                                    (* the noise of row p *)
Variable eta : Z.
Hypothesis He : forall p, (p < S k * l)%nat -> PH (nth p Z0 []) ~ e p.
Hypothesis Heta : forall p j, (p < S k * l)%nat -> (j < N)%nat -> Z.abs (e p j) <= eta.
Hypothesis Heta0 : 0 <= eta.

Definition Eg (t : tsample) : vec :=
  vsub (vsum (S k * l) (fun p => act N (nth p (tlwe_decomp l B t) []) (e p))) (vscale s (PH (err_sample l B t))).
Definition beta : Z := Z.of_nat (S k * l) * (Z.of_nat N * halfBg B * eta) + (1 + Z.of_nat k * Z.of_nat N) * Tr.

Theorem gadget_sample_acts_like : acts_like N key k l B (add_muint_h l B s Z0) s Eg beta.
Proof. unfold acts_like. split; [|split; [exact Hs|]].
  - (* rows well formed *)
    apply Forall_forall. intros c Hc. destruct (In_nth _ _ [] Hc) as (p & Hp & <-).
    assert (Hp' : (p < length Z0)%nat) by (unfold add_muint_h in Hp; rewrite map_length, combine_length, seq_length in Hp; lia).
    pose proof (add_muint_h_nth N Npos l B s Z0 p Hp') as E.
    assert (Hw : wf_tsample N k (gadget_row l B s p (nth p Z0 []))).
    { unfold gadget_row. refine (upd_wf N k _ _ _ _ _); [intros a Ha; unfold lenN; now rewrite bump_len|]. rewrite Forall_forall in HZ. apply HZ, nth_In, Hp'. }
    exact (eq_ind_r (wf_tsample N k) Hw E).
  - intros t Ht. split.
    + eapply eqNm_trans; [apply (extprod_message N Npos key k Hkey l B V s Z0 t Ht HZ HlZ)|].
      pose proof (decomp_length N k l B V t Ht) as Hdl.
      intros j Hj. unfold vadd at 1. rewrite (rows_sum_vsum N Npos PH (tlwe_decomp l B t) Z0 ltac:(lia) j). rewrite Hdl.
      assert (HR : vsum (S k * l) (fun p => act N (nth p (tlwe_decomp l B t) []) (PH (nth p Z0 []))) ~
                   vsum (S k * l) (fun p => act N (nth p (tlwe_decomp l B t) []) (e p))).
      { apply vsum_eqm. intros p Hp. apply (act_eqm N Npos), He, Hp. }
      eapply eqm32_trans; [apply eqm32_add; [apply eqm32_refl|apply (HR j Hj)]|].
      unfold Eg, vadd, vscale, vsub. match goal with |- eqm32 ?x ?y => replace y with x by ring end. apply eqm32_refl.
    + intros j Hj. unfold Eg, vsub, vscale, beta.
      assert (H1 : Z.abs (vsum (S k * l) (fun p => act N (nth p (tlwe_decomp l B t) []) (e p)) j) <= Z.of_nat (S k * l) * (Z.of_nat N * halfBg B * eta)).
      { apply vsum_bound; [|exact Hj]. intros p i Hp Hi.
        eapply Z.le_trans; [apply act_bound; [exact Heta0|intros q Hq; apply Heta; assumption|exact Hi]|].
        (* digits of row p: p = u*l + i' *)
        assert (Hl0 : (0 < l)%nat) by (destruct V as (_ & ? & _); lia).
        pose proof (Nat.div_mod p l ltac:(lia)) as Hdm. pose proof (Nat.mod_upper_bound p l ltac:(lia)) as Hmu.
        assert (Hu : (p / l <= k)%nat) by (assert (p / l < S k)%nat by (apply Nat.div_lt_upper_bound; lia); lia).
        replace p with (p / l * l + p mod l)%nat at 1 by lia.
        rewrite (decomp_nth N Npos k l B V t (p / l) (p mod l) Ht Hu Hmu).
        pose proof (l1_digits (nth (p / l) t []) (p mod l) Hmu) as Hd.
        assert (Hlen : length (nth (p / l) t []) = N) by (destruct Ht as [Htl Htf]; rewrite Forall_forall in Htf; apply Htf, nth_In; lia).
        rewrite Hlen in Hd. pose proof (l1_nonneg (map (fun x => spec_digit l B x (p mod l)) (nth (p / l) t []))). nia. }
      pose proof (err_phase_bound t Ht j Hj) as H2.
      pose proof (Z.abs_triangle (vsum (S k * l) (fun p => act N (nth p (tlwe_decomp l B t) []) (e p)) j) (- (s * PH (err_sample l B t) j))).
      rewrite Z.abs_opp, Z.abs_mul in *.
      assert (Z.abs s <= 1) by (destruct Hs; subst; cbn; lia).
      assert (0 <= (1 + Z.of_nat k * Z.of_nat N) * Tr) by (pose proof (Z.abs_nonneg (PH (err_sample l B t) j)); lia).
      replace (vsum (S k * l) (fun p => act N (nth p (tlwe_decomp l B t) []) (e p)) j - s * PH (err_sample l B t) j)
        with (vsum (S k * l) (fun p => act N (nth p (tlwe_decomp l B t) []) (e p)) j + - (s * PH (err_sample l B t) j)) by ring.
      pose proof (Z.abs_nonneg (PH (err_sample l B t) j)). nia. Qed.
End BK.
