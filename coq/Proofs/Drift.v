(* Proofs/Drift.v — C04 / C01: the rotation exponent p, scaled back to the torus, is the input phase plus the sum of the n+1
   rounding errors of the modulus switch (C13): p * 2^32/(2N) = phase(x) + d  (mod 2^32),  |d| <= (1 + |s|_1) * 2^32/(4N).
   Hence when (1 + |s|_1) * 2^32/(4N) is below a gate's margin, the drift hypothesis of gate_correct_partial is implied. *)
From Coq Require Import ZArith Lia List Bool.
From TV Require Import Base.Int32 Model.Numeric Model.Lwe Model.Bootstrap Model.Gates Proofs.Numeric Proofs.Lwe Proofs.Gates Proofs.Bootstrap.
Import ListNotations.
Local Open Scope Z_scope.

Section D.
Variable M S : Z.
Hypothesis Dom : inDomain M.
Hypothesis HS : M * S = p32.

Lemma S_pos : 0 < S. Proof. pose proof (goodM_range M (inDomain_good M Dom)). unfold p31, p32 in *. nia. Qed.

(* one rounding: modSwitchFrom v M, scaled by S, is v up to half a step, modulo 2^32 *)
Lemma msf_drift v : exists d, 2 * Z.abs d <= S /\ eqm32 (modSwitchFrom v M * S) (v + d).
Proof. destruct (modSwitchFrom_nearest v M Dom) as [Hr (r & Hrr & Hn)].
  pose proof (goodM_range M (inDomain_good M Dom)) as HM. pose proof S_pos as HSp.
  set (u := u32 v) in *. exists (r * S - u). split.
  - (* |M u - r 2^32| <= 2^31 and 2^32 = M S *)
    rewrite <- HS in Hn. assert (H1 : Z.abs (M * (u - r * S)) <= p31) by (replace (M * (u - r * S)) with (M * u - r * (M * S)) by ring; exact Hn).
    rewrite Z.abs_mul, (Z.abs_eq M) in H1 by lia.
    assert (H2 : 2 * p31 = M * S) by (rewrite HS; reflexivity).
    replace (Z.abs (r * S - u)) with (Z.abs (u - r * S)) by (rewrite <- Z.abs_opp; f_equal; ring). nia.
  - assert (E : eqm32 (modSwitchFrom v M * S) (r * S)).
    { destruct Hrr as [->|[H0 ->]]; [apply eqm32_refl|]. rewrite H0, HS. unfold eqm32. rewrite Z.mod_same by (unfold p32; lia). reflexivity. }
    eapply eqm32_trans; [exact E|]. unfold eqm32, u, u32.
    pose proof (Z.div_mod v p32 ltac:(unfold p32; lia)) as Hdm.
    replace (v + (r * S - v mod p32)) with (r * S + (v / p32) * p32) by lia. symmetry. apply Z_mod_plus_full. Qed.

Fixpoint l1 (s : list Z) : Z := match s with [] => 0 | x :: r => Z.abs x + l1 r end.

(* the whole mask *)
Lemma mask_drift : forall a s, exists d, 2 * Z.abs d <= l1 s * S /\
  eqm32 (dot (map (fun ai => modSwitchFrom ai M) a) s * S) (dot a s + d).
Proof. pose proof S_pos as HSp. induction a as [|x a IH]; intros [|y s]; cbn [map dot l1]; try (exists 0; split; [cbn; pose proof (Z.abs_nonneg 0); try nia; lia|apply eqm32_refl]).
  - exists 0. split; [cbn; assert (0 <= l1 s) by (clear; induction s; cbn; lia); pose proof (Z.abs_nonneg y); nia|apply eqm32_refl].
  - destruct (IH s) as (d & Hd & He). destruct (msf_drift x) as (dx & Hdx & Hex).
    exists (dx * y + d). split.
    + pose proof (Z.abs_triangle (dx * y) d). rewrite Z.abs_mul in *. pose proof (Z.abs_nonneg y). pose proof (Z.abs_nonneg dx). nia.
    + replace ((modSwitchFrom x M * y + dot (map (fun ai => modSwitchFrom ai M) a) s) * S)
        with ((modSwitchFrom x M * S) * y + dot (map (fun ai => modSwitchFrom ai M) a) s * S) by ring.
      replace (x * y + dot a s + (dx * y + d)) with ((x + dx) * y + (dot a s + d)) by ring.
      apply eqm32_add; [apply eqm32_mul; [exact Hex|apply eqm32_refl]|exact He]. Qed.
End D.

Lemma dotz_dot : forall a s acc, fold_left (fun acc xy => acc + fst xy * snd xy) (combine a s) acc = acc + dot a s.
Proof. induction a as [|x a IH]; intros [|y s] acc; cbn [combine fold_left dot]; try lia. rewrite IH. cbn [fst snd]. ring. Qed.

(* C04: modswitch_drift *)
Theorem rot_exponent_drift (N : nat) (S : Z) s x : (0 < N)%nat -> inDomain (2 * Z.of_nat N) -> 2 * Z.of_nat N * S = p32 ->
  exists d, 2 * Z.abs d <= (1 + l1 s) * S /\ eqm32 (rot_exponent N s x * S) (lwe_phase s x + d).
Proof. intros HN Dom HS. set (M := 2 * Z.of_nat N) in *.
  destruct (msf_drift M S Dom HS (snd x)) as (db & Hdb & Heb). destruct (mask_drift M S Dom HS (fst x) s) as (da & Hda & Hea).
  exists (db - da). split.
  - pose proof (Z.abs_triangle db (- da)). rewrite Z.abs_opp in *. replace (db - da) with (db + - da) by ring. lia.
  - unfold rot_exponent. cbv zeta. fold M. unfold dotz. rewrite dotz_dot, Z.add_0_l.
    set (R := modSwitchFrom (snd x) M - dot (map (fun ai => modSwitchFrom ai M) (fst x)) s).
    (* (R mod M) * S == R * S mod 2^32 because M * S = 2^32 *)
    assert (E1 : eqm32 ((R mod M) * S) (R * S)).
    { pose proof (Z.div_mod R M ltac:(unfold M; lia)) as Hdm. unfold eqm32.
      assert (E0 : R * S = (R mod M) * S + (R / M) * p32).
      { rewrite <- HS. set (q := R / M) in *. set (t := R mod M) in *. clearbody q t. rewrite Hdm. ring. }
      rewrite E0. symmetry. apply Z_mod_plus_full. }
    eapply eqm32_trans; [exact E1|]. unfold R. rewrite Z.mul_sub_distr_r.
    rewrite lwe_phase_spec. eapply eqm32_trans; [apply eqm32_sub; [exact Heb|exact Hea]|].
    eapply eqm32_trans; [|apply eqm32_add; [apply eqm32_sym, w32_eqm|apply eqm32_refl]].
    match goal with |- eqm32 ?a ?b => replace b with a by ring end. apply eqm32_refl. Qed.

(* C01: when the worst-case drift is below the gate's margin the truth table follows from the output error bound alone *)
Theorem gate_correct_worstcase g (N : nat) (S : Z) n key ca cb (a b : bool) cout e :
  (0 < N)%nat -> inDomain (2 * Z.of_nat N) -> 2 * Z.of_nat N * S = p32 ->
  length (fst ca) = n -> length (fst cb) = n ->
  admissible (lwe_phase key ca) a -> admissible (lwe_phase key cb) b ->
  (1 + l1 key) * S < 2 * gate_margin g ->
  lwe_phase key cout = (if rot_exponent N key (gate_lin g n ca cb) <? Z.of_nat N then MU else - MU) + e -> Z.abs e < 536870912 ->
  decrypt_bit key cout = bit_of (gate_table g a b).
Proof. intros HN Dom HS Hla Hlb Ha Hb Hm Hout He.
  destruct (rot_exponent_drift N S key (gate_lin g n ca cb) HN Dom HS) as (d & Hd & Hdr).
  apply (gate_correct_partial g n key ca cb a b (Z.of_nat N) S (rot_exponent N key (gate_lin g n ca cb)) d cout e); try assumption; try lia.
  apply rot_exponent_range. exact HN. Qed.
