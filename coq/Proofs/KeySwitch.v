(* Proofs/KeySwitch.v — C08: key switching preserves the phase up to the rounding of each mask
   coefficient to t*basebit bits plus the noise of the rows actually used. *)
From Coq Require Import ZArith Lia List Bool.
From TV Require Import Base.Int32 Base.Sums Model.Lwe Model.KeySwitch Proofs.Digits Proofs.Lwe.
Import ListNotations.
Local Open Scope Z_scope.

Definition valid_ks (t : nat) (b : Z) : Prop := 1 <= b /\ (1 <= t)%nat /\ Z.of_nat t * b <= 31.

Lemma ks_digit_spec b y j : 1 <= b -> (Z.of_nat j + 1) * b <= 32 ->
  ks_digit b y j = digit y (shp 32 b j) b.
Proof. intros Hb Hj. unfold ks_digit, shp. apply digit_shift_mask; lia. Qed.

Lemma ks_digit_range t b y j : valid_ks t b -> (j < t)%nat -> 0 <= ks_digit b y j < pow2 b.
Proof. intros (Hb & Ht & Htb) Hj. rewrite ks_digit_spec by (try lia; nia). apply digit_range. lia. Qed.

(* the digits of aibar sum to the rounded coefficient (carries across digits included) *)
Theorem ks_digits_sum t b a : valid_ks t b ->
  zsum t (fun j => ks_digit b (aibar (Z.of_nat t) b a) j * pow2 (shp 32 b j)) = round_tb (Z.of_nat t) b a.
Proof. intros (Hb & Ht & Htb). unfold round_tb. cbv zeta. set (y := aibar (Z.of_nat t) b a).
  rewrite (zsum_ext t _ (fun j => digit y (shp 32 b j) b * pow2 (shp 32 b j))).
  - rewrite digit_expansion32; [reflexivity|apply u32_range|lia|lia].
  - intros j Hj. rewrite ks_digit_spec; [reflexivity|lia|nia]. Qed.

(* rounding error: a - round(a) = (aibar mod 2^(32-tb)) - 2^(31-tb)  (mod 2^32), in [-2^(31-tb), 2^(31-tb)) *)
Definition round_err (t b a : Z) : Z := aibar t b a mod pow2 (32 - t * b) - prec_offset t b.

Theorem ks_round_error t b a : valid_ks t b ->
  eqm32 (a - round_tb (Z.of_nat t) b a) (round_err (Z.of_nat t) b a) /\
  - pow2 (31 - Z.of_nat t * b) <= round_err (Z.of_nat t) b a < pow2 (31 - Z.of_nat t * b).
Proof. intros (Hb & Ht & Htb). unfold round_err, round_tb. cbv zeta. set (T := Z.of_nat t) in *.
  set (y := aibar T b a). set (m := y mod pow2 (32 - T * b)).
  assert (Hpo : prec_offset T b = pow2 (31 - T * b)) by (unfold prec_offset; f_equal; lia).
  split.
  - replace (a - (y - m)) with (((a + prec_offset T b) - y) + (m - prec_offset T b)) by ring.
    replace (m - prec_offset T b) with (0 + (m - prec_offset T b)) at 2 by ring.
    apply eqm32_add; [|apply eqm32_refl].
    apply eqm32_iff_divide. unfold y, aibar, u32.
    exists ((a + prec_offset T b) / p32). pose proof (Z.div_mod (a + prec_offset T b) p32 ltac:(unfold p32; lia)). lia.
  - rewrite Hpo. assert (Hm : 0 <= m < pow2 (32 - T * b)) by (apply Z.mod_pos_bound, pow2_pos; lia).
    replace (32 - T * b) with (1 + (31 - T * b)) in Hm by lia. rewrite pow2_add in Hm by lia.
    change (pow2 1) with 2 in Hm. lia. Qed.

Lemma dot_as_zsum : forall a key, dot a key = zsum (length a) (fun i => nth i a 0 * nth i key 0).
Proof. induction a as [|x a IH]; intro key; [reflexivity|]. cbn [length]. rewrite zsum_shift.
  destruct key as [|y k].
  - cbn [dot nth]. rewrite Z.mul_0_r. rewrite (zsum_ext _ _ (fun _ => 0)); [now rewrite zsum_zero|].
    intros i _. destruct i; ring.
  - cbn [dot nth]. f_equal. apply IH. Qed.

Section KS.
Variable raw : list sample.
Variables (t : nat) (b : Z).
Hypothesis V : valid_ks t b.
Variable skey : list Z.              (* target key *)
Variable nout : nat.
Variable n : nat.
Variable sin : nat -> Z.             (* source key, s_i *)
Variable e : nat -> nat -> Z -> Z.   (* noise of row (i,j,h) *)
Hypothesis rows_ok : forall i j h, (i < n)%nat -> (j < t)%nat -> 1 <= h < pow2 b ->
  exists row, ks_get raw (Z.of_nat t) (pow2 b) i j h = Some row /\ length (fst row) = nout /\
              eqm32 (lwe_phase skey row) (h * sin i * pow2 (shp 32 b j) + e i j h).

(* noise of the row used at (i,j), none when the digit is zero (row h = 0 is never read) *)
Definition ee (i : nat) (y : Z) (j : nat) : Z :=
  let d := ks_digit b y j in if d =? 0 then 0 else e i j d.

Lemma inner_loop i y : (i < n)%nat -> forall m, (m <= t)%nat -> forall r, length (fst r) = nout ->
  exists r', fold_left (step_j raw t b i y) (seq 0 m) (Some r) = Some r' /\ length (fst r') = nout /\
    eqm32 (lwe_phase skey r') (lwe_phase skey r - zsum m (fun j => ks_digit b y j * sin i * pow2 (shp 32 b j) + ee i y j)).
Proof. intros Hi. induction m as [|m IH]; intros Hm r Hr.
  - exists r. cbn. split; [reflexivity|split; [assumption|]]. rewrite Z.sub_0_r. apply eqm32_refl.
  - destruct (IH ltac:(lia) r Hr) as (r1 & Hf & Hl1 & Hp1).
    rewrite seq_S, fold_left_app, Hf. cbn [Nat.add fold_left step_j]. cbn [zsum].
    pose proof (ks_digit_range t b y m V ltac:(lia)) as Hd.
    unfold ee. destruct (Z.eqb_spec (ks_digit b y m) 0) as [Hz|Hnz].
    + exists r1. split; [reflexivity|split; [assumption|]]. rewrite Hz.
      eapply eqm32_trans; [exact Hp1|]. apply eqm32_sub; [apply eqm32_refl|].
      replace (0 * sin i * pow2 (shp 32 b m) + 0) with 0 by ring. rewrite Z.add_0_r. apply eqm32_refl.
    + destruct (rows_ok i m (ks_digit b y m) Hi ltac:(lia) ltac:(lia)) as (row & Hg & Hlr & Hpr).
      rewrite Hg. exists (lwe_sub r1 row). split; [reflexivity|]. split.
      * cbn [lwe_sub fst]. unfold zipw. rewrite map_length, combine_length. lia.
      * rewrite phase_sub by lia. eapply eqm32_trans; [apply w32_eqm|].
        set (S0 := zsum m _).
        replace (lwe_phase skey r - (S0 + (ks_digit b y m * sin i * pow2 (shp 32 b m) + e i m (ks_digit b y m))))
          with ((lwe_phase skey r - S0) - (ks_digit b y m * sin i * pow2 (shp 32 b m) + e i m (ks_digit b y m))) by ring.
        apply eqm32_sub; assumption. Qed.

(* what one mask coefficient contributes *)
Definition contrib (i : nat) (ai : Z) : Z :=
  sin i * round_tb (Z.of_nat t) b ai + zsum t (ee i (aibar (Z.of_nat t) b ai)).

Lemma inner_total i ai : 
  zsum t (fun j => ks_digit b (aibar (Z.of_nat t) b ai) j * sin i * pow2 (shp 32 b j) + ee i (aibar (Z.of_nat t) b ai) j)
  = contrib i ai.
Proof. unfold contrib. rewrite zsum_add. f_equal.
  rewrite <- (ks_digits_sum t b ai V). rewrite <- zsum_scale. apply zsum_ext. intros; ring. Qed.

Lemma outer_loop : forall a, (length a <= n)%nat -> forall r, length (fst r) = nout ->
  exists r', fold_left (step_i raw t b) (combine (seq 0 (length a)) a) (Some r) = Some r' /\ length (fst r') = nout /\
    eqm32 (lwe_phase skey r') (lwe_phase skey r - zsum (length a) (fun i => contrib i (nth i a 0))).
Proof. intro a. induction a as [|x a IH] using rev_ind; intros Hn r Hr.
  - exists r. cbn. split; [reflexivity|split; [assumption|]]. rewrite Z.sub_0_r. apply eqm32_refl.
  - rewrite app_length in *. cbn [length] in *. replace (length a + 1)%nat with (S (length a)) in * by lia.
    destruct (IH ltac:(lia) r Hr) as (r1 & Hf & Hl1 & Hp1).
    rewrite seq_S. cbn [Nat.add].
    assert (Hc : combine (seq 0 (length a) ++ [length a]) (a ++ [x]) = combine (seq 0 (length a)) a ++ [(length a, x)]).
    { rewrite combine_app_eq by (now rewrite seq_length). reflexivity. }
    rewrite Hc, fold_left_app, Hf. cbn [fold_left step_i fst snd].
    destruct (inner_loop (length a) (aibar (Z.of_nat t) b x) ltac:(lia) t ltac:(lia) r1 Hl1) as (r2 & Hf2 & Hl2 & Hp2).
    exists r2. split; [exact Hf2|split; [exact Hl2|]].
    eapply eqm32_trans; [exact Hp2|]. rewrite inner_total. cbn [zsum].
    rewrite app_nth2 by lia. rewrite Nat.sub_diag. cbn [nth].
    set (S0 := zsum (length a) _).
    assert (HS : S0 = zsum (length a) (fun i => contrib i (nth i a 0))).
    { unfold S0. apply zsum_ext. intros i Hi. rewrite app_nth1 by lia. reflexivity. }
    rewrite HS.
    replace (lwe_phase skey r - (zsum (length a) (fun i => contrib i (nth i a 0)) + contrib (length a) x))
      with ((lwe_phase skey r - zsum (length a) (fun i => contrib i (nth i a 0))) - contrib (length a) x) by ring.
    apply eqm32_sub; [exact Hp1|apply eqm32_refl]. Qed.

(* main theorem: the output phase, exactly, modulo 2^32 *)
Theorem keyswitch_phase c : length (fst c) = n ->
  exists res, keyswitch raw t b nout c = Some res /\ length (fst res) = nout /\
    eqm32 (lwe_phase skey res)
          (snd c - zsum n (fun i => sin i * round_tb (Z.of_nat t) b (nth i (fst c) 0))
                 - zsum n (fun i => zsum t (ee i (aibar (Z.of_nat t) b (nth i (fst c) 0))))).
Proof. intro Hc. unfold keyswitch.
  destruct (outer_loop (fst c) ltac:(lia) (lwe_trivial nout (snd c))) as (res & Hf & Hl & Hp).
  { cbn [lwe_trivial fst]. apply repeat_length. }
  exists res. split; [exact Hf|split; [exact Hl|]].
  eapply eqm32_trans; [exact Hp|]. rewrite phase_trivial, Hc.
  unfold contrib. rewrite zsum_add.
  match goal with |- eqm32 (w32 ?x - (?A + ?B)) (?x - ?A - ?B) => replace (x - A - B) with (x - (A + B)) by ring end.
  apply eqm32_sub; [apply w32_eqm|apply eqm32_refl]. Qed.

(* ... hence the difference to the input phase is the rounding error weighted by the key bits,
   minus the noise of the rows used *)
Corollary keyswitch_phase_diff c inkey : length (fst c) = n -> (forall i, sin i = nth i inkey 0) ->
  exists res, keyswitch raw t b nout c = Some res /\
    eqm32 (lwe_phase skey res - lwe_phase inkey c)
          (zsum n (fun i => sin i * round_err (Z.of_nat t) b (nth i (fst c) 0))
           - zsum n (fun i => zsum t (ee i (aibar (Z.of_nat t) b (nth i (fst c) 0))))).
Proof. intros Hc Hs. destruct (keyswitch_phase c Hc) as (res & Hk & _ & Hp).
  exists res. split; [exact Hk|].
  set (E := zsum n (fun i => zsum t _)) in *.
  eapply eqm32_trans; [apply eqm32_sub; [exact Hp|apply phase_eqm]|].
  rewrite dot_as_zsum, Hc.
  set (R := zsum n (fun i => sin i * round_tb _ _ _)).
  replace (snd c - R - E - (snd c - zsum n (fun i => nth i (fst c) 0 * nth i inkey 0)))
    with ((zsum n (fun i => nth i (fst c) 0 * nth i inkey 0) - R) - E) by ring.
  apply eqm32_sub; [|apply eqm32_refl].
  unfold R. rewrite <- zsum_sub.
  (* pointwise: a_i s_i - s_i round(a_i) == s_i * round_err *)
  clear -V Hs. induction n as [|m IH]; cbn [zsum]; [apply eqm32_refl|].
  apply eqm32_add; [exact IH|]. rewrite <- Hs.
  replace (nth m (fst c) 0 * sin m - sin m * round_tb (Z.of_nat t) b (nth m (fst c) 0))
    with (sin m * (nth m (fst c) 0 - round_tb (Z.of_nat t) b (nth m (fst c) 0))) by ring.
  apply eqm32_mul; [apply eqm32_refl|]. apply (ks_round_error t b _ V). Qed.
End KS.

(* the flat index of ks[i][j][h] stays inside the n*t*base array *)
Theorem ks_index_in_range n t base i j h : (i < n)%nat -> (j < t)%nat -> 0 <= h < base ->
  0 <= ks_index (Z.of_nat t) base i j h < Z.of_nat n * Z.of_nat t * base.
Proof. intros Hi Hj Hh. unfold ks_index.
  assert (H1 : Z.of_nat t * Z.of_nat i + Z.of_nat j + 1 <= Z.of_nat n * Z.of_nat t) by nia.
  assert (H2 : 0 <= Z.of_nat t * Z.of_nat i + Z.of_nat j) by nia.
  set (q := Z.of_nat t * Z.of_nat i + Z.of_nat j) in *. nia. Qed.
