(* Proofs/Decrypt.v — C03: decryption inverts encryption.  The deterministic statement: a phase within
   2^31/M - 2 units of the encoding of mu decrypts to that encoding, for every M of C13's domain and every mu in [0,M). *)
From Coq Require Import ZArith Lia List Bool.
From TV Require Import Base.Int32 Model.Numeric Model.Lwe Model.Gates Model.Encrypt Proofs.Numeric Proofs.Lwe Proofs.Gates Proofs.Encrypt.
Import ListNotations.
Local Open Scope Z_scope.

Section Dec.
Variable M : Z.
Hypothesis D : inDomain M.

(* the unsigned 32-bit value of the encoding, and how close M times it is to mu * 2^32 *)
Definition encT (mu : Z) : Z := mu * (2 * (p63 / M)) / p32.
Lemma modSwitchTo_encT mu : 0 <= mu < M -> modSwitchTo mu M = w32 (encT mu) /\ 0 <= encT mu < p32.
Proof. intro Hmu. pose proof (goodM_range M (inDomain_good M D)) as HM. pose proof (Hq M HM). pose proof (Hr0 M HM). pose proof (Hqpos M HM). pose proof (Hqle M HM).
  unfold modSwitchTo. rewrite (interv_eq M HM).
  rewrite (u64_small mu) by (unfold p64, p31 in *; lia).
  assert (Hmuq : 0 <= mu * (p63 / M) <= (M - 1) * (p63 / M)).
  { split; [apply Z.mul_nonneg_nonneg; unfold p32 in *; lia|apply Zmult_le_compat_r; unfold p32 in *; lia]. }
  assert (Hmq : 0 <= mu * (p63 / M * 2) < p64) by (unfold p64, p63, p32 in *; lia).
  assert (Hmq2 : mu * (p63 / M * 2) < p32 * p32) by exact (proj2 Hmq).
  rewrite (u64_small _ Hmq). unfold encT. replace (2 * (p63 / M)) with (p63 / M * 2) by ring. split; [reflexivity|].
  split; [apply Z.div_pos; [lia|reflexivity]|]. apply Z.div_lt_upper_bound; [reflexivity|]. lia. Qed.

Lemma encT_close mu : 0 <= mu < M -> 0 <= mu * p32 - M * encT mu <= M.
Proof. intro Hmu. pose proof (goodM_range M (inDomain_good M D)) as HM. pose proof (Hq M HM) as Hq. pose proof (Hr0 M HM) as Hr0. destruct (inDomain_good M D) as (_ & Hsmall & _).
  set (q := p63 / M) in *. set (r0 := p63 mod M) in *.
  unfold encT. fold q. set (T := mu * (2 * q) / p32).
  assert (HT : T * p32 <= mu * (2 * q) < T * p32 + p32).
  { unfold T. pose proof (Z.div_mod (mu * (2 * q)) p32 ltac:(unfold p32; lia)).
    pose proof (Z.mod_pos_bound (mu * (2 * q)) p32 ltac:(reflexivity)). lia. }
  (* M*q = 2^63 - r0 *)
  assert (HMq : M * q = p63 - r0) by lia.
  assert (H1 : M * (T * p32) <= mu * (2 * (M * q))) by nia.
  assert (H2 : mu * (2 * (M * q)) < M * (T * p32) + M * p32) by nia.
  rewrite HMq in H1, H2.
  assert (Hmr : 0 <= 2 * mu * r0 < p32) by (unfold p32 in *; nia).
  change p63 with (p31 * p32) in H1, H2. unfold p31, p32 in *. split; nia. Qed.

Theorem modSwitchFrom_near mu e : 0 <= mu < M -> M * Z.abs e + M + 1 < p31 ->
  modSwitchFrom (w32 (modSwitchTo mu M + e)) M = mu.
Proof. intros Hmu He. pose proof (goodM_range M (inDomain_good M D)) as HM.
  destruct (modSwitchTo_encT mu Hmu) as [HE HT]. pose proof (encT_close mu Hmu) as Hc.
  set (T := encT mu) in *.
  destruct (modSwitchFrom_nearest (w32 (modSwitchTo mu M + e)) M D) as [Hk (r & Hr & Hn)].
  set (k := modSwitchFrom (w32 (modSwitchTo mu M + e)) M) in *.
  (* the unsigned phase *)
  assert (Hu : u32 (w32 (modSwitchTo mu M + e)) = (T + e) mod p32).
  { rewrite u32_w32. unfold u32. rewrite HE. apply eqm32_add; [apply w32_eqm|apply eqm32_refl]. }
  rewrite Hu in Hn. clear Hu.
  assert (Habs : Z.abs e * M < p31) by lia.
  assert (HeM : Z.abs e < p31) by (unfold p31 in *; nia).
  destruct (Z_lt_ge_dec (T + e) 0) as [Hneg|Hpos].
  - (* wrap below zero: mu = 0 and the nearest integer is M *)
    assert (Hmod : (T + e) mod p32 = T + e + p32).
    { rewrite <- (Z_mod_plus_full (T + e) 1 p32). rewrite Z.mod_small by (unfold p31, p32 in *; lia). ring. }
    rewrite Hmod in Hn.
    assert (HMT : M * T < p31) by (unfold p31 in *; nia).
    assert (Hmu0 : mu = 0) by (unfold p31, p32 in *; nia). subst mu.
    assert (Hr' : r = M).
    { assert (Z.abs (M * (T + e + p32) - M * p32) < p31) by (unfold p31, p32 in *; nia). unfold p31, p32 in *; nia. }
    destruct Hr as [Hr|[Hr _]]; [lia|exact Hr].
  - assert (HTe : T + e < p32).
    { assert (M * T <= (M - 1) * p32) by (unfold p32 in *; nia). unfold p31, p32 in *; nia. }
    rewrite Z.mod_small in Hn by lia.
    assert (Hr' : r = mu).
    { assert (Z.abs (M * (T + e) - mu * p32) < p31) by (unfold p31, p32 in *; nia). unfold p31, p32 in *; nia. }
    destruct Hr as [Hr|[_ Hr]]; lia. Qed.

Theorem approxPhase_near mu e : 0 <= mu < M -> M * Z.abs e + M + 1 < p31 ->
  approxPhase (w32 (modSwitchTo mu M + e)) M = modSwitchTo mu M.
Proof. intros Hmu He. rewrite (approxPhase_is_encode_of_switch _ M D). f_equal. now apply modSwitchFrom_near. Qed.

(* mu copies of the encoding of 1 are within mu units of the encoding of mu (exact when M is a power of two) *)
Lemma encT_scale mu : 0 <= mu < M -> 0 <= encT mu - mu * encT 1 <= mu.
Proof. intro Hmu. unfold encT. set (X := 2 * (p63 / M)). replace (1 * X) with X by ring.
  pose proof (Z.div_mod X p32 ltac:(unfold p32; lia)) as E. pose proof (Z.mod_pos_bound X p32 ltac:(reflexivity)) as Hr.
  set (a := X / p32) in *. set (r := X mod p32) in *.
  replace (mu * X) with (mu * r + (mu * a) * p32) by (rewrite E; ring).
  rewrite Z.div_add by (unfold p32; lia).
  assert (0 <= mu * r / p32 <= mu).
  { split; [apply Z.div_pos; [nia|reflexivity]|]. apply Z.div_le_upper_bound; [reflexivity|]. nia. }
  lia. Qed.
End Dec.

(* LWE: a ciphertext whose phase is the encoding plus an error below the threshold decrypts to the encoding *)
Theorem lwe_decrypt_correct M key c mu e : inDomain M -> 0 <= mu < M -> M * Z.abs e + M + 1 < p31 ->
  lwe_phase key c = w32 (modSwitchTo mu M + e) -> lwe_sym_decrypt key c M = modSwitchTo mu M.
Proof. intros D Hmu He Hp. unfold lwe_sym_decrypt. rewrite Hp. now apply approxPhase_near. Qed.

(* hence decrypt (encrypt) = message when the converted Gaussian draw is below the threshold *)
Theorem lwe_decrypt_encrypt M key mu ds c r : inDomain M -> 0 <= mu < M ->
  lwe_sym_encrypt key (modSwitchTo mu M) ds = Some (c, r) ->
  (forall g, In (DG (fst g) (snd g)) (firstn 1 ds) -> M * Z.abs (dtot32 (fst g) (snd g)) + M + 1 < p31) ->
  lwe_sym_decrypt key c M = modSwitchTo mu M.
Proof. intros D Hmu H Hg. destruct (lwe_sym_encrypt_spec _ _ _ _ _ H) as (g & mask & -> & _ & _ & Hp).
  apply (lwe_decrypt_correct M key c mu (dtot32 (fst g) (snd g)) D Hmu); [|exact Hp].
  apply Hg. cbn. now left. Qed.

Lemma inDomain_le M : inDomain M -> M <= 1073741824.
Proof. intros [H|(j & Hj & ->)]; [lia|]. change 1073741824 with (2^30). apply Z.pow_le_mono_r; lia. Qed.

(* noiseless trivial ciphertexts decrypt to (the rounding of) their message under every key *)
Theorem trivial_decrypts_under_every_key key n mu M : lwe_sym_decrypt key (lwe_trivial n mu) M = approxPhase (w32 mu) M.
Proof. unfold lwe_sym_decrypt. now rewrite phase_trivial. Qed.
Theorem trivial_message_decrypts key n mu M : inDomain M -> 0 <= mu < M ->
  lwe_sym_decrypt key (lwe_trivial n (modSwitchTo mu M)) M = modSwitchTo mu M.
Proof. intros D Hmu. rewrite trivial_decrypts_under_every_key.
  replace (w32 (modSwitchTo mu M)) with (w32 (modSwitchTo mu M + 0)) by (f_equal; ring).
  apply approxPhase_near; [assumption|assumption|]. pose proof (inDomain_le M D). unfold p31. cbn [Z.abs]. lia. Qed.

(* gate API: bit -> +-1/8 + e -> bit, for |e| < 1/8 *)
Theorem boots_roundtrip key bit ds c r : (bit = 0 \/ bit = 1) -> boots_sym_encrypt key bit ds = Some (c, r) ->
  (forall g, In (DG (fst g) (snd g)) (firstn 1 ds) -> Z.abs (dtot32 (fst g) (snd g)) < 536870912) ->
  decrypt_bit key c = bit.
Proof. intros Hb H Hg. destruct (lwe_sym_encrypt_spec _ _ _ _ _ H) as (g & mask & -> & _ & _ & Hp).
  specialize (Hg g ltac:(cbn; now left)). unfold decrypt_bit. rewrite Hp. unfold encode_bit. rewrite c18_val.
  unfold w32, p31, p32. destruct Hb as [-> | ->]; cbn [Z.eqb];
  match goal with |- (if 0 <? ?x then _ else _) = _ => destruct (Z.ltb_spec 0 x) end; lia. Qed.
