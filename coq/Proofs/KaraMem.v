(* Proofs/KaraMem.v — C16: the workspace of the Karatsuba products is large enough for every size, and for power-of-two
   sizes every index stays in range and no slot is read before it is written. *)
From Coq Require Import ZArith Lia List Bool.
From TV Require Import Base.Int32 Model.KaraMem.
Local Open Scope Z_scope.
Ltac Zify.zify_post_hook ::= Z.div_mod_to_equations.

Lemma some_inj {A} (a b : A) : Some a = Some b -> a = b. Proof. congruence. Qed.
Lemma kara_use_S f size : kara_use (S f) size =
  if size / 2 <=? 4 then Some 0 else match kara_use f (size / 2) with Some u => Some (4 * (size / 2) + 4 * (size / 2) + 4 * size + u) | None => None end.
Proof. reflexivity. Qed.
Lemma kara_hw_S f size : kara_hw (S f) size =
  if size / 2 <=? 4 then Some 0 else match kara_hw f (size / 2) with Some u => Some (4 * (size / 2) + 4 * (size / 2) + 4 * size + (if u =? 0 then -4 else u)) | None => None end.
Proof. reflexivity. Qed.
Lemma kara_ok_S f size : kara_ok (S f) size =
  if size / 2 <=? 4 then Some true else match kara_ok f (size / 2) with Some b => Some (level_in_range size && level_initialised size && b) | None => None end.
Proof. reflexivity. Qed.

(* the recursion terminates within log2(size)+1 levels *)
Lemma kara_use_total : forall f size, 0 <= size < 2 ^ Z.of_nat f -> kara_use (S f) size <> None.
Proof. induction f as [|f IH]; intros size Hs.
  - cbn [Z.of_nat] in Hs. assert (size = 0) by (cbn in Hs; lia). subst. cbn. discriminate.
  - rewrite kara_use_S. destruct (size / 2 <=? 4) eqn:E; [discriminate|].
    assert (Hh : 0 <= size / 2 < 2 ^ Z.of_nat f).
    { rewrite Nat2Z.inj_succ, Z.pow_succ_r in Hs by lia. set (p := 2 ^ Z.of_nat f) in *. clearbody p. lia. }
    specialize (IH (size / 2) Hh). destruct (kara_use (S f) (size / 2)); [discriminate|congruence]. Qed.

(* 16*size bytes are enough, for every size (not only powers of two) *)
Theorem kara_use_bound : forall f size u, 0 <= size -> kara_use f size = Some u -> 0 <= u <= 16 * size.
Proof. induction f as [|f IH]; intros size u Hs H; [discriminate|]. rewrite kara_use_S in H.
  destruct (size / 2 <=? 4) eqn:E.
  - apply some_inj in H; subst u. lia.
  - destruct (kara_use f (size / 2)) as [u'|] eqn:E'; [|discriminate]. apply some_inj in H; subst u.
    assert (Hh : 0 <= size / 2) by (apply Z.div_pos; lia).
    pose proof (IH (size / 2) u' Hh E'). lia. Qed.

Theorem kara_hw_le_use : forall f size u w, 0 <= size -> kara_use f size = Some u -> kara_hw f size = Some w -> 0 <= w <= u.
Proof. induction f as [|f IH]; intros size u w Hs Hu Hw; [discriminate|]. rewrite kara_use_S in Hu. rewrite kara_hw_S in Hw.
  destruct (size / 2 <=? 4) eqn:E.
  - apply some_inj in Hu; apply some_inj in Hw; subst u w. lia.
  - destruct (kara_use f (size / 2)) as [u'|] eqn:E1; [|discriminate]. destruct (kara_hw f (size / 2)) as [w'|] eqn:E2; [|discriminate].
    apply some_inj in Hu; apply some_inj in Hw; subst u w. assert (Hh : 0 <= size / 2) by (apply Z.div_pos; lia). pose proof (IH (size / 2) u' w' Hh E1 E2).
    apply Z.leb_gt in E. destruct (w' =? 0) eqn:E0; lia. Qed.

(* powers of two: every level is in range and reads only what was written *)
Theorem kara_ok_pow2 : forall f m, (m <= f)%nat -> kara_ok (S f) (2 ^ Z.of_nat m) = Some true.
Proof. induction f as [|f IH]; intros m Hm.
  - assert (m = 0)%nat by lia. subst. reflexivity.
  - rewrite kara_ok_S. destruct (2 ^ Z.of_nat m / 2 <=? 4) eqn:E; [reflexivity|].
    destruct m as [|m]; [cbn in E; discriminate|].
    assert (Eh : 2 ^ Z.of_nat (S m) / 2 = 2 ^ Z.of_nat m).
    { rewrite Nat2Z.inj_succ, Z.pow_succ_r by lia. rewrite Z.mul_comm, Z.div_mul by lia. reflexivity. }
    rewrite Eh in *. rewrite (IH m ltac:(lia)).
    assert (Hp : 0 < 2 ^ Z.of_nat m) by (apply Z.pow_pos_nonneg; lia).
    unfold level_in_range, level_initialised. rewrite Eh.
    rewrite Nat2Z.inj_succ, Z.pow_succ_r by lia.
    repeat (match goal with |- context [?a <? ?b] => destruct (Z.ltb_spec a b); [|lia] end).
    destruct (Z.leb_spec (2 * 2 ^ Z.of_nat m - 2) (2 * 2 ^ Z.of_nat m - 2)); [reflexivity|lia]. Qed.

(* an odd level above the recursion threshold reads a slot nobody wrote: N = 22 reaches size 11 *)
Theorem kara_ok_22_refuted : kara_ok 64 22 = Some false.
Proof. vm_compute. reflexivity. Qed.
