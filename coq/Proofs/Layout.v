(* Proofs/Layout.v — well-formedness of the layout function, for every list of members *)
From Coq Require Import ZArith Lia List Bool.
From TV Require Import Model.Layout.
Import ListNotations.
Local Open Scope Z_scope.

Lemma align_up_spec x a : 0 < a -> x <= align_up x a < x + a /\ (a | align_up x a).
Proof. intro Ha. unfold align_up. pose proof (Z.div_mod (x + a - 1) a ltac:(lia)).
  pose proof (Z.mod_pos_bound (x + a - 1) a Ha). split; [nia|]. exists ((x + a - 1) / a). reflexivity. Qed.

(* every member is aligned, members do not overlap and appear in declaration order *)
Theorem offsets_wf : forall fs cur, Forall (fun f => 0 < f_align f /\ 0 <= f_size f) fs -> 0 <= cur ->
  let os := offsets cur fs in
  length os = length fs /\
  (forall i f o, nth_error fs i = Some f -> nth_error os i = Some o -> (f_align f | o) /\ cur <= o) /\
  (forall i f o o', nth_error fs i = Some f -> nth_error os i = Some o -> nth_error os (S i) = Some o' -> o + f_size f <= o').
Proof. induction fs as [|f fs IH]; intros cur Hf Hc; cbn [offsets length].
  - repeat split; intros; destruct i; discriminate.
  - apply Forall_cons_iff in Hf as [[Ha Hs] Hf].
    destruct (align_up_spec cur (f_align f) Ha) as [[Hl Hu] Hd].
    destruct (IH (align_up cur (f_align f) + f_size f) Hf ltac:(lia)) as (L & A & O).
    split; [now rewrite L|]. split.
    + intros [|i] g o Hg Ho; cbn [nth_error] in *.
      * inversion Hg; inversion Ho; subst. split; [assumption|lia].
      * destruct (A i g o Hg Ho). split; [assumption|lia].
    + intros [|i] g o o' Hg Ho Ho'; cbn [nth_error] in *.
      * inversion Hg; inversion Ho; subst. destruct fs as [|f2 fs]; [cbn in Ho'; discriminate|].
        cbn [offsets nth_error] in Ho'. inversion Ho'; subst.
        apply Forall_cons_iff in Hf as [[Ha2 _] _]. destruct (align_up_spec (align_up cur (f_align g) + f_size g) (f_align f2) Ha2). lia.
      * eapply O; eassumption. Qed.

Theorem model_size_wf fs : Forall (fun f => 0 < f_align f /\ 0 <= f_size f) fs ->
  end_of 0 fs <= model_size fs /\ (max_align fs | model_size fs).
Proof. intro Hf. unfold model_size.
  assert (Hm : 0 < max_align fs).
  { unfold max_align. clear Hf. induction fs as [|f fs IH]; cbn [fold_right]; [lia|]. apply Z.max_lt_iff. right. exact IH. }
  destruct (align_up_spec (end_of 0 fs) (max_align fs) Hm) as [[H1 _] H2]. split; assumption. Qed.

(* equal member lists give equal layouts: the C++ view adds nothing to the C view *)
Theorem layout_deterministic fs1 fs2 : map f_size fs1 = map f_size fs2 -> map f_align fs1 = map f_align fs2 ->
  forall cur, offsets cur fs1 = offsets cur fs2.
Proof. revert fs2. induction fs1 as [|f fs1 IH]; intros [|g fs2] Hs Ha cur; cbn in *; try discriminate; [reflexivity|].
  inversion Hs; inversion Ha. rewrite H2, H0. f_equal. now apply IH. Qed.
