(* Proofs/Karatsuba.v — C11: the Karatsuba routine computes the plain product modulo 2^32 for every
   power-of-two size, and its reduction is the product of Z[X]/(X^N+1). *)
From Coq Require Import ZArith Lia List Bool Arith.
From TV Require Import Base.Int32 Base.Sums Ring.NegaRing Ring.PolyPlain Model.Lwe Model.Poly Proofs.Lwe Proofs.Poly.
Import ListNotations.
Local Open Scope Z_scope.

Definition eqmv (f g : vec) : Prop := forall i, eqm32 (f i) (g i).
Lemma eqmv_refl f : eqmv f f. Proof. intro; apply eqm32_refl. Qed.
Lemma eqmv_sym f g : eqmv f g -> eqmv g f. Proof. intros H i; apply eqm32_sym, H. Qed.
Lemma eqmv_trans f g h : eqmv f g -> eqmv g h -> eqmv f h. Proof. intros H1 H2 i; eapply eqm32_trans; [apply H1|apply H2]. Qed.
Lemma eqv_eqmv f g : eqv f g -> eqmv f g. Proof. intros H i. rewrite H. apply eqm32_refl. Qed.

Lemma zsum_eqm n F G : (forall j, (j < n)%nat -> eqm32 (F j) (G j)) -> eqm32 (zsum n F) (zsum n G).
Proof. induction n as [|n IH]; intro H; cbn [zsum]; [apply eqm32_refl|].
  apply eqm32_add; [apply IH; intros; apply H; lia|apply H; lia]. Qed.
Lemma conv_eqmv f f' g g' : eqmv f f' -> eqmv g g' -> eqmv (conv f g) (conv f' g').
Proof. intros Hf Hg i. unfold conv. apply zsum_eqm. intros j _. apply eqm32_mul; [apply Hf|apply Hg]. Qed.
Lemma vadd_eqmv f f' g g' : eqmv f f' -> eqmv g g' -> eqmv (vadd f g) (vadd f' g').
Proof. intros Hf Hg i. unfold vadd. apply eqm32_add; [apply Hf|apply Hg]. Qed.
Lemma vsub_eqmv f f' g g' : eqmv f f' -> eqmv g g' -> eqmv (vsub f g) (vsub f' g').
Proof. intros Hf Hg i. unfold vsub. apply eqm32_sub; [apply Hf|apply Hg]. Qed.
Lemma shiftf_eqmv h f g : eqmv f g -> eqmv (shiftf h f) (shiftf h g).
Proof. intros H i. unfold shiftf. destruct (i <? h)%nat; [apply eqm32_refl|apply H]. Qed.

(* ---- lists as coefficient functions ---- *)
Lemma ofl_nil i : ofl [] i = 0. Proof. unfold ofl. destruct i; reflexivity. Qed.
Lemma ofl_supp l : supp (length l) (ofl l).
Proof. intros i Hi. unfold ofl. now apply nth_overflow. Qed.
Lemma ofl_padd : forall u v, eqv (ofl (padd u v)) (vadd (ofl u) (ofl v)).
Proof. induction u as [|x u IH]; intros v i.
  - cbn [padd]. unfold vadd. rewrite ofl_nil. ring.
  - destruct v as [|y v]; cbn [padd].
    + unfold vadd. rewrite ofl_nil. ring.
    + unfold vadd, ofl in *. destruct i as [|i]; cbn [nth]; [reflexivity|]. apply IH. Qed.
Lemma padd_length : forall u v, length (padd u v) = Nat.max (length u) (length v).
Proof. induction u as [|x u IH]; intros v; [reflexivity|]. destruct v as [|y v]; [reflexivity|].
  cbn [padd length]. rewrite IH. lia. Qed.
Lemma ofl_map_mul x b : eqv (ofl (map (Z.mul x) b)) (vscale x (ofl b)).
Proof. intro i. unfold ofl, vscale. revert i. induction b as [|y b IH]; intros [|i]; cbn [map nth]; try ring. apply IH. Qed.
Lemma ofl_cons x l : eqv (ofl (x :: l)) (vadd (vscale x e0) (shiftf 1 (ofl l))).
Proof. intros [|i]; unfold ofl, vadd, vscale, e0, shiftf; cbn [nth Nat.ltb Nat.leb Nat.sub].
  - ring. - rewrite ?Nat.sub_0_r. ring. Qed.

Theorem ofl_plain_mul : forall a b, eqv (ofl (plain_mul a b)) (conv (ofl a) (ofl b)).
Proof. induction a as [|x a IH]; intros b i.
  - cbn [plain_mul]. rewrite ofl_nil. symmetry.
    rewrite (conv_ext (ofl []) vzero (ofl b) (ofl b) ltac:(intro k; apply ofl_nil) ltac:(intro; reflexivity) i).
    apply conv_zero_l.
  - cbn [plain_mul].
    set (T := match a with [] => [] | _ :: _ => 0 :: plain_mul a b end).
    assert (HT : ofl T i = shiftf 1 (conv (ofl a) (ofl b)) i).
    { unfold T. destruct a as [|y a'].
      - rewrite ofl_nil. unfold shiftf. destruct (i <? 1)%nat; [reflexivity|].
        symmetry. rewrite (conv_ext (ofl []) vzero (ofl b) (ofl b) ltac:(intro k; apply ofl_nil) ltac:(intro; reflexivity) _).
        apply conv_zero_l.
      - rewrite (ofl_cons 0 (plain_mul (y :: a') b) i). unfold vadd, vscale. rewrite Z.mul_0_l, Z.add_0_l.
        apply shiftf_ext. apply IH. }
    pose proof (ofl_padd (map (Z.mul x) b) T i) as E1.
    pose proof (conv_ext _ _ _ _ (ofl_cons x a) (fun k => eq_refl (ofl b k)) i) as E2.
    pose proof (conv_add_l (vscale x e0) (shiftf 1 (ofl a)) (ofl b) i) as E3.
    pose proof (conv_scale_l x e0 (ofl b) i) as E4.
    pose proof (conv_e0 (ofl b) i) as E5.
    pose proof (conv_shift_l 1 (ofl a) (ofl b) i) as E6.
    pose proof (ofl_map_mul x b i) as E7.
    rewrite E1, E2, E3. unfold vadd. rewrite E4, E6, E7. unfold vscale. rewrite E5, HT. reflexivity. Qed.

Lemma plain_mul_length : forall a b, a <> [] -> b <> [] -> length (plain_mul a b) = (length a + length b - 1)%nat.
Proof. induction a as [|x a IH]; intros b Ha Hb; [congruence|]. cbn [plain_mul].
  rewrite padd_length, map_length. destruct a as [|y a'].
  - cbn [length]. lia.
  - cbn [length]. rewrite IH by (try discriminate; assumption). cbn [length]. destruct b; [congruence|cbn [length]; lia]. Qed.

Lemma ofl_map_w32 l : eqmv (ofl (map w32 l)) (ofl l).
Proof. intro i. unfold ofl. revert i. induction l as [|x l IH]; intros [|i]; cbn [map nth]; try apply eqm32_refl.
  - apply w32_eqm. - apply IH. Qed.

Lemma ofl_zipw_add r s : length r = length s -> eqmv (ofl (zipw Z.add r s)) (vadd (ofl r) (ofl s)).
Proof. intros Hl i. unfold vadd. destruct (Nat.lt_ge_cases i (length r)) as [Hi|Hi].
  - unfold ofl. rewrite nth_zipw by assumption. apply w32_eqm.
  - rewrite (ofl_supp _ i) by (rewrite zipw_length; assumption).
    rewrite (ofl_supp r i), (ofl_supp s i) by lia. apply eqm32_refl. Qed.
Lemma ofl_zipw_sub r s : length r = length s -> eqmv (ofl (zipw Z.sub r s)) (vsub (ofl r) (ofl s)).
Proof. intros Hl i. unfold vsub. destruct (Nat.lt_ge_cases i (length r)) as [Hi|Hi].
  - unfold ofl. rewrite nth_zipw by assumption. apply w32_eqm.
  - rewrite (ofl_supp _ i) by (rewrite zipw_length; assumption).
    rewrite (ofl_supp r i), (ofl_supp s i) by lia. apply eqm32_refl. Qed.

Lemma ofl_app u v : eqv (ofl (u ++ v)) (vadd (ofl u) (shiftf (length u) (ofl v))).
Proof. intro i. unfold vadd, shiftf, ofl. destruct (Nat.ltb_spec i (length u)).
  - rewrite app_nth1 by assumption. ring.
  - rewrite app_nth2 by assumption. rewrite (nth_overflow u) by assumption. ring. Qed.

Lemma ofl_firstn h A : eqv (ofl (firstn h A)) (lowf h (ofl A)).
Proof. intro i. unfold lowf, ofl. destruct (Nat.ltb_spec i h).
  - revert i h H. induction A as [|x A IH]; intros i h H; [destruct h, i; reflexivity|].
    destruct h; [lia|]. destruct i; [reflexivity|]. cbn [firstn nth]. apply IH. lia.
  - apply nth_overflow. rewrite firstn_length. lia. Qed.
Lemma ofl_skipn h A : eqv (ofl (skipn h A)) (highf h (ofl A)).
Proof. intro i. unfold highf, ofl. revert h. induction A as [|x A IH]; intros h.
  - rewrite skipn_nil. destruct i, (h + 0)%nat, h; cbn; try reflexivity; destruct (h + S i)%nat; reflexivity.
  - destruct h; [reflexivity|]. cbn [skipn Nat.add nth]. apply IH. Qed.

Lemma zipw_pref_spec : forall r m, (length m <= length r)%nat ->
  length (zipw_pref r m) = length r /\ eqmv (ofl (zipw_pref r m)) (vadd (ofl r) (ofl m)).
Proof. induction r as [|x r IH]; intros m Hl.
  - destruct m; [|cbn in Hl; lia]. cbn. split; [reflexivity|]. intro i. unfold vadd. rewrite !ofl_nil. apply eqm32_refl.
  - destruct m as [|y m]; cbn [zipw_pref].
    + split; [reflexivity|]. intro i. unfold vadd. rewrite ofl_nil, Z.add_0_r. apply eqm32_refl.
    + cbn [length] in *. destruct (IH m ltac:(lia)) as [H1 H2]. split; [lia|].
      intros [|i]; unfold vadd, ofl in *; cbn [nth]; [apply w32_eqm|apply H2]. Qed.

Lemma add_at_spec : forall h r m, (h + length m <= length r)%nat ->
  length (add_at h r m) = length r /\ eqmv (ofl (add_at h r m)) (vadd (ofl r) (shiftf h (ofl m))).
Proof. induction h as [|h IH]; intros r m Hl.
  - destruct r; cbn [add_at].
    + destruct (zipw_pref_spec [] m ltac:(lia)) as [H1 H2]. split; [exact H1|].
      eapply eqmv_trans; [exact H2|]. apply vadd_eqmv; [apply eqmv_refl|]. intro i. unfold shiftf. cbn. rewrite Nat.sub_0_r. apply eqm32_refl.
    + destruct (zipw_pref_spec (z :: r) m ltac:(lia)) as [H1 H2]. split; [exact H1|].
      eapply eqmv_trans; [exact H2|]. apply vadd_eqmv; [apply eqmv_refl|]. intro i. unfold shiftf. cbn. rewrite Nat.sub_0_r. apply eqm32_refl.
  - destruct r as [|x r]; [cbn in Hl; lia|]. cbn [add_at length] in *.
    destruct (IH r m ltac:(lia)) as [H1 H2]. split; [lia|].
    intros [|i]; unfold vadd, shiftf, ofl in *; cbn [nth].
    + destruct (0 <? S h)%nat eqn:E; [rewrite Z.add_0_r; apply eqm32_refl|apply Nat.ltb_ge in E; lia].
    + specialize (H2 i). cbn [Nat.sub]. change (S i <? S h)%nat with (i <? h)%nat. exact H2. Qed.

(* ---- main theorem: for size = 2^m the routine computes the plain product mod 2^32 ---- *)
Theorem karatsuba_is_conv : forall fuel m A B, length A = (2 ^ m)%nat -> length B = (2 ^ m)%nat ->
  length (karatsuba fuel A B) = (2 * 2 ^ m - 1)%nat /\
  eqmv (ofl (karatsuba fuel A B)) (conv (ofl A) (ofl B)).
Proof.
  assert (Hleaf : forall A B, A <> [] -> B <> [] ->
     length (map w32 (plain_mul A B)) = (length A + length B - 1)%nat /\
     eqmv (ofl (map w32 (plain_mul A B))) (conv (ofl A) (ofl B))).
  { intros A B HA HB. split; [rewrite map_length; now apply plain_mul_length|].
    eapply eqmv_trans; [apply ofl_map_w32|]. apply eqv_eqmv, ofl_plain_mul. }
  assert (Hpow : forall m, (0 < 2 ^ m)%nat) by (intro m; induction m; cbn; lia).
  induction fuel as [|fuel IH]; intros m A B HA HB.
  - cbn [karatsuba]. destruct (Hleaf A B) as [H1 H2];
      [intro E; rewrite E in HA; cbn in HA; pose proof (Hpow m); lia|intro E; rewrite E in HB; cbn in HB; pose proof (Hpow m); lia|].
    split; [rewrite H1; lia|exact H2].
  - cbn [karatsuba]. destruct (Nat.leb_spec (length A / 2) 4) as [Hh|Hh].
    + destruct (Hleaf A B) as [H1 H2];
        [intro E; rewrite E in HA; cbn in HA; pose proof (Hpow m); lia|intro E; rewrite E in HB; cbn in HB; pose proof (Hpow m); lia|].
      split; [rewrite H1; lia|exact H2].
    + (* recursive case: size = 2h, h = 2^(m-1) *)
      destruct m as [|m']; [rewrite HA in Hh; cbn in Hh; lia|].
      set (h := (length A / 2)%nat) in *.
      assert (Hh2 : h = (2 ^ m')%nat).
      { unfold h. rewrite HA. cbn [Nat.pow]. rewrite Nat.mul_comm, Nat.div_mul; lia. }
      assert (HA2 : length A = (h + h)%nat) by (rewrite HA, Hh2; cbn [Nat.pow]; lia).
      assert (HB2 : length B = (h + h)%nat) by (rewrite HB, Hh2; cbn [Nat.pow]; lia).
      set (A0 := firstn h A). set (A1 := firstn h (skipn h A)).
      set (B0 := firstn h B). set (B1 := firstn h (skipn h B)).
      assert (LA0 : length A0 = h) by (unfold A0; rewrite firstn_length; lia).
      assert (LB0 : length B0 = h) by (unfold B0; rewrite firstn_length; lia).
      assert (LA1 : length A1 = h) by (unfold A1; rewrite firstn_length, skipn_length; lia).
      assert (LB1 : length B1 = h) by (unfold B1; rewrite firstn_length, skipn_length; lia).
      assert (EA1 : A1 = skipn h A) by (unfold A1; apply firstn_all2; rewrite skipn_length; lia).
      assert (EB1 : B1 = skipn h B) by (unfold B1; apply firstn_all2; rewrite skipn_length; lia).
      destruct (IH m' A0 B0 ltac:(lia) ltac:(lia)) as [L0 E0].
      destruct (IH m' A1 B1 ltac:(lia) ltac:(lia)) as [L2 E2].
      assert (LSA : length (zipw Z.add A0 A1) = (2 ^ m')%nat) by (rewrite zipw_length; lia).
      assert (LSB : length (zipw Z.add B0 B1) = (2 ^ m')%nat) by (rewrite zipw_length; lia).
      destruct (IH m' (zipw Z.add A0 A1) (zipw Z.add B0 B1) LSA LSB) as [L1 E1].
      set (P0 := karatsuba fuel A0 B0) in *. set (P2 := karatsuba fuel A1 B1) in *.
      set (P1 := karatsuba fuel (zipw Z.add A0 A1) (zipw Z.add B0 B1)) in *.
      rewrite <- Hh2 in L0, L1, L2.
      set (R := P0 ++ [0] ++ P2). set (M := zipw Z.sub P1 (zipw Z.add P0 P2)).
      assert (LR : length R = (4 * h - 1)%nat) by (unfold R; rewrite !app_length; cbn [length]; lia).
      assert (L02 : length (zipw Z.add P0 P2) = (2 * h - 1)%nat) by (rewrite zipw_length; lia).
      assert (LM : length M = (2 * h - 1)%nat) by (unfold M; rewrite zipw_length; lia).
      destruct (add_at_spec h R M ltac:(lia)) as [LF EF].
      split; [rewrite LF, LR; cbn [Nat.pow]; lia|].
      eapply eqmv_trans; [exact EF|].
      (* R = P0 + X^(2h) P2 ; M = P1 - (P0 + P2) *)
      assert (ER : eqmv (ofl R) (vadd (conv (ofl A0) (ofl B0)) (shiftf (h + h) (conv (ofl A1) (ofl B1))))).
      { intro i. unfold R. rewrite (ofl_app P0 ([0] ++ P2) i). unfold vadd.
        apply eqm32_add; [apply E0|]. rewrite L0.
        unfold shiftf. destruct (Nat.ltb_spec i (2 * h - 1)), (Nat.ltb_spec i (h + h)); try lia; try apply eqm32_refl.
        - (* i = 2h-1 : the manually cleared cell *)
          replace (i - (2 * h - 1))%nat with 0%nat by lia. apply eqm32_refl.
        - replace (i - (2 * h - 1))%nat with (S (i - (h + h))) by lia.
          change (ofl ([0] ++ P2) (S (i - (h + h)))) with (ofl P2 (i - (h + h))%nat). apply E2. }
      assert (EM : eqmv (ofl M) (vadd (conv (ofl A0) (ofl B1)) (conv (ofl A1) (ofl B0)))).
      { eapply eqmv_trans; [apply ofl_zipw_sub; lia|].
        eapply eqmv_trans; [apply vsub_eqmv; [exact E1|apply ofl_zipw_add; lia]|].
        eapply eqmv_trans; [apply vsub_eqmv; [apply conv_eqmv; apply ofl_zipw_add; lia|apply vadd_eqmv; [exact E0|exact E2]]|].
        intro i. pose proof (karatsuba_middle (ofl A0) (ofl A1) (ofl B0) (ofl B1) i) as K.
        unfold vsub, vadd in *. rewrite <- K. apply eqm32_iff_divide. exists 0. ring. }
      eapply eqmv_trans; [apply vadd_eqmv; [exact ER|apply shiftf_eqmv; exact EM]|].
      (* the four-quadrant expansion of conv A B *)
      apply eqv_eqmv. intro i.
      pose proof (conv_ext _ _ _ _ (split_at_h h (ofl A)) (split_at_h h (ofl B)) i) as S1.
      pose proof (conv_split h (lowf h (ofl A)) (highf h (ofl A)) (lowf h (ofl B)) (highf h (ofl B)) i) as S2.
      rewrite S1, S2. clear S1 S2.
      assert (X0 : eqv (ofl A0) (lowf h (ofl A))) by apply ofl_firstn.
      assert (Y0 : eqv (ofl B0) (lowf h (ofl B))) by apply ofl_firstn.
      assert (X1 : eqv (ofl A1) (highf h (ofl A))) by (rewrite EA1; apply ofl_skipn).
      assert (Y1 : eqv (ofl B1) (highf h (ofl B))) by (rewrite EB1; apply ofl_skipn).
      unfold vadd.
      rewrite (conv_ext _ _ _ _ X0 Y0 i).
      rewrite (shiftf_ext (h + h) _ _ (conv_ext _ _ _ _ X1 Y1) i).
      rewrite (shiftf_ext h _ _ (fun k => f_equal2 Z.add (conv_ext _ _ _ _ X0 Y1 k) (conv_ext _ _ _ _ X1 Y0 k)) i).
      ring.
Qed.

(* ---- reduction modulo X^N+1 and the final statement ---- *)
Lemma nth_skipn_app0 N (R : list Z) i : length R = (2 * N - 1)%nat -> (i < N)%nat ->
  nth i (skipn N R ++ [0]) 0 = ofl R (N + i)%nat.
Proof. intros HL Hi. unfold ofl. destruct (Nat.lt_ge_cases i (N - 1)) as [H|H].
  - rewrite app_nth1 by (rewrite skipn_length; lia). apply (ofl_skipn N R i).
  - rewrite app_nth2 by (rewrite skipn_length; lia). rewrite skipn_length.
    replace (i - (length R - N))%nat with 0%nat by lia. cbn [nth]. symmetry. apply nth_overflow. lia. Qed.

Theorem karatsuba_is_mul m a b i : length a = (2 ^ m)%nat -> length b = (2 ^ m)%nat -> (i < 2 ^ m)%nat ->
  eqm32 (nth i (poly_mul_karatsuba a b) 0) (mul (2 ^ m) a b i).
Proof. intros Ha Hb Hi. set (N := (2 ^ m)%nat) in *.
  assert (HN : (0 < N)%nat) by lia.
  unfold poly_mul_karatsuba. rewrite Ha. fold N.
  destruct (karatsuba_is_conv N m a b Ha Hb) as [LR ER]. fold N in LR.
  set (R := karatsuba N a b) in *. unfold reduce.
  rewrite nth_zipw; [|rewrite firstn_length; lia|rewrite firstn_length, app_length, skipn_length; cbn [length]; lia].
  eapply eqm32_trans; [apply w32_eqm|].
  rewrite nth_skipn_app0 by assumption.
  pose proof (ofl_firstn N R i) as F. unfold ofl at 1 in F. rewrite F. unfold lowf.
  destruct (Nat.ltb_spec i N); [|lia].
  rewrite (mul_is_negaconv N HN a b ltac:(lia) i Hi).
  rewrite (negaconv_is_reduced_conv N HN (ofl a) (ofl b) i); [|rewrite <- Ha; apply ofl_supp|rewrite <- Hb; apply ofl_supp|exact Hi].
  apply eqm32_sub; apply ER. Qed.

(* consequently Karatsuba and the schoolbook routine agree coefficient for coefficient *)
Corollary karatsuba_agrees_with_naive m a b i : length a = (2 ^ m)%nat -> length b = (2 ^ m)%nat -> (i < 2 ^ m)%nat ->
  Forall is_i32 (poly_mul_karatsuba a b) ->
  nth i (poly_mul_karatsuba a b) 0 = nth i (poly_mul a b) 0.
Proof. intros Ha Hb Hi Hr.
  rewrite (Proofs.Poly.poly_mul_is_ring_mul a b i) by lia. rewrite Ha.
  rewrite <- (w32_id (nth i (poly_mul_karatsuba a b) 0)).
  - apply eqm32_w32. now apply karatsuba_is_mul.
  - rewrite Forall_forall in Hr. destruct (Nat.lt_ge_cases i (length (poly_mul_karatsuba a b))).
    + apply Hr. now apply nth_In.
    + rewrite nth_overflow by assumption. unfold is_i32, p31. lia. Qed.

(* odd sizes: the routine drops the last coefficient of each operand (size 2h+1 is split h / h) —
   sizes whose halving chain meets an odd number above 9 are outside the property (N a power of two) *)
Theorem karatsuba_odd_refuted :
  let a := repeat 1 11 in nth 10 (poly_mul_karatsuba a a) 0 <> nth 10 (poly_mul a a) 0.
Proof. vm_compute. discriminate. Qed.
