(* Proofs/Netlist.v — C02 (deterministic part): for every netlist — any length, depth, sharing and in-place
   pattern — if every bootstrapped gate's own drift and fresh error satisfy the per-gate bounds, every wire holds
   its plaintext bit with phase error below 3/64 at every step.  Wires hold phases; a bootstrapped gate maps the
   sign of (its affine combination + drift) to +-1/8 and adds its own fresh error: there is no additive
   input-error term (C04), NOT negates, COPY copies, CONSTANT is exact. *)
From Coq Require Import ZArith Lia List Bool ZifyBool.
From TV Require Import Base.Int32 Model.Numeric Model.Lwe Model.Gates Proofs.Gates.
Import ListNotations.
Local Open Scope Z_scope.
Ltac Zify.zify_post_hook ::= Z.div_mod_to_equations.

Definition B364 : Z := 201326592.                     (* 3/64 of the torus *)
Definition enc (b : bool) : Z := if b then MU else - MU.
Definition boot (x : Z) : Z := if 0 <=? w32 x then MU else - MU.
(* drift allowed for a gate whose inputs carry up to 3/64 of error: 1/32 (AND/OR family), 1/16 (XOR/XNOR) *)
Definition drift_margin (g : gate2) : Z := match g with XOR | XNOR => 268435456 | _ => 134217728 end.

Record gnoise := { d1 : Z; d2 : Z; eo : Z }.

Definition exec_phase (st : list Z) (i : instr) (z : gnoise) : list Z :=
  match i with
  | I2 g d a b => set_nth d (boot (w32 (gate_const g + gate_ca g * nth a st 0 + gate_cb g * nth b st 0) + d1 z) + eo z) st
  | INot d a => set_nth d (w32 (- nth a st 0)) st
  | ICopy d a => set_nth d (nth a st 0) st
  | IConst d v => set_nth d (enc v) st
  | IMux d a b c =>
      let u1 := boot (w32 (cm18 + nth a st 0 + nth b st 0) + d1 z) in
      let u2 := boot (w32 (cm18 - nth a st 0 + nth c st 0) + d2 z) in
      set_nth d (w32 (c18 + u1 + u2) + eo z) st
  end.
Fixpoint eval_phase (prog : list instr) (zs : list gnoise) (st : list Z) : list Z :=
  match prog, zs with
  | i :: prog', z :: zs' => eval_phase prog' zs' (exec_phase st i z)
  | _, _ => st
  end.

Definition noise_ok (i : instr) (z : gnoise) : Prop :=
  match i with
  | I2 g _ _ _ => Z.abs (d1 z) < drift_margin g /\ Z.abs (eo z) < B364
  | IMux _ _ _ _ => Z.abs (d1 z) < 134217728 /\ Z.abs (d2 z) < 134217728 /\ Z.abs (eo z) < B364
  | _ => True
  end.
Definition wires_ok (n : nat) (i : instr) : Prop :=
  match i with
  | I2 _ d a b => (d < n /\ a < n /\ b < n)%nat
  | INot d a | ICopy d a => (d < n /\ a < n)%nat
  | IConst d _ => (d < n)%nat
  | IMux d a b c => (d < n /\ a < n /\ b < n /\ c < n)%nat
  end.

Definition near (phi : Z) (b : bool) : Prop := Z.abs (phi - enc b) < B364.
Definition Inv (st : list Z) (bits : list bool) : Prop :=
  length st = length bits /\ forall w, (w < length st)%nat -> near (nth w st 0) (nth w bits false).

Lemma set_nth_length {A} (x : A) : forall n l, length (set_nth n x l) = length l.
Proof. induction n as [|n IH]; intros [|y l]; cbn; try reflexivity. now rewrite IH. Qed.
Lemma nth_set_nth {A} (x dflt : A) : forall n l w, (n < length l)%nat ->
  nth w (set_nth n x l) dflt = if Nat.eqb w n then x else nth w l dflt.
Proof. induction n as [|n IH]; intros [|y l] w H; cbn [length] in H; try lia.
  - destruct w; reflexivity.
  - destruct w as [|w]; [reflexivity|]. cbn [set_nth nth]. rewrite IH by lia. reflexivity. Qed.

Lemma Inv_set st bits d phi b : Inv st bits -> (d < length st)%nat -> near phi b -> Inv (set_nth d phi st) (set_nth d b bits).
Proof. intros [Hl H] Hd Hn. split; [now rewrite !set_nth_length|].
  intros w Hw. rewrite set_nth_length in Hw. rewrite !nth_set_nth by lia.
  destruct (Nat.eqb w d); [exact Hn|apply H, Hw]. Qed.

(* a two-input bootstrapped gate: inputs within 3/64, drift within the margin -> the table value, exactly +-1/8 *)
Lemma boot_gate g phia phib a b d : near phia a -> near phib b -> Z.abs d < drift_margin g ->
  boot (w32 (gate_const g + gate_ca g * phia + gate_cb g * phib) + d) = enc (gate_table g a b).
Proof. unfold near, enc, boot, B364. rewrite MU_val. intros Ha Hb Hd.
  destruct g; cbn [gate_const gate_ca gate_cb drift_margin gate_table] in *;
  rewrite ?c18_val, ?cm18_val, ?c14_val, ?cm14_val; unfold w32, p31, p32;
  destruct a; destruct b; cbn [andb orb xorb negb];
  match goal with |- (if ?c then _ else _) = _ => destruct c eqn:E end; try reflexivity; exfalso; lia. Qed.

Lemma boot_mux1 phia phib a b d : near phia a -> near phib b -> Z.abs d < 134217728 ->
  boot (w32 (cm18 + phia + phib) + d) = enc (a && b).
Proof. unfold near, enc, boot, B364. rewrite MU_val, cm18_val. intros Ha Hb Hd. unfold w32, p31, p32.
  destruct a; destruct b; cbn [andb];
  match goal with |- (if ?c then _ else _) = _ => destruct c eqn:E end; try reflexivity; exfalso; lia. Qed.
Lemma boot_mux2 phia phic a c d : near phia a -> near phic c -> Z.abs d < 134217728 ->
  boot (w32 (cm18 - phia + phic) + d) = enc (negb a && c).
Proof. unfold near, enc, boot, B364. rewrite MU_val, cm18_val. intros Ha Hc Hd. unfold w32, p31, p32.
  destruct a; destruct c; cbn [andb negb];
  match goal with |- (if ?c then _ else _) = _ => destruct c eqn:E end; try reflexivity; exfalso; lia. Qed.
Lemma mux_out (a b c : bool) : w32 (c18 + enc (a && b) + enc (negb a && c)) = enc (if a then b else c).
Proof. unfold enc. rewrite MU_val, c18_val. destruct a; destruct b; destruct c; reflexivity. Qed.

Lemma near_fresh b e : Z.abs e < B364 -> near (enc b + e) b.
Proof. unfold near. intro. replace (enc b + e - enc b) with e by ring. assumption. Qed.
Lemma near_not phi b : near phi b -> near (w32 (- phi)) (negb b).
Proof. unfold near, enc, B364. rewrite MU_val. unfold w32, p31, p32. destruct b; cbn [negb]; lia. Qed.

Theorem step_inv st bits i z : Inv st bits -> wires_ok (length st) i -> noise_ok i z ->
  Inv (exec_phase st i z) (exec_plain bits i).
Proof. intros HI Hw Hz. pose proof HI as [Hl Hn]. destruct i as [g d a b|d a|d a|d v|d a b c]; cbn [exec_phase exec_plain wires_ok noise_ok] in *.
  - destruct Hw as (Hd & Ha & Hb). destruct Hz as (Hz1 & Hz2). apply Inv_set; [exact HI|exact Hd|].
    rewrite (boot_gate g _ _ (nth a bits false) (nth b bits false) (d1 z)); [apply near_fresh, Hz2|apply Hn, Ha|apply Hn, Hb|exact Hz1].
  - destruct Hw as (Hd & Ha). apply Inv_set; [exact HI|exact Hd|]. apply near_not, Hn, Ha.
  - destruct Hw as (Hd & Ha). apply Inv_set; [exact HI|exact Hd|]. apply Hn, Ha.
  - apply Inv_set; [exact HI|exact Hw|]. unfold near. rewrite Z.sub_diag. cbn. unfold B364. lia.
  - destruct Hw as (Hd & Ha & Hb & Hc). destruct Hz as (Hz1 & Hz2 & Hz3). apply Inv_set; [exact HI|exact Hd|]. cbv zeta.
    rewrite (boot_mux1 _ _ (nth a bits false) (nth b bits false)) by (try apply Hn; assumption).
    rewrite (boot_mux2 _ _ (nth a bits false) (nth c bits false)) by (try apply Hn; assumption).
    rewrite mux_out. apply near_fresh, Hz3. Qed.

Lemma exec_phase_length st i z : length (exec_phase st i z) = length st.
Proof. destruct i; cbn [exec_phase]; cbv zeta; apply set_nth_length. Qed.

(* every reachable state of every netlist *)
Theorem netlist_invariant : forall prog zs st bits, Inv st bits -> length zs = length prog ->
  Forall (wires_ok (length st)) prog -> Forall2 noise_ok prog zs ->
  Inv (eval_phase prog zs st) (eval_plain prog bits).
Proof. induction prog as [|i prog IH]; intros zs st bits HI Hlen Hw Hz.
  - destruct zs; exact HI.
  - destruct zs as [|z zs]; [cbn in Hlen; lia|]. cbn [eval_phase eval_plain fold_left].
    apply Forall_cons_iff in Hw as [Hw0 Hw']. inversion Hz as [|? ? ? ? Hz0 Hz']; subst.
    apply IH; [now apply step_inv| cbn in Hlen; lia | rewrite exec_phase_length; exact Hw' | exact Hz']. Qed.

(* hence every wire decrypts to the plaintext evaluation *)
Theorem netlist_correct prog zs st bits w : Inv st bits -> length zs = length prog ->
  Forall (wires_ok (length st)) prog -> Forall2 noise_ok prog zs -> (w < length st)%nat ->
  (0 <? nth w (eval_phase prog zs st) 0) = nth w (eval_plain prog bits) false.
Proof. intros HI Hlen Hw Hz Hlt. destruct (netlist_invariant prog zs st bits HI Hlen Hw Hz) as [Hl Hn].
  assert (Hlen' : length (eval_phase prog zs st) = length st).
  { clear -Hlen. revert zs st Hlen. induction prog as [|i prog IH]; intros [|z zs] st H; cbn in *; try reflexivity; try lia.
    rewrite IH by lia. apply exec_phase_length. }
  specialize (Hn w ltac:(lia)). unfold near, enc, B364 in Hn. rewrite MU_val in Hn.
  destruct (nth w (eval_plain prog bits) false); destruct (Z.ltb_spec 0 (nth w (eval_phase prog zs st) 0)); try reflexivity; lia. Qed.

(* errors do not accumulate along NOT/COPY chains: the error of NOT is exactly the negated input error *)
Theorem not_error_exact phi b : near phi b -> w32 (- phi) - enc (negb b) = - (phi - enc b).
Proof. unfold near, enc, B364. rewrite MU_val. unfold w32, p31, p32. destruct b; cbn [negb]; lia. Qed.
