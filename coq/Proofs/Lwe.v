(* Proofs/Lwe.v — C14 (LWE part): linear operations act exactly linearly on phases, every n. *)
From Coq Require Import ZArith Lia List Bool.
From TV Require Import Base.Int32 Model.Lwe.
Import ListNotations.
Local Open Scope Z_scope.

(* specification-level inner product over Z *)
Fixpoint dot (a k : list Z) : Z :=
  match a, k with x :: a', y :: k' => x * y + dot a' k' | _, _ => 0 end.

Lemma dot_impl_gen a : forall k acc,
  eqm32 (fold_left (fun axs xy => w32 (axs + w32 (fst xy * snd xy))) (combine a k) acc) (acc + dot a k).
Proof. induction a as [|x a IH]; intros k acc; cbn [combine fold_left dot].
  - rewrite Z.add_0_r. apply eqm32_refl.
  - destruct k as [|y k]; cbn [combine fold_left dot]; [rewrite Z.add_0_r; apply eqm32_refl|].
    eapply eqm32_trans; [apply IH|]. cbn [fst snd].
    replace (acc + (x * y + dot a k)) with ((acc + x * y) + dot a k) by ring.
    apply eqm32_add; [|apply eqm32_refl]. eapply eqm32_trans; [apply w32_eqm|].
    apply eqm32_add; [apply eqm32_refl|apply w32_eqm]. Qed.

Lemma dot_impl_eqm a k : eqm32 (dot_impl a k) (dot a k).
Proof. unfold dot_impl. eapply eqm32_trans; [apply dot_impl_gen|]. rewrite Z.add_0_l. apply eqm32_refl. Qed.

(* the phase as the C code computes it equals b - <a,s> reduced to int32 *)
Theorem lwe_phase_spec key c : lwe_phase key c = w32 (snd c - dot (fst c) key).
Proof. unfold lwe_phase. apply eqm32_w32. apply eqm32_sub; [apply eqm32_refl|apply dot_impl_eqm]. Qed.

Lemma phase_eqm key c : eqm32 (lwe_phase key c) (snd c - dot (fst c) key).
Proof. rewrite lwe_phase_spec. apply w32_eqm. Qed.

(* element-wise loops are linear in the inner product *)
Lemma dot_zipw f al be : (forall x y, eqm32 (f x y) (al * x + be * y)) ->
  forall r s k, length r = length s -> eqm32 (dot (zipw f r s) k) (al * dot r k + be * dot s k).
Proof. intros Hf. induction r as [|x r IH]; intros s k Hl; destruct s as [|y s]; cbn [length] in Hl; try lia.
  - cbn. rewrite !Z.mul_0_r. apply eqm32_refl.
  - unfold zipw. cbn [combine map fst snd]. fold (zipw f r s).
    destruct k as [|z k]; cbn [dot]; [rewrite !Z.mul_0_r; apply eqm32_refl|].
    replace (al * (x * z + dot r k) + be * (y * z + dot s k)) with ((al * x + be * y) * z + (al * dot r k + be * dot s k)) by ring.
    apply eqm32_add; [|apply IH; lia].
    apply eqm32_mul; [|apply eqm32_refl]. eapply eqm32_trans; [apply w32_eqm|apply Hf]. Qed.

Section Linear.
Variable key : list Z.
Variables c1 c2 : sample.
Hypothesis Hlen : length (fst c1) = length (fst c2).

Lemma lin_phase f al be res :
  (forall x y, eqm32 (f x y) (al * x + be * y)) ->
  fst res = zipw f (fst c1) (fst c2) -> eqm32 (snd res) (al * snd c1 + be * snd c2) ->
  lwe_phase key res = w32 (al * lwe_phase key c1 + be * lwe_phase key c2).
Proof. intros Hf Ha Hb. rewrite lwe_phase_spec. apply eqm32_w32.
  rewrite Ha.
  eapply eqm32_trans; [apply eqm32_sub; [exact Hb|apply (dot_zipw f al be Hf); exact Hlen]|].
  replace (al * snd c1 + be * snd c2 - (al * dot (fst c1) key + be * dot (fst c2) key))
    with (al * (snd c1 - dot (fst c1) key) + be * (snd c2 - dot (fst c2) key)) by ring.
  apply eqm32_add; (apply eqm32_mul; [apply eqm32_refl|apply eqm32_sym, phase_eqm]). Qed.

Theorem phase_add : lwe_phase key (lwe_add c1 c2) = w32 (lwe_phase key c1 + lwe_phase key c2).
Proof. rewrite (lin_phase Z.add 1 1); [f_equal; ring| | reflexivity |].
  - intros; replace (1*x+1*y) with (x+y) by ring; apply eqm32_refl.
  - cbn [lwe_add snd]. replace (1 * snd c1 + 1 * snd c2) with (snd c1 + snd c2) by ring. apply w32_eqm. Qed.

Theorem phase_sub : lwe_phase key (lwe_sub c1 c2) = w32 (lwe_phase key c1 - lwe_phase key c2).
Proof. rewrite (lin_phase Z.sub 1 (-1)); [f_equal; ring| | reflexivity |].
  - intros; replace (1*x+-1*y) with (x-y) by ring; apply eqm32_refl.
  - cbn [lwe_sub snd]. replace (1 * snd c1 + -1 * snd c2) with (snd c1 - snd c2) by ring. apply w32_eqm. Qed.

Theorem phase_addmul p : lwe_phase key (lwe_addmul c1 p c2) = w32 (lwe_phase key c1 + p * lwe_phase key c2).
Proof. rewrite (lin_phase (fun x y => x + w32 (p * y)) 1 p); [f_equal; ring| | reflexivity |].
  - intros. replace (1*x+p*y) with (x+p*y) by ring. apply eqm32_add; [apply eqm32_refl|apply w32_eqm].
  - cbn [lwe_addmul snd]. eapply eqm32_trans; [apply w32_eqm|].
    replace (1 * snd c1 + p * snd c2) with (snd c1 + p * snd c2) by ring.
    apply eqm32_add; [apply eqm32_refl|apply w32_eqm]. Qed.

Theorem phase_submul p : lwe_phase key (lwe_submul c1 p c2) = w32 (lwe_phase key c1 - p * lwe_phase key c2).
Proof. rewrite (lin_phase (fun x y => x - w32 (p * y)) 1 (-p)); [f_equal; ring| | reflexivity |].
  - intros. replace (1*x+-p*y) with (x-p*y) by ring. apply eqm32_sub; [apply eqm32_refl|apply w32_eqm].
  - cbn [lwe_submul snd]. eapply eqm32_trans; [apply w32_eqm|].
    replace (1 * snd c1 + -p * snd c2) with (snd c1 - p * snd c2) by ring.
    apply eqm32_sub; [apply eqm32_refl|apply w32_eqm]. Qed.
End Linear.

Lemma dot_repeat0 n k : dot (repeat 0 n) k = 0.
Proof. revert k. induction n as [|n IH]; intro k; cbn [repeat dot]; [reflexivity|].
  destruct k; [reflexivity|]. rewrite IH. ring. Qed.

Theorem phase_clear key n : lwe_phase key (lwe_clear n) = 0.
Proof. rewrite lwe_phase_spec. cbn [lwe_clear fst snd]. rewrite dot_repeat0. reflexivity. Qed.
Theorem phase_trivial key n mu : lwe_phase key (lwe_trivial n mu) = w32 mu.
Proof. rewrite lwe_phase_spec. cbn [lwe_trivial fst snd]. rewrite dot_repeat0. f_equal. ring. Qed.
Theorem phase_copy key c : lwe_phase key (lwe_copy c) = lwe_phase key c.
Proof. reflexivity. Qed.

Lemma dot_map_neg a : forall k, eqm32 (dot (map (fun x => w32 (- x)) a) k) (- dot a k).
Proof. induction a as [|x a IH]; intro k; cbn [map dot]; [apply eqm32_refl|].
  destruct k as [|y k]; [apply eqm32_refl|].
  replace (- (x * y + dot a k)) with ((- x) * y + - dot a k) by ring.
  apply eqm32_add; [|apply IH]. apply eqm32_mul; [apply w32_eqm|apply eqm32_refl]. Qed.
Theorem phase_negate key c : lwe_phase key (lwe_negate c) = w32 (- lwe_phase key c).
Proof. rewrite lwe_phase_spec. apply eqm32_w32. cbn [lwe_negate fst snd].
  eapply eqm32_trans; [apply eqm32_sub; [apply w32_eqm|apply dot_map_neg]|].
  replace (- snd c - - dot (fst c) key) with (- (snd c - dot (fst c) key)) by ring.
  apply eqm32_opp, eqm32_sym, phase_eqm. Qed.

Lemma nth_zipw f : forall r s j, (j < length r)%nat -> length r = length s ->
  nth j (zipw f r s) 0 = w32 (f (nth j r 0) (nth j s 0)).
Proof. induction r as [|x r IH]; intros [|y s] j Hj Hl; cbn [length] in *; try lia.
  unfold zipw. cbn [combine map fst snd]. fold (zipw f r s). destruct j as [|j]; [reflexivity|].
  cbn [nth]. apply IH; lia. Qed.
Lemma zipw_length f r s : length r = length s -> length (zipw f r s) = length r.
Proof. intro H. unfold zipw. rewrite map_length, combine_length. lia. Qed.



(* ---- the block structure of the assembly equals the plain loop and stays in range, every n ---- *)
Lemma combine_app_eq {A B} (a1 a2 : list A) (b1 b2 : list B) : length a1 = length b1 ->
  combine (a1 ++ a2) (b1 ++ b2) = combine a1 b1 ++ combine a2 b2.
Proof. revert b1. induction a1 as [|x a1 IH]; intros [|y b1] H; cbn in *; try lia; [reflexivity|].
  f_equal. apply IH. lia. Qed.

Lemma zipw_app f r1 r2 s1 s2 : length r1 = length s1 ->
  zipw f (r1 ++ r2) (s1 ++ s2) = zipw f r1 s1 ++ zipw f r2 s2.
Proof. intro H. unfold zipw. rewrite combine_app_eq by assumption. apply map_app. Qed.
Lemma exec_blocks_ok f : forall ws r a, length r = length a -> fold_right Nat.add 0%nat ws = length r ->
  exec_blocks f ws r a = Some (zipw f r a).
Proof. induction ws as [|w ws IH]; intros r a Hl Hs; cbn [exec_blocks fold_right] in *.
  - destruct r; [|cbn in Hs; lia]. destruct a; [reflexivity|cbn in Hl; lia].
  - assert (Hw : (w <= length r)%nat) by lia.
    rewrite (proj2 (Nat.leb_le w (length r))) by lia. rewrite (proj2 (Nat.leb_le w (length a))) by lia.
    cbn [andb]. rewrite IH.
    + f_equal. rewrite <- (firstn_skipn w r) at 3. rewrite <- (firstn_skipn w a) at 3.
      unfold zipw. rewrite combine_app_eq by (rewrite !firstn_length; lia). rewrite map_app. reflexivity.
    + rewrite !skipn_length. lia.
    + rewrite skipn_length. lia. Qed.

Lemma sum_repeat w m : fold_right Nat.add 0%nat (repeat w m) = (w * m)%nat.
Proof. induction m as [|m IH]; cbn [repeat fold_right]; lia. Qed.
Lemma sum_app a b : fold_right Nat.add 0%nat (a ++ b) = (fold_right Nat.add 0%nat a + fold_right Nat.add 0%nat b)%nat.
Proof. induction a as [|x a IH]; cbn [app fold_right]; lia. Qed.
Lemma tail_sched_sum rem : (rem < 8)%nat -> fold_right Nat.add 0%nat (tail_sched rem) = rem.
Proof. intro H. do 8 (destruct rem as [|rem]; [reflexivity|]). lia. Qed.

Theorem sched_covers n : fold_right Nat.add 0%nat (sched true n) = n.
Proof. unfold sched. rewrite sum_app, sum_repeat, tail_sched_sum.
  - pose proof (Nat.div_mod n 8 ltac:(lia)). pose proof (Nat.mod_upper_bound n 8 ltac:(lia)). lia.
  - pose proof (Nat.div_mod n 8 ltac:(lia)). pose proof (Nat.mod_upper_bound n 8 ltac:(lia)). lia. Qed.

Theorem vsub_asm_eq_loop r a : length r = length a -> vsub_asm true r a = Some (zipw Z.sub r a).
Proof. intro H. unfold vsub_asm. apply exec_blocks_ok; [exact H|apply sched_covers]. Qed.

Corollary lwe_sub_asm_eq_loop c1 c2 : length (fst c1) = length (fst c2) ->
  lwe_sub_asm true c1 c2 = Some (lwe_sub c1 c2).
Proof. intro H. unfold lwe_sub_asm. rewrite vsub_asm_eq_loop by exact H. reflexivity. Qed.

(* before the repair (D2): with n = 3 the do-while block touches 8 cells of a 3-cell array *)
Theorem vsub_asm_small_n_refuted : vsub_asm false [10;20;30] [1;2;3] = None.
Proof. vm_compute. reflexivity. Qed.

(* variance rule: the multiplier p*p is exact in int32 for |p| < 2^15 *)
Theorem var_coeff_exact p : Z.abs p < 32768 -> var_coeff p = p * p.
Proof. intro H. unfold var_coeff. apply w32_id. unfold is_i32, p31. nia. Qed.
Theorem var_coeff_overflow_example : var_coeff 65536 = 0.
Proof. vm_compute. reflexivity. Qed.
