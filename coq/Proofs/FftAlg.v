(* Proofs/FftAlg.v — C10 (the algorithm of the half-complex transforms, algebraically).  Over ANY commutative ring:
   (1) the radix-2 butterfly recursion (E_k +- u^k D_k on the even/odd halves) computes the evaluations at all the powers
       of a root u with u^(2^(n-1)) = -1 — a cyclic FFT of size 2^n;
   (2) folding a real polynomial of N = 2M coefficients into the M "complex" coefficients f_j + i f_(M+j) with i = w^M,
       twisting by w^j and running the cyclic FFT of size M with root w^4 yields the evaluations at the M points
       w^(4k+1): this is the scheme of the nayuki and spqlios processors (fold, twist, complex FFT of size N/2).
   The butterfly schedule of the real code (iterative, bit-reversed, vectorised, or FFTW's) is not modelled; what is
   proved is that the scheme computes the evaluations the other C10 theorems speak about. *)
From Coq Require Import ZArith Lia List Ring Ring_theory InitialRing Setoid PeanoNat.
From TV Require Import Base.Sums Ring.NegaRing Proofs.Eval Proofs.FftInverse.
Import ListNotations.

Section Alg.
Variable R : Type.
Variables (rO rI : R) (radd rmul rsub : R -> R -> R) (ropp : R -> R).
Variable Rth : ring_theory rO rI radd rmul rsub ropp (@eq R).
Add Ring RringAlg : Rth.
Notation "x + y" := (radd x y). Notation "x * y" := (rmul x y). Notation "- x" := (ropp x). Notation "x - y" := (rsub x y).
Notation pw := (rpow R rI rmul).
Notation Zr := (zr R rO rI radd rmul ropp).
Notation sum := (rsum R rO radd).
Notation evR := (ev R rO rI radd rmul ropp).
Notation pw_add := (pw_add R rO rI radd rmul rsub ropp Rth).
Notation pw_mul := (pw_mul R rO rI radd rmul rsub ropp Rth).
Notation pw_sq := (pw_sq R rO rI radd rmul rsub ropp Rth).
Notation pw_one := (pw_one R rO rI radd rmul rsub ropp Rth).
Notation sum_ext := (sum_ext R rO radd).
Notation sum_split := (sum_split R rO rI radd rmul rsub ropp Rth).

(* Horner evaluation of a list of ring elements *)
Fixpoint pev (c : list R) (x : R) : R := match c with [] => rO | a :: c' => a + x * pev c' x end.
Fixpoint evens (c : list R) : list R :=
  match c with [] => [] | a :: t => a :: match t with [] => [] | _ :: t' => evens t' end end.
Definition odds (c : list R) : list R := match c with [] => [] | _ :: t => evens t end.

(* decimation in time: P(x) = E(x^2) + x D(x^2) *)
Lemma pev_evens_odds_both x : forall c, (pev c x = pev (evens c) (x * x) + x * pev (odds c) (x * x)) /\
  (forall a, pev (a :: c) x = pev (evens (a :: c)) (x * x) + x * pev (odds (a :: c)) (x * x)).
Proof. induction c as [|b c [IH1 IH2]].
  - split; [cbn; ring|]. intro a. cbn. ring.
  - split; [apply IH2|]. intro a.
    change (evens (a :: b :: c)) with (a :: evens c). change (odds (a :: b :: c)) with (b :: odds c).
    cbn [pev]. rewrite IH1. ring. Qed.
Lemma pev_evens_odds c x : pev c x = pev (evens c) (x * x) + x * pev (odds c) (x * x).
Proof. apply pev_evens_odds_both. Qed.

Definition tab (m : nat) (g : nat -> R) : list R := map g (seq 0 m).
Lemma tab_length m g : length (tab m g) = m. Proof. unfold tab. rewrite map_length, seq_length. reflexivity. Qed.
Lemma nth_tab m g k d : (k < m)%nat -> nth k (tab m g) d = g k.
Proof. intro H. unfold tab. rewrite (nth_indep _ d (g O)) by (rewrite map_length, seq_length; exact H).
  rewrite map_nth, seq_nth by exact H. reflexivity. Qed.
Lemma tab_ext m g h : (forall k, (k < m)%nat -> g k = h k) -> tab m g = tab m h.
Proof. intro H. unfold tab. apply map_ext_in. intros k Hk. apply in_seq in Hk. apply H. lia. Qed.
Lemma map_seq_shift (g : nat -> R) : forall b a, map g (seq a b) = map (fun k => g (a + k)%nat) (seq 0 b).
Proof. induction b as [|b IH]; intro a; [reflexivity|].
  cbn [seq map]. f_equal; [f_equal; lia|]. rewrite (IH (S a)), <- (seq_shift b 0), map_map.
  apply map_ext. intro k. f_equal. lia. Qed.
Lemma tab_app a b g : tab (a + b) g = tab a g ++ tab b (fun k => g (a + k)%nat).
Proof. unfold tab. rewrite seq_app, map_app. f_equal. apply map_seq_shift. Qed.

(* the radix-2 recursion: n levels, 2^n outputs *)
Fixpoint fft (n : nat) (u : R) (c : list R) : list R :=
  match n with
  | O => [pev c rI]
  | S m => let E := fft m (u * u) (evens c) in let D := fft m (u * u) (odds c) in
           tab (2 ^ m) (fun k => nth k E rO + pw u k * nth k D rO) ++ tab (2 ^ m) (fun k => nth k E rO - pw u k * nth k D rO)
  end.

Lemma pw_mulbase x y k : pw (x * y) k = pw x k * pw y k.
Proof. induction k as [|k IH]; cbn [rpow]; [ring|]. rewrite IH. ring. Qed.

Theorem fft_correct : forall n u c, match n with O => True | S m => pw u (2 ^ m) = - rI end ->
  fft n u c = tab (2 ^ n) (fun k => pev c (pw u k)).
Proof. induction n as [|m IH]; intros u c Hu.
  - reflexivity.
  - assert (Hu2 : match m with O => True | S m' => pw (u * u) (2 ^ m') = - rI end).
    { destruct m as [|m']; [exact I|]. rewrite <- pw_sq, <- Nat.pow_succ_r'. exact Hu. }
    cbn [fft]. rewrite (IH (u * u) (evens c) Hu2), (IH (u * u) (odds c) Hu2).
    rewrite (Nat.pow_succ_r' 2 m). replace (2 * 2 ^ m)%nat with (2 ^ m + 2 ^ m)%nat by lia. rewrite tab_app. f_equal.
    + apply tab_ext. intros k Hk. rewrite !nth_tab by exact Hk.
      rewrite (pev_evens_odds c (pw u k)), <- pw_mulbase. reflexivity.
    + apply tab_ext. intros k Hk. rewrite !nth_tab by exact Hk.
      rewrite (pev_evens_odds c (pw u (2 ^ m + k))), pw_add, Hu.
      replace (- rI * pw u k * (- rI * pw u k)) with (pw u k * pw u k) by ring. rewrite <- pw_mulbase. ring. Qed.

(* Horner evaluation of a tabulated list is the power sum *)
Lemma pev_map_seq g x : forall m s, pev (map g (seq s m)) x = sum m (fun j => g (s + j)%nat * pw x j).
Proof. induction m as [|m IH]; intro s; [reflexivity|].
  cbn [seq map pev]. rewrite IH. rewrite (rsum_shift R rO rI radd rmul rsub ropp Rth).
  rewrite <- (rsum_scale R rO rI radd rmul rsub ropp Rth). rewrite Nat.add_0_r. cbn [rpow]. f_equal; [ring|].
  apply sum_ext. intros j _. replace (s + S j)%nat with (S s + j)%nat by lia. cbn [rpow]. ring. Qed.
Lemma pev_tab m g x : pev (tab m g) x = sum m (fun j => g j * pw x j).
Proof. unfold tab. rewrite pev_map_seq. reflexivity. Qed.

(* ---- fold, twist, cyclic FFT of half the size = evaluations at the points w^(4k+1) ---- *)
Variable m : nat.
Variable w : R.
Hypothesis wN : pw w (2 ^ S m) = - rI.

Definition fold_twist (f : vec) : list R :=
  tab (2 ^ m) (fun j => (Zr (f j) + pw w (2 ^ m) * Zr (f (2 ^ m + j)%nat)) * pw w j).

Lemma w4_root : match m with O => True | S m' => pw (pw w 4) (2 ^ m') = - rI end.
Proof. destruct m as [|m']; [exact I|]. rewrite <- pw_mul. rewrite <- wN. f_equal.
  rewrite (Nat.pow_succ_r' 2 (S m')), (Nat.pow_succ_r' 2 m'). lia. Qed.

Lemma w_4kM k : pw w (4 * k * 2 ^ m) = rI.
Proof. replace (4 * k * 2 ^ m)%nat with (2 ^ S m * (2 * k))%nat by (rewrite (Nat.pow_succ_r' 2 m); lia).
  rewrite pw_mul, wN. rewrite pw_mul. replace (pw (- rI) 2) with rI by (cbn [rpow]; ring). apply pw_one. Qed.

Theorem half_complex_transform (f : vec) :
  fft m (pw w 4) (fold_twist f) = tab (2 ^ m) (fun k => evR (2 ^ S m) (pw w (4 * k + 1)) f).
Proof. rewrite (fft_correct m (pw w 4) _ w4_root). apply tab_ext. intros k Hk.
  unfold fold_twist. rewrite pev_tab. unfold ev.
  rewrite (Nat.pow_succ_r' 2 m). replace (2 * 2 ^ m)%nat with (2 ^ m + 2 ^ m)%nat by lia. rewrite sum_split.
  rewrite <- (rsum_add R rO rI radd rmul rsub ropp Rth). apply sum_ext. intros j _.
  assert (E1 : pw (pw (pw w 4) k) j = pw w (4 * k * j)) by (rewrite <- !pw_mul; f_equal; lia).
  assert (E2 : pw (pw w (4 * k + 1)) j = pw w j * pw w (4 * k * j)).
  { rewrite <- pw_mul, <- pw_add. f_equal. lia. }
  assert (E3 : pw (pw w (4 * k + 1)) (2 ^ m + j) = pw w (2 ^ m) * (pw w j * pw w (4 * k * j))).
  { rewrite <- pw_mul. replace ((4 * k + 1) * (2 ^ m + j))%nat with (4 * k * 2 ^ m + (2 ^ m + (j + 4 * k * j)))%nat by lia.
    rewrite pw_add, w_4kM, !pw_add. ring. }
  rewrite E1, E2, E3. ring. Qed.
End Alg.

(* ---- conjugate symmetry: why half of the evaluations suffice.  For any ring automorphism s that fixes the integers (complex
        conjugation in C), evaluating an integer polynomial at s(x) gives s of its evaluation at x.  With s(w) = w^(2N-1) = w^-1 the point
        w^(4(M-k-1)+3) is the image of w^(4k+1): the M values the half-complex transform stores determine the other M. ---- *)
Section Conj.
Variable R : Type.
Variables (rO rI : R) (radd rmul rsub : R -> R -> R) (ropp : R -> R).
Variable Rth : ring_theory rO rI radd rmul rsub ropp (@eq R).
Add Ring RringConj : Rth.
Notation "x + y" := (radd x y). Notation "x * y" := (rmul x y). Notation "- x" := (ropp x).
Notation pw := (rpow R rI rmul).
Notation Zr := (zr R rO rI radd rmul ropp).
Notation sum := (rsum R rO radd).
Notation evR := (ev R rO rI radd rmul ropp).
Variable s : R -> R.
Hypothesis s_add : forall x y, s (x + y) = s x + s y.
Hypothesis s_mul : forall x y, s (x * y) = s x * s y.
Hypothesis s_one : s rI = rI.

Lemma s_zero : s rO = rO.
Proof. assert (H : s rO + s rO = s rO) by (rewrite <- s_add; f_equal; ring).
  transitivity (s rO + s rO + - s rO); [ring|]. rewrite H. ring. Qed.
Lemma s_opp x : s (- x) = - s x.
Proof. assert (H : s (- x) + s x = rO) by (rewrite <- s_add, <- s_zero; f_equal; ring).
  transitivity (s (- x) + s x + - s x); [ring|]. rewrite H. ring. Qed.
Lemma s_zr_pos p : s (Zr (Zpos p)) = Zr (Zpos p).
Proof. induction p using Pos.peano_ind.
  - rewrite (zr_1 R rO rI radd rmul rsub ropp Rth). exact s_one.
  - replace (Zpos (Pos.succ p)) with (Zpos p + 1)%Z by lia.
    rewrite (zr_add R rO rI radd rmul rsub ropp Rth), s_add, IHp, (zr_1 R rO rI radd rmul rsub ropp Rth), s_one. reflexivity. Qed.
Lemma s_zr z : s (Zr z) = Zr z.
Proof. destruct z as [|p|p].
  - rewrite (zr_0 R rO rI radd rmul rsub ropp Rth). exact s_zero.
  - apply s_zr_pos.
  - replace (Zneg p) with (- Zpos p)%Z by reflexivity.
    rewrite (zr_opp R rO rI radd rmul rsub ropp Rth), s_opp, s_zr_pos. reflexivity. Qed.
Lemma s_pw x n : s (pw x n) = pw (s x) n.
Proof. induction n as [|n IH]; cbn [rpow]; [exact s_one|]. rewrite s_mul, IH. reflexivity. Qed.
Lemma s_sum n g : s (sum n g) = sum n (fun i => s (g i)).
Proof. induction n as [|n IH]; cbn [rsum]; [exact s_zero|]. rewrite s_add, IH. reflexivity. Qed.

Theorem conjugate_evaluation N x (f : vec) : evR N (s x) f = s (evR N x f).
Proof. unfold ev. rewrite s_sum. apply (rsum_ext R rO radd). intros i _. rewrite s_mul, s_zr, s_pw. reflexivity. Qed.

(* with s(w) = w^(2N-1), N = 2M = 2^(m+1): the point 4(M-k-1)+3 is the conjugate of the point 4k+1 *)
Variable m : nat.
Variable w : R.
Hypothesis wN : pw w (2 ^ S m) = - rI.
Hypothesis s_w : s w = pw w (2 * 2 ^ S m - 1).

Theorem other_half_by_conjugation (f : vec) k : (k < 2 ^ m)%nat ->
  evR (2 ^ S m) (pw w (4 * (2 ^ m - k - 1) + 3)) f = s (evR (2 ^ S m) (pw w (4 * k + 1)) f).
Proof. intro Hk. rewrite <- conjugate_evaluation. f_equal.
  rewrite s_pw, s_w, <- (pw_mul R rO rI radd rmul rsub ropp Rth).
  assert (E : ((2 * 2 ^ S m - 1) * (4 * k + 1) = 2 * 2 ^ S m * (4 * k) + (4 * (2 ^ m - k - 1) + 3))%nat).
  { rewrite (Nat.pow_succ_r' 2 m). nia. }
  rewrite E, (pw_add R rO rI radd rmul rsub ropp Rth w (2 * 2 ^ S m * (4 * k))), (pw_mul R rO rI radd rmul rsub ropp Rth w (2 * 2 ^ S m)).
  rewrite (w2N R rO rI radd rmul rsub ropp Rth m w wN), (pw_one R rO rI radd rmul rsub ropp Rth). ring. Qed.
(* the point w^(4(M-k-1)+3) is s of the point w^(4k+1) *)
Lemma conj_point k : (k < 2 ^ m)%nat -> pw (s w) (4 * k + 1) = pw w (4 * (2 ^ m - k - 1) + 3).
Proof. intro Hk. rewrite s_w, <- (pw_mul R rO rI radd rmul rsub ropp Rth).
  assert (E : ((2 * 2 ^ S m - 1) * (4 * k + 1) = 2 * 2 ^ S m * (4 * k) + (4 * (2 ^ m - k - 1) + 3))%nat).
  { rewrite (Nat.pow_succ_r' 2 m). nia. }
  rewrite E, (pw_add R rO rI radd rmul rsub ropp Rth w (2 * 2 ^ S m * (4 * k))), (pw_mul R rO rI radd rmul rsub ropp Rth w (2 * 2 ^ S m)).
  rewrite (w2N R rO rI radd rmul rsub ropp Rth m w wN), (pw_one R rO rI radd rmul rsub ropp Rth). ring. Qed.

Lemma sum_even_odd M g : sum (2 * M) g = sum M (fun k => g (2 * k)%nat) + sum M (fun k => g (2 * k + 1)%nat).
Proof. induction M as [|M IH]; [cbn; ring|].
  replace (2 * S M)%nat with (S (S (2 * M))) by lia. cbn [rsum]. rewrite IH.
  replace (2 * M + 1)%nat with (S (2 * M)) by lia. ring. Qed.
Lemma sum_rev n g : sum n g = sum n (fun k => g (n - 1 - k)%nat).
Proof. induction n as [|n IH]; [reflexivity|].
  rewrite (rsum_shift R rO rI radd rmul rsub ropp Rth n (fun k => g (S n - 1 - k)%nat)). cbn [rsum].
  replace (S n - 1 - 0)%nat with n by lia. rewrite IH.
  rewrite (rsum_ext R rO radd n (fun k => g (n - 1 - k)%nat) (fun i => g (S n - 1 - S i)%nat)) by (intros i Hi; f_equal; lia).
  ring. Qed.

(* C10: the inverse transform from the stored half alone: the sums over the M points w^(4k+1), plus their conjugate, give N times the coefficient *)
Theorem inverse_from_half (f : vec) j : (j < 2 ^ S m)%nat ->
  let H := sum (2 ^ m) (fun k => pw w ((4 * k + 1) * (2 * 2 ^ S m - j)) * evR (2 ^ S m) (pw w (4 * k + 1)) f) in
  H + s H = Zr (Z.of_nat (2 ^ S m)) * Zr (f j).
Proof. intros Hj H.
  rewrite <- (inverse_transform R rO rI radd rmul rsub ropp Rth m w wN f j Hj).
  rewrite (Nat.pow_succ_r' 2 m) at 1. rewrite sum_even_odd. f_equal.
  - apply (rsum_ext R rO radd). intros k _. replace (2 * (2 * k) + 1)%nat with (4 * k + 1)%nat by lia. reflexivity.
  - unfold H. rewrite s_sum, (sum_rev (2 ^ m) (fun k => pw w ((2 * (2 * k + 1) + 1) * (2 * 2 ^ S m - j)) * evR (2 ^ S m) (pw w (2 * (2 * k + 1) + 1)) f)).
    apply (rsum_ext R rO radd). intros k Hk.
    rewrite s_mul, s_pw, <- conjugate_evaluation, s_pw.
    rewrite (Nat.mul_comm (4 * k + 1) (2 * 2 ^ S m - j)), (pw_mul R rO rI radd rmul rsub ropp Rth (s w)), <- (pw_mul R rO rI radd rmul rsub ropp Rth (s w) (2 * 2 ^ S m - j)).
    rewrite (Nat.mul_comm (2 * 2 ^ S m - j) (4 * k + 1)), (pw_mul R rO rI radd rmul rsub ropp Rth (s w) (4 * k + 1)).
    rewrite (conj_point k Hk).
    replace (2 * (2 * (2 ^ m - 1 - k) + 1) + 1)%nat with (4 * (2 ^ m - k - 1) + 3)%nat by lia.
    rewrite <- (pw_mul R rO rI radd rmul rsub ropp Rth w). reflexivity. Qed.
End Conj.
