(* Proofs/Digits.v — base-2^b digit expansion, shared by C12 (gadget) and C08 (key switch). *)
From Coq Require Import ZArith Lia List.
From TV Require Import Base.Int32 Base.Sums.
Import ListNotations.
Local Open Scope Z_scope.

(* position (shift) of digit p when W bits are cut in fields of b bits from the top *)
Definition shp (W b : Z) (p : nat) : Z := W - (Z.of_nat p + 1) * b.

Lemma mod_split y t b : 0 <= t -> 0 <= b ->
  digit y t b * pow2 t = y mod pow2 (t + b) - y mod pow2 t.
Proof. intros Ht Hb. unfold digit. rewrite pow2_add by assumption.
  pose proof (pow2_pos t Ht). pose proof (pow2_pos b Hb).
  rewrite Z.rem_mul_r by lia. ring. Qed.

Theorem digit_expansion y W b (l : nat) : 0 <= b -> Z.of_nat l * b <= W ->
  zsum l (fun p => digit y (shp W b p) b * pow2 (shp W b p)) = y mod pow2 W - y mod pow2 (W - Z.of_nat l * b).
Proof. intros Hb. induction l as [|l IH]; intro HW; cbn [zsum].
  - replace (W - Z.of_nat 0 * b) with W by lia. lia.
  - rewrite IH by lia. unfold shp.
    set (t := W - (Z.of_nat l + 1) * b).
    assert (Ht : 0 <= t) by lia.
    rewrite (mod_split y t b Ht Hb).
    replace (t + b) with (W - Z.of_nat l * b) by lia.
    replace (W - Z.of_nat (S l) * b) with t by lia. ring. Qed.

Corollary digit_expansion32 y b (l : nat) : 0 <= y < p32 -> 0 <= b -> Z.of_nat l * b <= 32 ->
  zsum l (fun p => digit y (shp 32 b p) b * pow2 (shp 32 b p)) = y - y mod pow2 (32 - Z.of_nat l * b).
Proof. intros Hy Hb Hl. rewrite digit_expansion by assumption.
  change (pow2 32) with p32. rewrite (Z.mod_small y p32) by assumption. reflexivity. Qed.
