(* Proofs/KeyGen.v — C07 -> C09 -> C04: the bootstrapping key that the key generation builds from its draw stream is a
   "good key" in the sense of the blind-rotation theorem.  Every element bk[i] is tGswSymEncryptInt of the key bit s_i: rows
   of fresh TLWE encryptions of zero (phases = the converted Gaussian draws, C07) plus s_i times the gadget (C09), so it acts on
   every accumulator like s_i up to beta(eta) when the converted draws are at most eta in absolute value. *)
From Coq Require Import ZArith Lia List Bool.
From TV Require Import Base.Int32 Base.Sums Ring.NegaRing Model.Numeric Model.Lwe Model.Poly Model.Tlwe Model.Decomp Model.Tgsw Model.Bootstrap
  Model.Gates Model.Encrypt
  Proofs.Numeric Proofs.Lwe Proofs.Poly Proofs.Tlwe Proofs.Digits Proofs.Decomp Proofs.Karatsuba Proofs.Tgsw Proofs.Gadget Proofs.BlindRotate Proofs.BootKey
  Proofs.Encrypt Proofs.Decrypt Proofs.TgswDecrypt Proofs.ExtprodPoly.
Import ListNotations.
Local Open Scope Z_scope.

Section KG.
Variable N : nat.
Hypothesis Npos : (0 < N)%nat.
Variable key : list (list Z).
Variable k : nat.
Hypothesis Hkey : wf_tkey N k key.
Hypothesis Hbin : Forall (Forall (fun x => x = 0 \/ x = 1)) key.
Variables (l : nat) (B : Z).
Hypothesis V : valid_layout l B.

Notation PH := (PHv N key).

Definition bounded (eta : Z) (ds : list draw) : Prop := forall g, In (DG (fst g) (snd g)) ds -> Z.abs (gaussian32 0 g) <= eta.

Lemma tlwe_encrypt_zero_suffix ds c r : tlwe_encrypt_zero key N ds = Some (c, r) -> exists pre, ds = pre ++ r.
Proof. intro H. destruct Hkey as [_ Hkf]. destruct (tlwe_encrypt_zero_spec N Npos key ds c r Hkf H) as (gs & _ & _ & Hds & _).
  eexists. rewrite Hds. rewrite app_assoc. reflexivity. Qed.
Lemma tgsw_encrypt_zero_suffix : forall rows ds C r, tgsw_encrypt_zero rows key N ds = Some (C, r) -> exists pre, ds = pre ++ r.
Proof. induction rows as [|rows IH]; intros ds C r H; cbn [tgsw_encrypt_zero] in H.
  - inversion H; subst. exists []. reflexivity.
  - destruct (tlwe_encrypt_zero key N ds) as [[c r1]|] eqn:E1; [|discriminate].
    destruct (tgsw_encrypt_zero rows key N r1) as [[C' r2]|] eqn:E2; [|discriminate]. inversion H; subst.
    destruct (tlwe_encrypt_zero_suffix _ _ _ E1) as [p1 ->]. destruct (IH _ _ _ E2) as [p2 ->].
    exists (p1 ++ p2). now rewrite app_assoc. Qed.

(* one element of the bootstrapping key *)
Theorem encrypt_int_acts_like s ds g r eta : (s = 0 \/ s = 1) -> 0 <= eta -> bounded eta ds ->
  tgsw_sym_encrypt_int l B key N s ds = Some (g, r) ->
  (exists E, acts_like N key k l B g s E (beta N k l B eta)) /\ exists pre, ds = pre ++ r.
Proof. intros Hs Heta Hb H. unfold tgsw_sym_encrypt_int in H. pose proof Hkey as [Hkl Hkf]. rewrite Hkl in H.
  destruct (tgsw_encrypt_zero (S k * l) key N ds) as [[Z0 r1]|] eqn:E; [|discriminate]. inversion H; subst g r. clear H.
  split; [|eapply tgsw_encrypt_zero_suffix; exact E].
  destruct (tgsw_encrypt_zero_spec N Npos key k Hkey _ _ _ _ E) as [HlZ HF].
  set (e := fun p j => w32 (PH (nth p Z0 []) j)).
  assert (HZ : Forall (wf_tsample N k) Z0) by (eapply Forall_impl; [|exact HF]; intros c Hc; exact (proj1 Hc)).
  assert (He : forall p, (p < S k * l)%nat -> eqNm N (PH (nth p Z0 [])) (e p)).
  { intros p Hp j Hj. unfold e. apply eqm32_sym, w32_eqm. }
  assert (Hbd : forall p j, (p < S k * l)%nat -> (j < N)%nat -> Z.abs (e p j) <= eta).
  { intros p j Hp Hj. unfold e. rewrite Forall_forall in HF.
    destruct (HF (nth p Z0 []) ltac:(apply nth_In; lia)) as (_ & gs & Hg & Hph & Hin).
    specialize (Hph j Hj).
    assert (Eg : ofl (map (gaussian32 0) gs) j = gaussian32 0 (nth j gs (0, 0))) by (unfold ofl; apply nth_map_gen; lia).
    rewrite Eg in Hph. rewrite (eqm32_w32 _ _ Hph). unfold gaussian32 at 1. rewrite w32_idem.
    apply Hb, Hin, nth_In. lia. }
  eexists. exact (gadget_sample_acts_like N Npos key k Hkey Hbin l B V s Hs Z0 HZ HlZ e eta He Hbd Heta). Qed.

(* tGswSymEncrypt of a polynomial message (C07) acts on every accumulator like mu (C09, polynomial form) *)
Theorem encrypt_poly_acts_like mu ds C r eta : lenN N mu -> 0 <= eta -> bounded eta ds ->
  tgsw_sym_encrypt l B key N mu ds = Some (C, r) ->
  forall t, wf_tsample N k t ->
  exists E, eqNm N (PH (extprod l B C t)) (vadd (act N mu (PH t)) E) /\ (forall j, (j < N)%nat -> Z.abs (E j) <= beta_poly N k l B mu eta).
Proof. intros Hmu Heta Hb H t Ht. unfold tgsw_sym_encrypt in H. pose proof Hkey as [Hkl Hkf]. rewrite Hkl in H.
  destruct (tgsw_encrypt_zero (S k * l) key N ds) as [[Z0 r1]|] eqn:E; [|discriminate]. inversion H; subst C r. clear H.
  destruct (tgsw_encrypt_zero_spec N Npos key k Hkey _ _ _ _ E) as [HlZ HF].
  set (e := fun p j => w32 (PH (nth p Z0 []) j)).
  assert (HZ : Forall (wf_tsample N k) Z0) by (eapply Forall_impl; [|exact HF]; intros c Hc; exact (proj1 Hc)).
  assert (He : forall p, (p < S k * l)%nat -> eqNm N (PH (nth p Z0 [])) (e p)).
  { intros p Hp j Hj. unfold e. apply eqm32_sym, w32_eqm. }
  assert (Hbd : forall p j, (p < S k * l)%nat -> (j < N)%nat -> Z.abs (e p j) <= eta).
  { intros p j Hp Hj. unfold e. rewrite Forall_forall in HF.
    destruct (HF (nth p Z0 []) ltac:(apply nth_In; lia)) as (_ & gs & Hg & Hph & Hin).
    specialize (Hph j Hj).
    assert (Eg : ofl (map (gaussian32 0) gs) j = gaussian32 0 (nth j gs (0, 0))) by (unfold ofl; apply nth_map_gen; lia).
    rewrite Eg in Hph. rewrite (eqm32_w32 _ _ Hph). unfold gaussian32 at 1. rewrite w32_idem.
    apply Hb, Hin, nth_In. lia. }
  exists (Ep N key k l B mu e t).
  exact (extprod_poly_error_bound N Npos key k Hkey Hbin l B V mu Hmu Z0 HZ HlZ e eta He Hbd Heta t Ht). Qed.

(* the whole bootstrapping key *)
Theorem bk_rows_good_key eta : 0 <= eta -> forall kin ds bk r, bounded eta ds ->
  Forall (fun s => s = 0 \/ s = 1) kin -> bk_rows l B key N kin ds = Some (bk, r) ->
  good_key N key k l B bk kin (beta N k l B eta) /\ length bk = length kin.
Proof. intro Heta. induction kin as [|s kin IH]; intros ds bk r Hb Hbits H; cbn [bk_rows] in H.
  - inversion H; subst. split; [constructor|reflexivity].
  - apply Forall_cons_iff in Hbits as [Hs Hbits'].
    destruct (tgsw_sym_encrypt_int l B key N s ds) as [[g r1]|] eqn:E1; [|discriminate].
    destruct (bk_rows l B key N kin r1) as [[gs r2]|] eqn:E2; [|discriminate]. inversion H; subst bk r. clear H.
    destruct (encrypt_int_acts_like s ds g r1 eta Hs Heta Hb E1) as [[E HA] [pre Hpre]].
    assert (Hb1 : bounded eta r1) by (intros x Hx; apply Hb; rewrite Hpre; apply in_or_app; now right).
    destruct (IH r1 gs r2 Hb1 Hbits' E2) as [HG Hl].
    split; [econstructor; [exact HA|exact HG]|cbn; now rewrite Hl]. Qed.
End KG.

(* key generation: the LWE key and the ring key are the DB draws *)
Definition bit_draws (ds : list draw) : Prop := forall b, In (DB b) ds -> b = 0 \/ b = 1.
Lemma lwe_keygen_bits n ds lk r : lwe_keygen n ds = Some (lk, r) -> bit_draws ds ->
  length lk = n /\ Forall (fun s => s = 0 \/ s = 1) lk /\ exists pre, ds = pre ++ r.
Proof. unfold lwe_keygen. intros H Hb. destruct (take_b_spec _ _ _ _ H) as [-> Hl]. split; [exact Hl|]. split; [|eexists; reflexivity].
  apply Forall_forall. intros s Hs. apply Hb. apply in_or_app. left. now apply in_map. Qed.

(* ---- composition with C04: bootstrapping under a generated key ---- *)
From TV Require Import Proofs.Bootstrap Proofs.BootPhase.
Section KB.
Variable N : nat.
Hypothesis Npos : (0 < N)%nat.
Hypothesis Dom : inDomain (2 * Z.of_nat N).
Variable key : list (list Z).
Variable k : nat.
Hypothesis Hkey : wf_tkey N k key.
Hypothesis Hbin : Forall (Forall (fun x => x = 0 \/ x = 1)) key.
Variables (l : nat) (B : Z).
Hypothesis V : valid_layout l B.

Lemma beta_nonneg' eta : 0 <= eta -> 0 <= beta N k l B eta.
Proof. intro H. unfold beta, Tr. destruct V as (HB & Hl & HlB).
  assert (0 <= halfBg B) by (rewrite halfBg_eq by lia; apply Z.lt_le_incl, pow2_pos; lia).
  assert (0 < pow2 (32 - Z.of_nat l * B)) by (apply pow2_pos; lia). nia. Qed.

(* for every key the generator builds from a draw stream whose converted Gaussian draws are at most eta, every input sample and
   every mu: the bootstrapping without key switch returns +-mu (sign = position of the rounded phase) up to n * beta(eta) *)
Theorem generated_key_bootstrap_woKS eta lk ds bk r mu x : 0 <= eta -> bounded eta ds -> Forall (fun s => s = 0 \/ s = 1) lk ->
  bk_rows l B key N lk ds = Some (bk, r) -> length (fst x) = length lk ->
  exists smp e0, bootstrap_woKS true l B k N bk mu x = Some smp /\ length (fst smp) = (k * N)%nat /\
    eqm32 (lwe_phase (tlwe_extract_key key) smp) ((if rot_exponent N lk x <? Z.of_nat N then mu else w32 (- mu)) + e0) /\
    Z.abs e0 <= Z.of_nat (length lk) * beta N k l B eta.
Proof. intros Heta Hb Hbits H Hx.
  destruct (bk_rows_good_key N Npos key k Hkey Hbin l B V eta Heta lk ds bk r Hb Hbits H) as [HG Hl].
  rewrite <- Hl in Hx |- *.
  exact (bootstrap_woKS_phase N Npos Dom key k Hkey l B bk lk (beta N k l B eta) mu x HG (beta_nonneg' eta Heta) Hx). Qed.
End KB.

(* ---- the whole chain: bootstrapping WITH key switch under the keys tfhe_createLweBootstrappingKey generates ---- *)
From TV Require Import Model.KeySwitch Proofs.KeySwitch Proofs.KsGen Proofs.Digits.
Lemma concat_len (N : nat) : forall L : list (list Z), Forall (fun s => length s = N) L -> length (concat L) = (length L * N)%nat.
Proof. induction L as [|s r IH]; intro Hf; [reflexivity|]. apply Forall_cons_iff in Hf as [Hs Hf'].
  cbn [concat length]. rewrite app_length, (IH Hf'), Hs. lia. Qed.
Section KBS.
Variable N : nat.
Hypothesis Npos : (0 < N)%nat.
Hypothesis Dom : inDomain (2 * Z.of_nat N).
Variable key : list (list Z).
Variable k : nat.
Hypothesis Hkey : wf_tkey N k key.
Hypothesis Hbin : Forall (Forall (fun x => x = 0 \/ x = 1)) key.
Variables (l : nat) (B : Z).
Hypothesis V : valid_layout l B.
Variables (t : nat) (bb : Z).
Hypothesis Vks : valid_ks t bb.

Lemma extract_key_length : length (tlwe_extract_key key) = (k * N)%nat.
Proof. destruct Hkey as [Hl Hf]. unfold tlwe_extract_key. rewrite (concat_len N key Hf), Hl. reflexivity. Qed.

(* for every key pair (ks, bk) the generator builds from a draw stream: key-switching noises (after recentring) at most eta_ks, Gaussian
   draws of the bootstrapping-key part at most eta: the gate-level bootstrapping returns +-mu (sign by the rounded phase) plus
   e0 (|e0| <= n*beta(eta)), the rounding of the extracted mask to t*basebit bits, and the key-switching noises used (each <= eta_ks) *)
Theorem generated_keys_bootstrap eta eta_ks lk ds ks bk r mu x : 0 <= eta -> 0 <= eta_ks ->
  Forall (fun s => s = 0 \/ s = 1) lk -> length (fst x) = length lk ->
  create_bootstrapping_key l B t bb lk key N ds = Some (ks, bk, r) ->
  (forall gs r0, take_g (k * N * t * (Z.to_nat (pow2 bb) - 1)) ds = Some (gs, r0) -> forall nz, In nz (recentre gs) -> Z.abs (dtot32_dy nz) <= eta_ks) ->
  (forall ks' r1, create_ks_key (tlwe_extract_key key) lk t bb ds = Some (ks', r1) -> bounded eta r1) ->
  exists (res u : sample) e0 (e : nat -> nat -> Z -> Z), bootstrap l B k N bk ks t bb (length lk) mu x = Some res /\ length (fst res) = length lk /\
    Z.abs e0 <= Z.of_nat (length lk) * beta N k l B eta /\ (forall i j h, Z.abs (e i j h) <= eta_ks) /\
    eqm32 (lwe_phase lk res)
          ((if rot_exponent N lk x <? Z.of_nat N then mu else w32 (- mu)) + e0
           + zsum (k * N) (fun i => nth i (tlwe_extract_key key) 0 * (nth i (fst u) 0 - round_tb (Z.of_nat t) bb (nth i (fst u) 0)))
           - zsum (k * N) (fun i => zsum t (ee bb e i (aibar (Z.of_nat t) bb (nth i (fst u) 0))))).
Proof. intros Heta Hetak Hbits Hx H Hbk Hbb. unfold create_bootstrapping_key in H.
  destruct (create_ks_key (tlwe_extract_key key) lk t bb ds) as [[ks' r1]|] eqn:E1; [|discriminate].
  destruct (bk_rows l B key N lk r1) as [[bk' r2]|] eqn:E2; [|discriminate]. inversion H; subst ks' bk' r2. clear H.
  specialize (Hbb ks r1 eq_refl).
  destruct (bk_rows_good_key N Npos key k Hkey Hbin l B V eta Heta lk r1 bk r Hbb Hbits E2) as [HG Hl].
  pose proof extract_key_length as Hel.
  destruct (generated_ks_rows_ok (tlwe_extract_key key) lk t bb ds ks r1 eta_ks Vks E1 Hetak ltac:(rewrite Hel; exact Hbk)) as (e & Hrows & He).
  rewrite Hel in Hrows. rewrite <- Hl in Hx.
  destruct (bootstrap_phase N Npos Dom key k Hkey l B bk lk (beta N k l B eta) mu x ks t bb lk (length lk) e HG ltac:(apply beta_nonneg'; assumption) Hx Vks Hrows)
    as (res & u & e0 & Hr & Hrl & He0 & Hph).
  exists res, u, e0, e. rewrite Hl in He0. repeat split; assumption. Qed.
End KBS.
