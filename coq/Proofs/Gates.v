(* Proofs/Gates.v — C01 (deterministic core): the affine combination each gate hands to the bootstrapping has
   phase c_g + alpha_g*phi_a + beta_g*phi_b (mod 2^32); for admissible inputs it lies in the half-torus the truth
   table demands with margin 1/16 (1/8 for XOR/XNOR); a rounded phase within that margin has the right sign;
   an output within 1/8 of +-1/8 decrypts to the right bit; NOT/COPY/CONSTANT are exact. *)
From Coq Require Import ZArith Lia List Bool ZifyBool.
From TV Require Import Base.Int32 Model.Numeric Model.Lwe Model.Poly Model.Tlwe Model.Tgsw Model.KeySwitch Model.Bootstrap Model.Gates
  Proofs.Lwe.
Import ListNotations.
Local Open Scope Z_scope.

Lemma MU_val : MU = 536870912. Proof. reflexivity. Qed.
Lemma c18_val : c18 = 536870912. Proof. reflexivity. Qed.
Lemma cm18_val : cm18 = -536870912. Proof. reflexivity. Qed.
Lemma c14_val : c14 = 1073741824. Proof. reflexivity. Qed.
Lemma cm14_val : cm14 = -1073741824. Proof. reflexivity. Qed.

Lemma triv_len n mu : length (fst (lwe_trivial n mu)) = n. Proof. apply repeat_length. Qed.
Lemma add_len r s : length (fst r) = length (fst s) -> length (fst (lwe_add r s)) = length (fst r).
Proof. intro H. unfold lwe_add. cbn [fst]. now apply zipw_length. Qed.
Lemma sub_len r s : length (fst r) = length (fst s) -> length (fst (lwe_sub r s)) = length (fst r).
Proof. intro H. unfold lwe_sub. cbn [fst]. now apply zipw_length. Qed.
Lemma addmul_len r p s : length (fst r) = length (fst s) -> length (fst (lwe_addmul r p s)) = length (fst r).
Proof. intro H. unfold lwe_addmul. cbn [fst]. now apply zipw_length. Qed.
Lemma submul_len r p s : length (fst r) = length (fst s) -> length (fst (lwe_submul r p s)) = length (fst r).
Proof. intro H. unfold lwe_submul. cbn [fst]. now apply zipw_length. Qed.

(* the phase of the temporary, for every key, dimension and input samples *)
Theorem gate_lin_phase g n key ca cb : length (fst ca) = n -> length (fst cb) = n ->
  lwe_phase key (gate_lin g n ca cb) = w32 (gate_const g + gate_ca g * lwe_phase key ca + gate_cb g * lwe_phase key cb).
Proof. intros Ha Hb. pose proof (triv_len n) as Ht.
  destruct g; cbn [gate_lin gate_const gate_ca gate_cb];
  repeat first
    [ rewrite phase_add by (rewrite ?add_len, ?sub_len, ?Ht; congruence)
    | rewrite phase_sub by (rewrite ?add_len, ?sub_len, ?Ht; congruence)
    | rewrite phase_addmul by (rewrite ?addmul_len, ?submul_len, ?Ht; congruence)
    | rewrite phase_submul by (rewrite ?addmul_len, ?submul_len, ?Ht; congruence)
    | rewrite phase_trivial ];
  rewrite ?w32_add_l, ?w32_sub_l; apply eqm32_w32;
  repeat first [apply eqm32_add | apply eqm32_sub]; try apply eqm32_refl; try apply w32_eqm;
  match goal with |- eqm32 ?x ?y => replace y with x by ring; apply eqm32_refl end. Qed.

(* admissible input: phase within 1/32 of the encoding of its bit *)
Definition admissible (phi : Z) (b : bool) : Prop := Z.abs (phi - (if b then MU else - MU)) <= 134217728.
(* the half-torus the bootstrapping maps to +mu resp. -mu, with margin m *)
Definition in_half (m : Z) (phi : Z) (b : bool) : Prop :=
  if b then m <= phi <= p31 - m else - (p31 - m) <= phi <= - m.
Definition gate_margin (g : gate2) : Z := match g with XOR | XNOR => 536870912 | _ => 268435456 end.

Ltac Zify.zify_post_hook ::= Z.div_mod_to_equations.

Theorem gate_region g phia phib a b : admissible phia a -> admissible phib b ->
  in_half (gate_margin g) (w32 (gate_const g + gate_ca g * phia + gate_cb g * phib)) (gate_table g a b).
Proof. unfold admissible, in_half. rewrite MU_val. intros Ha Hb.
  destruct g; cbn [gate_const gate_ca gate_cb gate_margin gate_table];
  rewrite ?c18_val, ?cm18_val, ?c14_val, ?cm14_val; unfold w32, p31, p32;
  destruct a; destruct b; cbn [andb orb xorb negb]; lia. Qed.

(* rounding to Z_2N with a drift smaller than the margin keeps the side: S = 2^32/(2N) *)
Theorem region_to_sign (N S m phi drift p : Z) (b : bool) :
  0 < N -> 2 * N * S = p32 -> 0 <= p < 2 * N -> 0 < m ->
  in_half m phi b -> Z.abs drift < m -> eqm32 (p * S) (phi + drift) ->
  (p <? N) = b.
Proof. unfold in_half, eqm32, p31, p32. intros HN HS Hp Hm Hh Hd He.
  assert (HSpos : 0 < S) by nia.
  destruct b.
  - apply Z.ltb_lt. destruct (Z_lt_ge_dec p N) as [|Hge]; [assumption|exfalso].
    (* p*S in [2^31, 2^32), phi+drift in (0, 2^31) *)
    assert (H1 : 2147483648 <= p * S < 4294967296) by nia.
    rewrite (Z.mod_small (p * S)) in He by lia. rewrite Z.mod_small in He by lia. lia.
  - apply Z.ltb_ge. destruct (Z_lt_ge_dec p N) as [Hlt|]; [exfalso|lia].
    assert (H1 : 0 <= p * S < 2147483648) by nia.
    rewrite (Z.mod_small (p * S)) in He by lia.
    replace (phi + drift) with ((phi + drift + 4294967296) + (-1) * 4294967296) in He by ring.
    rewrite Z_mod_plus_full in He. rewrite Z.mod_small in He by lia. lia. Qed.

(* an output within 1/8 of +-1/8 decrypts to the bit *)
Theorem decrypt_of_phase key c (b : bool) e :
  lwe_phase key c = (if b then MU else - MU) + e -> Z.abs e < 536870912 ->
  decrypt_bit key c = bit_of b.
Proof. rewrite MU_val. intros H He. unfold decrypt_bit, bit_of. rewrite H.
  destruct b; match goal with |- (if 0 <? ?x then _ else _) = _ => destruct (Z.ltb_spec 0 x) end; lia. Qed.

(* deterministic core of gate correctness: admissible inputs, drift below the gate's margin, output error below 1/8 *)
Theorem gate_correct_partial g n key ca cb (a b : bool) (N S p drift : Z) cout e :
  length (fst ca) = n -> length (fst cb) = n ->
  admissible (lwe_phase key ca) a -> admissible (lwe_phase key cb) b ->
  0 < N -> 2 * N * S = p32 -> 0 <= p < 2 * N ->
  eqm32 (p * S) (lwe_phase key (gate_lin g n ca cb) + drift) -> Z.abs drift < gate_margin g ->
  lwe_phase key cout = (if p <? N then MU else - MU) + e -> Z.abs e < 536870912 ->
  decrypt_bit key cout = bit_of (gate_table g a b).
Proof. intros Hla Hlb Ha Hb HN HS Hp Hdr Hd Hout He.
  rewrite (gate_lin_phase g n key ca cb Hla Hlb) in Hdr.
  pose proof (gate_region g _ _ a b Ha Hb) as Hr.
  assert (Hm : 0 < gate_margin g) by (destruct g; cbn; lia).
  rewrite (region_to_sign N S (gate_margin g) _ drift p (gate_table g a b) HN HS Hp Hm Hr Hd Hdr) in Hout.
  exact (decrypt_of_phase key cout _ e Hout He). Qed.

(* noise-free gates, exact on phases for every input *)
Theorem not_phase key c : lwe_phase key (gate_not c) = w32 (- lwe_phase key c). Proof. apply phase_negate. Qed.
Theorem copy_phase key c : lwe_phase key (gate_copy c) = lwe_phase key c. Proof. apply phase_copy. Qed.
Theorem constant_phase key n v : lwe_phase key (gate_constant n v) = if v =? 0 then - MU else MU.
Proof. unfold gate_constant. rewrite phase_trivial. destruct (v =? 0); reflexivity. Qed.
Theorem not_correct key c (b : bool) e : lwe_phase key c = (if b then MU else - MU) + e -> Z.abs e < 536870912 ->
  decrypt_bit key (gate_not c) = bit_of (negb b).
Proof. rewrite MU_val. intros H He. unfold decrypt_bit, bit_of. rewrite not_phase, H. unfold w32, p31, p32.
  destruct b; cbn [negb]; match goal with |- (if 0 <? ?x then _ else _) = _ => destruct (Z.ltb_spec 0 x) end; lia. Qed.

(* MUX: the three affine stages *)
Theorem mux_lin1_phase n key a b : length (fst a) = n -> length (fst b) = n ->
  lwe_phase key (mux_lin1 n a b) = w32 (cm18 + lwe_phase key a + lwe_phase key b).
Proof. intros Ha Hb. pose proof (triv_len n) as Ht. unfold mux_lin1.
  rewrite phase_add by (rewrite ?add_len, ?Ht; congruence). rewrite phase_add by (rewrite ?Ht; congruence).
  rewrite phase_trivial. rewrite w32_add_l. apply eqm32_w32. apply eqm32_add; [|apply eqm32_refl].
  apply eqm32_add; [apply w32_eqm|apply eqm32_refl]. Qed.
Theorem mux_lin2_phase n key a c : length (fst a) = n -> length (fst c) = n ->
  lwe_phase key (mux_lin2 n a c) = w32 (cm18 - lwe_phase key a + lwe_phase key c).
Proof. intros Ha Hc. pose proof (triv_len n) as Ht. unfold mux_lin2.
  rewrite phase_add by (rewrite ?sub_len, ?Ht; congruence). rewrite phase_sub by (rewrite ?Ht; congruence).
  rewrite phase_trivial. rewrite w32_add_l. apply eqm32_w32. apply eqm32_add; [|apply eqm32_refl].
  apply eqm32_sub; [apply w32_eqm|apply eqm32_refl]. Qed.
Theorem mux_sum_phase nx key u1 u2 : length (fst u1) = nx -> length (fst u2) = nx ->
  lwe_phase key (mux_sum nx u1 u2) = w32 (c18 + lwe_phase key u1 + lwe_phase key u2).
Proof. intros H1 H2. pose proof (triv_len nx) as Ht. unfold mux_sum.
  rewrite phase_add by (rewrite ?add_len, ?Ht; congruence). rewrite phase_add by (rewrite ?Ht; congruence).
  rewrite phase_trivial. rewrite w32_add_l. apply eqm32_w32. apply eqm32_add; [|apply eqm32_refl].
  apply eqm32_add; [apply w32_eqm|apply eqm32_refl]. Qed.
(* the two inner combinations lie in the right half with margin 1/16, and the sum of the two bootstrapped
   values plus 1/8 is +-1/8 plus the two output errors *)
Theorem mux_region phia phib phic a b c : admissible phia a -> admissible phib b -> admissible phic c ->
  in_half 268435456 (w32 (cm18 + phia + phib)) (a && b) /\ in_half 268435456 (w32 (cm18 - phia + phic)) (negb a && c).
Proof. unfold admissible, in_half. rewrite MU_val, cm18_val. intros Ha Hb Hc. unfold w32, p31, p32.
  split; destruct a; destruct b; destruct c; cbn [andb negb]; lia. Qed.
Theorem mux_sum_value (a b c : bool) e1 e2 :
  Z.abs (e1 + e2) < 536870912 ->
  let u1 := (if a && b then MU else - MU) + e1 in let u2 := (if negb a && c then MU else - MU) + e2 in
  0 < w32 (c18 + u1 + u2) <-> (if a then b else c) = true.
Proof. rewrite MU_val, c18_val. intro He. cbv zeta. unfold w32, p31, p32.
  destruct a; destruct b; destruct c; cbn [andb negb]; split; intro; try lia; try discriminate; try reflexivity. Qed.

(* MUX as a whole: two bootstrappings of the inner combinations (rounded exponents p1, p2 with drifts below the margin 1/16),
   the sum of their outputs plus 1/8 under the extracted key, then the key switch (error e3): the result decrypts to a ? b : c
   whenever the three output errors add up to less than 1/8 *)
Theorem mux_correct_partial n nx key xkey ca cb cc (a b c : bool) (N S p1 p2 d1 d2 : Z) u1 u2 e1 e2 cout e3 :
  length (fst ca) = n -> length (fst cb) = n -> length (fst cc) = n ->
  admissible (lwe_phase key ca) a -> admissible (lwe_phase key cb) b -> admissible (lwe_phase key cc) c ->
  0 < N -> 2 * N * S = p32 -> 0 <= p1 < 2 * N -> 0 <= p2 < 2 * N ->
  eqm32 (p1 * S) (lwe_phase key (mux_lin1 n ca cb) + d1) -> Z.abs d1 < 268435456 ->
  eqm32 (p2 * S) (lwe_phase key (mux_lin2 n ca cc) + d2) -> Z.abs d2 < 268435456 ->
  length (fst u1) = nx -> length (fst u2) = nx ->
  lwe_phase xkey u1 = (if p1 <? N then MU else - MU) + e1 -> lwe_phase xkey u2 = (if p2 <? N then MU else - MU) + e2 ->
  lwe_phase key cout = w32 (lwe_phase xkey (mux_sum nx u1 u2) + e3) -> Z.abs (e1 + e2 + e3) < 536870912 ->
  decrypt_bit key cout = bit_of (if a then b else c).
Proof. intros Hla Hlb Hlc Ha Hb Hc HN HS Hp1 Hp2 Hd1 Hb1 Hd2 Hb2 Hu1 Hu2 Ho1 Ho2 Hout He.
  rewrite (mux_lin1_phase n key ca cb Hla Hlb) in Hd1. rewrite (mux_lin2_phase n key ca cc Hla Hlc) in Hd2.
  destruct (mux_region _ _ _ a b c Ha Hb Hc) as [R1 R2].
  rewrite (region_to_sign N S 268435456 _ d1 p1 (a && b) HN HS Hp1 ltac:(lia) R1 Hb1 Hd1) in Ho1.
  rewrite (region_to_sign N S 268435456 _ d2 p2 (negb a && c) HN HS Hp2 ltac:(lia) R2 Hb2 Hd2) in Ho2.
  rewrite (mux_sum_phase nx xkey u1 u2 Hu1 Hu2), Ho1, Ho2 in Hout.
  pose proof (mux_sum_value a b c e1 (e2 + e3) ltac:(replace (e1 + (e2 + e3)) with (e1 + e2 + e3) by ring; exact He)) as V. cbv zeta in V.
  assert (E : lwe_phase key cout = w32 (c18 + ((if a && b then MU else - MU) + e1) + ((if negb a && c then MU else - MU) + (e2 + e3)))).
  { rewrite Hout. apply eqm32_w32. eapply eqm32_trans; [apply eqm32_add; [apply w32_eqm|apply eqm32_refl]|].
    match goal with |- eqm32 ?x ?y => replace y with x by ring end. apply eqm32_refl. }
  unfold decrypt_bit, bit_of. rewrite E.
  destruct (Z.ltb_spec 0 (w32 (c18 + ((if a && b then MU else - MU) + e1) + ((if negb a && c then MU else - MU) + (e2 + e3))))) as [Hpos|Hneg].
  - rewrite (proj1 V Hpos). reflexivity.
  - destruct (if a then b else c) eqn:Ev; [exfalso; pose proof (proj2 V eq_refl); lia|reflexivity]. Qed.
