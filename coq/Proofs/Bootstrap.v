(* Proofs/Bootstrap.v — C04: rotation of the test polynomial and extraction of coefficient 0 give the p-th
   coefficient of the anticyclic extension; the sign a constant test vector yields; the scratch array. *)
From Coq Require Import ZArith Lia List Bool.
From TV Require Import Base.Int32 Base.Sums Ring.NegaRing Model.Numeric Model.Lwe Model.Poly Model.Tlwe Model.Decomp Model.Tgsw
  Model.KeySwitch Model.Bootstrap Proofs.Lwe Proofs.Poly.
Import ListNotations.
Local Open Scope Z_scope.

(* coefficient 0 of X^(2N-p) * v, for every p in [0,2N): v_p for p < N, -v_(p-N) otherwise *)
Theorem anticyclic_coeff0 (v : list Z) (p : nat) : (0 < length v)%nat -> (p < 2 * length v)%nat -> Forall is_i32 v ->
  exists tv, rotated_testvect v (Z.of_nat p) = Some tv /\ length tv = length v /\ nth 0 tv 0 = anti v (Z.of_nat p).
Proof. intros HN Hp Hv. set (N := length v) in *. unfold rotated_testvect.
  assert (Hnth : forall i, (i < N)%nat -> w32 (nth i v 0) = nth i v 0).
  { intros i Hi. apply w32_id. rewrite Forall_forall in Hv. apply Hv, nth_In. exact Hi. }
  destruct (Z.eqb_spec (Z.of_nat p) 0) as [H0|H0].
  - exists v. split; [reflexivity|]. split; [reflexivity|]. unfold anti. fold N.
    destruct (Z.ltb_spec (Z.of_nat p) (Z.of_nat N)); [|lia]. f_equal. lia.
  - fold N. replace (2 * Z.of_nat N - Z.of_nat p) with (Z.of_nat (2 * N - p)) by lia.
    rewrite (mulByXai_ok v HN (2 * N - p)%nat) by (fold N; lia). fold N.
    eexists. split; [reflexivity|]. split; [now rewrite map_length, seq_length|].
    rewrite (nth_map_seq _ N 0 HN). unfold xai_coeff, anti. fold N.
    destruct (Nat.ltb_spec (2 * N - p) N) as [Ha|Ha]; destruct (Z.ltb_spec (Z.of_nat p) (Z.of_nat N)) as [Hb|Hb]; try lia.
    + destruct (Nat.ltb_spec 0 (2 * N - p)); [|lia]. f_equal. f_equal. f_equal. lia.
    + destruct (Nat.ltb_spec 0 (2 * N - p - N)) as [Hc|Hc]; [f_equal; lia|]. lia.
    + destruct (Nat.ltb_spec 0 (2 * N - p - N)) as [Hc|Hc]; [lia|].
      f_equal. f_equal. f_equal. lia. Qed.

Lemma nth_repeat_lt {A} (x d : A) : forall n i, (i < n)%nat -> nth i (repeat x n) d = x.
Proof. induction n as [|n IH]; intros [|i] H; cbn; try lia; [reflexivity|apply IH; lia]. Qed.

(* with the constant test vector the message is +mu iff p in [0,N), else -mu: half-open, both edges *)
Theorem anti_constant mu N p : 0 <= p < 2 * Z.of_nat N ->
  anti (repeat mu N) p = if p <? Z.of_nat N then mu else w32 (- mu).
Proof. intro Hp. unfold anti. rewrite repeat_length.
  destruct (Z.ltb_spec p (Z.of_nat N)) as [H|H].
  - apply nth_repeat_lt. lia.
  - f_equal. f_equal. apply nth_repeat_lt. lia. Qed.

Theorem rot_exponent_range N s x : (0 < N)%nat -> 0 <= rot_exponent N s x < 2 * Z.of_nat N.
Proof. intro HN. unfold rot_exponent. apply Z.mod_pos_bound. lia. Qed.

Theorem boot_sign_spec N s x : boot_sign N s x = 1 <-> rot_exponent N s x < Z.of_nat N.
Proof. unfold boot_sign. destruct (Z.ltb_spec (rot_exponent N s x) (Z.of_nat N)); split; intro; try lia; discriminate. Qed.

(* the scratch array: sized n, every write is in range, for all n and N (in particular n > N) *)
Theorem bara_in_range n N2 a : length a = n -> bara_fill n N2 a = Some (map (fun ai => modSwitchFrom ai N2) a).
Proof. intro H. unfold bara_fill. rewrite H, Nat.leb_refl. reflexivity. Qed.
(* sized N it is overrun as soon as n > N  (finding D1, repaired in /repo) *)
Theorem bara_sized_N_refuted N a : (N < length a)%nat -> bara_fill N (2 * Z.of_nat N) a = None.
Proof. intro H. unfold bara_fill. destruct (Nat.leb_spec (length a) N); [lia|reflexivity]. Qed.

(* the output is a function of the rounded input (barb, bara) only: the input's own phase error enters through
   the rounding, never additively *)
Theorem bootstrap_depends_on_rounded_input_only l B k N bk mu x x' :
  modSwitchFrom (snd x) (2 * Z.of_nat N) = modSwitchFrom (snd x') (2 * Z.of_nat N) ->
  map (fun ai => modSwitchFrom ai (2 * Z.of_nat N)) (fst x) = map (fun ai => modSwitchFrom ai (2 * Z.of_nat N)) (fst x') ->
  bootstrap_woKS true l B k N bk mu x = bootstrap_woKS true l B k N bk mu x'.
Proof. intros Hb Ha. unfold bootstrap_woKS. cbv zeta. rewrite !bara_in_range by reflexivity. rewrite Hb, Ha. reflexivity. Qed.

(* skipped exponents: a zero entry leaves the accumulator untouched, whatever the key *)
Theorem blind_rotate_zero_exponents l B bk acc : blind_rotate l B bk (repeat 0 (length bk)) acc = Some acc.
Proof. unfold blind_rotate. revert acc. induction bk as [|g bk IH]; intro acc; [reflexivity|].
  cbn [length repeat combine fold_left br_step snd]. cbn. apply IH. Qed.
