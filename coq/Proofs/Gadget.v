(* Proofs/Gadget.v — C09: the external product multiplies messages.
   If row (u,i) of a TGSW sample is Z_(u,i) plus m*h_i at coefficient 0 of component u (what tGswAddMuIntH writes on top of
   the encryptions of zero), then for every accumulator
       phase(C (x) acc) = m * (phase(acc) - phase(eps(acc))) + sum_p dec_p(acc) * phase(Z_p)        (mod 2^32)
   where eps(acc) is the coefficient-wise truncation error of the gadget decomposition (0 <= eps < 2^(32-l*Bgbit), C12). *)
From Coq Require Import ZArith Lia List Bool.
From TV Require Import Base.Int32 Base.Sums Ring.NegaRing Model.Lwe Model.Poly Model.Tlwe Model.Decomp Model.Tgsw
  Proofs.Lwe Proofs.Poly Proofs.Tlwe Proofs.Digits Proofs.Decomp Proofs.Karatsuba Proofs.Tgsw.
Import ListNotations.
Local Open Scope Z_scope.

(* ---- generic sums ---- *)
Lemma zsum_app n m f : zsum (n + m) f = zsum n f + zsum m (fun i => f (n + i)%nat).
Proof. induction m as [|m IH]; [rewrite Nat.add_0_r; cbn; ring|].
  rewrite Nat.add_succ_r. cbn [zsum]. rewrite IH. ring. Qed.
Lemma zsum_split a b f : zsum (a * b) f = zsum a (fun u => zsum b (fun i => f (u * b + i)%nat)).
Proof. induction a as [|a IH]; [reflexivity|]. cbn [zsum]. rewrite <- IH.
  replace (S a * b)%nat with (a * b + b)%nat by lia. apply zsum_app. Qed.

Lemma nth_concat_blocks {A} (d : A) (l : nat) : forall (bs : list (list A)) u i,
  Forall (fun b => length b = l) bs -> (u < length bs)%nat -> (i < l)%nat ->
  nth (u * l + i) (concat bs) d = nth i (nth u bs []) d.
Proof. induction bs as [|b bs IH]; intros u i Hf Hu Hi; [cbn in Hu; lia|].
  apply Forall_cons_iff in Hf as [Hb Hf']. cbn [concat]. destruct u as [|u].
  - cbn [nth Nat.mul Nat.add]. apply app_nth1. lia.
  - replace (S u * l + i)%nat with (length b + (u * l + i))%nat by lia. rewrite app_nth2_plus. cbn [nth]. apply IH; [exact Hf'|cbn in Hu; lia|exact Hi]. Qed.

Section G.
Variable N : nat.
Hypothesis Npos : (0 < N)%nat.
Variable key : list (list Z).
Variable k : nat.
Hypothesis Hkey : wf_tkey N k key.
Variables (l : nat) (B : Z).
Hypothesis V : valid_layout l B.

Notation PH := (PHv N key).
Notation "f ~ g" := (eqNm N f g) (at level 70).

Definition vsum (n : nat) (F : nat -> vec) : vec := fun j => zsum n (fun p => F p j).
Lemma vsum_eqm n F G : (forall p, (p < n)%nat -> F p ~ G p) -> vsum n F ~ vsum n G.
Proof. intros H j Hj. unfold vsum. apply zsum_eqm. intros p Hp. apply H; assumption. Qed.

Lemma rows_sum_vsum ph : forall ds (C : tgsw), length ds = length C ->
  eqv (rows_sum N ph ds C) (vsum (length ds) (fun p => act N (nth p ds []) (ph (nth p C [])))).
Proof. induction ds as [|d ds IH]; intros [|c C] H; cbn [length] in H; try lia; [intro j; reflexivity|].
  intro j. cbn [rows_sum length]. unfold vsum, vadd. rewrite zsum_shift. cbn [nth]. f_equal.
  rewrite (IH C ltac:(lia) j). reflexivity. Qed.

Lemma mask_sum_vsum : forall ky m, length ky = length m ->
  eqv (mask_sum N ky m) (vsum (length ky) (fun u => act N (nth u ky []) (ofl (nth u m [])))).
Proof. induction ky as [|s ky IH]; intros [|a m] H; cbn [length] in H; try lia; [intro j; reflexivity|].
  intro j. cbn [mask_sum length]. unfold vsum, vadd. rewrite zsum_shift. cbn [nth]. f_equal. rewrite (IH m ltac:(lia) j). reflexivity. Qed.

(* ---- one polynomial with c added to coefficient 0 ---- *)
Definition bump (c : Z) (a : list Z) : list Z := match a with x :: r => w32 (x + c) :: r | [] => [] end.
Lemma bump_len c a : length (bump c a) = length a. Proof. destruct a; reflexivity. Qed.
Lemma ofl_bump c a : lenN N a -> ofl (bump c a) ~ vadd (ofl a) (vscale c e0).
Proof. unfold lenN. intros Ha i Hi. destruct a as [|x r]; [cbn in Ha; lia|]. unfold vadd, vscale, e0, ofl.
  destruct i as [|i]; cbn [bump nth]; [eapply eqm32_trans; [apply w32_eqm|]; replace (c * 1) with c by ring; apply eqm32_refl|].
  replace (nth i r 0 + c * 0) with (nth i r 0) by ring. apply eqm32_refl. Qed.

(* ---- replacing component u of a sample by f(component u), where f adds the vector g ---- *)
Lemma upd_nth_app {A} (f : A -> A) : forall (m : list A) b u,
  upd_nth u f (m ++ [b]) = if (u <? length m)%nat then upd_nth u f m ++ [b] else if (u =? length m)%nat then m ++ [f b] else m ++ [b].
Proof. induction m as [|x m IH]; intros b u; cbn [app length].
  - destruct u as [|u]; cbn; [reflexivity|]. destruct u; reflexivity.
  - destruct u as [|u]; cbn [upd_nth]; [reflexivity|]. rewrite IH.
    change (S u <? S (length m))%nat with (u <? length m)%nat. change (S u =? S (length m))%nat with (u =? length m)%nat.
    destruct (u <? length m)%nat; [reflexivity|]. destruct (u =? length m)%nat; reflexivity. Qed.

Section Upd.
Variable f : list Z -> list Z.
Variable g : vec.
Hypothesis f_len : forall a, lenN N a -> lenN N (f a).
Hypothesis f_add : forall a, lenN N a -> ofl (f a) ~ vadd (ofl a) g.

Lemma mask_sum_upd : forall ky m u, Forall (lenN N) ky -> Forall (lenN N) m -> length ky = length m -> (u < length m)%nat ->
  mask_sum N ky (upd_nth u f m) ~ vadd (mask_sum N ky m) (act N (nth u ky []) g).
Proof. induction ky as [|s ky IH]; intros [|a m] u Hk Hm Hl Hu; cbn [length] in *; try lia.
  apply Forall_cons_iff in Hk as [Hs Hk']. apply Forall_cons_iff in Hm as [Ha Hm'].
  destruct u as [|u]; cbn [upd_nth mask_sum nth].
  - eapply eqNm_trans; [apply vadd_eqm; [apply (act_eqm N Npos), f_add, Ha|apply eqNm_refl]|].
    intros i Hi. pose proof (act_vadd N s (ofl a) g i) as E. unfold vadd in *. rewrite E.
    match goal with |- eqm32 ?x ?y => replace y with x by ring end. apply eqm32_refl.
  - eapply eqNm_trans; [apply vadd_eqm; [apply eqNm_refl|apply IH; try assumption; lia]|].
    intros i Hi. unfold vadd. match goal with |- eqm32 ?x ?y => replace y with x by ring end. apply eqm32_refl. Qed.

(* the phase moves by g when the body is changed, by - s_u * g when mask component u is changed *)
Theorem PHv_upd r u : wf_tsample N k r -> (u <= k)%nat ->
  PH (upd_nth u f r) ~ vadd (PH r) (if (u =? k)%nat then g else vopp (act N (nth u key []) g)).
Proof. intros Hr Hu. destruct Hkey as [Hk Hkf]. destruct (wf_split N Npos k r Hr) as (m & b & -> & Hm & Hmf & Hb).
  rewrite upd_nth_app, Hm. destruct (Nat.ltb_spec u k) as [Hlt|Hge].
  - destruct (Nat.eqb_spec u k); [lia|]. rewrite !PHv_app.
    eapply eqNm_trans; [apply vsub_eqm; [apply eqNm_refl|apply mask_sum_upd; try assumption; lia]|].
    intros i Hi. unfold vsub, vadd, vopp. match goal with |- eqm32 ?x ?y => replace y with x by ring end. apply eqm32_refl.
  - assert (u = k) by lia. subst u. rewrite Nat.eqb_refl. rewrite !PHv_app.
    eapply eqNm_trans; [apply vsub_eqm; [apply f_add, Hb|apply eqNm_refl]|].
    intros i Hi. unfold vsub, vadd. match goal with |- eqm32 ?x ?y => replace y with x by ring end. apply eqm32_refl. Qed.
Lemma upd_wf r u : wf_tsample N k r -> wf_tsample N k (upd_nth u f r).
Proof. intros [Hl Hf]. split.
  - rewrite <- Hl. clear. revert u. induction r as [|x r IH]; intros [|u]; cbn; try reflexivity. now rewrite IH.
  - clear Hl. revert u. induction Hf as [|x r Hx Hf IH]; intros [|u]; cbn [upd_nth]; constructor; try assumption; [apply f_len, Hx|apply IH]. Qed.
End Upd.

(* ---- the rows of a TGSW encryption of the integer m ---- *)
Definition hc (m : Z) (i : nat) : Z := w32 (m * h32 B i).                       (* what tGswAddMuIntH adds *)
Definition gadget_row (m : Z) (p : nat) (row : tsample) : tsample := upd_nth (p / l) (bump (hc m (p mod l))) row.

Lemma hc_eqm m i : eqm32 (hc m i) (m * hpow B i).
Proof. unfold hc, h32. eapply eqm32_trans; [apply w32_eqm|]. apply eqm32_mul; [apply eqm32_refl|apply w32_eqm]. Qed.

(* what the model's tGswAddMuIntH does to row p *)
Lemma add_muint_h_nth m (C : tgsw) p : (p < length C)%nat -> nth p (add_muint_h l B m C) [] = gadget_row m p (nth p C []).
Proof. intro Hp. unfold add_muint_h.
  set (F := fun pr : nat * tsample => upd_nth (fst pr / l) (fun a => match a with x :: r => w32 (x + w32 (m * h32 B (fst pr mod l))) :: r | [] => [] end) (snd pr)).
  change (nth p (map F (combine (seq 0 (length C)) C)) [] = gadget_row m p (nth p C [])).
  assert (Hd : F (p, nth p C []) = gadget_row m p (nth p C [])) by reflexivity. rewrite <- Hd.
  rewrite nth_indep with (d' := F (0%nat, [])) by (rewrite map_length, combine_length, seq_length; lia).
  rewrite map_nth. f_equal. rewrite combine_nth by (now rewrite seq_length). rewrite seq_nth by lia. reflexivity. Qed.

(* phase of a gadget row: the row's own phase plus  m h_i  (body block)  or  - s_u * m h_i  (mask block u) *)
Lemma gadget_row_phase m p row : wf_tsample N k row -> (p / l <= k)%nat ->
  PH (gadget_row m p row) ~
  vadd (PH row) (if (p / l =? k)%nat then vscale (hc m (p mod l)) e0 else vopp (act N (nth (p / l) key []) (vscale (hc m (p mod l)) e0))).
Proof. intros Hr Hu. unfold gadget_row. apply (PHv_upd (bump (hc m (p mod l))) (vscale (hc m (p mod l)) e0)); try assumption.
  intros a Ha. now apply ofl_bump. Qed.

(* ---- digits by index ---- *)
Lemma decomp_nth acc u i : wf_tsample N k acc -> (u <= k)%nat -> (i < l)%nat ->
  nth (u * l + i) (tlwe_decomp l B acc) [] = map (fun x => spec_digit l B x i) (nth u acc []).
Proof. intros [Hl Hf] Hu Hi. unfold tlwe_decomp. rewrite (proj1 (tlwe_decomp_rows l B acc V)).
  rewrite (nth_concat_blocks [] l); [|apply Forall_forall; intros b Hb; apply in_map_iff in Hb as (q & <- & _); now rewrite map_length, seq_length
                                    |rewrite map_length; lia|exact Hi].
  rewrite nth_indep with (d' := map (fun p => map (fun x => spec_digit l B x p) []) (seq 0 l)) by (rewrite map_length; lia).
  rewrite (map_nth (fun poly => map (fun p => map (fun x => spec_digit l B x p) poly) (seq 0 l)) acc [] u).
  rewrite nth_indep with (d' := map (fun x => spec_digit l B x 0) (nth u acc [])) by (now rewrite map_length, seq_length).
  rewrite (map_nth (fun p => map (fun x => spec_digit l B x p) (nth u acc [])) (seq 0 l) 0%nat i). rewrite seq_nth by lia. reflexivity. Qed.

(* the truncation-error polynomial of a polynomial, and the error sample of a sample *)
Definition err_poly (a : list Z) : list Z := map (decomp_err l B) a.
Definition err_sample (c : tsample) : tsample := map err_poly c.
Lemma err_sample_wf c : wf_tsample N k c -> wf_tsample N k (err_sample c).
Proof. intros [Hl Hf]. split; [unfold err_sample; now rewrite map_length|]. apply Forall_forall. intros q Hq. apply in_map_iff in Hq as (a & <- & Ha).
  unfold err_poly. cbv beta. rewrite map_length. rewrite Forall_forall in Hf. apply Hf, Ha. Qed.

(* sum_i h_i * digit_i(a) = a - eps(a), coefficient-wise mod 2^32, scaled by m *)
Lemma nth_map_z (f : Z -> Z) a j d : (j < length a)%nat -> nth j (map f a) d = f (nth j a 0).
Proof. intro H. rewrite nth_indep with (d' := f 0) by (rewrite map_length; lia). apply map_nth. Qed.
Lemma recompose_poly m a : lenN N a ->
  vsum l (fun i => vscale (hc m i) (ofl (map (fun x => spec_digit l B x i) a))) ~ vscale m (vsub (ofl a) (ofl (err_poly a))).
Proof. unfold lenN. intros Ha j Hj. unfold vsum, vscale, vsub, ofl, err_poly.
  rewrite (nth_map_z (decomp_err l B)) by lia.
  rewrite (zsum_ext l _ (fun i => hc m i * spec_digit l B (nth j a 0) i)) by (intros i Hi; rewrite (nth_map_z (fun x => spec_digit l B x i)) by lia; reflexivity).
  set (x := nth j a 0).
  eapply eqm32_trans; [apply zsum_eqm; intros i Hi; apply eqm32_mul; [apply hc_eqm|apply eqm32_refl]|].
  rewrite (zsum_ext l _ (fun i => m * (spec_digit l B x i * pow2 (shp 32 B i)))) by (intros; unfold hpow, shp; ring).
  rewrite zsum_scale. apply eqm32_mul; [apply eqm32_refl|]. apply (proj1 (decomp_recompose l B x V)). Qed.

(* ---- more sums ---- *)
Lemma act_vsum a n F : eqv (act N a (vsum n F)) (vsum n (fun p => act N a (F p))).
Proof. induction n as [|n IH]; intro j.
  - rewrite (act_ext N a (vsum 0 F) vzero ltac:(intro; reflexivity) j). apply act_vzero.
  - rewrite (act_ext N a (vsum (S n) F) (vadd (vsum n F) (F n)) ltac:(intro; reflexivity) j).
    rewrite (act_vadd N a (vsum n F) (F n) j). unfold vadd. rewrite (IH j). reflexivity. Qed.
Lemma vsum_split a b F : eqv (vsum (a * b) F) (vsum a (fun u => vsum b (fun i => F (u * b + i)%nat))).
Proof. intro j. unfold vsum. apply zsum_split. Qed.
Lemma act_vopp a v : eqv (act N a (vopp v)) (vopp (act N a v)).
Proof. intro j. rewrite (act_ext N a (vopp v) (vscale (-1) v) ltac:(intro; unfold vopp, vscale; ring) j).
  rewrite (act_vscale N a (-1) v j). unfold vscale, vopp. ring. Qed.

Variable m : Z.
Definition gadvec (u i : nat) : vec :=
  if (u =? k)%nat then vscale (hc m i) e0 else vopp (act N (nth u key []) (vscale (hc m i) e0)).
Definition Rvec (a : list Z) : vec := vscale m (vsub (ofl a) (ofl (err_poly a))).

Lemma act_digit_e0 (a : list Z) i c : lenN N a ->
  act N (map (fun x => spec_digit l B x i) a) (vscale c e0) ~ vscale c (ofl (map (fun x => spec_digit l B x i) a)).
Proof. intros Ha j Hj. rewrite (act_vscale N _ c e0 j). unfold vscale.
  rewrite (act_e0 N Npos (map (fun x => spec_digit l B x i) a) ltac:(rewrite map_length; unfold lenN in Ha; lia) j Hj). apply eqm32_refl. Qed.

(* the l rows of block u together *)
Lemma block_sum acc u : wf_tsample N k acc -> (u <= k)%nat ->
  vsum l (fun i => act N (nth (u * l + i) (tlwe_decomp l B acc) []) (gadvec u i)) ~
  (if (u =? k)%nat then Rvec (nth u acc []) else vopp (act N (nth u key []) (Rvec (nth u acc [])))).
Proof. intros Hacc Hu. pose proof Hacc as [Hal Haf].
  assert (Ha : lenN N (nth u acc [])) by (rewrite Forall_forall in Haf; apply Haf, nth_In; lia).
  set (a := nth u acc []) in *.
  eapply eqNm_trans.
  { apply vsum_eqm. intros i Hi. rewrite (decomp_nth acc u i Hacc Hu Hi). fold a. apply eqNm_refl. }
  unfold gadvec. destruct (Nat.eqb_spec u k) as [Huk|Huk].
  - eapply eqNm_trans; [apply vsum_eqm; intros i Hi; apply act_digit_e0, Ha|]. apply recompose_poly, Ha.
  - set (s := nth u key []).
    eapply eqNm_trans.
    { apply vsum_eqm. intros i Hi. intros j Hj.
      rewrite (act_vopp _ (act N s (vscale (hc m i) e0)) j). unfold vopp.
      rewrite (act_comm N _ s (vscale (hc m i) e0) j). apply eqm32_opp.
      apply (act_eqm N Npos s _ _ (act_digit_e0 a i (hc m i) Ha) j Hj). }
    intros j Hj. unfold vsum. rewrite zsum_opp. unfold vopp. apply eqm32_opp.
    pose proof (act_vsum s l (fun i => vscale (hc m i) (ofl (map (fun x => spec_digit l B x i) a))) j) as E. unfold vsum in E. rewrite <- E.
    apply (act_eqm N Npos s _ _ (recompose_poly m a Ha) j Hj). Qed.

Lemma decomp_length acc : wf_tsample N k acc -> length (tlwe_decomp l B acc) = (S k * l)%nat.
Proof. intros [Hl Hf]. unfold tlwe_decomp. rewrite (proj1 (tlwe_decomp_rows l B acc V)).
  rewrite <- Hl. clear. induction acc as [|a acc IH]; [reflexivity|]. cbn [map concat length]. rewrite app_length, IH, map_length, seq_length. lia. Qed.

(* C09: the external product multiplies the message, for every integer m, every accumulator, every rows of zero-encryptions Z0 *)
Theorem extprod_message Z0 acc : wf_tsample N k acc -> Forall (wf_tsample N k) Z0 -> length Z0 = (S k * l)%nat ->
  PH (extprod l B (add_muint_h l B m Z0) acc) ~
  vadd (vscale m (vsub (PH acc) (PH (err_sample acc)))) (rows_sum N PH (tlwe_decomp l B acc) Z0).
Proof. intros Hacc HZ HlZ. pose proof (decomp_length acc Hacc) as Hdl.
  set (ds := tlwe_decomp l B acc) in *. set (C := add_muint_h l B m Z0).
  assert (HlC : length C = (S k * l)%nat) by (unfold C, add_muint_h; rewrite map_length, combine_length, seq_length; lia).
  assert (Hrow : forall p, (p < S k * l)%nat -> (p / l <= k)%nat).
  { intros p Hp. destruct (Nat.eq_dec l 0) as [->|Hl0]; [lia|]. assert (p / l < S k)%nat by (apply Nat.div_lt_upper_bound; lia). lia. }
  assert (HCwf : Forall (wf_tsample N k) C).
  { apply Forall_forall. intros c Hc. destruct (In_nth _ _ [] Hc) as (p & Hp & <-).
    assert (Hp' : (p < length Z0)%nat) by (rewrite HlZ, <- HlC; exact Hp). unfold C. rewrite add_muint_h_nth by exact Hp'.
    unfold gadget_row. apply upd_wf; [intros a Ha; unfold lenN; now rewrite bump_len|]. rewrite Forall_forall in HZ. apply HZ, nth_In. exact Hp'. }
  eapply eqNm_trans; [apply (extprod_phase_vec N Npos key k l B C acc Hkey Hacc HCwf)|]. fold ds.
  (* indexed sums *)
  intros j Hj. rewrite (rows_sum_vsum PH ds C ltac:(lia) j). unfold vadd at 1. rewrite (rows_sum_vsum PH ds Z0 ltac:(lia) j).
  rewrite Hdl.
  (* each row: own phase + gadget part *)
  assert (Hp : forall p, (p < S k * l)%nat ->
     act N (nth p ds []) (PH (nth p C [])) ~ vadd (act N (nth p ds []) (PH (nth p Z0 []))) (act N (nth p ds []) (gadvec (p / l) (p mod l)))).
  { intros p Hp. unfold C. rewrite add_muint_h_nth by lia.
    eapply eqNm_trans; [apply (act_eqm N Npos), gadget_row_phase; [rewrite Forall_forall in HZ; apply HZ, nth_In; lia|apply Hrow, Hp]|].
    intros i Hi. rewrite (act_vadd N (nth p ds []) _ _ i). unfold vadd, gadvec. apply eqm32_refl. }
  eapply eqm32_trans; [apply (vsum_eqm (S k * l) _ _ Hp j Hj)|].
  unfold vsum at 1. rewrite (zsum_ext (S k * l) _ (fun p => act N (nth p ds []) (PH (nth p Z0 [])) j + act N (nth p ds []) (gadvec (p / l) (p mod l)) j)) by (intros; reflexivity).
  rewrite zsum_add. rewrite Z.add_comm. apply eqm32_add; [|apply eqm32_refl].
  (* the gadget part, block by block *)
  rewrite (zsum_split (S k) l).
  assert (Hl0 : (0 < l)%nat) by (destruct V as (_ & ? & _); lia).
  rewrite (zsum_ext (S k) _ (fun u => vsum l (fun i => act N (nth (u * l + i) ds []) (gadvec u i)) j)).
  2:{ intros u Hu. unfold vsum. apply zsum_ext. intros i Hi.
      rewrite Nat.div_add_l by lia. rewrite (Nat.div_small i l Hi), Nat.add_0_r.
      rewrite Nat.add_comm, Nat.mod_add by lia. rewrite (Nat.mod_small i l Hi). reflexivity. }
  eapply eqm32_trans; [apply zsum_eqm; intros u Hu; apply (block_sum acc u Hacc ltac:(lia) j Hj)|].
  (* blocks u < k are mask components, block k is the body *)
  cbn [zsum]. rewrite Nat.eqb_refl.
  rewrite (zsum_ext k _ (fun u => - act N (nth u key []) (Rvec (nth u acc [])) j)) by (intros u Hu; destruct (Nat.eqb_spec u k); [lia|reflexivity]).
  destruct Hkey as [Hk Hkf]. destruct (wf_split N Npos k acc Hacc) as (ma & b & -> & Hma & Hmaf & Hb).
  unfold err_sample. rewrite map_app. cbn [map]. rewrite !PHv_app.
  replace (nth k (ma ++ [b]) []) with b by (rewrite <- Hma; symmetry; apply nth_middle).
  unfold vscale, vsub. rewrite (mask_sum_vsum key ma ltac:(lia) j), (mask_sum_vsum key (map err_poly ma) ltac:(rewrite map_length; lia) j).
  unfold vsum. rewrite Hk.
  rewrite (zsum_ext k _ (fun u => - (m * (act N (nth u key []) (ofl (nth u ma [])) j - act N (nth u key []) (ofl (nth u (map err_poly ma) [])) j)))).
  2:{ intros u Hu. rewrite app_nth1 by lia. f_equal. unfold Rvec.
      rewrite (act_vscale N (nth u key []) m _ j). unfold vscale. f_equal.
      rewrite (act_vsub N (nth u key []) _ _ j). unfold vsub. f_equal.
      f_equal. f_equal. symmetry. exact (map_nth err_poly ma [] u). }
  rewrite zsum_opp, zsum_scale, zsum_sub. unfold Rvec, vscale, vsub.
  match goal with |- eqm32 ?x ?y => replace y with x by ring end. apply eqm32_refl. Qed.

End G.
