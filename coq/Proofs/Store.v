(* Proofs/Store.v — C15: evaluation on a store of ciphertext objects.  Every gate is the sequence of API calls the
   C++ makes (boot-gates.cpp), each call reading and writing store locations in the order of the C++: the combination
   is built in a private temporary (a fresh location), the bootstrapping writes its result location only after its
   last read of any input.  Hence for EVERY aliasing pattern of (result, a, b, c) the result location ends with the
   gate function of the INITIAL contents and every other location is unchanged; element-wise in-place loops read
   index i before writing index i.  The evaluation functions take no draw stream: no randomness by type. *)
From Coq Require Import ZArith Lia List Bool.
From TV Require Import Base.Int32 Model.Numeric Model.Lwe Model.Gates Proofs.Netlist.
Import ListNotations.
Local Open Scope Z_scope.

Section S.
Variable n : nat.                                   (* LWE dimension of the gate ciphertexts *)
Variable BOOT : sample -> sample.                   (* tfhe_bootstrap_FFT(., bk, MU, .): a function of its input sample (and the key) *)
Variable BOOTW : sample -> sample.                  (* tfhe_bootstrap_woKS_FFT *)
Variable KSW : sample -> sample.                    (* lweKeySwitch *)
Variable nx : nat.

Definition store := list sample.
Definition dflt : sample := ([], 0).
Definition rd (st : store) (l : nat) : sample := nth l st dflt.

(* API calls on locations; the first location is written, the others are read *)
Inductive call :=
| CTrivial (dst : nat) (len : nat) (mu : Z)
| CAddTo (dst src : nat) | CSubTo (dst src : nat)
| CAddMulTo (dst : nat) (p : Z) (src : nat) | CSubMulTo (dst : nat) (p : Z) (src : nat)
| CNegate (dst src : nat) | CCopy (dst src : nat)
| CBoot (dst src : nat) | CBootW (dst src : nat) | CKs (dst src : nat).
Definition exec (st : store) (c : call) : store :=
  match c with
  | CTrivial d len mu => set_nth d (lwe_trivial len mu) st
  | CAddTo d s => set_nth d (lwe_add (rd st d) (rd st s)) st
  | CSubTo d s => set_nth d (lwe_sub (rd st d) (rd st s)) st
  | CAddMulTo d p s => set_nth d (lwe_addmul (rd st d) p (rd st s)) st
  | CSubMulTo d p s => set_nth d (lwe_submul (rd st d) p (rd st s)) st
  | CNegate d s => set_nth d (lwe_negate (rd st s)) st
  | CCopy d s => set_nth d (lwe_copy (rd st s)) st
  | CBoot d s => set_nth d (BOOT (rd st s)) st
  | CBootW d s => set_nth d (BOOTW (rd st s)) st
  | CKs d s => set_nth d (KSW (rd st s)) st
  end.

(* the body of each gate of boot-gates.cpp; t is the private temporary (new_LweSample) *)
Definition gate_calls (g : gate2) (res a b t : nat) : list call :=
  match g with
  | NAND  => [CTrivial t n c18;  CSubTo t a; CSubTo t b; CBoot res t]
  | OR    => [CTrivial t n c18;  CAddTo t a; CAddTo t b; CBoot res t]
  | AND   => [CTrivial t n cm18; CAddTo t a; CAddTo t b; CBoot res t]
  | XOR   => [CTrivial t n c14;  CAddMulTo t 2 a; CAddMulTo t 2 b; CBoot res t]
  | XNOR  => [CTrivial t n cm14; CSubMulTo t 2 a; CSubMulTo t 2 b; CBoot res t]
  | NOR   => [CTrivial t n cm18; CSubTo t a; CSubTo t b; CBoot res t]
  | ANDNY => [CTrivial t n cm18; CSubTo t a; CAddTo t b; CBoot res t]
  | ANDYN => [CTrivial t n cm18; CAddTo t a; CSubTo t b; CBoot res t]
  | ORNY  => [CTrivial t n c18;  CSubTo t a; CAddTo t b; CBoot res t]
  | ORYN  => [CTrivial t n c18;  CAddTo t a; CSubTo t b; CBoot res t]
  end.
(* bootsMUX: temporaries t (in/out dimension), t1, u1, u2 (extracted dimension) *)
Definition mux_calls (res a b c t t1 u1 u2 : nat) : list call :=
  [CTrivial t n cm18; CAddTo t a; CAddTo t b; CBootW u1 t;
   CTrivial t n cm18; CSubTo t a; CAddTo t c; CBootW u2 t;
   CTrivial t1 nx c18; CAddTo t1 u1; CAddTo t1 u2; CKs res t1].

Definition run (st : store) (cs : list call) : store := fold_left exec cs st.

Lemma rd_set_same st l x : (l < length st)%nat -> rd (set_nth l x st) l = x.
Proof. intro H. unfold rd. rewrite nth_set_nth by exact H. now rewrite Nat.eqb_refl. Qed.
Lemma rd_set_other st l m x : (l < length st)%nat -> m <> l -> rd (set_nth l x st) m = rd st m.
Proof. intros H Hn. unfold rd. rewrite nth_set_nth by exact H. destruct (Nat.eqb_spec m l); [contradiction|reflexivity]. Qed.

(* every two-input gate, every aliasing pattern: the inputs a, b and the result may be any locations, equal or not;
   the temporary is a location distinct from them (it is freshly allocated) *)
Theorem gate_alias_invariant g st res a b t :
  (res < length st)%nat -> (a < length st)%nat -> (b < length st)%nat -> (t < length st)%nat -> t <> res -> t <> a -> t <> b ->
  let st' := run st (gate_calls g res a b t) in
  rd st' res = BOOT (gate_lin g n (rd st a) (rd st b)) /\
  (forall l, l <> res -> l <> t -> rd st' l = rd st l).
Proof. intros Hr Ha Hb Ht Htr Hta Htb.
  assert (L : forall x l, length (set_nth l x st) = length st) by (intros; apply set_nth_length).
  destruct g; cbn [gate_calls run fold_left exec gate_lin]; cbv zeta;
  repeat (rewrite ?rd_set_same, ?set_nth_length by (rewrite ?set_nth_length; assumption);
          rewrite ?(rd_set_other _ t a), ?(rd_set_other _ t b) by (rewrite ?set_nth_length; auto));
  (split; [reflexivity|]);
  intros l Hl1 Hl2; repeat rewrite rd_set_other by (rewrite ?set_nth_length; auto); reflexivity. Qed.

(* MUX, every aliasing pattern of (result, a, b, c) *)
Theorem mux_alias_invariant st res a b c t t1 u1 u2 :
  (res < length st)%nat -> (a < length st)%nat -> (b < length st)%nat -> (c < length st)%nat ->
  (t < length st)%nat -> (t1 < length st)%nat -> (u1 < length st)%nat -> (u2 < length st)%nat ->
  NoDup [t; t1; u1; u2] -> ~ In res [t; t1; u1; u2] -> ~ In a [t; t1; u1; u2] -> ~ In b [t; t1; u1; u2] -> ~ In c [t; t1; u1; u2] ->
  let st' := run st (mux_calls res a b c t t1 u1 u2) in
  rd st' res = KSW (mux_sum nx (BOOTW (mux_lin1 n (rd st a) (rd st b))) (BOOTW (mux_lin2 n (rd st a) (rd st c)))) /\
  (forall l, l <> res -> ~ In l [t; t1; u1; u2] -> rd st' l = rd st l).
Proof. intros Hr Ha Hb Hc Ht Ht1 Hu1 Hu2 ND Nr Na Nb Nc.
  assert (D : t <> t1 /\ t <> u1 /\ t <> u2 /\ t1 <> u1 /\ t1 <> u2 /\ u1 <> u2).
  { inversion ND as [|? ? H1 ND1]; subst. inversion ND1 as [|? ? H2 ND2]; subst. inversion ND2 as [|? ? H3 ND3]; subst.
    cbn in H1, H2, H3. repeat split; intro; subst; tauto. }
  destruct D as (D1 & D2 & D3 & D4 & D5 & D6).
  cbn in Nr, Na, Nb, Nc.
  assert (Ar : res <> t /\ res <> t1 /\ res <> u1 /\ res <> u2) by (repeat split; intro; subst; tauto).
  assert (Aa : a <> t /\ a <> t1 /\ a <> u1 /\ a <> u2) by (repeat split; intro; subst; tauto).
  assert (Ab : b <> t /\ b <> t1 /\ b <> u1 /\ b <> u2) by (repeat split; intro; subst; tauto).
  assert (Ac : c <> t /\ c <> t1 /\ c <> u1 /\ c <> u2) by (repeat split; intro; subst; tauto).
  destruct Ar as (? & ? & ? & ?), Aa as (? & ? & ? & ?), Ab as (? & ? & ? & ?), Ac as (? & ? & ? & ?).
  cbn [mux_calls run fold_left exec]. cbv zeta.
  Ltac step := first [ rewrite rd_set_same by (rewrite ?set_nth_length; assumption)
                     | rewrite rd_set_other by (rewrite ?set_nth_length; auto) ].
  split.
  - repeat step. unfold mux_sum, mux_lin1, mux_lin2. reflexivity.
  - intros l Hl Hin. cbn in Hin.
    assert (l <> t /\ l <> t1 /\ l <> u1 /\ l <> u2) as (? & ? & ? & ?) by (repeat split; intro; subst; tauto).
    repeat step. reflexivity. Qed.

(* NOT / COPY with the result aliasing the input *)
Theorem not_alias st a : (a < length st)%nat -> rd (exec st (CNegate a a)) a = lwe_negate (rd st a).
Proof. intro H. cbn [exec]. now rewrite rd_set_same. Qed.
Theorem copy_alias st a : (a < length st)%nat -> rd (exec st (CCopy a a)) a = rd st a.
Proof. intro H. cbn [exec]. now rewrite rd_set_same. Qed.
End S.

(* ---- element-wise in-place loops of lwe-functions.cpp when the operand IS the result (same array):
        for i: r[i] = f(r[i], r[i]) reads index i before writing index i, so the result is the map over the initial values ---- *)
Fixpoint loop_alias (f : Z -> Z -> Z) (i : nat) (fuel : nat) (arr : list Z) : list Z :=
  match fuel with
  | O => arr
  | S fuel' => loop_alias f (S i) fuel' (set_nth i (w32 (f (nth i arr 0) (nth i arr 0))) arr)
  end.
Lemma set_nth_middle {A} (v x : A) : forall pre r, set_nth (length pre) v (pre ++ x :: r) = pre ++ v :: r.
Proof. induction pre as [|y pre IH]; intro r; cbn; [reflexivity|]. now rewrite IH. Qed.
Lemma loop_alias_gen f : forall rest pre,
  loop_alias f (length pre) (length rest) (pre ++ rest) = pre ++ map (fun x => w32 (f x x)) rest.
Proof. induction rest as [|x r IH]; intro pre; cbn [length loop_alias map]; [reflexivity|].
  rewrite nth_middle, set_nth_middle.
  replace (S (length pre)) with (length (pre ++ [w32 (f x x)])) by (rewrite app_length; cbn; lia).
  replace (pre ++ w32 (f x x) :: r) with ((pre ++ [w32 (f x x)]) ++ r) by (rewrite <- app_assoc; reflexivity).
  rewrite IH. rewrite <- app_assoc. reflexivity. Qed.
Theorem loop_alias_spec f arr : loop_alias f 0 (length arr) arr = map (fun x => w32 (f x x)) arr.
Proof. exact (loop_alias_gen f arr []). Qed.
