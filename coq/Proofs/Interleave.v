(* Proofs/Interleave.v — C06 (the part that is logic): (1) threads that read a shared immutable state and read/write only
   their own private state end, under EVERY schedule, in the state they reach alone; (2) a transform operation that fills
   every scratch cell it later reads before reading it does not depend on what earlier calls left in the scratch buffers;
   the index loops of the half-complex layout cover every cell of the 2N-point buffers exactly. *)
From Coq Require Import ZArith Lia List Bool Arith.
Import ListNotations.

Section NI.
Variables (Shared Priv Op : Type).
Variable step : Shared -> Priv -> Op -> Priv.       (* one evaluation step of a thread: reads shared + own, writes own *)
Variable sh : Shared.

Definition conf := (nat -> Priv) * (nat -> list Op) : Type.   (* private state and remaining program of every thread *)
Definition upd {A} (f : nat -> A) (t : nat) (x : A) : nat -> A := fun u => if Nat.eqb u t then x else f u.
Definition sched_step (c : conf) (t : nat) : conf :=
  match snd c t with
  | [] => c                                                    (* thread t has finished: the scheduler's choice is a no-op *)
  | o :: rest => (upd (fst c) t (step sh (fst c t) o), upd (snd c) t rest)
  end.
Definition run_sched (c : conf) (schedule : list nat) : conf := fold_left sched_step schedule c.
Definition run_alone (p : Priv) (ops : list Op) : Priv := fold_left (step sh) ops p.

(* invariant: whatever has been scheduled so far, thread t's state is what it reaches alone on the ops it has consumed *)
Definition InvT (init : nat -> Priv) (progs : nat -> list Op) (t : nat) (c : conf) : Prop :=
  exists done, progs t = done ++ snd c t /\ fst c t = run_alone (init t) done.
Lemma sched_step_inv init progs t c u : InvT init progs t c -> InvT init progs t (sched_step c u).
Proof. intros (d & Hd & Hs). unfold sched_step. destruct (snd c u) as [|o rest] eqn:E; [exists d; split; assumption|].
  unfold InvT. cbn [fst snd]. unfold upd. destruct (Nat.eqb_spec t u) as [->|Hne].
  - exists (d ++ [o]). rewrite E in Hd. split; [rewrite <- app_assoc; exact Hd|].
    unfold run_alone in *. rewrite fold_left_app. cbn. now rewrite Hs.
  - exists d. split; assumption. Qed.
Theorem interleave_noninterference init progs schedule t : InvT init progs t (run_sched (init, progs) schedule).
Proof. unfold run_sched.
  assert (G : forall sc c, InvT init progs t c -> InvT init progs t (fold_left sched_step sc c)).
  { induction sc as [|u sc IH]; intros c H; [exact H|]. cbn [fold_left]. apply IH, sched_step_inv, H. }
  apply G. exists []. split; reflexivity. Qed.

(* when the schedule is long enough for thread t to finish, its final state is the sequential result, whatever the others did *)
Corollary finished_thread_is_sequential init progs schedule t :
  snd (run_sched (init, progs) schedule) t = [] -> fst (run_sched (init, progs) schedule) t = run_alone (init t) (progs t).
Proof. intro H. destruct (interleave_noninterference init progs schedule t) as (d & Hd & Hs). rewrite H, app_nil_r in Hd. now rewrite Hd. Qed.
End NI.

(* ---- scratch buffers: fill every cell, then transform ---- *)
Section Scratch.
Variable R : Type.
Fixpoint set_at (n : nat) (x : R) (l : list R) : list R :=
  match n, l with
  | _, [] => []
  | O, _ :: r => x :: r
  | S n', y :: r => y :: set_at n' x r
  end.
Lemma set_at_length x : forall n l, length (set_at n x l) = length l.
Proof. induction n as [|n IH]; intros [|y l]; cbn; try reflexivity. now rewrite IH. Qed.
Lemma nth_set_at x d : forall n l j, (n < length l)%nat -> nth j (set_at n x l) d = if Nat.eqb j n then x else nth j l d.
Proof. induction n as [|n IH]; intros [|y l] j H; cbn [length] in H; try lia.
  - destruct j; reflexivity.
  - destruct j as [|j]; [reflexivity|]. cbn [set_at nth]. rewrite IH by lia. reflexivity. Qed.

(* a write loop: for every i in idx, buf[pos i] = val i *)
Definition write_loop (idx : list nat) (pos : nat -> nat) (val : nat -> R) (buf : list R) : list R :=
  fold_left (fun b i => set_at (pos i) (val i) b) idx buf.
Lemma write_loop_length idx pos val : forall buf, length (write_loop idx pos val buf) = length buf.
Proof. unfold write_loop. induction idx as [|i idx IH]; intro buf; cbn [fold_left]; [reflexivity|]. rewrite IH. apply set_at_length. Qed.
(* a cell written by the loop no longer depends on the previous content *)
Lemma write_loop_cell d idx pos val : forall buf1 buf2 j, length buf1 = length buf2 ->
  (forall i, In i idx -> (pos i < length buf1)%nat) ->
  (In j (map pos idx) \/ nth j buf1 d = nth j buf2 d) ->
  nth j (write_loop idx pos val buf1) d = nth j (write_loop idx pos val buf2) d.
Proof. unfold write_loop. induction idx as [|i idx IH]; intros b1 b2 j Hl Hp H; cbn [fold_left].
  - destruct H as [[]|H]; exact H.
  - apply IH; [now rewrite !set_at_length|intros k Hk; rewrite set_at_length; apply Hp; now right|].
    cbn [map In] in H. destruct H as [[Hj|Hj]|Hj].
    + right. rewrite !nth_set_at by (try rewrite <- Hl; apply Hp; now left). subst j. now rewrite Nat.eqb_refl.
    + now left.
    + right. rewrite !nth_set_at by (try rewrite <- Hl; apply Hp; now left). destruct (Nat.eqb j (pos i)); [reflexivity|exact Hj]. Qed.

(* hence: if the loop's positions cover the whole buffer, the result does not depend on the initial content at all *)
Theorem full_cover_forgets_history d idx pos val buf1 buf2 : length buf1 = length buf2 ->
  (forall i, In i idx -> (pos i < length buf1)%nat) ->
  (forall j, (j < length buf1)%nat -> In j (map pos idx)) ->
  forall F : list R -> list R, (forall u v, length u = length v -> (forall j, (j < length u)%nat -> nth j u d = nth j v d) -> F u = F v) ->
  F (write_loop idx pos val buf1) = F (write_loop idx pos val buf2).
Proof. intros Hl Hp Hc F HF. apply HF; [now rewrite !write_loop_length|].
  intros j Hj. rewrite write_loop_length in Hj. apply write_loop_cell; [exact Hl|exact Hp|left; apply Hc, Hj]. Qed.
End Scratch.

(* ---- the half-complex layout of execute_direct_torus32 (nayuki, fftw): even cells cleared, a[i] at 2i+1, its conjugate
        at 2N-1-2i, for i < N/2: every one of the 2N cells is written exactly by one of the three loops ---- *)
Theorem halfcomplex_index_cover N j : Nat.even N = true -> (j < 2 * N)%nat ->
  (exists i, (i < N)%nat /\ j = (2 * i)%nat) \/
  (exists i, (i < N / 2)%nat /\ j = (2 * i + 1)%nat) \/
  (exists i, (i < N / 2)%nat /\ j = (2 * N - 1 - 2 * i)%nat).
Proof. intros HN Hj. apply Nat.even_spec in HN as [h ->].
  replace (2 * h / 2)%nat with h by (symmetry; rewrite Nat.mul_comm; apply Nat.div_mul; lia).
  destruct (Nat.even j) eqn:Ej.
  - left. apply Nat.even_spec in Ej as [i ->]. exists i. lia.
  - assert (Oj : Nat.odd j = true) by (rewrite <- Nat.negb_even, Ej; reflexivity).
    apply Nat.odd_spec in Oj as [i ->]. destruct (Nat.lt_ge_cases i h).
    + right. left. exists i. lia.
    + right. right. exists (2 * h - 1 - i)%nat. lia. Qed.
(* ... and the three ranges are disjoint: no cell is written twice with different roles *)
Theorem halfcomplex_index_disjoint N i1 i2 : (i1 < N / 2)%nat -> (i2 < N / 2)%nat -> Nat.even N = true ->
  (2 * i1 + 1 <> 2 * N - 1 - 2 * i2)%nat.
Proof. intros H1 H2 HN. apply Nat.even_spec in HN as [h ->].
  replace (2 * h / 2)%nat with h in * by (symmetry; rewrite Nat.mul_comm; apply Nat.div_mul; lia). lia. Qed.
