(* Proofs/Numeric.v — C13: modulus switch rounds to nearest, round trips, torus<->real. *)
From Coq Require Import ZArith Lia List Bool.
From TV Require Import Base.Int32 Model.Numeric.
Import ListNotations.
Local Open Scope Z_scope.

(* side condition forced by the proof: with it the 64-bit quotient never reaches M *)
Definition goodM (M:Z) : Prop :=
  2 <= M < p31 /\ (2*M+1) * (p63 mod M) < p32 /\
  (p63 / M) mod p32 + 2 * (p63 mod M) < p32.

Definition goodMb (M:Z) : bool :=
  let (q, r) := Z.div_eucl p63 M in
  (2 <=? M) && (M <? p31) && ((2*M+1) * r <? p32) && (q mod p32 + 2 * r <? p32).
Lemma goodMb_ok M : goodMb M = true -> goodM M.
Proof. unfold goodMb, goodM, Z.modulo, Z.div. destruct (Z.div_eucl p63 M) as [q r].
  rewrite !andb_true_iff, !Z.leb_le, !Z.ltb_lt. tauto. Qed.

Lemma multiple_gt_neg (D B : Z) : 0 < B -> (B | D) -> - B < D -> 0 <= D.
Proof. intros HB [c ->] H. destruct (Z_lt_ge_dec c 0) as [Hc|Hc]; [|nia].
  assert (c*B <= (-1)*B) by (apply Zmult_le_compat_r; lia). lia. Qed.

Lemma u64_small z : 0 <= z < p64 -> u64 z = z.
Proof. intro. unfold u64. now apply Z.mod_small. Qed.

Section WithM.
Variable M : Z.
Hypothesis HM : 2 <= M < p31.
Let q := p63 / M.
Let r0 := p63 mod M.

Lemma Hq : p63 = M*q + r0. Proof. apply Z.div_mod. lia. Qed.
Lemma Hr0 : 0 <= r0 < M. Proof. apply Z.mod_pos_bound. lia. Qed.
Lemma Hqpos : p32 <= q.
Proof. unfold q. apply Z.div_le_lower_bound; try lia. unfold p63, p32, p31 in *. lia. Qed.
Lemma Hqle : q <= 2^62.
Proof. unfold q. apply Z.div_le_upper_bound; try lia. unfold p63. lia. Qed.

Lemma interv_eq : interv M = q * 2.
Proof. unfold interv. rewrite (u64_small M) by (unfold p64, p31 in *; lia). fold q.
  apply u64_small. pose proof Hqpos. pose proof Hqle. unfold p64, p32 in *. lia. Qed.
Lemma half_interv : interv M / 2 = q.
Proof. rewrite interv_eq. apply Z.div_mul. lia. Qed.

(* the raw quotient before conversion to int32 *)
Definition msf_raw (phase:Z) : Z := phase64 phase M / interv M.

Theorem msf_raw_nearest phase : goodM M ->
  0 <= msf_raw phase < M /\
  exists r, (r = msf_raw phase \/ (msf_raw phase = 0 /\ r = M)) /\
            Z.abs (M * u32 phase - r * p32) <= p31.
Proof.
  intros (_ & Hsmall & Hgood). fold r0 in Hsmall, Hgood. fold q in Hgood.
  unfold msf_raw, phase64. rewrite half_interv, interv_eq.
  set (u := u32 phase).
  assert (Hu : 0 <= u < p32) by apply u32_range.
  pose proof Hq as Hq. pose proof Hr0 as Hr0. pose proof Hqpos as Hqpos. pose proof Hqle as Hqle.
  unfold u64.
  set (v := u * p32 + q) in *.
  destruct (Z_lt_ge_dec v p64) as [Hv|Hv].
  - assert (Hvm : v mod p64 = v) by (apply Z.mod_small; unfold v, p32 in *; lia).
    rewrite Hvm. set (k := v / (q*2)).
    assert (Hk : (q*2)*k <= v < (q*2)*(k+1)).
    { unfold k. unfold p32 in Hqpos. split. apply Z.mul_div_le; lia.
      pose proof (Z.mod_pos_bound v (q*2) ltac:(lia)).
      pose proof (Z.div_mod v (q*2) ltac:(lia)). lia. }
    assert (Hk0 : 0 <= k) by (unfold k; apply Z.div_pos; unfold v, p32 in *; lia).
    assert (Hup : M*u*p32 < (2*k+1) * p63).
    { assert (u*p32 < (2*k+1)*q) by (unfold v in Hk; lia).
      assert (M*(u*p32) < M*((2*k+1)*q)) by (apply Zmult_lt_compat_l; lia).
      nia. }
    assert (Hlow : (2*k-1) * p63 <= M*u*p32).
    { destruct (Z.eq_dec k 0) as [->|Hk1]; [unfold p63, p32 in *; nia|].
      assert (Hl : (2*k-1)*q <= u*p32) by (unfold v in Hk; lia).
      assert (HkM : k <= M).
      { assert (v < 2*q*(M+1)) by (unfold v, p64, p63, p32 in *; nia).
        unfold k. apply Z.lt_succ_r. apply Z.div_lt_upper_bound; unfold p32 in *; lia. }
      assert (0 <= M*u*p32 - (2*k-1)*p63).
      { apply multiple_gt_neg with (B := p32); [reflexivity| |].
        - exists (M*u - (2*k-1)*p31). unfold p63, p31, p32. ring.
        - assert (M*((2*k-1)*q) <= M*(u*p32)) by (apply Zmult_le_compat_l; lia).
          assert ((2*k-1)*r0 <= (2*M+1)*r0) by (apply Zmult_le_compat_r; lia).
          nia. }
      lia. }
    assert (HkltM : k < M).
    { destruct (Z_lt_ge_dec k M) as [|Hge]; [assumption|exfalso].
      assert (H1 : (q*2)*M <= v) by nia.
      unfold v in H1, Hv.
      assert (H2 : p64 - q - 2*r0 <= u*p32) by (unfold p64, p63 in *; nia).
      set (ql := q mod p32) in *.
      pose proof (Z.div_mod q p32 ltac:(unfold p32; lia)) as Hqd. fold ql in Hqd.
      pose proof (Z.mod_pos_bound q p32 ltac:(reflexivity)) as Hql. fold ql in Hql.
      set (qh := q / p32) in *.
      assert (H3 : p64 - 2*r0 <= (u+qh)*p32 + ql < p64) by lia.
      clear - H3 Hql Hgood Hr0. unfold p64, p32 in *. lia. }
    split; [lia|]. exists k. split; [left; reflexivity|].
    apply Z.abs_le. change p63 with (p31*p32) in *. unfold p31, p32 in *. nia.
  - assert (Hvm : v mod p64 = v - p64).
    { symmetry. apply Z.mod_unique with (q := 1); unfold v, p64, p32 in *; lia. }
    rewrite Hvm.
    assert (Hk : (v - p64) / (q*2) = 0) by (apply Z.div_small; unfold v, p64, p32 in *; lia).
    rewrite Hk. split; [lia|]. exists M. split; [right; split; reflexivity|].
    apply Z.abs_le. unfold v in Hv.
    assert ((p32 - u) * p32 <= q) by (unfold p64, p32 in *; lia).
    assert (M*((p32 - u) * p32) <= M*q) by (apply Zmult_le_compat_l; lia).
    change p63 with (p31*p32) in *. unfold p31, p32 in *. nia.
Qed.

Lemma modSwitchFrom_raw phase : goodM M -> modSwitchFrom phase M = msf_raw phase.
Proof. intro G. unfold modSwitchFrom. fold (msf_raw phase).
  destruct (msf_raw_nearest phase G) as [Hr _]. apply w32_id. unfold is_i32. lia. Qed.

(* approxPhase returns the torus encoding of the switched integer *)
Lemma msf_raw_bounds phase : 0 <= msf_raw phase /\ msf_raw phase * (q*2) <= phase64 phase M < p64.
Proof. unfold msf_raw. rewrite interv_eq. pose proof Hqpos.
  assert (0 <= phase64 phase M < p64) by (unfold phase64, u64; apply Z.mod_pos_bound; reflexivity).
  split. apply Z.div_pos; unfold p32 in *; lia.
  split; [|lia]. rewrite Z.mul_comm. apply Z.mul_div_le. unfold p32 in *; lia. Qed.

Theorem approxPhase_encode phase :
  msf_raw phase < p31 ->
  approxPhase phase M = modSwitchTo (msf_raw phase) M.
Proof. intro Hlt. unfold approxPhase, modSwitchTo. cbv zeta.
  pose proof (msf_raw_bounds phase) as (H0 & H1 & H2). pose proof Hqpos.
  f_equal. f_equal.
  rewrite (u64_small (msf_raw phase)) by (unfold p64, p31 in *; lia).
  rewrite !interv_eq. rewrite u64_small by (unfold p32 in *; nia).
  unfold msf_raw. rewrite interv_eq.
  rewrite Zmod_eq_full by (unfold p32 in *; lia). lia. Qed.

(* encoding then switching is the identity on [0,M) *)
Theorem roundtrip mu : 0 <= mu < M -> modSwitchFrom (modSwitchTo mu M) M = mu.
Proof. intro Hmu. pose proof Hq. pose proof Hr0. pose proof Hqpos. pose proof Hqle.
  unfold modSwitchTo. rewrite interv_eq.
  rewrite (u64_small mu) by (unfold p64, p31 in *; lia).
  assert (Hmuq : 0 <= mu*q <= (M-1)*q).
  { split; [apply Z.mul_nonneg_nonneg; unfold p32 in *; lia|apply Zmult_le_compat_r; unfold p32 in *; lia]. }
  assert (Hmq : 0 <= mu * (q*2) < p64) by (unfold p64, p63, p32 in *; lia).
  rewrite (u64_small _ Hmq).
  set (T := mu * (q*2) / p32).
  assert (HT : T * p32 <= mu*(q*2) < T*p32 + p32).
  { unfold T. pose proof (Z.div_mod (mu*(q*2)) p32 ltac:(unfold p32; lia)).
    pose proof (Z.mod_pos_bound (mu*(q*2)) p32 ltac:(reflexivity)). lia. }
  assert (HT0 : 0 <= T < p32).
  { split. unfold T. apply Z.div_pos; [lia|reflexivity]. change p64 with (p32*p32) in Hmq. nia. }
  unfold modSwitchFrom, phase64. rewrite half_interv, interv_eq.
  rewrite u32_w32. unfold u32. rewrite (Z.mod_small T) by lia.
  assert (Hv : 0 <= T*p32 + q < p64) by (unfold p64, p63, p32 in *; nia).
  rewrite (u64_small _ Hv).
  assert (Hk : (T*p32 + q) / (q*2) = mu).
  { symmetry. apply Z.div_unique with (r := T*p32 + q - mu*(q*2)); unfold p32 in *; lia. }
  rewrite Hk. apply w32_id. unfold is_i32, p31 in *. lia. Qed.

End WithM.

(* every M the property names satisfies the side condition *)
Fixpoint zrange (lo : Z) (n : nat) : list Z :=
  match n with O => [] | S n' => lo :: zrange (lo + 1) n' end.
Lemma zrange_in n : forall lo x, lo <= x < lo + Z.of_nat n -> In x (zrange lo n).
Proof. induction n as [|n IH]; intros lo x H; [lia|]. cbn [zrange].
  destruct (Z.eq_dec x lo) as [->|Hne]; [now left|right]. apply IH. lia. Qed.

Lemma sweep_small : forallb goodMb (zrange 2 (Z.to_nat 32767)) = true.
Proof. vm_cast_no_check (eq_refl true). Qed.

Theorem goodM_small M : 2 <= M <= 32768 -> goodM M.
Proof. intro H. apply goodMb_ok.
  pose proof sweep_small as S. rewrite forallb_forall in S. apply S.
  apply zrange_in. rewrite Z2Nat.id; lia. Qed.

Definition pows : list Z := map (fun j => 2 ^ Z.of_nat j) (seq 1 30).
Lemma sweep_pow : forallb goodMb pows = true.
Proof. vm_compute. reflexivity. Qed.
Theorem goodM_pow2 j : 1 <= j <= 30 -> goodM (2^j).
Proof. intro H. apply goodMb_ok.
  pose proof sweep_pow as S. rewrite forallb_forall in S. apply S.
  unfold pows. apply in_map_iff. exists (Z.to_nat j). split; [f_equal; lia|]. apply in_seq. lia. Qed.

(* the property's domain *)
Definition inDomain (M:Z) : Prop := (2 <= M <= 32768) \/ (exists j, 1 <= j <= 30 /\ M = 2^j).
Lemma inDomain_good M : inDomain M -> goodM M.
Proof. intros [H|[j [Hj ->]]]; [now apply goodM_small|now apply goodM_pow2]. Qed.
Lemma goodM_range M : goodM M -> 2 <= M < p31. Proof. intros (H & _). exact H. Qed.

Theorem modSwitchFrom_nearest phase M : inDomain M ->
  0 <= modSwitchFrom phase M < M /\
  exists r, (r = modSwitchFrom phase M \/ (modSwitchFrom phase M = 0 /\ r = M)) /\
            Z.abs (M * u32 phase - r * p32) <= p31.
Proof. intro D. pose proof (inDomain_good M D) as G. pose proof (goodM_range M G) as R.
  rewrite (modSwitchFrom_raw M R phase G). exact (msf_raw_nearest M R phase G). Qed.

Theorem approxPhase_is_encode_of_switch phase M : inDomain M ->
  approxPhase phase M = modSwitchTo (modSwitchFrom phase M) M.
Proof. intro D. pose proof (inDomain_good M D) as G. pose proof (goodM_range M G) as R.
  rewrite (modSwitchFrom_raw M R phase G). apply approxPhase_encode; [exact R|].
  destruct (msf_raw_nearest M R phase G) as [Hr _]. lia. Qed.

Theorem modSwitch_roundtrip mu M : 2 <= M < p31 -> 0 <= mu < M ->
  modSwitchFrom (modSwitchTo mu M) M = mu.
Proof. intros R Hmu. now apply roundtrip. Qed.

(* ---- torus <-> real ---- *)
Lemma quot_mul_cancel a b : b <> 0 -> Z.quot (a * b) b = a.
Proof. intro. now apply Z.quot_mul. Qed.

Lemma dtot32_grid num : dtot32 num 32 = w32 num.
Proof. unfold dtot32. cbv zeta. change (pow2 32) with p32.
  rewrite quot_mul_cancel by (unfold p32; lia).
  apply eqm32_w32. apply eqm32_iff_divide.
  exists (- Z.quot num p32). lia. Qed.

Theorem dtot32_t32tod x : is_i32 x -> dtot32 (t32tod_num x) t32tod_k = x.
Proof. intro H. unfold t32tod_num, t32tod_k. rewrite dtot32_grid. now apply w32_id. Qed.

(* periodic modulo 1 on the 2^-32 grid *)
Theorem dtot32_periodic_grid num m : dtot32 (num + m * pow2 32) 32 = dtot32 num 32.
Proof. rewrite !dtot32_grid. apply eqm32_w32, eqm32_iff_divide. exists m. change (pow2 32) with p32. lia. Qed.

(* ... but not off the grid: truncation toward zero (finding D4) *)
Theorem dtot32_periodic_refuted : exists num k m, 0 <= k /\ dtot32 (num + m * pow2 k) k <> dtot32 num k.
Proof. exists (2^38 + 1), 40, (-1). split; [lia|]. vm_compute. discriminate. Qed.

(* M = 2^31 is not an int32 value: the bit pattern is -2^31, interv becomes 0 (finding D5) *)
Theorem modSwitch_2p31_refuted : interv (w32 (2^31)) = 0.
Proof. vm_compute. reflexivity. Qed.
