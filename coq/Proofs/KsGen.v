(* Proofs/KsGen.v — C07 -> C08: the key-switching key that lweCreateKeySwitchKey builds from its draw stream satisfies the
   hypothesis of C08's key-switching theorem: row (i,j,h>=1) exists at its three-level index, has the output dimension, and its
   phase under the output key is h*s_i*2^(32-(j+1)basebit) plus one of the recentred noises. *)
From Coq Require Import ZArith Lia List Bool.
From TV Require Import Base.Int32 Base.Sums Ring.NegaRing Model.Numeric Model.Lwe Model.Poly Model.Tlwe Model.Decomp Model.Tgsw
  Model.KeySwitch Model.Gates Model.Encrypt Proofs.Lwe Proofs.Digits Proofs.KeySwitch Proofs.Gadget Proofs.Encrypt.
Import ListNotations.
Local Open Scope Z_scope.

Lemma abs_w32_le d eta : Z.abs d <= eta -> Z.abs (w32 d) <= eta.
Proof. intro H. destruct (Z_lt_ge_dec (Z.abs d) p31) as [Hs|Hb].
  - rewrite w32_id; [exact H|]. unfold is_i32, p31 in *. lia.
  - pose proof (w32_range d) as R. unfold is_i32, p31 in *. lia. Qed.

(* every row of ks_rows has the output dimension; the list has one row per cell *)
Lemma ks_rows_shape out_key : forall cells noises ds rows r, ks_rows out_key cells noises ds = Some (rows, r) ->
  length rows = length cells /\ Forall (fun row => length (fst row) = length out_key) rows.
Proof. induction cells as [|[mess h] cells IH]; intros noises ds rows r H; cbn [ks_rows] in H.
  - inversion H; subst. split; [reflexivity|constructor].
  - destruct (h =? 0).
    + destruct (ks_rows out_key cells noises ds) as [[rows' r']|] eqn:E; [|discriminate]. inversion H; subst.
      destruct (IH _ _ _ _ E) as [Hl Hf]. split; [cbn; now rewrite Hl|]. constructor; [cbn; apply repeat_length|exact Hf].
    + destruct noises as [|nz noises]; [discriminate|].
      destruct (take_u (length out_key) ds) as [[mask r1]|] eqn:E1; [|discriminate].
      destruct (ks_rows out_key cells noises r1) as [[rows' r']|] eqn:E; [|discriminate]. inversion H; subst.
      destruct (IH _ _ _ _ E) as [Hl Hf]. destruct (take_u_spec _ _ _ _ E1) as [_ Hm].
      split; [cbn; now rewrite Hl|]. constructor; [cbn; exact Hm|exact Hf]. Qed.

(* a row with h <> 0 carries its message plus ONE of the noises *)
Lemma ks_expected_in : forall cells noises idx, length (ks_expected cells noises) = length cells -> (idx < length cells)%nat ->
  snd (nth idx cells (0, 0)) <> 0 ->
  exists nz, In nz noises /\ nth idx (ks_expected cells noises) 0 = w32 (fst (nth idx cells (0, 0)) + dtot32_dy nz).
Proof. induction cells as [|[mess h] cells IH]; intros noises idx Hl Hi Hh; [cbn in Hi; lia|].
  cbn [ks_expected] in *. destruct (Z.eqb_spec h 0) as [Hz|Hz].
  - destruct idx as [|idx]; [cbn in Hh; congruence|]. cbn [length] in Hl. cbn [nth]. apply IH; [lia|cbn in Hi; lia|exact Hh].
  - destruct noises as [|nz noises]; [cbn in Hl; lia|]. destruct idx as [|idx].
    + exists nz. split; [now left|reflexivity].
    + cbn [length] in Hl. cbn [nth]. destruct (IH noises idx ltac:(lia) ltac:(cbn in Hi; lia) Hh) as (nz' & Hin & E). exists nz'. split; [now right|exact E]. Qed.

(* the cell at the three-level index *)
Definition ks_msg (si : Z) (j : nat) (h : Z) (b : Z) : Z := w32 (w32 (si * h) * w32 (pow2 (32 - (Z.of_nat j + 1) * b))).
Lemma ks_cells_nth in_key t b i j h : (i < length in_key)%nat -> (j < t)%nat -> (h < Z.to_nat (pow2 b))%nat ->
  nth ((i * t + j) * Z.to_nat (pow2 b) + h) (ks_cells in_key t b) (0, 0) = (ks_msg (nth i in_key 0) j (Z.of_nat h) b, Z.of_nat h).
Proof. intros Hi Hj Hh. set (B := Z.to_nat (pow2 b)) in *. unfold ks_cells. fold B.
  set (blk := fun (si : Z) (j : nat) => map (fun h : Z => (w32 (w32 (si * h) * w32 (pow2 (32 - (Z.of_nat j + 1) * b))), h)) (map Z.of_nat (seq 0 B))).
  change (nth ((i * t + j) * B + h) (flat_map (fun si => flat_map (blk si) (seq 0 t)) in_key) (0, 0) = (ks_msg (nth i in_key 0) j (Z.of_nat h) b, Z.of_nat h)).
  rewrite flat_map_concat_map.
  replace ((i * t + j) * B + h)%nat with (i * (t * B) + (j * B + h))%nat by nia.
  assert (Hbl : forall si j', length (blk si j') = B) by (intros; unfold blk; now rewrite !map_length, seq_length).
  assert (Hin : forall si, length (flat_map (blk si) (seq 0 t)) = (t * B)%nat).
  { intro si. rewrite flat_map_concat_map. clear -Hbl. generalize 0%nat. induction t as [|t' IH]; intro s; [reflexivity|].
    cbn [seq map concat]. rewrite app_length, Hbl, IH. lia. }
  rewrite (nth_concat_blocks (0, 0) (t * B)).
  - rewrite (nth_indep (map (fun si => flat_map (blk si) (seq 0 t)) in_key) [] (flat_map (blk 0) (seq 0 t))) by (rewrite map_length; exact Hi).
    rewrite (map_nth (fun si => flat_map (blk si) (seq 0 t)) in_key 0 i).
    rewrite flat_map_concat_map. rewrite (nth_concat_blocks (0, 0) B).
    + rewrite (nth_indep (map (blk (nth i in_key 0)) (seq 0 t)) [] (blk (nth i in_key 0) 0%nat)) by (now rewrite map_length, seq_length).
      rewrite (map_nth (blk (nth i in_key 0)) (seq 0 t) 0%nat j). rewrite seq_nth by exact Hj. cbn [Nat.add].
      unfold blk. rewrite nth_indep with (d' := (fun h0 : Z => (w32 (w32 (nth i in_key 0 * h0) * w32 (pow2 (32 - (Z.of_nat j + 1) * b))), h0)) 0) by (now rewrite !map_length, seq_length).
      rewrite (map_nth (fun h0 : Z => (w32 (w32 (nth i in_key 0 * h0) * w32 (pow2 (32 - (Z.of_nat j + 1) * b))), h0))).
      rewrite (nth_indep (map Z.of_nat (seq 0 B)) 0 (Z.of_nat 0)) by (now rewrite map_length, seq_length).
      rewrite (map_nth Z.of_nat). rewrite seq_nth by exact Hh. reflexivity.
    + apply Forall_forall. intros x Hx. apply in_map_iff in Hx as (j' & <- & _). apply Hbl.
    + now rewrite map_length, seq_length.
    + exact Hh.
  - apply Forall_forall. intros x Hx. apply in_map_iff in Hx as (si & <- & _). apply Hin.
  - now rewrite map_length.
  - nia. Qed.
Lemma ks_cells_length in_key t b : length (ks_cells in_key t b) = (length in_key * t * Z.to_nat (pow2 b))%nat.
Proof. unfold ks_cells. set (B := Z.to_nat (pow2 b)). induction in_key as [|si r IH]; [reflexivity|].
  cbn [flat_map length]. rewrite app_length, IH.
  assert (E : forall s, length (flat_map (fun j : nat => map (fun h : Z => (w32 (w32 (si * h) * w32 (pow2 (32 - (Z.of_nat j + 1) * b))), h)) (map Z.of_nat (seq 0 B))) (seq s t)) = (t * B)%nat).
  { clear. induction t as [|t' IH]; intro s; [reflexivity|]. cbn [seq flat_map]. rewrite app_length, !map_length, seq_length, IH. lia. }
  rewrite E. lia. Qed.

(* C07 -> C08 *)
Theorem generated_ks_rows_ok in_key out_key t b ds rows r eta : valid_ks t b ->
  create_ks_key in_key out_key t b ds = Some (rows, r) -> 0 <= eta ->
  (forall gs r0, take_g (length in_key * t * (Z.to_nat (pow2 b) - 1)) ds = Some (gs, r0) -> forall nz, In nz (recentre gs) -> Z.abs (dtot32_dy nz) <= eta) ->
  exists e : nat -> nat -> Z -> Z,
    (forall i j h, (i < length in_key)%nat -> (j < t)%nat -> 1 <= h < pow2 b ->
       exists row, ks_get rows (Z.of_nat t) (pow2 b) i j h = Some row /\ length (fst row) = length out_key /\
                   eqm32 (lwe_phase out_key row) (h * nth i in_key 0 * pow2 (shp 32 b j) + e i j h)) /\
    (forall i j h, Z.abs (e i j h) <= eta).
Proof. intros (Hb & Ht & Htb) H Heta Hbound. unfold create_ks_key in H.
  destruct (take_g (length in_key * t * (Z.to_nat (pow2 b) - 1)) ds) as [[gs r0]|] eqn:E0; [|discriminate].
  specialize (Hbound gs r0 eq_refl).
  destruct (ks_rows_shape _ _ _ _ _ _ H) as [Hlen Hdim]. destruct (ks_rows_phases _ _ _ _ _ _ H) as [Hph _].
  set (B := Z.to_nat (pow2 b)) in *.
  assert (HB : Z.of_nat B = pow2 b) by (unfold B; rewrite Z2Nat.id; [reflexivity|apply Z.lt_le_incl, pow2_pos; lia]).
  set (cells := ks_cells in_key t b) in *.
  set (e := fun (i j : nat) (h : Z) =>
         match nth_error rows ((i * t + j) * B + Z.to_nat h) with
         | Some row => if (1 <=? h) && (h <? pow2 b) && (i <? length in_key)%nat && (j <? t)%nat
                       then w32 (lwe_phase out_key row - ks_msg (nth i in_key 0) j h b) else 0
         | None => 0 end).
  assert (Hexp : length (ks_expected cells (recentre gs)) = length cells) by (rewrite <- Hph, map_length; exact Hlen).
  assert (Hrow : forall i j h, (i < length in_key)%nat -> (j < t)%nat -> 1 <= h < pow2 b ->
            exists row nz, nth_error rows ((i * t + j) * B + Z.to_nat h) = Some row /\ length (fst row) = length out_key /\ In nz (recentre gs) /\
                           lwe_phase out_key row = w32 (ks_msg (nth i in_key 0) j h b + dtot32_dy nz)).
  { intros i j h Hi Hj Hh. set (idx := ((i * t + j) * B + Z.to_nat h)%nat).
    assert (Hhn : (Z.to_nat h < B)%nat) by lia.
    assert (Hq : (i * t + j + 1 <= length in_key * t)%nat) by nia.
    assert (Hidx : (idx < length cells)%nat).
    { unfold cells. rewrite ks_cells_length. fold B. unfold idx. set (q := (i * t + j)%nat) in *. set (L := (length in_key * t)%nat) in *. nia. }
    pose proof (ks_cells_nth in_key t b i j (Z.to_nat h) Hi Hj Hhn) as Ec. fold B in Ec. fold idx in Ec. fold cells in Ec.
    rewrite Z2Nat.id in Ec by lia.
    destruct (ks_expected_in cells (recentre gs) idx Hexp Hidx ltac:(rewrite Ec; cbn; lia)) as (nz & Hin & En).
    rewrite Ec in En. cbn [fst] in En.
    destruct (nth_error rows idx) as [row|] eqn:Er; [|apply nth_error_None in Er; lia].
    exists row, nz. split; [reflexivity|]. split; [rewrite Forall_forall in Hdim; apply Hdim; eapply nth_error_In; exact Er|]. split; [exact Hin|].
    rewrite <- En, <- Hph. rewrite nth_indep with (d' := lwe_phase out_key ([], 0)) by (rewrite map_length; lia).
    rewrite (map_nth (lwe_phase out_key)). f_equal. symmetry. apply nth_error_nth. exact Er. }
  exists e. split.
  - intros i j h Hi Hj Hh. destruct (Hrow i j h Hi Hj Hh) as (row & nz & Er & Hd & Hin & Ep).
    exists row. split; [|split; [exact Hd|]].
    + unfold ks_get, ks_index. rewrite <- HB.
      assert (Eidx : Z.to_nat (Z.of_nat B * (Z.of_nat t * Z.of_nat i + Z.of_nat j) + h) = ((i * t + j) * B + Z.to_nat h)%nat) by nia.
      destruct (Z.ltb_spec (Z.of_nat B * (Z.of_nat t * Z.of_nat i + Z.of_nat j) + h) 0); [nia|].
      destruct (Z.ltb_spec h 0); [lia|]. destruct (Z.leb_spec (Z.of_nat B) h); [lia|]. cbn [orb]. rewrite Eidx. exact Er.
    + unfold e. rewrite Er.
      destruct (Z.leb_spec 1 h); [|lia]. destruct (Z.ltb_spec h (pow2 b)); [|lia]. destruct (Nat.ltb_spec i (length in_key)); [|lia]. destruct (Nat.ltb_spec j t); [|lia]. cbn [andb].
      eapply eqm32_trans; [|apply eqm32_add; [apply eqm32_refl|apply eqm32_sym, w32_eqm]].
      replace (h * nth i in_key 0 * pow2 (shp 32 b j) + (lwe_phase out_key row - ks_msg (nth i in_key 0) j h b))
        with (lwe_phase out_key row + (h * nth i in_key 0 * pow2 (shp 32 b j) - ks_msg (nth i in_key 0) j h b)) by ring.
      replace (lwe_phase out_key row) with (lwe_phase out_key row + 0) at 1 by ring.
      apply eqm32_add; [apply eqm32_refl|]. apply eqm32_iff_divide.
      replace (0 - (h * nth i in_key 0 * pow2 (shp 32 b j) - ks_msg (nth i in_key 0) j h b)) with (ks_msg (nth i in_key 0) j h b - h * nth i in_key 0 * pow2 (shp 32 b j)) by ring.
      apply eqm32_iff_divide. unfold ks_msg, shp. eapply eqm32_trans; [apply w32_eqm|].
      replace (h * nth i in_key 0 * pow2 (32 - (Z.of_nat j + 1) * b)) with ((nth i in_key 0 * h) * pow2 (32 - (Z.of_nat j + 1) * b)) by ring.
      apply eqm32_mul; apply w32_eqm.
  - intros i j h. unfold e. destruct (nth_error rows ((i * t + j) * B + Z.to_nat h)) as [row|] eqn:Er; [|lia].
    destruct ((1 <=? h) && (h <? pow2 b) && (i <? length in_key)%nat && (j <? t)%nat) eqn:G; [|lia].
    apply andb_prop in G as [G Gj]. apply andb_prop in G as [G Gi]. apply andb_prop in G as [G1 G2].
    apply Z.leb_le in G1. apply Z.ltb_lt in G2. apply Nat.ltb_lt in Gi. apply Nat.ltb_lt in Gj.
    destruct (Hrow i j h Gi Gj (conj G1 G2)) as (row' & nz & Er' & _ & Hin & Ep). rewrite Er in Er'. inversion Er'; subst row'.
    rewrite Ep. rewrite (eqm32_w32 (w32 (ks_msg (nth i in_key 0) j h b + dtot32_dy nz) - ks_msg (nth i in_key 0) j h b) (dtot32_dy nz)).
    + apply abs_w32_le, Hbound, Hin.
    + replace (dtot32_dy nz) with (ks_msg (nth i in_key 0) j h b + dtot32_dy nz - ks_msg (nth i in_key 0) j h b) at 2 by ring.
      apply eqm32_sub; [apply w32_eqm|apply eqm32_refl]. Qed.
