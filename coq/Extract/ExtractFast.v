(* Fast extraction: ExtrOcamlBasic + the standard library's ExtrOcamlZBigInt (Z -> zarith). *)
Require Coq.extraction.Extraction.
Require Import Coq.extraction.ExtrOcamlBasic.
Require Import Coq.extraction.ExtrOcamlZBigInt.
From TV Require Import Model.Entry.
Extraction Language OCaml.
Extraction "model.ml" dispatch dispatch2.
