(* Pure extraction: ExtrOcamlBasic only; positive/Z stay the extracted inductives. *)
Require Coq.extraction.Extraction.
Require Import Coq.extraction.ExtrOcamlBasic.
From TV Require Import Model.Entry.
Extraction Language OCaml.
Extraction "model.ml" dispatch dispatch2.
