(* Codec/Stream.v — byte streams, the two transports' primitive readers (tfhe_generic_streams.cpp:64-84),
   importer programs and their execution. *)
From Coq Require Import ZArith List Bool.
From TV Require Import Base.Int32.
Import ListNotations.
Local Open Scope Z_scope.

(* bytes are Z in [0,256); -1 stands for a byte whose value is not determined by the input
   (destination cells a short C++-stream read leaves untouched) *)
Definition undef : Z := -1.
Record stream := { rest : list Z; eof : bool; fail : bool }.
Definition good (s : stream) : bool := negb (eof s) && negb (fail s).
Definition mk (r : list Z) : stream := {| rest := r; eof := false; fail := false |}.

Inductive transport := CFile | CppStream.
(* Abort: abort()/uncaught exception; Crash: NULL section dereferenced (SIGSEGV);
   Unknown: the continuation depends on undetermined bytes (only ever produced on a not-good stream) *)
Inductive halt := Abort | Crash | Unknown.
Inductive outcome (A : Type) := Ret (a : A) (s : stream) | Stop (h : halt).
Arguments Ret {A}. Arguments Stop {A}.

Definition op (V : Type) := stream -> outcome V.

(* F.fread(data, n) *)
Definition read_raw (t : transport) (n : nat) : op (list Z) := fun s =>
  match t with
  | CFile =>                                   (* std::fread(...) != bytes -> abort() *)
    if (n <=? length (rest s))%nat
    then Ret (firstn n (rest s)) {| rest := skipn n (rest s); eof := eof s; fail := fail s |}
    else Stop Abort
  | CppStream =>                               (* in.read(...): short read sets eofbit|failbit *)
    if good s then
      if (n <=? length (rest s))%nat
      then Ret (firstn n (rest s)) {| rest := skipn n (rest s); eof := false; fail := false |}
      else Ret (rest s ++ repeat undef (n - length (rest s))) {| rest := []; eof := true; fail := true |}
    else Ret (repeat undef n) {| rest := rest s; eof := eof s; fail := true |}
  end.

(* importer programs *)
Inductive prog (A : Type) : Type :=
| Done (a : A)
| Halt (h : halt)
| Bind {V : Type} (o : op V) (k : V -> prog A).
Arguments Done {A}. Arguments Halt {A}. Arguments Bind {A V}.

Fixpoint run {A} (p : prog A) (s : stream) : outcome A :=
  match p with
  | Done a => Ret a s
  | Halt h => Stop h
  | Bind o k => match o s with Stop h => Stop h | Ret v s' => run (k v) s' end
  end.

(* sequencing of programs *)
Fixpoint pbind {A B} (p : prog A) (f : A -> prog B) : prog B :=
  match p with
  | Done a => f a
  | Halt h => Halt h
  | Bind o k => Bind o (fun v => pbind (k v) f)
  end.
(* n-fold repetition collecting the results *)
Fixpoint prepeat {A} (n : nat) (p : prog A) : prog (list A) :=
  match n with
  | O => Done []
  | S n' => pbind p (fun a => pbind (prepeat n' p) (fun l => Done (a :: l)))
  end.

(* little-endian integers *)
Fixpoint le_bytes (nb : nat) (z : Z) : list Z :=
  match nb with O => [] | S n => z mod 256 :: le_bytes n (z / 256) end.
Fixpoint le_value (bs : list Z) : Z :=
  match bs with [] => 0 | b :: r => b + 256 * le_value r end.
Definition has_undef (bs : list Z) : bool := existsb (fun b => b <? 0) bs.
Definition le32 (z : Z) : list Z := le_bytes 4 (u32 z).
Definition le64 (z : Z) : list Z := le_bytes 8 (u64 z).
Definition i32_of (bs : list Z) : Z := w32 (le_value (map (fun b => if b <? 0 then 0 else b) bs)).
Definition u64_of (bs : list Z) : Z := le_value (map (fun b => if b <? 0 then 0 else b) bs).

(* int32 variable filled by a (possibly short) read, then compared with an expected type tag.
   [init] is the variable's content before the read: None = uninitialised *)
Definition merge_init (init : option Z) (bs : list Z) : list Z :=
  match init with
  | None => bs
  | Some v => map (fun xb => if fst xb <? 0 then snd xb else fst xb) (combine bs (le32 v))
  end.
Definition check_tag (t : transport) (uid : Z) (init : option Z) : prog unit :=
  Bind (read_raw t 4) (fun bs =>
    let cell := merge_init init bs in
    let expect := le32 uid in
    let mismatch := existsb (fun xe => (0 <=? fst xe) && negb (fst xe =? snd xe)) (combine cell expect) in
    if mismatch then Halt Abort
    else if has_undef cell then Halt Unknown
    else Done tt).

Definition read_i32s (t : transport) (n : nat) : prog (list Z) :=
  Bind (read_raw t (4 * n)) (fun bs =>
    Done (map (fun i => i32_of (firstn 4 (skipn (4 * i) bs))) (seq 0 n))).
Definition read_i32 (t : transport) : prog Z := Bind (read_raw t 4) (fun bs => Done (i32_of bs)).
Definition read_f64 (t : transport) : prog Z := Bind (read_raw t 8) (fun bs => Done (u64_of bs)).
Definition enc_i32s (l : list Z) : list Z := concat (map le32 l).
