(* Codec/Flat.v — flattening of the serialisable objects to integer lists for the correspondence
   drivers, and the two entry points (export, import). *)
From Coq Require Import ZArith List Bool.
From TV Require Import Base.Int32 Codec.Stream Codec.Text Codec.Objects.
Import ListNotations.
Local Open Scope Z_scope.

Fixpoint chunk (fuel n : nat) (v : list Z) : list (list Z) :=
  match fuel with O => [] | S f => firstn n v :: chunk f n (skipn n v) end.
Definition nz := Z.to_nat.

(* --- unflatten --- *)
Definition un_lp (v : list Z) : lweparams * list Z :=
  ({| lp_n := nth 0 v 0; lp_amin := nth 1 v 0; lp_amax := nth 2 v 0 |}, skipn 3 v).
Definition un_tp (v : list Z) : tlweparams * list Z :=
  ({| tp_N := nth 0 v 0; tp_k := nth 1 v 0; tp_amin := nth 2 v 0; tp_amax := nth 3 v 0 |}, skipn 4 v).
Definition un_gp (v : list Z) : tgswparams * list Z :=
  let '(tp, r) := un_tp v in ({| gp_tlwe := tp; gp_l := nth 0 r 0; gp_Bgbit := nth 1 r 0 |}, skipn 2 r).
Definition un_lwesample (n : nat) (v : list Z) : lwesample * list Z :=
  ({| ls_a := firstn n v; ls_b := nth n v 0; ls_var := nth (S n) v 0 |}, skipn (S (S n)) v).
Fixpoint un_lwesamples (cnt n : nat) (v : list Z) : list lwesample * list Z :=
  match cnt with
  | O => ([], v)
  | S c => let '(s, r) := un_lwesample n v in let '(l, r') := un_lwesamples c n r in (s :: l, r')
  end.
Definition un_tlwesample (N k1 : nat) (v : list Z) : tlwesample * list Z :=
  ({| ts_polys := chunk k1 N v; ts_var := nth (k1 * N) v 0 |}, skipn (S (k1 * N)) v).
Fixpoint un_tlwesamples (cnt N k1 : nat) (v : list Z) : list tlwesample * list Z :=
  match cnt with
  | O => ([], v)
  | S c => let '(s, r) := un_tlwesample N k1 v in let '(l, r') := un_tlwesamples c N k1 r in (s :: l, r')
  end.
Definition un_ks (out : lweparams) (v : list Z) : kskey * list Z :=
  let n := nth 0 v 0 in let kt := nth 1 v 0 in let b := nth 2 v 0 in
  let '(rows, r) := un_lwesamples (nz (n * kt * pow2 b)) (nz (lp_n out)) (skipn 3 v) in
  ({| ks_out := out; ks_n := n; ks_t := kt; ks_basebit := b; ks_rows := rows |}, r).
Definition un_bk (lp : lweparams) (gp : tgswparams) (v : list Z) : bkey * list Z :=
  let '(ks, r) := un_ks lp v in
  let tp := gp_tlwe gp in
  let '(rows, r') := un_tlwesamples (nz (lp_n lp * ((tp_k tp + 1) * gp_l gp))) (nz (tp_N tp)) (nz (tp_k tp + 1)) r in
  ({| bk_in := lp; bk_gp := gp; bk_ks := ks; bk_rows := rows |}, r').
Definition un_ps (v : list Z) : paramset * list Z :=
  let kt := nth 0 v 0 in let kb := nth 1 v 0 in
  let '(lp, r) := un_lp (skipn 2 v) in let '(gp, r') := un_gp r in
  ({| ps_ks_t := kt; ps_ks_basebit := kb; ps_in := lp; ps_gp := gp |}, r').

(* --- flatten --- *)
Definition fl_lp (p : lweparams) : list Z := [lp_n p; lp_amin p; lp_amax p].
Definition fl_tp (p : tlweparams) : list Z := [tp_N p; tp_k p; tp_amin p; tp_amax p].
Definition fl_gp (p : tgswparams) : list Z := fl_tp (gp_tlwe p) ++ [gp_l p; gp_Bgbit p].
Definition fl_lwesample (s : lwesample) : list Z := ls_a s ++ [ls_b s; ls_var s].
Definition fl_tlwesample (s : tlwesample) : list Z := concat (ts_polys s) ++ [ts_var s].
Definition fl_ks (k : kskey) : list Z := [ks_n k; ks_t k; ks_basebit k] ++ concat (map fl_lwesample (ks_rows k)).
Definition fl_bk (b : bkey) : list Z := fl_ks (bk_ks b) ++ concat (map fl_tlwesample (bk_rows b)).
Definition fl_ps (p : paramset) : list Z := [ps_ks_t p; ps_ks_basebit p] ++ fl_lp (ps_in p) ++ fl_gp (ps_gp p).

Section Entries.
Variable fmt_double : Z -> list Z.
Variable parse_double : list Z -> option Z.

(* "cexp code fields..." -> exported bytes *)
Definition codec_export (a : list Z) : list Z :=
  match a with
  | code :: v =>
    if code =? 1 then exp_lweparams fmt_double (fst (un_lp v))
    else if code =? 2 then (let n := nz (nth 0 v 0) in exp_lwesample (fst (un_lwesample n (skipn 1 v))))
    else if code =? 3 then (let '(p, r) := un_lp v in exp_lwekey fmt_double {| lk_params := p; lk_key := r |})
    else if code =? 4 then exp_tlweparams fmt_double (fst (un_tp v))
    else if code =? 5 then (let N := nz (nth 0 v 0) in let k := nz (nth 1 v 0) in exp_tlwesample (fst (un_tlwesample N (S k) (skipn 2 v))))
    else if code =? 6 then (let '(p, r) := un_tp v in exp_tlwekey fmt_double {| tk_params := p; tk_key := chunk (nz (tp_k p)) (nz (tp_N p)) r |})
    else if code =? 7 then exp_tgswparams fmt_double (fst (un_gp v))
    else if code =? 8 then (let N := nz (nth 0 v 0) in let k := nz (nth 1 v 0) in let l := nz (nth 2 v 0) in
                            exp_tgswsample (fst (un_tlwesamples (S k * l) N (S k) (skipn 3 v))))
    else if code =? 9 then (let '(p, r) := un_gp v in exp_tgswkey fmt_double {| gk_params := p; gk_key := chunk (nz (tp_k (gp_tlwe p))) (nz (tp_N (gp_tlwe p))) r |})
    else if code =? 10 then (let '(p, r) := un_lp v in exp_kskey fmt_double (fst (un_ks p r)))
    else if code =? 11 then (let '(lp, r) := un_lp v in let '(gp, r') := un_gp r in exp_bkey fmt_double (fst (un_bk lp gp r')))
    else if code =? 12 then exp_paramset fmt_double (fst (un_ps v))
    else if code =? 13 then (let '(p, r) := un_ps v in exp_cloud fmt_double {| ck_params := p; ck_bk := fst (un_bk (ps_in p) (ps_gp p) r) |})
    else if code =? 14 then (let '(p, r) := un_ps v in let '(b, r') := un_bk (ps_in p) (ps_gp p) r in
                             let n := nz (lp_n (ps_in p)) in let tp := gp_tlwe (ps_gp p) in
                             exp_secret fmt_double {| sk_cloud := {| ck_params := p; ck_bk := b |}; sk_lwe := firstn n r';
                                                      sk_tgsw := chunk (nz (tp_k tp)) (nz (tp_N tp)) (skipn n r') |})
    else []
  | _ => []
  end.

Definition out_of {A} (fl : A -> list Z) (o : outcome A) : list Z :=
  match o with
  | Ret a s => [0; if eof s then 1 else 0; if fail s then 1 else 0; Z.of_nat (length (rest s))] ++ fl a
  | Stop Abort => [1] | Stop Crash => [2] | Stop Unknown => [3]
  end.

(* "cimp code transport ctx... nbytes bytes..." -> class eof fail remaining fields...
   transport: 0 = FILE*, 1 = C++ stream; ctx = the parameters the importer is given (samples only) *)
Definition codec_import (a : list Z) : list Z :=
  match a with
  | code :: tr :: v =>
    let t := if tr =? 0 then CFile else CppStream in
    let go {A} (fl : A -> list Z) (p : prog A) (bytes : list Z) := out_of fl (run p (mk bytes)) in
    if code =? 1 then go fl_lp (imp_lweparams parse_double t) (skipn 1 v)
    else if code =? 2 then go fl_lwesample (imp_lwesample t (nth 0 v 0)) (skipn 2 v)
    else if code =? 3 then go (fun k => fl_lp (lk_params k) ++ lk_key k) (imp_lwekey parse_double t) (skipn 1 v)
    else if code =? 4 then go fl_tp (imp_tlweparams parse_double t) (skipn 1 v)
    else if code =? 5 then go fl_tlwesample (imp_tlwesample t {| tp_N := nth 0 v 0; tp_k := nth 1 v 0; tp_amin := 0; tp_amax := 0 |}) (skipn 3 v)
    else if code =? 6 then go (fun k => fl_tp (tk_params k) ++ concat (tk_key k)) (imp_tlwekey parse_double t) (skipn 1 v)
    else if code =? 7 then go fl_gp (imp_tgswparams parse_double t) (skipn 1 v)
    else if code =? 8 then go (fun rows => concat (map fl_tlwesample rows))
                              (imp_tgswsample t {| gp_tlwe := {| tp_N := nth 0 v 0; tp_k := nth 1 v 0; tp_amin := 0; tp_amax := 0 |}; gp_l := nth 2 v 0; gp_Bgbit := 1 |}) (skipn 4 v)
    else if code =? 9 then go (fun k => fl_gp (gk_params k) ++ concat (gk_key k)) (imp_tgswkey parse_double t) (skipn 1 v)
    else if code =? 10 then go (fun k => fl_lp (ks_out k) ++ fl_ks k) (imp_kskey parse_double t) (skipn 1 v)
    else if code =? 11 then go (fun b => fl_lp (bk_in b) ++ fl_gp (bk_gp b) ++ fl_bk b) (imp_bkey parse_double t) (skipn 1 v)
    else if code =? 12 then go fl_ps (imp_paramset parse_double t) (skipn 1 v)
    else if code =? 13 then go (fun c => fl_ps (ck_params c) ++ fl_bk (ck_bk c)) (imp_cloud parse_double t) (skipn 1 v)
    else if code =? 14 then go (fun s => fl_ps (ck_params (sk_cloud s)) ++ fl_bk (ck_bk (sk_cloud s)) ++ sk_lwe s ++ concat (sk_tgsw s)) (imp_secret parse_double t) (skipn 1 v)
    else []
  | _ => []
  end.
End Entries.
