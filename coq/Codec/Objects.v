(* Codec/Objects.v — tfhe_io.cpp: export and import of the serialisable object types, section by section. *)
From Coq Require Import ZArith List Bool.
From TV Require Import Base.Int32 Codec.Stream Codec.Text.
Import ListNotations.
Local Open Scope Z_scope.

Definition UID_LWE_SAMPLE := 42.   Definition UID_LWE_KEY := 43.
Definition UID_TLWE_SAMPLE := 84.  Definition UID_TLWE_KEY := 85.
Definition UID_TGSW_SAMPLE := 168. Definition UID_TGSW_KEY := 169.
Definition UID_KS := 200.          Definition UID_BK := 201.
Definition MINUS_ONE_BITS : Z := 13830554455654793216.    (* bit pattern of -1.0 *)

Record lweparams := { lp_n : Z; lp_amin : Z; lp_amax : Z }.
Record tlweparams := { tp_N : Z; tp_k : Z; tp_amin : Z; tp_amax : Z }.
Record tgswparams := { gp_tlwe : tlweparams; gp_l : Z; gp_Bgbit : Z }.
Record lwesample := { ls_a : list Z; ls_b : Z; ls_var : Z }.
Record tlwesample := { ts_polys : list (list Z); ts_var : Z }.
Record lwekey := { lk_params : lweparams; lk_key : list Z }.
Record tlwekey := { tk_params : tlweparams; tk_key : list (list Z) }.
Record tgswkey := { gk_params : tgswparams; gk_key : list (list Z) }.
Record kskey := { ks_out : lweparams; ks_n : Z; ks_t : Z; ks_basebit : Z; ks_rows : list lwesample }.
Record bkey := { bk_in : lweparams; bk_gp : tgswparams; bk_ks : kskey; bk_rows : list tlwesample }.
Record paramset := { ps_ks_t : Z; ps_ks_basebit : Z; ps_in : lweparams; ps_gp : tgswparams }.
Record cloudkey := { ck_params : paramset; ck_bk : bkey }.
Record secretkey := { sk_cloud : cloudkey; sk_lwe : list Z; sk_tgsw : list (list Z) }.

Definition nat_of (z : Z) : nat := Z.to_nat z.
(* allocation with a negative element count throws: abort *)
Definition alloc_guard {A} (z : Z) (p : prog A) : prog A := if z <? 0 then Halt Abort else p.

Section Objects.
Variable fmt_double : Z -> list Z.
Variable parse_double : list Z -> option Z.
Variable t : transport.
Let pdouble := prop_double parse_double.

(* ---------------- parameters (text sections) ---------------- *)
Definition exp_lweparams (p : lweparams) : list Z :=
  section_bytes T_LWEPARAMS
    (set_prop K_alpha_max (fmt_double (lp_amax p)) (set_prop K_alpha_min (fmt_double (lp_amin p)) (set_prop K_n (fmt_i64 (lp_n p)) []))).
Definition imp_lweparams : prog lweparams :=
  Bind (read_section t) (fun sec => pbind (expect_title T_LWEPARAMS sec) (fun m =>
  pbind (prop_int m K_n) (fun n => pbind (pdouble m K_alpha_min) (fun a => pbind (pdouble m K_alpha_max) (fun b =>
  Done {| lp_n := n; lp_amin := a; lp_amax := b |}))))).

Definition exp_tlweparams (p : tlweparams) : list Z :=
  section_bytes T_TLWEPARAMS
    (set_prop K_alpha_max (fmt_double (tp_amax p)) (set_prop K_alpha_min (fmt_double (tp_amin p))
    (set_prop K_k (fmt_i64 (tp_k p)) (set_prop K_N (fmt_i64 (tp_N p)) [])))).
Definition imp_tlweparams : prog tlweparams :=
  Bind (read_section t) (fun sec => pbind (expect_title T_TLWEPARAMS sec) (fun m =>
  pbind (prop_int m K_N) (fun N => pbind (prop_int m K_k) (fun k =>
  pbind (pdouble m K_alpha_min) (fun a => pbind (pdouble m K_alpha_max) (fun b =>
  Done {| tp_N := N; tp_k := k; tp_amin := a; tp_amax := b |})))))).

Definition exp_tgsw_section (p : tgswparams) : list Z :=
  section_bytes T_TGSWPARAMS (set_prop K_Bgbit (fmt_i64 (gp_Bgbit p)) (set_prop K_l (fmt_i64 (gp_l p)) [])).
Definition exp_tgswparams (p : tgswparams) : list Z := exp_tlweparams (gp_tlwe p) ++ exp_tgsw_section p.
Definition imp_tgsw_section (tp : tlweparams) : prog tgswparams :=
  Bind (read_section t) (fun sec => pbind (expect_title T_TGSWPARAMS sec) (fun m =>
  pbind (prop_int m K_l) (fun l => pbind (prop_int m K_Bgbit) (fun B =>
  alloc_guard l (Done {| gp_tlwe := tp; gp_l := l; gp_Bgbit := B |}))))).
Definition imp_tgswparams : prog tgswparams := pbind imp_tlweparams imp_tgsw_section.

Definition exp_ks_section (n kt b : Z) : list Z :=
  section_bytes T_LWEKSPARAMS (set_prop K_basebit (fmt_i64 b) (set_prop K_t (fmt_i64 kt) (set_prop K_n (fmt_i64 n) []))).
Definition imp_ks_section : prog (Z * Z * Z) :=
  Bind (read_section t) (fun sec => pbind (expect_title T_LWEKSPARAMS sec) (fun m =>
  pbind (prop_int m K_n) (fun n => pbind (prop_int m K_t) (fun kt => pbind (prop_int m K_basebit) (fun b =>
  Done (n, kt, b)))))).

Definition exp_gb_section (p : paramset) : list Z :=
  section_bytes T_GATEBOOTSPARAMS (set_prop K_ks_basebit (fmt_i64 (ps_ks_basebit p)) (set_prop K_ks_t (fmt_i64 (ps_ks_t p)) [])).
Definition exp_paramset (p : paramset) : list Z := exp_gb_section p ++ exp_lweparams (ps_in p) ++ exp_tgswparams (ps_gp p).
Definition imp_paramset : prog paramset :=
  Bind (read_section t) (fun sec => pbind (expect_title T_GATEBOOTSPARAMS sec) (fun m =>
  pbind (prop_int m K_ks_t) (fun kt => pbind (prop_int m K_ks_basebit) (fun kb =>
  pbind imp_lweparams (fun lp => pbind imp_tgswparams (fun gp =>
  Done {| ps_ks_t := kt; ps_ks_basebit := kb; ps_in := lp; ps_gp := gp |})))))).

(* ---------------- samples and keys (binary sections) ---------------- *)
Definition exp_lwesample (s : lwesample) : list Z :=
  le32 UID_LWE_SAMPLE ++ enc_i32s (ls_a s) ++ le32 (ls_b s) ++ le64 (ls_var s).
Definition imp_lwesample (n : Z) : prog lwesample :=
  pbind (check_tag t UID_LWE_SAMPLE None) (fun _ => pbind (read_i32s t (nat_of n)) (fun a =>
  pbind (read_i32 t) (fun b => pbind (read_f64 t) (fun v => Done {| ls_a := a; ls_b := b; ls_var := v |})))).

Definition exp_polys (ps : list (list Z)) : list Z := concat (map enc_i32s ps).
Definition imp_polys (cnt N : Z) : prog (list (list Z)) := prepeat (nat_of cnt) (read_i32s t (nat_of N)).

Definition exp_tlwesample (s : tlwesample) : list Z := le32 UID_TLWE_SAMPLE ++ exp_polys (ts_polys s) ++ le64 (ts_var s).
Definition imp_tlwesample (tp : tlweparams) : prog tlwesample :=
  pbind (check_tag t UID_TLWE_SAMPLE None) (fun _ => pbind (imp_polys (tp_k tp + 1) (tp_N tp)) (fun ps =>
  pbind (read_f64 t) (fun v => Done {| ts_polys := ps; ts_var := v |}))).

Definition exp_tgswsample (rows : list tlwesample) : list Z := le32 UID_TGSW_SAMPLE ++ concat (map exp_tlwesample rows).
Definition kpl (gp : tgswparams) : Z := w32 ((tp_k (gp_tlwe gp) + 1) * gp_l gp).
Definition imp_tgswsample (gp : tgswparams) : prog (list tlwesample) :=
  pbind (check_tag t UID_TGSW_SAMPLE None) (fun _ => prepeat (nat_of (kpl gp)) (imp_tlwesample (gp_tlwe gp))).

Definition exp_lwekey_content (k : list Z) : list Z := le32 UID_LWE_KEY ++ enc_i32s k.
Definition imp_lwekey_content (n : Z) : prog (list Z) :=
  alloc_guard n (pbind (check_tag t UID_LWE_KEY None) (fun _ => read_i32s t (nat_of n))).
Definition exp_lwekey (k : lwekey) : list Z := exp_lweparams (lk_params k) ++ exp_lwekey_content (lk_key k).
Definition imp_lwekey : prog lwekey :=
  pbind imp_lweparams (fun p => pbind (imp_lwekey_content (lp_n p)) (fun k => Done {| lk_params := p; lk_key := k |})).

Definition exp_tlwekey_content (uid : Z) (k : list (list Z)) : list Z := le32 uid ++ exp_polys k.
Definition imp_tlwekey_content (uid : Z) (tp : tlweparams) : prog (list (list Z)) :=
  alloc_guard (tp_k tp) (alloc_guard (tp_N tp) (pbind (check_tag t uid None) (fun _ => imp_polys (tp_k tp) (tp_N tp)))).
Definition exp_tlwekey (k : tlwekey) : list Z := exp_tlweparams (tk_params k) ++ exp_tlwekey_content UID_TLWE_KEY (tk_key k).
Definition imp_tlwekey : prog tlwekey :=
  pbind imp_tlweparams (fun p => pbind (imp_tlwekey_content UID_TLWE_KEY p) (fun k => Done {| tk_params := p; tk_key := k |})).
Definition exp_tgswkey (k : tgswkey) : list Z := exp_tgswparams (gk_params k) ++ exp_tlwekey_content UID_TGSW_KEY (gk_key k).
Definition imp_tgswkey : prog tgswkey :=
  pbind imp_tgswparams (fun p => pbind (imp_tlwekey_content UID_TGSW_KEY (gp_tlwe p)) (fun k => Done {| gk_params := p; gk_key := k |})).

(* ---------------- key-switching key: one variance (the maximum) then all rows ---------------- *)
Definition max_var (vs : list Z) : Z :=
  match vs with [] => MINUS_ONE_BITS | _ => fold_right Z.max 0 vs end.   (* variances are non-negative doubles *)
Definition exp_ks_content (rows : list lwesample) : list Z :=
  le32 UID_KS ++ le64 (max_var (map ls_var rows)) ++ concat (map (fun r => enc_i32s (ls_a r) ++ le32 (ls_b r)) rows).
Definition ks_count (n kt b : Z) : Z := w32 (w32 (n * kt) * w32 (pow2 b)).     (* n*t*base rows, base = 1<<basebit *)
Definition imp_ks_content (nout n kt b : Z) : prog (list lwesample) :=
  pbind (check_tag t UID_KS (Some (-1))) (fun _ => pbind (read_f64 t) (fun v =>
  prepeat (nat_of (ks_count n kt b))
    (pbind (read_i32s t (nat_of nout)) (fun a => pbind (read_i32 t) (fun b0 => Done {| ls_a := a; ls_b := b0; ls_var := v |}))))).
Definition exp_kskey (k : kskey) : list Z :=
  exp_lweparams (ks_out k) ++ exp_ks_section (ks_n k) (ks_t k) (ks_basebit k) ++ exp_ks_content (ks_rows k).
Definition imp_kskey_with (out : lweparams) : prog kskey :=
  pbind imp_ks_section (fun ntb => let '(n, kt, b) := ntb in
  alloc_guard (ks_count n kt b) (alloc_guard (lp_n out)
  (pbind (imp_ks_content (lp_n out) n kt b) (fun rows =>
   Done {| ks_out := out; ks_n := n; ks_t := kt; ks_basebit := b; ks_rows := rows |})))).
Definition imp_kskey : prog kskey := pbind imp_lweparams imp_kskey_with.

(* ---------------- bootstrapping key ---------------- *)
Definition exp_bk_content (rows : list tlwesample) : list Z :=
  le32 UID_BK ++ le64 (max_var (map ts_var rows)) ++ concat (map (fun r => exp_polys (ts_polys r)) rows).
Definition imp_bk_content (nin : Z) (gp : tgswparams) : prog (list tlwesample) :=
  pbind (check_tag t UID_BK (Some (-1))) (fun _ => pbind (read_f64 t) (fun v =>
  prepeat (nat_of (w32 (nin * kpl gp)))
    (pbind (imp_polys (tp_k (gp_tlwe gp) + 1) (tp_N (gp_tlwe gp))) (fun ps => Done {| ts_polys := ps; ts_var := v |})))).
Definition exp_bk_body (b : bkey) : list Z :=
  exp_ks_section (ks_n (bk_ks b)) (ks_t (bk_ks b)) (ks_basebit (bk_ks b)) ++ exp_ks_content (ks_rows (bk_ks b)) ++ exp_bk_content (bk_rows b).
Definition exp_bkey (b : bkey) : list Z := exp_lweparams (bk_in b) ++ exp_tgswparams (bk_gp b) ++ exp_bk_body b.
Definition imp_bk_body (lp : lweparams) (gp : tgswparams) : prog bkey :=
  pbind imp_ks_section (fun ntb => let '(n, kt, b) := ntb in
  if negb (n =? w32 (tp_N (gp_tlwe gp) * tp_k (gp_tlwe gp))) then Halt Abort      (* "Wrong dimension in bootstrapping key" *)
  else alloc_guard (lp_n lp) (alloc_guard (ks_count n kt b) (alloc_guard (kpl gp)
  (pbind (imp_ks_content (lp_n lp) n kt b) (fun ksrows =>
   pbind (imp_bk_content (lp_n lp) gp) (fun rows =>
   Done {| bk_in := lp; bk_gp := gp;
           bk_ks := {| ks_out := lp; ks_n := n; ks_t := kt; ks_basebit := b; ks_rows := ksrows |}; bk_rows := rows |})))))).
Definition imp_bkey : prog bkey := pbind imp_lweparams (fun lp => pbind imp_tgswparams (fun gp => imp_bk_body lp gp)).

(* ---------------- key sets ---------------- *)
Definition exp_cloud (c : cloudkey) : list Z := exp_paramset (ck_params c) ++ exp_bk_body (ck_bk c).
Definition imp_cloud : prog cloudkey :=
  pbind imp_paramset (fun p => pbind (imp_bk_body (ps_in p) (ps_gp p)) (fun b => Done {| ck_params := p; ck_bk := b |})).
Definition exp_secret (s : secretkey) : list Z :=
  exp_cloud (sk_cloud s) ++ exp_lwekey_content (sk_lwe s) ++ exp_tlwekey_content UID_TGSW_KEY (sk_tgsw s).
Definition imp_secret : prog secretkey :=
  pbind imp_paramset (fun p => pbind (imp_bk_body (ps_in p) (ps_gp p)) (fun b =>
  pbind (imp_lwekey_content (lp_n (ps_in p))) (fun lk =>
  pbind (imp_tlwekey_content UID_TGSW_KEY (gp_tlwe (ps_gp p))) (fun gk =>
  Done {| sk_cloud := {| ck_params := p; ck_bk := b |}; sk_lwe := lk; sk_tgsw := gk |})))).
End Objects.

(* normalisation: the advisory per-row variance of key material comes back as the common maximum *)
Definition norm_ksrows (rows : list lwesample) : list lwesample :=
  let v := max_var (map ls_var rows) in map (fun r => {| ls_a := ls_a r; ls_b := ls_b r; ls_var := v |}) rows.
Definition norm_bkrows (rows : list tlwesample) : list tlwesample :=
  let v := max_var (map ts_var rows) in map (fun r => {| ts_polys := ts_polys r; ts_var := v |}) rows.
