From Coq Require Import ZArith List Bool.
From Coq Require String Ascii.
From TV Require Import Base.Int32 Codec.Stream.
Import ListNotations.
Local Open Scope Z_scope.

Module Str.
  Import String Ascii.
  Local Open Scope string_scope.
  Fixpoint bytes_of (s : string) : list Z :=
    match s with EmptyString => [] | String c r => Z.of_N (N_of_ascii c) :: bytes_of r end.
  Definition BEGIN_ : list Z := bytes_of "-----BEGIN ".
  Definition END_ : list Z := bytes_of "-----END ".
  Definition DASHES : list Z := bytes_of "-----".
  (* section titles and property names of tfhe_io.cpp *)
  Definition T_LWEPARAMS := bytes_of "LWEPARAMS".
  Definition T_TLWEPARAMS := bytes_of "TLWEPARAMS".
  Definition T_TGSWPARAMS := bytes_of "TGSWPARAMS".
  Definition T_LWEKSPARAMS := bytes_of "LWEKSPARAMS".
  Definition T_GATEBOOTSPARAMS := bytes_of "GATEBOOTSPARAMS".
  Definition K_n := bytes_of "n".
  Definition K_alpha_min := bytes_of "alpha_min".
  Definition K_alpha_max := bytes_of "alpha_max".
  Definition K_N := bytes_of "N".
  Definition K_k := bytes_of "k".
  Definition K_l := bytes_of "l".
  Definition K_Bgbit := bytes_of "Bgbit".
  Definition K_t := bytes_of "t".
  Definition K_basebit := bytes_of "basebit".
  Definition K_ks_t := bytes_of "ks_t".
  Definition K_ks_basebit := bytes_of "ks_basebit".
End Str.
Export Str.

Definition NL : Z := 10.  Definition CR : Z := 13.  Definition SP : Z := 32.
Definition COLSP : list Z := [58; 32].

Fixpoint list_eqb (a b : list Z) : bool :=
  match a, b with [], [] => true | x :: a', y :: b' => (x =? y) && list_eqb a' b' | _, _ => false end.
Fixpoint starts_with (p l : list Z) : bool :=
  match p, l with [], _ => true | x :: p', y :: l' => (x =? y) && starts_with p' l' | _ :: _, [] => false end.
Definition ends_with (p l : list Z) : bool :=
  (length p <=? length l)%nat && list_eqb p (skipn (length l - length p) l).
(* position of the first occurrence of ": " *)
Fixpoint find_colsp (l : list Z) : option nat :=
  match l with
  | [] => None
  | x :: r => if starts_with COLSP l then Some O else option_map S (find_colsp r)
  end.
(* split at the first '\n' *)
Fixpoint split_nl (l : list Z) : option (list Z * list Z) :=
  match l with
  | [] => None
  | x :: r => if x =? NL then Some ([], r)
              else match split_nl r with Some (a, b) => Some (x :: a, b) | None => None end
  end.

(* ---- integers as text ---- *)
Fixpoint digits_fuel (fuel : nat) (n : Z) (acc : list Z) : list Z :=
  match fuel with
  | O => acc
  | S f => if n <? 10 then (48 + n) :: acc else digits_fuel f (n / 10) ((48 + n mod 10) :: acc)
  end.
Definition digits (n : Z) : list Z := digits_fuel (S (Z.to_nat (Z.log2 n))) n [].
(* sprintf("%10ld") *)
Definition fmt_i64 (z : Z) : list Z :=
  let body := (if z <? 0 then [45] else []) ++ digits (Z.abs z) in
  repeat SP (10 - length body) ++ body.
Definition is_space (c : Z) : bool := (c =? 32) || ((9 <=? c) && (c <=? 13)).
Definition is_digit (c : Z) : bool := (48 <=? c) && (c <=? 57).
Fixpoint skip_spaces (l : list Z) : list Z :=
  match l with c :: r => if is_space c then skip_spaces r else l | [] => [] end.
Fixpoint take_digits (l : list Z) (acc : Z) (seen : bool) : option Z :=
  match l with
  | c :: r => if is_digit c then take_digits r (acc * 10 + (c - 48)) true else (if seen then Some acc else None)
  | [] => if seen then Some acc else None
  end.
(* stol: leading white space, optional sign, digits; no digits -> std::invalid_argument, outside
   int64 -> std::out_of_range (both uncaught: abort) *)
Definition stol (l : list Z) : option Z :=
  let l1 := skip_spaces l in
  let '(neg, l2) := match l1 with 45 :: r => (true, r) | 43 :: r => (false, r) | _ => (false, l1) end in
  match take_digits l2 0 false with
  | Some v => let z := if neg then - v else v in
              if (- p63 <=? z) && (z <? p63) then Some z else None
  | None => None
  end.

(* ---- sections ---- *)
Definition props := list (list Z * list Z).
Fixpoint lex_ltb (a b : list Z) : bool :=
  match a, b with
  | [], [] => false | [], _ :: _ => true | _ :: _, [] => false
  | x :: a', y :: b' => (x <? y) || ((x =? y) && lex_ltb a' b')
  end.
(* std::map<string,string>::operator[] assignment: sorted by key, one entry per key *)
Fixpoint set_prop (k v : list Z) (m : props) : props :=
  match m with
  | [] => [(k, v)]
  | (k', v') :: r => if list_eqb k k' then (k, v) :: r
                     else if lex_ltb k k' then (k, v) :: m else (k', v') :: set_prop k v r
  end.
Fixpoint get_prop (k : list Z) (m : props) : option (list Z) :=
  match m with [] => None | (k', v) :: r => if list_eqb k k' then Some v else get_prop k r end.

Definition section_bytes (title : list Z) (m : props) : list Z :=
  BEGIN_ ++ title ++ DASHES ++ [NL] ++
  concat (map (fun kv => fst kv ++ COLSP ++ snd kv ++ [NL]) m) ++
  END_ ++ title ++ DASHES ++ [NL].

(* getLine *)
Definition get_line (t : transport) (s : stream) : list Z * stream :=
  match t with
  | CFile =>      (* fgetc loop: '\r' dropped, '\n' ends the line, EOF ends it too (and is remembered) *)
    match split_nl (rest s) with
    | Some (l, r) => (filter (fun c => negb (c =? CR)) l, {| rest := r; eof := eof s; fail := fail s |})
    | None => (filter (fun c => negb (c =? CR)) (rest s), {| rest := []; eof := true; fail := fail s |})
    end
  | CppStream =>  (* std::getline *)
    if good s then
      match split_nl (rest s) with
      | Some (l, r) => (l, {| rest := r; eof := false; fail := false |})
      | None => match rest s with
                | [] => ([], {| rest := []; eof := true; fail := true |})
                | l => (l, {| rest := []; eof := true; fail := false |})
                end
      end
    else ([], {| rest := rest s; eof := eof s; fail := true |})
  end.
Definition at_feof (t : transport) (s : stream) : bool :=
  match t with CFile => eof s | CppStream => fail s end.

Record pstate := { ps_title : list Z; ps_end : list Z; ps_started : bool; ps_props : props }.
Definition ps0 : pstate := {| ps_title := []; ps_end := []; ps_started := false; ps_props := [] |}.

(* one iteration of the loop body of new_TextModeProperties_fromIstream on a line *)
Definition sec_step (st : pstate) (line : list Z) : pstate + (list Z * props) :=
  if starts_with BEGIN_ line && ends_with DASHES line then
    let title := firstn (length line - 16) (skipn 11 line) in
    inl {| ps_title := title; ps_end := END_ ++ title ++ DASHES; ps_started := true; ps_props := ps_props st |}
  else if negb (ps_started st) then inl st
  else if list_eqb line (ps_end st) then inr (ps_title st, ps_props st)
  else match find_colsp line with
       | None => inl st
       | Some pos => inl {| ps_title := ps_title st; ps_end := ps_end st; ps_started := true;
                            ps_props := set_prop (firstn pos line) (skipn (pos + 2) line) (ps_props st) |}
       end.
(* new_TextModeProperties_fromIstream; at end of input it returns NULL, which every caller
   dereferences at once: Crash *)
Fixpoint sec_loop (t : transport) (fuel : nat) (st : pstate) (s : stream) : outcome (list Z * props) :=
  match fuel with
  | O => Stop Crash
  | S f =>
    let '(line, s') := get_line t s in
    if at_feof t s' then Stop Crash
    else match sec_step st line with
         | inl st' => sec_loop t f st' s'
         | inr v => Ret v s'
         end
  end.
Definition read_section (t : transport) : op (list Z * props) :=
  fun s => sec_loop t (S (length (rest s))) ps0 s.

(* typed access: data.at(name) / stol / stold throw when the entry is missing or malformed *)
Definition expect_title (title : list Z) (sec : list Z * props) : prog props :=
  if list_eqb (fst sec) title then Done (snd sec) else Halt Abort.
Definition prop_int (m : props) (k : list Z) : prog Z :=
  match get_prop k m with
  | Some v => match stol v with Some z => Done (w32 z) | None => Halt Abort end
  | None => Halt Abort
  end.
Section Doubles.
(* the real-number text: printf("%.17lg") / stold, on the 64-bit pattern of the double *)
Variable fmt_double : Z -> list Z.
Variable parse_double : list Z -> option Z.
Definition prop_double (m : props) (k : list Z) : prog Z :=
  match get_prop k m with
  | Some v => match parse_double v with Some d => Done d | None => Halt Abort end
  | None => Halt Abort
  end.
End Doubles.
