(* Properties_C17.v — C17: the exported cloud key contains only public evaluation material. *)
From Coq Require Import ZArith List Lia.
From TV Require Import Base.Int32 Codec.Stream Codec.Text Codec.Objects Proofs.CodecGen Proofs.CodecPrim Proofs.CodecText Proofs.CodecObjects Proofs.CodecSafety.
Import ListNotations.
Local Open Scope Z_scope.

(* the secret export is the cloud export followed by exactly the LWE-key and TGSW-key sections (non-empty) *)
Theorem C17_cloud_is_strict_prefix_of_secret : forall fmt s,
  exp_secret fmt s = exp_cloud fmt (sk_cloud s) ++ (exp_lwekey_content (sk_lwe s) ++ exp_tlwekey_content UID_TGSW_KEY (sk_tgsw s))
  /\ exp_lwekey_content (sk_lwe s) ++ exp_tlwekey_content UID_TGSW_KEY (sk_tgsw s) <> [].
Proof. exact cloud_is_strict_prefix_of_secret. Qed.
Print Assumptions C17_cloud_is_strict_prefix_of_secret.

(* every byte of the cloud export is attributed, in order, to: parameter fields, the key-switch section, one
   variance, (a,b) of every key-switching row, one variance, the coefficients of every bootstrapping row.
   exp_cloud takes a cloudkey: the secret keys are not among its arguments *)
Theorem C17_cloud_export_provenance : forall fmt c,
  exp_cloud fmt c =
  exp_paramset fmt (ck_params c) ++
  exp_ks_section (ks_n (bk_ks (ck_bk c))) (ks_t (bk_ks (ck_bk c))) (ks_basebit (bk_ks (ck_bk c))) ++
  (le32 UID_KS ++ le64 (max_var (map ls_var (ks_rows (bk_ks (ck_bk c))))) ++
     concat (map (fun r => enc_i32s (ls_a r) ++ le32 (ls_b r)) (ks_rows (bk_ks (ck_bk c))))) ++
  (le32 UID_BK ++ le64 (max_var (map ts_var (bk_rows (ck_bk c)))) ++
     concat (map (fun r => concat (map enc_i32s (ts_polys r))) (bk_rows (ck_bk c)))).
Proof. exact cloud_export_provenance. Qed.
Print Assumptions C17_cloud_export_provenance.

(* exact size determined by the parameters *)
Theorem C17_cloud_export_length : forall fmt c nout N k1,
  (forall r, In r (ks_rows (bk_ks (ck_bk c))) -> length (ls_a r) = nout) ->
  (forall r, In r (bk_rows (ck_bk c)) -> length (ts_polys r) = k1 /\ forall p, In p (ts_polys r) -> length p = N) ->
  length (exp_cloud fmt c) =
  (length (exp_paramset fmt (ck_params c)) +
   length (exp_ks_section (ks_n (bk_ks (ck_bk c))) (ks_t (bk_ks (ck_bk c))) (ks_basebit (bk_ks (ck_bk c)))) +
   (12 + 4 * (nout + 1) * length (ks_rows (bk_ks (ck_bk c)))) +
   (12 + 4 * N * k1 * length (bk_rows (ck_bk c))))%nat.
Proof. exact cloud_export_length. Qed.
Print Assumptions C17_cloud_export_length.

(* importing a cloud key neither requires nor produces secret material: the import of the cloud export returns
   the (normalised) cloud key and consumes exactly the cloud bytes — in particular it stops before the key sections
   of a secret export *)
Theorem C17_import_cloud_needs_no_secret : forall fmt parse (dok : Z -> Prop),
  (forall d, dok d -> parse (fmt d) = Some d) -> (forall d, dok d -> val_ok (fmt d)) ->
  forall t s, wf_cloud dok (sk_cloud s) ->
  run (imp_cloud parse t) (mk (exp_secret fmt s)) =
  Ret (norm_cloud (sk_cloud s)) (mk (exp_lwekey_content (sk_lwe s) ++ exp_tlwekey_content UID_TGSW_KEY (sk_tgsw s))).
Proof. intros fmt parse dok H1 H2 t s Hw.
  rewrite (proj1 (cloud_is_strict_prefix_of_secret fmt s)).
  apply (rt_cloud fmt parse dok H1 H2 t (sk_cloud s) Hw). Qed.
Print Assumptions C17_import_cloud_needs_no_secret.

Example C17_nonvacuous : exp_lwekey_content [1; 0; 1] = [43;0;0;0; 1;0;0;0; 0;0;0;0; 1;0;0;0]
  /\ length (exp_ks_section 1024 8 2) = 102%nat.
Proof. split; vm_compute; reflexivity. Qed.
