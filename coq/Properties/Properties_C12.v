(* Properties_C12.v — C12: gadget decomposition yields balanced digits that recompose to the input. *)
From Coq Require Import ZArith List Lia.
From TV Require Import Base.Int32 Base.Sums Model.Decomp Proofs.Digits Proofs.Decomp.
Import ListNotations.
Local Open Scope Z_scope.

(* digits lie in [-Bg/2, Bg/2) *)
Theorem C12_digits_balanced : forall l B x p, valid_layout l B -> (p < l)%nat ->
  - halfBg B <= spec_digit l B x p < halfBg B.
Proof. exact decomp_range. Qed.
Print Assumptions C12_digits_balanced.

(* sum_p digit_p * 2^(32-(p+1)Bgbit) = x - err (mod 2^32) with 0 <= err < 2^(32-l*Bgbit) *)
Theorem C12_recomposition : forall l B x, valid_layout l B ->
  eqm32 (zsum l (fun p => spec_digit l B x p * pow2 (shp 32 B p))) (x - decomp_err l B x)
  /\ 0 <= decomp_err l B x < pow2 (32 - Z.of_nat l * B).
Proof. exact decomp_recompose. Qed.
Print Assumptions C12_recomposition.

Theorem C12_exact_when_l_Bgbit_is_32 : forall l B x, valid_layout l B -> Z.of_nat l * B = 32 -> decomp_err l B x = 0.
Proof. exact decomp_exact_when_full. Qed.
Print Assumptions C12_exact_when_l_Bgbit_is_32.

(* the routine (three passes over the caller's buffer) computes exactly these digits ... *)
Theorem C12_routine_computes_digits : forall l B coefs, valid_layout l B ->
  fst (decompH_scalar l B coefs) = map (fun p => map (fun x => spec_digit l B x p) coefs) (seq 0 l).
Proof. exact decompH_scalar_digits. Qed.
Print Assumptions C12_routine_computes_digits.

(* ... and leaves the input polynomial unchanged *)
Theorem C12_input_restored : forall l B coefs, Forall is_i32 coefs -> snd (decompH_scalar l B coefs) = coefs.
Proof. exact decompH_restores_input. Qed.
Print Assumptions C12_input_restored.

(* every coefficient position behaves identically *)
Theorem C12_pointwise : forall l B coefs p j d, valid_layout l B -> (p < l)%nat ->
  nth_error coefs j = Some d ->
  exists row, nth_error (fst (decompH_scalar l B coefs)) p = Some row /\ nth_error row j = Some (spec_digit l B d p).
Proof. exact decompH_pointwise. Qed.
Print Assumptions C12_pointwise.

(* vectorised (8-lane do-while) and scalar builds give identical digits, with every access in range,
   for N a positive multiple of 8 *)
Theorem C12_vector_equals_scalar : forall l B coefs m, (1 <= m)%nat -> length coefs = (8 * m)%nat ->
  decompH_avx l B coefs = Some (decompH_scalar l B coefs).
Proof. exact decompH_avx_eq_scalar. Qed.
Print Assumptions C12_vector_equals_scalar.

Theorem C12_tlwe_wrapper : forall l B polys, valid_layout l B ->
  fst (tlwe_decompH l B polys) =
  concat (map (fun poly => map (fun p => map (fun x => spec_digit l B x p) poly) (seq 0 l)) polys)
  /\ (Forall (Forall is_i32) polys -> snd (tlwe_decompH l B polys) = polys).
Proof. exact tlwe_decomp_rows. Qed.
Print Assumptions C12_tlwe_wrapper.

(* noted finding D7 (outside the quantifier: N = 1024 is forced by the FFT processors) *)
Theorem C12_vector_small_N_refuted : decompH_avx 2 10 [1;2;3;4] = None /\ decompH_avx 2 10 [1;2;3;4;5;6;7;8;9;10;11;12] = None.
Proof. exact decompH_avx_small_N_refuted. Qed.
Print Assumptions C12_vector_small_N_refuted.

Example C12_nonvacuous : valid_layout 3 7 /\ valid_layout 2 10 /\ valid_layout 32 1 /\ valid_layout 16 2 /\ valid_layout 2 16
  /\ offset 3 7 = 2164391936 /\ map (spec_digit 3 7 (-1)) [0%nat;1%nat;2%nat] = [0; 0; -1]
  /\ map (spec_digit 2 10 2147483647) [0%nat;1%nat] = [-512; -1].
Proof. unfold valid_layout. repeat split; try lia; vm_compute; reflexivity. Qed.
