(* Properties_C15.v — C15: evaluation leaves inputs and keys untouched, accepts an aliased output, uses no RNG.
   On a store of ciphertext objects with each gate written as the sequence of API calls of boot-gates.cpp:
   for every gate and EVERY aliasing pattern of (result, a, b, c) the result location ends with the gate function of
   the initial contents and every other non-temporary location is unchanged; element-wise in-place loops with the operand
   aliased to the result compute the map over the initial values; the decomposition restores the caller's buffer (C12).
   Key material and the generator are not arguments of the model's evaluation functions at all (by type). *)
From Coq Require Import ZArith List Lia.
From TV Require Import Base.Int32 Model.Lwe Model.Decomp Model.Gates Proofs.Decomp Proofs.Store.
Import ListNotations.
Local Open Scope Z_scope.

Theorem C15_gate_alias_invariant : forall (n : nat) (BOOT : sample -> sample) g st res a b t,
  (res < length st)%nat -> (a < length st)%nat -> (b < length st)%nat -> (t < length st)%nat -> t <> res -> t <> a -> t <> b ->
  let st' := run BOOT BOOT BOOT st (gate_calls n g res a b t) in
  rd st' res = BOOT (gate_lin g n (rd st a) (rd st b)) /\ (forall l, l <> res -> l <> t -> rd st' l = rd st l).
Proof. intros n BOOT. exact (gate_alias_invariant n BOOT BOOT BOOT). Qed.
Print Assumptions C15_gate_alias_invariant.

Theorem C15_mux_alias_invariant : forall (n : nat) (BOOTW KSW : sample -> sample) (nx : nat) st res a b c t t1 u1 u2,
  (res < length st)%nat -> (a < length st)%nat -> (b < length st)%nat -> (c < length st)%nat ->
  (t < length st)%nat -> (t1 < length st)%nat -> (u1 < length st)%nat -> (u2 < length st)%nat ->
  NoDup [t; t1; u1; u2] -> ~ In res [t; t1; u1; u2] -> ~ In a [t; t1; u1; u2] -> ~ In b [t; t1; u1; u2] -> ~ In c [t; t1; u1; u2] ->
  let st' := run BOOTW BOOTW KSW st (mux_calls n nx res a b c t t1 u1 u2) in
  rd st' res = KSW (mux_sum nx (BOOTW (mux_lin1 n (rd st a) (rd st b))) (BOOTW (mux_lin2 n (rd st a) (rd st c)))) /\
  (forall l, l <> res -> ~ In l [t; t1; u1; u2] -> rd st' l = rd st l).
Proof. intros n BOOTW KSW nx. exact (mux_alias_invariant n BOOTW BOOTW KSW nx). Qed.
Print Assumptions C15_mux_alias_invariant.

Theorem C15_not_in_place : forall (F : sample -> sample) st a, (a < length st)%nat ->
  rd (exec F F F st (CNegate a a)) a = lwe_negate (rd st a).
Proof. intros F. exact (not_alias F F F). Qed.
Print Assumptions C15_not_in_place.

Theorem C15_elementwise_in_place : forall f arr, loop_alias f 0 (length arr) arr = map (fun x => w32 (f x x)) arr.
Proof. exact loop_alias_spec. Qed.
Print Assumptions C15_elementwise_in_place.

(* the decomposition adds and removes its offset on the caller's buffer: the (const) input is restored *)
Theorem C15_decomposition_restores_input : forall l B coefs, Forall is_i32 coefs -> snd (decompH_scalar l B coefs) = coefs.
Proof. exact decompH_restores_input. Qed.
Print Assumptions C15_decomposition_restores_input.

(* all inputs the same object as the result: NAND(x,x) written over x *)
Example C15_nonvacuous : forall F : sample -> sample,
  let st := [([5; 6], 7); ([0; 0], 0)] in
  rd (run F F F st (gate_calls 2 NAND 0 0 0 1)) 0 = F (gate_lin NAND 2 ([5; 6], 7) ([5; 6], 7)).
Proof. intro F. apply (gate_alias_invariant 2 F F F NAND [([5; 6], 7); ([0; 0], 0)] 0 0 0 1); cbn; lia. Qed.
