(* Properties_C20.v — C20: interchangeable back-ends, C usability.  Finite facts (gen/AbiFacts.v,
   regenerated from the build on every run) decided by computation, on top of a checked layout model. *)
From Coq Require Import ZArith List Lia Bool String.
From TV Require Import Model.Layout Proofs.Layout gen.AbiFacts.
Import ListNotations.
Local Open Scope Z_scope.

(* the layout function: members aligned, in order, not overlapping — for every member list *)
Theorem C20_layout_wellformed : forall fs cur, Forall (fun f => 0 < f_align f /\ 0 <= f_size f) fs -> 0 <= cur ->
  let os := offsets cur fs in
  List.length os = List.length fs /\
  (forall i f o, nth_error fs i = Some f -> nth_error os i = Some o -> (f_align f | o) /\ cur <= o) /\
  (forall i f o o', nth_error fs i = Some f -> nth_error os i = Some o -> nth_error os (S i) = Some o' -> o + f_size f <= o').
Proof. exact offsets_wf. Qed.
Print Assumptions C20_layout_wellformed.
(* a view with the same data members (sizes, alignments) has the same layout: member functions,
   constructors, destructors and deleted copies of the C++ view are not members of the list *)
Theorem C20_layout_ignores_nonvirtual_members : forall fs1 fs2, map f_size fs1 = map f_size fs2 -> map f_align fs1 = map f_align fs2 ->
  forall cur, offsets cur fs1 = offsets cur fs2.
Proof. exact layout_deterministic. Qed.
Print Assumptions C20_layout_ignores_nonvirtual_members.

(* over the facts *)
Theorem C20_same_members_no_virtual :
  forallb (fun e => let '(_, c, cpp, virt) := e in slist_eqb c cpp && negb virt) parsed_members = true.
Proof. vm_compute. reflexivity. Qed.
Print Assumptions C20_same_members_no_virtual.
Theorem C20_layout_model_matches_both_compilers :
  forallb (fun e => let '(_, c, cpp) := e in view_matches_model c && view_matches_model cpp) structs = true.
Proof. vm_compute. reflexivity. Qed.
Print Assumptions C20_layout_model_matches_both_compilers.
Theorem C20_c_cpp_layout_equal : forallb (fun e => let '(_, c, cpp) := e in views_equal c cpp) structs = true.
Proof. vm_compute. reflexivity. Qed.
Print Assumptions C20_c_cpp_layout_equal.
Theorem C20_every_struct_probed : (0 < List.length structs)%nat /\ List.length structs = List.length parsed_members.
Proof. vm_compute. split; [lia|reflexivity]. Qed.
Print Assumptions C20_every_struct_probed.
(* every public API function is an unmangled T symbol of every one of the ten libraries *)
Theorem C20_symbols_equal : List.length libs = 10%nat /\ (0 < List.length api)%nat /\ forallb (fun l => subset api (snd l)) libs = true.
Proof. vm_compute. repeat split; try lia. Qed.
Print Assumptions C20_symbols_equal.
(* prototypes that no variant defines are absent from all of them alike (the exported sets, restricted
   to what the headers declare, are equal) *)
Theorem C20_dead_prototypes_absent_everywhere :
  forallb (fun l => forallb (fun f => negb (mem f (snd l))) dead_prototypes) libs = true.
Proof. vm_compute. reflexivity. Qed.
Print Assumptions C20_dead_prototypes_absent_everywhere.
Theorem C20_headers_compile_as_C_and_Cpp : (0 < List.length headers_compile)%nat /\ forallb (fun e => snd e) headers_compile = true.
Proof. vm_compute. split; [lia|reflexivity]. Qed.
Print Assumptions C20_headers_compile_as_C_and_Cpp.
(* assembly kernels address structure fields at the offsets the compiler gives them *)
Theorem C20_asm_offsets_match :
  match asm_offsetof with
  | [proc; ns2; coefs] => coefs = 0 /\ forallb (fun e => if String.eqb (substring (String.length (fst e) - 4) 4 (fst e)) "proc" then zlist_eqb (snd e) [proc] else zlist_eqb (snd e) [ns2]) asm_displacements = true
                          /\ List.length asm_displacements = 4%nat
  | _ => False
  end.
Proof. vm_compute. repeat split. Qed.
Print Assumptions C20_asm_offsets_match.
