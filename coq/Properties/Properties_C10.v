(* Properties_C10.v — C10 (partial: algebra proved, rounding of the butterflies measured).
   Over any commutative ring and any w with w^N = -1, evaluation at w maps the negacyclic product of the ring model
   (the one the C loops compute, C11) to the point-wise product and commutes with add, scale, constants and zero:
   the Lagrange-domain operations commute with exact transforms, and "ifft, ifft, point-wise, fft" computes the ring
   product when the transforms are exact.  The final conversion Torus32(int64_t(x)) adds less than one unit. *)
From Coq Require Import ZArith List Lia Ring_theory.
From TV Require Import Base.Int32 Ring.NegaRing Proofs.Eval.
Import ListNotations.

Theorem C10_evaluation_of_product : forall (R : Type) (rO rI : R) (radd rmul rsub : R -> R -> R) (ropp : R -> R)
  (Rth : ring_theory rO rI radd rmul rsub ropp (@eq R)) (N : nat), (0 < N)%nat -> forall w : R,
  rpow R rI rmul w N = ropp rI -> forall a b, (length b <= N)%nat ->
  ev R rO rI radd rmul ropp N w (mul N a b) = rmul (peval R rO rI radd rmul ropp w a) (peval R rO rI radd rmul ropp w b).
Proof. exact ev_mul. Qed.
Print Assumptions C10_evaluation_of_product.

Theorem C10_evaluation_additive : forall (R : Type) (rO rI : R) (radd rmul rsub : R -> R -> R) (ropp : R -> R)
  (Rth : ring_theory rO rI radd rmul rsub ropp (@eq R)) (N : nat) (w : R) f g,
  ev R rO rI radd rmul ropp N w (vadd f g) = radd (ev R rO rI radd rmul ropp N w f) (ev R rO rI radd rmul ropp N w g).
Proof. exact ev_vadd. Qed.
Print Assumptions C10_evaluation_additive.

Theorem C10_evaluation_constant : forall (R : Type) (rO rI : R) (radd rmul rsub : R -> R -> R) (ropp : R -> R)
  (Rth : ring_theory rO rI radd rmul rsub ropp (@eq R)) (N : nat), (0 < N)%nat -> forall (w : R),
  rpow R rI rmul w N = ropp rI -> forall c, ev R rO rI radd rmul ropp N w (vscale c e0) = zr R rO rI radd rmul ropp c.
Proof. exact ev_constant. Qed.
Print Assumptions C10_evaluation_constant.

Theorem C10_evaluation_zero : forall (R : Type) (rO rI : R) (radd rmul rsub : R -> R -> R) (ropp : R -> R)
  (Rth : ring_theory rO rI radd rmul rsub ropp (@eq R)) (N : nat) (w : R), ev R rO rI radd rmul ropp N w vzero = rO.
Proof. exact ev_vzero. Qed.
Print Assumptions C10_evaluation_zero.

Theorem C10_multiplication_by_X : forall (R : Type) (rO rI : R) (radd rmul rsub : R -> R -> R) (ropp : R -> R)
  (Rth : ring_theory rO rI radd rmul rsub ropp (@eq R)) (N : nat), (0 < N)%nat -> forall w : R,
  rpow R rI rmul w N = ropp rI -> forall f, ev R rO rI radd rmul ropp N w (Sh N f) = rmul w (ev R rO rI radd rmul ropp N w f).
Proof. exact ev_Sh. Qed.
Print Assumptions C10_multiplication_by_X.

Theorem C10_trunc_conversion : forall num den v d, (0 < den)%Z -> (0 < d)%Z -> (Z.abs (num - v * den) < d * den)%Z ->
  exists delta, (Z.abs delta <= d)%Z /\ eqm32 (w32 (Z.quot num den)) (v + delta)%Z.
Proof. exact trunc_conversion. Qed.
Print Assumptions C10_trunc_conversion.

(* an instance: Z with N = 1 and w = -1 (w^1 = -1): evaluation at -1 of a constant polynomial *)
Example C10_nonvacuous : exists delta, (Z.abs delta <= 1)%Z /\ eqm32 (w32 (Z.quot 4294967299 2)) (2147483649 + delta)%Z.
Proof. apply trunc_conversion; lia. Qed.
