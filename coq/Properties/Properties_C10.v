(* Properties_C10.v — C10 (partial: algebra proved, rounding of the butterflies measured).
   Over any commutative ring and any w with w^N = -1, evaluation at w maps the negacyclic product of the ring model
   (the one the C loops compute, C11) to the point-wise product and commutes with add, scale, constants and zero:
   the Lagrange-domain operations commute with exact transforms, and "ifft, ifft, point-wise, fft" computes the ring
   product when the transforms are exact.  The final conversion Torus32(int64_t(x)) adds less than one unit.
   For N = 2^(n+1): the inverse sums over the N odd powers of w return N times each coefficient (orthogonality), so the
   pipeline "transform both, multiply point-wise, inverse transform" yields N times the ring product, coefficient by
   coefficient, and a transform determines its coefficients up to the factor N; the radix-2 butterfly recursion
   computes all evaluations at the powers of a root; fold + twist + cyclic FFT of size N/2 (the scheme of the nayuki
   and spqlios processors) yields the evaluations at the points w^(4k+1); the other N/2 evaluations are their images under
   any ring automorphism that fixes the integers and inverts w (complex conjugation): the stored half determines the transform. *)
From Coq Require Import ZArith List Lia Ring_theory.
From TV Require Import Base.Int32 Ring.NegaRing Proofs.Eval Proofs.FftInverse Proofs.FftAlg Proofs.FftInstance.
Import ListNotations.

Theorem C10_evaluation_of_product : forall (R : Type) (rO rI : R) (radd rmul rsub : R -> R -> R) (ropp : R -> R)
  (Rth : ring_theory rO rI radd rmul rsub ropp (@eq R)) (N : nat), (0 < N)%nat -> forall w : R,
  rpow R rI rmul w N = ropp rI -> forall a b, (length b <= N)%nat ->
  ev R rO rI radd rmul ropp N w (mul N a b) = rmul (peval R rO rI radd rmul ropp w a) (peval R rO rI radd rmul ropp w b).
Proof. exact ev_mul. Qed.
Print Assumptions C10_evaluation_of_product.

Theorem C10_evaluation_additive : forall (R : Type) (rO rI : R) (radd rmul rsub : R -> R -> R) (ropp : R -> R)
  (Rth : ring_theory rO rI radd rmul rsub ropp (@eq R)) (N : nat) (w : R) f g,
  ev R rO rI radd rmul ropp N w (vadd f g) = radd (ev R rO rI radd rmul ropp N w f) (ev R rO rI radd rmul ropp N w g).
Proof. exact ev_vadd. Qed.
Print Assumptions C10_evaluation_additive.

Theorem C10_evaluation_constant : forall (R : Type) (rO rI : R) (radd rmul rsub : R -> R -> R) (ropp : R -> R)
  (Rth : ring_theory rO rI radd rmul rsub ropp (@eq R)) (N : nat), (0 < N)%nat -> forall (w : R),
  rpow R rI rmul w N = ropp rI -> forall c, ev R rO rI radd rmul ropp N w (vscale c e0) = zr R rO rI radd rmul ropp c.
Proof. exact ev_constant. Qed.
Print Assumptions C10_evaluation_constant.

Theorem C10_evaluation_zero : forall (R : Type) (rO rI : R) (radd rmul rsub : R -> R -> R) (ropp : R -> R)
  (Rth : ring_theory rO rI radd rmul rsub ropp (@eq R)) (N : nat) (w : R), ev R rO rI radd rmul ropp N w vzero = rO.
Proof. exact ev_vzero. Qed.
Print Assumptions C10_evaluation_zero.

Theorem C10_multiplication_by_X : forall (R : Type) (rO rI : R) (radd rmul rsub : R -> R -> R) (ropp : R -> R)
  (Rth : ring_theory rO rI radd rmul rsub ropp (@eq R)) (N : nat), (0 < N)%nat -> forall w : R,
  rpow R rI rmul w N = ropp rI -> forall f, ev R rO rI radd rmul ropp N w (Sh N f) = rmul w (ev R rO rI radd rmul ropp N w f).
Proof. exact ev_Sh. Qed.
Print Assumptions C10_multiplication_by_X.

Theorem C10_trunc_conversion : forall num den v d, (0 < den)%Z -> (0 < d)%Z -> (Z.abs (num - v * den) < d * den)%Z ->
  exists delta, (Z.abs delta <= d)%Z /\ eqm32 (w32 (Z.quot num den)) (v + delta)%Z.
Proof. exact trunc_conversion. Qed.
Print Assumptions C10_trunc_conversion.

Theorem C10_inverse_transform : forall (R : Type) (rO rI : R) (radd rmul rsub : R -> R -> R) (ropp : R -> R)
  (Rth : ring_theory rO rI radd rmul rsub ropp (@eq R)) (n : nat) (w : R),
  rpow R rI rmul w (2 ^ S n) = ropp rI -> forall (f : vec) (j : nat), (j < 2 ^ S n)%nat ->
  rsum R rO radd (2 ^ S n) (fun k => rmul (rpow R rI rmul w ((2 * k + 1) * (2 * 2 ^ S n - j)))
                                         (ev R rO rI radd rmul ropp (2 ^ S n) (rpow R rI rmul w (2 * k + 1)) f))
  = rmul (zr R rO rI radd rmul ropp (Z.of_nat (2 ^ S n))) (zr R rO rI radd rmul ropp (f j)).
Proof. exact inverse_transform. Qed.
Print Assumptions C10_inverse_transform.

Theorem C10_fft_product_pipeline : forall (R : Type) (rO rI : R) (radd rmul rsub : R -> R -> R) (ropp : R -> R)
  (Rth : ring_theory rO rI radd rmul rsub ropp (@eq R)) (n : nat) (w : R),
  rpow R rI rmul w (2 ^ S n) = ropp rI -> forall (a b : list Z) (j : nat), (length b <= 2 ^ S n)%nat -> (j < 2 ^ S n)%nat ->
  rsum R rO radd (2 ^ S n) (fun k => rmul (rpow R rI rmul w ((2 * k + 1) * (2 * 2 ^ S n - j)))
       (rmul (peval R rO rI radd rmul ropp (rpow R rI rmul w (2 * k + 1)) a)
             (peval R rO rI radd rmul ropp (rpow R rI rmul w (2 * k + 1)) b)))
  = rmul (zr R rO rI radd rmul ropp (Z.of_nat (2 ^ S n))) (zr R rO rI radd rmul ropp (mul (2 ^ S n) a b j)).
Proof. exact fft_product_pipeline. Qed.
Print Assumptions C10_fft_product_pipeline.

Theorem C10_transform_injective : forall (R : Type) (rO rI : R) (radd rmul rsub : R -> R -> R) (ropp : R -> R)
  (Rth : ring_theory rO rI radd rmul rsub ropp (@eq R)) (n : nat) (w : R),
  rpow R rI rmul w (2 ^ S n) = ropp rI -> forall f g : vec,
  (forall k, (k < 2 ^ S n)%nat -> ev R rO rI radd rmul ropp (2 ^ S n) (rpow R rI rmul w (2 * k + 1)) f
                                  = ev R rO rI radd rmul ropp (2 ^ S n) (rpow R rI rmul w (2 * k + 1)) g) ->
  forall j, (j < 2 ^ S n)%nat ->
  rmul (zr R rO rI radd rmul ropp (Z.of_nat (2 ^ S n))) (zr R rO rI radd rmul ropp (f j))
  = rmul (zr R rO rI radd rmul ropp (Z.of_nat (2 ^ S n))) (zr R rO rI radd rmul ropp (g j)).
Proof. exact transform_injective. Qed.
Print Assumptions C10_transform_injective.

Theorem C10_butterfly_recursion : forall (R : Type) (rO rI : R) (radd rmul rsub : R -> R -> R) (ropp : R -> R)
  (Rth : ring_theory rO rI radd rmul rsub ropp (@eq R)) (n : nat) (u : R) (c : list R),
  match n with O => True | S m => rpow R rI rmul u (2 ^ m) = ropp rI end ->
  fft R rO rI radd rmul rsub n u c = tab R (2 ^ n) (fun k => pev R rO radd rmul c (rpow R rI rmul u k)).
Proof. exact fft_correct. Qed.
Print Assumptions C10_butterfly_recursion.

Theorem C10_half_complex_scheme : forall (R : Type) (rO rI : R) (radd rmul rsub : R -> R -> R) (ropp : R -> R)
  (Rth : ring_theory rO rI radd rmul rsub ropp (@eq R)) (m : nat) (w : R),
  rpow R rI rmul w (2 ^ S m) = ropp rI -> forall f : vec,
  fft R rO rI radd rmul rsub m (rpow R rI rmul w 4) (fold_twist R rO rI radd rmul ropp m w f)
  = tab R (2 ^ m) (fun k => ev R rO rI radd rmul ropp (2 ^ S m) (rpow R rI rmul w (4 * k + 1)) f).
Proof. exact half_complex_transform. Qed.
Print Assumptions C10_half_complex_scheme.

Theorem C10_conjugate_evaluation : forall (R : Type) (rO rI : R) (radd rmul rsub : R -> R -> R) (ropp : R -> R)
  (Rth : ring_theory rO rI radd rmul rsub ropp (@eq R)) (s : R -> R),
  (forall x y, s (radd x y) = radd (s x) (s y)) -> (forall x y, s (rmul x y) = rmul (s x) (s y)) -> s rI = rI ->
  forall (N : nat) (x : R) (f : vec), ev R rO rI radd rmul ropp N (s x) f = s (ev R rO rI radd rmul ropp N x f).
Proof. exact conjugate_evaluation. Qed.
Print Assumptions C10_conjugate_evaluation.

(* the half the processors do not store: the evaluation at w^(4(M-k-1)+3) is the conjugate of the stored one at w^(4k+1) *)
Theorem C10_other_half_by_conjugation : forall (R : Type) (rO rI : R) (radd rmul rsub : R -> R -> R) (ropp : R -> R)
  (Rth : ring_theory rO rI radd rmul rsub ropp (@eq R)) (s : R -> R),
  (forall x y, s (radd x y) = radd (s x) (s y)) -> (forall x y, s (rmul x y) = rmul (s x) (s y)) -> s rI = rI ->
  forall (m : nat) (w : R), rpow R rI rmul w (2 ^ S m) = ropp rI -> s w = rpow R rI rmul w (2 * 2 ^ S m - 1) ->
  forall (f : vec) (k : nat), (k < 2 ^ m)%nat ->
  ev R rO rI radd rmul ropp (2 ^ S m) (rpow R rI rmul w (4 * (2 ^ m - k - 1) + 3)) f
  = s (ev R rO rI radd rmul ropp (2 ^ S m) (rpow R rI rmul w (4 * k + 1)) f).
Proof. exact other_half_by_conjugation. Qed.
Print Assumptions C10_other_half_by_conjugation.

(* the inverse transform needs the stored half only *)
Theorem C10_inverse_from_half : forall (R : Type) (rO rI : R) (radd rmul rsub : R -> R -> R) (ropp : R -> R)
  (Rth : ring_theory rO rI radd rmul rsub ropp (@eq R)) (s : R -> R),
  (forall x y, s (radd x y) = radd (s x) (s y)) -> (forall x y, s (rmul x y) = rmul (s x) (s y)) -> s rI = rI ->
  forall (m : nat) (w : R), rpow R rI rmul w (2 ^ S m) = ropp rI -> s w = rpow R rI rmul w (2 * 2 ^ S m - 1) ->
  forall (f : vec) (j : nat), (j < 2 ^ S m)%nat ->
  let H := rsum R rO radd (2 ^ m) (fun k => rmul (rpow R rI rmul w ((4 * k + 1) * (2 * 2 ^ S m - j)))
                                              (ev R rO rI radd rmul ropp (2 ^ S m) (rpow R rI rmul w (4 * k + 1)) f)) in
  radd H (s H) = rmul (zr R rO rI radd rmul ropp (Z.of_nat (2 ^ S m))) (zr R rO rI radd rmul ropp (f j)).
Proof. exact inverse_from_half. Qed.
Print Assumptions C10_inverse_from_half.

(* ... met by the automorphism X -> X^-1 of Z[X]/(X^4+1) *)
Example C10_conjugation_nonvacuous :
  (forall x y, qconj (qadd x y) = qadd (qconj x) (qconj y)) /\ (forall x y, qconj (qmul x y) = qmul (qconj x) (qconj y)) /\
  qconj q1 = q1 /\ qconj qX = rpow Q8 q1 qmul qX (2 * 2 ^ 2 - 1).
Proof. repeat split; [exact qconj_add|exact qconj_mul]. Qed.

(* the hypotheses are met: Z[X]/(X^4+1) with w = X is a commutative ring with w^4 = -1 (N = 4) *)
Example C10_transform_nonvacuous :
  ring_theory q0 q1 qadd qmul qsub qopp (@eq Q8) /\ (rpow Q8 q1 qmul qX (2 ^ 2) = qopp q1) /\
  (fft Q8 q0 q1 qadd qmul qsub 1 (rpow Q8 q1 qmul qX 4) (fold_twist Q8 q0 q1 qadd qmul qopp 1 qX fex)
   = [(3, -5, 7, 11); (3, 5, 7, -11)]%Z).
Proof. split; [exact Q8_ring|split; [exact qX_root|exact half_complex_instance]]. Qed.

(* an instance: Z with N = 1 and w = -1 (w^1 = -1): evaluation at -1 of a constant polynomial *)
Example C10_nonvacuous : exists delta, (Z.abs delta <= 1)%Z /\ eqm32 (w32 (Z.quot 4294967299 2)) (2147483649 + delta)%Z.
Proof. apply trunc_conversion; lia. Qed.
