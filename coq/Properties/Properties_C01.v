(* Properties_C01.v — C01 (partial: deterministic core): every gate computes its truth table.
   Proved for every key, dimension and input samples: the phase of each gate's internal combination, the region it
   lies in for admissible inputs (16 rows x 10 bootstrapped gates, wrap-around included), the sign of a rounded
   phase whose drift is below the gate's margin, decryption of an output within 1/8 of +-1/8, and the composition.
   The two probabilistic side conditions (modulus-switch drift, output error) are hypotheses measured by the check. *)
From Coq Require Import ZArith List Lia Bool.
From TV Require Import Base.Int32 Model.Numeric Model.Lwe Model.Bootstrap Model.Gates Proofs.Numeric Proofs.Gates Proofs.Drift.
Import ListNotations.
Local Open Scope Z_scope.

Theorem C01_gate_lin_phase : forall g n key ca cb, length (fst ca) = n -> length (fst cb) = n ->
  lwe_phase key (gate_lin g n ca cb) = w32 (gate_const g + gate_ca g * lwe_phase key ca + gate_cb g * lwe_phase key cb).
Proof. exact gate_lin_phase. Qed.
Print Assumptions C01_gate_lin_phase.

Theorem C01_gate_region : forall g phia phib a b, admissible phia a -> admissible phib b ->
  in_half (gate_margin g) (w32 (gate_const g + gate_ca g * phia + gate_cb g * phib)) (gate_table g a b).
Proof. exact gate_region. Qed.
Print Assumptions C01_gate_region.

Theorem C01_region_to_sign : forall (N S m phi drift p : Z) (b : bool),
  0 < N -> 2 * N * S = p32 -> 0 <= p < 2 * N -> 0 < m ->
  in_half m phi b -> Z.abs drift < m -> eqm32 (p * S) (phi + drift) -> (p <? N) = b.
Proof. exact region_to_sign. Qed.
Print Assumptions C01_region_to_sign.

Theorem C01_gate_correct_partial : forall g n key ca cb (a b : bool) (N S p drift : Z) cout e,
  length (fst ca) = n -> length (fst cb) = n ->
  admissible (lwe_phase key ca) a -> admissible (lwe_phase key cb) b ->
  0 < N -> 2 * N * S = p32 -> 0 <= p < 2 * N ->
  eqm32 (p * S) (lwe_phase key (gate_lin g n ca cb) + drift) -> Z.abs drift < gate_margin g ->
  lwe_phase key cout = (if p <? N then MU else - MU) + e -> Z.abs e < 536870912 ->
  decrypt_bit key cout = bit_of (gate_table g a b).
Proof. exact gate_correct_partial. Qed.
Print Assumptions C01_gate_correct_partial.

Theorem C01_not_exact : forall key c, lwe_phase key (gate_not c) = w32 (- lwe_phase key c).
Proof. exact not_phase. Qed.
Print Assumptions C01_not_exact.
Theorem C01_not_correct : forall key c (b : bool) e, lwe_phase key c = (if b then MU else - MU) + e -> Z.abs e < 536870912 ->
  decrypt_bit key (gate_not c) = bit_of (negb b).
Proof. exact not_correct. Qed.
Print Assumptions C01_not_correct.
Theorem C01_copy_exact : forall key c, lwe_phase key (gate_copy c) = lwe_phase key c.
Proof. exact copy_phase. Qed.
Print Assumptions C01_copy_exact.
Theorem C01_constant_exact : forall key n v, lwe_phase key (gate_constant n v) = if v =? 0 then - MU else MU.
Proof. exact constant_phase. Qed.
Print Assumptions C01_constant_exact.

Theorem C01_mux_stage1 : forall n key a b, length (fst a) = n -> length (fst b) = n ->
  lwe_phase key (mux_lin1 n a b) = w32 (cm18 + lwe_phase key a + lwe_phase key b).
Proof. exact mux_lin1_phase. Qed.
Print Assumptions C01_mux_stage1.
Theorem C01_mux_stage2 : forall n key a c, length (fst a) = n -> length (fst c) = n ->
  lwe_phase key (mux_lin2 n a c) = w32 (cm18 - lwe_phase key a + lwe_phase key c).
Proof. exact mux_lin2_phase. Qed.
Print Assumptions C01_mux_stage2.
Theorem C01_mux_sum : forall nx key u1 u2, length (fst u1) = nx -> length (fst u2) = nx ->
  lwe_phase key (mux_sum nx u1 u2) = w32 (c18 + lwe_phase key u1 + lwe_phase key u2).
Proof. exact mux_sum_phase. Qed.
Print Assumptions C01_mux_sum.
Theorem C01_mux_region : forall phia phib phic a b c, admissible phia a -> admissible phib b -> admissible phic c ->
  in_half 268435456 (w32 (cm18 + phia + phib)) (a && b) /\ in_half 268435456 (w32 (cm18 - phia + phic)) (negb a && c).
Proof. exact mux_region. Qed.
Print Assumptions C01_mux_region.
Theorem C01_mux_value : forall (a b c : bool) e1 e2, Z.abs (e1 + e2) < 536870912 ->
  let u1 := (if a && b then MU else - MU) + e1 in let u2 := (if negb a && c then MU else - MU) + e2 in
  0 < w32 (c18 + u1 + u2) <-> (if a then b else c) = true.
Proof. exact mux_sum_value. Qed.
Print Assumptions C01_mux_value.

(* when the worst-case rounding drift (1+|s|_1) * 2^32/(4N) is below the gate's margin, the drift hypothesis is implied and the truth
   table follows from the output error bound alone, for every key, every admissible inputs and every mask (small-n configurations;
   for n = 630 an adversarial mask can exceed the margin, which is why C01 is partial) *)
(* MUX as a whole (two bootstrappings, the sum under the extracted key, the key switch) *)
Theorem C01_mux_correct_partial : forall n nx key xkey ca cb cc (a b c : bool) (N S p1 p2 d1 d2 : Z) u1 u2 e1 e2 cout e3,
  length (fst ca) = n -> length (fst cb) = n -> length (fst cc) = n ->
  admissible (lwe_phase key ca) a -> admissible (lwe_phase key cb) b -> admissible (lwe_phase key cc) c ->
  0 < N -> 2 * N * S = p32 -> 0 <= p1 < 2 * N -> 0 <= p2 < 2 * N ->
  eqm32 (p1 * S) (lwe_phase key (mux_lin1 n ca cb) + d1) -> Z.abs d1 < 268435456 ->
  eqm32 (p2 * S) (lwe_phase key (mux_lin2 n ca cc) + d2) -> Z.abs d2 < 268435456 ->
  length (fst u1) = nx -> length (fst u2) = nx ->
  lwe_phase xkey u1 = (if p1 <? N then MU else - MU) + e1 -> lwe_phase xkey u2 = (if p2 <? N then MU else - MU) + e2 ->
  lwe_phase key cout = w32 (lwe_phase xkey (mux_sum nx u1 u2) + e3) -> Z.abs (e1 + e2 + e3) < 536870912 ->
  decrypt_bit key cout = bit_of (if a then b else c).
Proof. exact mux_correct_partial. Qed.
Print Assumptions C01_mux_correct_partial.

Theorem C01_gate_correct_worstcase : forall g (N : nat) (S : Z) n key ca cb (a b : bool) cout e,
  (0 < N)%nat -> inDomain (2 * Z.of_nat N) -> 2 * Z.of_nat N * S = p32 ->
  length (fst ca) = n -> length (fst cb) = n ->
  admissible (lwe_phase key ca) a -> admissible (lwe_phase key cb) b ->
  (1 + Drift.l1 key) * S < 2 * gate_margin g ->
  lwe_phase key cout = (if rot_exponent N key (gate_lin g n ca cb) <? Z.of_nat N then MU else - MU) + e -> Z.abs e < 536870912 ->
  decrypt_bit key cout = bit_of (gate_table g a b).
Proof. exact gate_correct_worstcase. Qed.
Print Assumptions C01_gate_correct_worstcase.

(* the hypotheses are satisfiable: a noiseless instance of AND on (1,0) with N = 4 *)
Example C01_nonvacuous :
  admissible 536870912 true /\ admissible (-536870912 + 134217728) false /\
  lwe_phase [1;0] (gate_lin AND 2 ([0;0], 536870912) ([0;0], -536870912)) = -536870912 /\
  in_half (gate_margin AND) (-536870912) (gate_table AND true false) /\
  eqm32 (7 * 536870912) (-536870912 + 0) /\ (7 <? 4) = false.
Proof. unfold admissible, in_half. repeat split; vm_compute; try reflexivity; try discriminate. Qed.
