(* Properties_C03.v — C03: decryption inverts encryption (deterministic theorems under an explicit noise bound).
   "Every noise level with Msize*alpha <= 1/20" is the statement that a Gaussian exceeds 10 sigma with negligible
   probability; the theorems are deterministic in the converted draw e and hold for every key, dimension and M of C13's domain. *)
From Coq Require Import ZArith List Lia.
From TV Require Import Base.Int32 Ring.NegaRing Model.Numeric Model.Lwe Model.Tlwe Model.Gates Model.Encrypt
  Proofs.Numeric Proofs.Tlwe Proofs.Tgsw Proofs.Encrypt Proofs.Decrypt Model.Decomp Model.Tgsw Proofs.Decomp Proofs.Gadget Proofs.TgswDecrypt.
Import ListNotations.
Local Open Scope Z_scope.

(* rounding a phase that is within 2^31/M - 2 units of the encoding of mu returns that encoding *)
Theorem C03_approxPhase_near : forall M, inDomain M -> forall mu e, 0 <= mu < M -> M * Z.abs e + M + 1 < p31 ->
  approxPhase (w32 (modSwitchTo mu M + e)) M = modSwitchTo mu M.
Proof. exact approxPhase_near. Qed.
Print Assumptions C03_approxPhase_near.

Theorem C03_lwe_encrypt_phase : forall key message ds c r, lwe_sym_encrypt key message ds = Some (c, r) ->
  exists g mask, ds = DG (fst g) (snd g) :: map DU mask ++ r /\ length mask = length key /\ fst c = mask /\
    lwe_phase key c = w32 (message + dtot32 (fst g) (snd g)).
Proof. exact lwe_sym_encrypt_spec. Qed.
Print Assumptions C03_lwe_encrypt_phase.

Theorem C03_lwe_decrypt_correct : forall M key c mu e, inDomain M -> 0 <= mu < M -> M * Z.abs e + M + 1 < p31 ->
  lwe_phase key c = w32 (modSwitchTo mu M + e) -> lwe_sym_decrypt key c M = modSwitchTo mu M.
Proof. exact lwe_decrypt_correct. Qed.
Print Assumptions C03_lwe_decrypt_correct.

Theorem C03_lwe_decrypt_encrypt : forall M key mu ds c r, inDomain M -> 0 <= mu < M ->
  lwe_sym_encrypt key (modSwitchTo mu M) ds = Some (c, r) ->
  (forall g, In (DG (fst g) (snd g)) (firstn 1 ds) -> M * Z.abs (dtot32 (fst g) (snd g)) + M + 1 < p31) ->
  lwe_sym_decrypt key c M = modSwitchTo mu M.
Proof. exact lwe_decrypt_encrypt. Qed.
Print Assumptions C03_lwe_decrypt_encrypt.

Theorem C03_trivial_decrypts_under_every_key : forall key n mu M, inDomain M -> 0 <= mu < M ->
  lwe_sym_decrypt key (lwe_trivial n (modSwitchTo mu M)) M = modSwitchTo mu M.
Proof. exact trivial_message_decrypts. Qed.
Print Assumptions C03_trivial_decrypts_under_every_key.

Theorem C03_boots_roundtrip : forall key bit ds c r, (bit = 0 \/ bit = 1) -> boots_sym_encrypt key bit ds = Some (c, r) ->
  (forall g, In (DG (fst g) (snd g)) (firstn 1 ds) -> Z.abs (dtot32 (fst g) (snd g)) < 536870912) ->
  decrypt_bit key c = bit.
Proof. exact boots_roundtrip. Qed.
Print Assumptions C03_boots_roundtrip.

(* TLWE: the phase of a fresh encryption of zero is the vector of converted Gaussian draws, coefficient-wise mod 2^32 *)
Theorem C03_tlwe_encrypt_phase : forall N, (0 < N)%nat -> forall key ds c r, Forall (lenN N) key ->
  tlwe_encrypt_zero key N ds = Some (c, r) ->
  exists gs, length gs = N /\ wf_tsample N (length key) c /\
    ds = map (fun g => DG (fst g) (snd g)) gs ++ concat (map (map DU) (removelast c)) ++ r /\
    eqNm N (PHv N key c) (ofl (map (gaussian32 0) gs)).
Proof. exact tlwe_encrypt_zero_spec. Qed.
Print Assumptions C03_tlwe_encrypt_phase.

(* TGSW: tGswSymDecrypt returns the message polynomial of every sample built as "encryptions of zero + mu * gadget"
   (tGswAddMuH), for every N, k >= 1, valid (l, Bgbit), key and Msize of C13's domain, when Msize * (noise seen through the
   indicator's digits + Msize * truncation error + Msize) stays below 2^31 - Msize *)
Theorem C03_tgsw_decrypt_correct : forall N, (0 < N)%nat -> forall key k, wf_tkey N k key -> (1 <= k)%nat ->
  forall l B, valid_layout l B -> forall M, inDomain M -> forall mu Z0 (noise : vec),
  lenN N mu -> Forall (wf_tsample N k) Z0 -> length Z0 = (S k * l)%nat ->
  (forall j, (j < N)%nat -> 0 <= nth j mu 0 < M) ->
  eqNm N (vsum l (fun i => vscale (cdig l B M i) (PHv N key (nth (k * l + i) Z0 [])))) noise ->
  (forall j, (j < N)%nat -> M * (Z.abs (noise j) + M * pow2 (32 - Z.of_nat l * B) + M) + M + 1 < p31) ->
  tgsw_decrypt l B key (add_mu_h l B mu Z0) M = mu.
Proof. exact tgsw_decrypt_correct. Qed.
Print Assumptions C03_tgsw_decrypt_correct.

(* ... hence decrypt (encrypt mu) = mu for every draw stream whose converted Gaussian draws are at most eta in absolute value *)
Theorem C03_tgsw_decrypt_encrypt : forall N, (0 < N)%nat -> forall key k, wf_tkey N k key -> (1 <= k)%nat ->
  forall l B, valid_layout l B -> forall M, inDomain M -> forall mu ds C r eta,
  lenN N mu -> (forall j, (j < N)%nat -> 0 <= nth j mu 0 < M) ->
  tgsw_sym_encrypt l B key N mu ds = Some (C, r) ->
  (forall g, In (DG (fst g) (snd g)) ds -> Z.abs (gaussian32 0 g) <= eta) ->
  M * (Z.of_nat l * halfBg B * eta + M * pow2 (32 - Z.of_nat l * B) + M) + M + 1 < p31 ->
  tgsw_decrypt l B key C M = mu.
Proof. exact tgsw_decrypt_encrypt. Qed.
Print Assumptions C03_tgsw_decrypt_encrypt.

Definition ex_ds : list draw :=
  [DG 5 32; DG (-3) 32; DU 11; DU (-12); DG 2 32; DG 9 32; DU 13; DU 14; DG (-7) 32; DG 1 32; DU (-15); DU 16; DG 4 32; DG (-8) 32; DU 17; DU 18; DU 99].
Example C03_tgsw_nonvacuous :
  wf_tkey 2 1 [[1; 0]] /\ valid_layout 2 8 /\ inDomain 4 /\
  4 * (Z.of_nat 2 * halfBg 8 * 10 + 4 * pow2 (32 - Z.of_nat 2 * 8) + 4) + 4 + 1 < p31 /\
  match tgsw_sym_encrypt 2 8 [[1; 0]] 2 [1; 3] ex_ds with
  | Some (C, r) => r = [DU 99] /\ tgsw_decrypt 2 8 [[1; 0]] C 4 = [1; 3]
  | None => False end.
Proof. split; [split; [reflexivity|repeat constructor]|]. split; [unfold valid_layout; cbn; lia|]. split; [left; lia|].
  split; [vm_compute; reflexivity|]. vm_compute. split; reflexivity. Qed.

Example C03_nonvacuous :
  inDomain 8 /\ 8 * Z.abs 268435000 + 8 + 1 < p31 /\
  lwe_sym_encrypt [1;0;1] (modSwitchTo 3 8) [DG 268435000 32; DU 5; DU (-7); DU 11; DU 99] =
     Some (([5; -7; 11], 1879047752), [DU 99]) /\
  lwe_sym_decrypt [1;0;1] ([5; -7; 11], 1879047752) 8 = modSwitchTo 3 8.
Proof. split; [left; lia|]. repeat split; vm_compute; reflexivity. Qed.
