(* Properties_C03.v — C03: decryption inverts encryption (deterministic theorems under an explicit noise bound).
   "Every noise level with Msize*alpha <= 1/20" is the statement that a Gaussian exceeds 10 sigma with negligible
   probability; the theorems are deterministic in the converted draw e and hold for every key, dimension and M of C13's domain. *)
From Coq Require Import ZArith List Lia.
From TV Require Import Base.Int32 Ring.NegaRing Model.Numeric Model.Lwe Model.Tlwe Model.Gates Model.Encrypt
  Proofs.Numeric Proofs.Tlwe Proofs.Tgsw Proofs.Encrypt Proofs.Decrypt.
Import ListNotations.
Local Open Scope Z_scope.

(* rounding a phase that is within 2^31/M - 2 units of the encoding of mu returns that encoding *)
Theorem C03_approxPhase_near : forall M, inDomain M -> forall mu e, 0 <= mu < M -> M * Z.abs e + M + 1 < p31 ->
  approxPhase (w32 (modSwitchTo mu M + e)) M = modSwitchTo mu M.
Proof. exact approxPhase_near. Qed.
Print Assumptions C03_approxPhase_near.

Theorem C03_lwe_encrypt_phase : forall key message ds c r, lwe_sym_encrypt key message ds = Some (c, r) ->
  exists g mask, ds = DG (fst g) (snd g) :: map DU mask ++ r /\ length mask = length key /\ fst c = mask /\
    lwe_phase key c = w32 (message + dtot32 (fst g) (snd g)).
Proof. exact lwe_sym_encrypt_spec. Qed.
Print Assumptions C03_lwe_encrypt_phase.

Theorem C03_lwe_decrypt_correct : forall M key c mu e, inDomain M -> 0 <= mu < M -> M * Z.abs e + M + 1 < p31 ->
  lwe_phase key c = w32 (modSwitchTo mu M + e) -> lwe_sym_decrypt key c M = modSwitchTo mu M.
Proof. exact lwe_decrypt_correct. Qed.
Print Assumptions C03_lwe_decrypt_correct.

Theorem C03_lwe_decrypt_encrypt : forall M key mu ds c r, inDomain M -> 0 <= mu < M ->
  lwe_sym_encrypt key (modSwitchTo mu M) ds = Some (c, r) ->
  (forall g, In (DG (fst g) (snd g)) (firstn 1 ds) -> M * Z.abs (dtot32 (fst g) (snd g)) + M + 1 < p31) ->
  lwe_sym_decrypt key c M = modSwitchTo mu M.
Proof. exact lwe_decrypt_encrypt. Qed.
Print Assumptions C03_lwe_decrypt_encrypt.

Theorem C03_trivial_decrypts_under_every_key : forall key n mu M, inDomain M -> 0 <= mu < M ->
  lwe_sym_decrypt key (lwe_trivial n (modSwitchTo mu M)) M = modSwitchTo mu M.
Proof. exact trivial_message_decrypts. Qed.
Print Assumptions C03_trivial_decrypts_under_every_key.

Theorem C03_boots_roundtrip : forall key bit ds c r, (bit = 0 \/ bit = 1) -> boots_sym_encrypt key bit ds = Some (c, r) ->
  (forall g, In (DG (fst g) (snd g)) (firstn 1 ds) -> Z.abs (dtot32 (fst g) (snd g)) < 536870912) ->
  decrypt_bit key c = bit.
Proof. exact boots_roundtrip. Qed.
Print Assumptions C03_boots_roundtrip.

(* TLWE: the phase of a fresh encryption of zero is the vector of converted Gaussian draws, coefficient-wise mod 2^32 *)
Theorem C03_tlwe_encrypt_phase : forall N, (0 < N)%nat -> forall key ds c r, Forall (lenN N) key ->
  tlwe_encrypt_zero key N ds = Some (c, r) ->
  exists gs, length gs = N /\ wf_tsample N (length key) c /\
    ds = map (fun g => DG (fst g) (snd g)) gs ++ concat (map (map DU) (removelast c)) ++ r /\
    eqNm N (PHv N key c) (ofl (map (gaussian32 0) gs)).
Proof. exact tlwe_encrypt_zero_spec. Qed.
Print Assumptions C03_tlwe_encrypt_phase.

Example C03_nonvacuous :
  inDomain 8 /\ 8 * Z.abs 268435000 + 8 + 1 < p31 /\
  lwe_sym_encrypt [1;0;1] (modSwitchTo 3 8) [DG 268435000 32; DU 5; DU (-7); DU 11; DU 99] =
     Some (([5; -7; 11], 1879047752), [DU 99]) /\
  lwe_sym_decrypt [1;0;1] ([5; -7; 11], 1879047752) 8 = modSwitchTo 3 8.
Proof. split; [left; lia|]. repeat split; vm_compute; reflexivity. Qed.
