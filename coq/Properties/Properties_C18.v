(* Properties_C18.v — C18: truncated or mistyped serialized input is never accepted silently. *)
From Coq Require Import ZArith List Lia.
From TV Require Import Base.Int32 Codec.Stream Codec.Text Codec.Objects Proofs.CodecGen Proofs.CodecPrim Proofs.CodecText Proofs.CodecObjects Proofs.CodecSafety.
Import ListNotations.
Local Open Scope Z_scope.

(* notclean r : the import terminated the process (Abort / Crash) or returned with the stream not good *)

(* the generic truncation theorem: for every importer built from well-behaved readers, a clean run that
   consumes exactly c is never clean on a proper prefix of c, whatever follows c *)
Theorem C18_prefix_never_clean : forall A (p : prog A), wbprog p -> forall c r a,
  run p (mk (c ++ r)) = Ret a (mk r) -> forall s x t, c = s ++ x :: t -> notclean (run p (mk s)).
Proof. exact @prefix_never_clean. Qed.
Print Assumptions C18_prefix_never_clean.

(* the two primitive readers are well behaved on both transports *)
Theorem C18_raw_read_well_behaved : forall t n, wb (read_raw t n).
Proof. exact wb_read_raw. Qed.
Print Assumptions C18_raw_read_well_behaved.
Theorem C18_section_parser_well_behaved : forall t, wb (read_section t).
Proof. exact wb_read_section. Qed.
Print Assumptions C18_section_parser_well_behaved.

(* every importer is such a program *)
Theorem C18_importers_well_behaved : forall parse t,
  wbprog (imp_lweparams parse t) /\ (forall n, wbprog (imp_lwesample t n)) /\ wbprog (imp_lwekey parse t) /\
  wbprog (imp_tlweparams parse t) /\ (forall tp, wbprog (imp_tlwesample t tp)) /\ wbprog (imp_tlwekey parse t) /\
  wbprog (imp_tgswparams parse t) /\ (forall gp, wbprog (imp_tgswsample t gp)) /\ wbprog (imp_tgswkey parse t) /\
  wbprog (imp_kskey parse t) /\ wbprog (imp_bkey parse t) /\ wbprog (imp_paramset parse t) /\
  wbprog (imp_cloud parse t) /\ wbprog (imp_secret parse t).
Proof. intros parse t. repeat split; intros;
  first [apply wb_lweparams|apply wb_lwesample|apply wb_lwekey|apply wb_tlweparams|apply wb_tlwesample|apply wb_tlwekey
        |apply wb_tgswparams|apply wb_tgswsample|apply wb_tgswkey|apply wb_kskey|apply wb_bkey|apply wb_paramset|apply wb_cloud|apply wb_secret]. Qed.
Print Assumptions C18_importers_well_behaved.

(* hence, for every object, every proper prefix of its export is flagged — stated for the two key sets
   (the other types are the same two lines with their own round-trip theorem of C05) *)
Theorem C18_truncated_secret_keyset_never_clean : forall fmt parse (dok : Z -> Prop),
  (forall d, dok d -> parse (fmt d) = Some d) -> (forall d, dok d -> val_ok (fmt d)) ->
  forall t sk, wf_secret dok sk -> forall s x tl, exp_secret fmt sk = s ++ x :: tl -> notclean (run (imp_secret parse t) (mk s)).
Proof. intros fmt parse dok H1 H2 t sk Hw s x tl He.
  eapply rt_never_clean; [apply wb_secret|apply (rt_secret fmt parse dok H1 H2 t sk Hw)|exact He]. Qed.
Print Assumptions C18_truncated_secret_keyset_never_clean.
Theorem C18_truncated_cloud_keyset_never_clean : forall fmt parse (dok : Z -> Prop),
  (forall d, dok d -> parse (fmt d) = Some d) -> (forall d, dok d -> val_ok (fmt d)) ->
  forall t c, wf_cloud dok c -> forall s x tl, exp_cloud fmt c = s ++ x :: tl -> notclean (run (imp_cloud parse t) (mk s)).
Proof. intros fmt parse dok H1 H2 t c Hw s x tl He.
  eapply rt_never_clean; [apply wb_cloud|apply (rt_cloud fmt parse dok H1 H2 t c Hw)|exact He]. Qed.
Print Assumptions C18_truncated_cloud_keyset_never_clean.
Theorem C18_truncated_sample_never_clean : forall t n smp, wf_lwesample n smp ->
  forall s x tl, exp_lwesample smp = s ++ x :: tl -> notclean (run (imp_lwesample t n) (mk s)).
Proof. intros t n smp Hw s x tl He. eapply rt_never_clean; [apply wb_lwesample|apply rt_lwesample, Hw|exact He]. Qed.
Print Assumptions C18_truncated_sample_never_clean.

(* mistyped input *)
(* a text section is closed only by the exact END line of its own title: whenever the section reader returns, the last line it
   consumed is "-----END <title>-----" with the title of the BEGIN line (a mistyped or foreign END line never closes a section) *)
Theorem C18_section_closed_only_by_its_own_end : forall t s v s', read_section t s = Ret v s' ->
  exists s0, get_line t s0 = (END_ ++ fst v ++ DASHES, s').
Proof. exact read_section_needs_exact_end. Qed.
Print Assumptions C18_section_closed_only_by_its_own_end.

Theorem C18_wrong_title_aborts : forall T sec, list_eqb (fst sec) T = false -> forall s B (f : props -> prog B),
  run (pbind (expect_title T sec) f) s = Stop Abort.
Proof. intros. now apply wrong_title_aborts. Qed.
Print Assumptions C18_wrong_title_aborts.
Theorem C18_wrong_tag_aborts : forall t uid init bs r, length bs = 4%nat -> Forall (fun b => 0 <= b < 256) bs -> bs <> le32 uid ->
  run (check_tag t uid init) (mk (bs ++ r)) = Stop Abort.
Proof. exact wrong_tag_aborts. Qed.
Print Assumptions C18_wrong_tag_aborts.

(* the parser reads inside the line: the suffix comparison of a BEGIN line is guarded by the prefix comparison
   (sec_step evaluates ends_with only through && after starts_with), lines shorter than the markers are ignored *)
Example C18_short_lines_ignored : sec_step ps0 [45; 45] = inl ps0 /\ sec_step ps0 [] = inl ps0.
Proof. split; reflexivity. Qed.

Example C18_nonvacuous :
  run (imp_lwesample CFile 2) (mk (firstn 9 (exp_lwesample {| ls_a := [5; 6]; ls_b := 7; ls_var := 0 |}))) = Stop Abort /\
  (exists a s, run (imp_lwesample CppStream 2) (mk (firstn 9 (exp_lwesample {| ls_a := [5; 6]; ls_b := 7; ls_var := 0 |}))) = Ret a s /\ good s = false) /\
  run (imp_lweparams (fun _ => Some 0) CFile) (mk (firstn 40 (exp_lweparams (fun _ => [48]) {| lp_n := 3; lp_amin := 0; lp_amax := 0 |}))) = Stop Crash.
Proof. split; [vm_compute; reflexivity|]. split; [|vm_compute; reflexivity].
  eexists; eexists; split; [vm_compute; reflexivity|reflexivity]. Qed.
