(* Properties_C13.v — C13: torus rounding and modulus switch round to nearest exactly.
   Only statements, closed by [exact], with Print Assumptions beneath each. *)
From Coq Require Import ZArith List Lia.
From TV Require Import Base.Int32 Model.Numeric Proofs.Numeric.
Local Open Scope Z_scope.

(* M in the property's domain: any integer in [2,2^15] or a power of two 2^1..2^30
   (2^31 is not a value of the C parameter type: see C13_M_2p31_not_representable). *)
Theorem C13_modSwitch_nearest : forall phase M, inDomain M ->
  0 <= modSwitchFrom phase M < M /\
  exists r, (r = modSwitchFrom phase M \/ (modSwitchFrom phase M = 0 /\ r = M)) /\
            Z.abs (M * u32 phase - r * p32) <= p31.
Proof. exact modSwitchFrom_nearest. Qed.
Print Assumptions C13_modSwitch_nearest.

Theorem C13_approxPhase_encodes_switch : forall phase M, inDomain M ->
  approxPhase phase M = modSwitchTo (modSwitchFrom phase M) M.
Proof. exact approxPhase_is_encode_of_switch. Qed.
Print Assumptions C13_approxPhase_encodes_switch.

Theorem C13_roundtrip : forall mu M, 2 <= M < p31 -> 0 <= mu < M ->
  modSwitchFrom (modSwitchTo mu M) M = mu.
Proof. exact modSwitch_roundtrip. Qed.
Print Assumptions C13_roundtrip.

Theorem C13_domain_small : forall M, 2 <= M <= 32768 -> inDomain M.
Proof. intros M H. left. exact H. Qed.
Print Assumptions C13_domain_small.
Theorem C13_domain_pow2 : forall j, 1 <= j <= 30 -> inDomain (2^j).
Proof. intros j H. right. exists j. split; [exact H|reflexivity]. Qed.
Print Assumptions C13_domain_pow2.

Theorem C13_torus_real_torus : forall x, is_i32 x -> dtot32 (t32tod_num x) t32tod_k = x.
Proof. exact dtot32_t32tod. Qed.
Print Assumptions C13_torus_real_torus.

Theorem C13_dtot32_periodic_on_grid : forall num m, dtot32 (num + m * pow2 32) 32 = dtot32 num 32.
Proof. exact dtot32_periodic_grid. Qed.
Print Assumptions C13_dtot32_periodic_on_grid.

(* findings, stated as refutations with witnesses (replayed on the implementation by the check) *)
Theorem C13_dtot32_periodic_refuted : exists num k m, 0 <= k /\ dtot32 (num + m * pow2 k) k <> dtot32 num k.
Proof. exact dtot32_periodic_refuted. Qed.
Print Assumptions C13_dtot32_periodic_refuted.
Theorem C13_M_2p31_not_representable : interv (w32 (2^31)) = 0.
Proof. exact modSwitch_2p31_refuted. Qed.
Print Assumptions C13_M_2p31_not_representable.

(* non-vacuity: the hypotheses are met by the values the library uses *)
Example C13_nonvacuous : inDomain 2048 /\ inDomain 8 /\ inDomain 1000 /\
  modSwitchFrom (-1) 2048 = 0 /\ modSwitchFrom 1048576 2048 = 1 /\ modSwitchFrom 1048575 2048 = 0
  /\ modSwitchTo 1 8 = 536870912 /\ modSwitchTo (-1) 8 = -536870912.
Proof. repeat split; try (left; lia); vm_compute; reflexivity. Qed.
