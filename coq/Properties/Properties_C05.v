(* Properties_C05.v — C05: export followed by import reproduces every object exactly, on both transports.
   The real-number text pair (printf "%.17lg" / stold) is a parameter with the round-trip hypothesis. *)
From Coq Require Import ZArith QArith List Lia.
From TV Require Import Base.Int32 Codec.Stream Codec.Text Codec.Objects Proofs.CodecGen Proofs.CodecPrim Proofs.CodecText Proofs.CodecObjects.
Import ListNotations.
Local Open Scope Z_scope.

(* integers as text: sprintf("%10ld") then stol, every int64 *)
Theorem C05_int_text_roundtrip : forall z, - p63 <= z < p63 -> stol (fmt_i64 z) = Some z.
Proof. exact stol_fmt_i64. Qed.
Print Assumptions C05_int_text_roundtrip.

(* the section parser inverts the section writer, whatever follows in the stream, both transports *)
Theorem C05_section_roundtrip : forall t title m rest0, Forall wordc title -> props_ok m ->
  read_section t (mk (section_bytes title m ++ rest0)) = Ret (title, replay_props m []) (mk rest0).
Proof. exact read_section_ok. Qed.
Print Assumptions C05_section_roundtrip.

Section C05.
Variable fmt_double : Z -> list Z.
Variable parse_double : list Z -> option Z.
Variable dok : Z -> Prop.
Hypothesis double_text_roundtrip : forall d, dok d -> parse_double (fmt_double d) = Some d.
Hypothesis double_text_plain : forall d, dok d -> val_ok (fmt_double d).

(* rt p e a : forall rest, run p (mk (e ++ rest)) = Ret a (mk rest)  — import of the export returns the object and
   leaves exactly the rest of the stream, in a good state: objects written back to back are read back one by one *)
Theorem C05_LweParams : forall t p, wf_lp dok p -> rt (imp_lweparams parse_double t) (exp_lweparams fmt_double p) p.
Proof. exact (rt_lweparams fmt_double parse_double dok double_text_roundtrip double_text_plain). Qed.
Theorem C05_TLweParams : forall t p, wf_tp dok p -> rt (imp_tlweparams parse_double t) (exp_tlweparams fmt_double p) p.
Proof. exact (rt_tlweparams fmt_double parse_double dok double_text_roundtrip double_text_plain). Qed.
Theorem C05_TGswParams : forall t p, wf_gp dok p -> rt (imp_tgswparams parse_double t) (exp_tgswparams fmt_double p) p.
Proof. exact (rt_tgswparams fmt_double parse_double dok double_text_roundtrip double_text_plain). Qed.
Theorem C05_ParameterSet : forall t p, wf_ps dok p -> rt (imp_paramset parse_double t) (exp_paramset fmt_double p) p.
Proof. exact (rt_paramset fmt_double parse_double dok double_text_roundtrip double_text_plain). Qed.
Theorem C05_LweSample : forall t n s, wf_lwesample n s -> rt (imp_lwesample t n) (exp_lwesample s) s.
Proof. exact rt_lwesample. Qed.
Theorem C05_TLweSample : forall t tp s, wf_tlwesample tp s -> rt (imp_tlwesample t tp) (exp_tlwesample s) s.
Proof. exact rt_tlwesample. Qed.
Theorem C05_TGswSample : forall t gp rows, length rows = nat_of (kpl gp) -> Forall (wf_tlwesample (gp_tlwe gp)) rows ->
  rt (imp_tgswsample t gp) (exp_tgswsample rows) rows.
Proof. exact rt_tgswsample. Qed.
Theorem C05_LweKey : forall t k, wf_lp dok (lk_params k) -> 0 <= lp_n (lk_params k) -> wf_poly (lp_n (lk_params k)) (lk_key k) ->
  rt (imp_lwekey parse_double t) (exp_lwekey fmt_double k) k.
Proof. exact (rt_lwekey fmt_double parse_double dok double_text_roundtrip double_text_plain). Qed.
Theorem C05_TLweKey : forall t k, wf_tp dok (tk_params k) -> wf_tkeypolys (tk_params k) (tk_key k) ->
  rt (imp_tlwekey parse_double t) (exp_tlwekey fmt_double k) k.
Proof. exact (rt_tlwekey fmt_double parse_double dok double_text_roundtrip double_text_plain). Qed.
Theorem C05_TGswKey : forall t k, wf_gp dok (gk_params k) -> wf_tkeypolys (gp_tlwe (gk_params k)) (gk_key k) ->
  rt (imp_tgswkey parse_double t) (exp_tgswkey fmt_double k) k.
Proof. exact (rt_tgswkey fmt_double parse_double dok double_text_roundtrip double_text_plain). Qed.
(* key material: the advisory per-row variance comes back as the common maximum (the norm_ functions) *)
Theorem C05_KeySwitchKey : forall t k, wf_ks dok k -> rt (imp_kskey parse_double t) (exp_kskey fmt_double k) (norm_ks k).
Proof. exact (rt_kskey fmt_double parse_double dok double_text_roundtrip double_text_plain). Qed.
Theorem C05_BootstrappingKey : forall t b, wf_lp dok (bk_in b) -> wf_gp dok (bk_gp b) -> wf_bk b ->
  rt (imp_bkey parse_double t) (exp_bkey fmt_double b) (norm_bk b).
Proof. exact (rt_bkey fmt_double parse_double dok double_text_roundtrip double_text_plain). Qed.
Theorem C05_CloudKeySet : forall t c, wf_cloud dok c -> rt (imp_cloud parse_double t) (exp_cloud fmt_double c) (norm_cloud c).
Proof. exact (rt_cloud fmt_double parse_double dok double_text_roundtrip double_text_plain). Qed.
Theorem C05_SecretKeySet : forall t s, wf_secret dok s -> rt (imp_secret parse_double t) (exp_secret fmt_double s) (norm_secret s).
Proof. exact (rt_secret fmt_double parse_double dok double_text_roundtrip double_text_plain). Qed.
End C05.
Print Assumptions C05_SecretKeySet.
Print Assumptions C05_CloudKeySet.
Print Assumptions C05_BootstrappingKey.
Print Assumptions C05_KeySwitchKey.
Print Assumptions C05_ParameterSet.

(* re-export of a re-imported object gives identical bytes: exporting the normalised key equals exporting the key *)
Lemma fold_max_nonneg l : 0 <= fold_right Z.max 0 l.
Proof. induction l as [|x l IH]; cbn [fold_right]; lia. Qed.
Lemma max_var_norm_ks rows : max_var (map ls_var (norm_ksrows rows)) = max_var (map ls_var rows).
Proof. unfold norm_ksrows. set (v := max_var (map ls_var rows)). rewrite map_map. cbn [ls_var].
  destruct rows as [|r rows]; [reflexivity|]. unfold max_var at 1. cbn [map].
  assert (Hv : 0 <= v) by (unfold v, max_var; cbn [map]; apply fold_max_nonneg).
  assert (G : forall l : list lwesample, fold_right Z.max 0 (map (fun _ => v) l) = match l with [] => 0 | _ => v end).
  { induction l as [|x l IH]; [reflexivity|]. cbn [map fold_right]. rewrite IH. destruct l; lia. }
  cbn [fold_right]. rewrite G. destruct rows; lia. Qed.
Theorem C05_export_idempotent_ks : forall rows, exp_ks_content (norm_ksrows rows) = exp_ks_content rows.
Proof. intro rows. unfold exp_ks_content. rewrite max_var_norm_ks. unfold norm_ksrows. rewrite map_map. reflexivity. Qed.
Print Assumptions C05_export_idempotent_ks.

(* with the former "%.8lf" the hypothesis is false: 2^-15 printed with 8 decimals is 0.00003052 (finding D3, fixed) *)
Example C05_fmt8_lossy : (3052 # 100000000 == 1 # 32768)%Q -> False.
Proof. unfold Qeq. cbn. lia. Qed.

Example C05_nonvacuous :
  wf_poly 3 [1; -2; 3] /\ wf_lwesample 3 {| ls_a := [1; -2; 3]; ls_b := 7; ls_var := 0 |} /\
  run (imp_lwesample CppStream 3) (mk (exp_lwesample {| ls_a := [1; -2; 3]; ls_b := 7; ls_var := 0 |} ++ [9; 9])) =
    Ret {| ls_a := [1; -2; 3]; ls_b := 7; ls_var := 0 |} (mk [9; 9]) /\
  stol (fmt_i64 (-630)) = Some (-630) /\ fmt_i64 500 = [32;32;32;32;32;32;32;53;48;48].
Proof. unfold wf_lwesample, wf_poly, wf_f64, is_i32, p31, p64. cbn [ls_a ls_b ls_var nat_of].
  repeat split; try lia; try reflexivity; repeat constructor; lia. Qed.
