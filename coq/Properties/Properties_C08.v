(* Properties_C08.v — C08: key switching preserves the phase up to a bounded, unbiased rounding error
   plus the noise of the rows actually used. *)
From Coq Require Import ZArith List Lia.
From TV Require Import Base.Int32 Base.Sums Model.Lwe Model.KeySwitch Proofs.Digits Proofs.Lwe Proofs.KeySwitch Model.Gates Model.Encrypt Proofs.KsGen.
Import ListNotations.
Local Open Scope Z_scope.

(* digits (with the rounding offset, carries and wrap-around of a + prec_offset included) sum to the
   coefficient rounded to t*basebit bits *)
Theorem C08_digits_sum : forall t b a, valid_ks t b ->
  zsum t (fun j => ks_digit b (aibar (Z.of_nat t) b a) j * pow2 (shp 32 b j)) = round_tb (Z.of_nat t) b a.
Proof. exact ks_digits_sum. Qed.
Print Assumptions C08_digits_sum.

(* the rounding error of one coefficient lies in [-2^(31-tb), 2^(31-tb)): at most 2^-(tb+1) of the torus *)
Theorem C08_round_error : forall t b a, valid_ks t b ->
  eqm32 (a - round_tb (Z.of_nat t) b a) (round_err (Z.of_nat t) b a) /\
  - pow2 (31 - Z.of_nat t * b) <= round_err (Z.of_nat t) b a < pow2 (31 - Z.of_nat t * b).
Proof. exact ks_round_error. Qed.
Print Assumptions C08_round_error.

(* phase relation, for every mask, every pair of dimensions, every valid (t, basebit), every key:
   if row (i,j,h), h >= 1, has phase h*s_i*2^(32-(j+1)b) + e_ijh under the target key, then
   phase_out - phase_in = sum_i s_i * round_err(a_i) - sum over the rows used of e   (mod 2^32) *)
Theorem C08_phase_relation : forall raw t b, valid_ks t b -> forall skey nout n sin e,
  (forall i j h, (i < n)%nat -> (j < t)%nat -> 1 <= h < pow2 b ->
     exists row, ks_get raw (Z.of_nat t) (pow2 b) i j h = Some row /\ length (fst row) = nout /\
                 eqm32 (lwe_phase skey row) (h * sin i * pow2 (shp 32 b j) + e i j h)) ->
  forall c inkey, length (fst c) = n -> (forall i, sin i = nth i inkey 0) ->
  exists res, keyswitch raw t b nout c = Some res /\
    eqm32 (lwe_phase skey res - lwe_phase inkey c)
          (zsum n (fun i => sin i * round_err (Z.of_nat t) b (nth i (fst c) 0))
           - zsum n (fun i => zsum t (ee b e i (aibar (Z.of_nat t) b (nth i (fst c) 0))))).
Proof. exact keyswitch_phase_diff. Qed.
Print Assumptions C08_phase_relation.

Theorem C08_index_in_range : forall n t base i j h, (i < n)%nat -> (j < t)%nat -> 0 <= h < base ->
  0 <= ks_index (Z.of_nat t) base i j h < Z.of_nat n * Z.of_nat t * base.
Proof. exact ks_index_in_range. Qed.
Print Assumptions C08_index_in_range.

(* the hypothesis of C08_phase_relation holds for the key-switching key lweCreateKeySwitchKey generates from its draw stream (C07):
   every row (i,j,h>=1) sits at its three-level index, has the output dimension, and its phase is its message plus one of the
   recentred noises, hence an error of at most eta when those are *)
Theorem C08_generated_key_rows_ok : forall in_key out_key t b ds rows r eta, valid_ks t b ->
  create_ks_key in_key out_key t b ds = Some (rows, r) -> 0 <= eta ->
  (forall gs r0, take_g (length in_key * t * (Z.to_nat (pow2 b) - 1)) ds = Some (gs, r0) -> forall nz, In nz (recentre gs) -> Z.abs (dtot32_dy nz) <= eta) ->
  exists e : nat -> nat -> Z -> Z,
    (forall i j h, (i < length in_key)%nat -> (j < t)%nat -> 1 <= h < pow2 b ->
       exists row, ks_get rows (Z.of_nat t) (pow2 b) i j h = Some row /\ length (fst row) = length out_key /\
                   eqm32 (lwe_phase out_key row) (h * nth i in_key 0 * pow2 (shp 32 b j) + e i j h)) /\
    (forall i j h, Z.abs (e i j h) <= eta).
Proof. exact generated_ks_rows_ok. Qed.
Print Assumptions C08_generated_key_rows_ok.

Example C08_nonvacuous : valid_ks 8 2 /\ valid_ks 1 31 /\ valid_ks 31 1 /\ valid_ks 3 10 /\
  round_tb 8 2 (-1) = 0 /\ round_tb 8 2 32767 = 0 /\ round_tb 8 2 32768 = 65536 /\
  map (ks_digit 2 (aibar 8 2 98304)) [0%nat;1%nat;2%nat;3%nat;4%nat;5%nat;6%nat;7%nat] = [0;0;0;0;0;0;0;2].
Proof. unfold valid_ks. repeat split; try lia; vm_compute; reflexivity. Qed.
