(* Properties_C04.v — C04: bootstrapping maps the rounded input phase through the test polynomial.
   The phase relation of the blind rotation itself is C09's; here: test-polynomial rotation and extraction,
   the half-open sign rule, dependence on the rounded input only, the scratch array for every n (incl. n > N). *)
From Coq Require Import ZArith List Lia.
From TV Require Import Base.Int32 Ring.NegaRing Model.Numeric Model.Lwe Model.Poly Model.Tlwe Model.Tgsw Model.Bootstrap
  Proofs.Numeric Proofs.Tlwe Proofs.Tgsw Proofs.BlindRotate Proofs.Bootstrap Proofs.BootPhase Proofs.Drift Proofs.Digits Proofs.KeySwitch.
From TV Require Import Base.Sums Model.KeySwitch Model.Gates Model.Encrypt Model.Decomp Proofs.Decomp Proofs.BootKey Proofs.KeyGen.
Import ListNotations.
Local Open Scope Z_scope.

(* coefficient 0 of X^(2N-p)*v (p = 0 handled by the copy branch) is the p-th coefficient of the anticyclic
   extension of v, for all 2N values of p, every N >= 1 and every test polynomial *)
Theorem C04_anticyclic_coeff0 : forall (v : list Z) (p : nat), (0 < length v)%nat -> (p < 2 * length v)%nat -> Forall is_i32 v ->
  exists tv, rotated_testvect v (Z.of_nat p) = Some tv /\ length tv = length v /\ nth 0 tv 0 = anti v (Z.of_nat p).
Proof. exact anticyclic_coeff0. Qed.
Print Assumptions C04_anticyclic_coeff0.

Theorem C04_sign_rule : forall mu N p, 0 <= p < 2 * Z.of_nat N ->
  anti (repeat mu N) p = if p <? Z.of_nat N then mu else w32 (- mu).
Proof. exact anti_constant. Qed.
Print Assumptions C04_sign_rule.

Theorem C04_exponent_range : forall N s x, (0 < N)%nat -> 0 <= rot_exponent N s x < 2 * Z.of_nat N.
Proof. exact rot_exponent_range. Qed.
Print Assumptions C04_exponent_range.

Theorem C04_depends_on_rounded_input_only : forall l B k N bk mu x x',
  modSwitchFrom (snd x) (2 * Z.of_nat N) = modSwitchFrom (snd x') (2 * Z.of_nat N) ->
  map (fun ai => modSwitchFrom ai (2 * Z.of_nat N)) (fst x) = map (fun ai => modSwitchFrom ai (2 * Z.of_nat N)) (fst x') ->
  bootstrap_woKS true l B k N bk mu x = bootstrap_woKS true l B k N bk mu x'.
Proof. exact bootstrap_depends_on_rounded_input_only. Qed.
Print Assumptions C04_depends_on_rounded_input_only.

Theorem C04_scratch_in_range : forall n N2 a, length a = n -> bara_fill n N2 a = Some (map (fun ai => modSwitchFrom ai N2) a).
Proof. exact bara_in_range. Qed.
Print Assumptions C04_scratch_in_range.
Theorem C04_scratch_sized_N_refuted_before_fix : forall N a, (N < length a)%nat -> bara_fill N (2 * Z.of_nat N) a = None.
Proof. exact bara_sized_N_refuted. Qed.
Print Assumptions C04_scratch_sized_N_refuted_before_fix.

Theorem C04_zero_exponents_skip : forall l B bk acc, blind_rotate l B bk (repeat 0 (length bk)) acc = Some acc.
Proof. exact blind_rotate_zero_exponents. Qed.
Print Assumptions C04_zero_exponents_skip.

(* blind-rotate-and-extract, for a bootstrapping key whose elements act like the bits s_i up to beta (C09 gives this for TGSW
   encryptions of the key bits): for every n (n > N included), every exponent vector, every barb in [0,2N) and every test polynomial,
   the extracted sample's phase under the extracted key is coefficient 0 of X^(sum a_i s_i + 2N - barb) * v plus an error <= steps * beta *)
Theorem C04_bre_phase : forall N, (0 < N)%nat -> forall key k, wf_tkey N k key -> forall l B bk ss beta,
  good_key N key k l B bk ss beta -> 0 <= beta ->
  forall (bara : list nat) (barb : nat) v, length bara = length bk -> Forall (fun a => (a < 2 * N)%nat) bara -> (barb < 2 * N)%nat -> lenN N v ->
  exists smp e0, blind_rotate_extract l B k v bk (Z.of_nat barb) (map Z.of_nat bara) = Some smp /\ length (fst smp) = (k * N)%nat /\
    eqm32 (lwe_phase (tlwe_extract_key key) smp) (Shn N (expo bara ss + (2 * N - barb)) (ofl v) 0%nat + e0) /\
    Z.abs e0 <= steps bara * beta.
Proof. exact bre_phase. Qed.
Print Assumptions C04_bre_phase.

(* ... and coefficient 0 of X^q * v is the ((-q) mod 2N)-th coefficient of the anticyclic extension of v, for every q *)
Theorem C04_rotation_coefficient0 : forall N, (0 < N)%nat -> forall v q, lenN N v ->
  eqm32 (Shn N q (ofl v) 0%nat) (anti v ((- Z.of_nat q) mod (2 * Z.of_nat N))).
Proof. exact Shn_coeff0_anti. Qed.
Print Assumptions C04_rotation_coefficient0.

(* bootstrapping without key switch (2N in the domain of the modulus-switch theorem of C13, e.g. N = 1024): +mu iff the rotation
   exponent p = round(2N b) - sum_i round(2N a_i) s_i mod 2N lies in [0,N), -mu otherwise, plus an error of at most n * beta *)
Theorem C04_bootstrap_woKS_phase : forall N, (0 < N)%nat -> inDomain (2 * Z.of_nat N) -> forall key k, wf_tkey N k key ->
  forall l B bk ss beta mu x, good_key N key k l B bk ss beta -> 0 <= beta -> length (fst x) = length bk ->
  exists smp e0, bootstrap_woKS true l B k N bk mu x = Some smp /\ length (fst smp) = (k * N)%nat /\
    eqm32 (lwe_phase (tlwe_extract_key key) smp) ((if rot_exponent N ss x <? Z.of_nat N then mu else w32 (- mu)) + e0) /\
    Z.abs e0 <= Z.of_nat (length bk) * beta.
Proof. exact bootstrap_woKS_phase. Qed.
Print Assumptions C04_bootstrap_woKS_phase.

(* with the final key switch: the same message and error, plus the rounding of the extracted mask to t*basebit bits (C08) and the
   noise of the key-switching rows actually used *)
Theorem C04_bootstrap_phase : forall N, (0 < N)%nat -> inDomain (2 * Z.of_nat N) -> forall key k, wf_tkey N k key ->
  forall l B bk ss beta mu x (ksraw : list sample) (t : nat) (b : Z) (lkey : list Z) (nout : nat) (e : nat -> nat -> Z -> Z),
  good_key N key k l B bk ss beta -> 0 <= beta -> length (fst x) = length bk -> valid_ks t b ->
  (forall i j h, (i < k * N)%nat -> (j < t)%nat -> 1 <= h < pow2 b ->
     exists row, ks_get ksraw (Z.of_nat t) (pow2 b) i j h = Some row /\ length (fst row) = nout /\
                 eqm32 (lwe_phase lkey row) (h * nth i (tlwe_extract_key key) 0 * pow2 (shp 32 b j) + e i j h)) ->
  exists (res u : sample) e0, bootstrap l B k N bk ksraw t b nout mu x = Some res /\ length (fst res) = nout /\ Z.abs e0 <= Z.of_nat (length bk) * beta /\
    eqm32 (lwe_phase lkey res)
          ((if rot_exponent N ss x <? Z.of_nat N then mu else w32 (- mu)) + e0
           + zsum (k * N) (fun i => nth i (tlwe_extract_key key) 0 * (nth i (fst u) 0 - round_tb (Z.of_nat t) b (nth i (fst u) 0)))
           - zsum (k * N) (fun i => zsum t (ee b e i (aibar (Z.of_nat t) b (nth i (fst u) 0))))).
Proof. exact bootstrap_phase. Qed.
Print Assumptions C04_bootstrap_phase.

(* modulus-switch drift: p scaled back to the torus is the input phase plus the n+1 rounding errors, at most (1+|s|_1)/(4N) in all *)
Theorem C04_modswitch_drift : forall (N : nat) (S : Z) s x, (0 < N)%nat -> inDomain (2 * Z.of_nat N) -> 2 * Z.of_nat N * S = p32 ->
  exists d, 2 * Z.abs d <= (1 + Drift.l1 s) * S /\ eqm32 (rot_exponent N s x * S) (lwe_phase s x + d).
Proof. exact rot_exponent_drift. Qed.
Print Assumptions C04_modswitch_drift.

(* under a bootstrapping key GENERATED from a draw stream (C07) whose converted Gaussian draws are at most eta: for every input sample
   and every mu the bootstrapping without key switch returns +mu iff the rounded phase is in [0,N), else -mu, up to n * beta(eta) *)
Theorem C04_generated_key_bootstrap_woKS : forall N, (0 < N)%nat -> inDomain (2 * Z.of_nat N) -> forall key k, wf_tkey N k key ->
  Forall (Forall (fun x => x = 0 \/ x = 1)) key -> forall l B, valid_layout l B ->
  forall eta lk ds bk r mu x, 0 <= eta -> bounded eta ds -> Forall (fun s => s = 0 \/ s = 1) lk ->
  bk_rows l B key N lk ds = Some (bk, r) -> length (fst x) = length lk ->
  exists smp e0, bootstrap_woKS true l B k N bk mu x = Some smp /\ length (fst smp) = (k * N)%nat /\
    eqm32 (lwe_phase (tlwe_extract_key key) smp) ((if rot_exponent N lk x <? Z.of_nat N then mu else w32 (- mu)) + e0) /\
    Z.abs e0 <= Z.of_nat (length lk) * beta N k l B eta.
Proof. exact generated_key_bootstrap_woKS. Qed.
Print Assumptions C04_generated_key_bootstrap_woKS.

(* ... and WITH the key switch, under the pair (key-switching key, bootstrapping key) tfhe_createLweBootstrappingKey generates: recentred
   key-switching noises at most eta_ks, Gaussian draws of the bootstrapping-key part at most eta *)
Theorem C04_generated_keys_bootstrap : forall N, (0 < N)%nat -> inDomain (2 * Z.of_nat N) -> forall key k, wf_tkey N k key ->
  Forall (Forall (fun x => x = 0 \/ x = 1)) key -> forall l B, valid_layout l B -> forall t bb, valid_ks t bb ->
  forall eta eta_ks lk ds ks bk r mu x, 0 <= eta -> 0 <= eta_ks -> Forall (fun s => s = 0 \/ s = 1) lk -> length (fst x) = length lk ->
  create_bootstrapping_key l B t bb lk key N ds = Some (ks, bk, r) ->
  (forall gs r0, take_g (k * N * t * (Z.to_nat (pow2 bb) - 1)) ds = Some (gs, r0) -> forall nz, In nz (recentre gs) -> Z.abs (dtot32_dy nz) <= eta_ks) ->
  (forall ks' r1, create_ks_key (tlwe_extract_key key) lk t bb ds = Some (ks', r1) -> bounded eta r1) ->
  exists (res u : sample) e0 (e : nat -> nat -> Z -> Z), bootstrap l B k N bk ks t bb (length lk) mu x = Some res /\ length (fst res) = length lk /\
    Z.abs e0 <= Z.of_nat (length lk) * beta N k l B eta /\ (forall i j h, Z.abs (e i j h) <= eta_ks) /\
    eqm32 (lwe_phase lk res)
          ((if rot_exponent N lk x <? Z.of_nat N then mu else w32 (- mu)) + e0
           + zsum (k * N) (fun i => nth i (tlwe_extract_key key) 0 * (nth i (fst u) 0 - round_tb (Z.of_nat t) bb (nth i (fst u) 0)))
           - zsum (k * N) (fun i => zsum t (ee bb e i (aibar (Z.of_nat t) bb (nth i (fst u) 0))))).
Proof. exact generated_keys_bootstrap. Qed.
Print Assumptions C04_generated_keys_bootstrap.

Example C04_nonvacuous :
  rotated_testvect [10;20;30;40] 5 = Some [-20;-30;-40;10] /\ anti [10;20;30;40] 5 = -20 /\ anti [10;20;30;40] 3 = 40 /\
  anti [10;20;30;40] 4 = -10 /\ anti [10;20;30;40] 7 = -40 /\ anti [10;20;30;40] 0 = 10 /\
  rot_exponent 4 [1;0;1] ([1073741824; 5; -1073741824], 536870912) = 1.
Proof. repeat split; vm_compute; reflexivity. Qed.
