(* Properties_C19.v — C19: default parameter selection is monotone and matches the documented sets.
   The facts (gen/ParamsFacts.v) are regenerated from the built library on every run. *)
From Coq Require Import ZArith QArith List Lia Bool.
From TV Require Import Base.Int32 Model.Decomp Model.Params Proofs.Params gen.ParamsFacts.
Import ListNotations.
Local Open Scope Z_scope.

Theorem C19_select_spec : forall lambda,
  ((lambda <= 0 \/ 128 < lambda) -> select lambda = Abort) /\
  (1 <= lambda <= 80 -> select lambda = Set80) /\ (81 <= lambda <= 128 -> select lambda = Set128).
Proof. exact select_spec. Qed.
Print Assumptions C19_select_spec.
Theorem C19_never_weaker_than_requested : forall lambda, select lambda <> Abort -> lambda <= level (select lambda).
Proof. exact select_monotone. Qed.
Print Assumptions C19_never_weaker_than_requested.

(* what the real selector returned for every lambda tried agrees with the rule and the documented sets *)
Definition agrees (e : Z * option pset) : bool :=
  match select (fst e), snd e with
  | Abort, None => true
  | Set80, Some p => matches_doc p Doc80
  | Set128, Some p => matches_doc p Doc128
  | _, _ => false
  end.
Theorem C19_observed_matches_model : forallb agrees observed = true.
Proof. vm_compute. reflexivity. Qed.
Print Assumptions C19_observed_matches_model.
(* the exploration is complete on [-5,300] and includes the int32 extremes *)
Fixpoint zrange (lo : Z) (n : nat) : list Z := match n with O => [] | S n' => lo :: zrange (lo + 1) n' end.
Theorem C19_exploration_complete :
  forallb (fun lam => existsb (fun e => fst e =? lam) observed) (zrange (-5) 306 ++ [-2147483648; 2147483647]) = true.
Proof. vm_compute. reflexivity. Qed.
Print Assumptions C19_exploration_complete.
Theorem C19_two_sets_only : length observed_sets = 2%nat.
Proof. vm_compute. reflexivity. Qed.
Print Assumptions C19_two_sets_only.

(* the README table is the 128-bit set *)
Theorem C19_readme_table : readme_table = [d_n Doc128; 15; d_N Doc128; 25] /\ d_alpha_in Doc128 == 1 # 2^15 /\ d_alpha_bk Doc128 == 1 # 2^25.
Proof. repeat split; vm_compute; reflexivity. Qed.
Print Assumptions C19_readme_table.

(* derived fields (Bg, halfBg, maskMod, kpl, offset, h_i, extracted n) and structural constraints *)
Theorem C19_derived_fields : forallb derived_ok observed_sets = true.
Proof. vm_compute. reflexivity. Qed.
Print Assumptions C19_derived_fields.
Theorem C19_structural_constraints : forallb structural_ok observed_sets = true.
Proof. vm_compute. reflexivity. Qed.
Print Assumptions C19_structural_constraints.

(* at least 12 standard deviations of decoding margin at every gate under the noise formulas F1-F3 *)
Theorem C19_margin_12_sigma : forallb (all_gates_margin 12) observed_sets = true.
Proof. vm_compute. reflexivity. Qed.
Print Assumptions C19_margin_12_sigma.
(* ... and the statement is tight enough to notice a change: 13 sigma fails for the 80-bit set *)
Theorem C19_margin_not_13_sigma : forallb (all_gates_margin 13) observed_sets = false.
Proof. vm_compute. reflexivity. Qed.
Print Assumptions C19_margin_not_13_sigma.

(* the output standard deviation predicted by the formulas is below the bounds quoted in C02 *)
Theorem C19_noise_formula_le_bound :
  forallb (fun p => if p_n p =? 630 then stdev_le (37 # 10000) p else stdev_le (47 # 10000) p) observed_sets = true.
Proof. vm_compute. reflexivity. Qed.
Print Assumptions C19_noise_formula_le_bound.
