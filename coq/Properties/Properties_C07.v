(* Properties_C07.v — C07 (partial): fresh ciphertexts and key rows carry exactly the configured noise, fresh masks.
   Exact identities proved on the draw-stream model, for every dimension: which draws become the mask, which draw becomes
   the error, that successive encryptions read disjoint stream segments, and the phases of every key-switching row.
   The distribution of the C++ sampler itself (and that keys are binary) is measured, not modelled. *)
From Coq Require Import ZArith List Lia.
From TV Require Import Base.Int32 Ring.NegaRing Model.Numeric Model.Lwe Model.Tlwe Model.Gates Model.Encrypt
  Proofs.Tlwe Proofs.Tgsw Proofs.Encrypt Model.Decomp Model.Tgsw Proofs.Decomp Proofs.BlindRotate Proofs.BootKey Proofs.TgswDecrypt Proofs.KeyGen.
Import ListNotations.
Local Open Scope Z_scope.

Theorem C07_mask_is_fresh_draws_and_error_is_draw : forall key message ds c r, lwe_sym_encrypt key message ds = Some (c, r) ->
  exists g mask, ds = DG (fst g) (snd g) :: map DU mask ++ r /\ length mask = length key /\ fst c = mask /\
    lwe_phase key c = w32 (message + dtot32 (fst g) (snd g)).
Proof. exact lwe_sym_encrypt_spec. Qed.
Print Assumptions C07_mask_is_fresh_draws_and_error_is_draw.

Theorem C07_successive_encryptions_disjoint : forall key m1 m2 ds c1 r1 c2 r2,
  lwe_sym_encrypt key m1 ds = Some (c1, r1) -> lwe_sym_encrypt key m2 r1 = Some (c2, r2) ->
  exists g1 g2, ds = (DG (fst g1) (snd g1) :: map DU (fst c1)) ++ (DG (fst g2) (snd g2) :: map DU (fst c2)) ++ r2.
Proof. exact lwe_encrypt_twice_disjoint. Qed.
Print Assumptions C07_successive_encryptions_disjoint.

Theorem C07_gate_encrypt_error_is_draw : forall key bit ds c r, boots_sym_encrypt key bit ds = Some (c, r) ->
  exists g, lwe_phase key c = w32 (encode_bit bit + dtot32 (fst g) (snd g)).
Proof. exact boots_encrypt_phase. Qed.
Print Assumptions C07_gate_encrypt_error_is_draw.

Theorem C07_external_noise_encryption : forall key message noise ds c r, lwe_sym_encrypt_ext key message noise ds = Some (c, r) ->
  lwe_phase key c = w32 (message + dtot32 (fst noise) (snd noise)) /\ ds = map DU (fst c) ++ r.
Proof. exact lwe_encrypt_ext_phase. Qed.
Print Assumptions C07_external_noise_encryption.

(* key-switching key: in row order, the phase of row (i,j,h>=1) is its message plus the converted recentred noise that
   belongs to it, and every row with h = 0 is the trivial zero sample *)
Theorem C07_ks_rows : forall out_key cells noises ds rows r, ks_rows out_key cells noises ds = Some (rows, r) ->
  map (lwe_phase out_key) rows = ks_expected cells noises /\
  (forall idx, (idx < length cells)%nat -> snd (nth idx cells (0, 0)) = 0 -> nth idx rows ([], 1) = lwe_trivial (length out_key) 0).
Proof. exact ks_rows_phases. Qed.
Print Assumptions C07_ks_rows.

(* the older constructor lweCreateKeySwitchKey_old: every cell, h = 0 included, is a fresh encryption of its message *)
Theorem C07_ks_rows_old : forall out_key cells ds rows r, ks_rows_fresh out_key cells ds = Some (rows, r) ->
  length rows = length cells /\ exists gs, length gs = length cells /\
    map (lwe_phase out_key) rows = map (fun cg => w32 (fst (fst cg) + dtot32 (fst (snd cg)) (snd (snd cg)))) (combine cells gs).
Proof. exact ks_rows_fresh_spec. Qed.
Print Assumptions C07_ks_rows_old.

(* TLWE rows (hence every TGSW / bootstrapping-key row before the gadget is added): masks are the drawn words, one
   independent draw per coefficient is the error *)
Theorem C07_tlwe_row : forall N, (0 < N)%nat -> forall key ds c r, Forall (lenN N) key ->
  tlwe_encrypt_zero key N ds = Some (c, r) ->
  exists gs, length gs = N /\ wf_tsample N (length key) c /\
    ds = map (fun g => DG (fst g) (snd g)) gs ++ concat (map (map DU) (removelast c)) ++ r /\
    eqNm N (PHv N key c) (ofl (map (gaussian32 0) gs)).
Proof. exact tlwe_encrypt_zero_spec. Qed.
Print Assumptions C07_tlwe_row.

(* TGSW rows: tGswSymEncrypt* first fills every row with a fresh TLWE encryption of zero: each row is well formed, its phase is
   the vector of its own converted Gaussian draws, and those draws occur in the stream that was consumed *)
Theorem C07_tgsw_rows : forall N, (0 < N)%nat -> forall key k, wf_tkey N k key -> forall rows ds C r,
  tgsw_encrypt_zero rows key N ds = Some (C, r) -> length C = rows /\ Forall (fresh_row N key k ds) C.
Proof. exact tgsw_encrypt_zero_spec. Qed.
Print Assumptions C07_tgsw_rows.

(* bootstrapping key: element i is tGswSymEncryptInt of key bit s_i; when the converted Gaussian draws of the consumed stream are at
   most eta in absolute value, every element acts on every accumulator like s_i up to beta(eta) = (k+1) l N (Bg/2) eta + (1+kN) 2^(32-l Bgbit):
   exactly the hypothesis (good_key) under which C09's blind-rotation theorem and C04's bootstrapping theorem are proved *)
Theorem C07_bootstrapping_key_rows : forall N, (0 < N)%nat -> forall key k, wf_tkey N k key ->
  Forall (Forall (fun x => x = 0 \/ x = 1)) key -> forall l B, valid_layout l B -> forall eta, 0 <= eta ->
  forall kin ds bk r, bounded eta ds -> Forall (fun s => s = 0 \/ s = 1) kin -> bk_rows l B key N kin ds = Some (bk, r) ->
  good_key N key k l B bk kin (beta N k l B eta) /\ length bk = length kin.
Proof. exact bk_rows_good_key. Qed.
Print Assumptions C07_bootstrapping_key_rows.

Example C07_nonvacuous :
  create_ks_key [1] [1;0] 1 1 [DG 3 10; DU 7; DU 9; DU 100] =
    Some ([lwe_trivial 2 0; ([7; 9], -2147483648 + 7)], [DU 100]) /\
  (* 3/1024, -3/1024, 6/1024 have mean 2/1024: recentred to 1/1024, -5/1024, 4/1024 (unnormalised mantissa/exponent pairs) *)
  recentre [(3, 10); (-3, 10); (6, 10)] = [(2251799813685248, -61); (-5629499534213120, -60); (4503599627370496, -60)].
Proof. split; vm_compute; reflexivity. Qed.
