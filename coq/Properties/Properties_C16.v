(* Properties_C16.v — C16 (partial): memory safety and leaks.  The model covers index arithmetic and allocation bookkeeping:
   no checked access of the implementation-level model fails under a valid configuration (every n incl. n > N and n < 8, every
   N, k, valid (l,Bgbit) and (t,basebit)), and what delete releases is exactly what new requested.  Uninitialised reads,
   use-after-free and the real heap are observed by AddressSanitizer / memcheck / the interposed allocator, not proved. *)
From Coq Require Import ZArith List Lia Permutation.
From TV Require Import Base.Int32 Model.Numeric Model.Lwe Model.Poly Model.Tlwe Model.Decomp Model.KeySwitch Model.Bootstrap Model.Ledger Model.KaraMem
  Proofs.Lwe Proofs.Poly Proofs.Tlwe Proofs.Decomp Proofs.KeySwitch Proofs.Bootstrap Proofs.Ledger Proofs.KaraMem.
Import ListNotations.
Local Open Scope Z_scope.

(* scratch array of rounded mask coefficients: n cells, written for every i < n: in range for every n and N, in particular n > N *)
Theorem C16_bootstrap_scratch_in_range : forall n N2 a, length a = n -> bara_fill n N2 a = Some (map (fun ai => modSwitchFrom ai N2) a).
Proof. exact bara_in_range. Qed.
Print Assumptions C16_bootstrap_scratch_in_range.
(* the 8/4/2/1 block structure of the assembly subtraction touches exactly the n cells, for every n (n < 8 included) *)
Theorem C16_vector_subtraction_in_range : forall r a, length r = length a -> vsub_asm true r a = Some (zipw Z.sub r a).
Proof. exact vsub_asm_eq_loop. Qed.
Print Assumptions C16_vector_subtraction_in_range.
(* three-level index of the key-switching key inside its single contiguous array *)
Theorem C16_keyswitch_index_in_range : forall n t base i j h, (i < n)%nat -> (j < t)%nat -> 0 <= h < base ->
  0 <= ks_index (Z.of_nat t) base i j h < Z.of_nat n * Z.of_nat t * base.
Proof. exact ks_index_in_range. Qed.
Print Assumptions C16_keyswitch_index_in_range.
(* monomial multiplications: every access in range for every a in [0,2N) *)
Theorem C16_mulByXai_in_range : forall src, (0 < length src)%nat -> forall a, (a < 2 * length src)%nat ->
  mulByXai (Z.of_nat a) src = Some (map (xai_coeff src a) (seq 0 (length src))).
Proof. exact mulByXai_ok. Qed.
Print Assumptions C16_mulByXai_in_range.
Theorem C16_mulByXaiMinusOne_in_range : forall src, (0 < length src)%nat -> forall a, (a < 2 * length src)%nat ->
  mulByXaiMinusOne (Z.of_nat a) src = Some (map (fun i => w32 (xai_coeff src a i - nth i src 0)) (seq 0 (length src))).
Proof. exact mulByXaiMinusOne_ok. Qed.
Print Assumptions C16_mulByXaiMinusOne_in_range.
(* the 8-lane decomposition loops stay inside the buffer when N is a positive multiple of 8 (N = 1024 in every configuration) *)
Theorem C16_decomposition_lanes_in_range : forall l B coefs m, (1 <= m)%nat -> length coefs = (8 * m)%nat ->
  decompH_avx l B coefs = Some (decompH_scalar l B coefs).
Proof. exact decompH_avx_eq_scalar. Qed.
Print Assumptions C16_decomposition_lanes_in_range.
(* extraction of any coefficient: no access outside the k+1 polynomials *)
Theorem C16_extraction_in_range : forall N k c j, (0 < N)%nat -> (j < N)%nat -> wf_tsample N k c ->
  exists s, tlwe_extract c (Z.of_nat j) = Some s /\ length (fst s) = (k * N)%nat.
Proof. exact tlwe_extract_in_range. Qed.
Print Assumptions C16_extraction_in_range.

(* allocation ledger: delete releases a permutation of the blocks new requested, for every object tree (hence every type and
   every parameter value); any population of objects deleted in any order leaves nothing behind *)
Theorem C16_delete_releases_what_new_requested : forall t, Permutation (blocks t) (release t).
Proof. exact release_is_permutation_of_blocks. Qed.
Print Assumptions C16_delete_releases_what_new_requested.
Theorem C16_ledger_balanced : forall objs objs', Permutation objs objs' -> Permutation (flat_map blocks objs) (flat_map release objs').
Proof. exact ledger_balanced. Qed.
Print Assumptions C16_ledger_balanced.
Theorem C16_bytes_balanced : forall t, total (blocks t) = total (release t).
Proof. exact bytes_balanced. Qed.
Print Assumptions C16_bytes_balanced.

(* Karatsuba workspace (Karatsuba_aux carves Atemp, Btemp, Rtemp of every recursion level from one byte buffer): the recursion ends
   within log2(size)+1 levels; the 16*N bytes its three callers allocate are enough for EVERY size; for power-of-two sizes every index of
   every level is inside its array and the combination loops read only slots that were written *)
Theorem C16_karatsuba_terminates : forall f size, 0 <= size < 2 ^ Z.of_nat f -> kara_use (S f) size <> None.
Proof. exact kara_use_total. Qed.
Print Assumptions C16_karatsuba_terminates.
Theorem C16_karatsuba_workspace_fits : forall f size u, 0 <= size -> kara_use f size = Some u -> 0 <= u <= 16 * size.
Proof. exact kara_use_bound. Qed.
Print Assumptions C16_karatsuba_workspace_fits.
Theorem C16_karatsuba_levels_safe_pow2 : forall f m, (m <= f)%nat -> kara_ok (S f) (2 ^ Z.of_nat m) = Some true.
Proof. exact kara_ok_pow2. Qed.
Print Assumptions C16_karatsuba_levels_safe_pow2.
(* not for every size: N = 22 reaches an odd level above the threshold, whose loops read a slot nobody wrote (outside the property's
   power-of-two domain; recorded, not a finding) *)
Theorem C16_karatsuba_odd_level_refuted : kara_ok 64 22 = Some false.
Proof. exact kara_ok_22_refuted. Qed.
Print Assumptions C16_karatsuba_odd_level_refuted.

(* the TGSW sample of the 128-bit set: 1 + 1 + 6 + 12 + 1 = 21 blocks, 24 + 6*32 + 6*32 + 12*4096 + 16 bytes *)
Example C16_nonvacuous :
  let z := {| szLweSample := 24; szLweKey := 16; szPoly := 16; szTLweSample := 32; szTLweKey := 16; szTGswSample := 24; szTGswKey := 40;
              szKS := 48; szBK := 48; szTGswParams := 56; szLweParams := 24 |} in
  length (blocks (o_tgsw_sample z 1 3 1024)) = 21%nat /\ total (blocks (o_tgsw_sample z 1 3 1024)) = 49576 /\
  bara_fill 1030 2048 (repeat 5 1030) <> None /\ vsub_asm true [10;20;30] [1;2;3] = Some [9;18;27] /\
  kara_use 64 1024 = Some 16256 /\ kara_hw 64 1024 = Some 16252 /\ kara_ok 64 1024 = Some true.
Proof. repeat split; try (vm_compute; reflexivity). vm_compute. discriminate. Qed.
