(* Properties_C06.v — C06 (partial): deterministic, thread-safe, history-independent evaluation.
   What is logic is proved: (1) for EVERY schedule - any interleaving, any number of threads - a thread that reads the shared
   immutable state (the cloud key) and reads/writes only its own private state (its FFT processor, its temporaries) is, at
   every point, in the state it reaches alone on the operations it has executed; (2) an operation that overwrites every scratch
   cell it later reads forgets whatever earlier calls left there; the half-complex index loops cover all 2N cells, disjointly.
   That the compiled code satisfies the hypotheses (no hidden shared mutable state, data-race freedom) is measured. *)
From Coq Require Import List Arith Lia.
From TV Require Import Proofs.Interleave.
Import ListNotations.

Theorem C06_interleave_noninterference : forall (Shared Priv Op : Type) (step : Shared -> Priv -> Op -> Priv) (sh : Shared)
  (init : nat -> Priv) (progs : nat -> list Op) (schedule : list nat) (t : nat),
  exists done, progs t = done ++ snd (run_sched Shared Priv Op step sh (init, progs) schedule) t /\
               fst (run_sched Shared Priv Op step sh (init, progs) schedule) t = run_alone Shared Priv Op step sh (init t) done.
Proof. exact interleave_noninterference. Qed.
Print Assumptions C06_interleave_noninterference.

Theorem C06_finished_thread_is_sequential : forall (Shared Priv Op : Type) (step : Shared -> Priv -> Op -> Priv) (sh : Shared)
  (init : nat -> Priv) (progs : nat -> list Op) (schedule : list nat) (t : nat),
  snd (run_sched Shared Priv Op step sh (init, progs) schedule) t = [] ->
  fst (run_sched Shared Priv Op step sh (init, progs) schedule) t = run_alone Shared Priv Op step sh (init t) (progs t).
Proof. exact finished_thread_is_sequential. Qed.
Print Assumptions C06_finished_thread_is_sequential.

Theorem C06_full_overwrite_forgets_history : forall (R : Type) (d : R) idx pos val buf1 buf2, length buf1 = length buf2 ->
  (forall i, In i idx -> (pos i < length buf1)%nat) ->
  (forall j, (j < length buf1)%nat -> In j (map pos idx)) ->
  forall F : list R -> list R, (forall u v, length u = length v -> (forall j, (j < length u)%nat -> nth j u d = nth j v d) -> F u = F v) ->
  F (write_loop R idx pos val buf1) = F (write_loop R idx pos val buf2).
Proof. exact full_cover_forgets_history. Qed.
Print Assumptions C06_full_overwrite_forgets_history.

Theorem C06_halfcomplex_index_cover : forall N j, Nat.even N = true -> (j < 2 * N)%nat ->
  (exists i, (i < N)%nat /\ j = (2 * i)%nat) \/
  (exists i, (i < N / 2)%nat /\ j = (2 * i + 1)%nat) \/
  (exists i, (i < N / 2)%nat /\ j = (2 * N - 1 - 2 * i)%nat).
Proof. exact halfcomplex_index_cover. Qed.
Print Assumptions C06_halfcomplex_index_cover.
Theorem C06_halfcomplex_index_disjoint : forall N i1 i2, (i1 < N / 2)%nat -> (i2 < N / 2)%nat -> Nat.even N = true ->
  (2 * i1 + 1 <> 2 * N - 1 - 2 * i2)%nat.
Proof. exact halfcomplex_index_disjoint. Qed.
Print Assumptions C06_halfcomplex_index_disjoint.

(* two threads, three steps each, one particular interleaving: thread 1 ends where it would alone *)
Example C06_nonvacuous :
  let step := fun (sh p o : nat) => (p * sh + o)%nat in
  fst (run_sched nat nat nat step 3 ((fun _ => 1%nat), (fun t => [t; 5; 7]%nat)) [0; 1; 1; 0; 1; 0; 0]%nat) 1%nat
  = run_alone nat nat nat step 3 1%nat [1; 5; 7]%nat.
Proof. reflexivity. Qed.
