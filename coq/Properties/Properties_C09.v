(* Properties_C09.v — C09: external product multiplies messages; blind rotation rotates by the secret exponent.
   All statements are for every ring degree N >= 1, every k, every key, every accumulator, every TGSW rows and
   every decomposition layout; congruences are coefficient-wise modulo 2^32 (eqNm). *)
From Coq Require Import ZArith List Lia.
From TV Require Import Base.Int32 Ring.NegaRing Model.Lwe Model.Poly Model.Tlwe Model.Decomp Model.Tgsw Proofs.Tlwe Proofs.Tgsw.
Import ListNotations.
Local Open Scope Z_scope.

(* the phase the wrapping C loops compute is b - sum_u s_u * a_u in the ring, modulo 2^32 *)
Theorem C09_phase_is_ring_phase : forall N, (0 < N)%nat -> forall key k c, wf_tsample N k c -> wf_tkey N k key ->
  eqNm N (ofl (tlwe_phase key c)) (PHv N key c).
Proof. exact phase_is_PHv. Qed.
Print Assumptions C09_phase_is_ring_phase.

(* one accumulation step r + d*C acts linearly on phases (uses commutativity and distributivity of the ring) *)
Theorem C09_addmul_phase : forall N, (0 < N)%nat -> forall key k r d C,
  wf_tkey N k key -> wf_tsample N k r -> wf_tsample N k C -> length d = N ->
  eqNm N (PHv N key (tlwe_addmulR r d C)) (vadd (PHv N key r) (act N d (PHv N key C))).
Proof. exact PHv_addmulR. Qed.
Print Assumptions C09_addmul_phase.

(* external product: phase(extprod C acc) = sum_p dec_p(acc) * phase(C_p)   (mod 2^32), implementation-level functions only *)
Theorem C09_extprod_phase : forall N, (0 < N)%nat -> forall key k l B C acc,
  wf_tkey N k key -> wf_tsample N k acc -> Forall (wf_tsample N k) C -> Forall (wf_tsample N k) [extprod l B C acc] ->
  eqNm N (ofl (tlwe_phase key (extprod l B C acc)))
         (rows_sum N (fun c => ofl (tlwe_phase key c)) (tlwe_decomp l B acc) C).
Proof. exact extprod_phase. Qed.
Print Assumptions C09_extprod_phase.

Example C09_nonvacuous :
  wf_tkey 2 1 [[1;1]] /\ wf_tsample 2 1 [[5;6];[7;8]] /\ Forall (wf_tsample 2 1) (tgsw_trivial 1 2 2 16 [1;0]) /\
  extprod 2 16 (tgsw_trivial 1 2 2 16 [1;0]) [[5;6];[7;8]] = [[5;6];[7;8]] /\
  extprod 2 16 (tgsw_trivial 1 2 2 16 [0;1]) [[5;6];[7;8]] = [[-6;5];[-8;7]].
Proof. unfold wf_tkey, wf_tsample. repeat split; try reflexivity; repeat constructor. Qed.
