(* Properties_C09.v — C09: external product multiplies messages; blind rotation rotates by the secret exponent.
   All statements are for every ring degree N >= 1, every k, every key, every accumulator, every TGSW rows and
   every decomposition layout; congruences are coefficient-wise modulo 2^32 (eqNm). *)
From Coq Require Import ZArith List Lia.
From TV Require Import Base.Int32 Ring.NegaRing Model.Lwe Model.Poly Model.Tlwe Model.Decomp Model.Tgsw Model.Bootstrap
  Proofs.Tlwe Proofs.Decomp Proofs.Tgsw Proofs.Gadget Proofs.BlindRotate Proofs.BootKey Proofs.ExtprodPoly Model.Encrypt Proofs.KeyGen.
Import ListNotations.
Local Open Scope Z_scope.

(* the phase the wrapping C loops compute is b - sum_u s_u * a_u in the ring, modulo 2^32 *)
Theorem C09_phase_is_ring_phase : forall N, (0 < N)%nat -> forall key k c, wf_tsample N k c -> wf_tkey N k key ->
  eqNm N (ofl (tlwe_phase key c)) (PHv N key c).
Proof. exact phase_is_PHv. Qed.
Print Assumptions C09_phase_is_ring_phase.

(* one accumulation step r + d*C acts linearly on phases (uses commutativity and distributivity of the ring) *)
Theorem C09_addmul_phase : forall N, (0 < N)%nat -> forall key k r d C,
  wf_tkey N k key -> wf_tsample N k r -> wf_tsample N k C -> length d = N ->
  eqNm N (PHv N key (tlwe_addmulR r d C)) (vadd (PHv N key r) (act N d (PHv N key C))).
Proof. exact PHv_addmulR. Qed.
Print Assumptions C09_addmul_phase.

(* external product: phase(extprod C acc) = sum_p dec_p(acc) * phase(C_p)   (mod 2^32), implementation-level functions only *)
Theorem C09_extprod_phase : forall N, (0 < N)%nat -> forall key k l B C acc,
  wf_tkey N k key -> wf_tsample N k acc -> Forall (wf_tsample N k) C -> Forall (wf_tsample N k) [extprod l B C acc] ->
  eqNm N (ofl (tlwe_phase key (extprod l B C acc)))
         (rows_sum N (fun c => ofl (tlwe_phase key c)) (tlwe_decomp l B acc) C).
Proof. exact extprod_phase. Qed.
Print Assumptions C09_extprod_phase.

(* the external product multiplies the message: rows = encryptions of zero plus m times the gadget (tGswAddMuIntH), every integer m *)
Theorem C09_extprod_multiplies_message : forall N, (0 < N)%nat -> forall key k, wf_tkey N k key -> forall l B, valid_layout l B ->
  forall m Z0 acc, wf_tsample N k acc -> Forall (wf_tsample N k) Z0 -> length Z0 = (S k * l)%nat ->
  eqNm N (PHv N key (extprod l B (add_muint_h l B m Z0) acc))
         (vadd (vscale m (vsub (PHv N key acc) (PHv N key (err_sample l B acc)))) (rows_sum N (PHv N key) (tlwe_decomp l B acc) Z0)).
Proof. exact extprod_message. Qed.
Print Assumptions C09_extprod_multiplies_message.

(* analytic bound, worst-case form: an encryption of a bit s with row noises bounded by eta acts on every accumulator like s up to
   beta = (k+1) l N (Bg/2) eta + (1 + k N) 2^(32 - l Bgbit)   (binary ring key) *)
Theorem C09_extprod_error_bound : forall N, (0 < N)%nat -> forall key k, wf_tkey N k key -> Forall (Forall (fun x => x = 0 \/ x = 1)) key ->
  forall l B, valid_layout l B -> forall s, s = 0 \/ s = 1 -> forall Z0, Forall (wf_tsample N k) Z0 -> length Z0 = (S k * l)%nat ->
  forall (e : nat -> vec) eta, (forall p, (p < S k * l)%nat -> eqNm N (PHv N key (nth p Z0 [])) (e p)) ->
  (forall p j, (p < S k * l)%nat -> (j < N)%nat -> Z.abs (e p j) <= eta) -> 0 <= eta ->
  acts_like N key k l B (add_muint_h l B s Z0) s (Eg N key k l B s e) (beta N k l B eta).
Proof. exact gadget_sample_acts_like. Qed.
Print Assumptions C09_extprod_error_bound.

(* the same for a *polynomial* message mu (tGswAddMuH on top of encryptions of zero: what tGswSymEncrypt and tGswNoiselessTrivial
   build): the phase is multiplied by mu in the ring *)
Theorem C09_extprod_multiplies_polynomial_message : forall N, (0 < N)%nat -> forall key k, wf_tkey N k key -> forall l B, valid_layout l B ->
  forall mu, length mu = N -> forall Z0 acc, wf_tsample N k acc -> Forall (wf_tsample N k) Z0 -> length Z0 = (S k * l)%nat ->
  eqNm N (PHv N key (extprod l B (add_mu_h l B mu Z0) acc))
         (vadd (act N mu (vsub (PHv N key acc) (PHv N key (err_sample l B acc)))) (rows_sum N (PHv N key) (tlwe_decomp l B acc) Z0)).
Proof. exact extprod_message_poly. Qed.
Print Assumptions C09_extprod_multiplies_polynomial_message.

(* worst-case error for a polynomial message: row noises at most eta, binary ring key:
   (k+1) l N (Bg/2) eta  +  |mu|_1 (1 + k N) 2^(32 - l Bgbit) *)
Theorem C09_extprod_polynomial_error_bound : forall N, (0 < N)%nat -> forall key k, wf_tkey N k key -> Forall (Forall (fun x => x = 0 \/ x = 1)) key ->
  forall l B, valid_layout l B -> forall mu, length mu = N -> forall Z0, Forall (wf_tsample N k) Z0 -> length Z0 = (S k * l)%nat ->
  forall (e : nat -> vec) eta, (forall p, (p < S k * l)%nat -> eqNm N (PHv N key (nth p Z0 [])) (e p)) ->
  (forall p j, (p < S k * l)%nat -> (j < N)%nat -> Z.abs (e p j) <= eta) -> 0 <= eta ->
  forall t, wf_tsample N k t ->
  eqNm N (PHv N key (extprod l B (add_mu_h l B mu Z0) t)) (vadd (act N mu (PHv N key t)) (Ep N key k l B mu e t)) /\
  (forall j, (j < N)%nat -> Z.abs (Ep N key k l B mu e t j) <= beta_poly N k l B mu eta).
Proof. exact extprod_poly_error_bound. Qed.
Print Assumptions C09_extprod_polynomial_error_bound.

(* C07 -> C09: what tGswSymEncrypt builds from its draw stream (every converted Gaussian draw at most eta) multiplies the phase of
   every accumulator by the message polynomial, up to beta_poly *)
Theorem C09_encrypted_polynomial_acts_like : forall N, (0 < N)%nat -> forall key k, wf_tkey N k key -> Forall (Forall (fun x => x = 0 \/ x = 1)) key ->
  forall l B, valid_layout l B -> forall mu ds C r eta, length mu = N -> 0 <= eta -> bounded eta ds ->
  tgsw_sym_encrypt l B key N mu ds = Some (C, r) ->
  forall t, wf_tsample N k t ->
  exists E, eqNm N (PHv N key (extprod l B C t)) (vadd (act N mu (PHv N key t)) E) /\ (forall j, (j < N)%nat -> Z.abs (E j) <= beta_poly N k l B mu eta).
Proof. exact encrypt_poly_acts_like. Qed.
Print Assumptions C09_encrypted_polynomial_acts_like.

(* one CMux step *)
Theorem C09_cmux_phase : forall N, (0 < N)%nat -> forall key k, wf_tkey N k key -> forall l B g s E beta a acc,
  acts_like N key k l B g s E beta -> wf_tsample N k acc -> (a < 2 * N)%nat ->
  exists acc' err, mux_rotate l B g (Z.of_nat a) acc = Some acc' /\ wf_tsample N k acc' /\
    eqNm N (PHv N key acc') (vadd (Shn N (a * Z.to_nat s) (PHv N key acc)) err) /\ (forall j, (j < N)%nat -> Z.abs (err j) <= beta).
Proof. exact cmux_phase. Qed.
Print Assumptions C09_cmux_phase.

(* blind rotation: for every n, every exponent vector in [0,2N)^n (0 and 2N-1 included; zero exponents are skipped), the
   accumulator phase is multiplied by X^(sum_i a_i s_i), up to an error of sup norm at most (executed steps) * beta *)
Theorem C09_blind_rotate_phase : forall N, (0 < N)%nat -> forall key k, wf_tkey N k key -> forall l B bk ss beta,
  good_key N key k l B bk ss beta -> 0 <= beta ->
  forall (bara : list nat) acc, length bara = length bk -> Forall (fun a => (a < 2 * N)%nat) bara -> wf_tsample N k acc ->
  exists accf err, blind_rotate l B bk (map Z.of_nat bara) acc = Some accf /\ wf_tsample N k accf /\
    eqNm N (PHv N key accf) (vadd (Shn N (expo bara ss) (PHv N key acc)) err) /\
    (forall j, (j < N)%nat -> Z.abs (err j) <= steps bara * beta).
Proof. exact blind_rotate_phase. Qed.
Print Assumptions C09_blind_rotate_phase.

Example C09_nonvacuous :
  wf_tkey 2 1 [[1;1]] /\ wf_tsample 2 1 [[5;6];[7;8]] /\ Forall (wf_tsample 2 1) (tgsw_trivial 1 2 2 16 [1;0]) /\
  extprod 2 16 (tgsw_trivial 1 2 2 16 [1;0]) [[5;6];[7;8]] = [[5;6];[7;8]] /\
  extprod 2 16 (tgsw_trivial 1 2 2 16 [0;1]) [[5;6];[7;8]] = [[-6;5];[-8;7]].
Proof. unfold wf_tkey, wf_tsample. repeat split; try reflexivity; repeat constructor. Qed.
