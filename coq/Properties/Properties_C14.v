(* Properties_C14.v — C14: ciphertext linear operations act exactly linearly on phases, every dimension. *)
From Coq Require Import ZArith List Lia.
From TV Require Import Base.Int32 Ring.NegaRing Model.Lwe Model.Poly Model.Tlwe Model.Tgsw Proofs.Lwe Proofs.Tlwe Proofs.Tgsw Proofs.BlindRotate Proofs.TlweOps.
Import ListNotations.
Local Open Scope Z_scope.

(* phase as computed by the wrapping C loop = b - <a,s> mod 2^32 *)
Theorem C14_phase_spec : forall key c, lwe_phase key c = w32 (snd c - dot (fst c) key).
Proof. exact lwe_phase_spec. Qed.
Print Assumptions C14_phase_spec.

Theorem C14_phase_add : forall key c1 c2, length (fst c1) = length (fst c2) ->
  lwe_phase key (lwe_add c1 c2) = w32 (lwe_phase key c1 + lwe_phase key c2).
Proof. exact phase_add. Qed.
Print Assumptions C14_phase_add.
Theorem C14_phase_sub : forall key c1 c2, length (fst c1) = length (fst c2) ->
  lwe_phase key (lwe_sub c1 c2) = w32 (lwe_phase key c1 - lwe_phase key c2).
Proof. exact phase_sub. Qed.
Print Assumptions C14_phase_sub.
Theorem C14_phase_addmul : forall key c1 c2, length (fst c1) = length (fst c2) -> forall p,
  lwe_phase key (lwe_addmul c1 p c2) = w32 (lwe_phase key c1 + p * lwe_phase key c2).
Proof. exact phase_addmul. Qed.
Print Assumptions C14_phase_addmul.
Theorem C14_phase_submul : forall key c1 c2, length (fst c1) = length (fst c2) -> forall p,
  lwe_phase key (lwe_submul c1 p c2) = w32 (lwe_phase key c1 - p * lwe_phase key c2).
Proof. exact phase_submul. Qed.
Print Assumptions C14_phase_submul.
Theorem C14_phase_clear : forall key n, lwe_phase key (lwe_clear n) = 0.
Proof. exact phase_clear. Qed.
Print Assumptions C14_phase_clear.
Theorem C14_phase_trivial : forall key n mu, lwe_phase key (lwe_trivial n mu) = w32 mu.
Proof. exact phase_trivial. Qed.
Print Assumptions C14_phase_trivial.
Theorem C14_phase_negate : forall key c, lwe_phase key (lwe_negate c) = w32 (- lwe_phase key c).
Proof. exact phase_negate. Qed.
Print Assumptions C14_phase_negate.
Theorem C14_phase_copy : forall key c, lwe_phase key (lwe_copy c) = lwe_phase key c.
Proof. exact phase_copy. Qed.
Print Assumptions C14_phase_copy.

(* the 8/4/2/1 block structure of the assembly subtraction covers exactly n cells, for every n,
   never touches a cell outside the arrays, and computes the plain loop *)
Theorem C14_asm_sub_equals_loop : forall r a, length r = length a -> vsub_asm true r a = Some (zipw Z.sub r a).
Proof. exact vsub_asm_eq_loop. Qed.
Print Assumptions C14_asm_sub_equals_loop.
(* the loop before the repair (finding D2, fixed in /repo) *)
Theorem C14_asm_sub_small_n_refuted_before_fix : vsub_asm false [10;20;30] [1;2;3] = None.
Proof. exact vsub_asm_small_n_refuted. Qed.
Print Assumptions C14_asm_sub_small_n_refuted_before_fix.

(* variance multiplier p*p exact for |p| < 2^15 *)
Theorem C14_variance_multiplier : forall p, Z.abs p < 32768 -> var_coeff p = p * p.
Proof. exact var_coeff_exact. Qed.
Print Assumptions C14_variance_multiplier.

(* extraction of coefficient j: phase under the extracted key = coefficient j of the TLWE phase,
   for every N >= 1, k, j in [0,N) *)
Theorem C14_extract_phase : forall N k key c j, (0 < N)%nat -> (j < N)%nat -> wf_tsample N k c -> wf_tkey N k key ->
  lwe_phase (tlwe_extract_key key) (tlwe_extract_exec N c j) = w32 (nth j (tlwe_phase key c) 0).
Proof. exact extract_phase_exec. Qed.
Print Assumptions C14_extract_phase.

(* TLWE samples, in the ring: the wrapping C loops compute b - sum_u s_u*a_u; addition, r + d*C with a polynomial d, and
   multiplication by X^a - 1 act linearly on that phase, for every N >= 1, k, key (coefficient-wise mod 2^32) *)
Theorem C14_tlwe_phase_is_ring_phase : forall N, (0 < N)%nat -> forall key k c, wf_tsample N k c -> wf_tkey N k key ->
  eqNm N (ofl (tlwe_phase key c)) (PHv N key c).
Proof. exact phase_is_PHv. Qed.
Print Assumptions C14_tlwe_phase_is_ring_phase.
Theorem C14_tlwe_phase_add : forall N, (0 < N)%nat -> forall key k, wf_tkey N k key -> forall x y, wf_tsample N k x -> wf_tsample N k y ->
  eqNm N (PHv N key (tlwe_add x y)) (vadd (PHv N key x) (PHv N key y)).
Proof. exact PHv_add. Qed.
Print Assumptions C14_tlwe_phase_add.
Theorem C14_tlwe_phase_addmulR : forall N, (0 < N)%nat -> forall key k r d C,
  wf_tkey N k key -> wf_tsample N k r -> wf_tsample N k C -> length d = N ->
  eqNm N (PHv N key (tlwe_addmulR r d C)) (vadd (PHv N key r) (act N d (PHv N key C))).
Proof. exact PHv_addmulR. Qed.
Print Assumptions C14_tlwe_phase_addmulR.
Theorem C14_tlwe_mulByXaiMinusOne : forall N, (0 < N)%nat -> forall key k, wf_tkey N k key -> forall a c, wf_tsample N k c -> (a < 2 * N)%nat ->
  tlwe_mulByXaiMinusOne (Z.of_nat a) c = Some (map (xm1 a) c) /\
  eqNm N (PHv N key (map (xm1 a) c)) (vsub (Shn N a (PHv N key c)) (PHv N key c)).
Proof. intros N HN key k Hk a c Hc Ha. split; [exact (mulXm1_ok N HN k a c Hc Ha)|exact (PHv_xm1 N HN key k Hk a c Hc Ha)]. Qed.
Print Assumptions C14_tlwe_mulByXaiMinusOne.

(* trivial samples, add-constant (tLweAddTTo) and add-polynomial-times-constant (tLweAddRTTo) on any component u <= k:
   the body moves the phase by the added value, mask component u by minus the key polynomial s_u times it *)
Theorem C14_tlwe_trivial_phase : forall N, (0 < N)%nat -> forall key k, wf_tkey N k key -> forall mu, lenN N mu ->
  eqNm N (PHv N key (tlwe_trivial k mu)) (ofl mu).
Proof. intros N Npos key k Hkey. exact (tlwe_trivial_phase N key k). Qed.
Print Assumptions C14_tlwe_trivial_phase.
Theorem C14_tlwe_add_constant_phase : forall N, (0 < N)%nat -> forall key k, wf_tkey N k key -> forall c u x, wf_tsample N k c -> (u <= k)%nat ->
  eqNm N (PHv N key (tlwe_add_t c u x)) (vadd (PHv N key c) (if (u =? k)%nat then vscale x e0 else vopp (act N (nth u key []) (vscale x e0)))).
Proof. exact tlwe_add_t_phase. Qed.
Print Assumptions C14_tlwe_add_constant_phase.
Theorem C14_tlwe_add_poly_times_constant_phase : forall N, (0 < N)%nat -> forall key k, wf_tkey N k key -> forall c u p x, wf_tsample N k c -> (u <= k)%nat -> lenN N p ->
  eqNm N (PHv N key (tlwe_add_rt c u p x)) (vadd (PHv N key c) (if (u =? k)%nat then vscale x (ofl p) else vopp (act N (nth u key []) (vscale x (ofl p))))).
Proof. exact tlwe_add_rt_phase. Qed.
Print Assumptions C14_tlwe_add_poly_times_constant_phase.

Example C14_nonvacuous :
  wf_tsample 4 1 [[1;2;3;4];[5;6;7;8]] /\ wf_tkey 4 1 [[1;0;1;1]] /\
  tlwe_phase [[1;0;1;1]] [[1;2;3;4];[5;6;7;8]] = [9; 11; 7; 1] /\
  lwe_phase (tlwe_extract_key [[1;0;1;1]]) (tlwe_extract_exec 4 [[1;2;3;4];[5;6;7;8]] 2) = 7 /\
  vsub_asm true [10;20;30] [1;2;3] = Some [9;18;27].
Proof. unfold wf_tsample, wf_tkey. repeat split; try reflexivity; repeat constructor. Qed.
