(* Properties_C11.v — C11: naive, Karatsuba and monomial multiplications are exact in Z[X]/(X^N+1) mod 2^32. *)
From Coq Require Import ZArith List Lia.
From TV Require Import Base.Int32 Base.Sums Ring.NegaRing Ring.PolyPlain Model.Lwe Model.Poly Proofs.Poly Proofs.Karatsuba.
Import ListNotations.
Local Open Scope Z_scope.

(* the ring: a commutative, associative product with unit on Z^N, every N >= 1 *)
Theorem C11_ring_comm : forall N, (0 < N)%nat -> forall a b, (length a <= N)%nat -> (length b <= N)%nat ->
  eqN N (mul N a b) (mul N b a).
Proof. exact mul_comm. Qed.
Print Assumptions C11_ring_comm.
Theorem C11_ring_assoc : forall N, (0 < N)%nat -> forall a b c, (length a <= N)%nat -> (length b <= N)%nat -> (length c <= N)%nat ->
  eqN N (mul N (tol N (mul N a b)) c) (mul N a (tol N (mul N b c))).
Proof. exact mul_assoc. Qed.
Print Assumptions C11_ring_assoc.
Theorem C11_ring_unit : forall N, (0 < N)%nat -> forall a, (length a <= N)%nat -> eqN N (mul N a [1]) (ofl a).
Proof. exact mul_one. Qed.
Print Assumptions C11_ring_unit.
(* the ring product is the convolution with negacyclic wrap that the C loops write down *)
Theorem C11_ring_mul_is_convolution : forall N, (0 < N)%nat -> forall a b, (length a <= N)%nat ->
  eqN N (mul N a b) (negaconv N (ofl a) (ofl b)).
Proof. exact mul_is_negaconv. Qed.
Print Assumptions C11_ring_mul_is_convolution.

(* schoolbook product (plain, accumulate, subtract) *)
Theorem C11_naive_is_ring_mul : forall a b i, length a = length b -> (i < length a)%nat ->
  nth i (poly_mul a b) 0 = w32 (mul (length a) a b i).
Proof. exact poly_mul_is_ring_mul. Qed.
Print Assumptions C11_naive_is_ring_mul.
Theorem C11_addmul : forall r a b i, length a = length b -> length r = length a -> (i < length a)%nat ->
  nth i (poly_addmul r a b) 0 = w32 (nth i r 0 + mul (length a) a b i).
Proof. exact poly_addmul_spec. Qed.
Print Assumptions C11_addmul.
Theorem C11_submul : forall r a b i, length a = length b -> length r = length a -> (i < length a)%nat ->
  nth i (poly_submul r a b) 0 = w32 (nth i r 0 - mul (length a) a b i).
Proof. exact poly_submul_spec. Qed.
Print Assumptions C11_submul.

(* Karatsuba (recursion with cut-off h <= 4, 2N-1 buffer, reduction mod X^N+1): every power-of-two N,
   every coefficient value, equal to the ring product mod 2^32 *)
Theorem C11_karatsuba_is_ring_mul : forall m a b i, length a = (2 ^ m)%nat -> length b = (2 ^ m)%nat -> (i < 2 ^ m)%nat ->
  eqm32 (nth i (poly_mul_karatsuba a b) 0) (mul (2 ^ m) a b i).
Proof. exact karatsuba_is_mul. Qed.
Print Assumptions C11_karatsuba_is_ring_mul.
Theorem C11_karatsuba_plain_product : forall fuel m A B, length A = (2 ^ m)%nat -> length B = (2 ^ m)%nat ->
  length (karatsuba fuel A B) = (2 * 2 ^ m - 1)%nat /\ eqmv (ofl (karatsuba fuel A B)) (conv (ofl A) (ofl B)).
Proof. exact karatsuba_is_conv. Qed.
Print Assumptions C11_karatsuba_plain_product.

(* monomials: all a in [0,2N), no access out of range, equal to the a-fold negacyclic shift *)
Theorem C11_mulByXai_in_range : forall src, (0 < length src)%nat -> forall a, (a < 2 * length src)%nat ->
  mulByXai (Z.of_nat a) src = Some (map (xai_coeff src a) (seq 0 (length src))).
Proof. exact mulByXai_ok. Qed.
Print Assumptions C11_mulByXai_in_range.
Theorem C11_mulByXai_is_X_pow_a : forall src, (0 < length src)%nat -> forall a i, (a < 2 * length src)%nat -> (i < length src)%nat ->
  eqm32 (xai_coeff src a i) (Shn (length src) a (ofl src) i).
Proof. exact xai_is_shift. Qed.
Print Assumptions C11_mulByXai_is_X_pow_a.
Theorem C11_mulByXaiMinusOne : forall src, (0 < length src)%nat -> forall a, (a < 2 * length src)%nat ->
  mulByXaiMinusOne (Z.of_nat a) src = Some (map (fun i => w32 (xai_coeff src a i - nth i src 0)) (seq 0 (length src))).
Proof. exact mulByXaiMinusOne_ok. Qed.
Print Assumptions C11_mulByXaiMinusOne.
Theorem C11_monomial_group : forall N, (0 < N)%nat -> forall a b f, eqN N (Shn N a (Shn N b f)) (Shn N ((a + b) mod (2 * N)) f).
Proof. exact Xai_group. Qed.
Print Assumptions C11_monomial_group.
Theorem C11_X_pow_N_is_minus_one : forall N, (0 < N)%nat -> forall f, eqN N (Shn N N f) (vopp f).
Proof. exact X_pow_N_is_minus_one. Qed.
Print Assumptions C11_X_pow_N_is_minus_one.

(* coefficient-wise operations, every p including INT32_MIN *)
Theorem C11_addmulz : forall a p b i, length a = length b -> (i < length a)%nat ->
  nth i (poly_addmulz a p b) 0 = w32 (nth i a 0 + p * nth i b 0).
Proof. exact poly_addmulz_spec. Qed.
Print Assumptions C11_addmulz.
Theorem C11_submulz : forall a p b i, length a = length b -> (i < length a)%nat ->
  nth i (poly_submulz a p b) 0 = w32 (nth i a 0 - p * nth i b 0).
Proof. exact poly_submulz_spec. Qed.
Print Assumptions C11_submulz.
Theorem C11_add : forall a b i, length a = length b -> (i < length a)%nat -> nth i (poly_add a b) 0 = w32 (nth i a 0 + nth i b 0).
Proof. exact poly_add_spec. Qed.
Print Assumptions C11_add.
Theorem C11_sub : forall a b i, length a = length b -> (i < length a)%nat -> nth i (poly_sub a b) 0 = w32 (nth i a 0 - nth i b 0).
Proof. exact poly_sub_spec. Qed.
Print Assumptions C11_sub.

(* why N must be a power of two for Karatsuba (outside the property) *)
Theorem C11_karatsuba_odd_size_refuted : let a := repeat 1 11 in nth 10 (poly_mul_karatsuba a a) 0 <> nth 10 (poly_mul a a) 0.
Proof. exact karatsuba_odd_refuted. Qed.
Print Assumptions C11_karatsuba_odd_size_refuted.

Example C11_nonvacuous :
  poly_mul [1;2;3;4] [5;6;7;8] = [-56; -36; 2; 60] /\ poly_mul_karatsuba [1;2;3;4] [5;6;7;8] = [-56; -36; 2; 60] /\
  mulByXai 5 [1;2;3;4] = Some [4; -1; -2; -3] /\ mulByXai 0 [1;2;3;4] = Some [1;2;3;4] /\ mulByXai 7 [1;2;3;4] = Some [2;3;4;-1] /\
  poly_mul_karatsuba (repeat 1 16) (repeat 1 16) = poly_mul (repeat 1 16) (repeat 1 16).
Proof. repeat split; vm_compute; reflexivity. Qed.
