(* Ring/PolyPlain.v — plain (non-reduced) polynomial products on coefficient functions: bilinearity,
   shifts, supports; the algebra behind Karatsuba and behind the reduction mod X^N+1. *)
From Coq Require Import ZArith List Lia Arith.
From TV Require Import Base.Int32 Base.Sums Ring.NegaRing.
Import ListNotations.
Local Open Scope Z_scope.

Definition conv (f g : vec) : vec := fun i => zsum (S i) (fun j => f j * g (i - j)%nat).
Definition shiftf (h : nat) (f : vec) : vec := fun i => if (i <? h)%nat then 0 else f (i - h)%nat.
Definition vsub (f g : vec) : vec := fun i => f i - g i.
Definition supp (h : nat) (f : vec) : Prop := forall i, (h <= i)%nat -> f i = 0.

Lemma zsum_split a b F : zsum (a + b) F = zsum a F + zsum b (fun j => F (a + j)%nat).
Proof. induction b as [|b IH]; [rewrite Nat.add_0_r; cbn; ring|].
  replace (a + S b)%nat with (S (a + b)) by lia. cbn [zsum]. rewrite IH. ring. Qed.
Lemma zsum_rev n F : zsum n F = zsum n (fun j => F (n - 1 - j)%nat).
Proof. induction n as [|n IH]; [reflexivity|]. rewrite (zsum_shift n (fun j => F (S n - 1 - j)%nat)).
  cbn [zsum]. rewrite IH. replace (S n - 1 - 0)%nat with n by lia.
  rewrite (zsum_ext n (fun j => F (S n - 1 - S j)%nat) (fun j => F (n - 1 - j)%nat)) by (intros; f_equal; lia). ring. Qed.
Lemma zsum_zero_ext n F : (forall j, (j < n)%nat -> F j = 0) -> zsum n F = 0.
Proof. intro H. rewrite (zsum_ext n F (fun _ => 0)) by assumption. apply zsum_zero. Qed.

Lemma conv_ext f f' g g' : eqv f f' -> eqv g g' -> eqv (conv f g) (conv f' g').
Proof. intros Hf Hg i. unfold conv. apply zsum_ext. intros j _. now rewrite Hf, Hg. Qed.
Lemma conv_comm f g : eqv (conv f g) (conv g f).
Proof. intro i. unfold conv. rewrite zsum_rev. apply zsum_ext. intros j Hj.
  replace (S i - 1 - j)%nat with (i - j)%nat by lia. replace (i - (i - j))%nat with j by lia. ring. Qed.
Lemma conv_add_l f f' g : eqv (conv (vadd f f') g) (vadd (conv f g) (conv f' g)).
Proof. intro i. unfold conv, vadd. rewrite <- zsum_add. apply zsum_ext. intros; ring. Qed.
Lemma conv_add_r f g g' : eqv (conv f (vadd g g')) (vadd (conv f g) (conv f g')).
Proof. intro i. unfold conv, vadd. rewrite <- zsum_add. apply zsum_ext. intros; ring. Qed.
Lemma conv_scale_l c f g : eqv (conv (vscale c f) g) (vscale c (conv f g)).
Proof. intro i. unfold conv, vscale. rewrite <- zsum_scale. apply zsum_ext. intros; ring. Qed.
Lemma conv_zero_l g : eqv (conv vzero g) vzero.
Proof. intro i. unfold conv, vzero. apply zsum_zero_ext. intros; ring. Qed.
Lemma conv_e0 g : eqv (conv e0 g) g.
Proof. intro i. unfold conv. rewrite zsum_shift. cbn [e0]. rewrite Nat.sub_0_r.
  rewrite zsum_zero_ext; [ring|]. intros j _. cbn [e0]. ring. Qed.

Lemma conv_shift_l h f g : eqv (conv (shiftf h f) g) (shiftf h (conv f g)).
Proof. intro i. unfold shiftf at 2. destruct (Nat.ltb_spec i h) as [Hi|Hi].
  - unfold conv. apply zsum_zero_ext. intros j Hj. unfold shiftf.
    destruct (Nat.ltb_spec j h); [ring|lia].
  - unfold conv. replace (S i) with (h + S (i - h))%nat by lia. rewrite zsum_split.
    rewrite zsum_zero_ext.
    + rewrite Z.add_0_l. apply zsum_ext. intros j Hj. unfold shiftf.
      destruct (Nat.ltb_spec (h + j) h); [lia|]. replace (h + j - h)%nat with j by lia.
      replace (i - (h + j))%nat with (i - h - j)%nat by lia. reflexivity.
    + intros j Hj. unfold shiftf. destruct (Nat.ltb_spec j h); [ring|lia]. Qed.
Lemma conv_shift_r h f g : eqv (conv f (shiftf h g)) (shiftf h (conv f g)).
Proof. intro i. rewrite (conv_comm f (shiftf h g) i). rewrite (conv_shift_l h g f i).
  unfold shiftf. destruct (i <? h)%nat; [reflexivity|]. apply conv_comm. Qed.

Lemma shiftf_ext h f g : eqv f g -> eqv (shiftf h f) (shiftf h g).
Proof. intros H i. unfold shiftf. destruct (i <? h)%nat; [reflexivity|apply H]. Qed.
Lemma shiftf_vadd h f g : eqv (shiftf h (vadd f g)) (vadd (shiftf h f) (shiftf h g)).
Proof. intro i. unfold shiftf, vadd. destruct (i <? h)%nat; ring. Qed.
Lemma shiftf_shiftf a b f : eqv (shiftf a (shiftf b f)) (shiftf (a + b) f).
Proof. intro i. unfold shiftf. destruct (Nat.ltb_spec i a), (Nat.ltb_spec i (a + b)); try lia; try reflexivity.
  - destruct (Nat.ltb_spec (i - a) b); [reflexivity|lia].
  - destruct (Nat.ltb_spec (i - a) b); [lia|]. f_equal. lia. Qed.

Lemma conv_supp h h' f g : supp h f -> supp h' g -> supp (h + h' - 1) (conv f g).
Proof. intros Hf Hg i Hi. unfold conv. apply zsum_zero_ext. intros j Hj.
  destruct (Nat.le_gt_cases h j) as [H|H]; [rewrite Hf by assumption; ring|].
  rewrite (Hg (i - j)%nat) by lia. ring. Qed.

(* splitting a polynomial at degree h *)
Definition lowf (h : nat) (f : vec) : vec := fun i => if (i <? h)%nat then f i else 0.
Definition highf (h : nat) (f : vec) : vec := fun i => f (h + i)%nat.
Lemma split_at_h h f : eqv f (vadd (lowf h f) (shiftf h (highf h f))).
Proof. intro i. unfold vadd, lowf, shiftf, highf. destruct (Nat.ltb_spec i h); [ring|].
  replace (h + (i - h))%nat with i by lia. ring. Qed.

(* the four-quadrant expansion and Karatsuba's middle term *)
Theorem conv_split h A0 A1 B0 B1 :
  eqv (conv (vadd A0 (shiftf h A1)) (vadd B0 (shiftf h B1)))
      (vadd (vadd (conv A0 B0) (shiftf h (vadd (conv A0 B1) (conv A1 B0)))) (shiftf (h + h) (conv A1 B1))).
Proof. intro i.
  pose proof (conv_add_l A0 (shiftf h A1) (vadd B0 (shiftf h B1)) i) as E1.
  pose proof (conv_add_r A0 B0 (shiftf h B1) i) as E2.
  pose proof (conv_add_r (shiftf h A1) B0 (shiftf h B1) i) as E3.
  pose proof (conv_shift_r h A0 B1 i) as E4.
  pose proof (conv_shift_l h A1 B0 i) as E5.
  pose proof (conv_shift_l h A1 (shiftf h B1) i) as E6.
  pose proof (shiftf_ext h _ _ (conv_shift_r h A1 B1) i) as E7.
  pose proof (shiftf_shiftf h h (conv A1 B1) i) as E8.
  pose proof (shiftf_vadd h (conv A0 B1) (conv A1 B0) i) as E9.
  unfold vadd in *. lia. Qed.

Theorem karatsuba_middle A0 A1 B0 B1 :
  eqv (vsub (vsub (conv (vadd A0 A1) (vadd B0 B1)) (conv A0 B0)) (conv A1 B1))
      (vadd (conv A0 B1) (conv A1 B0)).
Proof. intro i.
  pose proof (conv_add_l A0 A1 (vadd B0 B1) i) as E1.
  pose proof (conv_add_r A0 B0 B1 i) as E2.
  pose proof (conv_add_r A1 B0 B1 i) as E3.
  unfold vsub, vadd in *. lia. Qed.

(* reduction modulo X^N+1: for operands of degree < N *)
Theorem negaconv_is_reduced_conv N (HN : (0 < N)%nat) a b i : supp N a -> supp N b -> (i < N)%nat ->
  negaconv N a b i = conv a b i - conv a b (N + i)%nat.
Proof. intros Ha Hb Hi. unfold negaconv, conv.
  (* first part: j <= i *)
  replace N with (S i + (N - S i))%nat at 1 by lia. rewrite zsum_split.
  rewrite (zsum_ext (S i) _ (fun j => a j * b (i - j)%nat)).
  2:{ intros j Hj. destruct (Nat.leb_spec j i); [reflexivity|lia]. }
  unfold Z.sub. f_equal.
  (* second part *)
  replace (S (N + i)) with (S i + ((N - S i) + S i))%nat by lia.
  rewrite zsum_split. rewrite (zsum_zero_ext (S i)).
  2:{ intros j Hj. rewrite (Hb (N + i - j)%nat) by lia. ring. }
  rewrite (zsum_split (N - S i) (S i)).
  rewrite (zsum_zero_ext (S i) (fun j => a (S i + (N - S i + j))%nat * b (N + i - (S i + (N - S i + j)))%nat)).
  2:{ intros j Hj. rewrite (Ha (S i + (N - S i + j))%nat) by lia. ring. }
  rewrite Z.add_0_l, Z.add_0_r. rewrite <- zsum_opp. apply zsum_ext. intros j Hj.
  destruct (Nat.leb_spec (S i + j) i); [lia|]. reflexivity. Qed.
