(* Ring/NegaRing.v — the ring Z[X]/(X^N+1) on coefficient functions, with the executable list model.
   Core (shift closed form, linearity, act_comm, act_e0, mul_comm, mul_assoc, unit) from the round-0 prototype. *)
From Coq Require Import ZArith List Lia Arith.
From TV Require Import Base.Sums.
Import ListNotations.
Local Open Scope Z_scope.


Section Nega.
Variable N : nat.
Hypothesis Npos : (0 < N)%nat.

Definition vec := nat -> Z.
Definition eqv (f g : vec) := forall i, f i = g i.
Definition eqN (f g : vec) := forall i, (i < N)%nat -> f i = g i.
Definition vadd (f g : vec) : vec := fun i => f i + g i.
Definition vscale (c:Z) (f:vec) : vec := fun i => c * f i.
Definition vopp (f:vec) : vec := fun i => - f i.
Definition vzero : vec := fun _ => 0.
Definition Sh (f : vec) : vec := fun i => match i with O => - f (N-1)%nat | S j => f j end.
Fixpoint act (a : list Z) (v : vec) : vec :=
  match a with [] => vzero | x :: a' => vadd (vscale x v) (Sh (act a' v)) end.
Definition e0 : vec := fun i => match i with O => 1 | _ => 0 end.

Lemma Sh_ext f g : eqv f g -> eqv (Sh f) (Sh g).
Proof. intros H [|j]; unfold Sh; now rewrite H. Qed.
Lemma Sh_extN f g : eqN f g -> eqN (Sh f) (Sh g).
Proof. intros H [|j] Hi; unfold Sh; rewrite H; auto; lia. Qed.
Lemma act_ext a f g : eqv f g -> eqv (act a f) (act a g).
Proof. induction a as [|x a IH]; intros H i; cbn [act]; [reflexivity|].
  unfold vadd, vscale. rewrite H. f_equal. apply Sh_ext. now apply IH. Qed.
Lemma act_extN a f g : eqN f g -> eqN (act a f) (act a g).
Proof. induction a as [|x a IH]; intros H i Hi; cbn [act]; [reflexivity|].
  unfold vadd, vscale. rewrite H by assumption. f_equal. apply Sh_extN; auto. Qed.

Lemma Sh_vadd f g : eqv (Sh (vadd f g)) (vadd (Sh f) (Sh g)).
Proof. intros [|j]; unfold Sh, vadd; ring. Qed.
Lemma Sh_vscale c f : eqv (Sh (vscale c f)) (vscale c (Sh f)).
Proof. intros [|j]; unfold Sh, vscale; ring. Qed.
Lemma Sh_vzero : eqv (Sh vzero) vzero.
Proof. intros [|j]; reflexivity. Qed.

Lemma act_vadd a u v : eqv (act a (vadd u v)) (vadd (act a u) (act a v)).
Proof. induction a as [|x a IH]; intros i; cbn [act]; [unfold vadd, vzero; ring|].
  pose proof (Sh_ext _ _ IH i) as H1. pose proof (Sh_vadd (act a u) (act a v) i) as H2.
  unfold vadd, vscale in *. rewrite H1, H2. ring. Qed.
Lemma act_vscale a c v : eqv (act a (vscale c v)) (vscale c (act a v)).
Proof. induction a as [|x a IH]; intros i; cbn [act]; [unfold vscale, vzero; ring|].
  pose proof (Sh_ext _ _ IH i) as H1. pose proof (Sh_vscale c (act a v) i) as H2.
  unfold vadd, vscale in *. rewrite H1, H2. ring. Qed.
Lemma act_vzero a : eqv (act a vzero) vzero.
Proof. induction a as [|x a IH]; intros i; cbn [act]; [reflexivity|].
  pose proof (Sh_ext _ _ IH i) as H1. pose proof (Sh_vzero i) as H2.
  unfold vadd, vscale, vzero in *. rewrite H1, H2. ring. Qed.
Lemma act_Sh a v : eqv (act a (Sh v)) (Sh (act a v)).
Proof. induction a as [|x a IH]; intros i; cbn [act]; [now rewrite (Sh_vzero i)|].
  pose proof (Sh_vadd (vscale x v) (Sh (act a v)) i) as H1. pose proof (Sh_vscale x v i) as H2.
  pose proof (Sh_ext _ _ IH i) as H3.
  unfold vadd, vscale in *. rewrite H1, H2, H3. ring. Qed.

(* commutation of two actions *)
Lemma act_comm a b v : eqv (act a (act b v)) (act b (act a v)).
Proof. induction a as [|x a IH]; intros i; cbn [act].
  - now rewrite (act_vzero b i).
  - pose proof (act_vadd b (vscale x v) (Sh (act a v)) i) as H1. pose proof (act_vscale b x v i) as H2.
    pose proof (act_Sh b (act a v) i) as H3. pose proof (Sh_ext _ _ IH i) as H4.
    unfold vadd, vscale in *. rewrite H1, H2, H3, H4. ring. Qed.

(* iterated shift, closed form *)
Fixpoint Shn (k:nat) (f:vec) : vec := match k with O => f | S k' => Sh (Shn k' f) end.
Lemma Shn_closed k f : (k <= N)%nat ->
  eqN (Shn k f) (fun i => if (i <? k)%nat then - f (N - k + i)%nat else f (i - k)%nat).
Proof. induction k as [|k IH]; intros Hk i Hi.
  - cbn. now rewrite Nat.sub_0_r.
  - cbn [Shn]. destruct i as [|j]; unfold Sh.
    + rewrite IH by lia. destruct (Nat.ltb_spec (N-1) k); [lia|].
      replace (N - 1 - k)%nat with (N - S k + 0)%nat by lia. reflexivity.
    + rewrite IH by lia. destruct (Nat.ltb_spec j k), (Nat.ltb_spec (S j) (S k)); try lia.
      * f_equal. f_equal. lia. * f_equal. Qed.
Lemma ShN_opp f : eqN (Shn N f) (vopp f).
Proof. intros i Hi. rewrite Shn_closed by lia. destruct (Nat.ltb_spec i N); [|lia].
  unfold vopp. f_equal. f_equal. lia. Qed.

(* a as a vector: coefficient function of a list *)
Definition ofl (a : list Z) : vec := fun i => nth i a 0.
(* act a v = sum_j a_j Sh^j v : expressed through act on e0 *)
Lemma act_e0 a : (length a <= N)%nat -> eqN (act a e0) (ofl a).
Proof. induction a as [|x a IH]; intros Hl i Hi; cbn [act].
  - unfold vzero, ofl. now destruct i.
  - cbn [length] in Hl. unfold vadd, vscale, ofl. destruct i as [|j]; cbn [Sh nth e0].
    + unfold Sh. rewrite IH by lia. unfold ofl. rewrite nth_overflow by lia. ring.
    + unfold Sh. rewrite IH by lia. unfold ofl. ring. Qed.

(* multiplicativity: act (list of (act a (ofl b))) = act a . act b on eqN *)
Definition tol (f : vec) : list Z := map f (seq 0 N).
Lemma ofl_tol f : eqN (ofl (tol f)) f.
Proof. intros i Hi. unfold ofl, tol. rewrite nth_indep with (d' := f 0%nat) by (rewrite map_length, seq_length; lia).
  rewrite map_nth. now rewrite seq_nth. Qed.

(* act depends on the list only through ... we need: act (tol w) v for w a vector *)
Lemma act_app a b v : eqv (act (a ++ b) v) (vadd (act a v) (Shn (length a) (act b v))).
Proof. induction a as [|x a IH]; intros i; cbn [app act length Shn].
  - unfold vadd, vzero. ring.
  - pose proof (Sh_ext _ _ IH i) as H1. pose proof (Sh_vadd (act a v) (Shn (length a) (act b v)) i) as H2.
    unfold vadd, vscale in *. rewrite H1, H2. ring. Qed.

Lemma Shn_Sh k f : eqv (Shn k (Sh f)) (Sh (Shn k f)).
Proof. induction k; intros i; cbn [Shn]; [reflexivity|]. apply Sh_ext. exact IHk. Qed.


(* product of two length-N coefficient lists, as a vector *)
Definition mul (a b : list Z) : vec := act a (ofl b).
Lemma eqN_trans f g h : eqN f g -> eqN g h -> eqN f h.
Proof. intros H1 H2 i Hi. now rewrite H1, H2. Qed.
Lemma eqN_sym f g : eqN f g -> eqN g f.
Proof. intros H i Hi. now rewrite H. Qed.
Lemma eqv_eqN f g : eqv f g -> eqN f g.
Proof. intros H i _. apply H. Qed.
Lemma ofl_as_act b : (length b <= N)%nat -> eqN (ofl b) (act b e0).
Proof. intro. apply eqN_sym. now apply act_e0. Qed.
Theorem mul_comm a b : (length a <= N)%nat -> (length b <= N)%nat -> eqN (mul a b) (mul b a).
Proof. intros Ha Hb. unfold mul.
  eapply eqN_trans; [apply act_extN, ofl_as_act, Hb|].
  eapply eqN_trans; [apply eqv_eqN, act_comm|].
  apply act_extN. now apply act_e0. Qed.
Lemma tol_length f : length (tol f) = N.
Proof. unfold tol. now rewrite map_length, seq_length. Qed.
Theorem mul_assoc a b c : (length a <= N)%nat -> (length b <= N)%nat -> (length c <= N)%nat ->
  eqN (mul (tol (mul a b)) c) (mul a (tol (mul b c))).
Proof. intros Ha Hb Hc. unfold mul.
  (* lhs = act d (ofl c), d = tol (act a (ofl b)) *)
  set (d := tol (act a (ofl b))).
  assert (Hd : (length d <= N)%nat) by (unfold d; rewrite tol_length; lia).
  eapply eqN_trans; [apply act_extN, ofl_as_act, Hc|].
  eapply eqN_trans; [apply eqv_eqN, act_comm|].
  eapply eqN_trans; [apply act_extN, act_e0, Hd|].
  eapply eqN_trans; [apply act_extN; unfold d; apply ofl_tol|].
  (* act c (act a (ofl b)) *)
  apply eqN_sym.
  eapply eqN_trans; [apply act_extN, ofl_tol|].
  eapply eqN_trans; [apply act_extN, act_extN, ofl_as_act, Hc|].
  eapply eqN_trans; [apply act_extN, eqv_eqN, act_comm|].
  eapply eqN_trans; [apply eqv_eqN, act_comm|].
  apply act_extN, act_extN. now apply act_e0. Qed.
Theorem mul_one a : (length a <= N)%nat -> eqN (mul a [1]) (ofl a).
Proof. intro Ha. unfold mul. eapply eqN_trans; [|apply act_e0, Ha].
  apply act_extN. intros [|i] Hi; unfold ofl, e0; cbn; [reflexivity|now destruct i]. Qed.


(* ---------- monomials: X^k acts as Shn k; X^N = -1 ; group law ---------- *)
Lemma Shn_add j k f : eqv (Shn (j + k) f) (Shn j (Shn k f)).
Proof. induction j as [|j IH]; intro i; cbn [Nat.add Shn]; [reflexivity|]. apply Sh_ext. exact IH. Qed.
Lemma Shn_ext k f g : eqv f g -> eqv (Shn k f) (Shn k g).
Proof. induction k as [|k IH]; intro H; cbn [Shn]; [exact H|]. apply Sh_ext. now apply IH. Qed.
Lemma Shn_extN k f g : eqN f g -> eqN (Shn k f) (Shn k g).
Proof. induction k as [|k IH]; intro H; cbn [Shn]; [exact H|]. apply Sh_extN. now apply IH. Qed.
Lemma Sh_vopp f : eqv (Sh (vopp f)) (vopp (Sh f)).
Proof. intros [|j]; unfold Sh, vopp; ring. Qed.
Lemma Shn_vopp k f : eqv (Shn k (vopp f)) (vopp (Shn k f)).
Proof. induction k as [|k IH]; intro i; cbn [Shn]; [reflexivity|].
  rewrite (Sh_ext _ _ IH i). apply Sh_vopp. Qed.
Theorem Shn_2N f : eqN (Shn (N + N) f) f.
Proof. eapply eqN_trans; [apply eqv_eqN, Shn_add|].
  eapply eqN_trans; [apply Shn_extN, ShN_opp|].
  eapply eqN_trans; [apply eqv_eqN, Shn_vopp|].
  intros i Hi. unfold vopp. rewrite ShN_opp by assumption. unfold vopp. ring. Qed.

(* ---------- the explicit convolution formula of the C loops ---------- *)
Definition negaconv (a b : vec) : vec := fun i =>
  zsum N (fun j => if (j <=? i)%nat then a j * b (i - j)%nat else - (a j * b (N + i - j)%nat)).

Lemma zsum_last_zero n f : f n = 0 -> zsum (S n) f = zsum n f.
Proof. intro H. cbn [zsum]. rewrite H. ring. Qed.

(* act on a coefficient *list* equals the convolution formula *)
Theorem act_is_negaconv : forall a b, (length a <= N)%nat -> eqN (act a b) (negaconv (ofl a) b).
Proof.
  induction a as [|x a IH]; intros b Hl i Hi.
  - cbn [act]. unfold vzero, negaconv. rewrite (zsum_ext N _ (fun _ => 0)); [now rewrite zsum_zero|].
    intros j _. unfold ofl. destruct (j <=? i)%nat; destruct j; cbn; ring.
  - cbn [act length] in *. unfold vadd, vscale.
    destruct N as [|N'] eqn:EN; [lia|].
    unfold negaconv. rewrite EN. rewrite zsum_shift. cbn [Nat.leb]. 
    replace (ofl (x :: a) 0%nat) with x by reflexivity. rewrite Nat.sub_0_r.
    f_equal.
    (* the remaining sum is the shifted convolution of a *)
    assert (Hz : ofl a N' = 0) by (unfold ofl; apply nth_overflow; lia).
    destruct i as [|i'].
    + (* i = 0 : - conv a b (N-1) *)
      unfold Sh. rewrite IH by lia. unfold negaconv. rewrite EN.
      replace (S N' - 1)%nat with N' by lia.
      rewrite zsum_last_zero by (rewrite Nat.leb_refl, Hz; ring).
      rewrite <- zsum_opp. apply zsum_ext. intros j Hj.
      replace (ofl (x :: a) (S j)) with (ofl a j) by reflexivity.
      destruct (Nat.leb_spec j N'); [|lia]. cbn [Nat.leb].
      replace (S N' + 0 - S j)%nat with (N' - j)%nat by lia. ring.
    + unfold Sh. rewrite IH by lia. unfold negaconv. rewrite EN.
      rewrite zsum_last_zero by (rewrite Hz; destruct (N' <=? i')%nat; ring).
      apply zsum_ext. intros j Hj.
      replace (ofl (x :: a) (S j)) with (ofl a j) by reflexivity.
      change (S j <=? S i')%nat with (j <=? i')%nat.
      destruct (Nat.leb_spec j i').
      * replace (S i' - S j)%nat with (i' - j)%nat by lia. reflexivity.
      * replace (S N' + S i' - S j)%nat with (S N' + i' - j)%nat by lia. reflexivity.
Qed.

Corollary mul_is_negaconv a b : (length a <= N)%nat -> eqN (mul a b) (negaconv (ofl a) (ofl b)).
Proof. intro H. unfold mul. now apply act_is_negaconv. Qed.

(* ---------- executable list model: shift = (- last v) :: removelast v ---------- *)
Definition lshift (v : list Z) : list Z := (- last v 0) :: removelast v.
Definition ladd (u v : list Z) : list Z := map (fun xy => fst xy + snd xy) (combine u v).
Definition lscale (c:Z) (v : list Z) : list Z := map (Z.mul c) v.
Fixpoint lact (a v : list Z) : list Z :=
  match a with [] => map (fun _ => 0) v | x :: a' => ladd (lscale x v) (lshift (lact a' v)) end.

Lemma last_nth (v : list Z) : last v 0 = nth (length v - 1) v 0.
Proof. induction v as [|x v IH]; [reflexivity|]. destruct v as [|y v]; [reflexivity|].
  change (last (x :: y :: v) 0) with (last (y :: v) 0). rewrite IH. cbn [length].
  replace (S (S (length v)) - 1)%nat with (S (S (length v) - 1)) by lia. reflexivity. Qed.
Lemma nth_removelast (v : list Z) j : (S j < length v)%nat -> nth j (removelast v) 0 = nth j v 0.
Proof. revert j. induction v as [|x v IH]; intros j H; [cbn in H; lia|].
  destruct v as [|y v]; [cbn in H; lia|]. change (removelast (x :: y :: v)) with (x :: removelast (y :: v)).
  destruct j as [|j]; [reflexivity|]. cbn [nth]. apply IH. cbn [length] in *. lia. Qed.
Lemma removelast_length (v : list Z) : length (removelast v) = (length v - 1)%nat.
Proof. induction v as [|x v IH]; [reflexivity|]. destruct v as [|y v]; [reflexivity|].
  change (removelast (x :: y :: v)) with (x :: removelast (y :: v)). cbn [length] in *. lia. Qed.
Lemma lshift_length v : (0 < length v)%nat -> length (lshift v) = length v.
Proof. intro H. unfold lshift. cbn [length]. rewrite removelast_length. lia. Qed.
Lemma ofl_lshift v : length v = N -> eqN (ofl (lshift v)) (Sh (ofl v)).
Proof. intros Hl i Hi. unfold ofl, lshift, Sh. destruct i as [|j]; cbn [nth].
  - rewrite last_nth, Hl. reflexivity.
  - apply nth_removelast. lia. Qed.
Lemma ladd_length u v : length u = length v -> length (ladd u v) = length u.
Proof. intro H. unfold ladd. rewrite map_length, combine_length. lia. Qed.
Lemma lscale_length c v : length (lscale c v) = length v.
Proof. unfold lscale. apply map_length. Qed.
Lemma ofl_ladd u v : length u = length v -> eqv (ofl (ladd u v)) (vadd (ofl u) (ofl v)).
Proof. revert v. induction u as [|x u IH]; intros [|y v] H i; cbn [length] in H; try lia.
  - unfold ofl, vadd, ladd. destruct i; reflexivity.
  - unfold ofl, vadd, ladd in *. cbn [combine map fst snd]. destruct i as [|i]; cbn [nth]; [reflexivity|].
    apply IH. lia. Qed.
Lemma ofl_lscale c v : eqv (ofl (lscale c v)) (vscale c (ofl v)).
Proof. intro i. unfold ofl, vscale, lscale. revert i. induction v as [|x v IH]; intros [|i]; cbn [map nth]; try ring. apply IH. Qed.
Lemma lact_length a v : (0 < length v)%nat -> length (lact a v) = length v.
Proof. intro H. induction a as [|x a IH]; cbn [lact]; [apply map_length|].
  rewrite ladd_length; rewrite lscale_length; [reflexivity|]. rewrite lshift_length; lia. Qed.

Theorem ofl_lact a v : length v = N -> eqN (ofl (lact a v)) (act a (ofl v)).
Proof. intro Hl. induction a as [|x a IH]; intros i Hi; cbn [lact act].
  - unfold ofl, vzero. clear. revert i. induction v as [|y v IHv]; intros [|i]; cbn [map nth]; auto.
  - assert (Hla : length (lact a v) = N) by (rewrite lact_length; lia).
    rewrite ofl_ladd by (rewrite lscale_length, lshift_length; lia).
    unfold vadd. rewrite (ofl_lscale x v i). unfold vscale. f_equal.
    rewrite (ofl_lshift _ Hla i Hi). apply (Sh_extN _ _ IH i Hi). Qed.

(* the executable product computes the convolution formula, for every N >= 1 *)
Corollary lact_is_negaconv a b : length a = N -> length b = N ->
  eqN (ofl (lact a b)) (negaconv (ofl a) (ofl b)).
Proof. intros Ha Hb. eapply eqN_trans; [now apply ofl_lact|]. apply act_is_negaconv. lia. Qed.

End Nega.
