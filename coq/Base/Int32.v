(* Base/Int32.v — 32/64-bit wrap-around arithmetic on unbounded Z, as the C code relies on it.
   Definitions only use literals (hoisted) so that the extracted code does not recompute powers. *)
From Coq Require Import ZArith Znumtheory Lia List Bool.
Import ListNotations.
Local Open Scope Z_scope.

Definition p31 : Z := 2147483648.
Definition p32 : Z := 4294967296.
Definition p63 : Z := 9223372036854775808.
Definition p64 : Z := 18446744073709551616.

Lemma p31_eq : p31 = 2^31. Proof. reflexivity. Qed.
Lemma p32_eq : p32 = 2^32. Proof. reflexivity. Qed.
Lemma p63_eq : p63 = 2^63. Proof. reflexivity. Qed.
Lemma p64_eq : p64 = 2^64. Proof. reflexivity. Qed.

(* conversion to int32_t (two's complement) and to uint32_t / uint64_t *)
Definition w32 (z:Z) : Z := (z + p31) mod p32 - p31.
Definition u32 (z:Z) : Z := z mod p32.
Definition u64 (z:Z) : Z := z mod p64.

(* digit of width b at bit position sh of an unsigned value *)
Definition pow2 (n:Z) : Z := 2 ^ n.
Definition digit (x sh b : Z) : Z := (x / pow2 sh) mod pow2 b.

Definition is_i32 (z:Z) : Prop := - p31 <= z < p31.
Definition is_i32b (z:Z) : bool := (- p31 <=? z) && (z <? p31).

Lemma is_i32b_ok z : is_i32b z = true <-> is_i32 z.
Proof. unfold is_i32b, is_i32. rewrite andb_true_iff, Z.leb_le, Z.ltb_lt. tauto. Qed.

Ltac upc := unfold p31, p32, p63, p64 in *.

Lemma w32_range z : is_i32 (w32 z).
Proof. unfold is_i32, w32. pose proof (Z.mod_pos_bound (z + p31) p32 eq_refl). upc. lia. Qed.

Lemma w32_id z : is_i32 z -> w32 z = z.
Proof. unfold is_i32, w32. intro H. rewrite Z.mod_small; unfold p31, p32 in *; lia. Qed.

Lemma w32_idem z : w32 (w32 z) = w32 z.
Proof. apply w32_id, w32_range. Qed.

(* congruence mod 2^32 *)
Definition eqm32 (a b : Z) : Prop := a mod p32 = b mod p32.

Lemma eqm32_refl a : eqm32 a a. Proof. reflexivity. Qed.
Lemma eqm32_sym a b : eqm32 a b -> eqm32 b a. Proof. unfold eqm32; congruence. Qed.
Lemma eqm32_trans a b c : eqm32 a b -> eqm32 b c -> eqm32 a c. Proof. unfold eqm32; congruence. Qed.

Lemma w32_eqm z : eqm32 (w32 z) z.
Proof. unfold eqm32, w32.
  rewrite Zminus_mod, Zmod_mod, <- Zminus_mod. f_equal. lia. Qed.

Lemma u32_eqm z : eqm32 (u32 z) z.
Proof. unfold eqm32, u32. apply Zmod_mod. Qed.

Lemma eqm32_w32 a b : eqm32 a b -> w32 a = w32 b.
Proof. unfold eqm32, w32. intro H.
  rewrite (Zplus_mod a), (Zplus_mod b), H. reflexivity. Qed.

Lemma w32_eq_iff a b : w32 a = w32 b <-> eqm32 a b.
Proof. split; [|apply eqm32_w32]. intro H.
  eapply eqm32_trans; [apply eqm32_sym, w32_eqm|]. rewrite H. apply w32_eqm. Qed.

Lemma eqm32_add a b c d : eqm32 a b -> eqm32 c d -> eqm32 (a + c) (b + d).
Proof. unfold eqm32. intros H1 H2. rewrite (Zplus_mod a), (Zplus_mod b), H1, H2. reflexivity. Qed.
Lemma eqm32_sub a b c d : eqm32 a b -> eqm32 c d -> eqm32 (a - c) (b - d).
Proof. unfold eqm32. intros H1 H2. rewrite (Zminus_mod a), (Zminus_mod b), H1, H2. reflexivity. Qed.
Lemma eqm32_mul a b c d : eqm32 a b -> eqm32 c d -> eqm32 (a * c) (b * d).
Proof. unfold eqm32. intros H1 H2. rewrite (Zmult_mod a), (Zmult_mod b), H1, H2. reflexivity. Qed.
Lemma eqm32_opp a b : eqm32 a b -> eqm32 (- a) (- b).
Proof. intro H. replace (-a) with (0 - a) by lia. replace (-b) with (0 - b) by lia.
  apply eqm32_sub; [apply eqm32_refl|assumption]. Qed.

Lemma eqm32_iff_divide a b : eqm32 a b <-> (p32 | a - b).
Proof. unfold eqm32. split; intro H.
  - apply Zmod_divide; [unfold p32; lia|]. rewrite Zminus_mod, H, Z.sub_diag. reflexivity.
  - destruct H as [c Hc]. replace a with (b + c * p32) by lia. apply Z_mod_plus_full. Qed.

Lemma w32_add_l a b : w32 (w32 a + b) = w32 (a + b).
Proof. apply eqm32_w32, eqm32_add; [apply w32_eqm|apply eqm32_refl]. Qed.
Lemma w32_add_r a b : w32 (a + w32 b) = w32 (a + b).
Proof. apply eqm32_w32, eqm32_add; [apply eqm32_refl|apply w32_eqm]. Qed.
Lemma w32_sub_l a b : w32 (w32 a - b) = w32 (a - b).
Proof. apply eqm32_w32, eqm32_sub; [apply w32_eqm|apply eqm32_refl]. Qed.
Lemma w32_sub_r a b : w32 (a - w32 b) = w32 (a - b).
Proof. apply eqm32_w32, eqm32_sub; [apply eqm32_refl|apply w32_eqm]. Qed.
Lemma w32_mul_l a b : w32 (w32 a * b) = w32 (a * b).
Proof. apply eqm32_w32, eqm32_mul; [apply w32_eqm|apply eqm32_refl]. Qed.
Lemma w32_mul_r a b : w32 (a * w32 b) = w32 (a * b).
Proof. apply eqm32_w32, eqm32_mul; [apply eqm32_refl|apply w32_eqm]. Qed.
Lemma w32_opp a : w32 (- w32 a) = w32 (- a).
Proof. apply eqm32_w32, eqm32_opp, w32_eqm. Qed.

Lemma u32_range z : 0 <= u32 z < p32.
Proof. unfold u32. apply Z.mod_pos_bound. reflexivity. Qed.
Lemma u32_w32 z : u32 (w32 z) = u32 z.
Proof. unfold u32. apply w32_eqm. Qed.
Lemma w32_u32 z : w32 (u32 z) = w32 z.
Proof. apply eqm32_w32, u32_eqm. Qed.

Lemma pow2_pos n : 0 <= n -> 0 < pow2 n.
Proof. intro. unfold pow2. apply Z.pow_pos_nonneg; lia. Qed.
Lemma pow2_add a b : 0 <= a -> 0 <= b -> pow2 (a + b) = pow2 a * pow2 b.
Proof. intros. unfold pow2. apply Z.pow_add_r; lia. Qed.
Lemma digit_range x sh b : 0 <= b -> 0 <= digit x sh b < pow2 b.
Proof. intro. unfold digit. apply Z.mod_pos_bound. now apply pow2_pos. Qed.

(* shifts and masks as the C code writes them, equal to the div/mod form *)
Lemma shiftr_div x s : 0 <= s -> Z.shiftr x s = x / pow2 s.
Proof. intro. unfold pow2. now apply Z.shiftr_div_pow2. Qed.
Lemma land_mask x b : 0 <= b -> Z.land x (pow2 b - 1) = x mod pow2 b.
Proof. intro. unfold pow2. replace (2 ^ b - 1) with (Z.ones b) by (rewrite Z.ones_equiv; lia). now apply Z.land_ones. Qed.
Lemma digit_shift_mask x sh b : 0 <= sh -> 0 <= b ->
  Z.land (Z.shiftr x sh) (pow2 b - 1) = digit x sh b.
Proof. intros. unfold digit. rewrite land_mask, shiftr_div by assumption. reflexivity. Qed.
