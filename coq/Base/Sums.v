(* Base/Sums.v — finite sums over nat-indexed functions *)
From Coq Require Import ZArith Lia List.
Local Open Scope Z_scope.

(* sum_{p<l} f p *)
Fixpoint zsum (l : nat) (f : nat -> Z) : Z :=
  match l with O => 0 | S l' => zsum l' f + f l' end.

Lemma zsum_ext l f g : (forall p, (p < l)%nat -> f p = g p) -> zsum l f = zsum l g.
Proof. induction l as [|l IH]; intro H; cbn [zsum]; [reflexivity|].
  rewrite IH by (intros; apply H; lia). rewrite H by lia. reflexivity. Qed.
Lemma zsum_add l f g : zsum l (fun p => f p + g p) = zsum l f + zsum l g.
Proof. induction l as [|l IH]; cbn [zsum]; [reflexivity|]. rewrite IH. ring. Qed.
Lemma zsum_sub l f g : zsum l (fun p => f p - g p) = zsum l f - zsum l g.
Proof. induction l as [|l IH]; cbn [zsum]; [reflexivity|]. rewrite IH. ring. Qed.
Lemma zsum_scale l c f : zsum l (fun p => c * f p) = c * zsum l f.
Proof. induction l as [|l IH]; cbn [zsum]; [ring|]. rewrite IH. ring. Qed.
Lemma zsum_zero l : zsum l (fun _ => 0) = 0.
Proof. induction l as [|l IH]; cbn [zsum]; lia. Qed.


Lemma zsum_shift n f : zsum (S n) f = f O + zsum n (fun j => f (S j)).
Proof. induction n as [|n IH]; [cbn; ring|]. change (zsum (S (S n)) f) with (zsum (S n) f + f (S n)).
  rewrite IH. cbn [zsum]. ring. Qed.
Lemma zsum_opp l f : zsum l (fun p => - f p) = - zsum l f.
Proof. induction l as [|l IH]; cbn [zsum]; [reflexivity|]. rewrite IH. ring. Qed.
Lemma zsum_abs_le l f g : (forall p, (p < l)%nat -> Z.abs (f p) <= g p) -> Z.abs (zsum l f) <= zsum l g.
Proof. induction l as [|l IH]; intro H; cbn [zsum]; [reflexivity|].
  pose proof (IH ltac:(intros; apply H; lia)). pose proof (H l ltac:(lia)).
  pose proof (Z.abs_triangle (zsum l f) (f l)). lia. Qed.
