(* Model/Bootstrap.v — lwe-bootstrapping-functions(-fft).cpp: CMux step, blind rotation (loop over i
   skipping zero exponents; the ping-pong buffers are a state pair whose live half is the value passed
   along), blind-rotate-and-extract with the barb = 0 special case, bootstrapping without and with the
   final key switch.  The FFT and coefficient-domain variants have the same structure; they differ only
   in where the ring products are computed. *)
From Coq Require Import ZArith List Bool.
From TV Require Import Base.Int32 Base.Sums Ring.NegaRing Model.Numeric Model.Lwe Model.Poly Model.Tlwe Model.Decomp
  Model.Tgsw Model.KeySwitch.
Import ListNotations.
Local Open Scope Z_scope.

(* tfhe_MuxRotate(_FFT):  result = (X^barai - 1) * acc;  result = extprod(bki, result);  result += acc *)
Definition mux_rotate (l:nat) (B:Z) (bki : tgsw) (barai : Z) (acc : tsample) : option tsample :=
  match tlwe_mulByXaiMinusOne barai acc with
  | Some t => Some (tlwe_add (extprod l B bki t) acc)
  | None => None
  end.

Definition br_step (l:nat) (B:Z) (oacc : option tsample) (bi : tgsw * Z) : option tsample :=
  match oacc with
  | None => None
  | Some acc => if snd bi =? 0 then Some acc else mux_rotate l B (fst bi) (snd bi) acc
  end.
Definition blind_rotate (l:nat) (B:Z) (bk : list tgsw) (bara : list Z) (acc : tsample) : option tsample :=
  fold_left (br_step l B) (combine bk bara) (Some acc).

(* testvectbis = barb != 0 ? X^(2N-barb) * v : v ;  acc = trivial(testvectbis) ; rotate ; extract index 0 *)
Definition rotated_testvect (v : list Z) (barb : Z) : option (list Z) :=
  if barb =? 0 then Some v else mulByXai (2 * Z.of_nat (length v) - barb) v.
Definition blind_rotate_extract (l:nat) (B:Z) (k:nat) (v : list Z) (bk : list tgsw) (barb : Z) (bara : list Z) : option sample :=
  match rotated_testvect v barb with
  | None => None
  | Some tv =>
    match blind_rotate l B bk bara (tlwe_trivial k tv) with
    | Some acc => tlwe_extract acc 0
    | None => None
    end
  end.

(* the scratch array of rounded mask coefficients: [alloc] cells, filled for every i < n *)
Definition bara_fill (alloc : nat) (N2 : Z) (a : list Z) : option (list Z) :=
  if (length a <=? alloc)%nat then Some (map (fun ai => modSwitchFrom ai N2) a) else None.

(* tfhe_bootstrap_woKS(_FFT); [alloc_n = true] is the repaired allocation (n cells), false the old one (N cells) *)
Definition bootstrap_woKS (alloc_n : bool) (l:nat) (B:Z) (k N:nat) (bk : list tgsw) (mu : Z) (x : sample) : option sample :=
  let N2 := 2 * Z.of_nat N in
  let barb := modSwitchFrom (snd x) N2 in
  match bara_fill (if alloc_n then length (fst x) else N) N2 (fst x) with
  | None => None
  | Some bara => blind_rotate_extract l B k (repeat mu N) bk barb bara
  end.

(* tfhe_bootstrap(_FFT) = key switch of the above *)
Definition bootstrap (l:nat) (B:Z) (k N:nat) (bk : list tgsw) (ksraw : list sample) (t:nat) (b:Z) (nout:nat) (mu:Z) (x:sample) : option sample :=
  match bootstrap_woKS true l B k N bk mu x with
  | Some u => keyswitch ksraw t b nout u
  | None => None
  end.

(* ---- specification level ---- *)
(* the rotation exponent p = barb - sum_i bara_i s_i  (mod 2N) *)
Definition dotz (a s : list Z) : Z := fold_left (fun acc xy => acc + fst xy * snd xy) (combine a s) 0.
Definition rot_exponent (N:nat) (s : list Z) (x : sample) : Z :=
  let N2 := 2 * Z.of_nat N in
  (modSwitchFrom (snd x) N2 - dotz (map (fun ai => modSwitchFrom ai N2) (fst x)) s) mod N2.
(* anticyclic extension of v:  v_p for p < N, - v_(p-N) for N <= p < 2N *)
Definition anti (v : list Z) (p : Z) : Z :=
  let N := Z.of_nat (length v) in
  if p <? N then nth (Z.to_nat p) v 0 else w32 (- nth (Z.to_nat (p - N)) v 0).
(* the sign a constant test vector gives *)
Definition boot_sign (N:nat) (s : list Z) (x : sample) : Z :=
  if rot_exponent N s x <? Z.of_nat N then 1 else -1.

(* ---- entry points ---- *)
Definition bk_of_flat (n k N l : nat) (v : list Z) : list tgsw :=
  map (fun g => rows_of_flat k N (S k * l) g) (Tlwe.chunks n ((S k * l) * (S k * N)) v).

(* args: opcode k N l B n  bk (n * (k+1)l * (k+1)N)  then
   0: blind rotate: bara(n) acc((k+1)N)             -> acc
   1: blind rotate and extract: barb bara(n) v(N)   -> LWE sample (kN + 1)
   2: bootstrap without key switch: mu a(n) b       -> LWE sample (kN + 1)
   3: one CMux step with bk[0]: barai acc           -> acc *)
Definition entry_boot (v : list Z) : list Z :=
  match v with
  | opc :: k :: nn :: l :: B :: n :: r =>
    let k := Z.to_nat k in let N := Z.to_nat nn in let l := Z.to_nat l in let n := Z.to_nat n in
    let bsz := (n * ((S k * l) * (S k * N)))%nat in
    let bk := bk_of_flat n k N l (firstn bsz r) in
    let rest := skipn bsz r in
    if opc =? 0 then otsample (blind_rotate l B bk (firstn n rest) (Tlwe.chunks (S k) N (skipn n rest)))
    else if opc =? 1 then
      osample (blind_rotate_extract l B k (firstn N (skipn (S n) rest)) bk (nth 0 rest 0) (firstn n (skipn 1 rest)))
    else if opc =? 2 then
      osample (bootstrap_woKS true l B k N bk (nth 0 rest 0) (firstn n (skipn 1 rest), nth (S n) rest 0))
    else if opc =? 3 then
      otsample (mux_rotate l B (hd [] bk) (nth 0 rest 0) (Tlwe.chunks (S k) N (skipn 1 rest)))
    else []
  | _ => []
  end.

(* args: N n  s(n) a(n) b  ->  barb, p, sign, anti-index check: cheap prediction at full size *)
Definition entry_bootp (v : list Z) : list Z :=
  match v with
  | nn :: n :: r =>
    let N := Z.to_nat nn in let n := Z.to_nat n in
    let s := firstn n r in let a := firstn n (skipn n r) in let b := nth (n + n) r 0 in
    [modSwitchFrom b (2 * nn); rot_exponent N s (a, b); boot_sign N s (a, b)]
  | _ => []
  end.
