(* Model/Numeric.v — numeric-functions.cpp: modulus switch, phase approximation, torus<->real.
   Implementation-level: the 64-bit unsigned arithmetic of the C code written with explicit mod 2^64. *)
From Coq Require Import ZArith List Bool.
From TV Require Import Base.Int32.
Import ListNotations.
Local Open Scope Z_scope.

(* uint64_t interv = ((UINT64_C(1)<<63)/Msize)*2;   Msize : int32_t converted to uint64_t *)
Definition interv (M:Z) : Z := u64 ((p63 / u64 M) * 2).

(* modSwitchFromTorus32: phase64 = (uint64_t(phase)<<32) + half_interval; return phase64/interv *)
Definition phase64 (phase M : Z) : Z := u64 (u32 phase * p32 + interv M / 2).
Definition modSwitchFrom (phase M : Z) : Z := w32 (phase64 phase M / interv M).

(* approxPhase: phase64 -= phase64 % interv; return int32_t(phase64>>32) *)
Definition approxPhase (phase M : Z) : Z :=
  let p := phase64 phase M in w32 ((p - p mod interv M) / p32).

(* modSwitchToTorus32: phase64 = mu*interv; return phase64>>32 *)
Definition modSwitchTo (mu M : Z) : Z := w32 (u64 (u64 mu * interv M) / p32).

(* doubles as exact dyadic rationals num / 2^k  (k >= 0).
   dtot32 d = int32_t(int64_t((d - int64_t(d)) * 2^32)); conversions truncate toward zero. *)
Definition dtot32 (num : Z) (k : Z) : Z :=
  let den := pow2 k in
  let ip := Z.quot num den in
  let frac := num - ip * den in
  w32 (Z.quot (frac * p32) den).
(* t32tod x = double(x) / 2^32 : exactly x / 2^32 *)
Definition t32tod_num (x:Z) : Z := x.
Definition t32tod_k : Z := 32.

(* entry points for the correspondence drivers: list Z -> list Z *)
Definition entry_msf (a : list Z) : list Z :=
  match a with [ph; M] => [modSwitchFrom ph M] | _ => [] end.
Definition entry_aph (a : list Z) : list Z :=
  match a with [ph; M] => [approxPhase ph M] | _ => [] end.
Definition entry_mst (a : list Z) : list Z :=
  match a with [mu; M] => [modSwitchTo mu M] | _ => [] end.
Definition entry_dtot (a : list Z) : list Z :=
  match a with [num; k] => [dtot32 num k] | _ => [] end.
Definition entry_t32tod (a : list Z) : list Z :=
  match a with [x] => [t32tod_num x; t32tod_k] | _ => [] end.
