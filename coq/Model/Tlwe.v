(* Model/Tlwe.v — tlwe-functions.cpp (linear operations, phase) and lwe.cpp (sample and key extraction). *)
From Coq Require Import ZArith List Bool.
From TV Require Import Base.Int32 Base.Sums Ring.NegaRing Model.Lwe Model.Poly.
Import ListNotations.
Local Open Scope Z_scope.

(* a TLWE sample is the list of its k+1 polynomials a[0..k-1], b = a[k] *)
Definition tsample : Type := list (list Z).

Definition map2 {A B C} (f : A -> B -> C) (u : list A) (v : list B) : list C :=
  map (fun xy => f (fst xy) (snd xy)) (combine u v).

Definition tlwe_add (r s : tsample) : tsample := map2 poly_add r s.
Definition tlwe_sub (r s : tsample) : tsample := map2 poly_sub r s.
Definition tlwe_addmul (r : tsample) (p:Z) (s : tsample) : tsample := map2 (fun a b => poly_addmulz a p b) r s.
Definition tlwe_submul (r : tsample) (p:Z) (s : tsample) : tsample := map2 (fun a b => poly_submulz a p b) r s.
Definition tlwe_mulByXaiMinusOne (a:Z) (s : tsample) : option tsample := all_some (map (mulByXaiMinusOne a) s).
Definition tlwe_clear (k N : nat) : tsample := repeat (repeat 0 N) (S k).
Definition tlwe_trivial (k : nat) (mu : list Z) : tsample := repeat (repeat 0 (length mu)) k ++ [mu].

(* tLweCopy, tLweAddTTo (coefficient 0 of component pos += x), tLweAddRTTo (component pos += p * x, p an integer polynomial) *)
Definition tlwe_copy (c : tsample) : tsample := c.
Fixpoint upd_at {A} (n:nat) (f : A -> A) (l : list A) : list A :=
  match n, l with
  | _, [] => []
  | O, x :: r => f x :: r
  | S n', x :: r => x :: upd_at n' f r
  end.
Definition bump0 (x : Z) (a : list Z) : list Z := match a with y :: r => w32 (y + x) :: r | [] => [] end.
Definition tlwe_add_t (c : tsample) (pos : nat) (x : Z) : tsample := upd_at pos (bump0 x) c.
Definition tlwe_add_rt (c : tsample) (pos : nat) (p : list Z) (x : Z) : tsample :=
  upd_at pos (fun a => zipw (fun y q => y + w32 (q * x)) a p) c.

(* tLwePhase: phase = b; for i<k: phase -= key_i * a_i  (exact ring arithmetic) *)
Fixpoint tlwe_phase_aux (key : list (list Z)) (mask : list (list Z)) (acc : list Z) : list Z :=
  match key, mask with
  | s :: key', a :: mask' => tlwe_phase_aux key' mask' (poly_submul acc s a)
  | _, _ => acc
  end.
Definition tlwe_phase (key : list (list Z)) (c : tsample) : list Z :=
  tlwe_phase_aux key (removelast c) (map w32 (last c [])).

(* tLweExtractLweSampleIndex (lwe.cpp:41-54), checked accesses *)
Definition extract_poly (a : list Z) (index : Z) : option (list Z) :=
  let N := Z.of_nat (length a) in
  build (length a) (fun j => if j <=? index then getz a (index - j) else oneg (getz a (N + index - j))).
Definition concat_opt (l : list (option (list Z))) : option (list Z) :=
  match all_some l with Some ls => Some (concat ls) | None => None end.
Definition tlwe_extract (c : tsample) (index : Z) : option sample :=
  match concat_opt (map (fun a => extract_poly a index) (removelast c)), getz (last c []) index with
  | Some a, Some b => Some (a, b)
  | _, _ => None
  end.
Definition tlwe_extract_key (key : list (list Z)) : list Z := concat key.

(* specification level *)
Definition ext_spec (N:nat) (a : nat -> Z) (j : nat) : list Z :=
  map (fun m => if (m <=? j)%nat then a (j - m)%nat else - a (N + j - m)%nat) (seq 0 N).

(* specification-level extraction *)
Definition tlwe_extract_spec (N:nat) (c : tsample) (j:nat) : sample :=
  (concat (map (fun a => ext_spec N (ofl a) j) (removelast c)), nth j (last c []) 0).
(* the executable form of the specification: every coefficient wrapped to int32 *)
Definition tlwe_extract_exec (N:nat) (c : tsample) (j:nat) : sample :=
  let e := tlwe_extract_spec N c j in (map w32 (fst e), w32 (snd e)).

(* ---- entry points ---- *)
Fixpoint chunks (fuel:nat) (n:nat) (v:list Z) : list (list Z) :=
  match fuel with
  | O => []
  | S f => firstn n v :: chunks f n (skipn n v)
  end.
Definition osample (o : option sample) : list Z := match o with Some (a, b) => a ++ [b] | None => [-1; -1; -1] end.
Definition otsample (o : option tsample) : list Z := match o with Some s => concat s | None => [-1; -1; -1] end.
(* args: opcode k N p  c1((k+1)N) c2((k+1)N) : 0 add 1 sub 2 addmul 3 submul 4 (X^p-1)*c1 5 extract index p of c1
         6 phase of c1 under key (key = first k polys of c2) 7 extracted key of (k polys of c2)
         20 clear 21 copy c1 22 trivial sample of the body of c2 23/24 tLweAddTTo at the body / at mask 0 with x = p
         25/26 tLweAddRTTo at the body / at mask 0 with the first polynomial of c2 as integer polynomial and x = p *)
Definition entry_tlwe (v : list Z) : list Z :=
  match v with
  | opc :: k :: n :: p :: r =>
    let k := Z.to_nat k in let n := Z.to_nat n in
    let c1 := chunks (S k) n r in
    let c2 := chunks (S k) n (skipn (S k * n) r) in
    if opc =? 0 then concat (tlwe_add c1 c2) else if opc =? 1 then concat (tlwe_sub c1 c2)
    else if opc =? 2 then concat (tlwe_addmul c1 p c2) else if opc =? 3 then concat (tlwe_submul c1 p c2)
    else if opc =? 4 then otsample (tlwe_mulByXaiMinusOne p c1)
    else if opc =? 5 then osample (tlwe_extract c1 p)
    else if opc =? 15 then (let e := tlwe_extract_exec n c1 (Z.to_nat p) in fst e ++ [snd e])
    else if opc =? 6 then tlwe_phase (firstn k c2) c1
    else if opc =? 7 then tlwe_extract_key (firstn k c2)
    else if opc =? 20 then concat (tlwe_clear k n)
    else if opc =? 21 then concat (tlwe_copy c1)
    else if opc =? 22 then concat (tlwe_trivial k (last c2 []))
    else if opc =? 23 then concat (tlwe_add_t c1 k p)
    else if opc =? 24 then concat (tlwe_add_t c1 0 p)
    else if opc =? 25 then concat (tlwe_add_rt c1 k (hd [] c2) p)
    else if opc =? 26 then concat (tlwe_add_rt c1 0 (hd [] c2) p)
    else []
  | _ => []
  end.
