(* Model/Lwe.v — lwe-functions.cpp: LWE samples, phase, linear operations (C loops and the
   block structure of the inline-assembly subtraction). *)
From Coq Require Import ZArith List Bool.
From TV Require Import Base.Int32.
Import ListNotations.
Local Open Scope Z_scope.

Definition sample : Type := (list Z * Z)%type.       (* (a, b) ; current_variance is modelled apart *)

(* element-wise loops  r[i] = (int32) f(r[i], s[i]) *)
Definition zipw (f : Z -> Z -> Z) (r s : list Z) : list Z :=
  map (fun xy => w32 (f (fst xy) (snd xy))) (combine r s).

(* lwePhase: axs += a[i]*k[i] in wrapping int32, then b - axs *)
Definition dot_impl (a k : list Z) : Z :=
  fold_left (fun axs xy => w32 (axs + w32 (fst xy * snd xy))) (combine a k) 0.
Definition lwe_phase (key : list Z) (c : sample) : Z := w32 (snd c - dot_impl (fst c) key).

Definition lwe_clear (n:nat) : sample := (repeat 0 n, 0).
Definition lwe_copy (c : sample) : sample := c.
Definition lwe_negate (c : sample) : sample := (map (fun x => w32 (- x)) (fst c), w32 (- snd c)).
Definition lwe_trivial (n:nat) (mu:Z) : sample := (repeat 0 n, mu).
Definition lwe_add (r s : sample) : sample := (zipw Z.add (fst r) (fst s), w32 (snd r + snd s)).
Definition lwe_sub (r s : sample) : sample := (zipw Z.sub (fst r) (fst s), w32 (snd r - snd s)).
Definition lwe_addmul (r : sample) (p:Z) (s : sample) : sample :=
  (zipw (fun x y => x + w32 (p * y)) (fst r) (fst s), w32 (snd r + w32 (p * snd s))).
Definition lwe_submul (r : sample) (p:Z) (s : sample) : sample :=
  (zipw (fun x y => x - w32 (p * y)) (fst r) (fst s), w32 (snd r - w32 (p * snd s))).

(* --- intVecSubTo_avx (lwe-functions.cpp:149-200): n0 = n - n%8 handled 8 at a time, then blocks of
   4, 2, 1.  [fixed = false] is the loop before the repair (a do-while that runs once even when n0 = 0).
   Blocks are executed over arrays of exactly the allocated length: running past the end is None. --- *)
Definition tail_sched (rem : nat) : list nat :=
  let r1 := if (4 <=? rem)%nat then (rem - 4)%nat else rem in
  let r2 := if (2 <=? r1)%nat then (r1 - 2)%nat else r1 in
  (if (4 <=? rem)%nat then [4%nat] else []) ++ (if (2 <=? r1)%nat then [2%nat] else []) ++
  (if (1 <=? r2)%nat then [1%nat] else []).
Definition sched (fixed : bool) (n : nat) : list nat :=
  let n8 := (n / 8)%nat in
  let iters := if fixed then n8 else Nat.max 1 n8 in
  repeat 8%nat iters ++ tail_sched (n - 8 * n8)%nat.

Fixpoint exec_blocks (f : Z -> Z -> Z) (ws : list nat) (r a : list Z) : option (list Z) :=
  match ws with
  | [] => Some r                                   (* cells not reached stay as they are *)
  | w :: ws' =>
    if ((w <=? length r) && (w <=? length a))%nat then
      match exec_blocks f ws' (skipn w r) (skipn w a) with
      | Some rest => Some (zipw f (firstn w r) (firstn w a) ++ rest)
      | None => None
      end
    else None
  end.
Definition vsub_asm (fixed : bool) (r a : list Z) : option (list Z) :=
  exec_blocks Z.sub (sched fixed (length r)) r a.
Definition lwe_sub_asm (fixed:bool) (r s : sample) : option sample :=
  match vsub_asm fixed (fst r) (fst s) with
  | Some a' => Some (a', w32 (snd r - snd s))
  | None => None
  end.

(* variance annotation: result += (p*p) * var with p*p computed in int32 *)
Definition var_coeff (p:Z) : Z := w32 (p * p).

(* --- entry points --- *)
Definition split_at (n:nat) (v:list Z) : list Z * list Z := (firstn n v, skipn n v).
(* args: n key(n) a(n) b -> phase *)
Definition entry_lwephase (v : list Z) : list Z :=
  match v with
  | n :: r => let n := Z.to_nat n in
    let '(key, r1) := split_at n r in let '(a, r2) := split_at n r1 in
    match r2 with [b] => [lwe_phase key (a, b)] | _ => [] end
  | _ => []
  end.
(* args: opcode n p a1(n) b1 a2(n) b2 -> a(n) b      opcode: 0 add 1 sub 2 addmul 3 submul 4 negate(c1) 5 clear 6 trivial(mu=p) 7 copy(c1) 8 sub via the block structure *)
Definition entry_lwelin (v : list Z) : list Z :=
  match v with
  | opc :: n :: p :: r => let n := Z.to_nat n in
    let '(a1, r1) := split_at n r in
    match r1 with
    | b1 :: r2 =>
      let '(a2, r3) := split_at n r2 in
      match r3 with
      | [b2] =>
        let c1 := (a1, b1) in let c2 := (a2, b2) in
        let res :=
          if opc =? 0 then Some (lwe_add c1 c2) else if opc =? 1 then Some (lwe_sub c1 c2)
          else if opc =? 2 then Some (lwe_addmul c1 p c2) else if opc =? 3 then Some (lwe_submul c1 p c2)
          else if opc =? 4 then Some (lwe_negate c1) else if opc =? 5 then Some (lwe_clear n)
          else if opc =? 6 then Some (lwe_trivial n p) else if opc =? 7 then Some (lwe_copy c1)
          else if opc =? 8 then lwe_sub_asm true c1 c2 else if opc =? 9 then lwe_sub_asm false c1 c2 else None in
        match res with Some c => fst c ++ [snd c] | None => [-1; -1; -1] end
      | _ => []
      end
    | _ => []
    end
  | _ => []
  end.
