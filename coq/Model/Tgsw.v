(* Model/Tgsw.v — tgsw-functions.cpp / tgsw-fft-operations.cpp: TGSW samples as the list of their
   (k+1)*l TLWE rows (row p = bloc*l + i), gadget additions, the external product in the accumulation
   order of tGswExternMulToTLwe / tGswFFTExternMulToTLwe (which differ only in where the ring products
   are computed), and tGswSymDecrypt. *)
From Coq Require Import ZArith List Bool.
From TV Require Import Base.Int32 Base.Sums Ring.NegaRing Model.Numeric Model.Lwe Model.Poly Model.Tlwe Model.Decomp.
Import ListNotations.
Local Open Scope Z_scope.

Definition tgsw : Type := list tsample.

Fixpoint upd_nth {A} (n:nat) (f : A -> A) (l : list A) : list A :=
  match n, l with
  | _, [] => []
  | O, x :: r => f x :: r
  | S n', x :: r => x :: upd_nth n' f r
  end.

(* h[i] as the Torus32 the parameter object stores *)
Definition h32 (B:Z) (i:nat) : Z := w32 (hpow B i).

(* tGswAddMuH: row (bloc,i), component bloc:  target[j] += mu[j] * h[i]   (int32 arithmetic) *)
Definition add_mu_h (l:nat) (B:Z) (mu : list Z) (C : tgsw) : tgsw :=
  map (fun pr => let p := fst pr in
         upd_nth (p / l)%nat (fun a => zipw (fun x m => x + w32 (m * h32 B (p mod l)%nat)) a mu) (snd pr))
      (combine (seq 0 (length C)) C).
(* tGswAddMuIntH / tGswAddH: only coefficient 0 *)
Definition add_muint_h (l:nat) (B:Z) (m : Z) (C : tgsw) : tgsw :=
  map (fun pr => let p := fst pr in
         upd_nth (p / l)%nat (fun a => match a with x :: r => w32 (x + w32 (m * h32 B (p mod l)%nat)) :: r | [] => [] end) (snd pr))
      (combine (seq 0 (length C)) C).
Definition tgsw_clear (k l N : nat) : tgsw := repeat (tlwe_clear k N) (S k * l).
Definition tgsw_trivial (k l N : nat) (B:Z) (mu : list Z) : tgsw := add_mu_h l B mu (tgsw_clear k l N).

(* tLweAddMulRTo: every component  r_i += p * s_i  in the ring *)
Definition tlwe_addmulR (r : tsample) (p : list Z) (s : tsample) : tsample :=
  map2 (fun ri si => poly_addmul ri p si) r s.

(* the (k+1)*l decomposition polynomials of a TLWE sample (tGswTLweDecompH) *)
Definition tlwe_decomp (l:nat) (B:Z) (c : tsample) : list (list Z) := fst (tlwe_decompH l B c).

(* external product: accum <- sum_p dec_p(accum) * row_p *)
Definition extprod (l:nat) (B:Z) (C : tgsw) (acc : tsample) : tsample :=
  fold_left (fun r dp => tlwe_addmulR r (fst dp) (snd dp)) (combine (tlwe_decomp l B acc) C)
            (tlwe_clear (length acc - 1) (length (hd [] acc))).

(* tGswSymDecrypt: decomposition of the indicator 1/Msize (only coefficient 0 of each digit polynomial is
   non-zero), sum_i dec_i * phase(row (k,i)), modulus switch of every coefficient *)
Definition tgsw_decrypt (l:nat) (B:Z) (key : list (list Z)) (C : tgsw) (Msize : Z) : list Z :=
  let k := length key in
  let N := length (hd [] key) in
  let indic := modSwitchTo 1 Msize in
  let dec := fst (decompH_scalar l B (indic :: repeat 0 (N - 1))) in
  let rows := firstn l (skipn (k * l) C) in
  let tv := fold_left (fun t dr => poly_addmul t (fst dr) (tlwe_phase key (snd dr))) (combine dec rows) (repeat 0 N) in
  map (fun c => modSwitchFrom c Msize) tv.

(* ---- entry points ---- *)
Definition rows_of_flat (k N nrows : nat) (v : list Z) : tgsw :=
  map (fun r => Tlwe.chunks (S k) N r) (Tlwe.chunks nrows (S k * N) v).

(* args: opcode k N l B  then C ((k+1)*l rows of (k+1)*N) then acc ((k+1)*N)  [then extra]
   0: external product   1: trivial TGSW of the polynomial given in place of C (N coeffs), then nothing
   2: add_mu_h mu(N) to C: args C then mu       3: add_muint_h m: args C then [m]
   4: decrypt: args C, key (k*N), Msize *)
Definition entry_tgsw (v : list Z) : list Z :=
  match v with
  | opc :: k :: n :: l :: B :: r =>
    let k := Z.to_nat k in let n := Z.to_nat n in let l := Z.to_nat l in
    let nrows := (S k * l)%nat in
    let csz := (nrows * (S k * n))%nat in
    if opc =? 1 then concat (map (@concat Z) (tgsw_trivial k l n B (firstn n r)))
    else
    let C := rows_of_flat k n nrows (firstn csz r) in
    let rest := skipn csz r in
    if opc =? 0 then concat (extprod l B C (Tlwe.chunks (S k) n rest))
    else if opc =? 2 then concat (map (@concat Z) (add_mu_h l B (firstn n rest) C))
    else if opc =? 3 then concat (map (@concat Z) (add_muint_h l B (nth 0 rest 0) C))
    else if opc =? 4 then tgsw_decrypt l B (Tlwe.chunks k n (firstn (k * n) rest)) C (nth (k * n) rest 0)
    else []
  | _ => []
  end.
