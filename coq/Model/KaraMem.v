(* Model/KaraMem.v — the workspace arithmetic of Karatsuba_aux (multiplication.cpp:88-122): at a level of size s with
   h = s/2 > 4 the routine carves Atemp (h ints), Btemp (h ints) and Rtemp (s ints, of which s-1 are used) from the
   caller's byte buffer and hands the rest to its three recursive calls, which all start at the same place.  The callers
   allocate 16*N bytes and a result array of 2N-1 words. *)
From Coq Require Import ZArith List Bool.
Import ListNotations.
Local Open Scope Z_scope.

(* bytes of buf a call of the given size may touch; None = out of fuel (never for fuel > log2 size) *)
Fixpoint kara_use (fuel : nat) (size : Z) : option Z :=
  match fuel with
  | O => None
  | S f => let h := size / 2 in
           if h <=? 4 then Some 0
           else match kara_use f h with Some u => Some (4 * h + 4 * h + 4 * size + u) | None => None end
  end.
(* one past the highest byte of buf that is actually written (the last slot of the deepest Rtemp is only padding) *)
Fixpoint kara_hw (fuel : nat) (size : Z) : option Z :=
  match fuel with
  | O => None
  | S f => let h := size / 2 in
           if h <=? 4 then Some 0
           else match kara_hw f h with
                | Some u => Some (4 * h + 4 * h + 4 * size + (if u =? 0 then -4 else u))
                | None => None end
  end.
(* the index ranges of one level, all within the arrays of that level:
   writes R[0..2h-2], R[size..size+2h-2], R[size-1], R[h..h+size-2]  (R has 2*size-1 slots);
   Rtemp[0..2h-2] and Rtemp[i], i < size-1 (size slots); Atemp/Btemp[i], i < h.
   Every slot read by the two combination loops was written before iff the level's size is even. *)
Definition level_in_range (size : Z) : bool :=
  let h := size / 2 in
  (2 * h - 2 <? 2 * size - 1) && (size + 2 * h - 2 <? 2 * size - 1) && (h + size - 2 <? 2 * size - 1) && (2 * h - 2 <? size).
Definition level_initialised (size : Z) : bool := size - 2 <=? 2 * (size / 2) - 2.
Fixpoint kara_ok (fuel : nat) (size : Z) : option bool :=
  match fuel with
  | O => None
  | S f => let h := size / 2 in
           if h <=? 4 then Some true
           else match kara_ok f h with Some b => Some (level_in_range size && level_initialised size && b) | None => None end
  end.

(* args: size -> use, high-water mark, ok (1/0), or -1 when out of fuel (64 levels) *)
Definition entry_karamem (v : list Z) : list Z :=
  match v with
  | size :: _ =>
    match kara_use 64 size, kara_hw 64 size, kara_ok 64 size with
    | Some u, Some w, Some b => [u; w; if b then 1 else 0]
    | _, _, _ => [-1]
    end
  | _ => []
  end.
