(* Model/Encrypt.v — key generation, encryption and decryption as functions of an explicit stream of
   draws (numeric-functions.cpp:22-27, lwe-functions.cpp:21-91, tlwe-functions.cpp:15-99,
   tgsw-functions.cpp:129-242, lwe-keyswitch-functions.cpp:163-215, lwe-bootstrapping-functions.cpp:185-217,
   tfhe_gate_bootstrapping.cpp:97-165).  The C++ engine and distributions are not modelled: a draw is
   DU w (one word of uniformTorus32_distrib), DB b (one value of uniform_int_distribution(0,1)) or
   DG num k (one value num/2^k of normal_distribution(0,sigma), an exact binary64).  A function consumes
   the draws in the order of the C++ calls and fails (None) on a draw of the wrong kind or a short stream. *)
From Coq Require Import ZArith List Bool.
From TV Require Import Base.Int32 Ring.NegaRing Model.Numeric Model.Lwe Model.Poly Model.Tlwe Model.Decomp Model.Tgsw Model.KeySwitch Model.Gates.
Import ListNotations.
Local Open Scope Z_scope.

Inductive draw := DU (w : Z) | DB (b : Z) | DG (num k : Z).

Fixpoint take_u (n : nat) (ds : list draw) : option (list Z * list draw) :=
  match n with
  | O => Some ([], ds)
  | S n' => match ds with
            | DU w :: r => match take_u n' r with Some (ws, r') => Some (w :: ws, r') | None => None end
            | _ => None
            end
  end.
Fixpoint take_b (n : nat) (ds : list draw) : option (list Z * list draw) :=
  match n with
  | O => Some ([], ds)
  | S n' => match ds with
            | DB b :: r => match take_b n' r with Some (bs, r') => Some (b :: bs, r') | None => None end
            | _ => None
            end
  end.
Fixpoint take_g (n : nat) (ds : list draw) : option (list (Z * Z) * list draw) :=
  match n with
  | O => Some ([], ds)
  | S n' => match ds with
            | DG a k :: r => match take_g n' r with Some (gs, r') => Some ((a, k) :: gs, r') | None => None end
            | _ => None
            end
  end.

(* gaussian32(message, sigma) given its draw *)
Definition gaussian32 (message : Z) (g : Z * Z) : Z := w32 (message + dtot32 (fst g) (snd g)).

(* ---- LWE ---- *)
Definition lwe_keygen (n : nat) (ds : list draw) : option (list Z * list draw) := take_b n ds.
Definition lwe_sym_encrypt (key : list Z) (message : Z) (ds : list draw) : option (sample * list draw) :=
  match take_g 1 ds with
  | Some ([g], r) =>
    match take_u (length key) r with
    | Some (mask, r') => Some (lwe_encrypt_with key (gaussian32 message g) mask, r')
    | None => None
    end
  | _ => None
  end.
(* lweSymEncryptWithExternalNoise: the noise is an argument (a double), only the mask is drawn *)
Definition lwe_sym_encrypt_ext (key : list Z) (message : Z) (noise : Z * Z) (ds : list draw) : option (sample * list draw) :=
  match take_u (length key) ds with
  | Some (mask, r') => Some (lwe_encrypt_with key (w32 (message + dtot32 (fst noise) (snd noise))) mask, r')
  | None => None
  end.
Definition lwe_sym_decrypt (key : list Z) (c : sample) (M : Z) : Z := approxPhase (lwe_phase key c) M.
Definition boots_sym_encrypt (key : list Z) (bit : Z) (ds : list draw) : option (sample * list draw) :=
  lwe_sym_encrypt key (encode_bit bit) ds.

(* ---- TLWE ---- *)
Fixpoint tlwe_masks (key : list (list Z)) (N : nat) (b : list Z) (ds : list draw) : option (list (list Z) * list Z * list draw) :=
  match key with
  | [] => Some ([], b, ds)
  | s :: key' =>
    match take_u N ds with
    | Some (a, r) =>
      match tlwe_masks key' N (poly_addmul b s a) r with
      | Some (ms, b', r') => Some (a :: ms, b', r')
      | None => None
      end
    | None => None
    end
  end.
Definition tlwe_keygen (k N : nat) (ds : list draw) : option (list (list Z) * list draw) :=
  match take_b (k * N) ds with
  | Some (bs, r) => Some (Tlwe.chunks k N bs, r)
  | None => None
  end.
Definition tlwe_encrypt_zero (key : list (list Z)) (N : nat) (ds : list draw) : option (tsample * list draw) :=
  match take_g N ds with
  | Some (gs, r) =>
    match tlwe_masks key N (map (gaussian32 0) gs) r with
    | Some (ms, b, r') => Some (ms ++ [b], r')
    | None => None
    end
  | None => None
  end.
Definition add_to_b (c : tsample) (m : list Z) : tsample := removelast c ++ [poly_add (last c []) m].
Definition tlwe_sym_encrypt (key : list (list Z)) (N : nat) (message : list Z) (ds : list draw) : option (tsample * list draw) :=
  match tlwe_encrypt_zero key N ds with
  | Some (c, r) => Some (add_to_b c message, r)
  | None => None
  end.
Definition tlwe_sym_encryptT (key : list (list Z)) (N : nat) (message : Z) (ds : list draw) : option (tsample * list draw) :=
  tlwe_sym_encrypt key N (message :: repeat 0 (N - 1)) ds.
Definition tlwe_sym_decrypt (key : list (list Z)) (c : tsample) (M : Z) : list Z :=
  map (fun p => approxPhase p M) (tlwe_phase key c).
Definition tlwe_sym_decryptT (key : list (list Z)) (c : tsample) (M : Z) : Z := approxPhase (nth 0 (tlwe_phase key c) 0) M.

(* ---- TGSW ---- *)
Fixpoint tgsw_encrypt_zero (rows : nat) (key : list (list Z)) (N : nat) (ds : list draw) : option (tgsw * list draw) :=
  match rows with
  | O => Some ([], ds)
  | S rows' =>
    match tlwe_encrypt_zero key N ds with
    | Some (c, r) => match tgsw_encrypt_zero rows' key N r with Some (C, r') => Some (c :: C, r') | None => None end
    | None => None
    end
  end.
Definition tgsw_sym_encrypt_int (l : nat) (B : Z) (key : list (list Z)) (N : nat) (m : Z) (ds : list draw) : option (tgsw * list draw) :=
  match tgsw_encrypt_zero (S (length key) * l) key N ds with
  | Some (C, r) => Some (add_muint_h l B m C, r)
  | None => None
  end.
Definition tgsw_sym_encrypt (l : nat) (B : Z) (key : list (list Z)) (N : nat) (mu : list Z) (ds : list draw) : option (tgsw * list draw) :=
  match tgsw_encrypt_zero (S (length key) * l) key N ds with
  | Some (C, r) => Some (add_mu_h l B mu C, r)
  | None => None
  end.

(* ---- binary64 arithmetic on dyadic values m * 2^e (for the recentring of the key-switching noises) ---- *)
Definition dy : Type := (Z * Z)%type.                     (* (m, e) = m * 2^e *)
Definition round_to (bits : Z) (m : Z) : Z * Z :=          (* |m| rounded to [bits] significant bits, ties to even: (m', shift) *)
  let a := Z.abs m in
  let len := if a =? 0 then 0 else Z.log2 a + 1 in
  if len <=? bits then (m, 0)
  else
    let sh := len - bits in
    let q := Z.shiftr a sh in let r := a - Z.shiftl q sh in let half := Z.shiftl 1 (sh - 1) in
    let q' := if (half <? r) || ((r =? half) && Z.odd q) then q + 1 else q in
    ((if m <? 0 then - q' else q'), sh).
Definition dy_round (x : dy) : dy := let '(m', sh) := round_to 53 (fst x) in (m', snd x + sh).
Definition dy_add (x y : dy) : dy :=
  let e := Z.min (snd x) (snd y) in
  dy_round (fst x * Z.shiftl 1 (snd x - e) + fst y * Z.shiftl 1 (snd y - e), e).
Definition dy_sub (x y : dy) : dy := dy_add x (- fst y, snd y).
(* correctly rounded x / s for a positive integer s: quotient with 66 extra bits and a sticky bit *)
Definition dy_div_int (x : dy) (s : Z) : dy :=
  let a := Z.abs (fst x) in
  let t := 128 in
  let q := Z.shiftl a t / s in let sticky := if (Z.shiftl a t mod s) =? 0 then 0 else 1 in
  let v := 2 * q + sticky in
  dy_round ((if fst x <? 0 then - v else v), snd x - t - 1).
(* a double given as num / 2^k *)
Definition dy_of (g : Z * Z) : dy := (fst g, - snd g).
Definition dtot32_dy (x : dy) : Z :=
  if 0 <=? snd x then dtot32 (fst x * Z.shiftl 1 (snd x)) 0 else dtot32 (fst x) (- snd x).

(* ---- key-switching key (lweCreateKeySwitchKey): all noises first, recentred, then one encryption per (i,j,h>=1) ---- *)
Definition recentre (gs : list (Z * Z)) : list dy :=
  let xs := map dy_of gs in
  let sum := fold_left dy_add xs (0, 0) in
  let mean := dy_div_int sum (Z.of_nat (length gs)) in
  map (fun x => dy_sub x mean) xs.
Fixpoint ks_rows (out_key : list Z) (cells : list (Z * Z)) (noises : list dy) (ds : list draw) : option (list sample * list draw) :=
  (* cells: (message, h) in row order, h = 0 marks the trivial zero sample *)
  match cells with
  | [] => Some ([], ds)
  | (mess, h) :: cells' =>
    if h =? 0 then
      match ks_rows out_key cells' noises ds with
      | Some (rows, r) => Some (lwe_trivial (length out_key) 0 :: rows, r)
      | None => None
      end
    else
      match noises with
      | nz :: noises' =>
        match take_u (length out_key) ds with
        | Some (mask, r) =>
          match ks_rows out_key cells' noises' r with
          | Some (rows, r') => Some (lwe_encrypt_with out_key (w32 (mess + dtot32_dy nz)) mask :: rows, r')
          | None => None
          end
        | None => None
        end
      | [] => None
      end
  end.
Definition ks_cells (in_key : list Z) (t : nat) (b : Z) : list (Z * Z) :=
  flat_map (fun si => flat_map (fun j => map (fun h => (w32 (w32 (si * h) * w32 (pow2 (32 - (Z.of_nat j + 1) * b))), h))
                                           (map Z.of_nat (seq 0 (Z.to_nat (pow2 b))))) (seq 0 t)) in_key.
Definition create_ks_key (in_key out_key : list Z) (t : nat) (b : Z) (ds : list draw) : option (list sample * list draw) :=
  let sizeks := (length in_key * t * (Z.to_nat (pow2 b) - 1))%nat in
  match take_g sizeks ds with
  | Some (gs, r) => ks_rows out_key (ks_cells in_key t b) (recentre gs) r
  | None => None
  end.

(* ---- lweCreateKeySwitchKey_old: every cell (h = 0 included) is a fresh lweSymEncrypt of its message
        (lweCreateKeySwitchKey_fromArray), then renormalizeKSkey subtracts from every row with h >= 1 the average of the
        errors of those rows (sum in wrapping int32, divided in binary64, converted back with dtot32) ---- *)
Fixpoint ks_rows_fresh (out_key : list Z) (cells : list (Z * Z)) (ds : list draw) : option (list sample * list draw) :=
  match cells with
  | [] => Some ([], ds)
  | (mess, _) :: cells' =>
    match lwe_sym_encrypt out_key mess ds with
    | Some (c, r) => match ks_rows_fresh out_key cells' r with Some (rows, r') => Some (c :: rows, r') | None => None end
    | None => None
    end
  end.
Definition ks_renormalize (out_key : list Z) (cells : list (Z * Z)) (rows : list sample) : list sample :=
  let cr := combine cells rows in
  let error := fold_left (fun a x => if snd (fst x) =? 0 then a else w32 (a + w32 (lwe_phase out_key (snd x) - fst (fst x)))) cr 0 in
  let nb := Z.of_nat (length (filter (fun c => negb (snd c =? 0)) cells)) in
  let e2 := dtot32_dy (dy_div_int (error, -32) nb) in
  map (fun x => if snd (fst x) =? 0 then snd x else (fst (snd x), w32 (snd (snd x) - e2))) cr.
Definition create_ks_key_old (in_key out_key : list Z) (t : nat) (b : Z) (ds : list draw) : option (list sample * list draw) :=
  match ks_rows_fresh out_key (ks_cells in_key t b) ds with
  | Some (rows, r) => Some (ks_renormalize out_key (ks_cells in_key t b) rows, r)
  | None => None
  end.

(* ---- bootstrapping key (tfhe_createLweBootstrappingKey): key-switching key from the extracted ring key to the LWE key,
        then one TGSW encryption of every LWE key bit ---- *)
Fixpoint bk_rows (l : nat) (B : Z) (tkey : list (list Z)) (N : nat) (kin : list Z) (ds : list draw) : option (list tgsw * list draw) :=
  match kin with
  | [] => Some ([], ds)
  | s :: kin' =>
    match tgsw_sym_encrypt_int l B tkey N s ds with
    | Some (g, r) => match bk_rows l B tkey N kin' r with Some (gs, r') => Some (g :: gs, r') | None => None end
    | None => None
    end
  end.
Definition create_bootstrapping_key (l : nat) (B : Z) (t : nat) (bb : Z) (lwe_key : list Z) (tkey : list (list Z)) (N : nat) (ds : list draw)
  : option (list sample * list tgsw * list draw) :=
  match create_ks_key (tlwe_extract_key tkey) lwe_key t bb ds with
  | Some (ks, r) => match bk_rows l B tkey N lwe_key r with Some (bk, r') => Some (ks, bk, r') | None => None end
  | None => None
  end.
(* new_random_gate_bootstrapping_secret_keyset: LWE key bits, ring key bits, then the above *)
Definition secret_keyset (n k N l : nat) (B : Z) (t : nat) (bb : Z) (ds : list draw)
  : option (list Z * list (list Z) * list sample * list tgsw * list draw) :=
  match lwe_keygen n ds with
  | Some (lk, r1) =>
    match tlwe_keygen k N r1 with
    | Some (tk, r2) =>
      match create_bootstrapping_key l B t bb lk tk N r2 with
      | Some (ks, bk, r3) => Some (lk, tk, ks, bk, r3)
      | None => None
      end
    | None => None
    end
  | None => None
  end.

(* ---- entry points.  A draw stream is flattened as: 0 w | 1 b | 2 num k ---- *)
Fixpoint draws_of (fuel : nat) (v : list Z) : list draw :=
  match fuel with
  | O => []
  | S f =>
    match v with
    | 0 :: w :: r => DU w :: draws_of f r
    | 1 :: b :: r => DB b :: draws_of f r
    | 2 :: a :: k :: r => DG a k :: draws_of f r
    | _ => []
    end
  end.
Definition flat_sample (c : sample) : list Z := fst c ++ [snd c].
Definition nleft (ds : list draw) : Z := Z.of_nat (length ds).
Definition FAIL : list Z := [-99; -99; -99].

(* args: opcode then operands, then the draw stream (its length in numbers first)
   0 lwe_keygen n | 1 lwe_sym_encrypt n key message | 2 boots_sym_encrypt n key bit | 3 lwe decrypt n key a b M
   4 tlwe_keygen k N | 5 tlwe_encrypt_zero k N key | 6 tlwe_sym_encrypt k N key msg(N) | 7 tlwe_sym_encryptT k N key msg
   8 tlwe decrypt k N key c M (polynomial) | 9 tlwe decryptT | 10 tgsw_sym_encrypt_int k N l B key m | 11 tgsw_sym_encrypt k N l B key mu(N)
   12 create_ks_key n nout t b in_key out_key | 13 secret_keyset n k N l B t bb
   15 create_ks_key_old n nout t b in_key out_key (lweCreateKeySwitchKey_old)
   14 lwe_sym_encrypt_ext n key message noise_numerator noise_exponent (the external noise is numerator / 2^exponent)
   every encryption result is followed by the number of draws left *)
Definition entry_enc (v : list Z) : list Z :=
  match v with
  | opc :: r =>
    if opc =? 0 then
      match r with n :: nd :: dsv => match lwe_keygen (Z.to_nat n) (draws_of (Z.to_nat nd) dsv) with Some (k, rest) => k ++ [nleft rest] | None => FAIL end | _ => [] end
    else if opc =? 1 then
      match r with n :: r1 => let n := Z.to_nat n in
        match skipn n r1 with message :: nd :: dsv =>
          match lwe_sym_encrypt (firstn n r1) message (draws_of (Z.to_nat nd) dsv) with Some (c, rest) => flat_sample c ++ [nleft rest] | None => FAIL end
        | _ => [] end | _ => [] end
    else if opc =? 2 then
      match r with n :: r1 => let n := Z.to_nat n in
        match skipn n r1 with bit :: nd :: dsv =>
          match boots_sym_encrypt (firstn n r1) bit (draws_of (Z.to_nat nd) dsv) with Some (c, rest) => flat_sample c ++ [nleft rest] | None => FAIL end
        | _ => [] end | _ => [] end
    else if opc =? 3 then
      match r with n :: r1 => let n := Z.to_nat n in
        let key := firstn n r1 in let a := firstn n (skipn n r1) in let r2 := skipn (n + n) r1 in
        [lwe_sym_decrypt key (a, nth 0 r2 0) (nth 1 r2 0); lwe_phase key (a, nth 0 r2 0)]
      | _ => [] end
    else if opc =? 4 then
      match r with k :: n :: nd :: dsv => match tlwe_keygen (Z.to_nat k) (Z.to_nat n) (draws_of (Z.to_nat nd) dsv) with Some (key, rest) => concat key ++ [nleft rest] | None => FAIL end | _ => [] end
    else if (opc =? 5) || (opc =? 6) || (opc =? 7) then
      match r with k :: n :: r1 => let k := Z.to_nat k in let n := Z.to_nat n in
        let key := Tlwe.chunks k n (firstn (k * n) r1) in let r2 := skipn (k * n) r1 in
        let res :=
          if opc =? 5 then match r2 with nd :: dsv => tlwe_encrypt_zero key n (draws_of (Z.to_nat nd) dsv) | _ => None end
          else if opc =? 6 then match skipn n r2 with nd :: dsv => tlwe_sym_encrypt key n (firstn n r2) (draws_of (Z.to_nat nd) dsv) | _ => None end
          else match r2 with m :: nd :: dsv => tlwe_sym_encryptT key n m (draws_of (Z.to_nat nd) dsv) | _ => None end in
        match res with Some (c, rest) => concat c ++ [nleft rest] | None => FAIL end
      | _ => [] end
    else if (opc =? 8) || (opc =? 9) then
      match r with k :: n :: r1 => let k := Z.to_nat k in let n := Z.to_nat n in
        let key := Tlwe.chunks k n (firstn (k * n) r1) in let r2 := skipn (k * n) r1 in
        let c := Tlwe.chunks (S k) n (firstn (S k * n) r2) in let M := nth (S k * n) r2 0 in
        if opc =? 8 then tlwe_sym_decrypt key c M else [tlwe_sym_decryptT key c M]
      | _ => [] end
    else if (opc =? 10) || (opc =? 11) then
      match r with k :: n :: l :: B :: r1 => let k := Z.to_nat k in let n := Z.to_nat n in let l := Z.to_nat l in
        let key := Tlwe.chunks k n (firstn (k * n) r1) in let r2 := skipn (k * n) r1 in
        let res :=
          if opc =? 10 then match r2 with m :: nd :: dsv => tgsw_sym_encrypt_int l B key n m (draws_of (Z.to_nat nd) dsv) | _ => None end
          else match skipn n r2 with nd :: dsv => tgsw_sym_encrypt l B key n (firstn n r2) (draws_of (Z.to_nat nd) dsv) | _ => None end in
        match res with Some (C, rest) => concat (map (@concat Z) C) ++ [nleft rest] | None => FAIL end
      | _ => [] end
    else if opc =? 12 then
      match r with n :: nout :: t :: b :: r1 => let n := Z.to_nat n in let nout := Z.to_nat nout in
        let ik := firstn n r1 in let ok := firstn nout (skipn n r1) in
        match skipn (n + nout) r1 with nd :: dsv =>
          match create_ks_key ik ok (Z.to_nat t) b (draws_of (Z.to_nat nd) dsv) with
          | Some (rows, rest) => concat (map flat_sample rows) ++ [nleft rest] | None => FAIL end
        | _ => [] end
      | _ => [] end
    else if opc =? 13 then
      match r with n :: k :: nn :: l :: B :: t :: bb :: nd :: dsv =>
        match secret_keyset (Z.to_nat n) (Z.to_nat k) (Z.to_nat nn) (Z.to_nat l) B (Z.to_nat t) bb (draws_of (Z.to_nat nd) dsv) with
        | Some (lk, tk, ks, bk, rest) => lk ++ concat tk ++ concat (map flat_sample ks) ++ concat (map (fun g => concat (map (@concat Z) g)) bk) ++ [nleft rest]
        | None => FAIL end
      | _ => [] end
    else if opc =? 15 then
      match r with n :: nout :: t :: b :: r1 => let n := Z.to_nat n in let nout := Z.to_nat nout in
        let ik := firstn n r1 in let ok := firstn nout (skipn n r1) in
        match skipn (n + nout) r1 with nd :: dsv =>
          match create_ks_key_old ik ok (Z.to_nat t) b (draws_of (Z.to_nat nd) dsv) with
          | Some (rows, rest) => concat (map flat_sample rows) ++ [nleft rest] | None => FAIL end
        | _ => [] end
      | _ => [] end
    else if opc =? 14 then
      match r with n :: r1 => let n := Z.to_nat n in
        match skipn n r1 with message :: num :: ke :: nd :: dsv =>
          match lwe_sym_encrypt_ext (firstn n r1) message (num, ke) (draws_of (Z.to_nat nd) dsv) with Some (c, rest) => flat_sample c ++ [nleft rest] | None => FAIL end
        | _ => [] end | _ => [] end
    else []
  | _ => []
  end.
