(* Model/Layout.v — C20: System V x86-64 layout of plain structs (data members only; non-virtual member
   functions, constructors, destructors and deleted copies do not occupy storage), and the finite
   checks run over the facts extracted from the build. *)
From Coq Require Import ZArith List Bool String.
Import ListNotations.
Local Open Scope Z_scope.

Record field := { f_name : string; f_off : Z; f_size : Z; f_align : Z }.
Record sview := { s_size : Z; s_align : Z; s_fields : list field }.

Definition align_up (x a : Z) : Z := ((x + a - 1) / a) * a.
Fixpoint offsets (cur : Z) (fs : list field) : list Z :=
  match fs with
  | [] => []
  | f :: r => let o := align_up cur (f_align f) in o :: offsets (o + f_size f) r
  end.
Fixpoint end_of (cur : Z) (fs : list field) : Z :=
  match fs with [] => cur | f :: r => end_of (align_up cur (f_align f) + f_size f) r end.
Definition max_align (fs : list field) : Z := fold_right (fun f m => Z.max (f_align f) m) 1 fs.
Definition model_size (fs : list field) : Z := align_up (end_of 0 fs) (max_align fs).

Fixpoint zlist_eqb (a b : list Z) : bool :=
  match a, b with [], [] => true | x :: a', y :: b' => (x =? y) && zlist_eqb a' b' | _, _ => false end.
Fixpoint slist_eqb (a b : list string) : bool :=
  match a, b with [], [] => true | x :: a', y :: b' => String.eqb x y && slist_eqb a' b' | _, _ => false end.

(* one view (C or C++) agrees with the layout model *)
Definition view_matches_model (v : sview) : bool :=
  zlist_eqb (map f_off (s_fields v)) (offsets 0 (s_fields v)) &&
  (s_size v =? model_size (s_fields v)) && (s_align v =? max_align (s_fields v)).
(* the two views list the same members with identical placement *)
Definition views_equal (c cpp : sview) : bool :=
  slist_eqb (map f_name (s_fields c)) (map f_name (s_fields cpp)) &&
  zlist_eqb (map f_off (s_fields c)) (map f_off (s_fields cpp)) &&
  zlist_eqb (map f_size (s_fields c)) (map f_size (s_fields cpp)) &&
  (s_size c =? s_size cpp) && (s_align c =? s_align cpp).

Definition mem (s : string) (l : list string) : bool := existsb (String.eqb s) l.
Definition subset (a b : list string) : bool := forallb (fun s => mem s b) a.
