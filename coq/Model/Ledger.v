(* Model/Ledger.v — allocation bookkeeping of the object types (lwesamples.cpp, lwekey.cpp, polynomials, tlwe.cpp, tgsw.cpp,
   tgsw-functions.cpp:24-48, lwekeyswitch.cpp:3-23, lwebootstrappingkey.cpp, tfhe_generic_templates.h): an object is the tree
   of heap blocks its new_<type> requests (malloc of the structure or array of structures, then the arrays its constructor
   news); delete_<type> destroys the owned blocks and then frees the block itself.  Block sizes are in bytes; the structure
   sizes are parameters (they are ABI facts, C20). *)
From Coq Require Import ZArith List Bool.
Import ListNotations.
Local Open Scope Z_scope.

Inductive otree := Node (size : Z) (owned : list otree).

(* blocks requested by new, in allocation order (the block, then what its constructor allocates) *)
Fixpoint blocks (t : otree) : list Z :=
  match t with
  | Node s os => s :: (fix go (l : list otree) : list Z := match l with [] => [] | o :: r => blocks o ++ go r end) os
  end.
(* blocks freed by delete, in release order (owned blocks first, then the block itself) *)
Fixpoint release (t : otree) : list Z :=
  match t with
  | Node s os => (fix go (l : list otree) : list Z := match l with [] => [] | o :: r => release o ++ go r end) os ++ [s]
  end.

Record sizes := { szLweSample : Z; szLweKey : Z; szPoly : Z; szTLweSample : Z; szTLweKey : Z; szTGswSample : Z; szTGswKey : Z;
                  szKS : Z; szBK : Z; szTGswParams : Z; szLweParams : Z }.

Definition leaf (s : Z) : otree := Node s [].
Definition zn (n : nat) : Z := Z.of_nat n.
Section T.
Variable z : sizes.
(* the parts a constructor allocates (without the block of the structure itself) *)
Definition lwe_sample_parts (n : nat) : list otree := [leaf (4 * zn n)].
Definition poly_parts (N : nat) : list otree := [leaf (4 * zn N)].
Definition poly_array (m N : nat) : otree := Node (zn m * szPoly z) (flat_map (fun _ => poly_parts N) (seq 0 m)).
Definition tlwe_sample_parts (k N : nat) : list otree := [poly_array (S k) N].
Definition tlwe_sample_array (m k N : nat) : otree := Node (zn m * szTLweSample z) (flat_map (fun _ => tlwe_sample_parts k N) (seq 0 m)).
Definition tgsw_sample_parts (k l N : nat) : list otree := [tlwe_sample_array (S k * l) k N; leaf (8 * zn (S k))].
Definition lwe_sample_array (m n : nat) : otree := Node (zn m * szLweSample z) (flat_map (fun _ => lwe_sample_parts n) (seq 0 m)).
Definition ks_parts (n t base nout : nat) : list otree := [lwe_sample_array (n * t * base) nout; leaf (8 * zn (n * t)); leaf (8 * zn n)].

Definition o_lwe_sample n := Node (szLweSample z) (lwe_sample_parts n).
Definition o_lwe_key n := Node (szLweKey z) [leaf (4 * zn n)].
Definition o_poly N := Node (szPoly z) (poly_parts N).
Definition o_tlwe_sample k N := Node (szTLweSample z) (tlwe_sample_parts k N).
Definition o_tlwe_key k N := Node (szTLweKey z) [poly_array k N].
Definition o_tgsw_sample k l N := Node (szTGswSample z) (tgsw_sample_parts k l N).
Definition o_tgsw_key k N := Node (szTGswKey z) [poly_array k N].
Definition o_ks n t base nout := Node (szKS z) (ks_parts n t base nout).
Definition o_tgsw_params (l : nat) := Node (szTGswParams z) [leaf (4 * zn l)].
Definition o_lwe_params := leaf (szLweParams z).
(* LweBootstrappingKey: array of n TGSW samples, then the key-switching key (extracted dimension k*N -> n) *)
Definition o_bk (n k l N t base : nat) :=
  Node (szBK z) [Node (zn n * szTGswSample z) (flat_map (fun _ => tgsw_sample_parts k l N) (seq 0 n)); o_ks (k * N) t base n].
End T.

(* sorting, for comparison with the multiset the allocator observed *)
Fixpoint insert (x : Z) (l : list Z) : list Z := match l with [] => [x] | y :: r => if x <=? y then x :: l else y :: insert x r end.
Definition sort (l : list Z) : list Z := fold_right insert [] l.

(* entry: type p1 p2 p3 p4 then the 11 structure sizes -> number of blocks, sorted sizes *)
Definition entry_ledger (v : list Z) : list Z :=
  match v with
  | ty :: p1 :: p2 :: p3 :: p4 :: s1 :: s2 :: s3 :: s4 :: s5 :: s6 :: s7 :: s8 :: s9 :: s10 :: s11 :: _ =>
    let z := {| szLweSample := s1; szLweKey := s2; szPoly := s3; szTLweSample := s4; szTLweKey := s5; szTGswSample := s6; szTGswKey := s7;
                szKS := s8; szBK := s9; szTGswParams := s10; szLweParams := s11 |} in
    let n1 := Z.to_nat p1 in let n2 := Z.to_nat p2 in let n3 := Z.to_nat p3 in let n4 := Z.to_nat p4 in
    let t :=
      if ty =? 0 then o_lwe_sample z n1 else if ty =? 1 then lwe_sample_array z n2 n1 else if ty =? 2 then o_lwe_key z n1
      else if ty =? 3 then o_poly z n1 else if ty =? 4 then o_poly z n1 else if ty =? 5 then o_tlwe_sample z n2 n1
      else if ty =? 6 then o_tlwe_key z n2 n1 else if ty =? 7 then o_tgsw_sample z n2 n3 n1 else if ty =? 8 then o_tgsw_key z n2 n1
      else if ty =? 9 then o_ks z n1 n2 (Z.to_nat (2 ^ p3)) n4 else if ty =? 10 then o_bk z n1 n2 n3 1024 2 4
      else if ty =? 11 then o_tgsw_params z n3 else if ty =? 12 then o_lwe_params z
      else if ty =? 13 then tlwe_sample_array z n4 n2 n1 else if ty =? 14 then poly_array z n2 n1 else leaf 0 in
    let b := blocks t in Z.of_nat (length b) :: sort b
  | _ => []
  end.
