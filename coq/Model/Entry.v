(* Model/Entry.v — the single dispatch table through which the correspondence drivers run the model.
   Every entry takes the flattened integer arguments of a case line and returns the flattened result. *)
From Coq Require Import ZArith List String.
From TV Require Import Codec.Flat.
From TV Require Import Base.Int32 Model.Numeric Model.Decomp Model.Lwe Model.Poly Model.Tlwe Model.KeySwitch Model.Tgsw Model.Bootstrap Model.Gates Model.Encrypt Model.Ledger Model.KaraMem.
Import ListNotations.
Local Open Scope string_scope.

Definition table : list (string * (list Z -> list Z)) :=
  [ ("msf", entry_msf); ("aph", entry_aph); ("mst", entry_mst);
    ("dtot", entry_dtot); ("t32tod", entry_t32tod);
    ("decomp", entry_decomp); ("decomp_avx", entry_decomp_avx); ("tgswparams", entry_tgsw_params);
    ("tlwedecomp", entry_tlwe_decomp);
    ("lwephase", entry_lwephase); ("lwelin", entry_lwelin); ("poly", entry_poly); ("tlwe", entry_tlwe);
    ("keyswitch", entry_keyswitch); ("ksdigits", entry_ksdigits);
    ("tgsw", entry_tgsw); ("boot", entry_boot); ("bootp", entry_bootp);
    ("gatelin", entry_gatelin); ("decbit", entry_decbit); ("encbit", entry_encbit); ("netlist", entry_netlist); ("enc", entry_enc); ("ledger", entry_ledger); ("karamem", entry_karamem) ].

Fixpoint lookup (name : string) (t : list (string * (list Z -> list Z))) : option (list Z -> list Z) :=
  match t with
  | [] => None
  | (n, f) :: t' => if String.eqb n name then Some f else lookup name t'
  end.

Definition dispatch (name : string) (args : list Z) : option (list Z) :=
  match lookup name table with Some f => Some (f args) | None => None end.

(* entries that need the real-number text functions of the platform (supplied by the driver) *)
Definition dispatch2 (fmt_double : Z -> list Z) (parse_double : list Z -> option Z) (name : string) (args : list Z) : option (list Z) :=
  if String.eqb name "cexp" then Some (codec_export fmt_double args)
  else if String.eqb name "cimp" then Some (codec_import parse_double args)
  else dispatch name args.
