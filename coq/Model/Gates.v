(* Model/Gates.v — boot-gates.cpp and tfhe_gate_bootstrapping.cpp:154-165: every gate as the sequence of
   linear operations the C++ performs on a private temporary, followed by the sign bootstrapping;
   bit encoding +-1/8 and sign decoding. *)
From Coq Require Import ZArith List Bool.
From TV Require Import Base.Int32 Model.Numeric Model.Lwe Model.Poly Model.Tlwe Model.Tgsw Model.KeySwitch Model.Bootstrap.
Import ListNotations.
Local Open Scope Z_scope.

Inductive gate2 := NAND | OR | AND | XOR | XNOR | NOR | ANDNY | ANDYN | ORNY | ORYN.

Definition MU : Z := modSwitchTo 1 8.          (* 2^29 *)
Definition c18  : Z := modSwitchTo 1 8.
Definition cm18 : Z := modSwitchTo (-1) 8.
Definition c14  : Z := modSwitchTo 1 4.
Definition cm14 : Z := modSwitchTo (-1) 4.

(* the temporary handed to the bootstrapping *)
Definition gate_lin (g : gate2) (n : nat) (ca cb : sample) : sample :=
  match g with
  | NAND  => lwe_sub (lwe_sub (lwe_trivial n c18) ca) cb
  | OR    => lwe_add (lwe_add (lwe_trivial n c18) ca) cb
  | AND   => lwe_add (lwe_add (lwe_trivial n cm18) ca) cb
  | XOR   => lwe_addmul (lwe_addmul (lwe_trivial n c14) 2 ca) 2 cb
  | XNOR  => lwe_submul (lwe_submul (lwe_trivial n cm14) 2 ca) 2 cb
  | NOR   => lwe_sub (lwe_sub (lwe_trivial n cm18) ca) cb
  | ANDNY => lwe_add (lwe_sub (lwe_trivial n cm18) ca) cb
  | ANDYN => lwe_sub (lwe_add (lwe_trivial n cm18) ca) cb
  | ORNY  => lwe_add (lwe_sub (lwe_trivial n c18) ca) cb
  | ORYN  => lwe_sub (lwe_add (lwe_trivial n c18) ca) cb
  end.

(* the constant and the two coefficients of the affine combination *)
Definition gate_const (g : gate2) : Z :=
  match g with NAND | OR | ORNY | ORYN => c18 | AND | NOR | ANDNY | ANDYN => cm18 | XOR => c14 | XNOR => cm14 end.
Definition gate_ca (g : gate2) : Z :=
  match g with NAND | NOR | ANDNY | ORNY => -1 | OR | AND | ANDYN | ORYN => 1 | XOR => 2 | XNOR => -2 end.
Definition gate_cb (g : gate2) : Z :=
  match g with NAND | NOR | ANDYN | ORYN => -1 | OR | AND | ANDNY | ORNY => 1 | XOR => 2 | XNOR => -2 end.

Definition gate_table (g : gate2) (a b : bool) : bool :=
  match g with
  | NAND => negb (a && b) | OR => a || b | AND => a && b | XOR => xorb a b | XNOR => negb (xorb a b)
  | NOR => negb (a || b) | ANDNY => negb a && b | ANDYN => a && negb b | ORNY => negb a || b | ORYN => a || negb b
  end.

(* noise-free gates *)
Definition gate_not (ca : sample) : sample := lwe_negate ca.
Definition gate_copy (ca : sample) : sample := lwe_copy ca.
Definition gate_constant (n : nat) (value : Z) : sample := lwe_trivial n (if value =? 0 then w32 (- MU) else MU).

(* MUX: the two temporaries (bootstrapped without key switch), then 1/8 + u1 + u2, key switch *)
Definition mux_lin1 (n : nat) (a b : sample) : sample := lwe_add (lwe_add (lwe_trivial n cm18) a) b.
Definition mux_lin2 (n : nat) (a c : sample) : sample := lwe_add (lwe_sub (lwe_trivial n cm18) a) c.
Definition mux_sum (nx : nat) (u1 u2 : sample) : sample := lwe_add (lwe_add (lwe_trivial nx c18) u1) u2.

(* bit encoding and decoding *)
Definition encode_bit (m : Z) : Z := if m =? 0 then w32 (- c18) else c18.
Definition decrypt_bit (key : list Z) (c : sample) : Z := if 0 <? lwe_phase key c then 1 else 0.
Definition bit_of (b : bool) : Z := if b then 1 else 0.

(* lweSymEncrypt given the draws: mask words and the (already converted) gaussian32 value for b *)
Definition lwe_encrypt_with (key : list Z) (g32 : Z) (mask : list Z) : sample :=
  (mask, fold_left (fun b xy => w32 (b + w32 (fst xy * snd xy))) (combine mask key) g32).

(* ---- circuits: a netlist is a list of instructions over wire indices; destinations may be sources ---- *)
Inductive instr :=
| I2 (g : gate2) (dst a b : nat)
| INot (dst a : nat)
| ICopy (dst a : nat)
| IConst (dst : nat) (v : bool)
| IMux (dst a b c : nat).

Fixpoint set_nth {A} (n : nat) (x : A) (l : list A) : list A :=
  match n, l with
  | _, [] => []
  | O, _ :: r => x :: r
  | S n', y :: r => y :: set_nth n' x r
  end.
Definition exec_plain (st : list bool) (i : instr) : list bool :=
  match i with
  | I2 g d a b => set_nth d (gate_table g (nth a st false) (nth b st false)) st
  | INot d a => set_nth d (negb (nth a st false)) st
  | ICopy d a => set_nth d (nth a st false) st
  | IConst d v => set_nth d v st
  | IMux d a b c => set_nth d (if nth a st false then nth b st false else nth c st false) st
  end.
Definition eval_plain (prog : list instr) (st : list bool) : list bool := fold_left exec_plain prog st.

(* ---- entry points ---- *)
Definition gate_of_z (z : Z) : gate2 :=
  if z =? 0 then NAND else if z =? 1 then OR else if z =? 2 then AND else if z =? 3 then XOR else if z =? 4 then XNOR
  else if z =? 5 then NOR else if z =? 6 then ANDNY else if z =? 7 then ANDYN else if z =? 8 then ORNY else ORYN.

(* args: gate n  a1(n) b1 a2(n) b2 -> the temporary handed to bootstrapping; gate 10/11/12: NOT, COPY, CONSTANT(b1);
   gate 20/21: the two MUX temporaries (a, b|c) ; gate 22: mux_sum *)
Definition entry_gatelin (v : list Z) : list Z :=
  match v with
  | g :: n :: r =>
    let n := Z.to_nat n in
    let c1 := (firstn n r, nth n r 0) in
    let r2 := skipn (S n) r in
    let c2 := (firstn n r2, nth n r2 0) in
    let res :=
      if g =? 10 then gate_not c1 else if g =? 11 then gate_copy c1 else if g =? 12 then gate_constant n (snd c1)
      else if g =? 20 then mux_lin1 n c1 c2 else if g =? 21 then mux_lin2 n c1 c2 else if g =? 22 then mux_sum n c1 c2
      else gate_lin (gate_of_z g) n c1 c2 in
    fst res ++ [snd res]
  | _ => []
  end.

(* args: n key(n) a(n) b -> decrypted bit;   encode: [m] -> mu *)
Definition entry_decbit (v : list Z) : list Z :=
  match v with
  | n :: r => let n := Z.to_nat n in [decrypt_bit (firstn n r) (firstn n (skipn n r), nth (n + n) r 0)]
  | _ => []
  end.
Definition entry_encbit (v : list Z) : list Z :=
  match v with
  | n :: m :: g32 :: r => let n := Z.to_nat n in
      let c := lwe_encrypt_with (firstn n r) g32 (firstn n (skipn n r)) in fst c ++ [snd c]
  | _ => []
  end.

(* netlist: args nwires ninstr  then per instruction 5 numbers (kind/gate dst a b c), then the input bits (nwires).
   kind: 0..9 two-input gate, 10 NOT, 11 COPY, 12 CONST(a = value), 13 MUX *)
Fixpoint instrs_of (fuel : nat) (v : list Z) : list instr :=
  match fuel with
  | O => []
  | S f =>
    match v with
    | kd :: d :: a :: b :: c :: r =>
      let d := Z.to_nat d in let an := Z.to_nat a in let bn := Z.to_nat b in let cn := Z.to_nat c in
      (if kd =? 10 then INot d an else if kd =? 11 then ICopy d an else if kd =? 12 then IConst d (negb (a =? 0))
       else if kd =? 13 then IMux d an bn cn else I2 (gate_of_z kd) d an bn) :: instrs_of f r
    | _ => []
    end
  end.
Definition entry_netlist (v : list Z) : list Z :=
  match v with
  | nw :: ni :: r =>
    let nw := Z.to_nat nw in let ni := Z.to_nat ni in
    let prog := instrs_of ni r in
    let ins := map (fun z => negb (z =? 0)) (firstn nw (skipn (5 * ni) r)) in
    map bit_of (eval_plain prog ins)
  | _ => []
  end.
