(* Model/Poly.v — multiplication.cpp and toruspolynomial-functions.cpp: coefficient-wise operations,
   monomial multiplications (index level, checked accesses), schoolbook and Karatsuba products. *)
From Coq Require Import ZArith List Bool.
From TV Require Import Base.Int32 Base.Sums Ring.NegaRing Model.Lwe.
Import ListNotations.
Local Open Scope Z_scope.

(* ---- coefficient-wise (wrapping int32) ---- *)
Definition poly_add (a b : list Z) := zipw Z.add a b.
Definition poly_sub (a b : list Z) := zipw Z.sub a b.
Definition poly_addmulz (a : list Z) (p:Z) (b : list Z) := zipw (fun x y => x + w32 (p * y)) a b.
Definition poly_submulz (a : list Z) (p:Z) (b : list Z) := zipw (fun x y => x - w32 (p * y)) a b.

(* ---- checked array access ---- *)
Definition getz (v : list Z) (i : Z) : option Z := if i <? 0 then None else nth_error v (Z.to_nat i).
Fixpoint all_some {A} (l : list (option A)) : option (list A) :=
  match l with
  | [] => Some []
  | Some x :: r => match all_some r with Some r' => Some (x :: r') | None => None end
  | None :: _ => None
  end.
Definition build (N:nat) (f : Z -> option Z) : option (list Z) :=
  all_some (map (fun i => f (Z.of_nat i)) (seq 0 N)).
Definition oneg (o : option Z) : option Z := option_map (fun x => w32 (- x)) o.
Definition osub (o1 o2 : option Z) : option Z :=
  match o1, o2 with Some x, Some y => Some (w32 (x - y)) | _, _ => None end.

(* torusPolynomialMulByXai (toruspolynomial-functions.cpp:140-160) *)
Definition mulByXai (a : Z) (src : list Z) : option (list Z) :=
  let N := Z.of_nat (length src) in
  if a <? N then
    build (length src) (fun i => if i <? a then oneg (getz src (i - a + N)) else getz src (i - a))
  else
    let aa := a - N in
    build (length src) (fun i => if i <? aa then getz src (i - aa + N) else oneg (getz src (i - aa))).

(* torusPolynomialMulByXaiMinusOne / intPolynomialMulByXaiMinusOne (117-137, 207-226) *)
Definition mulByXaiMinusOne (a : Z) (src : list Z) : option (list Z) :=
  let N := Z.of_nat (length src) in
  if a <? N then
    build (length src) (fun i => if i <? a then osub (oneg (getz src (i - a + N))) (getz src i)
                                 else osub (getz src (i - a)) (getz src i))
  else
    let aa := a - N in
    build (length src) (fun i => if i <? aa then osub (getz src (i - aa + N)) (getz src i)
                                 else osub (oneg (getz src (i - aa))) (getz src i)).

(* ---- products ---- *)
(* torusPolynomialMultNaive: the double loop's value, computed by Horner in the shift (NegaRing.lact) *)
Definition poly_mul (a b : list Z) : list Z := map w32 (lact a b).
Definition poly_addmul (r a b : list Z) : list Z := zipw Z.add r (lact a b).
Definition poly_submul (r a b : list Z) : list Z := zipw Z.sub r (lact a b).

(* plain (non-reduced) schoolbook product into 2n-1 cells: torusPolynomialMultNaive_plain_aux *)
Fixpoint padd (u v : list Z) : list Z :=
  match u, v with
  | [], _ => v
  | _, [] => u
  | x :: u', y :: v' => (x + y) :: padd u' v'
  end.
Fixpoint plain_mul (a b : list Z) : list Z :=
  match a with
  | [] => []
  | x :: a' => padd (map (Z.mul x) b) (match a' with [] => [] | _ => 0 :: plain_mul a' b end)
  end.

(* Karatsuba_aux (multiplication.cpp:90-123), functional form of the buffer algorithm:
   R = K(A0,B0) ++ [0] ++ K(A1,B1);  Rtemp = K(A0+A1,B0+B1) - R[0..] - R[size..];  R[h+i] += Rtemp[i] *)
Fixpoint zipw_pref (r m : list Z) : list Z :=
  match r, m with
  | x :: r', y :: m' => w32 (x + y) :: zipw_pref r' m'
  | _, [] => r
  | [], _ => []
  end.
Fixpoint add_at (pos:nat) (r m : list Z) : list Z :=
  match pos, r with
  | O, _ => zipw_pref r m
  | S p, x :: r' => x :: add_at p r' m
  | S _, [] => []
  end.
Fixpoint karatsuba (fuel:nat) (A B : list Z) : list Z :=
  let size := length A in
  let h := (size / 2)%nat in
  match fuel with
  | O => map w32 (plain_mul A B)
  | S fuel' =>
    if (h <=? 4)%nat then map w32 (plain_mul A B)
    else
      let A0 := firstn h A in let A1 := firstn h (skipn h A) in
      let B0 := firstn h B in let B1 := firstn h (skipn h B) in
      let P0 := karatsuba fuel' A0 B0 in
      let P2 := karatsuba fuel' A1 B1 in
      let P1 := karatsuba fuel' (zipw Z.add A0 A1) (zipw Z.add B0 B1) in
      let R := P0 ++ [0] ++ P2 in
      let M := zipw Z.sub P1 (zipw Z.add P0 P2) in
      add_at h R M
  end.
(* reduction mod X^N+1: result[i] = R[i] - R[N+i] (i < N-1), result[N-1] = R[N-1] *)
Definition reduce (N:nat) (R : list Z) : list Z :=
  zipw Z.sub (firstn N R) (skipn N R ++ [0]).
Definition poly_mul_karatsuba (a b : list Z) : list Z :=
  reduce (length a) (karatsuba (length a) a b).

(* ---- entry points ---- *)
Definition olist (o : option (list Z)) : list Z := match o with Some l => l | None => [-1; -1; -1; -1] end.
(* args: opcode N p a(N) b(N) : 0 add 1 sub 2 addmulz 3 submulz 4 X^p*a 5 (X^p-1)*a
                                6 naive a*b 7 karatsuba a*b 8 b + a*b (addmulR) 9 b - a*b... see driver *)
Definition entry_poly (v : list Z) : list Z :=
  match v with
  | opc :: n :: p :: r =>
    let n := Z.to_nat n in
    let a := firstn n r in let b := firstn n (skipn n r) in let c := skipn (n + n) r in
    if opc =? 0 then poly_add a b else if opc =? 1 then poly_sub a b
    else if opc =? 2 then poly_addmulz a p b else if opc =? 3 then poly_submulz a p b
    else if opc =? 4 then olist (mulByXai p a) else if opc =? 5 then olist (mulByXaiMinusOne p a)
    else if opc =? 6 then poly_mul a b else if opc =? 7 then poly_mul_karatsuba a b
    else if opc =? 8 then poly_addmul c a b else if opc =? 9 then poly_submul c a b
    else if opc =? 10 then zipw Z.add c (poly_mul_karatsuba a b)
    else if opc =? 11 then zipw Z.sub c (poly_mul_karatsuba a b)
    else []
  | _ => []
  end.
