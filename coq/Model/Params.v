(* Model/Params.v — tfhe_gate_bootstrapping.cpp:23-89: the default parameter sets and the selector;
   derived fields as tgsw.cpp / tlwe.cpp compute them; the noise formulas used for the margin. *)
From Coq Require Import ZArith QArith Qabs List Bool.
From TV Require Import Base.Int32 Model.Decomp.
Import ListNotations.
Local Open Scope Z_scope.

Record pset := {
  p_n : Z; p_alpha_in : Q; p_amax_in : Q;
  p_N : Z; p_k : Z; p_alpha_bk : Q; p_amax_bk : Q;
  p_l : Z; p_Bgbit : Z; p_Bg : Z; p_halfBg : Z; p_maskMod : Z; p_kpl : Z; p_offset : Z;
  p_ks_t : Z; p_ks_basebit : Z; p_ext_n : Z; p_ext_alpha : Q; p_h : list Z }.

Inductive choice := Abort | Set80 | Set128.

(* new_default_gate_bootstrapping_parameters: the three comparisons, in the code's order *)
Definition select (lambda : Z) : choice :=
  if 128 <? lambda then Abort
  else if (80 <? lambda) && (lambda <=? 128) then Set128
  else if (0 <? lambda) && (lambda <=? 80) then Set80
  else Abort.

(* the documented sets (README table for the 128-bit set; CGGI16 historic set for 80 bits) *)
Record doc := { d_n : Z; d_alpha_in : Q; d_N : Z; d_k : Z; d_alpha_bk : Q; d_l : Z; d_Bgbit : Z; d_t : Z; d_basebit : Z }.
Definition Doc128 : doc := {| d_n := 630; d_alpha_in := 1 # 32768; d_N := 1024; d_k := 1; d_alpha_bk := 1 # 33554432;
                              d_l := 3; d_Bgbit := 7; d_t := 8; d_basebit := 2 |}.
Definition Doc80 : doc := {| d_n := 500; d_alpha_in := 244 # 10000000; d_N := 1024; d_k := 1; d_alpha_bk := 718 # 100000000000;
                             d_l := 2; d_Bgbit := 10; d_t := 8; d_basebit := 2 |}.

(* a binary64 constant equals its decimal source up to one unit in the last place *)
Definition close (x y : Q) : bool := Qle_bool (Qabs (x - y)) (y * (1 # 4503599627370496)).

Definition matches_doc (p : pset) (d : doc) : bool :=
  (p_n p =? d_n d) && close (p_alpha_in p) (d_alpha_in d) && (p_N p =? d_N d) && (p_k p =? d_k d) &&
  close (p_alpha_bk p) (d_alpha_bk d) && (p_l p =? d_l d) && (p_Bgbit p =? d_Bgbit d) &&
  (p_ks_t p =? d_t d) && (p_ks_basebit p =? d_basebit d).

(* derived fields and structural constraints the algorithms assume *)
Definition zlist_eqb (a b : list Z) : bool := (Nat.eqb (length a) (length b)) && forallb (fun xy => fst xy =? snd xy) (combine a b).
Definition derived_ok (p : pset) : bool :=
  let l := Z.to_nat (p_l p) in
  (p_Bg p =? pow2 (p_Bgbit p)) && (p_halfBg p =? halfBg (p_Bgbit p)) && (p_maskMod p =? maskMod (p_Bgbit p)) &&
  (p_kpl p =? (p_k p + 1) * p_l p) && (p_offset p =? offset l (p_Bgbit p)) &&
  zlist_eqb (p_h p) (map (fun i => w32 (hpow (p_Bgbit p) i)) (seq 0 l)) &&
  (p_ext_n p =? p_k p * p_N p) && Qeq_bool (p_ext_alpha p) (p_alpha_bk p).
Definition fft_N : Z := 1024.          (* the size every FFT processor is fixed to *)
Definition structural_ok (p : pset) : bool :=
  (p_N p =? fft_N) && (p_N p =? pow2 (Z.log2 (p_N p))) && (1 <=? p_k p) && (1 <=? p_n p) &&
  (1 <=? p_l p) && (1 <=? p_Bgbit p) && (p_l p * p_Bgbit p <=? 32) && (p_Bgbit p <=? 30) &&
  (1 <=? p_ks_t p) && (1 <=? p_ks_basebit p) && (p_ks_t p * p_ks_basebit p <=? 31).

(* ---- noise formulas (variances, torus units), CGGI average-case terms ----
   F1  V_BR = n (k+1) l N ((Bg^2+2)/12) alpha_bk^2 + (n/2) (1 + kN/2) 2^(-2 l Bgbit) / 12
   F2  V_KS = kN t ((base-1)/base) alpha_ks^2 + (kN/2) 2^(-2 t basebit) / 12
   F3  V_out = V_BR + V_KS *)
Definition qz (z:Z) : Q := inject_Z z.
Definition V_BR (p : pset) : Q :=
  (qz (p_n p * (p_k p + 1) * p_l p * p_N p) * (qz (p_Bg p * p_Bg p + 2) / 12) * (p_alpha_bk p * p_alpha_bk p)
   + (qz (p_n p) / 2) * (1 + qz (p_k p * p_N p) / 2) * (1 # Z.to_pos (pow2 (2 * p_l p * p_Bgbit p))) / 12)%Q.
Definition V_KS (p : pset) : Q :=
  (qz (p_k p * p_N p * p_ks_t p) * (qz (pow2 (p_ks_basebit p) - 1) / qz (pow2 (p_ks_basebit p))) * (p_alpha_in p * p_alpha_in p)
   + (qz (p_k p * p_N p) / 2) * (1 # Z.to_pos (pow2 (2 * p_ks_t p * p_ks_basebit p))) / 12)%Q.
Definition V_out (p : pset) : Q := (V_BR p + V_KS p)%Q.
(* a gate combines two gate outputs with integer coefficients (ca, cb); its decision margin is m:
   "at least s standard deviations of margin"  <=>  s^2 (ca^2+cb^2) V_out <= m^2 *)
Definition margin_ok (s : Z) (ca cb : Z) (m : Q) (p : pset) : bool :=
  Qle_bool (qz (s * s * (ca * ca + cb * cb)) * V_out p) (m * m).
Definition all_gates_margin (s : Z) (p : pset) : bool :=
  margin_ok s 1 1 (1 # 16) p      (* NAND AND OR NOR ANDNY ANDYN ORNY ORYN, MUX's inner gates *)
  && margin_ok s 2 2 (1 # 8) p.   (* XOR XNOR *)
(* bound on the output standard deviation quoted in C02 *)
Definition stdev_le (b : Q) (p : pset) : bool := Qle_bool (V_out p) (b * b).
