(* Model/Decomp.v — tgsw.cpp (derived parameter fields) and tgsw-functions.cpp:297-409
   (tGswTorus32PolynomialDecompH, scalar path and the 8-lane AVX2 path, tGswTLweDecompH). *)
From Coq Require Import ZArith List Bool.
From TV Require Import Base.Int32.
Import ListNotations.
Local Open Scope Z_scope.

(* --- TGswParams constructor (tgsw.cpp:7-29) --- *)
Definition halfBg (B:Z) : Z := pow2 B / 2.
Definition maskMod (B:Z) : Z := pow2 B - 1.
Definition hpow (B:Z) (i:nat) : Z := pow2 (32 - (Z.of_nat i + 1) * B).       (* h[i] = 1 << (32-(i+1)Bgbit) *)
Fixpoint sum_h (B:Z) (l:nat) : Z :=                                           (* temp1: uint32 accumulation *)
  match l with O => 0 | S l' => u32 (sum_h B l' + hpow B l') end.
Definition offset (l:nat) (B:Z) : Z := u32 (sum_h B l * halfBg B).

(* --- one coefficient --- *)
Definition dec_digit (B:Z) (p:nat) (buf:Z) : Z :=
  w32 (Z.land (Z.shiftr buf (32 - (Z.of_nat p + 1) * B)) (maskMod B) - halfBg B).
Definition add_off (off x : Z) : Z := u32 (x + off).     (* buf[j] += offset on the uint32 view *)
Definition sub_off (off b : Z) : Z := w32 (b - off).     (* buf[j] -= offset, read back as Torus32 *)

(* --- scalar path (debug build): three passes over the buffer --- *)
Definition decompH_scalar (l:nat) (B:Z) (coefs : list Z) : list (list Z) * list Z :=
  let off := offset l B in
  let buf := map (add_off off) coefs in
  (map (fun p => map (dec_digit B p) buf) (seq 0 l), map (sub_off off) buf).

(* --- AVX2 path (optim build): every pass is  do { 8 lanes at i; i += 8 } while (i < N)
   over a buffer of exactly N cells; an access past the end is a model failure (None). --- *)
Definition take8 (v : list Z) : option (list Z * list Z) :=
  match v with
  | a::b::c::d::e::f::g::h::r => Some ([a;b;c;d;e;f;g;h], r)
  | _ => None
  end.
Fixpoint lanes (fuel:nat) (f : Z -> Z) (v : list Z) : option (list Z) :=
  (* the loop body runs first (do-while), then the test "i < N" = "rest not empty" *)
  match fuel with
  | O => None
  | S fuel' =>
    match take8 v with
    | None => None                                   (* reads/writes past the end of the buffer *)
    | Some (c, r) =>
      match r with
      | [] => Some (map f c)
      | _ => match lanes fuel' f r with Some r' => Some (map f c ++ r') | None => None end
      end
    end
  end.
Fixpoint all_some {A} (l : list (option A)) : option (list A) :=
  match l with
  | [] => Some []
  | Some x :: r => match all_some r with Some r' => Some (x :: r') | None => None end
  | None :: _ => None
  end.
Definition decompH_avx (l:nat) (B:Z) (coefs : list Z) : option (list (list Z) * list Z) :=
  let off := offset l B in
  let fuel := S (length coefs) in
  match lanes fuel (add_off off) coefs with
  | None => None
  | Some buf =>
    match all_some (map (fun p => lanes fuel (dec_digit B p) buf) (seq 0 l)) with
    | None => None
    | Some digs =>
      match lanes fuel (sub_off off) buf with
      | None => None
      | Some back => Some (digs, back)
      end
    end
  end.

(* --- TLWE wrapper: the k+1 polynomials one after the other, result rows i*l .. i*l+l-1 --- *)
Definition tlwe_decompH (l:nat) (B:Z) (polys : list (list Z)) : list (list Z) * list (list Z) :=
  let rs := map (decompH_scalar l B) polys in
  (concat (map fst rs), map snd rs).

(* --- specification level --- *)
Definition spec_digit (l:nat) (B:Z) (x:Z) (p:nat) : Z :=
  digit (u32 (x + offset l B)) (32 - (Z.of_nat p + 1) * B) B - halfBg B.

(* entry points.  args: l B N x_1..x_N  ->  digits p-major (l*N values) then the buffer after the call *)
Definition entry_decomp (a : list Z) : list Z :=
  match a with
  | l :: B :: _ :: xs => let '(d, back) := decompH_scalar (Z.to_nat l) B xs in concat d ++ back
  | _ => []
  end.
Definition entry_decomp_avx (a : list Z) : list Z :=
  match a with
  | l :: B :: _ :: xs =>
    match decompH_avx (Z.to_nat l) B xs with Some (d, back) => concat d ++ back | None => [-1] end
  | _ => []
  end.
Definition entry_tgsw_params (a : list Z) : list Z :=
  match a with
  | [l; B] => [w32 (pow2 B); halfBg B; maskMod B; offset (Z.to_nat l) B] ++ map (fun i => w32 (hpow B i)) (seq 0 (Z.to_nat l))
  | _ => []
  end.

(* args: l B k N then (k+1)*N coefficients -> rows ((k+1)*l*N values) then the k+1 buffers *)
Fixpoint chunks (fuel:nat) (n:nat) (v:list Z) : list (list Z) :=
  match fuel with
  | O => []
  | S f => match v with [] => [] | _ => firstn n v :: chunks f n (skipn n v) end
  end.
Definition entry_tlwe_decomp (a : list Z) : list Z :=
  match a with
  | l :: B :: k :: N :: xs =>
    let polys := chunks (Z.to_nat (k + 1)) (Z.to_nat N) xs in
    let '(rows, bufs) := tlwe_decompH (Z.to_nat l) B polys in concat rows ++ concat bufs
  | _ => []
  end.
