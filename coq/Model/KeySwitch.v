(* Model/KeySwitch.v — lwe-keyswitch-functions.cpp:114-129, 228-238 and lwekeyswitch.cpp:3-23:
   lweKeySwitch = noiseless trivial sample of b, minus row ks[i][j][aij] for every non-zero digit. *)
From Coq Require Import ZArith List Bool.
From TV Require Import Base.Int32 Model.Lwe.
Import ListNotations.
Local Open Scope Z_scope.

(* three-level index over one contiguous array: ks[i][j][h] = ks0_raw[base*(t*i+j)+h] *)
Definition ks_index (t base : Z) (i j : nat) (h : Z) : Z := base * (t * Z.of_nat i + Z.of_nat j) + h.
Definition ks_get (raw : list sample) (t base : Z) (i j : nat) (h : Z) : option sample :=
  let ix := ks_index t base i j h in
  if (ix <? 0) || (h <? 0) || (base <=? h) then None else nth_error raw (Z.to_nat ix).

Definition prec_offset (t b : Z) : Z := pow2 (32 - (1 + b * t)).
Definition aibar (t b ai : Z) : Z := u32 (ai + prec_offset t b).
Definition ks_digit (b : Z) (y : Z) (j : nat) : Z :=
  Z.land (Z.shiftr y (32 - (Z.of_nat j + 1) * b)) (pow2 b - 1).

Section KS.
Variable raw : list sample.
Variables (t : nat) (b : Z).

Definition step_j (i : nat) (y : Z) (acc : option sample) (j : nat) : option sample :=
  match acc with
  | None => None
  | Some r =>
    let d := ks_digit b y j in
    if d =? 0 then Some r
    else match ks_get raw (Z.of_nat t) (pow2 b) i j d with
         | Some row => Some (lwe_sub r row)
         | None => None
         end
  end.
Definition step_i (acc : option sample) (iai : nat * Z) : option sample :=
  fold_left (step_j (fst iai) (aibar (Z.of_nat t) b (snd iai))) (seq 0 t) acc.
Definition keyswitch (nout : nat) (c : sample) : option sample :=
  fold_left step_i (combine (seq 0 (length (fst c))) (fst c)) (Some (lwe_trivial nout (snd c))).
End KS.

(* specification level: the value a mask coefficient is rounded to *)
Definition round_tb (t b a : Z) : Z :=
  let y := aibar t b a in y - y mod pow2 (32 - t * b).

(* ---- entry: n nout t b  rows(n*t*base*(nout+1))  a(n) bv ---- *)
Fixpoint rows_of (fuel : nat) (w : nat) (v : list Z) : list sample :=
  match fuel with
  | O => []
  | S f => (firstn w v, nth w v 0) :: rows_of f w (skipn (S w) v)
  end.
Definition entry_keyswitch (v : list Z) : list Z :=
  match v with
  | n :: nout :: t :: b :: r =>
    let nn := Z.to_nat n in let no := Z.to_nat nout in let tt := Z.to_nat t in
    let nrows := Z.to_nat (n * t * pow2 b) in
    let raw := rows_of nrows no r in
    let r2 := skipn (nrows * S no) r in
    let a := firstn nn r2 in let bv := nth nn r2 0 in
    match keyswitch raw tt b no (a, bv) with
    | Some res => fst res ++ [snd res]
    | None => [-1; -1; -1]
    end
  | _ => []
  end.
(* digits and rounding of one coefficient: t b a -> aibar, digits, round *)
Definition entry_ksdigits (v : list Z) : list Z :=
  match v with
  | [t; b; a] => let y := aibar t b a in y :: map (ks_digit b y) (seq 0 (Z.to_nat t)) ++ [round_tb t b a]
  | _ => []
  end.
