#!/usr/bin/env python3
"""tools/mutate.py — small syntactic mutants of src/libtfhe as an extra source of property-breaking changes.
   gen [per_file]             write /var/tmp/mutants/list.jsonl (sampled candidates)
   run <worker> <nworkers>    for this worker's share: apply the mutant in a private worktree, build the unit tests (optim),
                              run ctest; if the suite passes, run the checks mapped to the file; append to results.jsonl
   report                     summary of results.jsonl: killed by the suite / detected by a check / survived
   Survivors are candidates for triage (equivalent mutant, or a blind spot of the checks); nothing here is a registered command."""
import sys, os, re, json, random, subprocess, time, shutil
ROOT = '/var/tmp/mutants'
FILES = {
    'numeric-functions.cpp': ['C13', 'C03', 'C04'], 'lwe-functions.cpp': ['C14', 'C07', 'C03'],
    'lwe-keyswitch-functions.cpp': ['C08', 'C07', 'C17'], 'lwe-bootstrapping-functions.cpp': ['C04', 'C09', 'C07'],
    'lwe-bootstrapping-functions-fft.cpp': ['C04', 'C09', 'C01'], 'boot-gates.cpp': ['C01', 'C15'],
    'tlwe-functions.cpp': ['C14', 'C03', 'C09', 'C07'], 'tlwe-fft-operations.cpp': ['C09', 'C04'],
    'tgsw-functions.cpp': ['C12', 'C09', 'C03'], 'tgsw-fft-operations.cpp': ['C09', 'C04'],
    'tgsw.cpp': ['C12', 'C09', 'C05'], 'tlwe.cpp': ['C14', 'C05', 'C09'], 'lwesamples.cpp': ['C14', 'C05'], 'lwekey.cpp': ['C05', 'C07'],
    'lweparams.cpp': ['C05', 'C19'], 'lwekeyswitch.cpp': ['C08', 'C05'], 'lwebootstrappingkey.cpp': ['C05', 'C04'],
    'tfhe_io.cpp': ['C05', 'C18', 'C17'], 'tfhe_generic_streams.cpp': ['C05', 'C18'], 'tfhe_gate_bootstrapping.cpp': ['C19', 'C03', 'C01'],
    'multiplication.cpp': ['C11'], 'toruspolynomial-functions.cpp': ['C11', 'C14'], 'polynomials.cpp': ['C11', 'C05'], 'lwe.cpp': ['C14', 'C04'],
    'fft_processors/nayuki/fft_processor_nayuki.cpp': ['C10'], 'fft_processors/nayuki/lagrangehalfc_impl.cpp': ['C10'],
    'fft_processors/spqlios/fft_processor_spqlios.cpp': ['C10', 'C06'], 'fft_processors/spqlios/lagrangehalfc_impl.cpp': ['C10'],
    'fft_processors/fftw/fft_processor_fftw.cpp': ['C10'], 'fft_processors/fftw/lagrangehalfc_impl.cpp': ['C10'],
}
OPS = [(r'<=', '<'), (r'(?<![<>=!-])<(?![<=])', '<='), (r'>=', '>'), (r'(?<![<>=!-])>(?![>=])', '>='), (r'==', '!='), (r'!=', '=='),
       (r'\+=', '-='), (r'-=', '+='), (r'&&', '||'), (r'\|\|', '&&'), (r' \+ ', ' - '), (r' - ', ' + '), (r'\+1\b', '+2'), (r'-1\b', '-2'), (r'\b0\b', '1'), (r'\b1\b', '0'), (r'\b2\b', '3')]

def candidates(path, rel):
    out = []
    lines = open(path, errors='replace').read().split('\n')
    incomment = False
    for i, l in enumerate(lines):
        s = l.strip()
        if '/*' in s and '*/' not in s: incomment = True
        if incomment:
            if '*/' in s: incomment = False
            continue
        if not s or s.startswith(('//', '#', '*', 'assert', 'EXPORT', 'using', 'template', 'extern')) or 'assert(' in s or 'printf' in s or 'cerr' in s or 'cout' in s: continue
        code = l.split('//')[0]
        if code.count('"') >= 2: continue
        for (rx, rep) in OPS:
            for m in re.finditer(rx, code):
                if '<' in rx and ('template' in code or re.search(r'<\s*\w+\s*[*>]', code) or 'static_cast' in code or 'reinterpret_cast' in code or '->' in code[max(0, m.start() - 1):m.end() + 1]): continue
                new = code[:m.start()] + rep + code[m.end():]
                out.append({'file': rel, 'line': i + 1, 'op': '%s->%s' % (rx, rep), 'old': l, 'new': new + l[len(code):]})
        if re.match(r'^\s*[\w:>.\-\[\]\*]+\s*\(.*\);\s*$', code) and not re.match(r'^\s*(return|delete|new|if|for|while)\b', code):
            out.append({'file': rel, 'line': i + 1, 'op': 'delete-statement', 'old': l, 'new': re.match(r'^\s*', l).group(0) + ';'})
    return out

def gen(per_file):
    os.makedirs(ROOT, exist_ok=True)
    rng = random.Random(20260929); allm = []
    for rel in FILES:
        p = os.path.join('/repo/src/libtfhe', rel)
        c = candidates(p, rel); rng.shuffle(c)
        allm += c[:per_file]
    rng.shuffle(allm)
    for i, m in enumerate(allm): m['id'] = i
    with open(os.path.join(ROOT, 'list.jsonl'), 'w') as f:
        for m in allm: f.write(json.dumps(m) + '\n')
    print(len(allm), 'mutants')

def sh(cmd, **kw):
    p = subprocess.run(cmd, stdout=subprocess.PIPE, stderr=subprocess.STDOUT, text=True, **kw)
    return p.returncode, p.stdout

def run(worker, nworkers):
    w = '/var/tmp/mutw%d' % worker; b = w + '/_b'
    if not os.path.exists(w):
        sh(['git', '-C', '/repo', 'worktree', 'add', '--detach', w, 'HEAD'])
        shutil.rmtree(w + '/src/test/googletest', ignore_errors=True); shutil.copytree('/repo/src/test/googletest', w + '/src/test/googletest')
        sh(['cmake', '-S', w + '/src', '-B', b, '-G', 'Ninja', '-Wno-dev', '-DCMAKE_BUILD_TYPE=optim', '-DENABLE_TESTS=on', '-DENABLE_FFTW=on', '-DENABLE_NAYUKI_PORTABLE=on',
            '-DENABLE_NAYUKI_AVX=on', '-DENABLE_SPQLIOS_AVX=on', '-DENABLE_SPQLIOS_FMA=on'])
        sh(['ninja', '-C', b, '-j8'])
    done = set()
    rp = os.path.join(ROOT, 'results.jsonl')
    if os.path.exists(rp):
        for l in open(rp): done.add(json.loads(l)['id'])
    muts = [json.loads(l) for l in open(os.path.join(ROOT, 'list.jsonl'))]
    env = dict(os.environ, VERIF_REPO=w, VERIF_CACHE='/var/tmp/mutcache%d' % worker, VERIF_OUT='/var/tmp/mutout%d' % worker)
    for m in muts:
        serial = 'C19' in FILES[m['file']]
        if m['id'] in done or (serial and worker != 0) or (not serial and m['id'] % nworkers != worker): continue
        if os.path.exists(os.path.join(ROOT, 'STOP')): break
        path = os.path.join(w, 'src/libtfhe', m['file']); orig = open(path).read(); lines = orig.split('\n')
        if lines[m['line'] - 1] != m['old']: continue
        lines[m['line'] - 1] = m['new']; open(path, 'w').write('\n'.join(lines))
        res = dict(m); t0 = time.time()
        try:
            rc, out = sh(['ninja', '-C', b, '-j8'], timeout=1800)
            if rc != 0: res['status'] = 'does-not-compile'
            else:
                rc, out = sh(['ctest', '--test-dir', b, '-j8', '--timeout', '600'], timeout=3600)
                if rc != 0: res['status'] = 'killed-by-suite'
                else:
                    res['status'] = 'survived'; res['checks'] = {}
                    mapped = list(FILES[m['file']])
                    if 'C16' not in mapped: mapped.append('C16')   # memory behaviour last (slow), for every survivor of the mapped checks
                    for cid in mapped:
                        rc, out = sh(['./tools/check', cid, '--tier', 'quick'], cwd='/verif', env=env, timeout=3000)
                        res['checks'][cid] = rc
                        if rc != 0:
                            res['status'] = 'detected'; res['by'] = cid; res['how'] = [l for l in out.split('\n') if l.startswith(('VIOLATION', '  '))][:3]; break
        except subprocess.TimeoutExpired:
            res['status'] = 'timeout'
        finally:
            open(path, 'w').write(orig)
        res['seconds'] = round(time.time() - t0)
        with open(rp, 'a') as f: f.write(json.dumps(res) + '\n')
    for f in ('ParamsFacts', 'AbiFacts'):
        pass

def report():
    rs = [json.loads(l) for l in open(os.path.join(ROOT, 'results.jsonl'))]
    from collections import Counter
    c = Counter(r['status'] for r in rs); print(dict(c))
    for r in rs:
        if r['status'] == 'survived': print('SURVIVED %d %s:%d %s | %s  =>  %s' % (r['id'], r['file'], r['line'], r['op'], r['old'].strip()[:90], r['new'].strip()[:90]))

if __name__ == '__main__':
    if sys.argv[1] == 'gen': gen(int(sys.argv[2]) if len(sys.argv) > 2 else 12)
    elif sys.argv[1] == 'run': run(int(sys.argv[2]), int(sys.argv[3]))
    else: report()
