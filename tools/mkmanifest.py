#!/usr/bin/env python3
# regenerates MANIFEST.json from the table below (kept in one place so it stays valid)
import json, os
V = os.path.dirname(os.path.dirname(os.path.abspath(__file__)))
props = [json.loads(l) for l in open(os.path.join(V, 'properties.jsonl'))]
TECH = "machine-checked proof in Coq + model/implementation correspondence"
C = {}
def claim(pid, cat, text, note, ref, tech=TECH):
    C[pid] = dict(cat=cat, text=text, note=note, ref=ref, tech=tech)

claim('C13', 'proof',
 "Coq theorems on the 64-bit model of numeric-functions.cpp for every phase and every M of the domain (nearest integer, encode-of-switch, round trip, torus/real identity), tied to the code by exact differential execution of the extracted model against the library on inputs aimed at the proof's case splits; thorough sweeps all 2^32 phases for each listed M",
 "trusted: Coq kernel + vm_compute, extraction (ExtrOcamlBasic), harness; exactness of two binary64 operations in dtot32; known findings D4 (dtot32 off-grid periodicity) and D5 (M=2^31 not an int32)",
 "DESIGN.md section 4, C13")
claim('C12', 'proof',
 "Coq theorems for every coefficient value and every valid (l,Bgbit): digits in [-Bg/2,Bg/2), recomposition error in [0,2^(32-l*Bgbit)) and 0 when l*Bgbit=32, caller's buffer restored, position-wise behaviour, 8-lane loops equal the scalar loops for N a positive multiple of 8; tied to the code by exact comparison of the extracted model with the optim (AVX2 assembly) and debug (scalar) builds on digit-boundary inputs; thorough sweeps all 2^32 values for the default layouts on both builds",
 "trusted: Coq kernel, extraction, harness; the model of the inline assembly is its loop structure (lane arithmetic is observed through the optim build); D7 (N not a multiple of 8) noted, outside the quantifier",
 "DESIGN.md section 4, C12")

claim('C14', 'proof',
 "Coq theorems for every n>=1, every p (incl. INT32_MIN), every key and coefficient value: phase(c1 +- p*c2) = phase(c1) +- p*phase(c2) mod 2^32 and clear/copy/negate/trivial; the 8/4/2/1 block structure of the assembly subtraction covers exactly n cells and equals the plain loop for every n; extraction of coefficient j commutes with the TLWE phase for every N,k,j; tied to the code by exact comparison with both builds for n in 1..40 and {500,...,2048} with guard zones around every array, and TLWE operations at N in {2..1024}, k in {1,2,3}",
 "trusted: Coq kernel, extraction, harness; tLwePhase (FFT) compared within 16 units at N=1024; variance annotation (double) not compared bit-exactly; defect D2 (n<8 overrun) repaired in /repo (fix: d3ee30a)",
 "DESIGN.md section 4, C14")
claim('C08', 'proof',
 "Coq theorems for every mask value, every pair of dimensions and every (t,basebit) with t*basebit<=31: digits sum to the coefficient rounded to t*basebit bits (carries and wrap-around included), rounding error in [-2^(31-tb),2^(31-tb)), and phase_out - phase_in = sum_i s_i*round_err(a_i) - (noise of the rows used) exactly mod 2^32; flat index in range; tied to the code by exact comparison of (a,b) on harness-written keys over a grid of layouts/dimensions on both builds, and by the same identity evaluated exactly with the secret keys on real generated keys (incl. 1024->630, (8,2)); thorough sweeps all 2^32 mask values for four layouts",
 "trusted: Coq kernel, extraction (fast driver, cross-checked against pure), harness; the size of the row noise is C07's subject",
 "DESIGN.md section 4, C08")

claim('C11', 'proof',
 "Coq theorems for every N>=1 (every power of two for Karatsuba) and every coefficient value: Z^N with the negacyclic shift is a commutative associative ring with unit whose product is the C loops' convolution formula; the schoolbook routine (plain/accumulate/subtract) equals it mod 2^32; the Karatsuba routine (cut-off h<=4, 2N-1 buffer, manual clearing of the middle cell, reduction) equals the plain product and hence the ring product mod 2^32; X^a and X^a-1 for every a in [0,2N) equal the a-fold shift with every access in range; X^a X^b = X^((a+b) mod 2N), X^N=-1; coefficient-wise operations for every p; tied to the code by exact comparison at N in {1..2048}, all a for N<=64, exhaustive basis pairs for N<=16, extreme vectors, both builds",
 "trusted: Coq kernel, extraction (fast driver cross-checked against pure), harness; Karatsuba's scratch-buffer layout is modelled functionally (its byte budget is C16's subject)",
 "DESIGN.md section 4, C11")

claim('C19', 'proof',
 "Coq theorems: the selector's rule for every integer lambda (abort iff lambda<=0 or >128, 80-bit set for 1..80, 128-bit set for 81..128, never weaker); over facts regenerated from the built library on every run (the real selector called for every lambda in [-5,300] and the int32 extremes, every field dumped exactly): observed = rule + documented sets, derived fields (Bg, halfBg, maskMod, kpl, offset, h_i, extracted n) equal the C12 model's, structural constraints, >=12 standard deviations of margin at every gate under formulas F1-F3 in exact rational arithmetic (13 fails: the statement is tight)",
 "trusted: Coq kernel + vm_compute, the facts generator (harness/params_dump.cpp, tools/gen_params_facts.py); F1-F3 are this development's formalisation of the library's noise formulas (DESIGN.md C19)",
 "DESIGN.md section 4, C19", "machine-checked proof in Coq over facts regenerated from the build")
claim('C20', 'proof',
 "Coq: a System V layout function proved well-formed for every member list and insensitive to non-data members; over facts regenerated from the build on every run (nm -D of the ten libraries, prototypes of the C view of tfhe.h, sizeof/alignof/offsetof printed by a C and a C++ translation unit, members parsed from both preprocessed views, displacement literals of the spqlios kernels, each public header compiled alone in both languages) the finite statements are decided by vm_compute: same members/no virtual, layout model = both compilers, C = C++ layout, every public API function an unmangled T symbol of all ten libraries, assembly displacements = offsetof",
 "trusted: gcc/g++/nm (facts), the header/prototype scanner in tools/props/c20.py; 3 prototypes are declared but defined in no variant (identical across variants; listed in the evidence)",
 "DESIGN.md section 4, C20", "machine-checked layout model in Coq + finite checks by vm_compute over build facts")

claim('C05', 'proof',
 "Coq theorems on a byte-level model of tfhe_io.cpp/tfhe_generic_streams.cpp (text sections with std::map order, %10ld/stol, type tags, little-endian arrays, the single stored variance, both transports' readers): for all 14 serialisable object types, every well-formed object and every continuation of the stream, import(export(x) ++ rest) returns x (key material: with the per-row variance normalised to the maximum) and leaves exactly rest in a good stream; stol(printf %10ld) = id on int64; the section parser inverts the section writer; re-export is idempotent; tied to the code by byte-exact comparison of exports and field-exact comparison of imports for generated objects of every type on both transports, sequences of objects in one stream, and full-size key sets (re-import, re-export, gates under original vs re-imported cloud key, decryption)",
 "trusted: Coq kernel, extraction, harness; the real-number text pair printf(%.17lg)/stold is a Section variable with the round-trip hypothesis (exercised on every object incl. both default sets; the model driver uses the same libc); defect D3 (%.8lf lossy, also a 64-byte buffer overrun for large values) repaired in /repo (fix: ff3814d)",
 "DESIGN.md section 4, C05")
claim('C17', 'proof',
 "Coq theorems on the codec model: export_secret = export_cloud ++ (LWE key section ++ TGSW key section) with a non-empty tail; every byte of the cloud export is attributed in order to public fields (parameters, one variance, (a,b) of the key-switching rows, one variance, bootstrapping-row coefficients) and the function does not take the secret keys as an argument; exact length formula; importing a cloud key from a secret export stops before the key sections; tied to the code by byte equality of harness-written key sets with the model and, on library-generated key sets (default and custom, several seeds, both transports), by the measured length against the formula, the prefix relation and a substring search for the secret keys in every encoding the library writes",
 "trusted: Coq kernel, extraction, harness; 'the bytes do not contain the key' is proved as provenance and searched as a substring (it cannot hold for all keys as a byte-level statement)",
 "DESIGN.md section 4, C17")
claim('C18', 'proof',
 "Coq theorems: a generic truncation theorem (an importer built from sticky, suffix-consuming, local readers that cleanly consumes c is never clean on a proper prefix of c, whatever follows), the raw reader and the whole text-section parser proved well-behaved on both transports, every one of the 14 importers proved to be such a program, hence (with C05's round trip) no proper prefix of any export is accepted with a good stream; wrong section titles and wrong type tags abort; tied to the code by running every importer in a forked child on every byte offset of the export of every type, all type-A-into-importer-B pairs and single-byte corruptions of titles and tags, comparing the outcome class and stream bits with the model's",
 "trusted: Coq kernel, extraction, harness; SIGSEGV on the NULL section counts as terminating the process; where a decision depends on bytes a short C++-stream read left undetermined the model answers 'unknown' and any not-clean outcome is accepted",
 "DESIGN.md section 4, C18")

claim('C09', 'proof',
 "Coq theorems for every ring degree N>=1, every k, key, accumulator, TGSW rows and decomposition layout (congruences coefficient-wise mod 2^32): the phase computed by the wrapping C loops is b - sum_u s_u*a_u in the negacyclic ring; an accumulation step r + d*C acts linearly on phases (commutativity/distributivity of the ring); phase(extprod C acc) = sum_p dec_p(acc)*phase(C_p) for the accumulation order of tGswExternMulToTLwe / tGswFFTExternMulToTLwe; tied to the code at N=1024 (forced by the FFT processors) by comparing both variants (coefficient-domain API, FFT-domain key) per coefficient with the exact extracted model and with an independent wrap-around schoolbook expectation m*(accumulator rounded to l*Bgbit bits) for noiseless rows, m in {0,1,-1,X^j,small,binary}, k in {1,2}, layouts incl. l*Bgbit=32 and Bgbit in {1,2,16}; gadget additions exact; library-encrypted rows against the analytic worst-case bound with the row noise measured from the secret key; blind rotation and single CMux steps on generated keys for exponent vectors incl. 0 and 2N-1; FFT image of the key converted back within 1 unit",
 "trusted: Coq kernel, extraction (fast driver), harness; the FFT transforms are not modelled: implementation and exact model agree within the measured FFT tolerance ((k+1)l*max(2,2^(Bgbit-8))+2 units; C10 measures the real figure); after the first CMux step accumulators are compared through their phases (a one-unit FFT difference can move a coefficient across a digit boundary of the next decomposition)",
 "DESIGN.md section 4, C09")

claim('C04', 'proof',
 "Coq theorems for every N>=1, test polynomial, exponent and dimension: coefficient 0 of X^(2N-p)*v (with the barb=0 copy branch) is the p-th coefficient of the anticyclic extension of v for all 2N values of p; with the constant test vector the message is +mu iff p in [0,N) (half-open, both edges); the rotation exponent lies in [0,2N); the output is a function of the rounded input (barb,bara) only; a zero exponent skips its key element; the scratch array sized n is written in range for every n and N (sized N it is overrun for n>N: D1, repaired); the blind-rotation phase relation is C09's; tied to the code at full size (both default sets, custom sets with n in {1,3,8,1025,1100}, k in {1,2}) by predicting p from the secret key with a library-independent rounding formula and with the extracted model on trivial samples at the centre and both rounding edges of rounded phases incl. 0,N-1,N,2N-1, masks aimed at the sign boundaries and edge-valued masks, all four variants (FFT/coefficient, with/without key switch), and at reduced n by blind-rotate-and-extract with arbitrary test polynomials against coefficient p of the anticyclic extension and against the exact model",
 "trusted: Coq kernel, extraction, harness; 'small output noise' is checked as |phase - (+-mu)| < 1/16 on every case (its size and independence of x are measured by C02); exact rounding ties of b accepted either way; defect D1 (n>N heap overflow) repaired in /repo (fix: 6f5e88c)",
 "DESIGN.md section 4, C04")

claim('C01', 'proof',
 "PARTIAL (deterministic core proved, probabilistic side conditions measured). Coq theorems (every key, every key, dimension and input samples): the temporary each of the 10 bootstrapped gates hands to the bootstrapping has phase c_g + alpha_g*phi_a + beta_g*phi_b mod 2^32; for inputs within 1/32 of +-1/8 it lies in the half-torus the truth table demands with margin 1/16 (1/8 for XOR/XNOR), all 4 rows x 10 gates with wrap-around; a rounded phase whose drift is below that margin has the right sign; an output within 1/8 of +-1/8 decrypts to the table value; composition gate_correct_partial; NOT/COPY/CONSTANT exact; the three affine stages and both regions of MUX; tied to the code through the public gate API at full size under both default sets: trivial inputs that put each gate's internal combination on and one unit either side of every decision edge (identifies constants and coefficients as a black box), all plaintext tuples x 14 gates with fresh-like, gate-output and adversarially noisy (+-(1/32-2^-20), all sign patterns) inputs, rounded exponent predicted by the extracted model and an independent formula; thorough: five back-ends x two builds",
 "partial: the two probabilistic hypotheses of gate_correct_partial (modulus-switch drift below the margin, output error below 1/8) are measured on every case and reported in the evidence, not proved about the PRNG (an adversarial mask can exceed the drift margin for n=630; C19 proves >=12 sigma under the noise formulas); runtime behaviour outside the model: FFT rounding and the real key noise",
 "DESIGN.md section 4, C01", "machine-checked proof in Coq (deterministic core) + model/implementation correspondence; probabilistic side conditions measured")

claim('C02', 'proof',
 "PARTIAL (unbounded-depth induction proved, noise statistics measured). Coq theorems over a phase-level netlist semantics (two-input gates, NOT, COPY, CONSTANT, MUX; destinations may equal sources; wires reused freely): gate contract with inputs up to 3/64 off (a bootstrapped gate maps the sign of its affine combination plus drift to exactly +-1/8 = the table value, for drift < 1/32 resp. 1/16), one-step invariant, and for EVERY netlist of any length/depth/sharing pattern and every sequence of per-gate drifts and fresh errors within the per-gate bounds every wire holds its plaintext bit with error < 3/64 after every instruction and decrypts to eval_plain; NOT's error is exactly the negated input error (no accumulation); the stdev bound is the one the noise formulas F1-F3 give on the generated parameter facts; tied to the code by evaluating random and structured netlists (in-place chains of depth 200/2000, NOT chains, trees, fan-out, ripple adders, multiplexer trees, layers on fresh / maximally noisy inputs) with the real library under both default sets, every wire decrypted after every instruction against a plaintext interpreter and the extracted eval_plain, and by sequential acceptance tests (8 estimator standard deviations) on stdev, mean, max of the phase error of every bootstrapped output and two-sample tests fresh vs deep vs noisy",
 "partial: the per-gate noise clauses (stdev <= 0.0037/0.0047, x1.35 MUX; |mean| <= bound/4; |error| < 3/64; same distribution for every input history) are measured on >= 3000 outputs per parameter set (quick) and never proved; a statistic above its bound by less than 8 estimator standard deviations after the whole sample budget is reported in the evidence notes, not alarmed on",
 "DESIGN.md section 4, C02", "machine-checked proof in Coq (induction over netlists) + model/implementation correspondence; noise statistics measured")

claim('C03', 'proof',
 "Coq theorems for every key, dimension, every M of C13's domain (any integer in [2,2^15], powers of two up to 2^30) and every message mu in [0,M): the 64-bit encoding of mu is within M units of mu*2^32/M; a phase within 2^31/M - 2 units of that encoding rounds back to it (both signs, wrap-around at mu = 0 included); lweSymEncrypt given its draws has phase = message + converted Gaussian draw and mask = the next n words, so decrypt(encrypt) = message whenever the draw is below the threshold; noiseless trivial samples decrypt under every key; bootsSymDecrypt(bootsSymEncrypt(b)) = b for |e| < 1/8; the phase of a fresh TLWE encryption of zero is the vector of its converted draws (ring phase, every N, k); tied to the code by library encryptions (draws replayed) and harness-built ciphertexts with the error exactly on, one unit inside and one unit outside the threshold of either sign, for n in {1..9,500,630,1024} and Msize in {2..64,100,1000,2^k,random}, TLWE (polynomial and constant messages) and TGSW (Msize a power of two <= Bg) at N=1024, k in {1,2}, and the gate API; every decryption compared with the message, the extracted model and an independent nearest-multiple formula",
 "trusted: Coq kernel, extraction, harness; 'every noise level with Msize*alpha <= 1/20' is a 10-sigma Gaussian tail statement: the theorems are deterministic in the error and the run reports the largest |error|/threshold seen; TGSW decryption is modelled and compared, its correctness theorem is not proved (tgsw_decrypt_correct of DESIGN.md not done)",
 "DESIGN.md section 4, C03")
claim('C07', 'proof',
 "PARTIAL (exact draw-to-ciphertext identities proved, the sampler's distribution measured). Coq theorems on a model in which randomness is an explicit stream of draws (uniform word / key bit / Gaussian binary64), for every dimension: lweSymEncrypt's mask is exactly the n draws after its Gaussian draw and its phase error is exactly the converted draw (neither larger, smaller nor zeroed); two successive encryptions read disjoint adjacent stream segments; the gate-API and external-noise encryptions likewise; for the key-switching key, in row order, row (i,j,h>=1) has phase message + converted recentred noise and every h = 0 row is the trivial zero sample; a TLWE row's masks are the drawn words and its ring phase is one draw per coefficient; tied to the code by seeding the library generator, cloning it, calling the library, driving the clone through the draw sequence the model predicts and requiring equal generator states (operator==), then requiring the model on those draws to reproduce the library output bit for bit (LWE keys/samples, every key-switching row incl. the binary64 recentring, masks) or within 2 units (b polynomials through the FFT) up to whole secret key sets; statistics (mean, variance, kurtosis per noise level 2^-30..2^-5 and the defaults; mask byte histogram and lag correlation; key bit frequency; key-switching row errors sum to zero) with 8-sigma acceptance regions; seeding determinism",
 "partial: std::default_random_engine, normal_distribution, uniform_int_distribution and seed_seq are trusted, not modelled (replayed through the same libstdc++ headers); that keys are binary and the sampler has the requested stdev is measured on the draws the ciphertexts are proved and checked to embed",
 "DESIGN.md section 4, C07", "machine-checked proof in Coq (draw-stream model) + bit-exact replay correspondence; sampler statistics measured")

NA_REASON = "check not built yet in this revision (work in progress; DESIGN.md section 8 gives the order)"
checks = []
for p in props:
    pid = p['id']
    if pid not in C: continue
    c = C[pid]
    checks.append({
        "property_id": pid,
        "quick_cmd": "./tools/check %s --tier quick" % pid,
        "thorough_cmd": "./tools/check %s --tier thorough" % pid,
        "evidence_file": "evidence/%s.json" % pid,
        "replay_cmd_template": "./tools/check %s --replay {path}" % pid,
        "engine": "coq-model+correspondence",
        "level_claimed": {"category": c['cat'], "text": c['text'], "design_ref": c['ref']},
        "level_note": c['note'],
        "technique": c['tech'],
    })
na = [{"property_id": p['id'], "reason": NA_REASON} for p in props if p['id'] not in C]
m = {"version": 1, "setup_cmd": "./tools/setup.sh",
     "hooks": {"guard": "TFHE_VERIF",
               "enable": "no instrumentation hooks are needed: the checks build /repo's working tree unmodified (cmake -S /repo/src, out of tree); the guard name is reserved",
               "baseline_off_cmd": "./tools/baseline_off.sh", "source_commits": [], "add_only": True},
     "engines": [{"name": "coq-model+correspondence", "path": "tools/check", "serves_properties": sorted(C),
                  "kind_free_text": "Coq 8.16.1 theorems about a hand-written Gallina model; extracted OCaml model run against the freshly built library on the same inputs"}],
     "checks": checks, "notes": "see DESIGN.md"}
if na: m["not_applicable"] = na
json.dump(m, open(os.path.join(V, 'MANIFEST.json'), 'w'), indent=1)
print('MANIFEST.json: %d checks, %d not claimed' % (len(checks), len(na)))
