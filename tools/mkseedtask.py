#!/usr/bin/env python3
# tools/mkseedtask.py <ID> [suffix] — prepares a scratch worktree of /repo under /tmp/seed/<ID><suffix> holding only the
# text of one property (PROPERTY.md) and the task description (TASK.md) for an independent sub-agent
# that is asked for a property-breaking change.  Nothing from /verif is copied there.
import sys, os, json, subprocess
pid = sys.argv[1].upper(); suf = sys.argv[2] if len(sys.argv) > 2 else ''
hint = sys.argv[3] if len(sys.argv) > 3 else ''
here = os.path.dirname(os.path.dirname(os.path.abspath(__file__)))
p = [json.loads(l) for l in open(os.path.join(here, 'properties.jsonl')) if json.loads(l)['id'] == pid][0]
d = '/tmp/seed/%s%s' % (pid, suf)
os.makedirs('/tmp/seed', exist_ok=True)
if not os.path.exists(d):
    subprocess.check_call(['git', '-C', '/repo', 'worktree', 'add', '--detach', d, 'HEAD'], stdout=subprocess.DEVNULL)
txt = ['# Property %s: %s' % (pid, p['title']), '', p['statement'], '', 'Quantifier: ' + p['quantifier']['text'], '',
       'Why the existing tests cannot settle it: ' + p['why_tests_cant'], '', 'Anchored in: ' + ', '.join(p['anchors']['files']), '', 'Mechanisms:']
for m in p['anchors']['mechanism']: txt.append('- %s (%s)' % (m['name'], m['where']))
txt += ['', 'Observed at: ' + '; '.join(p['anchors']['observe_at'])]
open(os.path.join(d, 'PROPERTY.md'), 'w').write('\n'.join(txt) + '\n')
task = '''# Task

You are in a scratch git worktree of the tfhe/tfhe library (C/C++11; sources under `src/`), at `{d}`.
Work ONLY inside `{d}`. Never touch `/repo` or `/verif`, do not read anything under `/verif`.

`PROPERTY.md` (next to this file) states one semantic property that the library currently satisfies.

Produce ONE realistic change to the library sources (files under `src/libtfhe` or `src/include`; not the tests,
not the build system unless the property is about the build) that BREAKS the property while
 * still compiling (all five back-ends, build types `optim` and `debug`), and
 * still passing the existing unit-test suite, unedited (see "Running the tests" below).

The change must look like something a maintainer could plausibly commit (a refactoring slip, an
"optimisation", an off-by-one, a wrong constant, a mis-ordered statement, a dropped special case ...), not sabotage
that any use would expose at once.  Prefer a change that needs something specific to manifest: an unusual input
or boundary value, a particular dimension or parameter combination, a multi-step sequence of operations, a
particular interleaving or fault point, or two cooperating sites that each look fine alone.
{hint}

Also write a demonstration: a small stand-alone C++ (or C) program `seed/demo.cpp` that links against the freshly
built library (`libtfhe-spqlios-fma.so`, or another back-end if that is the point) and exits 0 on the ORIGINAL
tree and non-zero (printing what went wrong) on the CHANGED tree.  You must actually run it both ways.

## Deliverables (all under `{d}/seed/`)
 * `patch.diff`  — output of `git diff` for the source change only (applies with `git apply` to a clean checkout of HEAD)
 * `demo.cpp`    — the demonstration, and `run_demo.sh <build-dir-containing-libtfhe>` that compiles and runs it
 * `meta.json`   — {{"property": "{pid}", "summary": "...", "needs_to_manifest": "...", "files_changed": [...],
                     "tests_run": "...", "demo_result_original": "...", "demo_result_changed": "..."}}

## Building and running the tests (offline; nothing can be downloaded)
```
cmake -S {d}/src -B {d}/_b_optim -G Ninja -Wno-dev -DCMAKE_BUILD_TYPE=optim -DENABLE_TESTS=on -DENABLE_FFTW=on \\
   -DENABLE_NAYUKI_PORTABLE=on -DENABLE_NAYUKI_AVX=on -DENABLE_SPQLIOS_AVX=on -DENABLE_SPQLIOS_FMA=on
ninja -C {d}/_b_optim
ctest --test-dir {d}/_b_optim -j8 --timeout 900          # all tests must pass; same again with -DCMAKE_BUILD_TYPE=debug in _b_debug
```
The libraries are then in `{d}/_b_optim/libtfhe/libtfhe-<backend>.so`, headers in `{d}/src/include`
(internal headers in `{d}/src/libtfhe`).  Compile a demo with e.g.
`g++ -std=gnu++11 -O1 -I {d}/src/include demo.cpp -o demo -L <bdir>/libtfhe -ltfhe-spqlios-fma -Wl,-rpath,<bdir>/libtfhe`.
Key generation for the default parameter set takes about 1 s, one bootstrapped gate about 20 ms.

When finished: leave the source change applied in the worktree is NOT needed - save `patch.diff`, then run
`git checkout -- src` so that the worktree is clean again, and delete your build directories (`_b_*`) to save disk.
Reply with a short summary: what you changed, why the tests still pass, what is needed for it to manifest.
'''.format(d=d, pid=pid, hint=hint)
open(os.path.join(d, 'TASK.md'), 'w').write(task)
print(d)
