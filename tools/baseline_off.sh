#!/bin/sh
# runs the repository's own test suite (guard off: no hooks exist) on the current working tree,
# out of tree, both build types, all five back-ends; scratch is removed afterwards.
set -e
d=$(mktemp -d /var/tmp/tfhe-baseline.XXXXXX)
trap 'rm -rf "$d"' EXIT
rc=0
for bt in optim debug; do
  cmake -S /repo/src -B "$d/$bt" -G Ninja -Wno-dev -DCMAKE_BUILD_TYPE=$bt -DENABLE_TESTS=on -DENABLE_FFTW=on \
     -DENABLE_NAYUKI_PORTABLE=on -DENABLE_NAYUKI_AVX=on -DENABLE_SPQLIOS_AVX=on -DENABLE_SPQLIOS_FMA=on >/dev/null
  ninja -C "$d/$bt" >/dev/null
  ctest --test-dir "$d/$bt" -j8 --timeout 900 --output-junit "$d/$bt.xml" || rc=1
done
exit $rc
