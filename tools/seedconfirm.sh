#!/bin/sh
# tools/seedconfirm.sh <dir with patch.diff demo.cpp run_demo.sh> — independent confirmation of a seeded change in a
# scratch worktree: the demo passes on the original tree; with the patch the tree builds (optim+debug, five back-ends),
# the unedited unit tests pass, and the demo fails.  Prints CONFIRMED or NOT-CONFIRMED; scratch removed afterwards.
src=$(cd "$1" && pwd); w=/tmp/confirm-$$
git -C /repo worktree add --detach $w HEAD >/dev/null 2>&1 || exit 2
trap 'git -C /repo worktree remove --force '$w' >/dev/null 2>&1; rm -rf '$w EXIT
rmdir $w/src/test/googletest 2>/dev/null; cp -r /repo/src/test/googletest $w/src/test/googletest 2>/dev/null || cp -r /usr/src/googletest $w/src/test/googletest
# keep the depth of the seed directory below the worktree root (demos of two-seed deliveries live in seed/a, seed/b and use ../../src)
case $(basename $src) in a|b) sd=$w/seed/$(basename $src);; *) sd=$w/seed;; esac
mkdir -p $sd; cp $src/* $sd/ 2>/dev/null
cfg() { cmake -S $w/src -B $w/_b_$1 -G Ninja -Wno-dev -DCMAKE_BUILD_TYPE=$1 -DENABLE_TESTS=on -DENABLE_FFTW=on -DENABLE_NAYUKI_PORTABLE=on -DENABLE_NAYUKI_AVX=on -DENABLE_SPQLIOS_AVX=on -DENABLE_SPQLIOS_FMA=on >/dev/null && ninja -C $w/_b_$1 >/dev/null 2>$w/_b_$1.err; }
cfg optim || { echo "NOT-CONFIRMED: original does not build"; exit 1; }
(cd $sd && timeout 1200 sh ./run_demo.sh $w/_b_optim) > $w/demo_orig.log 2>&1; d0=$?
git -C $w apply $src/patch.diff || { echo "NOT-CONFIRMED: patch does not apply"; exit 1; }
cfg optim || { echo "NOT-CONFIRMED: patched optim build fails"; tail -5 $w/_b_optim.err; exit 1; }
cfg debug || { echo "NOT-CONFIRMED: patched debug build fails"; tail -5 $w/_b_debug.err; exit 1; }
t=0
for b in optim debug; do ctest --test-dir $w/_b_$b -j8 --timeout 900 > $w/ctest_$b.log 2>&1 || t=1; done
(cd $sd && timeout 1200 sh ./run_demo.sh $w/_b_optim) > $w/demo_chg.log 2>&1; d1=$?
echo "demo original exit=$d0; patched: tests $( [ $t = 0 ] && echo pass || echo FAIL ), demo exit=$d1"
tail -3 $w/demo_chg.log | cut -c1-300
if [ $d0 = 0 ] && [ $t = 0 ] && [ $d1 != 0 ]; then echo CONFIRMED; else echo NOT-CONFIRMED; tail -5 $w/ctest_optim.log $w/ctest_debug.log $w/demo_orig.log; exit 1; fi
