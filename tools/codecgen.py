# tools/codecgen.py — generators of serialisable objects (flattened as coq/Codec/Flat.v) for C05/C17/C18
import struct, random
def d2b(d): return struct.unpack('<Q', struct.pack('<d', d))[0]
def b2d(b): return struct.unpack('<d', struct.pack('<Q', b))[0]
ALPHAS = [0.1, 0.3, 2.0**-15, 2.0**-25, 7.18e-9, 2.44e-5, 0.012467, 1e-12, 0.5, 1.0, 3.0517578125e-05, 1e-300, 0.25, 1.0 / 3, 4.9e-324, 1.7976931348623157e308, 0.0]
EXT = [0, 1, -1, 2**31 - 1, -2**31, 0x0A0A0A0A, 0x0D0A0D0A, 0x2D2D2D2D, 42, 84, 168, 200, 201]   # incl. bytes that look like text

def alpha(rng):
    if rng.random() < 0.6: return rng.choice(ALPHAS)
    return 10 ** rng.uniform(-12, -0.3) if rng.random() < 0.7 else rng.random()
def coef(rng):
    return vw32(rng.choice(EXT)) if rng.random() < 0.25 else rng.randrange(-2**31, 2**31)
def vw32(z): return ((z + 2**31) % 2**32) - 2**31
def var(rng):
    return d2b(rng.choice([0.0, 1e-9, 2.0**-30, 9.313225746154785e-10, 5.9536e-10, rng.random() * 1e-4, 1.0]))
def lp(rng, n): return [n, d2b(alpha(rng)), d2b(alpha(rng))]
def tp(rng, N, k): return [N, k, d2b(alpha(rng)), d2b(alpha(rng))]
def gp(rng, N, k, l, B): return tp(rng, N, k) + [l, B]
def lwesample(rng, n): return [coef(rng) for _ in range(n)] + [coef(rng), var(rng)]
def tlwesample(rng, N, k): return [coef(rng) for _ in range((k + 1) * N)] + [var(rng)]
def ks(rng, n, t, b, nout): 
    out = [n, t, b]
    for _ in range(n * t * (1 << b)): out += lwesample(rng, nout)
    return out
def bk(rng, nin, N, k, l, t, b):
    out = ks(rng, N * k, t, b, nin)
    for _ in range(nin * (k + 1) * l): out += tlwesample(rng, N, k)
    return out

def gen(rng, code, size='small'):
    """returns (fields, ctx) : fields for cexp, ctx = parameters an importer of samples is given"""
    N = rng.choice([1, 2, 4]) if size == 'small' else 1024
    k = rng.choice([1, 2]) if size == 'small' else 1
    l = rng.choice([1, 2, 3]) if size == 'small' else 1
    n = rng.choice([1, 2, 3, 5]) if size == 'small' else rng.choice([1, 2])
    t = rng.choice([1, 2, 3]); b = rng.choice([1, 2, 3, 4]) if size == 'small' else 1          # basebit up to 4: base 16 (2*basebit and 2^basebit part ways at 3)
    B = rng.choice([1, 7, 10, 16])
    if code == 1: return lp(rng, rng.choice([n, 500, 630, 0, 1024])), []
    if code == 2: return [n] + lwesample(rng, n), [n]
    if code == 3: return lp(rng, n) + [rng.randrange(2) if rng.random() < .7 else coef(rng) for _ in range(n)], []
    if code == 4: return tp(rng, rng.choice([N, 1024]), k), []
    if code == 5: return [N, k] + tlwesample(rng, N, k), [N, k]
    if code == 6: return tp(rng, N, k) + [rng.randrange(2) for _ in range(k * N)], []
    if code == 7: return gp(rng, rng.choice([N, 1024]), k, l, B), []
    if code == 8:
        out = [N, k, l]
        for _ in range((k + 1) * l): out += tlwesample(rng, N, k)
        return out, [N, k, l]
    if code == 9: return gp(rng, N, k, l, B) + [rng.randrange(2) for _ in range(k * N)], []
    if code == 10: return lp(rng, n) + ks(rng, rng.choice([1, 2, 3]), t, b, n), []
    if code == 11: return lp(rng, n) + gp(rng, N, k, l, B) + bk(rng, n, N, k, l, t, b), []
    if code == 12: return [t, b] + lp(rng, rng.choice([n, 630])) + gp(rng, rng.choice([N, 1024]), k, l, B), []
    if code == 13: return [t, b] + lp(rng, n) + gp(rng, N, k, l, B) + bk(rng, n, N, k, l, t, b), []
    if code == 14: return [t, b] + lp(rng, n) + gp(rng, N, k, l, B) + bk(rng, n, N, k, l, t, b) + [rng.randrange(2) for _ in range(n)] + [rng.randrange(2) for _ in range(k * N)], []
NAMES = {1: 'LweParams', 2: 'LweSample', 3: 'LweKey', 4: 'TLweParams', 5: 'TLweSample', 6: 'TLweKey', 7: 'TGswParams', 8: 'TGswSample', 9: 'TGswKey',
         10: 'LweKeySwitchKey', 11: 'LweBootstrappingKey', 12: 'ParameterSet', 13: 'CloudKeySet', 14: 'SecretKeySet'}
PARAM_FREE = [1, 3, 4, 6, 7, 9, 10, 11, 12]   # importers that need no parameters and no FFT
