#!/usr/bin/env python3
# validates MANIFEST.json and every evidence file against the schemas in /root/.vp (uses the tooling venv's jsonschema when present)
import json, sys, os, glob
try:
    import jsonschema
except ImportError:
    os.execv('/usr/local/bin/python3-vt', ['python3-vt'] + sys.argv)
V = os.path.dirname(os.path.dirname(os.path.abspath(__file__)))
ok = True
def chk(path, schema):
    global ok
    try:
        jsonschema.validate(json.load(open(path)), json.load(open(schema))); print('valid  ', os.path.relpath(path, V))
    except Exception as e:
        ok = False; print('INVALID', os.path.relpath(path, V), str(e)[:300])
chk(os.path.join(V, 'MANIFEST.json'), '/root/.vp/MANIFEST.schema.json')
for f in sorted(glob.glob(os.path.join(V, 'evidence', '*.json'))): chk(f, '/root/.vp/EVIDENCE.schema.json')
sys.exit(0 if ok else 1)
