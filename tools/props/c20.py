# C20 — all FFT back-end libraries are drop-in interchangeable and usable from C
import vlib, json, os, re, subprocess, tempfile, shutil
LEVEL = 'proof'
FACTS = os.path.join(vlib.COQ, 'gen', 'AbiFacts.v')
INC = os.path.join(vlib.REPO, 'src', 'include')
KEYWORDS = {'if', 'while', 'for', 'switch', 'return', 'sizeof', 'struct', 'typedef', 'static', 'const', 'void', 'int', 'double', 'char', 'long', 'unsigned', 'signed', 'extern',
            '__attribute__', '__asm__', '__extension__', '__nonnull', '__restrict', '__inline', 'inline', '__builtin_va_list', '_Noreturn', '__leaf__', '__nothrow__'}

def sh(cmd, **kw):
    p = subprocess.run(cmd, stdout=subprocess.PIPE, stderr=subprocess.STDOUT, text=True, **kw)
    return p.returncode, p.stdout

def public_headers():
    rc, out = sh(['gcc', '-std=c99', '-M', '-I', INC, os.path.join(INC, 'tfhe.h')])
    hs = sorted({os.path.basename(t) for t in out.replace('\\\n', ' ').split() if t.startswith(INC)})
    return hs

def strip_lines(txt):
    return '\n'.join(l for l in txt.split('\n') if not l.startswith('#'))

def parse_structs(txt):
    """struct Name { ... }; -> {name: [data member names]} plus flags; works on preprocessed C and C++"""
    res = {}
    for m in re.finditer(r'\bstruct\s+(\w+)\s*(:[^{;]*)?\{', txt):
        name = m.group(1); base = m.group(2)
        i = m.end(); depth = 1; decl = ''; members = []; virt = False
        while i < len(txt) and depth > 0:
            ch = txt[i]
            if ch == '{':
                depth += 1
            elif ch == '}':
                depth -= 1
                if depth == 1: decl = ''          # end of an inline function body
            elif ch == ';' and depth == 1:
                d = decl.strip(); decl = ''
                if d:
                    if 'virtual' in d.split(): virt = True
                    if '(' not in d and 'operator' not in d and not d.startswith(('public', 'private', 'protected', 'friend', 'using', 'typedef', 'static')):
                        nm = re.findall(r'(\w+)\s*(?:\[[^\]]*\])?\s*$', d)
                        if nm: members.append(nm[0])
                i += 1; continue
            if depth >= 1 and ch != '}': decl += ch if depth == 1 else ''
            i += 1
        res[name] = {'members': members, 'virtual': virt, 'base': bool(base and base.strip(': \n'))}
    return res

def api_functions(ctext):
    """function prototypes declared by the public headers in their C view"""
    names = set()
    depth = 0; stmt = ''
    for ch in ctext:
        if ch == '{': depth += 1
        elif ch == '}': depth -= 1
        elif ch == ';' and depth == 0:
            s = stmt.strip(); stmt = ''
            if s.startswith('typedef') or '(' not in s: continue
            m = re.match(r'^[\w\s\*]*?\b(\w+)\s*\(', s)
            if m and m.group(1) not in KEYWORDS: names.add(m.group(1))
            continue
        if depth == 0: stmt += ch
    return sorted(names)

def strip_comments(t):
    return re.sub(r'/\*.*?\*/|//[^\n]*', ' ', t, flags=re.S)

def header_definitions(ctext):
    """(name, is_static) of every function defined (with a body) at file scope of the preprocessed C view"""
    out = []; depth = 0; stmt = ''
    for ch in ctext:
        if ch == '{':
            if depth == 0:
                s = stmt.strip()
                if s.endswith(')') and not re.match(r'^(typedef|struct|union|enum)\b', s) and '=' not in s:
                    m = re.search(r'\b(\w+)\s*\([^()]*(\([^()]*\)[^()]*)*\)$', s)
                    if m and m.group(1) not in KEYWORDS: out.append((m.group(1), bool(re.search(r'\bstatic\b', s))))
            depth += 1
        elif ch == '}':
            depth -= 1
            if depth == 0: stmt = ''
        elif ch == ';' and depth == 0: stmt = ''
        elif depth == 0: stmt += ch
    return out

def coq_str(s): return '"%s"%%string' % s

def run(ctx):
    ctx.rule = ('facts from the build: nm -D of the ten libraries (5 back-ends x optim/debug), prototypes of the public headers (C view of tfhe.h), sizeof/alignof/offsetof of every '
                'public structure and field printed by a C99 and a C++11 translation unit, members parsed from both preprocessed views, displacement literals of the spqlios kernels; '
                'each public header compiled alone as C99 and C++11. distinct = distinct facts (symbol x library, field x view, header x language)')
    ctx.assumptions = ['gcc/g++ 12.2 and binutils nm report the facts truthfully', 'public header = reachable from tfhe.h compiled as C (gcc -M)']
    work = tempfile.mkdtemp(prefix='tfhe-c20-', dir='/var/tmp')
    try:
        _run(ctx, work)
    finally:
        shutil.rmtree(work, ignore_errors=True)

def _run(ctx, work):
    hdrs = public_headers()
    # 1. every public header alone, both languages
    hdr_ok = []
    for h in hdrs:
        for lang, comp, std in (('c', 'gcc', '-std=c99'), ('c++', 'g++', '-std=c++11')):
            rc, out = sh([comp, std, '-fsyntax-only', '-x', lang, '-I', INC, os.path.join(INC, h)])
            ctx.count(('hdr', h, lang))
            hdr_ok.append((h, lang, rc == 0))
            if rc != 0:
                ctx.report('header-%s-%s' % (h, lang), 'public header %s does not compile alone as %s: %s' % (h, 'C99' if lang == 'c' else 'C++11', out.strip().split('\n')[0][:200]), {'header': h, 'lang': lang, 'log': out[-1500:]})
    # 2. views
    def own(text):
        # keep only the part of a preprocessed view that comes from the repository's headers
        keep = []; on = False
        for l in text.split('\n'):
            if l.startswith('#'):
                m = re.match(r'# \d+ "([^"]+)"', l)
                if m: on = m.group(1).startswith(INC)
                continue
            if on: keep.append(l)
        return '\n'.join(keep)
    rc, ctext = sh(['gcc', '-std=c99', '-E', '-x', 'c', '-I', INC, os.path.join(INC, 'tfhe.h')]); ctext = own(ctext)
    rc, xtext = sh(['g++', '-std=c++11', '-E', '-x', 'c++', '-I', INC, os.path.join(INC, 'tfhe.h')]); xtext = own(xtext)
    cs = parse_structs(ctext); xs = parse_structs(xtext)
    structs = sorted(n for n in cs if cs[n]['members'])
    api = api_functions(ctext)
    # 3. probes
    body = []
    for s in structs:
        body.append('  printf("STRUCT %s %%zu %%zu\\n", sizeof(struct %s), ALIGNOF(struct %s));' % (s, s, s))
        for f in cs[s]['members']:
            body.append('  printf("FIELD %s %s %%zu %%zu %%zu\\n", offsetof(struct %s, %s), sizeof(((struct %s*)0)->%s), ALIGNOF(__typeof__(((struct %s*)0)->%s)));' % (s, f, s, f, s, f, s, f))
    src = '#include <stdio.h>\n#include <stddef.h>\n#include "tfhe.h"\n#include "tfhe_io.h"\n#ifdef __cplusplus\n#define ALIGNOF(t) alignof(t)\n#else\n#define ALIGNOF(t) __alignof__(t)\n#endif\nint main(void) {\n' + '\n'.join(body) + '\n  return 0;\n}\n'
    views = {}
    # the C view is the project's own C mode (-std=c99); later C standards and both C++ standards must see the same objects
    for lang, comp, std, ext in (('c', 'gcc', '-std=c99', 'c'), ('cpp', 'g++', '-std=gnu++11', 'cpp'), ('c11', 'gcc', '-std=gnu11', 'c'), ('c17', 'gcc', '-std=gnu17', 'c'), ('cpp17', 'g++', '-std=gnu++17', 'cpp'),
                                 ('c-ndebug', 'gcc', '-std=c99', 'c'), ('cpp-ndebug', 'g++', '-std=gnu++11', 'cpp')):
        p = os.path.join(work, 'probe_%s.%s' % (lang, ext)); open(p, 'w').write(src)
        rc, out = sh([comp, std, '-Wno-invalid-offsetof'] + (['-DNDEBUG', '-O2'] if lang.endswith('-ndebug') else []) + ['-I', INC, p, '-o', p + '.exe'])   # the optimised libraries are built with NDEBUG, a client need not be
        if rc != 0:
            ctx.report('probe-' + lang, 'layout probe does not compile as %s: %s' % (lang, out.strip().split('\n')[0][:300]), {'log': out[-2000:]}); views[lang] = {}; continue
        rc, out = sh([p + '.exe'])
        v = {}
        for l in out.splitlines():
            t = l.split()
            if t[0] == 'STRUCT': v[t[1]] = {'size': int(t[2]), 'align': int(t[3]), 'fields': []}
            else: v[t[1]]['fields'].append((t[2], int(t[3]), int(t[4]), int(t[5])))
        views[lang] = v
    # 4. symbols of the ten libraries
    libs = {}
    for variant in ('optim', 'debug'):
        bdir = vlib.build_lib(variant)
        for be in vlib.BACKENDS:
            rc, out = sh(['nm', '-D', '--defined-only', os.path.join(bdir, 'libtfhe', 'libtfhe-%s.so' % be)])
            # strong (T) and weak (W) function definitions: both resolve a reference from a client
            libs['%s-%s' % (be, variant)] = sorted({l.split()[2] for l in out.splitlines() if len(l.split()) == 3 and l.split()[1] in ('T', 'W') and not l.split()[2].startswith('_Z')})
    # 4b. what each variant puts behind the two pointers of the public LagrangeHalfCPolynomial (data: the polynomial's own buffer of N
    #     doubles, zero after Clear; precomp: the processor shared by all polynomials of a thread), seen by a C99 client
    csrc = ('#include <stdio.h>\n#include <string.h>\n#include "tfhe.h"\n#include "lagrangehalfc_arithmetic.h"\nint main(void) {\n'
            '  LagrangeHalfCPolynomial *p = new_LagrangeHalfCPolynomial_array(2, 1024); int bad = 0, i; double z[1024];\n'
            '  LagrangeHalfCPolynomialClear(p); LagrangeHalfCPolynomialClear(p + 1); memset(z, 0, sizeof z);\n'
            '  if (p[0].data == p[1].data) bad |= 1; if (p[0].precomp != p[1].precomp) bad |= 2; if (!p[0].data || !p[0].precomp) bad |= 4;\n'
            '  if (!(bad & 5) && memcmp(p[0].data, z, sizeof z)) bad |= 8;\n'
            '  (void) i; printf("%d\\n", bad); delete_LagrangeHalfCPolynomial_array(2, p); return 0; }\n')
    cp = os.path.join(work, 'objprobe.c'); open(cp, 'w').write(csrc)
    obdir = vlib.build_lib('optim')
    for be in vlib.BACKENDS:
        ctx.count(('objprobe', be))
        rc, out = sh(['gcc', '-std=c99', '-O0', '-I', INC, cp, '-o', cp + '.' + be, '-L', os.path.join(obdir, 'libtfhe'), '-ltfhe-' + be, '-Wl,-rpath,' + os.path.join(obdir, 'libtfhe')])
        if rc != 0: ctx.report('objprobe-link-' + be, 'a C99 client using the public LagrangeHalfCPolynomial does not link against %s: %s' % (be, out.strip().split('\n')[-1][:200]), {'backend': be, 'log': out[-1500:]}); continue
        rc, out = sh([cp + '.' + be])
        if rc != 0 or out.strip() != '0':
            ctx.report('object-contents-' + be, 'variant %s: the fields of the public LagrangeHalfCPolynomial do not hold what the header documents (flags %s: 1 data shared between polynomials, 2 precomp not shared, 4 null, 8 data is not the zeroed buffer after Clear); the other variants do' % (be, out.strip() or rc), {'backend': be, 'flags': out.strip()})
    # 5. assembly displacements vs the C++ structure of the spqlios back-end
    asm = {}
    spq = os.path.join(vlib.REPO, 'src', 'libtfhe', 'fft_processors', 'spqlios')
    for f in ('lagrangehalfc_impl_fma.s', 'lagrangehalfc_impl_avx.s'):
        t = open(os.path.join(spq, f)).read()
        for tag, rx in (('proc', r'(\d+)\(%r[ds]i\),\s*%rax\s*/\*\s*rax: proc'), ('Ns2', r'(\d+)\(%rax\),\s*%ecx\s*/\*\s*ecx: Ns2')):
            ds = sorted(set(int(x) for x in re.findall(rx, t)))
            asm['%s:%s' % (f, tag)] = ds
    psrc = '#include <cstdio>\n#include <cstddef>\n#include "lagrangehalfc_impl.h"\nint main(){printf("%zu %zu %zu\\n", offsetof(LagrangeHalfCPolynomial_IMPL, proc), offsetof(FFT_Processor_Spqlios, Ns2), offsetof(LagrangeHalfCPolynomial_IMPL, coefsC));}\n'
    p = os.path.join(work, 'asmprobe.cpp'); open(p, 'w').write(psrc)
    rc, out = sh(['g++', '-std=gnu++11', '-Wno-invalid-offsetof', '-I', INC, '-I', spq, p, '-o', p + '.exe'])
    asm_off = None
    if rc == 0:
        rc, out = sh([p + '.exe']); asm_off = [int(x) for x in out.split()]
    else:
        ctx.report('asm-probe', 'spqlios structure probe does not compile: ' + out[:300], {'log': out[-1500:]})
    # the public API = declared prototypes that at least one variant defines; prototypes no variant
    # defines (dead declarations) are identical across variants and are listed, not alarmed on
    declared = api
    anywhere = set().union(*[set(v) for v in libs.values()]) if libs else set()
    dead = [f for f in declared if f not in anywhere]
    api = [f for f in declared if f in anywhere]
    ctx.cov['declared_but_defined_in_no_variant'] = dead
    # a prototype no variant exports must really be dead: no definition anywhere in the sources (comments stripped).  A function
    # that is defined - in a .cpp or as an inline function of a header - but exported by no variant cannot be called from C
    srcs = []
    for root in (os.path.join(vlib.REPO, 'src', 'libtfhe'), INC):
        for dp, dn, fn in os.walk(root):
            srcs += [os.path.join(dp, f) for f in fn if f.endswith(('.cpp', '.h', '.c', '.hpp'))]
    code = {f: strip_comments(open(f, errors='replace').read()) for f in srcs}
    for f in dead:
        ctx.count(('dead', f))
        rx = re.compile(r'\b%s\s*\([^;{}]*\)\s*\{' % re.escape(f))
        where = [os.path.relpath(q, vlib.REPO) for q, t in code.items() if rx.search(t)]
        if where:
            ctx.report('defined-not-exported-' + f, 'public API function %s is declared in the public headers and defined in %s, but none of the ten libraries exports it: a C client cannot call it' % (f, ', '.join(where)), {'function': f, 'defined_in': where})
    # function definitions inside the public headers (C99 view): an inline definition gives no external definition in C99
    for (fname, static) in header_definitions(ctext):
        ctx.count(('hdrdef', fname))
        if not static:
            ctx.report('header-defines-' + fname, 'the public headers define the non-static function %s in their C99 view: C99 gives an inline definition no external definition, so whether a C client links depends on the optimisation level of the library and of the client' % fname, {'function': fname})
    # ---- independent oracle in Python ----
    for s in structs:
        c = views.get('c', {}).get(s); x = views.get('cpp', {}).get(s)
        ctx.count(('struct', s))
        if c is None or x is None: continue
        if xs.get(s, {}).get('virtual') or xs.get(s, {}).get('base'):
            ctx.report('struct-virtual-' + s, 'public structure %s has a virtual member or a base class in its C++ view' % s, {'struct': s})
        if cs[s]['members'] != xs.get(s, {}).get('members'):
            ctx.report('struct-members-' + s, 'C and C++ views of %s list different data members: %s vs %s' % (s, cs[s]['members'], xs.get(s, {}).get('members')), {'struct': s, 'c': cs[s]['members'], 'cpp': xs.get(s, {}).get('members')})
        for other in ('c11', 'c17', 'cpp17', 'c-ndebug', 'cpp-ndebug'):
            o = views.get(other, {}).get(s)
            if o is not None and o != c:
                ctx.report('struct-layout-%s-%s' % (s, other), 'size/offsets of %s differ between C99 (%s) and %s (%s)' % (s, c, other, o), {'struct': s, 'c99': c, other: o})
        if c != x:
            ctx.report('struct-layout-' + s, 'size/offsets of %s differ between C (%s) and C++ (%s)' % (s, c, x), {'struct': s, 'c': c, 'cpp': x})
        for f in c['fields']: ctx.count(('field', s, f[0]))
    for name, syms in libs.items():
        missing = [f for f in api if f not in syms]
        for f in api: ctx.count(('sym', name, f))
        if missing:
            ctx.report('symbols-' + name, 'library %s does not export %d public API function(s) with C linkage: %s' % (name, len(missing), ', '.join(missing[:8])), {'library': name, 'missing': missing})
    if asm_off:
        for k, ds in asm.items():
            want = asm_off[0] if k.endswith('proc') else asm_off[1]
            ctx.count(('asm', k))
            if ds != [want]: ctx.report('asm-offset-' + k, 'assembly kernel %s uses displacement %s, the structure field is at %d' % (k, ds, want), {'asm': k, 'displacements': ds, 'offsetof': want})
    # ---- facts file and theorems ----
    L = ['(* generated by tools/props/c20.py from the build — do not edit *)', 'From Coq Require Import ZArith List String.', 'From TV Require Import Model.Layout.', 'Import ListNotations.', 'Local Open Scope Z_scope.', '']
    def view(v):
        return '{| s_size := %d; s_align := %d; s_fields := [%s] |}' % (v['size'], v['align'], '; '.join('{| f_name := %s; f_off := %d; f_size := %d; f_align := %d |}' % (coq_str(n), o, sz, al) for (n, o, sz, al) in v['fields']))
    L.append('Definition structs : list (string * sview * sview) := [')
    L.append(';\n'.join('  (%s, %s,\n   %s)' % (coq_str(s), view(views['c'][s]), view(views['cpp'][s])) for s in structs if s in views.get('c', {}) and s in views.get('cpp', {})))
    L.append('].')
    L.append('Definition parsed_members : list (string * list string * list string * bool) := [')
    L.append(';\n'.join('  (%s, [%s], [%s], %s)' % (coq_str(s), '; '.join(map(coq_str, cs[s]['members'])), '; '.join(map(coq_str, xs.get(s, {}).get('members', []))),
                                                  'true' if (xs.get(s, {}).get('virtual') or xs.get(s, {}).get('base')) else 'false') for s in structs))
    L.append('].')
    L.append('Definition api : list string := [%s].' % '; '.join(map(coq_str, api)))
    L.append('Definition dead_prototypes : list string := [%s].' % '; '.join(map(coq_str, dead)))
    L.append('Definition libs : list (string * list string) := [')
    L.append(';\n'.join('  (%s, [%s])' % (coq_str(n), '; '.join(map(coq_str, syms))) for n, syms in sorted(libs.items())))
    L.append('].')
    L.append('Definition headers_compile : list (string * string * bool) := [%s].' % '; '.join('(%s, %s, %s)' % (coq_str(h), coq_str(l), 'true' if ok else 'false') for h, l, ok in hdr_ok))
    L.append('Definition asm_displacements : list (string * list Z) := [%s].' % '; '.join('(%s, [%s])' % (coq_str(k), '; '.join(map(str, v))) for k, v in sorted(asm.items())))
    L.append('Definition asm_offsetof : list Z := [%s].   (* proc, Ns2, coefsC *)' % '; '.join(map(str, asm_off or [])))
    facts = '\n'.join(L) + '\n'
    # the facts file is regenerated on every run (untracked; a committed baseline copy only serves setup)
    old = open(FACTS).read() if os.path.exists(FACTS) else ''
    changed = facts != old
    with vlib.GlobalLock('facts'):
        if changed or (os.path.exists(FACTS) and open(FACTS).read() != facts):
            with vlib.Lock('coq'): open(FACTS, 'w').write(facts)
        ctx.prove()
    base = FACTS.replace('.v', '.baseline')
    differs = (not os.path.exists(base)) or open(base).read() != facts
    if differs:
        keep = ctx.replay_path('facts').replace('.json', '.v'); open(keep, 'w').write(facts)
        ctx.notes.append('facts differ from the committed baseline copy; this run\'s facts kept at ' + keep)
    changed = differs
    ctx.cov['exhaustive'] = True
    ctx.cov['public_headers'] = hdrs; ctx.cov['structures'] = structs; ctx.cov['api_functions'] = len(api); ctx.cov['libraries'] = sorted(libs)
    ctx.cov['facts_file_changed_vs_committed'] = changed
    ctx.sample({'struct': 'TGswParams', 'c_view': views.get('c', {}).get('TGswParams'), 'cpp_view': views.get('cpp', {}).get('TGswParams')})
    ctx.sample({'api_sample': api[:6], 'asm': asm, 'asm_offsetof': asm_off})

def replay(ctx, data):
    print(json.dumps(data, indent=1)[:3000]); return 0
