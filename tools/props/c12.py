# C12 — gadget decomposition yields balanced digits that recompose to the input
import vlib, json
from concurrent.futures import ThreadPoolExecutor
LEVEL = 'proof'
LAYOUTS = [(3, 7), (2, 10), (32, 1), (16, 2), (4, 8), (2, 16), (10, 3), (1, 1), (1, 30), (3, 10), (5, 6), (8, 4)]

def offset(l, B):
    return (sum(1 << (32 - (i + 1) * B) for i in range(l)) * (1 << (B - 1))) % 2**32

def values(rng, l, B, n):
    off = offset(l, B)
    vs = [0, 1, -1, 2**31 - 1, -2**31, 2**31 - 2, -2**31 + 1, -off, -off - 1, -off + 1]
    for p in range(1, l + 1):
        step = 1 << (32 - p * B)
        for j in (0, 1, 2, (1 << (p * B)) - 1, rng.randrange(1 << min(p * B, 31))):
            for d in (-1, 0, 1):
                vs.append(-off + j * step + d)
    while len(vs) < n: vs.append(rng.randrange(-2**31, 2**31))
    return [vlib.w32(v) for v in vs]

def oracle(l, B, N, xs, out):
    """range, recomposition, restored input, in plain integers"""
    if out.startswith('CRASH'): return 'process died: ' + out
    vals = [int(v) for v in out.split()]
    if len(vals) != (l + 1) * N: return 'wrong output length'
    half = 1 << (B - 1)
    for j, x in enumerate(xs):
        rec = 0
        for p in range(l):
            d = vals[p * N + j]
            if not (-half <= d < half): return 'digit %d of x=%d is %d, outside [-%d,%d)' % (p, x, d, half, half)
            rec += d << (32 - (p + 1) * B)
        err = (x - rec) % 2**32
        if not (0 <= err < (1 << (32 - l * B))): return 'recomposition of x=%d off by %d (bound 2^%d)' % (x, err, 32 - l * B)
        if vals[l * N + j] != x: return 'input coefficient %d changed from %d to %d' % (j, x, vals[l * N + j])
    return None

def run(ctx):
    thorough = ctx.tier == 'thorough'
    rng = ctx.rng
    ctx.rule = ('layouts incl. defaults (3,7),(2,10), l*Bgbit=32 and Bgbit in {1,2}; coefficients -offset + j*2^(32-pB) + {-1,0,1} '
                '(digit boundaries), extremes, random, each placed in rotating lane positions; N in {8,16,1024} on both builds, '
                'odd N on the scalar build; TLWE wrapper k in {1,2}.  distinct = distinct (layout,N,build,coefficients) cases')
    ctx.assumptions = ['the inline-assembly AVX2 path is observed through the optim build, the scalar path through the debug build']
    ctx.prove()
    cases = []   # (line, build, l, B, N, xs, kind)
    for (l, B) in LAYOUTS:
        for N in (8, 16, 1024, 3, 1):
            reps = 2 if N == 1024 else 4
            for rep in range(reps if not thorough else reps * 4):
                xs = values(rng, l, B, N)[:N] if N >= 64 else None
                if xs is None:
                    pool = values(rng, l, B, 64); rng.shuffle(pool); xs = pool[:N]
                else:
                    rng.shuffle(xs)
                line = 'decomp %d %d %d %s' % (l, B, N, ' '.join(map(str, xs)))
                builds = ['debug', 'scalar'] if N % 8 else ['optim', 'debug', 'scalar']
                for b in builds: cases.append((line, b, l, B, N, xs, 'decomp'))
        # ring sizes beyond the default 1024 (the routine takes any N; blocked or chunked variants show only past their block size)
        li = LAYOUTS.index((l, B))
        for N in ([4096] + ([256, 2048] if li % 3 == 0 or thorough else []) + ([8192, 512] if thorough else [])):
            xs = []
            while len(xs) < N: xs += values(rng, l, B, 64)
            xs = xs[:N]; rng.shuffle(xs)
            line = 'decomp %d %d %d %s' % (l, B, N, ' '.join(map(str, xs)))
            for b in ('optim', 'debug', 'scalar'): cases.append((line, b, l, B, N, xs, 'decomp'))
        cases.append(('tgswparams %d %d' % (l, B), 'optim', l, B, 0, [], 'params'))
    for (l, B) in [(3, 7), (2, 10), (4, 8), (16, 2)]:
        for k in (1, 2):
            for N in ((8, 1024, 4096) if (l, B, k) == (3, 7, 1) or thorough else (8, 1024)):
                xs = [vlib.w32(v) for v in values(rng, l, B, (k + 1) * N)][: (k + 1) * N]
                while len(xs) < (k + 1) * N: xs += xs[: (k + 1) * N - len(xs)]
                rng.shuffle(xs)
                line = 'tlwedecomp %d %d %d %d %s' % (l, B, k, N, ' '.join(map(str, xs)))
                for b in ('optim', 'debug', 'scalar'): cases.append((line, b, l, B, N, xs, 'tlwe'))
    exes = {}
    # 'scalar': the optimised flags without the vector extensions (scalar code paths with NDEBUG - neither of the two stock builds on an AVX2 machine)
    for b in ('optim', 'debug', 'scalar'):
        bdir = vlib.build_lib(b)
        exes[b] = vlib.build_harness('drv.cpp', bdir, 'spqlios-fma', b)
    impl = {}
    for b in ('optim', 'debug', 'scalar'):
        idx = [i for i, c in enumerate(cases) if c[1] == b]
        outs = vlib.run_lines(exes[b], [cases[i][0] for i in idx])
        for i, o in zip(idx, outs): impl[i] = o
    for b in ('optim', 'debug'):
        gi = [i for i, c in enumerate(cases) if c[1] == b and len(c[0]) < 30000][:: (5 if ctx.tier != 'thorough' else 2)]
        vlib.guard_pass(ctx, exes[b], [cases[i][0] for i in gi], [impl[i] for i in gi], 'decompositions, %s build' % b, {'build': b})
    lines = sorted(set(c[0] for c in cases))
    mo = dict(zip(lines, vlib.run_model(lines)))
    # the 8-lane model must agree with the scalar model where the theorem says so
    avx_lines = [c[0].replace('decomp ', 'decomp_avx ', 1) for c in cases if c[6] == 'decomp' and c[4] % 8 == 0 and c[1] == 'optim']
    avx_out = vlib.run_model(avx_lines)
    ndis = 0
    for i, c in enumerate(cases):
        ctx.count((c[0], c[1]))
        o = impl[i]
        fail = None
        if c[6] == 'decomp': fail = oracle(c[2], c[3], c[4], c[5], o)
        elif c[6] == 'tlwe':
            l, B, N, xs = c[2], c[3], c[4], c[5]
            if o.startswith('CRASH'): fail = 'process died ' + o
            else:
                vals = [int(v) for v in o.split()]; kp1 = len(xs) // N
                for q in range(kp1):
                    sub = vals[q * l * N:(q + 1) * l * N] + vals[kp1 * l * N + q * N: kp1 * l * N + (q + 1) * N]
                    fail = fail or oracle(l, B, N, xs[q * N:(q + 1) * N], ' '.join(map(str, sub)))
        elif c[6] == 'params':
            vals = [int(v) for v in o.split()]
            if vals[3] != offset(c[2], c[3]) or vals[1] != 1 << (c[3] - 1): fail = 'derived parameter fields wrong: %s' % o
        if fail:
            ctx.report('decomp-wrong', '%s build, layout (%d,%d), N=%d: %s' % (c[1], c[2], c[3], c[4], fail),
                       {'case': c[0], 'build': c[1], 'impl': o[:2000], 'why': fail})
        if o.strip() != mo[c[0]].strip():
            ndis += 1
            ctx.soft('correspondence:' + c[6], 'model and %s build disagree on %s...' % (c[1], c[0][:120]),
                     {'case': c[0], 'build': c[1], 'impl': o[:3000], 'model': mo[c[0]][:3000]})
    for l_, o_ in zip(avx_lines, avx_out):
        ctx.count(('avx-model', l_))
        if o_.strip() != mo[l_.replace('decomp_avx ', 'decomp ', 1)].strip():
            ctx.soft('model:avx-vs-scalar', '8-lane model differs from scalar model on ' + l_[:100], {'case': l_})
    # both builds must give identical digits
    byline = {}
    for i, c in enumerate(cases): byline.setdefault(c[0], {})[c[1]] = impl[i]
    for line, d in byline.items():
        bs = sorted(d)
        for b2 in bs[1:]:
            if d[bs[0]].strip() != d[b2].strip():
                ctx.report('builds-differ', 'the %s and %s builds give different digits on %s' % (bs[0], b2, line[:120]), {'case': line, bs[0]: d[bs[0]][:2000], b2: d[b2][:2000], 'build': b2})
    if thorough:
        jobs = []
        for (l, B) in [(3, 7), (2, 10)]:
            for b in ('optim', 'debug'):
                for part in range(16): jobs.append((b, 'decompsweep %d %d %d %d' % (l, B, part * 2**28, (part + 1) * 2**28)))
        with ThreadPoolExecutor(max_workers=vlib.NPROC) as ex:
            outs = list(ex.map(lambda j: vlib.run_lines(exes[j[0]], [j[1]], timeout=7200)[0], jobs))
        for j, o in zip(jobs, outs):
            ctx.evaluations += 2**28
            if o.startswith('CRASH') or int(o.split()[0]) != 0:
                ctx.report('decomp-sweep', '%s build: %s -> %s' % (j[0], j[1], o), {'case': j[1], 'build': j[0], 'result': o})
        ctx.cov['exhaustive_sweeps'] = 'all 2^32 coefficient values for (3,7) and (2,10), both builds'
    ctx.cov['correspondence_cases'] = len(cases); ctx.cov['disagreements'] = ndis
    # several threads, one shared const TGswParams (threads evaluating under one key): a workspace kept in the shared object shows only here
    for b in ('optim', 'debug'):
        for (l, B) in ((3, 7), (2, 10), (16, 2), (1, 16)):
            ln = 'decompmt %d %d 1024 4 %d %d' % (l, B, 300 if not thorough else 3000, ctx.seed + l)
            o = vlib.run_lines(exes[b], [ln], timeout=1800)[0]; ctx.count((ln, b))
            v = o.split()
            if o.startswith('CRASH') or len(v) < 2 or int(v[0]) != 0:
                ctx.report('decomp-concurrent', '%s build, (l,Bgbit)=(%d,%d): %s' % (b, l, B, ('%s of %s decompositions made by 4 threads that share one TGswParams object (incl. results in the own malloc arena of the thread, far from the input) differ from the sequential result' % (v[0], v[1])) if len(v) >= 2 and not o.startswith('CRASH') else 'the run died: ' + o[:80]),
                           {'case': ln, 'build': b, 'impl': o[:200]})
    ctx.cov['input_distribution'] = {'layouts': LAYOUTS, 'N': [8, 16, 1024, 3, 1, 256, 2048, 4096], 'builds': ['optim (AVX2 asm)', 'debug (scalar, asserts)', 'scalar (optimised flags without AVX2: scalar code, NDEBUG)']}
    for c in cases[:: max(1, len(cases) // 8)]: ctx.sample({'case': c[0][:160], 'build': c[1], 'impl': impl[cases.index(c)][:160]})

def replay(ctx, data):
    b = data.get('build', 'optim')
    exe = vlib.build_harness('drv.cpp', vlib.build_lib(b), 'spqlios-fma', b)
    if data.get('guard'): return vlib.guard_replay(exe, data)
    o = vlib.run_lines(exe, [data['case']])[0]
    print('case:', data['case'][:300], '\nimplementation now:', o[:600], '\nrecorded:', str(data.get('impl'))[:600])
    return 0
