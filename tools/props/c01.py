# C01 — every homomorphic gate computes its Boolean function
import vlib, json
from props.c04 import rnd2N, predict, ints, fmt, N
LEVEL = 'proof'
GATES = ['NAND', 'OR', 'AND', 'XOR', 'XNOR', 'NOR', 'ANDNY', 'ANDYN', 'ORNY', 'ORYN']
CONST = {'NAND': 2**29, 'OR': 2**29, 'ORNY': 2**29, 'ORYN': 2**29, 'AND': -2**29, 'NOR': -2**29, 'ANDNY': -2**29, 'ANDYN': -2**29, 'XOR': 2**30, 'XNOR': -2**30}
CA = {'NAND': -1, 'NOR': -1, 'ANDNY': -1, 'ORNY': -1, 'OR': 1, 'AND': 1, 'ANDYN': 1, 'ORYN': 1, 'XOR': 2, 'XNOR': -2}
CB = {'NAND': -1, 'NOR': -1, 'ANDYN': -1, 'ORYN': -1, 'OR': 1, 'AND': 1, 'ANDNY': 1, 'ORNY': 1, 'XOR': 2, 'XNOR': -2}
def table(g, a, b):
    return {'NAND': 1 - (a & b), 'OR': a | b, 'AND': a & b, 'XOR': a ^ b, 'XNOR': 1 - (a ^ b), 'NOR': 1 - (a | b),
            'ANDNY': (1 - a) & b, 'ANDYN': a & (1 - b), 'ORNY': (1 - a) | b, 'ORYN': a | (1 - b)}[g]
MU = 2**29

def mk_sample(rng, s, phase, trivial=False, lead0=0):
    n = len(s)
    if trivial: return [0] * n, vlib.w32(phase)
    a = [rng.randrange(-2**31, 2**31) for _ in range(n)]
    for i in range(min(lead0, n - 1)): a[i] = rng.choice([0, 0, rng.randrange(-2**19, 2**19)])      # leading mask coefficients that round to rotation 0
    return a, vlib.w32(phase + sum(x for x, y in zip(a, s) if y))

def run(ctx):
    import os; os.environ['MALLOC_PERTURB_'] = '165'     # every block the harness processes get from or return to the allocator is filled: memory that a routine never wrote does not look like zeros by luck
    thorough = ctx.tier == 'thorough'
    rng = ctx.rng
    ctx.rule = ('through the public gate API at full size, both default parameter sets (thorough: five back-ends x two builds): (i) trivial noiseless inputs whose b values put the gate\'s internal '
                'combination exactly on / one unit either side of every decision edge (this identifies each gate\'s constant and coefficients as a black box); (ii) all plaintext tuples x all 14 gates with '
                'inputs that are fresh-like (small error), outputs of other gates, and adversarially noisy (phase error +-(1/32 - 2^-20), all sign patterns); prediction of the rounded exponent p by a '
                'library-independent formula and by the extracted model (gate_lin then rot_exponent); decrypted bit and lwePhase compared with the truth table. distinct = distinct case lines')
    ctx.assumptions = ['partial: the modulus-switch drift and the output error are probabilistic; they are measured on every case (evidence: measured_hypotheses) and bounded by C19\'s margin theorem and C02\'s statistics, not proved about the PRNG',
                       'runtime behaviour outside the model: FFT rounding, the real noise of the bootstrapping and key-switching keys']
    ctx.prove()
    variants = [('spqlios-fma', 'optim')]
    if thorough: variants = [(b, v) for b in vlib.BACKENDS for v in ('optim', 'debug')]
    else: variants.append(('spqlios-fma', 'debug'))      # quick: the debug build (its assertions are part of what a gate does) on the decision edges and a few inputs only
    maxdrift = 0; maxerr = 0; ncases = 0
    for (backend, build) in variants:
        exe = vlib.build_harness('boot_drv.cpp', vlib.build_lib(build), backend, build)
        hist = {}     # lam -> [(line, expected bit, gate, kind)] for the key-set history run below
        for lam in (128, 80):
            spec = fmt([lam, 0, 0, 0, 0, 0, 0, 0, 0, ctx.seed * 10 + (1 if lam == 128 else 2)])
            g0 = ints(vlib.run_lines(exe, ['fullkey ' + spec], timeout=1800)[0]); n = g0[0]; s = g0[7:7 + n]
            cases = []   # (gate index, name, [(a,b)]*3, expected bit or None, kind, predicted p list)
            # (i) edges of the decision regions with trivial inputs
            for gi, g in enumerate(GATES):
                for tgt in (-2**20, 2**31 - 2**20):          # combined b at the two sign boundaries of the rounding
                    for d in ((-2, 0) if abs(CA[g]) == 2 else (-1, 0, 1)):
                        want = vlib.w32(tgt + d)
                        bb = rng.choice([MU, -MU])
                        rest = vlib.w32(want - CONST[g] - CB[g] * bb)
                        if abs(CA[g]) == 2:
                            if rest % 2: continue
                            ba = vlib.w32((rest // 2) * (1 if CA[g] > 0 else -1))
                        else: ba = vlib.w32(rest * CA[g])
                        comb = vlib.w32(CONST[g] + CA[g] * ba + CB[g] * bb)
                        assert comb == want
                        p, amb = rnd2N(comb)
                        cases.append((gi, g, [([0] * n, ba), ([0] * n, bb), ([0] * n, 0)], None if amb else (1 if p < N else 0), 'edge', comb))
            # (ii) all tuples, three kinds of inputs
            kinds = ['fresh', 'noisy+', 'noisy-', 'noisy+-'] + (['noisy-+', 'trivial'] if thorough else [])
            ERR = 2**27 - 4096
            for gi, g in enumerate(GATES):
                for a in (0, 1):
                    for b in (0, 1):
                        for kind in (kinds if thorough else [kinds[(gi + 2 * a + b) % 4], 'noisy' + rng.choice(['+', '-', '+-'])] + (['trivial'] if (a, b) == (gi % 2, (gi // 2) % 2) else [])):      # 'trivial': both inputs are constants (bootsCONSTANT outputs)
                            ea, eb = {'fresh': (rng.randrange(-2**17, 2**17), rng.randrange(-2**17, 2**17)), 'noisy+': (ERR, ERR), 'noisy-': (-ERR, -ERR),
                                      'noisy+-': (ERR, -ERR), 'noisy-+': (-ERR, ERR), 'trivial': (0, 0)}[kind]
                            ca = mk_sample(rng, s, (MU if a else -MU) + ea, kind == 'trivial'); cb = mk_sample(rng, s, (MU if b else -MU) + eb, kind == 'trivial')
                            cases.append((gi, g, [ca, cb, ([0] * n, 0)], table(g, a, b), kind, None))
                        # masks whose leading coefficients are zero or round to the rotation 0 (sparse or structured masks; the blind rotation skips those
                        # positions): for every input combination
                        L = rng.choice([1, 1, 2, 5])
                        ca = mk_sample(rng, s, (MU if a else -MU) + rng.randrange(-2**17, 2**17), False, L); cb = mk_sample(rng, s, (MU if b else -MU) + rng.randrange(-2**17, 2**17), False, L)
                        cases.append((gi, g, [ca, cb, ([0] * n, 0)], table(g, a, b), 'zero-leading-mask', None))
            for a in (0, 1):
                for b in (0, 1):
                    for c in (0, 1):
                        for kind in (('fresh', 'noisy+', 'noisy-') if thorough else (rng.choice(['fresh', 'noisy+', 'noisy-']),)):
                            e = {'fresh': rng.randrange(-2**17, 2**17), 'noisy+': ERR, 'noisy-': -ERR}[kind]
                            smp = [mk_sample(rng, s, (MU if x else -MU) + e * sg) for x, sg in ((a, 1), (b, -1 if kind != 'fresh' else 1), (c, 1))]
                            cases.append((13, 'MUX', smp, b if a else c, kind, None))
            for a in (0, 1):
                for kind, e in (('fresh', 12345), ('noisy+', ERR), ('noisy-', -ERR)):
                    smp = mk_sample(rng, s, (MU if a else -MU) + e)
                    cases.append((10, 'NOT', [smp, ([0] * n, 0), ([0] * n, 0)], 1 - a, kind, None))
                    cases.append((11, 'COPY', [smp, ([0] * n, 0), ([0] * n, 0)], a, kind, None))
                cases.append((12, 'CONSTANT', [([0] * n, a), ([0] * n, 0), ([0] * n, 0)], a, 'exact', None))
            if build == 'debug' and not thorough: cases = [c for c in cases if c[4] == 'edge'][::2] + [c for c in cases if c[4] != 'edge'][::9]
            lines = ['gatecase %s %d %s' % (spec, gi, ' '.join(fmt(x) + ' ' + str(y) for (x, y) in smp)) for (gi, g, smp, exp, kind, comb) in cases]
            io = vlib.run_lines(exe, lines, timeout=7200)
            hist[lam] = [(l, c[3], c[1], c[4]) for l, c in zip(lines, cases) if c[4] != 'edge' and c[3] is not None and c[0] != 12]
            # the same gates with the ciphertext arrays (inputs, result, the library's temporaries) ending flush with an inaccessible page
            # (harness/guard_new.h; ciphertexts in shared memory, a mapped file, a hardened allocator): the gate must neither die nor decide otherwise
            seen = set(); gsub = []
            for ci, c in enumerate(cases):
                if c[4] != 'edge' and (c[0], c[4] == 'trivial') not in seen: seen.add((c[0], c[4] == 'trivial')); gsub.append(ci)
            go = vlib.run_lines(exe, ['guard 1'] + [lines[ci] for ci in gsub] + ['guard 0'], timeout=3600)[1:-1]
            # ... and evaluated on a thread with a 64 KiB stack (the keys made on the main thread before)
            so = vlib.run_lines(exe, ['stack 64'] + [lines[ci] for ci in gsub[::2]] + ['stack 0'], timeout=3600)[1:-1]
            for ci, o in zip(gsub[::2], so):
                ctx.count((backend, build, lam, 'stack64', lines[ci][:4000]))
                if io[ci].startswith('CRASH'): continue
                if o.startswith('CRASH') or ints(o)[1] != ints(io[ci])[1]:
                    ctx.report('gate-small-stack', '%s/%s %d-bit set: %s %s when evaluated on a thread with a 64 KiB stack: %s' % (backend, build, lam, cases[ci][1], 'dies' if o.startswith('CRASH') else 'decides otherwise than on the main thread', o[:60]),
                               {'case': lines[ci][:200000], 'backend': backend, 'build': build, 'stack_kib': 64}); break
            for ci, o in zip(gsub, go):
                ctx.count((backend, build, lam, 'guard', lines[ci][:4000]))
                if o.startswith('CRASH'):
                    ctx.report('gate-out-of-bounds', '%s/%s %d-bit set: %s dies when its ciphertext arrays end at an inaccessible page (it reads or writes past the end of an array): %s' % (backend, build, lam, cases[ci][1], o[:80]),
                               {'case': lines[ci][:200000], 'backend': backend, 'build': build, 'guard': 1}); break
                if not io[ci].startswith('CRASH') and ints(o)[1] != ints(io[ci])[1]:
                    ctx.report('gate-wrong', '%s/%s %d-bit set: %s decides %d on ciphertexts that end at a page boundary and %d on the same ciphertexts on the ordinary heap' % (backend, build, lam, cases[ci][1], ints(o)[1], ints(io[ci])[1]),
                               {'case': lines[ci][:200000], 'backend': backend, 'build': build, 'guard': 1})
            # model: the temporary handed to the bootstrapping, then its rounded exponent
            ml = []; mi = []
            for ci, (gi, g, smp, exp, kind, comb) in enumerate(cases):
                if gi < 13 and gi != 12 or gi in (10, 11):
                    ml.append('gatelin %d %d %s %d %s %d' % (gi, n, fmt(smp[0][0]), smp[0][1], fmt(smp[1][0]), smp[1][1])); mi.append(ci)
                elif gi == 12:
                    ml.append('gatelin 12 %d %s %d %s %d' % (n, fmt(smp[0][0]), smp[0][1], fmt(smp[1][0]), smp[1][1])); mi.append(ci)
            mo = dict(zip(mi, vlib.run_model(ml, 'fast', timeout=1800)))
            bl = {ci: 'bootp %d %d %s %s' % (N, n, fmt(s), mo[ci]) for ci in mi if cases[ci][0] < 10}
            bo = dict(zip(bl.keys(), vlib.run_model(list(bl.values()), 'fast', timeout=1800)))
            for ci, ((gi, g, smp, exp, kind, comb), line, o) in enumerate(zip(cases, lines, io)):
                ctx.count((backend, build, lam, line[:4000])); ncases += 1
                if o.startswith('CRASH'):
                    ctx.report('gate-crash', '%s/%s %d-bit set: %s died on %s inputs: %s' % (backend, build, lam, g, kind, o[:80]), {'case': line[:200000], 'backend': backend, 'build': build}); continue
                r = ints(o); ph, bit, res = r[0], r[1], r[2:]
                if gi in (10, 11, 12):
                    if fmt(res) != mo[ci].strip():
                        ctx.report('linear-gate-wrong', '%s/%s: %s output differs from the exact linear operation' % (backend, build, g), {'case': line[:200000], 'impl': fmt(res)[:2000], 'model': mo[ci][:2000], 'backend': backend, 'build': build})
                if gi < 10:
                    lin = ints(mo[ci]); linph = vlib.w32(lin[-1] - sum(x for x, y in zip(lin[:-1], s) if y))
                    expph = vlib.w32(CONST[g] + CA[g] * vlib.w32(smp[0][1] - sum(x for x, y in zip(smp[0][0], s) if y)) + CB[g] * vlib.w32(smp[1][1] - sum(x for x, y in zip(smp[1][0], s) if y)))
                    if linph != expph:
                        ctx.soft('model-vs-reference', 'model gate_lin phase for %s differs from c + alpha*phi_a + beta*phi_b' % g, {'gate': g, 'case': ml[mi.index(ci)][:100000]})
                    mp = ints(bo[ci])[1]
                    p, cand = predict(s, lin[:-1], lin[-1])
                    if mp != p: ctx.soft('model-vs-reference', 'model exponent differs from the independent formula', {'gate': g})
                    drift = vlib.w32(mp * 2**21 - linph); maxdrift = max(maxdrift, abs(drift)) if kind != 'edge' else maxdrift
                    pred = 1 if mp < N else 0
                    # at an exact rounding tie the extracted model of modSwitchFromTorus32 (proved nearest in C13, tied to the code there) decides
                    if exp is None: exp_bit = pred
                    else: exp_bit = exp
                    if kind == 'edge' and exp is not None and pred != exp: ctx.soft('model-vs-reference', 'edge prediction mismatch', {'gate': g})
                else: exp_bit = exp
                if exp_bit is not None:
                    tgt = MU if exp_bit else -MU
                    e = abs(vlib.w32(ph - tgt));
                    if gi not in (10, 11): maxerr = max(maxerr, e)
                    # the output of a bootstrapped gate is itself a valid input of the next gate ("outputs of other gates" are among the valid ciphertexts):
                    # its phase lies within 1/32 of +-1/8 (about 10 standard deviations for a two-input gate, 7 for MUX)
                    if gi not in (10, 11, 12) and bit == exp_bit and e > 2**27 and kind != 'edge':
                        ctx.report('gate-output-not-admissible', '%s/%s, %d-bit set: %s on %s inputs decrypts correctly but its phase is %.4f away from %s1/8: the output is not a valid input (phase within 1/32 of +-1/8) for the next gate' % (
                                   backend, build, lam, g, kind, e / 2.0**32, '+' if exp_bit else '-'), {'case': line[:200000], 'gate': g, 'kind': kind, 'phase_error': e / 2.0**32, 'backend': backend, 'build': build})
                    if kind == 'edge' and exp is None and bit != exp_bit:
                        # the combination sits exactly on a rounding tie: C13 allows either direction, the model of the library rounds up.
                        # A disagreement here means the constant/coefficients moved by one unit or the tie direction changed: not a wrong truth table by itself
                        ctx.soft('correspondence:gate-edge-tie', '%s/%s, %d-bit set: %s with trivial inputs whose combination %d is an exact rounding tie decrypts to %d, the model of the library gives %d (constant, coefficients or tie direction differ)' % (backend, build, lam, g, comb, bit, exp_bit),
                                 {'case': line[:200000], 'gate': g, 'kind': 'edge-tie', 'expected_bit': exp_bit, 'observed_bit': bit, 'backend': backend, 'build': build})
                    elif bit != exp_bit or (e >= 2**29):
                        what = ('%s/%s, %d-bit set: %s on %s inputs decrypts to %d, expected %d (output phase %d)' % (backend, build, lam, g, kind, bit, exp_bit, ph)) if kind != 'edge' else \
                               ('%s/%s, %d-bit set: %s with trivial inputs whose combination c_g + alpha*b_a + beta*b_b = %d must round to the %s half: decrypts to %d (the gate\'s constant or coefficients differ)' % (backend, build, lam, g, comb, 'positive' if exp_bit else 'negative', bit))
                        ctx.report('gate-wrong', what, {'case': line[:200000], 'gate': g, 'kind': kind, 'expected_bit': exp_bit, 'observed_bit': bit, 'phase': ph, 'backend': backend, 'build': build, 'secret': s})
        if build == 'debug' and not thorough: continue
        # (iii) "every cloud key": one thread of one process evaluates under several key sets in turn (smaller n first, then
        # larger, then back): the truth table must not depend on which key set the thread used before
        per = 40 if thorough else 14
        seq = []
        for lam in (80, 128, 80, 128):
            # every kind of gate in every block (a defect in one gate's own bookkeeping must meet that gate): one case of each, then random ones
            bygate = {}
            for x in hist[lam]: bygate.setdefault(x[2], []).append(x)
            pick = [rng.choice(v) for g, v in sorted(bygate.items())] + [rng.choice(bygate['MUX'])]
            pick += rng.sample(hist[lam], max(0, min(per, len(hist[lam])) - len(pick))); seq += [(lam,) + x for x in pick]
        ho = vlib.run_lines(exe, [x[1] for x in seq], timeout=7200)
        for pos, ((lam, line, exp, g, kind), o) in enumerate(zip(seq, ho)):
            ctx.count((backend, build, 'history', pos, line[:4000])); ncases += 1
            if o.startswith('CRASH'):
                ctx.report('gate-crash-history', '%s/%s: %s under the %d-bit key set died after the same thread had used another key set (position %d of the sequence 80,128,80,128): %s' % (backend, build, g, lam, pos, o[:80]),
                           {'sequence': [x[1][:200000] for x in seq[:pos + 1]], 'backend': backend, 'build': build, 'history': True}); break
            r = ints(o)
            if r[1] != exp:
                ctx.report('gate-wrong-after-other-keyset', '%s/%s: %s on %s inputs under the %d-bit key set decrypts to %d, expected %d, after the same thread evaluated gates under another key set (position %d of the sequence 80,128,80,128 x %d gates); the same case alone is right' % (backend, build, g, kind, lam, r[1], exp, pos, per),
                           {'sequence': [x[1][:200000] for x in seq[:pos + 1]], 'gate': g, 'kind': kind, 'expected_bit': exp, 'observed_bit': r[1], 'backend': backend, 'build': build, 'history': True}); break
        # (iv) the result object is one of the inputs (in-place use, as in the tutorial's comparator): same truth table
        al = []
        for lam in (128, 80):
            for (line, exp, g, kind) in hist[lam]:
                t = line.split(' ', 12); gi = int(t[11])
                for alias in ((1, 2, 3) if gi == 13 else (1, 2) if gi < 10 else (1,)):
                    al.append((lam, ' '.join(t[:11] + [str(gi + 100 * alias)] + t[12:]), exp, g, kind, alias))
        if not thorough:
            mux = [x for x in al if x[3] == 'MUX']; oth = [x for x in al if x[3] != 'MUX']
            al = rng.sample(mux, min(24, len(mux))) + rng.sample(oth, min(24, len(oth)))
        al.sort(key=lambda x: -x[0])
        ao = vlib.run_lines(exe, [x[1] for x in al], timeout=7200)
        for (lam, line, exp, g, kind, alias), o in zip(al, ao):
            ctx.count((backend, build, 'alias', line[:4000])); ncases += 1
            if o.startswith('CRASH'): ctx.report('gate-crash', '%s/%s: %s with the result object = input %s died: %s' % (backend, build, g, 'abc'[alias - 1], o[:80]), {'case': line[:200000], 'backend': backend, 'build': build}); continue
            r = ints(o)
            if r[1] != exp:
                ctx.report('gate-wrong-inplace', '%s/%s, %d-bit set: %s on %s inputs with the result object = input %s decrypts to %d, expected %d' % (backend, build, lam, g, kind, 'abc'[alias - 1], r[1], exp),
                           {'case': line[:200000], 'gate': g, 'kind': kind + ', result = input ' + 'abc'[alias - 1], 'expected_bit': exp, 'observed_bit': r[1], 'backend': backend, 'build': build})
        # (v) one ciphertext object passed as two operands of the same gate (x op x, MUX(a, a, c), MUX(a, b, a), MUX(a, b, b)): the truth
        #     table on equal bits
        sl = []
        for lam in (128, 80):
            spec = fmt([lam, 0, 0, 0, 0, 0, 0, 0, 0, ctx.seed * 10 + (1 if lam == 128 else 2)])
            g0 = ints(vlib.run_lines(exe, ['fullkey ' + spec], timeout=1800)[0]); n = g0[0]; s = g0[7:7 + n]
            ERR = 2**27 - 4096
            for gi, g in enumerate(GATES):
                for x in (0, 1):
                    e = rng.choice([rng.randrange(-2**17, 2**17), ERR, -ERR])
                    ca = mk_sample(rng, s, (MU if x else -MU) + e); dummy = mk_sample(rng, s, (MU if 1 - x else -MU))
                    sl.append((lam, 'gatecase %s %d %s' % (spec, gi + 400, ' '.join(fmt(a_) + ' ' + str(b_) for (a_, b_) in [ca, dummy, ([0] * n, 0)])), table(g, x, x), g, 'both operands are one object (bit %d)' % x))
            for (al, f) in ((4, lambda a, b, c: a if a else c), (5, lambda a, b, c: b if a else a), (6, lambda a, b, c: b)):
                for (a, b, c) in ((0, 0, 1), (1, 0, 1), (0, 1, 0), (1, 1, 0)):
                    smp = [mk_sample(rng, s, (MU if q else -MU) + rng.choice([0, ERR, -ERR])) for q in (a, b, c)]
                    sl.append((lam, 'gatecase %s %d %s' % (spec, 13 + 100 * al, ' '.join(fmt(a_) + ' ' + str(b_) for (a_, b_) in smp)), f(a, b, c), 'MUX', {4: 'b is the object a', 5: 'c is the object a', 6: 'c is the object b'}[al]))
        # (vi) an FFT-only cloud key (bk = NULL) derived through the lower-level API, whose source LweBootstrappingKey was refilled for other
        #      secrets and deleted: "every cloud key derived from it"
        for lam in (128, 80):
            pick = rng.sample(hist[lam], min(len(hist[lam]), 12 if not thorough else 60))
            for (line, exp, g, kind) in pick:
                t = line.split(' ', 12)
                sl.append((lam, ' '.join(t[:11] + [str(int(t[11]) + 700)] + t[12:]), exp, g, 'the cloud key is FFT-only and its source key was refilled and deleted (%s inputs)' % kind))
        if not thorough: sl = [x for x in sl if 'FFT-only' in x[4]][::(1 if build == 'optim' else 4)] + [x for x in sl if x[3] == 'MUX' and 'FFT-only' not in x[4]][::2] + [x for x in sl if x[3] != 'MUX' and 'FFT-only' not in x[4]][::(1 if build == 'optim' else 3)]
        so = vlib.run_lines(exe, [x[1] for x in sl], timeout=7200)
        for (lam, line, exp, g, what), o in zip(sl, so):
            ctx.count((backend, build, 'shared-operands', line[:4000])); ncases += 1
            if o.startswith('CRASH'): ctx.report('gate-crash', '%s/%s: %s where %s died: %s' % (backend, build, g, what, o[:80]), {'case': line[:200000], 'backend': backend, 'build': build}); continue
            r = ints(o)
            if r[1] != exp:
                ctx.report('gate-wrong-shared-operands', '%s/%s, %d-bit set: %s where %s decrypts to %d, the truth table says %d' % (backend, build, lam, g, what, r[1], exp),
                           {'case': line[:200000], 'gate': g, 'kind': what, 'expected_bit': exp, 'observed_bit': r[1], 'backend': backend, 'build': build})
    ctx.cov['gate_cases'] = ncases
    ctx.hypotheses['max |modulus-switch drift| on non-edge cases (units of 2^-32; gate margin is 2^28)'] = maxdrift
    ctx.hypotheses['max |output phase - (+-1/8)| (units of 2^-32; must stay below 2^29)'] = maxerr
    ctx.sample({'max_drift_units': maxdrift, 'max_output_error_units': maxerr, 'cases': ncases})

def replay(ctx, data):
    b = data.get('build', 'optim'); be = data.get('backend', 'spqlios-fma')
    exe = vlib.build_harness('boot_drv.cpp', vlib.build_lib(b), be, b)
    if data.get('history'):
        o = vlib.run_lines(exe, data['sequence'], timeout=1800)[-1]
        print('gate %s after a sequence of %d gates under alternating key sets: expected bit %s, recorded %s; implementation now: phase, bit = %s' % (data.get('gate'), len(data['sequence']), data.get('expected_bit'), data.get('observed_bit'), o.split()[:2]))
        return 0
    if 'case' not in data: print(json.dumps(data)[:1500]); return 0
    if data.get('stack_kib'):
        o = vlib.run_lines(exe, ['stack %d' % data['stack_kib'], data['case']], timeout=1800)[-1]
        print('evaluated on a thread with a %d KiB stack the implementation answers now:' % data['stack_kib'], o[:120]); return 1 if o.startswith('CRASH') else 0
    if data.get('guard'):
        o = vlib.run_lines(exe, ['guard 1', data['case']], timeout=1800)[-1]
        print('with the ciphertext arrays ending at inaccessible pages the implementation answers now:', o[:120]); return 1 if o.startswith('CRASH') else 0
    o = vlib.run_lines(exe, [data['case']], timeout=1800)[0]
    print('gate %s, %s inputs: expected bit %s, recorded %s; implementation now: phase, bit = %s' % (data.get('gate'), data.get('kind'), data.get('expected_bit'), data.get('observed_bit'), o.split()[:2]))
    return 0
