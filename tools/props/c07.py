# C07 — fresh ciphertexts and key rows carry exactly the configured noise, fresh masks
import vlib, json, math
LEVEL = 'proof'
N = 1024
T32 = 2.0**32

def ints(s): return [int(x) for x in s.split()]
def fmt(v): return ' '.join(map(str, v))

class Enc:
    """one library call with its draws made explicit (harness/enc_drv.cpp), and the model on the same draws"""
    def __init__(self, exe): self.exe = exe
    def lib(self, opc, operands, seed, skip=0, a1=0, a2=0, timeout=1800):
        line = 'enc %d %d %d %d %d %s' % (opc, seed, skip, a1, a2, fmt(operands))
        o = vlib.run_lines(self.exe, [line], timeout=timeout)[0]
        if o.startswith('CRASH') or not o.strip(): return line, None
        t = o.split(); same = int(t[0]); L = int(t[1]); res = [int(x) for x in t[2:2 + L]]; nd = int(t[2 + L]); draws = t[3 + L:]
        return line, dict(same=same, res=res, nd=nd, draws=draws, mline='enc %d %s %d %s' % (opc, fmt(operands), nd, ' '.join(draws)))
    def model(self, r, timeout=3000):
        o = vlib.run_model([r['mline']], 'fast', timeout=timeout)[0]
        if o.startswith('CRASH') or not o.strip(): return None, o
        m = ints(o)
        return m[:-1], m[-1]

def split_draws(draws):
    U = []; B = []; G = []
    i = 0
    while i < len(draws):
        k = draws[i]
        if k == '0': U.append(int(draws[i + 1])); i += 2
        elif k == '1': B.append(int(draws[i + 1])); i += 2
        else: G.append(int(draws[i + 1]) / 2.0**int(draws[i + 2])); i += 3
    return U, B, G

def run(ctx):
    thorough = ctx.tier == 'thorough'
    rng = ctx.rng
    ctx.rule = ('the library generator is seeded, advanced by a random number of words (history), cloned; after each library call the clone is driven through the draw sequence the model predicts and must end '
                'in the same state as the library generator (the library consumed exactly those draws, no more, no fewer); the model evaluated on those draws must reproduce the library output bit for bit '
                '(LWE keys and samples, every row of key-switching keys incl. the binary64 recentring of the noises) or within 2 units on the b polynomials that go through the FFT (TLWE/TGSW rows, bootstrapping keys), '
                'masks exactly; statistics of the draws actually embedded (mean, variance, kurtosis of errors per noise level; byte histogram and lag-1 correlation of masks; key bit frequency) with acceptance '
                'regions 8 estimator standard deviations wide; seeding determinism. distinct = distinct case lines')
    ctx.assumptions = ['partial: std::default_random_engine, normal_distribution, uniform_int_distribution and seed_seq are trusted, not modelled (the harness replays them through the same libstdc++ headers)',
                       'runtime behaviour outside the model: the distribution of the C++ sampler; it is measured on the draws the ciphertexts were proved (and checked) to embed']
    ctx.prove()
    exe = vlib.build_harness('enc_drv.cpp', vlib.build_lib('optim'), 'spqlios-fma', 'optim')
    bexe = vlib.build_harness('boot_drv.cpp', vlib.build_lib('optim'), 'spqlios-fma', 'optim')
    E = Enc(exe)
    allU = []; allB = []; Gby = {}
    sd = ctx.seed * 100000
    def check(tag, opc, operands, seed, skip, a1, a2, tol_idx=None, tol=0):
        """tol_idx: predicate on the output index telling which numbers may differ by <= tol (FFT)"""
        line, r = E.lib(opc, operands, seed, skip, a1, a2)
        ctx.count(line[:3000])
        if r is None:
            ctx.report('enc-crash', '%s: the library call died' % tag, {'case': line[:100000]}); return None
        if not r['same']:
            ctx.report('draw-sequence', '%s: after the call the library generator is not in the state reached by the %d draws the model predicts (extra, missing or different distribution calls)' % (tag, r['nd']), {'case': line[:100000], 'draws_predicted': r['nd']})
        mo, left = E.model(r)
        if mo is None:
            ctx.soft('model-run:' + tag.split()[0], '%s: the extracted model could not be evaluated on the recorded draws (%s)' % (tag, str(left)[:100]), {'case': line[:100000]}); return r
        if left != 0 or len(mo) != len(r['res']):
            ctx.soft('correspondence:' + tag.split()[0], '%s: the model did not consume the stream as the library did (%d draws left, %d vs %d outputs)' % (tag, left, len(mo), len(r['res'])), {'case': line[:100000]})
            return r
        bad = [i for i, (x, y) in enumerate(zip(r['res'], mo)) if x != y and not (tol_idx and tol_idx(i) and abs(vlib.w32(x - y)) <= tol)]
        if bad:
            i = bad[0]
            ctx.report('ciphertext-vs-draws', '%s: output %d is %d but the draws the generator produced give %d (%d of %d outputs differ): the noise/mask embedded is not the configured draw' % (tag, i, r['res'][i], mo[i], len(bad), len(mo)),
                       {'case': line[:100000], 'index': i, 'impl': r['res'][i], 'model': mo[i], 'differing': len(bad)})
        U, B, G = split_draws(r['draws']); allU.extend(U); allB.extend(B)
        if G and opc != 13: Gby.setdefault(a1, []).extend(G)
        return r
    # --- LWE
    alphas = [2**10, 2**15, 2**20, 2**25, 2**30, 2**35, 10555, 26213, 33554432]        # units of 2^-40: 2^-30 .. 2^-5, 9.6e-9, 2.44e-5(ish), 2^-15
    for n in ([1, 2, 7, 8, 9, 33, 500, 630] if not thorough else [1, 2, 3, 7, 8, 9, 16, 33, 500, 630, 1024]):
        key = [rng.randrange(2) for _ in range(n)]
        check('lwe_keygen n=%d' % n, 0, [n], sd + n, rng.randrange(50), 0, 0)
        for a1 in (alphas if n in (7, 630) or thorough else rng.sample(alphas, 2)):
            msg = rng.choice([0, 2**29, -2**29, rng.randrange(-2**31, 2**31)])
            prange = rng.choice([0, 1, 2, 3, 4])        # the noise range announced by the parameter object is independent of the alpha requested (enc_drv: mk_lwe_params)
            r = check('lweSymEncrypt n=%d alpha=2^-40*%d parameter-range=%d' % (n, a1, prange), 1, [n] + key + [msg], sd + n + a1 % 97, rng.randrange(50), a1, prange)
            if r and len(r['res']) == n + 1:
                # independent: phase - message must be the truncated draw
                ph = vlib.w32(r['res'][n] - sum(x for x, y in zip(r['res'][:n], key) if y) - msg)
                g = split_draws(r['draws'])[2][0]
                if abs(ph - g * T32) >= 1.0 + abs(g * T32) * 1e-12 and abs(g) < 0.4:
                    ctx.report('lwe-error', 'lweSymEncrypt n=%d: phase - message = %d units but the Gaussian draw was %.3e (= %.1f units)' % (n, ph, g, g * T32), {'n': n, 'alpha_units': a1, 'phase_minus_message': ph, 'draw': g})
        check('bootsSymEncrypt n=%d' % n, 2, [n] + key + [rng.randrange(2)], sd + 7 * n, rng.randrange(50), 33554432, 0)
    # --- TLWE / TGSW rows (N = 1024 forced)
    for k in (1, 2):
        tk = [rng.randrange(2) for _ in range(k * N)]
        bidx = lambda i, k=k: (i % ((k + 1) * N)) >= k * N         # b polynomial of each row
        check('tLweKeyGen k=%d' % k, 4, [k, N], sd + 11 + k, rng.randrange(50), 0, 0)
        for a1 in ([32768, 10555] if not thorough else [2**10, 2**20, 32768, 10555, 2**30]):
            check('tLweSymEncryptZero k=%d' % k, 5, [k, N] + tk, sd + 13 + k + a1 % 89, rng.randrange(50), a1, 0, bidx, 2)
        check('tLweSymEncrypt k=%d' % k, 6, [k, N] + tk + [rng.randrange(-2**31, 2**31) for _ in range(N)], sd + 17 + k, 3, 32768, 0, bidx, 2)
        check('tLweSymEncryptT k=%d' % k, 7, [k, N] + tk + [rng.randrange(-2**31, 2**31)], sd + 19 + k, 0, 32768, 0, bidx, 2)
        for (l, B) in ([(3, 7), (2, 10)] if not thorough else [(3, 7), (2, 10), (4, 8), (2, 16), (16, 2)]):
            check('tGswSymEncryptInt k=%d (l,B)=(%d,%d)' % (k, l, B), 10, [k, N, l, B] + tk + [rng.choice([0, 1, 1, -1, 5])], sd + 23 + k + l, rng.randrange(9), 32768, 0, bidx, 2)
        check('tGswSymEncrypt k=%d' % k, 11, [k, N, 2, 10] + tk + [rng.choice([0, 1, -1]) for _ in range(N)], sd + 29 + k, 0, 10555, 0, bidx, 2)
    # the sweep of noise levels 2^-30 .. 2^-5 and the defaults: 2 x 1024 errors each
    tk1 = [rng.randrange(2) for _ in range(N)]
    for a1 in alphas:
        for rep in range(2 if not thorough else 8):
            check('tLweSymEncryptZero sweep alpha=2^-40*%d' % a1, 5, [1, N] + tk1, sd + 1000 + rep + a1 % 1013, rep, a1, 0, lambda i: i >= N, 2)
    # --- key-switching keys: every row bit-exact (incl. the recentring in binary64), rows h = 0 trivial
    for (n, nout, t, b) in ([(3, 4, 2, 2), (8, 9, 8, 2), (5, 3, 3, 3), (16, 7, 1, 1), (33, 17, 2, 4), (4, 5, 6, 1)] if not thorough else [(3, 4, 2, 2), (8, 9, 8, 2), (5, 3, 3, 3), (16, 7, 1, 1), (33, 17, 2, 4), (64, 33, 8, 2), (7, 630, 8, 2), (1024, 20, 8, 2)]):
        ik = [rng.randrange(2) for _ in range(n)]; ok = [rng.randrange(2) for _ in range(nout)]
        r = check('lweCreateKeySwitchKey n=%d nout=%d (t,b)=(%d,%d)' % (n, nout, t, b), 12, [n, nout, t, b] + ik + ok, sd + 31 + n, rng.randrange(20), 33554432, 0)
        check('lweCreateKeySwitchKey_old n=%d nout=%d (t,b)=(%d,%d)' % (n, nout, t, b), 15, [n, nout, t, b] + ik + ok, sd + 57 + n, rng.randrange(20), 33554432, 0)
        if r and len(r['res']) == n * t * (1 << b) * (nout + 1):
            base = 1 << b; errs = []; bad0 = 0
            for i in range(n):
                for j in range(t):
                    for h in range(base):
                        row = r['res'][((i * t + j) * base + h) * (nout + 1):][:nout + 1]
                        ph = vlib.w32(row[nout] - sum(x for x, y in zip(row[:nout], ok) if y))
                        if h == 0: bad0 += any(row)
                        else: errs.append(vlib.w32(ph - vlib.w32(vlib.w32(ik[i] * h) * vlib.w32(1 << (32 - (j + 1) * b)))))
            if bad0: ctx.report('ks-h0-rows', 'lweCreateKeySwitchKey: %d rows with h = 0 are not the trivial zero sample' % bad0, {'n': n, 'nout': nout, 't': t, 'b': b})
            # recentred: the errors sum to zero up to the truncation of each conversion (< 1 unit each)
            if abs(sum(errs)) > len(errs) + 4:
                ctx.report('ks-recentre', 'lweCreateKeySwitchKey n=%d (t,b)=(%d,%d): the %d row errors sum to %d units (recentred noises sum to zero up to one unit each)' % (n, t, b, len(errs), sum(errs)), {'sum': sum(errs), 'rows': len(errs)})
            if len(errs) >= 100:
                var = sum(e * e for e in errs) / len(errs) / T32 / T32; a = 2.0**-15
                z = abs(var / (a * a) - 1) / math.sqrt(2.0 / len(errs))
                if z > 8: ctx.report('ks-variance', 'key-switching rows: error variance %.3e vs alpha^2 = %.3e (z = %.1f over %d rows)' % (var, a * a, z, len(errs)), {'variance': var, 'expected': a * a, 'z': z})
    # --- lweSymEncryptWithExternalNoise: the noise is an argument, only the mask is drawn (every n incl. odd ones)
    for n in ([1, 2, 7, 8, 9, 33, 631] if not thorough else [1, 2, 3, 7, 8, 9, 16, 33, 500, 631, 1025]):
        key = [rng.randrange(2) for _ in range(n)]
        for rep in range(2):
            msg = rng.choice([0, 2**29, -2**29, rng.randrange(-2**31, 2**31)])
            num = rng.randrange(-2**40, 2**40); ke = rng.choice([45, 50, 60])
            check('lweSymEncryptWithExternalNoise n=%d' % n, 14, [n] + key + [msg, num, ke], sd + 3 * n + rep, rng.randrange(50), 32768, rng.choice([0, 1, 2, 3, 4]))
    # --- whole secret key sets (LWE key, ring key, key-switching key, bootstrapping key in the order of the C++)
    for (n, k, l, B, t, bb) in ([(4, 1, 2, 10, 2, 2), (3, 2, 3, 7, 1, 3)] if not thorough else [(4, 1, 2, 10, 2, 2), (3, 2, 3, 7, 1, 3), (16, 1, 3, 7, 8, 2), (630, 1, 3, 7, 8, 2), (500, 1, 2, 10, 8, 2)]):
        nks = k * N * t * (1 << bb) * (n + 1)
        bidx = lambda i, n=n, k=k, nks=nks: i >= n + k * N + nks and ((i - n - k * N - nks) % ((k + 1) * N)) >= k * N
        check('new_random_gate_bootstrapping_secret_keyset n=%d k=%d (l,B)=(%d,%d) (t,bb)=(%d,%d)' % (n, k, l, B, t, bb), 13, [n, k, N, l, B, t, bb], sd + 41 + n, 0, 33554432, 32768, bidx, 2)
    # --- seeding
    key = [rng.randrange(2) for _ in range(9)]
    outs = {}
    for (s, sk) in ((sd + 1, 0), (sd + 1, 0), (sd + 2, 0), (sd + 1, 10)):
        line, r = E.lib(1, [9] + key + [2**29], s, sk, 33554432, 0); ctx.count((line, len(outs)))
        outs.setdefault((s, sk), []).append(r['res'] if r else None)
    if outs[(sd + 1, 0)][0] != outs[(sd + 1, 0)][1]: ctx.report('seed-determinism', 're-seeding with the same seed does not reproduce the same ciphertext', {'seed': sd + 1})
    if outs[(sd + 1, 0)][0] == outs[(sd + 2, 0)][0]: ctx.report('seed-sensitivity', 'different seeds give the same ciphertext', {'seeds': [sd + 1, sd + 2]})
    if outs[(sd + 1, 0)][0] == outs[(sd + 1, 10)][0]: ctx.report('fresh-randomness', 'two encryptions of the same message at different generator positions are identical', {'seed': sd + 1})
    # --- special one-word seeds: 0, 1, the engine's modulus 2^31 - 1 and its neighbours, two seeds that differ by the modulus: all different streams
    sp = {}
    for sv in (0, 1, 2**31 - 2, 2**31 - 1, 2**31, 2**32 - 1, 5, 5 + 2**31 - 1, 2**31 + 5):
        line, r = E.lib(1, [9] + key + [2**29], sv, 0, 33554432, 0); ctx.count(line)
        if r: sp.setdefault(tuple(r['res']), []).append(sv)
    for res_, svs in sp.items():
        if len(svs) > 1: ctx.report('seed-sensitivity', 'the one-word seeds %s give the same ciphertext (same mask, same noise): the seed is not fed through the seed sequence, distinct seeds collapse' % svs, {'seeds': svs})
    # --- the generator is one per process: seeded by the main thread, drawn from by worker threads that run one after the other (key generation,
    #     two encryptions).  The draws must be the continuation of the seeded stream (replayed by the harness), so the two masks differ and a
    #     different seed gives a different key
    touts = {}
    for s in (sd + 5, sd + 6):
        line, r = E.lib(16, [40], s, 3, 33554432, 0); ctx.count(line)
        if r is None: ctx.report('enc-crash', 'key generation / encryption on worker threads died', {'case': line}); continue
        touts[s] = r
        key = r['res'][:40]; c1 = r['res'][40:81]; c2 = r['res'][81:122]
        if not r['same']:
            ctx.report('draw-sequence', 'key generation and two encryptions made by worker threads (seed set by the main thread): the process generator is not in the state reached by the draws these calls make - '
                       'the worker threads did not draw from the seeded stream', {'case': line})
        if c1[:40] == c2[:40]: ctx.report('fresh-randomness', 'two encryptions made by two worker threads one after the other have the same mask', {'case': line})
    if len(touts) == 2 and touts[sd + 5]['res'][:40] == touts[sd + 6]['res'][:40]:
        ctx.report('seed-sensitivity', 'LWE keys generated by a worker thread after the main thread set two different seeds are identical', {'seeds': [sd + 5, sd + 6]})
    # --- statistics of the embedded draws
    stats = {}
    for a1, G in Gby.items():
        if a1 == 'mixed' or len(G) < 2000 or a1 == 0: continue
        alpha = a1 / 2.0**40; n = len(G); m = sum(G) / n; v = sum((g - m)**2 for g in G) / (n - 1); k4 = sum((g - m)**4 for g in G) / n / (v * v)
        zm = abs(m) / (alpha / math.sqrt(n)); zv = abs(v / (alpha * alpha) - 1) / math.sqrt(2.0 / n); zk = abs(k4 - 3) / math.sqrt(24.0 / n)
        stats['alpha=2^-40*%d' % a1] = {'n': n, 'mean/alpha': round(m / alpha, 4), 'var/alpha^2': round(v / (alpha * alpha), 4), 'kurtosis': round(k4, 3)}
        for nm, z in (('mean', zm), ('variance', zv), ('kurtosis', zk)):
            if z > 8: ctx.report('sampler-' + nm, 'Gaussian errors at alpha=%.3e: %s off by %.1f estimator standard deviations (n=%d)' % (alpha, nm, z, n), {'alpha': alpha, 'statistic': nm, 'z': z, 'n': n})
    if len(allU) > 5000:
        hist = [0] * 256
        for w in allU:
            u = w % 2**32
            for s in (0, 8, 16, 24): hist[(u >> s) & 255] += 1
        tot = 4 * len(allU); chi = sum((h - tot / 256.0)**2 / (tot / 256.0) for h in hist); zc = (chi - 255) / math.sqrt(510.0)
        mu = sum(allU) / len(allU); num = sum((allU[i] - mu) * (allU[i + 1] - mu) for i in range(len(allU) - 1)); den = sum((x - mu)**2 for x in allU)
        zl = abs(num / den) * math.sqrt(len(allU))
        stats['masks'] = {'words': len(allU), 'byte_chi2_z': round(zc, 2), 'lag1_z': round(zl, 2), 'mean/2^31': round(mu / 2**31, 4)}
        if zc > 8: ctx.report('mask-bytes', 'mask bytes are not uniform (chi-square z = %.1f over %d bytes)' % (zc, tot), {'z': zc})
        if zl > 8: ctx.report('mask-correlation', 'successive mask words are correlated (z = %.1f)' % zl, {'z': zl})
        if abs(mu) / (2**32 / math.sqrt(12 * len(allU))) > 8: ctx.report('mask-mean', 'mask words are not centred', {'mean': mu})
    if len(allB) > 1000:
        f = sum(allB) / len(allB); zb = abs(f - 0.5) / (0.5 / math.sqrt(len(allB)))
        stats['key_bits'] = {'n': len(allB), 'frequency_of_1': round(f, 4)}
        if any(b not in (0, 1) for b in allB): ctx.report('key-not-binary', 'a secret key coefficient is not 0 or 1', {})
        if zb > 8: ctx.report('key-balance', 'secret key bits are not balanced: frequency %.4f over %d bits' % (f, len(allB)), {'frequency': f})
    ctx.hypotheses.update(stats)
    ctx.sample(stats)

def replay(ctx, data):
    exe = vlib.build_harness('enc_drv.cpp', vlib.build_lib('optim'), 'spqlios-fma', 'optim')
    if 'case' not in data: print(json.dumps(data, indent=1)[:2000]); return 0
    o = vlib.run_lines(exe, [data['case']], timeout=1800)[0].split()
    print('case: %s ...\ngenerator states equal now: %s; recorded: %s' % (data['case'][:150], o[0] if o else 'CRASH', {k: data[k] for k in data if k in ('index', 'impl', 'model', 'differing', 'draws_predicted')}))
    return 0
