# C16 — no out-of-bounds access, uninitialised read or leak for any valid configuration
import vlib, json, os, subprocess, re
from concurrent.futures import ThreadPoolExecutor
LEVEL = 'proof'

def ints(s): return [int(x) for x in s.split()]

# lambda n k l Bgbit t basebit   (lambda > 0: default set)
Q_CONFIGS = [(0, 1, 1, 3, 7, 8, 2), (0, 3, 1, 2, 10, 8, 2), (0, 7, 2, 2, 10, 4, 4), (0, 8, 1, 4, 8, 2, 8), (0, 9, 1, 16, 2, 31, 1), (0, 3, 2, 1, 16, 1, 1),
             (0, 500, 1, 2, 10, 8, 2), (0, 1025, 1, 3, 7, 8, 2), (128, 0, 0, 0, 0, 0, 0)]
def t_configs():
    cs = []
    for n in (1, 3, 7, 8, 9, 500, 630, 1024, 1025, 1100):
        for k in (1, 2):
            for (l, B) in ((3, 7), (2, 10), (4, 8), (16, 2), (1, 16)):
                for (t, bb) in ((8, 2), (1, 1), (31, 1), (4, 4), (2, 8)):
                    if n * k * 1024 * t * (1 << bb) * 4 > 6e8: continue          # key-switching key above 600 MB: skipped (memory of the sandbox)
                    if (n >= 500 and not ((l, B) in ((3, 7), (2, 10)) and (t, bb) == (8, 2))): continue
                    if n < 500 and (n + k + l + t) % 3 and (l, B, t, bb) != (3, 7, 8, 2): continue
                    cs.append((0, n, k, l, B, t, bb))
    return cs + [(128, 0, 0, 0, 0, 0, 0), (80, 0, 0, 0, 0, 0, 0)]

def run_san(exe, lines, env, timeout):
    p = subprocess.run([exe], input='\n'.join(lines) + '\n', stdout=subprocess.PIPE, stderr=subprocess.PIPE, text=True, timeout=timeout, env=env)
    return p.returncode, p.stdout, p.stderr

def run(ctx):
    thorough = ctx.tier == 'thorough'
    rng = ctx.rng
    ctx.rule = ('configurations (lambda | n,k,l,Bgbit,t,basebit) incl. n in {1,3,7,8,9,500,1025} (n < vector width, n > N), k = 2, extreme (l,Bgbit) in {(16,2),(1,16)} and (t,basebit) in {(31,1),(1,1),(2,8)}; per configuration a full '
                'lifecycle (parameters, key generation, encryption, all 14 gates incl. aliased results, decryption, export/import of parameter set, cloud key, secret key, ciphertext on either transport, gates under the '
                're-imported keys, deletion of everything) under AddressSanitizer + LeakSanitizer + UBSan(bounds, null, alignment, object-size, pointer-overflow), each configuration in its own process AND all of them one '
                'after the other in one process in ascending then descending order of n (state kept between key sets); valgrind memcheck (inline assembly is invisible to ASan) on the AVX2 build for LWE operations at '
                'n = 1..13 and small-n lifecycles; allocator interposed: block sizes requested by new_<type> against the extracted ledger model for 15 types, nothing live after delete_<type> nor after a whole lifecycle '
                '(collector finalised); Karatsuba_aux on exact-size workspace blocks (size from the extracted model, high-water mark compared); heap growth over 200 thread create / FFT product / exit cycles on every back-end. distinct = distinct (tool, configuration)')
    ctx.assumptions = ['partial: uninitialised reads, use-after-free and real heap behaviour are observed by the tools on the configurations run, not proved; the model covers index arithmetic and allocation bookkeeping',
                       'UBSan checks for signed overflow and shifts are off: the library relies on two\'s-complement wrap-around of int32 arithmetic throughout (C13, C14 model it explicitly)',
                       'key-switching keys above 600 MB are skipped in the thorough matrix (sandbox memory)']
    ctx.prove()
    configs = Q_CONFIGS if not thorough else t_configs()
    sd = ctx.seed
    # ---- A: ASan / LSan / UBSan
    blib = vlib.build_lib('asan'); aexe = vlib.build_harness('mem_drv.cpp', blib, 'spqlios-fma', 'asan')
    env = dict(os.environ, ASAN_OPTIONS='detect_leaks=1:abort_on_error=0:exitcode=99:allocator_may_return_null=1', UBSAN_OPTIONS='print_stacktrace=1:halt_on_error=1')
    def life_line(c, tr): return 'life %s %d %d' % (' '.join(map(str, c)), sd, tr)
    def one(job):
        c, tr = job
        try: return run_san(aexe, [life_line(c, tr)], env, 3600)
        except subprocess.TimeoutExpired: return (-1, '', 'timeout')
    jobs = [(c, i % 2) for i, c in enumerate(configs)]
    with ThreadPoolExecutor(max_workers=max(2, vlib.NPROC // 2)) as ex: outs = list(ex.map(one, jobs))
    def judge(tag, cfgdesc, rc, out, err, replay):
        ctx.count((tag, cfgdesc))
        m = re.search(r'(ERROR: AddressSanitizer: [^\n]*|runtime error: [^\n]*|ERROR: LeakSanitizer[^\n]*)', err)
        if rc != 0 or m:
            where = re.findall(r'#\d+ 0x[0-9a-f]+ in ([^\n]*libtfhe[^\n]*|[^\n]*/repo/src/[^\n]*)', err)[:3]
            kind = 'leak' if 'LeakSanitizer' in err and 'AddressSanitizer:' not in err.replace('LeakSanitizer', '') else 'memory-error'
            ctx.report(kind, '%s, configuration %s: %s%s' % (tag, cfgdesc, m.group(1) if m else ('process exited with status %d' % rc), (' at ' + '; '.join(where)) if where else ''),
                       dict(replay, stderr_tail=err[-3000:], status=rc))
            return False
        return True
    for (c, tr), (rc, out, err) in zip(jobs, outs):
        judge('ASan/LSan/UBSan, own process', str(c), rc, out, err, {'tool': 'asan', 'lines': [life_line(c, tr)]})
    # all configurations in ONE process: ascending then descending n (what one key set leaves behind must not hurt the next)
    seqc = sorted([c for c in configs if c[0] == 0 and c[1] * c[2] * c[5] * (1 << c[6]) < 60000], key=lambda c: c[1])
    seq = seqc + [(128, 0, 0, 0, 0, 0, 0)] + seqc[::-1]
    lines = [life_line(c, i % 2) for i, c in enumerate(seq)]
    rc, out, err = run_san(aexe, lines, env, 7200)
    judge('ASan/LSan/UBSan, %d key sets one after the other in one process (n = %s)' % (len(seq), [c[1] for c in seq]), 'sequence', rc, out, err, {'tool': 'asan', 'lines': lines})
    # release during process termination: keys, key sets and ciphertexts that refer to library-owned parameter objects are deleted by clean-up code the
    # application registered before its first use of the library (atexit() at the top of main; a static RAII holder) - one fresh process each
    for variant, vname in ((0, 'atexit() handler registered first'), (1, 'static RAII holder constructed first')):
        for full in ((0, 1) if thorough else (0,)):
            el = ['exitlife %d %d 128' % (variant, full)]
            rc, out, err = run_san(aexe, el, env, 3600)
            judge('ASan/LSan/UBSan, objects released during process termination (%s%s)' % (vname, ', full key set' if full else ''), 'exitlife %d %d' % (variant, full), rc, out, err, {'tool': 'asan', 'lines': el})
    # deletion order: the parameter set object deleted before the key sets made from it
    dl = ['delorder 128', 'delorder 80']
    rc, out, err = run_san(aexe, dl, env, 3600)
    judge('ASan/LSan/UBSan, parameter set deleted before its key sets', 'delorder', rc, out, err, {'tool': 'asan', 'lines': dl})
    # the lower-level key lifecycle: the coefficient-domain bootstrapping key is deleted before its FFT conversion is used and deleted
    flines = ['fftkeylife 3 1 2 10 8 2', 'fftkeylife 9 2 3 7 4 4', 'fftkeylife 1 1 2 16 2 8']
    rc, out, err = run_san(aexe, flines, env, 3600)
    if judge('ASan/LSan/UBSan, source key deleted before its FFT key is used', 'fftkeylife', rc, out, err, {'tool': 'asan', 'lines': flines}):
        for fl, o in zip(flines, out.strip().split('\n')):
            if o.split()[:2] != ['ok', '0']: ctx.report('fft-key-not-self-contained', '%s: bootstrapping through an FFT key whose source key has been deleted gives wrong signs (%s)' % (fl, o[:40]), {'tool': 'asan', 'lines': [fl]})
    # Karatsuba workspace: the routine runs on exact-size heap blocks of the size the model predicts (ASan redzones right behind),
    # its highest written byte must be the model's high-water mark, guard words behind R and behind the workspace survive
    ksizes = [1, 2, 4, 8, 16, 32, 64, 128, 256, 512, 1024, 2048] + ([4096, 12, 20, 24, 36, 40, 48, 72, 96, 136, 200] if thorough else [12, 24, 40])
    km = vlib.run_model(['karamem %d' % z for z in ksizes], 'fast')
    klines = []; kexp = []
    for z, m in zip(ksizes, km):
        u, w, ok = [int(x) for x in m.split()]
        klines.append('karamem %d %d %d %d' % (z, 6, sd + z, u)); kexp.append((z, u, w, ok))
    rc, out, err = run_san(aexe, klines, env, 3600)
    if judge('ASan, Karatsuba_aux on exact-size workspace', 'sizes %s' % ksizes, rc, out, err, {'tool': 'asan', 'lines': klines}):
        for (z, u, w, ok), o in zip(kexp, out.strip().split('\n')):
            t = o.split(); ctx.count(('karamem', z))
            if len(t) < 4 or t[0] != 'ok': ctx.report('karatsuba-workspace', 'Karatsuba_aux size %d: no answer (%s)' % (z, o[:60]), {'tool': 'asan', 'lines': klines}); continue
            hw, guards, right = int(t[1]), int(t[2]), int(t[3])
            if not guards: ctx.report('karatsuba-workspace', 'Karatsuba_aux size %d writes behind the %d bytes of workspace the model computes or behind the 2*size-1 result words' % (z, u), {'tool': 'asan', 'lines': klines})
            elif hw != max(w, 0):
                ctx.soft('correspondence:karatsuba-workspace', 'Karatsuba_aux size %d: highest written workspace byte is %d, the model says %d (of %d)' % (z, hw, w, u), {'tool': 'asan', 'lines': klines, 'size': z, 'impl': hw, 'model': w})
            if not right and ok: ctx.report('karatsuba-workspace', 'Karatsuba_aux size %d: result differs from the schoolbook product' % z, {'tool': 'asan', 'lines': klines})
            if u > 16 * z: ctx.report('karatsuba-workspace', 'model workspace %d exceeds 16*size for size %d' % (u, z), {'size': z})
    # the convenience pointers and dimension fields inside freshly built objects (an alias that points elsewhere is an out-of-bounds
    # access waiting for the first client that follows it)
    alines = ['aliases %d %d %d %d %d' % c for c in ((5, 1, 3, 8, 2), (3, 2, 2, 3, 1), (1, 3, 1, 1, 4), (9, 2, 4, 2, 3))]
    rc, out, err = run_san(aexe, alines, env, 1800)
    if judge('ASan, object structure invariants', 'aliases', rc, out, err, {'tool': 'asan', 'lines': alines}):
        for l, o in zip(alines, out.strip().split('\n')):
            t = o.split(); ctx.count(l)
            if len(t) < 4 or t[0] != 'ok' or t[1] != '0':
                ctx.report('object-structure', '%s: %s of the structure invariants of freshly allocated objects do not hold (first: number %s of %s): an alias pointer or dimension field differs from what the headers document' % (l, t[1] if len(t) > 1 else '?', t[2] if len(t) > 2 else '?', t[3] if len(t) > 3 else '?'), {'tool': 'asan', 'lines': [l]})
    # every _array constructor / destructor pair, and the stand-alone LWE / TLWE / polynomial operations of drv.cpp, under ASan
    rc, out, err = run_san(aexe, ['arrays 1', 'arrays 3', 'arrays 8'], env, 1800)
    judge('ASan, _array constructors and destructors', 'arrays 1/3/8', rc, out, err, {'tool': 'asan', 'lines': ['arrays 1', 'arrays 3', 'arrays 8']})
    dexe = vlib.build_harness('drv.cpp', blib, 'spqlios-fma', 'asan')
    def rvn(n, lo=-2**31, hi=2**31): return ' '.join(str(rng.randrange(lo, hi)) for _ in range(n))
    dlines = []
    for n in (1, 3, 7, 8, 9, 16, 33):
        for opc in (0, 1, 2, 3, 4, 5, 6, 7, 100, 101, 102, 103, 104, 107): dlines.append('lwelin %d %d %d %s %d %s %d' % (opc, n, rng.choice([0, 1, -1, 3, -2**31]), rvn(n), 5, rvn(n), 6))
    for (kk, nn) in ((1, 16), (2, 64), (3, 8), (1, 1024)):
        for opc in (0, 1, 2, 3, 4, 5, 7, 20, 21, 121, 22, 23, 24, 25, 26) + ((6,) if nn == 1024 else ()):
            dlines.append('tlwe %d %d %d %d %s %s' % (opc, kk, nn, rng.randrange(0, nn) if opc in (4, 5) else 3, rvn((kk + 1) * nn), rvn((kk + 1) * nn, 0, 2)))
    for nn in (1, 2, 4, 8, 16, 64):
        for opc in range(0, 14): dlines.append('poly %d %d %d %s %s %s' % (opc, nn, rng.randrange(0, 2 * nn), rvn(nn, -600, 600), rvn(nn), rvn(nn)))
    rc, out, err = run_san(dexe, dlines, env, 3600)
    judge('ASan, stand-alone LWE / TLWE / polynomial operations', '%d operation lines' % len(dlines), rc, out, err, {'tool': 'asan-drv', 'lines': dlines})
    # ---- the remaining API surface under ASan/LSan/UBSan: every encryption / decryption / key-generation entry point (enc_drv), the TGSW
    #      operations in both domains and gate-level calls on a small key set (boot_drv), export and import of every object kind (io_drv)
    def rv32(n): return ' '.join(str(rng.randrange(-2**31, 2**31)) for _ in range(n))
    def rbits(n): return ' '.join(str(rng.randrange(2)) for _ in range(n))
    NN = 1024
    el = []
    for n in (1, 7, 9):
        pre = 'enc %%d %d %d 1048576 32768' % (rng.randrange(1, 10**6), rng.randrange(20))
        el += [pre % 0 + ' %d' % n, pre % 1 + ' %d %s %d' % (n, rbits(n), rng.randrange(-2**31, 2**31)), pre % 2 + ' %d %s 1' % (n, rbits(n)),
               pre % 14 + ' %d %s %d 12345 40' % (n, rbits(n), rng.randrange(-2**31, 2**31)), pre % 3 + ' %d %s %s %d 8' % (n, rbits(n), rv32(n), rng.randrange(-2**31, 2**31))]
    for k in (1, 2):
        pre = 'enc %%d %d %d 1048576 32768' % (rng.randrange(1, 10**6), rng.randrange(20)); key = rbits(k * NN)
        el += [pre % 4 + ' %d %d' % (k, NN), pre % 5 + ' %d %d %s' % (k, NN, key), pre % 6 + ' %d %d %s %s' % (k, NN, key, rv32(NN)), pre % 7 + ' %d %d %s 536870912' % (k, NN, key),
               pre % 8 + ' %d %d %s %s 8' % (k, NN, key, rv32((k + 1) * NN)), pre % 9 + ' %d %d %s %s 5' % (k, NN, key, rv32((k + 1) * NN)),
               pre % 10 + ' %d %d 2 10 %s 1' % (k, NN, key), pre % 11 + ' %d %d 3 7 %s %s' % (k, NN, key, ' '.join(str(rng.randrange(8)) for _ in range(NN)))]
    pre = 'enc %%d %d 3 1048576 32768' % rng.randrange(1, 10**6)
    el += [pre % 12 + ' 5 3 4 2 %s %s' % (rbits(5), rbits(3)), pre % 15 + ' 5 3 4 2 %s %s' % (rbits(5), rbits(3)), pre % 12 + ' 3 9 2 8 %s %s' % (rbits(3), rbits(9)), pre % 13 + ' 3 1 1024 2 10 4 2']
    eexe = vlib.build_harness('enc_drv.cpp', blib, 'spqlios-fma', 'asan')
    rc, out, err = run_san(eexe, el, env, 3600)
    judge('ASan, encryption / decryption / key-generation entry points', '%d calls' % len(el), rc, out, err, {'tool': 'asan-any', 'harness': 'enc_drv.cpp', 'lines': el})
    bl = []
    for (k, l, B) in ((1, 2, 10), (2, 3, 7)):
        base = '%d %d %d %d' % (k, NN, l, B); rows = rv32((k + 1) * l * (k + 1) * NN); acc = rv32((k + 1) * NN)
        bl += ['tgsw 1 %s %s' % (base, ' '.join(str(rng.randrange(-4, 5)) for _ in range(NN))), 'tgsw 0 %s %s %s' % (base, rows, acc), 'tgsw 100 %s %s %s' % (base, rows, acc),
               'tgsw 2 %s %s %s' % (base, rows, ' '.join(str(rng.randrange(-4, 5)) for _ in range(NN))), 'tgsw 3 %s %s 5' % (base, rows), 'tgsw 4 %s %s %s 8' % (base, rows, rbits(k * NN)),
               'tgsw 5 %s %s' % (base, rows), 'tgsw 6 %s %s %s' % (base, rows, acc), 'tgsw 7 %s %s %d' % (base, rows, rng.randrange(2 * NN)), 'tgsw 8 %s %s' % (base, rows), 'tgsw 9 %s %s' % (base, rows),
               'tgsw 10 %s %s %s %s' % (base, rows, acc, ' '.join(str(rng.randrange(-8, 9)) for _ in range(NN))), 'tgsw 11 %s %s %s %s' % (base, rows, acc, ' '.join(str(rng.randrange(-8, 9)) for _ in range(NN))),
               'tgsw 12 %s %s' % (base, rows), 'tgsw 13 %s %s' % (base, rows)]
    spec = '0 3 1 2 10 4 2 32768 1048576 %d' % (ctx.seed + 5)
    bl += ['fullkey ' + spec, 'fullcase %s 536870912 31 %s %d' % (spec, rv32(3), rng.randrange(-2**31, 2**31))]
    for g in (0, 3, 13, 10, 11, 12, 413, 713): bl.append('gatecase %s %d %s' % (spec, g, ' '.join(rv32(3) + ' ' + str(rng.choice([2**29, -2**29])) for _ in range(3))))
    bexe2 = vlib.build_harness('boot_drv.cpp', blib, 'spqlios-fma', 'asan')
    rc, out, err = run_san(bexe2, bl, env, 3600)
    judge('ASan, TGSW operations in both domains and gate-level calls on a small key set', '%d calls' % len(bl), rc, out, err, {'tool': 'asan-any', 'harness': 'boot_drv.cpp', 'lines': bl})
    import codecgen as G
    iexe = vlib.build_harness('io_drv.cpp', blib, 'spqlios-fma', 'asan')
    xl = []; xmeta = []
    for code in range(1, 15):
        f, c = G.gen(rng, code)
        for tr in (0, 1): xl.append('cexp %d %d %s' % (code, tr, ' '.join(map(str, f)))); xmeta.append((code, tr, c))
    noleak = dict(env, ASAN_OPTIONS=env.get('ASAN_OPTIONS', '') + ':detect_leaks=0')      # io_drv builds its objects and never frees them (and its importing child aborts on purpose on bad input): memory errors only
    rc, out, err = run_san(iexe, xl, noleak, 3600)
    if judge('ASan, export of every object kind on both transports', '%d exports' % len(xl), rc, out, err, {'tool': 'asan-any', 'harness': 'io_drv.cpp', 'lines': [x[:20000] for x in xl]}):
        ml = []
        for (code, tr, c), o in zip(xmeta, out.split('\n')):
            b = o.split()
            if code in (13, 14) or not b: continue
            ml.append('cimp %d %d %s %d %s' % (code, tr, ' '.join(map(str, c)), len(b), ' '.join(b)))
            if len(b) > 40: ml.append('cimp %d %d %s %d %s' % (code, tr, ' '.join(map(str, c)), len(b) - 7, ' '.join(b[:-7])))      # and a truncated one (the importer's error path)
        rc, out, err = run_san(iexe, ml, noleak, 3600)
        judge('ASan, import of every object kind on both transports (complete and truncated)', '%d imports' % len(ml), rc, out, err, {'tool': 'asan-any', 'harness': 'io_drv.cpp', 'lines': [x[:20000] for x in ml]})
    # every FFT back-end under ASan: all transform / Lagrange-domain entry points once (the lifecycles above run on spqlios-fma)
    NN = 1024
    def rv(lo, hi): return ' '.join(str(rng.randrange(lo, hi)) for _ in range(NN))
    flines = ['fft 0 %d %s %s' % (NN, rv(-512, 513), rv(-2**31, 2**31)), 'fft 1 %d %s %s %s' % (NN, rv(-512, 513), rv(-2**31, 2**31), rv(-2**31, 2**31)),
              'fft 2 %d %s %s %s' % (NN, rv(-512, 513), rv(-2**31, 2**31), rv(-2**31, 2**31)), 'fft 3 %d %s' % (NN, rv(-2**31, 2**31)),
              'fft 4 %d 2 %s %s %s %s' % (NN, rv(-512, 513), rv(-2**31, 2**31), rv(-512, 513), rv(-2**31, 2**31)), 'fft 5 %d %s %s' % (NN, rv(-2**31, 2**31), rv(-2**31, 2**31)),
              'fft 6 %d %s 12345' % (NN, rv(-2**31, 2**31)), 'fft 7 %d 777' % NN, 'fft 8 %d' % NN, 'fft 9 %d %s %s %s' % (NN, rv(-512, 513), rv(-2**31, 2**31), rv(-2**31, 2**31)),
              'fft 10 %d %s %s' % (NN, rv(-512, 513), rv(-2**31, 2**31)), 'fft 11 %d %s' % (NN, rv(-512, 513))]
    for be in vlib.BACKENDS:
        fexe = vlib.build_harness('fft_drv.cpp', blib, be, 'asan')
        rc, out, err = run_san(fexe, flines, env, 1800)
        judge('ASan, FFT and Lagrange-domain entry points of %s' % be, 'fft opcodes 0-11', rc, out, err, {'tool': 'asan-fft', 'backend': be, 'lines': flines})
        # thread lifetimes on this back-end: first FFT user is a thread that exits; FFT-domain objects allocated by a thread that exits
        mexe = vlib.build_harness('mem_drv.cpp', blib, be, 'asan')
        rc, out, err = run_san(mexe, ['threadfirst'], env, 1800)
        judge('ASan, thread lifetimes (%s)' % be, 'threadfirst', rc, out, err, {'tool': 'asan-be', 'backend': be, 'lines': ['threadfirst']})
        if rc == 0 and out.strip() and out.split()[:2] != ['ok', '0']:
            ctx.report('thread-handover-wrong', '%s: transforms on FFT-domain objects that were allocated by a thread which has exited give wrong results (%s)' % (be, out.strip()[:60]), {'tool': 'asan-be', 'backend': be, 'lines': ['threadfirst']})
    # ---- B: memcheck on the AVX2 build (assembly paths)
    vlibd = vlib.build_lib('vg'); vexe = vlib.build_harness('mem_drv.cpp', vlibd, 'spqlios-fma', 'vg')
    vjobs = [['small %d' % n for n in range(1, 14)] + ['small 500', 'small 1023'], ['threadfirst'], ['fftkeylife 3 1 2 10 8 2'], [life_line((0, 3, 1, 2, 10, 8, 2), 1)], [life_line((0, 7, 2, 3, 7, 8, 2), 0)], [life_line((0, 8, 1, 16, 2, 4, 4), 1), life_line((0, 1, 1, 1, 16, 2, 2), 0)]]
    if thorough: vjobs += [[life_line((0, 1025, 1, 3, 7, 8, 2), 1)], [life_line((128, 0, 0, 0, 0, 0, 0), 0)], [life_line((0, 9, 2, 2, 10, 8, 2), 0), life_line((0, 3, 1, 4, 8, 31, 1), 1)]]
    def vg(lines):
        try:
            p = subprocess.run(['valgrind', '--error-exitcode=77', '--leak-check=full', '--errors-for-leak-kinds=definite,indirect', '--track-origins=no', '-q', vexe],
                               input='\n'.join(lines) + '\n', stdout=subprocess.PIPE, stderr=subprocess.PIPE, text=True, timeout=7200)
            return p.returncode, p.stdout, p.stderr
        except subprocess.TimeoutExpired: return (-1, '', 'timeout')
    with ThreadPoolExecutor(max_workers=vlib.NPROC) as ex: vouts = list(ex.map(vg, vjobs))
    for lines, (rc, out, err) in zip(vjobs, vouts):
        ctx.count(('memcheck', tuple(lines)))
        if rc != 0 or 'Invalid' in err or 'uninitialised' in err or 'definitely lost' in err:
            m = re.search(r'(Invalid (read|write) of size \d+|Conditional jump or move depends on uninitialised value|Use of uninitialised value[^\n]*|[\d,]+ bytes in [\d,]+ blocks are definitely lost[^\n]*)', err)
            where = re.findall(r'(?:at|by) 0x[0-9A-F]+: ([^\n]*\((?:[a-z-]+\.cpp|[a-z-]+\.c|[A-Za-z_-]+\.s):\d+\))', err)[:3]
            ctx.report('memcheck', 'valgrind memcheck (AVX2 build), %s: %s%s' % (lines[0][:50], m.group(1) if m else 'exit status %d' % rc, (' at ' + '; '.join(where)) if where else ''),
                       {'tool': 'memcheck', 'lines': lines, 'stderr_tail': err[-3000:], 'status': rc})
    # ---- C: allocation ledger against the model, lifecycle leaves nothing, thread exit releases the FFT state
    lexe = vlib.build_harness('mem_drv.cpp', vlib.build_lib('optim'), 'spqlios-fma', 'optim', extra=['-DVERIF_LEDGER'], name='mem_ledger')
    lcases = []
    for ty in range(15):
        for rep in range(2 if not thorough else 5):
            p1 = rng.choice([1, 3, 8, 17, 630]) if ty in (0, 1, 2, 9, 10, 12) else rng.choice([16, 64, 1024])
            if ty == 10: p1 = rng.choice([1, 2, 5])
            p2 = rng.choice([1, 2, 3]); p3 = rng.choice([1, 2, 3]); p4 = rng.choice([1, 3, 9])
            if ty == 9: p1 = rng.choice([1, 3, 8]); p3 = rng.choice([1, 2])
            lcases.append('ledger %d %d %d %d %d' % (ty, p1, p2, p3, p4))
    # array constructors, FFT-domain objects (types 15-17, 20-32): balance only
    for ty in list(range(15, 18)) + list(range(20, 35)):
        p1 = 1024 if ty in (15, 16, 17, 21, 27, 31) else rng.choice([1, 3, 8, 17]) if ty < 33 else rng.choice([1, 2, 3])
        lcases.append('ledger %d %d %d %d %d' % (ty, p1, rng.choice([1, 2]), rng.choice([1, 2, 3]), rng.choice([1, 2, 5])))
    louts = vlib.run_lines(lexe, lcases, timeout=1800)
    mlines = []
    for l, o in zip(lcases, louts):
        t = o.split()
        mlines.append('ledger %s %s' % (l.split(' ', 1)[1], ' '.join(t[1:12])) if t and t[0] == 'ok' else 'ledger 99')
    mouts = vlib.run_model(mlines, 'fast', timeout=1800)
    for l, o, m in zip(lcases, louts, mouts):
        ctx.count(l)
        if not o.startswith('ok'): ctx.report('ledger-crash', '%s died: %s' % (l, o[:80]), {'tool': 'ledger', 'lines': [l]}); continue
        v = ints(o[2:]); sep = v.index(-1, 11); obs = v[11:sep]; after = v[sep + 1:]
        if after[0] != 0:
            ctx.report('delete-leaves-blocks', '%s: %d blocks (%d bytes) requested by new_<type> are still allocated after delete_<type>' % (l, after[0], after[1]), {'tool': 'ledger', 'lines': [l], 'observed': o[:600]})
        if int(l.split()[1]) < 15 and obs != ints(m):
            ctx.soft('correspondence:ledger', '%s: blocks requested by new_<type> %s... differ from the ledger model %s...' % (l, obs[:8], ints(m)[:8]), {'tool': 'ledger', 'lines': [l], 'observed': obs[:200], 'model': ints(m)[:200]})
    # the two-phase C API (alloc_<type> + init_<type>, destroy_<type> + free_<type>, and the _array forms) must request the same blocks as
    # new_<type> and leave nothing behind either
    tcases = ['ledger %d %s' % (int(l.split()[1]) + 100, l.split(' ', 2)[2]) for l in lcases]
    touts = vlib.run_lines(lexe, tcases, timeout=1800)
    for l, tl, o, to in zip(lcases, tcases, louts, touts):
        ctx.count(tl)
        if not to.startswith('ok'): ctx.report('ledger-crash', '%s (alloc_/init_/destroy_/free_ API) died: %s' % (tl, to[:80]), {'tool': 'ledger', 'lines': [tl]}); continue
        if not o.startswith('ok'): continue
        v = ints(to[2:]); sep = v.index(-1, 11); obs2 = v[11:sep]; after = v[sep + 1:]
        v0 = ints(o[2:]); obs0 = v0[11:v0.index(-1, 11)]
        if after[0] != 0:
            ctx.report('destroy-free-leaves-blocks', '%s: %d blocks (%d bytes) requested by alloc_<type> + init_<type> are still allocated after destroy_<type> + free_<type>' % (tl, after[0], after[1]), {'tool': 'ledger', 'lines': [tl], 'observed': to[:600]})
        if obs2 != obs0:
            ctx.report('two-phase-api-differs', '%s: alloc_<type> + init_<type> requests blocks %s..., new_<type> requests %s... for the same object' % (tl, obs2[:8], obs0[:8]), {'tool': 'ledger', 'lines': [tl, l], 'observed': obs2[:200], 'new_api': obs0[:200]})
    for c in [(0, 3, 1, 2, 10, 8, 2), (0, 8, 2, 3, 7, 4, 4), (128, 0, 0, 0, 0, 0, 0)]:
        for tr in (0, 1):
            l = 'lifeleak %s %d %d' % (' '.join(map(str, c)), sd, tr); o = vlib.run_lines(lexe, [l], timeout=1800)[0]; ctx.count(l)
            v = ints(o[2:]) if o.startswith('ok') else [-1]
            if v[0] != 0: ctx.report('lifecycle-leak', 'after a whole create/evaluate/export/import/delete lifecycle (collector finalised), configuration %s: %s blocks still allocated (sizes %s)' % (c, v[0], v[2:8]), {'tool': 'ledger', 'lines': [l], 'observed': o[:300]})
    growth = {}
    for be in (vlib.BACKENDS if thorough else ['spqlios-fma', 'spqlios-avx', 'nayuki-portable', 'fftw']):
        texe = vlib.build_harness('mem_drv.cpp', vlib.build_lib('optim'), be, 'optim')
        o = vlib.run_lines(texe, ['threads 200'], timeout=1800)[0]; ctx.count(('threads', be))
        g = ints(o[2:])[0] if o.startswith('ok') else None; growth[be] = g
        if g is None or g > 200 * 64:
            ctx.report('thread-exit-leak', '%s: live heap grows by %s bytes over 200 thread create / FFT product / exit cycles (%s bytes per thread): per-thread FFT state is not released at thread exit' % (be, g, (g // 200) if g else '?'),
                       {'tool': 'threads', 'backend': be, 'lines': ['threads 200'], 'growth': g})
    ctx.hypotheses['heap growth over 200 thread lifetimes (bytes)'] = growth
    ctx.cov['configurations'] = [str(c) for c in configs[:40]]; ctx.cov['asan_processes'] = len(jobs) + 1; ctx.cov['memcheck_runs'] = len(vjobs); ctx.cov['ledger_cases'] = len(lcases)
    ctx.sample({'configurations (lambda,n,k,l,Bgbit,t,basebit)': [str(c) for c in configs[:6]], 'thread_growth': growth})

def replay(ctx, data):
    tool = data.get('tool'); lines = data.get('lines', [])
    if tool == 'allocfail': return vlib.allocfail_replay(data)
    if tool == 'asan':
        exe = vlib.build_harness('mem_drv.cpp', vlib.build_lib('asan'), 'spqlios-fma', 'asan')
        rc, out, err = run_san(exe, lines, dict(os.environ, ASAN_OPTIONS='detect_leaks=1:exitcode=99'), 7200); print('exit', rc, out[-200:], err[-1500:])
    elif tool == 'asan-be':
        exe = vlib.build_harness('mem_drv.cpp', vlib.build_lib('asan'), data.get('backend', 'fftw'), 'asan')
        rc, out, err = run_san(exe, lines, dict(os.environ, ASAN_OPTIONS='detect_leaks=1:exitcode=99'), 7200); print('exit', rc, out[-200:], err[-1500:])
    elif tool == 'asan-any':
        exe = vlib.build_harness(data.get('harness', 'drv.cpp'), vlib.build_lib('asan'), 'spqlios-fma', 'asan')
        rc, out, err = run_san(exe, lines, dict(os.environ, ASAN_OPTIONS='detect_leaks=1:exitcode=99'), 7200); print('exit', rc, out[-300:], err[-1500:])
    elif tool == 'asan-drv':
        exe = vlib.build_harness('drv.cpp', vlib.build_lib('asan'), 'spqlios-fma', 'asan')
        rc, out, err = run_san(exe, lines, dict(os.environ, ASAN_OPTIONS='detect_leaks=1:exitcode=99'), 7200); print('exit', rc, err[-1500:])
    elif tool == 'asan-fft':
        exe = vlib.build_harness('fft_drv.cpp', vlib.build_lib('asan'), data.get('backend', 'fftw'), 'asan')
        rc, out, err = run_san(exe, lines, dict(os.environ, ASAN_OPTIONS='detect_leaks=1:exitcode=99'), 7200); print('exit', rc, err[-1500:])
    elif tool == 'memcheck':
        exe = vlib.build_harness('mem_drv.cpp', vlib.build_lib('vg'), 'spqlios-fma', 'vg')
        p = subprocess.run(['valgrind', '-q', '--error-exitcode=77', exe], input='\n'.join(lines) + '\n', capture_output=True, text=True, timeout=7200); print('exit', p.returncode, p.stderr[-1500:])
    else:
        be = data.get('backend', 'spqlios-fma')
        exe = vlib.build_harness('mem_drv.cpp', vlib.build_lib('optim'), be, 'optim', extra=['-DVERIF_LEDGER'] if tool == 'ledger' else None, name='mem_ledger' if tool == 'ledger' else None)
        print(vlib.run_lines(exe, lines, timeout=1800))
    return 0
