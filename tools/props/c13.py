# C13 — torus rounding and modulus switch round to nearest exactly
import vlib, json, subprocess, os
from concurrent.futures import ThreadPoolExecutor

LEVEL = 'proof'
P32 = 2**32
LISTED_M = [2, 3, 4, 5, 7, 8, 16, 1000, 1024, 2048, 4096, 32768]

def near_ok(u, M, k):
    if not (0 <= k < M): return False
    if abs(M * u - k * P32) <= 2**31: return True
    return k == 0 and abs(M * u - M * P32) <= 2**31

def gen_cases(ctx, thorough):
    rng = ctx.rng
    Ms = list(LISTED_M) + [2**j for j in range(1, 31)]
    Ms += [rng.randrange(2, 32769) for _ in range(60 if not thorough else 600)]
    Ms += [32767, 32766, 3 * 5 * 7 * 11, 12345, 9973]
    cases = []
    for M in Ms:
        js = {0, 1, 2, M - 1, M - 2, M // 2, M // 2 + 1, M // 3}
        for _ in range(6 if not thorough else 40): js.add(rng.randrange(M))
        phs = {0, 1, -1, 2**31 - 1, -2**31, 2**31 - 2, -2**31 + 1}
        for j in js:
            if j < 0: continue
            for base in ((j * P32) // M, ((2 * j + 1) * P32) // (2 * M)):
                for d in (-2, -1, 0, 1, 2):
                    phs.add(vlib.w32(base + d))
        for _ in range(10): phs.add(rng.randrange(-2**31, 2**31))
        for ph in sorted(phs):
            cases.append(('msf', ph, M)); cases.append(('aph', ph, M))
        mus = set(range(M)) if M <= 64 else ({0, 1, M - 1, M - 2, M // 2} | {rng.randrange(M) for _ in range(12)})
        for mu in sorted(mus): cases.append(('mst', mu, M))
        for mu in (-1, -2, -(M // 2)): cases.append(('mst', mu, M))
    # doubles: (num, k) with num exactly representable
    dts = []
    for _ in range(1500 if not thorough else 20000):
        kind = rng.randrange(6)
        if kind == 0: num, k = rng.randrange(-2**40, 2**40), 32          # on the grid
        elif kind == 1: num, k = rng.randrange(-2**52, 2**52), rng.randrange(33, 70)   # off the grid
        elif kind == 2: num, k = rng.randrange(-2**20, 2**20), rng.randrange(0, 33)
        elif kind == 3: num, k = rng.randrange(-2**52, 2**52) << rng.randrange(0, 10), rng.randrange(0, 20)  # large magnitude
        elif kind == 4: num, k = rng.choice([1, -1, 3, -3]), rng.randrange(1, 1060)   # tiny, subnormal range
        else: num, k = (2 * rng.randrange(-2**20, 2**20) + 1), 1                      # halves
        dts.append((num, k))
    dts += [(2**38 + 1, 40), (2**38 + 1 - 2**40, 40), (0, 0), (1, 33), (-1, 33), (1, 32), (-1, 32), (2**31, 32), (-2**31, 32), (2**32 - 1, 32)]
    for num, k in dts: cases.append(('dtot', num, k))
    for _ in range(300):
        x = rng.choice([0, 1, -1, 2**31 - 1, -2**31, rng.randrange(-2**31, 2**31)])
        cases.append(('t32tod', x)); cases.append(('tdt', x))
    # periodicity: d and d+m
    for num, k in dts[:600] + dts[-10:]:
        if k > 60 or abs(num) >> max(k, 0) > 2**20: continue
        for m in (1, -1, rng.randrange(-1000, 1000)):
            cases.append(('dtotp', num, k, m))
    return cases

def run(ctx):
    thorough = ctx.tier == 'thorough'
    ctx.rule = ('cases aimed at the proof case splits: phases floor(j*2^32/M)+{-2..2} and floor((j+1/2)*2^32/M)+{-2..2} '
                '(j incl. 0,1,M-1,M/2), extremes, random; M = every listed M, 2^1..2^30, random in [2,2^15]; all mu for M<=64; '
                'doubles on/off the 2^-32 grid, large, tiny, halves.  distinct = distinct case lines; all are non-trivial '
                '(each exercises a library function on a different input)')
    ctx.assumptions = ['the two double operations inside dtot32 (d - int64(d), * 2^32) are exact in binary64 (exercised by the exact correspondence)',
                       'g++/x86-64 two\'s complement conversions']
    ok = ctx.prove()
    bdir = vlib.build_lib('optim')
    exe = vlib.build_harness('drv.cpp', bdir, 'spqlios-fma', 'optim')
    cases = gen_cases(ctx, thorough)
    lines = [' '.join(str(x) for x in c) for c in cases]
    impl = vlib.run_lines(exe, lines)
    # the same calls with the thread's floating-point rounding direction set upward / downward / toward zero (an application that does interval
    # arithmetic around the library): the functions are integer arithmetic or exact binary64 operations, so nothing may change
    # (only the calls whose arguments and results the harness passes through exactly: 'dtotp' adds the integer shift to the real in the harness, in
    #  binary64, which is itself subject to the rounding direction - it stays in the default-mode run only)
    sub = [i for i in range(0, len(lines), 1 if thorough else 5) if cases[i][0] in ('msf', 'aph', 'mst', 'dtot', 't32tod', 'tdt')]
    for mode, mname in ((1, 'FE_UPWARD'), (2, 'FE_DOWNWARD'), (3, 'FE_TOWARDZERO')):
        mo_ = vlib.run_lines(exe, ['fenv %d' % mode] + [lines[i] for i in sub] + ['fenv 0'])[1:-1]
        nbad = 0
        for i, o in zip(sub, mo_):
            ctx.count((mname, lines[i]))
            if o.strip() != impl[i].strip():
                nbad += 1
                if nbad <= 3: ctx.report('depends-on-rounding-direction', '%s gives %s under %s and %s under the default rounding direction' % (lines[i][:80], o.strip()[:40], mname, impl[i].strip()[:40]),
                                         {'case': lines[i], 'fenv': mname, 'impl_default': impl[i][:200], 'impl_mode': o[:200]})
    # ... and with sticky per-thread state left behind by unrelated code: a stale errno (EDOM, ERANGE, EINTR, ENOMEM) and all floating-point exception
    # flags raised, re-established before every call (the functions are pure: their value depends on the arguments only)
    for (eno, fl), mname in (((33, 0), 'errno=EDOM'), ((34, 0), 'errno=ERANGE'), ((4, 1), 'errno=EINTR + all FP exception flags raised'), ((12, 1), 'errno=ENOMEM + all FP exception flags raised')):
        mo_ = vlib.run_lines(exe, ['ambient %d %d' % (eno, fl)] + [lines[i] for i in sub] + ['ambient 0 0'])[1:-1]
        nbad = 0
        for i, o in zip(sub, mo_):
            ctx.count((mname, lines[i]))
            if o.strip() != impl[i].strip():
                nbad += 1
                if nbad <= 3: ctx.report('depends-on-stale-thread-state', '%s gives %s with %s before the call and %s in a fresh thread state' % (lines[i][:80], o.strip()[:40], mname, impl[i].strip()[:40]),
                                         {'case': lines[i], 'ambient': [eno, fl], 'impl_default': impl[i][:200], 'impl_mode': o[:200]})
    modelable = [i for i, c in enumerate(cases) if c[0] in ('msf', 'aph', 'mst', 'dtot', 't32tod')]
    mout = vlib.run_model([lines[i] for i in modelable])
    found = False
    # correspondence
    ndis = 0
    for j, i in enumerate(modelable):
        ctx.count(lines[i])
        if impl[i].strip() != mout[j].strip():
            ndis += 1
            c = cases[i]
            fail = oracle_case(c, impl[i])
            if fail:
                found = True
                ctx.report('%s-wrong' % c[0], 'library %s%s = %s violates the property (%s); model gives %s' % (c[0], c[1:], impl[i], fail, mout[j]),
                           {'case': lines[i], 'impl': impl[i], 'model': mout[j], 'why': fail})
            else:
                ctx.soft('correspondence:' + c[0], 'model and implementation disagree on %s: impl %s, model %s (property predicate holds at this input)' % (lines[i], impl[i], mout[j]),
                         {'case': lines[i], 'impl': impl[i], 'model': mout[j], 'correspondence': c[0]})
    # oracle on every implementation output, independent of the model
    stage2 = []
    for i, c in enumerate(cases):
        if i not in set(): pass
        o = impl[i]
        if c[0] in ('tdt', 'dtotp'): ctx.count(lines[i])
        fail = oracle_case(c, o)
        if fail:
            if c[0] == 'dtotp' and is_d4(c, o):
                ctx.report('dtot32-truncates-toward-zero', 'dtot32 not periodic off the 2^-32 grid', {'case': lines[i], 'impl': o})
            else:
                found = True
                ctx.report('%s-wrong' % c[0], 'library %s%s = %s: %s' % (c[0], c[1:], o, fail), {'case': lines[i], 'impl': o, 'why': fail})
        if c[0] == 'msf' and not o.startswith('CRASH'):
            stage2.append(('mst', int(o), c[2], 'aph', c[1]))
        if c[0] == 'mst' and 0 <= c[1] < c[2] and not o.startswith('CRASH'):
            stage2.append(('msf', int(o), c[2], 'rt', c[1]))
    # stage 2: approxPhase == modSwitchTo(modSwitchFrom) and the round trip, on the implementation alone
    aph = {(c[1], c[2]): impl[i] for i, c in enumerate(cases) if c[0] == 'aph'}
    s2lines = ['%s %d %d' % (s[0], s[1], s[2]) for s in stage2]
    s2out = vlib.run_lines(exe, s2lines)
    for s, o in zip(stage2, s2out):
        ctx.count(('s2',) + s)
        if s[3] == 'aph':
            if aph.get((s[4], s[2])) != o:
                found = True
                ctx.report('approxPhase-vs-encode', 'approxPhase(%d,%d)=%s but modSwitchTo(modSwitchFrom)=%s' % (s[4], s[2], aph.get((s[4], s[2])), o),
                           {'phase': s[4], 'M': s[2], 'approxPhase': aph.get((s[4], s[2])), 'encode_of_switch': o})
        else:
            if o.strip() != str(s[4]):
                found = True
                ctx.report('roundtrip', 'modSwitchFrom(modSwitchTo(%d,%d),%d)=%s' % (s[4], s[2], s[2], o), {'mu': s[4], 'M': s[2], 'got': o})
    # the value 2^31 of the quantifier is not an int32: bit pattern -2^31
    # every rounding boundary (all k) of a sample of moduli, large odd ones above all: the interval width is a floored quotient and its error grows
    # with k, so the last boundaries of a large odd M are the first to go when precision is lost
    rng = ctx.rng
    bms = sorted({24057, 32767, 32765, 30001, 16385} | {rng.randrange(12000, 16384) * 2 + 1 for _ in range(8 if not thorough else 200)} | {rng.randrange(3, 20000) for _ in range(6 if not thorough else 100)})
    for M, ob in zip(bms, vlib.run_lines(exe, ['msfbound %d' % M for M in bms], timeout=3600)):
        ctx.count(('msfbound', M)); ctx.evaluations += 5 * M
        v = ob.split()
        if ob.startswith('CRASH') or int(v[0]) != 0:
            ctx.report('msf-boundary', 'M=%d: %s of the 5*M phases around the rounding boundaries (k + 1/2)/M are switched to an integer that is not nearest (or approxPhase is not its encoding); first: phase %s' % (M, v[0] if len(v) > 1 else '?', v[1] if len(v) > 1 else ob[:40]),
                       {'case': 'msfbound %d' % M, 'impl': ob[:100]})
    o = vlib.run_lines(exe, ['msf 12345 -2147483648'])[0]
    ctx.count('msf M=2^31')
    if o.startswith('CRASH') or not near_ok(12345, 2**31, int(o) if o.lstrip('-').isdigit() else -1):
        ctx.report('M=2^31-not-representable', 'modSwitchFromTorus32(phase, 2^31): Msize is int32_t, the bit pattern is -2^31 and the function divides by zero (%s)' % o, {'case': 'msf 12345 -2147483648', 'impl': o})
    # thorough: all 2^32 phases for every listed M, on the C++ side
    if thorough:
        jobs = []
        for M in LISTED_M:
            for part in range(16):
                jobs.append('msfsweep %d %d %d' % (M, part * 2**28, (part + 1) * 2**28))
        with ThreadPoolExecutor(max_workers=vlib.NPROC) as ex:
            outs = list(ex.map(lambda l: vlib.run_lines(exe, [l], timeout=3600)[0], jobs))
        for l, o in zip(jobs, outs):
            ctx.evaluations += 2**28
            parts = o.split()
            if o.startswith('CRASH') or int(parts[0]) != 0:
                found = True
                ctx.report('msf-sweep', 'exhaustive sweep %s: %s' % (l, o), {'case': l, 'result': o})
        ctx.cov['exhaustive_sweeps'] = ['all 2^32 phases for M=%d' % M for M in LISTED_M]
    ctx.cov['correspondence_cases'] = len(modelable)
    ctx.cov['disagreements'] = ndis
    ctx.cov['input_distribution'] = dist(cases)
    for l, o in list(zip(lines, impl))[::max(1, len(lines) // 10)]: ctx.sample({'case': l, 'impl': o})
    ctx.proof_failure(found)

def dist(cases):
    d = {}
    for c in cases: d[c[0]] = d.get(c[0], 0) + 1
    return d

def is_d4(c, o):
    try:
        a, b = [int(x) for x in o.split()]
    except Exception:
        return False
    num, k, m = c[1], c[2], c[3]
    offgrid = k > 32 and num % (1 << (k - 32)) != 0
    d1 = num; d2 = num + (m << k)
    return offgrid and (d1 < 0) != (d2 < 0) and abs(vlib.w32(a - b)) == 1

def oracle_case(c, o):
    """the property's predicate evaluated on one implementation output; returns a reason when it fails"""
    if o.startswith('CRASH'): return 'process died: ' + o
    try:
        vals = [int(x) for x in o.split()]
    except Exception:
        return 'unparsable output'
    if c[0] == 'msf':
        if not near_ok(c[1] % P32, c[2], vals[0]): return 'not the nearest integer in [0,M)'
    elif c[0] == 'tdt':
        if vals[0] != c[1]: return 'dtot32(t32tod(x)) != x'
    elif c[0] == 't32tod':
        if vals != [c[1], 32]: return 't32tod(x) != x/2^32'
    elif c[0] == 'dtotp':
        if vals[0] != vals[1]: return 'dtot32(d+m) != dtot32(d)'
    return None

def replay(ctx, data):
    bdir = vlib.build_lib('optim')
    exe = vlib.build_harness('drv.cpp', bdir, 'spqlios-fma', 'optim')
    if 'case' in data and ('ambient' in data or 'fenv' in data):
        pre = 'ambient %d %d' % tuple(data['ambient']) if 'ambient' in data else 'fenv %d' % {'FE_UPWARD': 1, 'FE_DOWNWARD': 2, 'FE_TOWARDZERO': 3}[data['fenv']]
        o0 = vlib.run_lines(exe, [data['case']])[0]; o1 = vlib.run_lines(exe, [pre, data['case']])[1]
        print('case:', data['case'], '\nfresh thread state:', o0, '\nafter "%s":' % pre, o1, '\nrecorded:', data.get('impl_mode'))
        return 1 if o0.strip() != o1.strip() else 0
    if 'case' in data:
        o = vlib.run_lines(exe, [data['case']])[0]
        print('case:', data['case'], '\nimplementation now:', o, '\nrecorded:', data.get('impl'))
        c = data['case'].split(); c = tuple([c[0]] + [int(x) for x in c[1:]])
        f = oracle_case(c, o)
        print('property predicate:', 'FAILS: ' + f if f else 'holds')
        return 1 if f else 0
    print(json.dumps(data, indent=1)); return 0
