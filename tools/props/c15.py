# C15 — evaluation leaves inputs/keys untouched, accepts aliased output, uses no RNG
import vlib, json
from props.c04 import ints, fmt
from props.c01 import mk_sample, GATES
LEVEL = 'proof'
MU = 2**29
PATTERNS = {0: 'separate result', 1: 'result = a', 2: 'result = b', 3: 'result = c', 4: 'a = b (one object)', 5: 'result = a = b = c (one object)', 6: 'inputs in read-only memory'}
FRAME = ['tfhe_bootstrap_FFT', 'tfhe_bootstrap_woKS_FFT', 'tfhe_bootstrap', 'tfhe_bootstrap_woKS', 'lweKeySwitch', 'tLweExtractLweSample', 'tLweExtractLweSampleIndex',
         'tGswFFTExternMulToTLwe', 'tGswExternMulToTLwe', 'tGswTLweDecompH', 'tfhe_blindRotate_FFT', 'tfhe_blindRotateAndExtract_FFT', 'tLweMulByXaiMinusOne', 'tLweAddTo',
         'tGswTLweDecompH (noiseless trivial sample)', 'tGswTorus32PolynomialDecompH (zero polynomial)', 'tGswExternProduct (noiseless trivial operand, twice)', 'tfhe_bootstrap_FFT (noiseless trivial input)', 'bootsNAND and tfhe_bootstrap_FFT as the first FFT use of a fresh thread']

def run(ctx):
    import os; os.environ['MALLOC_PERTURB_'] = '165'     # every block the harness processes get from or return to the allocator is filled: memory that a routine never wrote does not look like zeros by luck
    thorough = ctx.tier == 'thorough'
    rng = ctx.rng
    ctx.rule = ('public gate API with real key sets (128-bit default set; thorough adds the 80-bit set, a custom k=2 set and the other back-ends): every gate x every aliasing pattern (result = a, = b, = c, a = b, all one object) '
                'against the same gate evaluated with separate objects holding the same contents (bit-for-bit, evaluation being deterministic); byte snapshots of every input object not aliased to the result, a hash of all '
                'key material (bootstrapping rows, their FFT images, both key-switching copies, parameter fields) and operator== on the library generator before/after every call; the same snapshots around each '
                'evaluation function (bootstrapping variants, key switch, extraction, both external products, decomposition, blind rotation, monomial multiplication). distinct = distinct case lines')
    ctx.assumptions = ['the Lagrange-domain key image is read through the implementation object constructed in place over the public structure (first member = coefficient pointer) in all three back-end families']
    ctx.prove()
    # the debug build (assertions and debug-only code paths compiled in) runs in the quick tier too, on the small custom key set
    variants = [('spqlios-fma', 'optim')] + ([('nayuki-portable', 'optim'), ('fftw', 'optim'), ('spqlios-fma', 'debug')] if thorough else [('spqlios-fma', 'debug')])
    specs = [[128, 0, 0, 0, 0, 0, 0, 0, 0]] + ([[80, 0, 0, 0, 0, 0, 0, 0, 0], [0, 12, 2, 2, 10, 4, 4, 32768, 33554432]] if thorough else [[0, 9, 1, 2, 10, 8, 2, 32768, 33554432]])
    n_alias = 0
    for (be, bu) in variants:
        exe = vlib.build_harness('eval_drv.cpp', vlib.build_lib(bu), be, bu)
        bexe = vlib.build_harness('boot_drv.cpp', vlib.build_lib(bu), be, bu)
        for si, sp in enumerate(specs):
            if bu == 'debug' and not thorough and sp[0] != 0: continue
            spec = fmt(sp + [ctx.seed * 10 + si])
            g0 = ints(vlib.run_lines(bexe, ['fullkey ' + spec], timeout=1800)[0]); n = g0[0]; s = g0[7:7 + n]
            lines = []; meta = []
            for gi in list(range(10)) + [10, 11, 12, 13]:
                bits = [rng.randrange(2) for _ in range(3)]
                smp = [mk_sample(rng, s, (MU if b else -MU) + rng.randrange(-2**20, 2**20)) for b in bits]
                if gi % 2 == 1 and n >= 2:
                    # mask coefficients exactly half-way between two multiples of 1/2N (the other operand zero there, so that the gate's combination keeps the tie):
                    # whatever the rounding does with a tie, it does it the same way every time and without touching the generator
                    a0, b0 = list(smp[0][0]), smp[0][1]; a1, b1 = list(smp[1][0]), smp[1][1]
                    for i in rng.sample(range(n), min(3, n)):
                        T = vlib.w32((2 * rng.randrange(2048) + 1) * 2**20)
                        if s[i]: b0 = vlib.w32(b0 + T - a0[i]); b1 = vlib.w32(b1 - a1[i])
                        a0[i] = T; a1[i] = 0
                    smp = [(a0, b0), (a1, b1), smp[2]]
                pats = [0, 1, 2, 4, 5, 6] if gi < 10 else ([0, 1, 6] if gi in (10, 11, 12) else [0, 1, 2, 3, 4, 5, 6])
                for pat in pats:
                    # the reference for an aliasing pattern: separate objects holding what the aliased objects hold
                    ref = list(smp)
                    if pat == 4: ref = [smp[0], smp[0], smp[2]]
                    if pat == 5: ref = [smp[0], smp[0], smp[0]]
                    body = lambda ss: ' '.join(fmt(x) + ' ' + str(y) for (x, y) in ss)
                    if gi == 12: smp[0] = ([0] * n, bits[0]); ref = list(smp)
                    lines.append('alias %s %d %d %s' % (spec, gi, pat, body(smp))); meta.append((gi, pat, 'aliased'))
                    lines.append('alias %s %d 0 %s' % (spec, gi, body(ref))); meta.append((gi, pat, 'reference'))
            outs = vlib.run_lines(exe, lines, timeout=7200)
            for i in range(0, len(lines), 2):
                gi, pat, _ = meta[i]; gname = (GATES + ['NOT', 'COPY', 'CONSTANT', 'MUX'])[gi]
                ctx.count((be, bu, si, gi, pat)); n_alias += 1
                oa, orf = outs[i], outs[i + 1]
                if oa.startswith('CRASH') or orf.startswith('CRASH'):
                    ctx.report('alias-crash', '%s/%s: %s with %s died' % (be, bu, gname, PATTERNS[pat]), {'case': lines[i][:200000], 'backend': be, 'build': bu}); continue
                a = ints(oa); r = ints(orf)
                for nm, v, ln in (('aliased', a, lines[i]), ('separate', r, lines[i + 1])):
                    if not v[0]: ctx.report('input-modified', '%s/%s: %s (%s, %s objects) changed an input ciphertext that is not its result' % (be, bu, gname, PATTERNS[pat], nm), {'case': ln[:200000], 'gate': gname, 'pattern': pat, 'backend': be, 'build': bu})
                    if not v[1]: ctx.report('key-modified', '%s/%s: %s changed the cloud key / parameters' % (be, bu, gname), {'case': ln[:200000], 'gate': gname, 'backend': be, 'build': bu})
                    if not v[2]: ctx.report('generator-used', '%s/%s: %s changed the state of the library random generator' % (be, bu, gname), {'case': ln[:200000], 'gate': gname, 'backend': be, 'build': bu})
                if a[3:] != r[3:]:
                    ctx.report('alias-differs', '%s/%s: %s with %s gives a different ciphertext than with separate objects holding the same contents (%d of %d words differ)' % (
                        be, bu, gname, PATTERNS[pat], sum(1 for x, y in zip(a[3:], r[3:]) if x != y), len(r) - 3), {'case': lines[i][:200000], 'reference_case': lines[i + 1][:200000], 'gate': gname, 'pattern': pat, 'backend': be, 'build': bu})
            for rep in range(2 if not thorough else 5):
                o = vlib.run_lines(exe, ['frame %s %d' % (spec, ctx.seed * 7 + rep)], timeout=3600)[0]
                ctx.count((be, bu, si, 'frame', rep))
                if o.startswith('CRASH'): ctx.report('frame-crash', '%s/%s: evaluation functions died: %s' % (be, bu, o[:80]), {'spec': spec, 'backend': be, 'build': bu}); continue
                f = ints(o)
                for j, name in enumerate(FRAME):
                    inp, key, gen = f[3 * j:3 * j + 3]
                    if not inp: ctx.report('frame-input', '%s/%s: %s changed one of its input arguments' % (be, bu, name), {'function': name, 'spec': spec, 'seed': ctx.seed * 7 + rep, 'backend': be, 'build': bu})
                    if not key: ctx.report('frame-key', '%s/%s: %s changed key material or parameters' % (be, bu, name), {'function': name, 'spec': spec, 'backend': be, 'build': bu})
                    if not gen: ctx.report('frame-generator', '%s/%s: %s changed the state of the random generator' % (be, bu, name), {'function': name, 'spec': spec, 'backend': be, 'build': bu})
    ctx.cov['gate_alias_cases'] = n_alias; ctx.cov['functions_framed'] = FRAME
    ctx.sample({'patterns': PATTERNS, 'functions': FRAME[:6]})

def replay(ctx, data):
    be = data.get('backend', 'spqlios-fma'); bu = data.get('build', 'optim')
    exe = vlib.build_harness('eval_drv.cpp', vlib.build_lib(bu), be, bu)
    line = data.get('case') or ('frame %s %s' % (data.get('spec'), data.get('seed', 1)))
    o = vlib.run_lines(exe, [line], timeout=1800)[0]
    print('%s ...\nflags now (inputs unchanged, keys unchanged, generator unchanged, ...): %s' % (line[:120], o.split()[:6]))
    return 0
