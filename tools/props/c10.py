# C10 — FFT products equal the exact negacyclic product within 2 units on every back-end
import vlib, json
LEVEL = 'proof'
N = 1024

def ints(s): return [int(x) for x in s.split()]
def fmt(v): return ' '.join(map(str, v))
def maxdiff(u, v):
    if len(u) != len(v): return 2**32
    return max((abs(vlib.w32(x - y)) for x, y in zip(u, v)), default=0)

def int_shapes(rng, B):
    sp = [0] * N; sp[rng.randrange(N)] = rng.choice([B, -B])
    return [('random', [rng.randrange(-B, B + 1) for _ in range(N)]), ('allmax', [B] * N), ('alternating', [B if i % 2 == 0 else -B for i in range(N)]),
            ('spike', sp), ('sparse-binary', [B if rng.random() < 0.02 else 0 for _ in range(N)])]
def torus_shapes(rng):
    sp = [0] * N; sp[rng.randrange(N)] = rng.choice([2**31 - 1, -2**31])
    return [('random', [rng.randrange(-2**31, 2**31) for _ in range(N)]), ('allmax', [2**31 - 1] * N),
            ('alternating', [-2**31 if i % 2 else 2**31 - 1 for i in range(N)]), ('spike', sp)]

def run(ctx):
    thorough = ctx.tier == 'thorough'
    rng = ctx.rng
    ctx.rule = ('N=1024, five back-ends (quick: optim build; thorough: both builds): integer polynomials with sup-norm B in {1,2^6,2^9,2^15,2^20} of five shapes (random, all-maximal, alternating sign, single spike, '
                'sparse binary) times torus polynomials of four shapes (random, all INT32_MAX, alternating INT32_MIN/INT32_MAX, spike): product, multiply-accumulate, multiply-subtract, Lagrange-domain '
                'multiply / multiply-subtract / accumulation of up to 6 terms, forward-backward round trips, Lagrange add / constants / clear; every coefficient compared with an independent exact '
                'wrap-around schoolbook product (and, on a sample, with the extracted ring model). distinct = distinct (back-end, build, operation, shapes, B)')
    ctx.assumptions = ['partial: no floating-point error analysis of the transforms is attempted (four of the five kernels are hand-written assembly or FFTW with libm twiddle tables); the rounding of the butterflies is measured, not modelled',
                       'acceptance: <= 2 units for B <= 2^9 (<= 2 per accumulated term in the Lagrange domain), <= 1 for round trips and Lagrange add/constants, <= 2*B/2^9 for larger B (at most linear growth)']
    ctx.prove()
    xexe = vlib.build_harness('boot_drv.cpp', vlib.build_lib('optim'), 'spqlios-fma', 'optim')
    def exact(a, b): return ints(vlib.run_lines(xexe, ['xmul %d %s %s' % (N, fmt(a), fmt(b))])[0])
    builds = ['optim'] + (['debug'] if thorough else [])
    exes = {(be, bu): vlib.build_harness('fft_drv.cpp', vlib.build_lib(bu), be, bu) for be in vlib.BACKENDS for bu in builds}
    if not thorough: exes[('nayuki-portable', 'debug')] = vlib.build_harness('fft_drv.cpp', vlib.build_lib('debug'), 'nayuki-portable', 'debug')   # the debug self-checks of this back-end run on every case
    # ---- cases
    cases = []    # (tag, line, expected, tolerance)
    Bs = [1, 2**6, 2**9, 2**15, 2**20]
    for B in Bs:
        ish = int_shapes(rng, B); tsh = torus_shapes(rng)
        pairs = [(i, t) for i in ish for t in tsh]
        if not thorough: pairs = [p for p in pairs if p[0][0] in ('allmax', 'alternating') or p[1][0] in ('allmax', 'alternating')][:8] + rng.sample(pairs, 4)
        tol = 2 if B <= 2**9 else 2 * B // 2**9
        for (iname, a), (tname, b) in pairs:
            ex = exact(a, b); c = [rng.randrange(-2**31, 2**31) for _ in range(N)]
            cases.append(('product B=%d %s x %s' % (B, iname, tname), 'fft 0 %d %s %s' % (N, fmt(a), fmt(b)), ex, tol))
            cases.append(('lagrange-mul B=%d %s x %s' % (B, iname, tname), 'fft 10 %d %s %s' % (N, fmt(a), fmt(b)), ex, tol))
            if (iname, tname) in (('random', 'random'), ('allmax', 'allmax'), ('alternating', 'alternating')) or thorough:
                cases.append(('addmul B=%d %s x %s' % (B, iname, tname), 'fft 1 %d %s %s %s' % (N, fmt(a), fmt(b), fmt(c)), [vlib.w32(x + y) for x, y in zip(c, ex)], tol))
                cases.append(('submul B=%d %s x %s' % (B, iname, tname), 'fft 2 %d %s %s %s' % (N, fmt(a), fmt(b), fmt(c)), [vlib.w32(x - y) for x, y in zip(c, ex)], tol))
                cases.append(('lagrange-submul B=%d %s x %s' % (B, iname, tname), 'fft 9 %d %s %s %s' % (N, fmt(a), fmt(b), fmt(c)), [vlib.w32(x - y) for x, y in zip(c, ex)], tol + 1))
        for (iname, a) in ish[:3]:
            pass
    for (tname, b) in torus_shapes(rng) + [('zero', [0] * N)]:
        cases.append(('roundtrip %s' % tname, 'fft 3 %d %s' % (N, fmt(b)), b, 1))
        c = [rng.randrange(-2**31, 2**31) for _ in range(N)]; mu = rng.choice([2**29, -2**31, 2**31 - 1, 12345])
        cases.append(('lagrange-add %s' % tname, 'fft 5 %d %s %s' % (N, fmt(b), fmt(c)), [vlib.w32(x + y) for x, y in zip(b, c)], 2))
        cases.append(('add-constant %s' % tname, 'fft 6 %d %s %d' % (N, fmt(b), mu), [vlib.w32(b[0] + mu)] + b[1:], 1))
        cases.append(('set-constant', 'fft 7 %d %d' % (N, mu), [mu] + [0] * (N - 1), 1))
        hi = rng.choice([2**31 - 1, 1 << 21, 2**32 - 1, 123456789])
        cases.append(('add-constant %s, constant passed in a register with a dirty upper half' % tname, 'fft 16 %d %s %d %d' % (N, fmt(b), mu, hi), [vlib.w32(b[0] + mu)] + b[1:], 1))
        cases.append(('set-constant, constant passed in a register with a dirty upper half', 'fft 17 %d %d %d' % (N, mu, hi), [mu] + [0] * (N - 1), 1))
    cases.append(('clear', 'fft 8 %d' % N, [0] * N, 0))
    for T in ((2, 6) if not thorough else (2, 3, 4, 5, 6)):
        for shape in (0, 1):
            terms = []; acc = [0] * N
            for t in range(T):
                a = [rng.randrange(-512, 513) for _ in range(N)] if shape == 0 else [512 if (i + t) % 2 else -512 for i in range(N)]
                b = [rng.randrange(-2**31, 2**31) for _ in range(N)] if shape == 0 else [(-2**31 if (i + t) % 2 else 2**31 - 1) for i in range(N)]
                terms += [fmt(a), fmt(b)]; acc = [vlib.w32(x + y) for x, y in zip(acc, exact(a, b))]
            cases.append(('lagrange-accumulate T=%d %s' % (T, 'random' if shape == 0 else 'structured'), 'fft 4 %d %d %s' % (N, T, ' '.join(terms)), acc, 2 * T))
    # model cross-check of the exact reference on a sample
    sample = [c for c in cases if c[0].startswith('product')][:: max(1, len(cases) // 12)][:6]
    for tag, line, ex, tol in sample:
        v = line.split()[3:]
        m = ints(vlib.run_model(['poly 6 %d 0 %s' % (N, ' '.join(v))], 'fast')[0])
        ctx.count(('model', tag))
        if m != ex: ctx.soft('reference-vs-model', 'the harness schoolbook reference and the extracted ring product differ (%s)' % tag, {'case': line[:3000]})
    worst = {}
    for (be, bu), exe in exes.items():
        outs = vlib.run_lines(exe, [c[1] for c in cases], timeout=3600)
        for (tag, line, ex, tol), o in zip(cases, outs):
            ctx.count((be, bu, tag))
            if o.startswith('CRASH'): ctx.report('fft-crash', '%s/%s: %s died: %s' % (be, bu, tag, o[:80]), {'case': line[:200000], 'backend': be, 'build': bu}); continue
            d = maxdiff(ints(o), ex); key = '%s/%s %s' % (be, bu, tag.split(' ')[0] + (' ' + tag.split(' ')[1] if tag.split(' ')[1:2] and tag.split(' ')[1].startswith('B=') else ''))
            worst[key] = max(worst.get(key, 0), d)
            if d > tol:
                ctx.report('fft-error', '%s/%s: %s differs from the exact result by %d units of 2^-32 (allowed %d)' % (be, bu, tag, d, tol), {'case': line[:200000], 'backend': be, 'build': bu, 'maxdiff': d, 'tol': tol, 'op': tag})
    # the same operations with every array (operands, results, the library's temporaries) ending flush with an inaccessible page (harness/guard_new.h):
    # an over-wide load or a loop tail past the end of a coefficient array faults instead of reading whatever the heap holds there
    seen = set(); gsub = []
    for c in cases:
        k = c[0].split(' ')[0]
        if k not in seen or thorough and len(gsub) < 60: seen.add(k); gsub.append(c)
    for (be, bu), exe in exes.items():
        outs = vlib.run_lines(exe, ['guard 1'] + [c[1] for c in gsub], timeout=1800)[1:]
        for (tag, line, ex, tol), o in zip(gsub, outs):
            ctx.count((be, bu, 'guard', tag))
            if o.startswith('CRASH'):
                ctx.report('fft-out-of-bounds', '%s/%s: %s dies when every coefficient array ends at an inaccessible page (it reads or writes past the end of an array): %s' % (be, bu, tag, o[:80]),
                           {'case': line[:200000], 'backend': be, 'build': bu, 'guard': 1, 'op': tag}); break
            d = maxdiff(ints(o), ex)
            if d > tol: ctx.report('fft-error', '%s/%s: %s (arrays at page ends) differs from the exact result by %d units (allowed %d)' % (be, bu, tag, d, tol), {'case': line[:200000], 'backend': be, 'build': bu, 'guard': 1, 'maxdiff': d, 'tol': tol, 'op': tag})
    ctx.cov['guard_page_operations_per_backend'] = len(gsub)
    # cross-back-end agreement is implied by agreement with the exact value; record the worst figures
    ctx.hypotheses['worst observed difference (units of 2^-32)'] = {k: v for k, v in sorted(worst.items())}
    ctx.cov['operations_per_backend'] = len(cases); ctx.cov['backends'] = ['%s/%s' % k for k in exes]
    # allocation failures inside the FFT products: reported (exception / dead process) or harmless, never a silent wrong product
    vlib.allocfail_block(ctx, [(fn, 1024, 1, 2, 8) for fn in (3, 4, 5)], backends=vlib.BACKENDS if ctx.tier == 'thorough' else ('spqlios-fma', 'nayuki-portable', 'fftw'))
    ctx.sample({k: v for k, v in list(sorted(worst.items()))[:10]})

def replay(ctx, data):
    if data.get('tool') == 'allocfail': return vlib.allocfail_replay(data)
    be = data.get('backend', 'spqlios-fma'); bu = data.get('build', 'optim')
    if 'case' not in data: print(json.dumps(data, indent=1)[:2000]); return 0
    exe = vlib.build_harness('fft_drv.cpp', vlib.build_lib(bu), be, bu)
    o = vlib.run_lines(exe, (['guard 1'] if data.get('guard') else []) + [data['case']], timeout=600)[-1]
    if data.get('guard'): print('%s/%s %s with arrays ending at inaccessible pages: %s' % (be, bu, data.get('op'), o[:100])); return 1 if o.startswith('CRASH') else 0
    print('%s/%s %s: recorded max difference %s (allowed %s); implementation output now starts %s' % (be, bu, data.get('op'), data.get('maxdiff'), data.get('tol'), o.split()[:4]))
    return 0
