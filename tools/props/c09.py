# C09 — external product multiplies messages; blind rotation rotates by the secret exponent
import vlib, json
LEVEL = 'proof'
N = 1024
LAYOUTS_Q = [(3, 7), (2, 10), (4, 8), (2, 16), (16, 2), (1, 1), (5, 3), (1, 30)]
LAYOUTS_T = LAYOUTS_Q + [(8, 4), (3, 10), (10, 3), (6, 5), (2, 8), (1, 26)]

def ints(s): return [int(x) for x in s.split()]
def fmt(v): return ' '.join(map(str, v))
def offset(l, B): return (sum(1 << (32 - (p + 1) * B) for p in range(l)) * (1 << (B - 1))) % 2**32
def rounded(x, l, B):
    """the value the gadget digits recompose to: x - ((x+offset) mod 2^(32-lB))"""
    return vlib.w32(x - ((x + offset(l, B)) % 2**32) % (1 << (32 - l * B)))
def fft_tol(k, l, B):
    # measured FFT product error: <= 1 unit for digits up to 2^9, growing linearly with the digit size; (k+1)l products are accumulated
    return (k + 1) * l * max(2, 1 << max(0, B - 8)) + 2
def maxdiff(u, v):
    if len(u) != len(v): return 2**32
    return max((abs(vlib.w32(x - y)) for x, y in zip(u, v)), default=0)

def messages(rng):
    ms = [('0', [0] * N), ('1', [1] + [0] * (N - 1)), ('-1', [-1] + [0] * (N - 1))]
    for j in (1, N // 2, N - 1, rng.randrange(1, N)):
        m = [0] * N; m[j] = 1; ms.append(('X^%d' % j, m))
    m = [0] * N
    for _ in range(5): m[rng.randrange(N)] = rng.choice([-2, -1, 1, 2, 3])
    ms.append(('small', m))
    m = [rng.choice([0, 1]) for _ in range(N)]; ms.append(('binary', m))
    return ms

def accs(rng, k, l, B):
    s = 32 - l * B
    out = [('random', [rng.randrange(-2**31, 2**31) for _ in range((k + 1) * N)]),
           ('max', [2**31 - 1] * ((k + 1) * N)),
           ('alt', [(-2**31 if i % 2 else 2**31 - 1) for i in range((k + 1) * N)])]
    # values at the digit boundaries of the decomposition
    off = offset(l, B); v = []
    for i in range((k + 1) * N):
        p = rng.randrange(l); step = 1 << (32 - (p + 1) * B)
        v.append(vlib.w32(rng.randrange(1 << ((p + 1) * B)) * step - off + rng.choice([-1, 0, 1])))
    out.append(('edges', v))
    # sparse samples: a noiseless trivial sample of a monomial message (0, ..., 0, mu X^j), and one non-zero coefficient per component at
    # different positions (every digit polynomial is a monomial: the shapes a "fast path" would single out)
    j = rng.randrange(1, N); mono = [0] * ((k + 1) * N); mono[k * N + j] = rng.choice([2**29, -2**30, rng.randrange(-2**31, 2**31)])
    out.append(('trivial monomial', mono))
    sp = [0] * ((k + 1) * N)
    for q in range(k + 1): sp[q * N + rng.randrange(N)] = rng.randrange(-2**31, 2**31)
    out.append(('one coefficient per component', sp))
    return out

def run(ctx):
    thorough = ctx.tier == 'thorough'
    rng = ctx.rng
    ctx.rule = ('N=1024 (forced by the FFT processors), k in {1,2}, (l,Bgbit) over the valid grid incl. l*Bgbit=32 and Bgbit in {1,2,16}; '
                'm in {0,1,-1,X^j,small-norm,binary}; accumulators random/extreme/at digit boundaries; TGSW rows noiseless-trivial (exact expected value '
                'computed by an independent wrap-around schoolbook), arbitrary random rows (model correspondence), library-encrypted rows (analytic bound with measured row noise); '
                'blind rotation with n in {1..8} (quick) and exponent vectors incl. 0 and 2N-1; both variants (coefficient-domain API and FFT-domain key). distinct = distinct case lines')
    ctx.assumptions = ['the FFT transforms are not modelled: implementation and exact model are compared per coefficient within the measured FFT tolerance (C10 measures the real figure)',
                       'analytic bound checked in worst-case form with the row noise measured from the secret key']
    ctx.prove()
    exe = vlib.build_harness('boot_drv.cpp', vlib.build_lib('optim'), 'spqlios-fma', 'optim')
    exes = {'optim': exe}
    if thorough: exes['debug'] = vlib.build_harness('boot_drv.cpp', vlib.build_lib('debug'), 'spqlios-fma', 'debug')
    worst = {}
    # --- A: gadget additions, exact
    lines = []
    for (l, B) in (LAYOUTS_T if thorough else LAYOUTS_Q[:5]):
        for k in (1, 2):
            if (k + 1) * l > 12 and not thorough: continue
            nn = 8   # these loops do not touch the FFT: small N suffices and every N is allowed
            C = [rng.randrange(-2**31, 2**31) for _ in range((k + 1) * l * (k + 1) * nn)]
            mu = [rng.choice([0, 1, -1, 2**31 - 1, -2**31, rng.randrange(-2**31, 2**31)]) for _ in range(nn)]
            lines.append('tgsw 1 %d %d %d %d %s' % (k, nn, l, B, fmt(mu)))
            lines.append('tgsw 2 %d %d %d %d %s %s' % (k, nn, l, B, fmt(C), fmt(mu)))
            lines.append('tgsw 3 %d %d %d %d %s %d' % (k, nn, l, B, fmt(C), mu[0]))
    for b, e in exes.items():
        io = vlib.run_lines(e, lines); mo = vlib.run_model(lines, 'fast')
        for ln, i, m in zip(lines, io, mo):
            ctx.count((ln, b))
            if i.strip() != m.strip():
                ctx.soft('correspondence:gadget', '%s build: gadget addition differs from the model: %s' % (b, ln[:60]), {'case': ln, 'build': b, 'impl': i[:1500], 'model': m[:1500]})
                # oracle: row (bloc,i) must equal the input plus mu*h_i on component bloc only
                ctx.report('gadget-rows', '%s build: %s does not add mu*h_i on the block diagonal' % (b, ln[:40]), {'case': ln, 'build': b, 'impl': i[:1500], 'expected': m[:1500]})
    # --- B: external product
    nB = 0
    for (l, B) in (LAYOUTS_T if thorough else LAYOUTS_Q):
        for k in ((1, 2) if (thorough or (l, B) in ((3, 7), (2, 10))) else (1,)):
            tol = fft_tol(k, l, B)
            msgs = messages(rng); al = accs(rng, k, l, B)
            if not thorough: msgs = [msgs[i] for i in sorted(rng.sample(range(len(msgs)), 3))]; al = [al[i] for i in sorted(rng.sample(range(len(al)), 2))]
            key = [rng.randrange(2) for _ in range(k * N)]
            for (mn, m) in msgs:
                C = vlib.run_lines(exe, ['tgsw 1 %d %d %d %d %s' % (k, N, l, B, fmt(m))])[0]
                for (an, acc) in al:
                    line = 'tgsw 0 %d %d %d %d %s %s' % (k, N, l, B, C, fmt(acc))
                    mo = ints(vlib.run_model([line], 'fast')[0])
                    # independent expectation: m * (accumulator rounded to l*B bits), component-wise, exactly
                    racc = [rounded(x, l, B) for x in acc]
                    xl = ['xmul %d %s %s' % (N, fmt(m), fmt(racc[i * N:(i + 1) * N])) for i in range(k + 1)]
                    exp = sum((ints(o) for o in vlib.run_lines(exe, xl)), [])
                    if maxdiff(mo, exp) != 0:
                        ctx.soft('model-vs-reference', 'the model external product differs from m*(rounded accumulator) for m=%s (l,B)=(%d,%d)' % (mn, l, B), {'case': line[:3000]})
                    for b, e in exes.items():
                        for var, opc in (('coefficient', 0), ('fft', 100)):
                            o = vlib.run_lines(e, [line.replace('tgsw 0', 'tgsw %d' % opc, 1)])[0]
                            ctx.count((mn, an, l, B, k, b, var)); nB += 1
                            if o.startswith('CRASH'): ctx.report('extprod-crash', '%s %s: %s' % (b, var, o), {'case': line[:3000], 'impl': o}); continue
                            d = maxdiff(ints(o), exp); worst[(l, B, k)] = max(worst.get((l, B, k), 0), d)
                            if d > tol:
                                ctx.report('extprod-wrong', '%s build, %s variant, k=%d (l,B)=(%d,%d), m=%s, acc=%s: result differs from m*(acc rounded to l*Bgbit bits) by %d units (tolerance %d)' % (b, var, k, l, B, mn, an, d, tol),
                                           {'case': line[:200000], 'opcode': opc, 'build': b, 'maxdiff': d, 'tol': tol})
                            elif maxdiff(ints(o), mo) > tol:
                                ctx.soft('correspondence:extprod', '%s %s differs from the model' % (b, var), {'case': line[:200000], 'opcode': opc, 'build': b})
            # arbitrary rows: correspondence with the model only
            Cr = [rng.randrange(-2**31, 2**31) for _ in range((k + 1) * l * (k + 1) * N)]
            acc = al[0][1]
            line = 'tgsw 0 %d %d %d %d %s %s' % (k, N, l, B, fmt(Cr), fmt(acc))
            mo = ints(vlib.run_model([line], 'fast')[0])
            for var, opc in (('coefficient', 0), ('fft', 100)):
                o = vlib.run_lines(exe, [line.replace('tgsw 0', 'tgsw %d' % opc, 1)])[0]
                ctx.count((l, B, k, 'randrows', var)); nB += 1
                if not o.startswith('CRASH'):
                    # the same product with every array (TGSW rows, accumulator, result, the library's temporaries) ending at an inaccessible page (harness/guard_new.h)
                    og = vlib.run_lines(exe, ['guard 1', line.replace('tgsw 0', 'tgsw %d' % opc, 1)])[1]; ctx.count((l, B, k, 'randrows', var, 'guard'))
                    if og.startswith('CRASH') or og.strip() != o.strip():
                        ctx.report('out-of-bounds-at-page-end', '%s variant (l,B)=(%d,%d) k=%d: the external product %s when every array ends at an inaccessible page: %s' % (
                            var, l, B, k, 'dies (it reads or writes past the end of an array)' if og.startswith('CRASH') else 'gives a different result than on the ordinary heap', og[:60]), {'case': line[:200000], 'opcode': opc, 'guard': 1})
                d = maxdiff(ints(o), mo) if not o.startswith('CRASH') else 2**32
                # random 32-bit rows: the double-precision products carry (k+1)l*N*2^(B-1)*2^31; the error grows accordingly
                tolr = tol * 4
                worst[(l, B, k, 'randrows')] = max(worst.get((l, B, k, 'randrows'), 0), d)
                if d > tolr and B >= 27:
                    # the exact model is right here and the implementation is not: a failing input, not a broken correspondence
                    ctx.report('extprod-int64-overflow-large-Bgbit', '%s variant (l,B)=(%d,%d) k=%d: external product with full-range rows differs from the exact ring value by %d units (tolerance %d)' % (var, l, B, k, d, tolr),
                               {'case': line[:200000], 'opcode': opc, 'maxdiff': d})
                elif d > tolr:
                    ctx.soft('correspondence:extprod-randrows', '%s variant (l,B)=(%d,%d) k=%d: differs from the model by %d units (tolerance %d) on random rows' % (var, l, B, k, d, tolr),
                             {'case': line[:200000], 'opcode': opc, 'maxdiff': d})
            # FFT image of the rows converted back: faithful within 1 unit... (rows of full 32-bit size)
            o = vlib.run_lines(exe, ['tgsw 5 %d %d %d %d %s' % (k, N, l, B, fmt(Cr))])[0]
            d = maxdiff(ints(o), Cr) if not o.startswith('CRASH') else 2**32
            ctx.count((l, B, k, 'fftimage'))
            if d > 1: ctx.report('fft-image', 'FFT image of a TGSW sample converted back differs by %d units (k=%d,(l,B)=(%d,%d))' % (d, k, l, B), {'k': k, 'l': l, 'B': B, 'maxdiff': d})
    # --- B2: the other entry points of the same arithmetic: tGswExternProduct (out of place), tGswMulByXaiMinusOne, tGswClear + tGswAddH
    #     (coefficient and FFT domain), tLweAddMulRTo and the FFT-domain path tLweToFFTConvert / tLweFFTAddMulRTo / tLweFromFFTConvert
    for (l, B) in ((3, 7), (2, 10)) + (((4, 8), (2, 16), (1, 1)) if thorough else ()):
        for k in (1, 2):
            tol = fft_tol(k, l, B)
            Cr = [rng.randrange(-2**31, 2**31) for _ in range((k + 1) * l * (k + 1) * N)]
            acc = [rng.randrange(-2**31, 2**31) for _ in range((k + 1) * N)]
            base = '%d %d %d %d' % (k, N, l, B)
            line0 = 'tgsw 0 %s %s %s' % (base, fmt(Cr), fmt(acc))
            o6 = vlib.run_lines(exe, [line0.replace('tgsw 0', 'tgsw 6', 1)])[0]; mo = ints(vlib.run_model([line0], 'fast')[0]); ctx.count((l, B, k, 'externproduct'))
            if o6.startswith('CRASH'): ctx.report('extprod-crash', 'tGswExternProduct: ' + o6[:80], {'case': line0[:3000]})
            else:
                v6 = ints(o6); d = maxdiff(v6[:-1], mo)
                if v6[-1] != 1: ctx.report('extprod-input-modified', 'tGswExternProduct changed its input accumulator (k=%d (l,B)=(%d,%d))' % (k, l, B), {'case': line0[:200000], 'opcode': 6})
                if d > 4 * tol: ctx.soft('correspondence:externproduct', 'tGswExternProduct (out of place) differs from the model external product by %d units (tolerance %d), k=%d (l,B)=(%d,%d)' % (d, 4 * tol, k, l, B), {'case': line0[:200000], 'opcode': 6, 'maxdiff': d})
            a = rng.choice([1, N - 1, N, N + 1, 2 * N - 1, rng.randrange(1, 2 * N)])
            o7 = vlib.run_lines(exe, ['tgsw 7 %s %s %d' % (base, fmt(Cr), a)])[0]; ctx.count((l, B, k, 'mulbyxai', a))
            exp7 = []
            for q in range((k + 1) * l * (k + 1)):
                src = Cr[q * N:(q + 1) * N]
                exp7 += [vlib.w32((src[i - a] if 0 <= i - a < N else -src[(i - a) % N] if -N <= i - a < 0 or N <= i - a else 0) - src[i]) for i in range(N)] if a < N else \
                        [vlib.w32((-src[i - (a - N)] if i - (a - N) >= 0 else src[(i - (a - N)) % N]) - src[i]) for i in range(N)]
            if o7.startswith('CRASH') or ints(o7) != exp7:
                ctx.report('tgsw-mulbyxai', 'tGswMulByXaiMinusOne a=%d differs from (X^a - 1) applied to every polynomial of every row (k=%d (l,B)=(%d,%d))' % (a, k, l, B), {'case': ('tgsw 7 %s %s %d' % (base, fmt(Cr), a))[:200000]})
            gl = 'tgsw 3 %s %s 1' % (base, fmt([0] * len(Cr)))
            want = ints(vlib.run_model([gl], 'fast')[0])
            for opc, nm, t8 in ((8, 'tGswClear + tGswAddH', 0), (9, 'tGswFFTClear + tGswFFTAddH', 1)):
                o = vlib.run_lines(exe, ['tgsw %d %s %s' % (opc, base, fmt(Cr))])[0]; ctx.count((l, B, k, nm))
                d = maxdiff(ints(o), want) if not o.startswith('CRASH') else 2**32
                if d > t8: ctx.report('gadget-addh', '%s differs from the gadget of the message 1 by %d units (k=%d (l,B)=(%d,%d))' % (nm, d, k, l, B), {'k': k, 'l': l, 'B': B, 'opcode': opc, 'maxdiff': d})
            # the same gadget added to a non-zero sample (an encryption of m becomes one of m + 1): model = tGswAddMuIntH(1) on the given rows
            wantnz = ints(vlib.run_model(['tgsw 3 %s %s 1' % (base, fmt(Cr))], 'fast')[0])
            for opc, nm, t8 in ((12, 'tGswAddH on a non-zero sample', 0), (13, 'tGswToFFTConvert + tGswFFTAddH + tGswFromFFTConvert on a non-zero sample', 2)):
                o = vlib.run_lines(exe, ['tgsw %d %s %s' % (opc, base, fmt(Cr))])[0]; ctx.count((l, B, k, nm))
                d = maxdiff(ints(o), wantnz) if not o.startswith('CRASH') else 2**32
                if d > t8: ctx.report('gadget-addh', '%s differs from the rows plus the gadget of the message 1 by %d units (k=%d (l,B)=(%d,%d))' % (nm, d, k, l, B), {'case': ('tgsw %d %s %s' % (opc, base, fmt(Cr)))[:200000], 'k': k, 'l': l, 'B': B, 'opcode': opc, 'maxdiff': d})
            ip = [rng.randrange(-(1 << (B - 1)), 1 << (B - 1)) for _ in range(N)]
            row0 = Cr[:(k + 1) * N]
            xl = ['xmul %d %s %s' % (N, fmt(ip), fmt(row0[i * N:(i + 1) * N])) for i in range(k + 1)]
            prod = sum((ints(o) for o in vlib.run_lines(exe, xl)), [])
            expa = [vlib.w32(x + y) for x, y in zip(acc, prod)]
            for opc, nm in ((10, 'tLweAddMulRTo'), (11, 'tLweToFFTConvert / tLweFFTAddMulRTo / tLweFromFFTConvert')):
                o = vlib.run_lines(exe, ['tgsw %d %s %s %s %s' % (opc, base, fmt(Cr), fmt(acc), fmt(ip))])[0]; ctx.count((l, B, k, nm))
                d = maxdiff(ints(o), expa) if not o.startswith('CRASH') else 2**32
                worst[(nm[:13], l, B, k)] = d
                if d > max(4, 1 << max(0, B - 7)): ctx.report('tlwe-addmulr', '%s: acc + p * sample differs from the exact ring product by %d units (k=%d, |p| < 2^%d)' % (nm, d, k, B - 1), {'k': k, 'l': l, 'B': B, 'opcode': opc, 'maxdiff': d})
    # --- C: library-encrypted rows and blind rotation
    # (n, k, l, Bgbit, row noise stdev in units of 2^-40): the default sets' 2^-25 = 32768 and 9.6e-9 ~ 10555, plus a noiseless and a noisy one
    confs = [(3, 1, 3, 7, 32768), (2, 1, 2, 10, 10555), (4, 2, 2, 10, 0)] if not thorough else [(8, 1, 3, 7, 32768), (4, 1, 2, 10, 10555), (6, 2, 2, 10, 0), (16, 1, 4, 8, 32768), (3, 1, 2, 16, 64), (5, 2, 3, 7, 262144)]
    for ci, (n, k, l, B, aunits) in enumerate(confs):
        g = ints(vlib.run_lines(exe, ['bkgen %d %d %d %d %d %d %d' % (n, k, N, l, B, aunits, ctx.seed * 1000 + ci)], timeout=900)[0])
        s = g[:n]; tk = g[n:n + k * N]; bkflat = g[n + k * N:]
        gsz = (k + 1) * l * (k + 1) * N
        # row noises, exactly: phase(row (u,i)) - s*h_i*(u == k ? 1 : -key_u)
        maxe = 0
        for i in range(n):
            rows = bkflat[i * gsz:(i + 1) * gsz]
            ph = vlib.run_lines(exe, ['xtphase %d %d %s %s' % (k, N, fmt(tk), fmt(rows[q * (k + 1) * N:(q + 1) * (k + 1) * N])) for q in range((k + 1) * l)])
            for q, o in enumerate(ph):
                u, ii = divmod(q, l); h = 1 << (32 - (ii + 1) * B)
                e = ints(o)
                if u == k: e[0] -= s[i] * h
                else: e = [vlib.w32(x + s[i] * h * tk[u * N + j]) for j, x in enumerate(e)]
                maxe = max(maxe, max(abs(vlib.w32(x)) for x in e))
        ctx.hypotheses['bk rows n=%d k=%d (l,B)=(%d,%d) alpha=%g' % (n, k, l, B, aunits / 2.0**40)] = {'max_abs_row_noise_units': maxe}
        Bg = 1 << B
        step_bound = (k + 1) * l * N * (Bg // 2) * maxe + (1 + k * N) * (1 << (32 - l * B)) + fft_tol(k, l, B)
        # exponent vectors
        vecs = [[0] * n, [2 * N - 1] * n, [rng.choice([0, 2 * N - 1, 1, N, N - 1, N + 1]) for _ in range(n)], [rng.randrange(2 * N) for _ in range(n)]]
        if thorough: vecs += [[rng.randrange(2 * N) for _ in range(n)] for _ in range(3)]
        for bara in vecs:
            acc0 = [rng.randrange(-2**31, 2**31) for _ in range((k + 1) * N)]
            line = 'boot 0 %d %d %d %d %d %s %s %s' % (k, N, l, B, n, fmt(bkflat), fmt(bara), fmt(acc0))
            mo = ints(vlib.run_model([line], 'fast', timeout=3000)[0])
            steps = sum(1 for x in bara if x)
            p0 = ints(vlib.run_lines(exe, ['xtphase %d %d %s %s' % (k, N, fmt(tk), fmt(acc0))])[0])
            e = sum(a * b for a, b in zip(bara, s)) % (2 * N)
            exp = rot(p0, e)
            for var, opc in (('coefficient', 0), ('fft', 100)):
                o = vlib.run_lines(exe, [line.replace('boot 0', 'boot %d' % opc, 1)], timeout=900)[0]
                ctx.count((n, k, l, B, tuple(bara), var))
                if o.startswith('CRASH'): ctx.report('blindrotate-crash', '%s: %s' % (var, o), {'case': line[:200000], 'opcode': opc}); continue
                res = ints(o)
                ph = ints(vlib.run_lines(exe, ['xtphase %d %d %s %s' % (k, N, fmt(tk), fmt(res))])[0])
                d = maxdiff(ph, exp)
                if d > max(1, steps) * step_bound:
                    ctx.report('blindrotate-wrong', '%s variant, n=%d k=%d (l,B)=(%d,%d), exponents %s..: phase of the rotated accumulator differs from X^(sum bara_i s_i) * phase(acc) by %d units (bound %d)' % (var, n, k, l, B, bara[:4], d, max(1, steps) * step_bound),
                               {'case': line[:300000], 'opcode': opc, 'secret': s, 'exponent': e, 'maxdiff': d})
                # after the first step a one-unit FFT difference can move a coefficient across a digit boundary of the next
                # decomposition, so the accumulators themselves are not comparable; their phases are
                pm = ints(vlib.run_lines(exe, ['xtphase %d %d %s %s' % (k, N, fmt(tk), fmt(mo))])[0])
                dm = maxdiff(ph, pm)
                worst[('blindrotate-phase', n, k, l, B)] = max(worst.get(('blindrotate-phase', n, k, l, B), 0), dm)
                if dm > 2 * max(1, steps) * step_bound:
                    ctx.soft('correspondence:blindrotate', '%s variant n=%d: phase of the accumulator differs from the model by %d units' % (var, n, dm), {'case': line[:300000], 'opcode': opc, 'maxdiff': dm})
            # a single CMux step: directly comparable with the model
            a1 = rng.choice([1, N - 1, N, 2 * N - 1, rng.randrange(1, 2 * N)])
            line = 'boot 3 %d %d %d %d %d %s %d %s' % (k, N, l, B, n, fmt(bkflat), a1, fmt(acc0))
            mo = ints(vlib.run_model([line], 'fast', timeout=3000)[0])
            for var, opc in (('coefficient', 3), ('fft', 103)):
                o = vlib.run_lines(exe, [line.replace('boot 3', 'boot %d' % opc, 1)], timeout=900)[0]
                ctx.count((n, k, l, B, a1, var, 'cmux'))
                d = maxdiff(ints(o), mo) if not o.startswith('CRASH') else 2**32
                worst[('cmux', k, l, B)] = max(worst.get(('cmux', k, l, B), 0), d)
                if d > 4 * fft_tol(k, l, B):
                    ctx.soft('correspondence:cmux', '%s variant: CMux step with exponent %d differs from the model by %d units' % (var, a1, d), {'case': line[:300000], 'opcode': opc, 'maxdiff': d})
        # one CMux step and one external product on library-encrypted rows: analytic bound
        acc0 = [rng.randrange(-2**31, 2**31) for _ in range((k + 1) * N)]
        for i in range(min(n, 2)):
            rows = bkflat[i * gsz:(i + 1) * gsz]
            line = 'tgsw 0 %d %d %d %d %s %s' % (k, N, l, B, fmt(rows), fmt(acc0))
            p0 = ints(vlib.run_lines(exe, ['xtphase %d %d %s %s' % (k, N, fmt(tk), fmt(acc0))])[0])
            for var, opc in (('coefficient', 0), ('fft', 100)):
                res = ints(vlib.run_lines(exe, [line.replace('tgsw 0', 'tgsw %d' % opc, 1)])[0])
                ph = ints(vlib.run_lines(exe, ['xtphase %d %d %s %s' % (k, N, fmt(tk), fmt(res))])[0])
                d = maxdiff(ph, [s[i] * x for x in p0]); ctx.count((n, k, l, B, i, var, 'extprod-real'))
                if d > step_bound:
                    ctx.report('extprod-real', '%s variant: phase(bk_%d (*) c) differs from s_%d*phase(c) by %d units, bound %d' % (var, i, i, d, step_bound), {'case': line[:300000], 'opcode': opc, 's_i': s[i], 'maxdiff': d})
    # --- D: complete key sets as the public constructors build them (new_LweBootstrappingKeyFFT): the FFT-domain key is an image of
    #     the coefficient-domain key for EVERY row i < n, also when n exceeds k*N (the two loops of the constructor have
    #     different lengths), and both blind rotations agree with X^(sum bara_i s_i) when the last rows are exercised
    from props.c04 import A_BK, A_KS
    full = [(0, 1030, 1, 2, 10, 8, 2, A_BK, A_KS), (0, 5, 2, 2, 10, 4, 4, A_BK, A_KS), (80, 0, 0, 0, 0, 0, 0, 0, 0)]
    if thorough: full += [(0, 1024, 1, 3, 7, 8, 2, A_BK, A_KS), (0, 2050, 2, 2, 10, 8, 1, A_BK, A_KS), (128, 0, 0, 0, 0, 0, 0, 0, 0)]
    for fi, f in enumerate(full):
        spec = fmt(list(f) + [ctx.seed * 10 + 7 + fi])
        g0 = ints(vlib.run_lines(exe, ['fullkey ' + spec], timeout=1800)[0]); n, k, l, B = g0[0], g0[2], g0[3], g0[4]; s = g0[7:7 + n]
        vecs = []
        for t in range(3):
            bara = [0] * n
            idx = sorted({n - 1, rng.randrange(n), rng.randrange(max(0, n - 8), n)} | ({k * N, k * N - 1, n - 2} if n > k * N else set()))
            for i in idx: bara[i] = rng.choice([1, N, 2 * N - 1, rng.randrange(1, 2 * N)])
            vecs.append(bara)
        v = [rng.randrange(-2**31, 2**31) for _ in range(N)]
        lines = ['keyimage ' + spec] + ['brpair %s %s %s' % (spec, fmt(bara), fmt(v)) for bara in vecs]
        io = vlib.run_lines(exe, lines, timeout=3600)
        ctx.count(('keyimage', f))
        if io[0].startswith('CRASH'): ctx.report('fft-key-image-crash', 'converting the FFT-domain key back died (n=%d k=%d): %s' % (n, k, io[0][:80]), {'case': lines[0]})
        else:
            img = ints(io[0]); bad = [i for i, d in enumerate(img) if d > 1]
            worst[('keyimage', n, k, l, B)] = max(img)
            if bad:
                ctx.report('fft-key-image', 'key set n=%d k=%d (l,B)=(%d,%d): %d of the %d samples of the FFT-domain bootstrapping key are not the image of the coefficient-domain key (first at i=%d, off by %d units; k*N=%d)' % (
                    n, k, l, B, len(bad), n, bad[0], img[bad[0]], k * N), {'case': lines[0], 'bad_rows': bad[:50]})
        sigma = (f[7] if f[0] == 0 else 32768) / 256.0
        for bara, line, o in zip(vecs, lines[1:], io[1:]):
            ctx.count(('brpair', f, tuple(i for i, x in enumerate(bara) if x)))
            if o.startswith('CRASH'): ctx.report('blindrotate-crash', 'blind rotation under a complete key set n=%d died: %s' % (n, o[:80]), {'case': line[:300000]}); continue
            r = ints(o); tk = r[:k * N]; ph = [r[k * N:k * N + N], r[k * N + N:k * N + 2 * N]]
            steps = sum(1 for x in bara if x)
            e = sum(a * b for a, b in zip(bara, s)) % (2 * N)
            exp = rot(v, e)
            # rows within 10 sigma (the run aborts otherwise with probability < 1e-15): worst-case bound of extprod_error_bound per executed step
            bound = steps * int((k + 1) * l * N * (1 << (B - 1)) * 10 * sigma + (1 + k * N) * (1 << (32 - l * B)) + fft_tol(k, l, B))
            for var, p1 in zip(('coefficient', 'fft'), ph):
                d = maxdiff(p1, exp); worst[('brpair', n, k, l, B, var)] = max(worst.get(('brpair', n, k, l, B, var), 0), d)
                if d > bound:
                    ctx.report('blindrotate-fullkey', '%s variant under a complete key set n=%d k=%d (l,B)=(%d,%d), non-zero exponents at %s: phase differs from X^%d * v by %d units (bound %d for %d executed steps)' % (
                        var, n, k, l, B, [i for i, x in enumerate(bara) if x], e, d, bound, steps), {'case': line[:300000], 'variant': var, 'exponent': e, 'maxdiff': d, 'bound': bound})
    ctx.cov['extprod_cases'] = nB
    ctx.cov['worst_observed_difference_units'] = {str(k): v for k, v in sorted(worst.items(), key=str)}
    # allocation failures inside the external products (both domains, in place and out of place)
    vlib.allocfail_block(ctx, [(fn, 1024, k, l, B) for fn in (6, 7, 8) for (k, l, B) in ((1, 2, 8), (2, 3, 7))])
    ctx.sample({'extprod worst differences (units of 2^-32)': {str(k): v for k, v in list(sorted(worst.items(), key=str))[:8]}})

def rot(p, e):
    """X^e * p in the negacyclic ring"""
    n = len(p); out = [0] * n
    for j, x in enumerate(p):
        t = j + e; sgn = 1
        t %= 2 * n
        if t >= n: t -= n; sgn = -1
        out[t] = vlib.w32(sgn * x)
    return out

def replay(ctx, data):
    if data.get('tool') == 'allocfail': return vlib.allocfail_replay(data)
    exe = vlib.build_harness('boot_drv.cpp', vlib.build_lib(data.get('build', 'optim')), 'spqlios-fma', data.get('build', 'optim'))
    if 'case' not in data: print(json.dumps(data)[:1000]); return 0
    line = data['case']; opc = data.get('opcode', 0)
    op = line.split()[0]
    if data.get('guard'): return vlib.guard_replay(exe, dict(data, case=line.replace('%s 0' % op, '%s %d' % (op, opc), 1)))
    o = vlib.run_lines(exe, [line.replace('%s 0' % op, '%s %d' % (op, opc), 1)], timeout=900)[0]
    m = vlib.run_model([line], 'fast', timeout=3000)[0]
    d = maxdiff(ints(o), ints(m)) if not o.startswith('CRASH') else -1
    print('case: %s ...\nmax |implementation - exact model| now: %s units (recorded: %s)' % (line[:120], d, data.get('maxdiff')))
    return 0
