# C08 — key switching preserves the phase up to a bounded, unbiased error
import vlib, json
from concurrent.futures import ThreadPoolExecutor
LEVEL = 'proof'
LAYOUTS = [(8, 2), (14, 2), (1, 1), (31, 1), (3, 10), (1, 31), (2, 4), (5, 3), (4, 7), (15, 2), (2, 15)]

def mask_values(rng, t, b, n):
    s = 32 - t * b
    prec = 1 << (s - 1)
    vs = [0, -1, 1, 2**31 - 1, -2**31, -prec, -prec - 1, -prec + 1, prec, prec - 1, 2**32 - prec, 2**32 - prec - 1]
    for j in range(1, t + 1):
        step = 1 << (32 - j * b)
        for m in (1, (1 << min(j * b, 31)) - 1, rng.randrange(1, 1 << min(j * b, 31)) if j * b > 0 else 1):
            for d in (-1, 0, 1): vs.append(m * step - prec + d)
    rng.shuffle(vs)
    while len(vs) < n: vs.append(rng.randrange(-2**31, 2**31))
    return [vlib.w32(v) for v in vs[:n]]

def run(ctx):
    thorough = ctx.tier == 'thorough'
    rng = ctx.rng
    ctx.rule = ('noiseless-with-mask keys written by the harness: n_in in {1,2,3,7,8,9,16}, n_out in {1,3,7,8,9,17}, (t,basebit) grid with t*basebit<=31 '
                'incl. (8,2),(14,2),(1,1),(31,1),(3,10),(1,31); mask values at every digit-carry boundary, 0xFFFFFFFF, values that wrap; row h=0 is the trivial zero sample; '
                'real generated keys: the theorem\'s identity checked exactly with the secret keys.  distinct = distinct case lines')
    ctx.assumptions = ['the size of the row noises is C07\'s subject; here they enter the identity as measured values']
    ctx.prove()
    exes = {b: vlib.build_harness('drv.cpp', vlib.build_lib(b), 'spqlios-fma', b) for b in ('optim', 'debug')}
    cases = []
    dims = [(1, 1), (2, 3), (3, 7), (7, 8), (8, 9), (9, 17), (16, 1), (3, 2), (1, 9)]
    # every basebit from 1 to 14 with the smallest, a middle and the largest admissible t (a base-specific code path shows only on its base)
    extra = [(t, b) for b in range(1, 15) for t in sorted({1, 2, max(1, 31 // b - 1), 31 // b}) if t * b <= 31 and (t, b) not in LAYOUTS]
    for (t, b) in LAYOUTS + extra:
        base = 1 << b
        for (n, nout) in ((dims if t * base <= 64 else dims[:3]) if (t, b) in LAYOUTS else [dims[1], dims[0]]):
            if n * t * base * (nout + 1) > 40000: continue
            sin = [rng.randrange(2) for _ in range(n)]; sout = [rng.randrange(2) for _ in range(nout)]
            if n >= 2: sin[0] = 1; sin[1] = 0
            rows = []; errs = {}
            for i in range(n):
                for j in range(t):
                    for h in range(base):
                        am = [rng.randrange(-2**31, 2**31) for _ in range(nout)]
                        e = rng.randrange(-5, 6) if (i + j + h) % 3 == 0 else 0
                        if h == 0: rows += [0] * (nout + 1); continue   # as lweCreateKeySwitchKey writes it
                        bb = vlib.w32(sum(x * y for x, y in zip(am, sout)) + h * sin[i] * (1 << (32 - (j + 1) * b)) + e)
                        errs[(i, j, h)] = e
                        rows += am + [bb]
            for rep in range(3 if not thorough else 12):
                a = mask_values(rng, t, b, n); bv = rng.randrange(-2**31, 2**31)
                line = 'keyswitch %d %d %d %d %s %s %d' % (n, nout, t, b, ' '.join(map(str, rows)), ' '.join(map(str, a)), bv)
                for bld in ('optim', 'debug'): cases.append((line, bld, (n, nout, t, b, sin, sout, errs, a, bv)))
    impl = {}
    for bld in ('optim', 'debug'):
        idx = [i for i, c in enumerate(cases) if c[1] == bld]
        for i, o in zip(idx, vlib.run_lines(exes[bld], [cases[i][0] for i in idx], timeout=1200)): impl[i] = o
    for bld in ('optim', 'debug'):
        gi = [i for i, c in enumerate(cases) if c[1] == bld and len(c[0]) < 6000][:: (4 if not thorough else 1)]
        vlib.guard_pass(ctx, exes[bld], [cases[i][0] for i in gi], [impl[i] for i in gi], 'key switching, %s build' % bld, {'build': bld})
    lines = sorted(set(c[0] for c in cases))
    mo = dict(zip(lines, vlib.run_model(lines, 'fast')))
    xs = [l for l in lines if len(l) < 3000][:40]
    for l, o in zip(xs, vlib.run_model(xs, 'pure')):
        if o.strip() != mo[l].strip(): ctx.soft('extraction-crosscheck', 'pure and fast extraction differ on ' + l[:100], {'case': l[:2000]})
    ndis = 0
    for i, c in enumerate(cases):
        ctx.count((c[0], c[1]))
        o = impl[i]
        fail = oracle(c[2], o)
        if fail: ctx.report('keyswitch-wrong', '%s build, n=%d nout=%d (t,b)=(%d,%d): %s' % (c[1], c[2][0], c[2][1], c[2][2], c[2][3], fail),
                            {'case': c[0][:30000], 'build': c[1], 'impl': o[:2000], 'why': fail})
        if o.strip() != mo[c[0]].strip():
            ndis += 1
            ctx.soft('correspondence:keyswitch', '%s build and model disagree, n=%d nout=%d (t,b)=(%d,%d): impl %s model %s' % (c[1], c[2][0], c[2][1], c[2][2], c[2][3], o[:60], mo[c[0]][:60]),
                     {'case': c[0][:30000], 'build': c[1], 'impl': o[:2000], 'model': mo[c[0]][:2000]})
    # real generated keys: identity of the theorem with the secret keys (exact), incl. full-size layout (t,b)=(8,2)
    real = [(8, 9, 8, 2, 300, 1), (33, 17, 8, 2, 300, 2), (16, 630, 8, 2, 100, 3), (7, 5, 3, 10, 100, 4), (9, 8, 14, 2, 200, 5), (5, 3, 1, 1, 200, 6), (1024, 630, 8, 2, 20 if not thorough else 400, 7), (6, 4, 5, 1, 200, 8), (4, 4, 15, 1, 100, 9), (3, 5, 31, 1, 100, 10), (5, 4, 4, 7, 100, 11)]
    rl = ['ksreal %d %d %d %d %d %d 1 15' % (n, no, t, b, ns, ctx.seed * 100 + sd) for (n, no, t, b, ns, sd) in real]
    # the same with keys from lweCreateKeySwitchKey_old (noises recentred after encryption: renormalizeKSkey)
    rl += ['ksreal %d %d %d %d %d %d 1 15 1' % (n, no, t, b, ns, ctx.seed * 100 + sd + 50) for (n, no, t, b, ns, sd) in real if n * t * (1 << b) <= 40000][:: (1 if thorough else 2)]
    # the key as element 0 of an array of three keys, the other two generated afterwards for other secrets
    rl += ['ksreal %d %d %d %d %d %d 1 15 2' % (n, no, t, b, ns, ctx.seed * 100 + sd + 70) for (n, no, t, b, ns, sd) in real if n * t * (1 << b) <= 40000][1:: (1 if thorough else 3)]
    # a ternary source key (coefficients -1, 0, 1, e.g. the extracted key of a ring key that is not binary): the rows encrypt h*s_i/base^(j+1) with s_i = -1 too
    rl += ['ksreal %d %d %d %d %d %d 1 15 3' % (n, no, t, b, ns, ctx.seed * 100 + sd + 90) for (n, no, t, b, ns, sd) in real if n * t * (1 << b) <= 40000][:: (1 if thorough else 3)]
    for l, o in zip(rl, vlib.run_lines(exes['optim'], rl, timeout=1800)):
        ctx.count(l)
        if o.startswith('CRASH'): ctx.report('ksreal-crash', l + ': ' + o, {'case': l, 'impl': o}); continue
        bad, ns, maxsum, h0bad, maxrow = [int(x) for x in o.split()]
        ctx.evaluations += ns
        if bad: ctx.report('ksreal-identity', '%s: phase_out - phase_in differs from the rounding term minus the used rows\' noise on %d of %d samples' % (l, bad, ns), {'case': l, 'impl': o})
        # every row (i,j,h>=1) of the generated key encrypts h*s_i/base^(j+1): its error is a Gaussian of stdev 2^-15 (131072 units), never 12 sigma
        if maxrow > 12 * 131072: ctx.report('ks-row-message', '%s: a row of the key lweCreateKeySwitchKey generated is %d units away from h*s_i/base^(j+1) (noise stdev 131072 units): it encrypts something else' % (l, maxrow), {'case': l, 'impl': o})
        if h0bad and not l.endswith(' 1 15 1'): ctx.report('ks-h0-rows', '%s: %d rows with h=0 are not the trivial zero sample' % (l, h0bad), {'case': l, 'impl': o})
        ctx.hypotheses[l] = {'max_abs_sum_of_used_row_noise_units': maxsum, 'max_abs_row_noise_units': maxrow}
    if thorough:
        jobs = [('kssweep %d %d %d %d' % (t, b, part * 2**28, (part + 1) * 2**28), (t, b)) for (t, b) in [(8, 2), (14, 2), (3, 10), (1, 1)] for part in range(16)]
        with ThreadPoolExecutor(max_workers=vlib.NPROC) as ex:
            outs = list(ex.map(lambda j: vlib.run_lines(exes['optim'], [j[0]], timeout=7200)[0], jobs))
        tot = {}
        for j, o in zip(jobs, outs):
            ctx.evaluations += 2**28
            v = o.split()
            if o.startswith('CRASH') or int(v[0]) != 0: ctx.report('ks-sweep', '%s -> %s' % (j[0], o), {'case': j[0], 'result': o})
            else: tot[j[1]] = tot.get(j[1], 0) + int(v[2])
        for (t, b), s in tot.items():
            # mean error over all 2^32 values: exactly -1/2 unit ("zero on average")
            if s != -(2**31): ctx.report('ks-sweep-bias', 'sum of rounding errors over all 2^32 values for (t,b)=(%d,%d) is %d, expected -2^31' % (t, b, s), {'t': t, 'b': b, 'sum': s})
        ctx.cov['exhaustive_sweeps'] = 'all 2^32 mask values on a noiseless key for (8,2),(14,2),(3,10),(1,1)'
    ctx.cov['correspondence_cases'] = len(cases); ctx.cov['disagreements'] = ndis
    ctx.cov['input_distribution'] = {'layouts': LAYOUTS + extra, 'dims(n_in,n_out)': dims, 'real_keys': real}
    for c in cases[:: max(1, len(cases) // 6)]: ctx.sample({'case': c[0][:100] + '...', 'build': c[1], 'impl': impl[cases.index(c)][:100]})

def oracle(meta, o):
    n, nout, t, b, sin, sout, errs, a, bv = meta
    if o.startswith('CRASH'): return 'process died: ' + o
    vals = [int(x) for x in o.split()]
    if len(vals) != nout + 1: return 'write outside the result array or wrong length'
    pout = vlib.w32(vals[nout] - sum(x * y for x, y in zip(vals[:nout], sout)))
    pin = vlib.w32(bv - sum(x * y for x, y in zip(a, sin)))
    s = 32 - t * b; prec = 1 << (s - 1)
    exp = 0; bound = 0
    for i in range(n):
        y = (a[i] + prec) % 2**32
        rounded = y - y % (1 << s)
        err = vlib.w32(a[i] - rounded)
        if not (-prec <= err < prec): return 'internal: rounding error out of range'
        exp += sin[i] * err
        for j in range(t):
            d = (y >> (32 - (j + 1) * b)) & ((1 << b) - 1)
            if d: exp -= errs[(i, j, d)]
    if vlib.w32(pout - pin) != vlib.w32(exp): return 'phase_out - phase_in = %d, expected %d (rounding term minus used row noise)' % (vlib.w32(pout - pin), vlib.w32(exp))
    return None

def replay(ctx, data):
    b = data.get('build', 'optim')
    exe = vlib.build_harness('drv.cpp', vlib.build_lib(b), 'spqlios-fma', b)
    if data.get('guard'): return vlib.guard_replay(exe, data)
    o = vlib.run_lines(exe, [data['case']])[0]
    print('case:', data['case'][:300], '\nimplementation now:', o[:400], '\nrecorded:', str(data.get('impl'))[:400])
    return 0
