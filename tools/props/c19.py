# C19 — default parameter selection is monotone and matches the documented sets
import vlib, json, os, subprocess, sys
sys.path.insert(0, os.path.dirname(os.path.dirname(os.path.abspath(__file__))))
import gen_params_facts
LEVEL = 'proof'
FACTS = os.path.join(vlib.COQ, 'gen', 'ParamsFacts.v')
DOC = {
 'Set128': dict(n=630, a_in=2.0**-15, N=1024, k=1, a_bk=2.0**-25, l=3, Bgbit=7, t=8, basebit=2, amax=0.012467, amax_bk=0.012467),
 'Set80': dict(n=500, a_in=2.44e-5, N=1024, k=1, a_bk=7.18e-9, l=2, Bgbit=10, t=8, basebit=2, amax=0.012467, amax_bk=0.012467),
}

def parse(line):
    t = line.split()
    if t[0] in ('H', 'T'): t = t[3:]
    lam = int(t[0])
    if t[1] != 'OK': return lam, None
    v = [int(x) for x in t[2:]]
    d = dict(n=v[0], a_in=v[1] / 2.0**v[2], amax=v[3] / 2.0**v[4], N=v[5], k=v[6], a_bk=v[7] / 2.0**v[8], amax_bk=v[9] / 2.0**v[10], l=v[11], Bgbit=v[12], Bg=v[13], halfBg=v[14],
             maskMod=v[15], kpl=v[16], offset=v[17], t=v[18], basebit=v[19], ext_n=v[20], ext_a=v[21] / 2.0**v[22], h=v[23:])
    return lam, d

def run(ctx):
    ctx.rule = ('the real selector called in a forked child for every lambda in [-5,300] plus INT32_MIN, INT32_MIN+1, INT32_MAX, 10^6, and three request histories inside one process (1..128 ascending, 128..1 descending, a mixed sequence alternating between the two sets); every field of the returned '
                'set dumped (reals as exact dyadic rationals) into gen/ParamsFacts.v, against which the theorems are re-checked. distinct = distinct lambda values')
    ctx.assumptions = ['F1-F3 (DESIGN.md C19) are the formalisation of "the library\'s own noise formulas"; facts come from the built library (toolchain trusted)']
    bdir = vlib.build_lib('optim')
    exe = vlib.build_harness('params_dump.cpp', bdir, 'spqlios-fma', 'optim')
    out = subprocess.run([exe], stdout=subprocess.PIPE, text=True, timeout=300, env=dict(os.environ, MALLOC_PERTURB_='165')).stdout.splitlines()
    readme = open(os.path.join(vlib.REPO, 'README.md')).read()
    facts = gen_params_facts.gen(out, readme)
    # the facts file is regenerated on every run (untracked; a committed baseline copy only serves setup)
    old = open(FACTS).read() if os.path.exists(FACTS) else ''
    changed = facts != old
    with vlib.GlobalLock('facts'):      # facts file and the proofs that read it: one run at a time (concurrent runs on scratch trees share the Coq tree)
        if changed or (os.path.exists(FACTS) and open(FACTS).read() != facts):
            with vlib.Lock('coq'): open(FACTS, 'w').write(facts)
        ctx.prove()
    base = FACTS.replace('.v', '.baseline')
    differs = (not os.path.exists(base)) or open(base).read() != facts
    if differs:
        keep = ctx.replay_path('facts').replace('.json', '.v'); open(keep, 'w').write(facts)
        ctx.notes.append('facts differ from the committed baseline copy; this run\'s facts kept at ' + keep)
    changed = differs
    # independent oracle over the dump
    seen = set()
    for line in out:
        if line.startswith('X '):
            t = line.split(); xv = int(t[2]) / 2.0**int(t[3]) if len(t) >= 4 else None; ctx.count(('X', line))
            if xv is None or abs(xv - 0.012467) > 1e-15: ctx.report('set-field-ext_amax', 'lambda=%s: alpha_max of the extracted LWE parameters is %r, the sets document 0.012467 ("max standard deviation for a 1/4 message space")' % (t[1], xv), {'observed': line})
            continue
        if line.startswith('B '):
            t = line.split(); ctx.count(('B', line))
            if t[2:4] != ['ABORT', '6']:
                ctx.report('selector-rejects-without-abort', 'lambda=%s, requested by a caller that ignores the returned pointer: the process was not aborted (%s) - the call was dropped or did not reject' % (t[1], ' '.join(t[2:4])), {'lambda': int(t[1]), 'observed': line})
            continue
        lam, d = parse(line)
        hist = line.split()[:3] if line.startswith(('H ', 'T ')) else None
        ctx.count((lam, tuple(hist or []))); seen.add(lam)
        if hist and hist[2] == '-1': ctx.report('history-abort', 'the selector died during request history %s' % hist[1], {'history': hist[1]}); continue
        exp = None if (lam <= 0 or lam > 128) else ('Set80' if lam <= 80 else 'Set128')
        if exp is None:
            # a rejected request ends in abort() (SIGABRT): no exit handlers run, no destructors, nothing is flushed on behalf of the caller
            if d is None and not hist and line.split()[1:3] != ['ABORT', '6']:
                ctx.report('selector-rejects-without-abort', 'lambda=%d is rejected, but not by aborting: the process %s (the documented behaviour is abort(): SIGABRT, no exit handlers)' % (
                           lam, ('threw a C++ exception that a catch-all handler above the call swallowed' if line.split()[2] == '77' else 'exited normally with status ' + line.split()[2]) if line.split()[1] == 'EXIT' else 'ended with ' + ' '.join(line.split()[1:3])), {'lambda': lam, 'observed': line})
            if d is not None: ctx.report('selector-accepts', 'lambda=%d is accepted (should abort)' % lam, {'lambda': lam, 'observed': line})
            continue
        if d is None:
            ctx.report('selector-rejects', 'lambda=%d is rejected (should return the %s)' % (lam, exp), {'lambda': lam, 'observed': line}); continue
        doc = DOC[exp]
        # the upper noise levels (alpha_max) are fields of the returned sets too: "max standard deviation for a 1/4 message space",
        # i.e. 10 standard deviations within 1/8; they must lie between the set's own noise level and 1/80
        for f, lo in (('amax', d['a_in']), ('amax_bk', d['a_bk'])):
            if not (lo <= d[f] <= 0.0125):
                ctx.report('set-field-' + f, 'lambda=%d: field %s = %r is not between the noise level %r of the set and 1/80 (10 standard deviations inside 1/8)' % (lam, f, d[f], lo), {'lambda': lam, 'field': f, 'observed': d[f]})
        for f, v in doc.items():
            ov = d[f]
            ok = (abs(ov - v) <= 1e-15 * abs(v)) if isinstance(v, float) else ov == v
            if not ok: ctx.report('set-field-' + f, 'lambda=%d%s: field %s = %r, documented %r (%s)' % (lam, (' (request number %s of in-process history %s%s: 0 = 1..128 ascending, 1 = descending, 2 = 80,128,80,81,1,128,100,50,81,80)' % (hist[2], hist[1], ', each request made by a helper thread that has exited before the set is read' if hist[0] == 'T' else '')) if hist else '', f, ov, v, exp), {'lambda': lam, 'field': f, 'observed': ov, 'documented': v, 'history': hist})
        if not (d['N'] == 1024 and d['l'] * d['Bgbit'] <= 32 and d['t'] * d['basebit'] <= 31 and d['ext_n'] == d['k'] * d['N'] and d['Bg'] == 1 << d['Bgbit']
                and d['halfBg'] == d['Bg'] // 2 and d['maskMod'] == d['Bg'] - 1 and d['kpl'] == (d['k'] + 1) * d['l']
                and d['offset'] == (sum(1 << (32 - (i + 1) * d['Bgbit']) for i in range(d['l'])) * d['halfBg']) % 2**32
                and d['h'] == [vlib.w32(1 << (32 - (i + 1) * d['Bgbit'])) for i in range(d['l'])]):
            ctx.report('structural', 'lambda=%d: structural constraint or derived field violated: %s' % (lam, line), {'lambda': lam, 'observed': line})
        # the LWE parameters of extracted samples are a field of the returned set too (tgsw_params->tlwe_params->extracted_lweparams): dimension k*N (above),
        # noise level that of the ring samples they are extracted from
        if d['ext_a'] != d['a_bk']:
            ctx.report('set-field-ext_alpha_min', 'lambda=%d: alpha_min of the extracted LWE parameters is %r, the noise level of the ring parameters they are derived from is %r' % (lam, d['ext_a'], d['a_bk']), {'lambda': lam, 'field': 'extracted_lweparams.alpha_min', 'observed': d['ext_a'], 'expected': d['a_bk'], 'line': line})
        # 12-sigma margin with F1-F3 in floating point (the theorem does it exactly in Q)
        Vbr = d['n'] * (d['k'] + 1) * d['l'] * d['N'] * ((d['Bg']**2 + 2) / 12.0) * d['a_bk']**2 + d['n'] / 2.0 * (1 + d['k'] * d['N'] / 2.0) * 2.0**(-2 * d['l'] * d['Bgbit']) / 12
        Vks = d['k'] * d['N'] * d['t'] * ((2**d['basebit'] - 1) / 2.0**d['basebit']) * d['a_in']**2 + d['k'] * d['N'] / 2.0 * 2.0**(-2 * d['t'] * d['basebit']) / 12
        sig = (1 / 16.0) / ((2 * (Vbr + Vks))**0.5)
        ctx.hypotheses['margin_sigmas_' + exp] = round(sig, 3)
        if sig < 12: ctx.report('margin', 'lambda=%d: only %.2f standard deviations of margin' % (lam, sig), {'lambda': lam, 'sigmas': sig})
    need = set(range(-5, 301)) | {-2**31, 2**31 - 1}
    if not need <= seen: ctx.report('exploration', 'selector exploration incomplete', {'missing': sorted(need - seen)[:20]})
    ctx.cov['exhaustive'] = True
    ctx.cov['facts_file_changed_vs_committed'] = changed
    for l in (out[0], out[6], out[86], out[134]): ctx.sample(l[:160])

def replay(ctx, data):
    print(json.dumps(data, indent=1)); return 0
