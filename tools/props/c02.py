# C02 — circuits of any depth stay correct: gate output noise bounded, input-independent
import vlib, json, math
from concurrent.futures import ThreadPoolExecutor
from props.c04 import ints, fmt
from props.c01 import table, GATES
LEVEL = 'proof'
MU = 2**29
BOUND = {128: 0.0037, 80: 0.0047}
T32 = 2.0**32

def plain(kind, bits, a, b, c):
    if kind < 10: return table(GATES[kind], bits[a], bits[b])
    if kind == 10: return 1 - bits[a]
    if kind == 11: return bits[a]
    if kind == 12: return 1 if a else 0
    return bits[b] if bits[a] else bits[c]

# ---- netlist families: (name, nwires, instrs[(kind,dst,a,b,c)]) ----
def fam_random(rng, nw, ni):
    prog = []
    for _ in range(ni):
        r = rng.random()
        kind = rng.randrange(10) if r < 0.78 else (13 if r < 0.90 else rng.choice([10, 10, 11, 12]))
        d, a, b, c = (rng.randrange(nw) for _ in range(4))
        if rng.random() < 0.3: d = rng.choice([a, b])            # in-place
        if kind == 12: a = rng.randrange(2)
        prog.append((kind, d, a, b, c))
    return ('random', nw, prog)
def fam_chain(rng, depth):
    # w0 = g(w0, w_j): depth grows by one per instruction, always in place
    prog = [(rng.choice([0, 1, 2, 3, 4, 5, 6, 7, 8, 9]), 0, 0, 1 + (i % 3), 0) for i in range(depth)]
    return ('chain', 4, prog)
def fam_notchain(rng, depth):
    prog = [(2, 0, 0, 1, 0)] + [(10, 0, 0, 0, 0)] * depth + [(3, 2, 0, 1, 0)]
    return ('notchain', 3, prog)
def fam_tree(rng, leaves):
    prog = []; nw = 2 * leaves; cur = list(range(leaves)); nxt = leaves
    while len(cur) > 1:
        new = []
        for i in range(0, len(cur) - 1, 2):
            prog.append((rng.choice([3, 2, 1, 0]), nxt, cur[i], cur[i + 1], 0)); new.append(nxt); nxt += 1
        if len(cur) % 2: new.append(cur[-1])
        cur = new
    return ('tree', nw, prog)
def fam_fanout(rng, m):
    prog = [(2, 2, 0, 1, 0)] + [(rng.randrange(10), 3 + i, 2, rng.choice([0, 1, 2]), 0) for i in range(m)] + [(13, 2, 2, 3, 4)]
    return ('fanout', 3 + m, prog)
def fam_adder(rng, bits):
    # wires: a_i = i, b_i = bits+i, carry = 2*bits, t1 = 2*bits+1, t2 = 2*bits+2, sum_i = 2*bits+3+i
    A = lambda i: i; B = lambda i: bits + i; cy = 2 * bits; t1 = cy + 1; t2 = cy + 2; S = lambda i: cy + 3 + i
    prog = [(12, cy, 0, 0, 0)]
    for i in range(bits):
        prog += [(3, t1, A(i), B(i), 0), (3, S(i), t1, cy, 0), (2, t2, A(i), B(i), 0), (2, t1, t1, cy, 0), (1, cy, t1, t2, 0)]
    return ('adder', 3 * bits + 3, prog)
def fam_layer(rng, m):
    # m gates (one in five a MUX) each on fresh inputs, results on wires of their own: the 'fresh' / 'noisy' classes
    nin = 12; prog = []
    for i in range(m):
        a, b, c = rng.sample(range(nin), 3)
        prog.append((13 if i % 5 == 0 else rng.randrange(10), nin + i, a, b, c))
    return ('layer', nin + m, prog)
def fam_muxtree(rng, depth):
    n = 1 << depth; prog = []; cur = list(range(n)); nxt = n + depth
    for lvl in range(depth):
        new = []
        for i in range(0, len(cur), 2):
            prog.append((13, nxt, n + lvl, cur[i], cur[i + 1])); new.append(nxt); nxt += 1
        cur = new
    return ('muxtree', nxt, prog)

def account(ctx, stats, job, o, m, backend, build, lam):
    (name, nw, prog, mode, ins, line) = job
    ctx.count((backend, build, lam, line[40:4000]))
    if o.startswith('CRASH'):
        ctx.report('netlist-crash', '%s/%s %d-bit: evaluation of a %s netlist died: %s' % (backend, build, lam, name, o[:80]), {'case': line, 'backend': backend, 'build': build}); return
    r = ints(o); phases = r[:len(prog)]; fin = r[len(prog):]
    bits = list(ins); depth = [0] * nw
    for (kind, d, a, b, c), ph in zip(prog, phases):
        nb = plain(kind, bits, a, b, c)
        srcs = {10: [a], 11: [a], 12: [], 13: [a, b, c]}.get(kind, [a, b])
        din = max([depth[x] for x in srcs], default=0)
        err = vlib.w32(ph - (MU if nb else -MU))
        if (ph > 0) != bool(nb):
            ctx.report('wire-wrong', '%s/%s %d-bit set, %s netlist: after instruction %s the destination decrypts to %d, plaintext evaluation gives %d (phase %d, inputs at depth %d)' % (
                backend, build, lam, name, (kind, d, a, b, c), 1 if ph > 0 else 0, nb, ph, din), {'case': line, 'instruction': [kind, d, a, b, c], 'backend': backend, 'build': build})
        if kind < 10 or kind == 13:
            cat = ('noisy' if mode == 1 else 'const' if mode == 2 else 'fresh') if din == 0 else ('deep' if din >= 5 else 'mid')
            for key in ((kind == 13, cat), (kind == 13, 'all')):
                st = stats.setdefault(key, [0, 0.0, 0.0, 0]); e = err / T32
                st[0] += 1; st[1] += e; st[2] += e * e; st[3] = max(st[3], abs(err))
            if abs(err) >= 3 * 2**26:
                ctx.report('error-magnitude', '%s/%s %d-bit set: phase error %d (>= 3/64) at a %s output (inputs at depth %d)' % (backend, build, lam, err, 'MUX' if kind == 13 else GATES[kind], din),
                           {'case': line, 'instruction': [kind, d, a, b, c], 'error_units': err, 'backend': backend, 'build': build})
            depth[d] = din + 1
        else: depth[d] = din
        bits[d] = nb
    if fin != bits: ctx.report('final-wires', 'final decrypted wires differ from the plaintext evaluation', {'case': line, 'impl': fin, 'plain': bits})
    if m is not None and fmt(bits) != m.strip(): ctx.soft('correspondence:netlist', 'extracted eval_plain differs from the harness interpreter', {'case': line[:3000]})

def mkjob(rng, spec, net, mode):
    (name, nw, prog) = net
    ins = [rng.randrange(2) for _ in range(nw)]
    return (name, nw, prog, mode, ins, 'netlist %s %d %d %d %s %s' % (spec, mode, nw, len(prog), ' '.join('%d %d %d %d %d' % p for p in prog), fmt(ins)))

def run(ctx):
    import os; os.environ['MALLOC_PERTURB_'] = '165'     # every block the harness processes get from or return to the allocator is filled: memory that a routine never wrote does not look like zeros by luck
    thorough = ctx.tier == 'thorough'
    rng = ctx.rng
    ctx.rule = ('random and structured netlists (random with 30%% in-place destinations, in-place chains of depth up to %s, NOT chains, trees, heavy fan-out, ripple adders, multiplexer trees) evaluated with the '
                'real library under both default parameter sets; every wire decrypted after every instruction against a plaintext interpreter (and the final wires against the extracted eval_plain); the phase '
                'error of every bootstrapped output recorded and classified by the history of its inputs (fresh, deep, maximally noisy admissible). distinct = distinct (parameter set, netlist, input assignment, mode)') % (2000 if thorough else 200)
    ctx.assumptions = ['partial: the statistical clauses are measured, not proved; acceptance regions are 8 estimator standard deviations wide (false-alarm probability < 1e-14 per statistic)',
                       'runtime behaviour outside the model: the real noise of bootstrapping (FFT error, gadget truncation, key noise) and key switching']
    ctx.prove()
    variants = [('spqlios-fma', 'optim')] if not thorough else [(b, 'optim') for b in vlib.BACKENDS] + [('spqlios-fma', 'debug'), ('nayuki-portable', 'debug')]
    for (backend, build) in variants:
        exe = vlib.build_harness('boot_drv.cpp', vlib.build_lib(build), backend, build)
        for lam in (128, 80):
            spec = fmt([lam, 0, 0, 0, 0, 0, 0, 0, 0, ctx.seed * 10 + 3])
            scale = 3 if (not thorough or build == 'debug') else 12     # the unoptimised builds run the quick volume
            budget = [scale * 1, scale * 2, scale * 4]     # sequential: more batches only while a statistic is undecided
            stats = {}
            decided = False
            for bi, mult in enumerate(budget):
                nets = []
                for r in range(6 * mult): nets.append((fam_random(rng, 12, 60), rng.randrange(2)))
                for r in range(2 * mult): nets.append((fam_chain(rng, 200 if (not thorough or build == 'debug') else rng.choice([200, 2000])), rng.randrange(2)))
                nets.append((fam_notchain(rng, 50), 0))
                for r in range(2 * mult): nets.append((fam_tree(rng, 16), rng.randrange(2)))
                for r in range(2 * mult): nets.append((fam_fanout(rng, 20), rng.randrange(2)))
                for r in range(2 * mult): nets.append((fam_adder(rng, 8), rng.randrange(2)))
                for r in range(2 * mult): nets.append((fam_muxtree(rng, 3), rng.randrange(2)))
                for r in range(4 * mult): nets.append((fam_layer(rng, 60), r % 2))
                for r in range(mult): nets.append((fam_layer(rng, 40), 2))          # gates on constants (mode 2): every key-switch digit is zero, the outputs are exact
                jobs = []
                for (name, nw, prog), mode in nets:
                    ins = [rng.randrange(2) for _ in range(nw)]
                    jobs.append((name, nw, prog, mode, ins, 'netlist %s %d %d %d %s %s' % (spec, mode, nw, len(prog), ' '.join('%d %d %d %d %d' % p for p in prog), fmt(ins))))
                with ThreadPoolExecutor(max_workers=vlib.NPROC) as ex:
                    outs = list(ex.map(lambda j: vlib.run_lines(exe, [j[5]], timeout=7200)[0], jobs))
                mlines = ['netlist %d %d %s %s' % (j[1], len(j[2]), ' '.join('%d %d %d %d %d' % p for p in j[2]), fmt(j[4])) for j in jobs]
                mo = vlib.run_model(mlines, 'pure', timeout=1800)
                for job, o, m in zip(jobs, outs, mo): account(ctx, stats, job, o, m, backend, build, lam)
                # decide
                undecided = judge(ctx, stats, lam, backend, build, final=(bi == len(budget) - 1))
                if not undecided: break
            ctx.hypotheses['%s/%s %d-bit' % (backend, build, lam)] = summary(stats)
        # history: a second key set generated and used in a process that has already generated and used another one (state kept by the
        # library between key sets, e.g. in the noise samplers, must not change the noise of the second)
        def hist(order):
            (la, lb) = order
            sa = fmt([la, 0, 0, 0, 0, 0, 0, 0, 0, ctx.seed * 10 + 6]); sb = fmt([lb, 0, 0, 0, 0, 0, 0, 0, 0, ctx.seed * 10 + 7])
            r2 = vlib.random.Random(ctx.seed * 31 + la)
            ja = [mkjob(r2, sa, fam_layer(r2, 10), 0)]
            jb = [mkjob(r2, sb, fam_layer(r2, 60), i % 2) for i in range(4 if not thorough else 12)] + [mkjob(r2, sb, fam_chain(r2, 200), 0)]
            outs = vlib.run_lines(exe, [j[5] for j in ja + jb], timeout=7200)
            return (lb, jb, outs[len(ja):])
        with ThreadPoolExecutor(max_workers=2) as ex: hres = list(ex.map(hist, [(128, 80), (80, 128)]))
        for (lb, jb, outs) in hres:
            hstats = {}
            for job, o in zip(jb, outs): account(ctx, hstats, job, o, None, backend, build, lb)
            judge(ctx, hstats, lb, backend + ' (second key set of the process)', build, final=True)
            ctx.hypotheses['%s/%s %d-bit as second key set of the process' % (backend, build, lb)] = summary(hstats)
        # the same netlist semantics under a non-default parameter set with two mask polynomials (k = 2; bootstrapping-key noise 2^-30, key-switching noise of the
        # 80-bit set): every wire decrypts to the plaintext evaluation, errors below 3/64 (no stdev bound is claimed for this set)
        from props.c04 import A_BK, A_KS
        sk2 = fmt([0, 500, 2, 2, 10, 8, 2, 1024, 26828084, ctx.seed * 10 + 8])
        r3 = vlib.random.Random(ctx.seed * 57 + 1)
        jk = [mkjob(r3, sk2, fam_adder(r3, 4), 0), mkjob(r3, sk2, fam_muxtree(r3, 3), 0), mkjob(r3, sk2, fam_chain(r3, 40), 1), mkjob(r3, sk2, fam_random(r3, 12, 40), 0)]
        if thorough: jk += [mkjob(r3, sk2, fam_layer(r3, 60), i % 2) for i in range(4)]
        outs = vlib.run_lines(exe, [j[5] for j in jk], timeout=7200)
        kstats = {}
        for job, o in zip(jk, outs): account(ctx, kstats, job, o, None, backend + ' k=2 custom set (n=500, l=2, Bgbit=10)', build, 80)
        ctx.hypotheses['%s/%s custom k=2 set' % (backend, build)] = summary(kstats)
    # the constant a key adds to every gate output: the noises of its key-switching rows are recentred to sum to zero, so the average contribution of a
    # key switch, -(1/base) * (sum of the row errors), is zero for EVERY key; measured with the secret keys on 16 (thorough: 64) generated keys per set
    bexe0 = vlib.build_harness('boot_drv.cpp', vlib.build_lib('optim'), 'spqlios-fma', 'optim')
    for lam in (128, 80):
        ln = 'ksbias %d %d %d' % (lam, ctx.seed * 100 + lam, 16 if not thorough else 64)
        o = vlib.run_lines(bexe0, [ln], timeout=3600)[0]; ctx.count(ln)
        v = [int(x) for x in o.split()] if o and not o.startswith('CRASH') else None
        lim = 0.25 * BOUND[lam]
        if v is None: ctx.report('ksbias-crash', ln + ' died: ' + o[:80], {'case': ln})
        elif v[0] / T32 > lim:
            ctx.report('noise-mean', '%d-bit set: a generated key-switching key adds a constant of %.6f to the phase of every gate output evaluated under it (average contribution of its row errors; %d keys tried, the largest shown), '
                       'the bound on |mean| is %.6f: the row noises are not recentred over the rows that are used' % (lam, v[0] / T32, len(v) - 1, lim), {'case': ln, 'biases_units': v[1:], 'bound': lim, 'param_set': lam})
        else: ctx.hypotheses['%d-bit set: max |constant added by a generated key-switching key| over %d keys (torus)' % (lam, len(v) - 1)] = v[0] / T32
    ctx.sample({'statistics': {k: v for k, v in list(ctx.hypotheses.items())[:2]}})

def mom(st):
    n, s1, s2, mx = st
    m = s1 / n; var = max(s2 / n - m * m, 0.0) * n / max(n - 1, 1)
    return n, m, math.sqrt(var), mx
def summary(stats):
    out = {}
    for (ismux, cat), st in sorted(stats.items()):
        n, m, s, mx = mom(st)
        out['%s/%s' % ('MUX' if ismux else 'gate', cat)] = {'n': n, 'mean': round(m, 7), 'stdev': round(s, 7), 'max_abs': round(mx / T32, 6)}
    return out

def judge(ctx, stats, lam, backend, build, final):
    """returns True while some statistic is above its threshold but not by 8 estimator standard deviations (draw more)"""
    undecided = False
    tag = '%s/%s %d-bit set' % (backend, build, lam)
    for ismux in (False, True):
        bound = BOUND[lam] * (1.35 if ismux else 1.0); what = 'MUX' if ismux else 'two-input gate'
        if (ismux, 'all') not in stats: continue
        n, m, s, mx = mom(stats[(ismux, 'all')])
        if n < 30: continue
        for name, T, theta, sd in (('stdev', s, bound, s / math.sqrt(2 * n)), ('|mean|', abs(m), 0.25 * bound, s / math.sqrt(n))):
            if T > theta + 8 * sd:
                ctx.report('noise-' + name.strip('|'), '%s: %s of the phase error of %s outputs is %.6f over %d outputs, bound %.6f (exceeded by %.1f estimator standard deviations)' % (tag, name, what, T, n, theta, (T - theta) / sd),
                           {'statistic': name, 'value': T, 'bound': theta, 'n': n, 'estimator_sd': sd, 'gate_class': what, 'param_set': lam, 'backend': backend, 'build': build, 'all': summary(stats)})
            elif T > theta:
                undecided = True
                if final: ctx.notes.append('%s: %s of %s outputs = %.6f is above its bound %.6f by less than 8 estimator standard deviations after the whole budget (n=%d): not decided, no alarm' % (tag, name, what, T, theta, n))
        # gates whose inputs are all constants: the bootstrapped sample has an all-zero mask, no key-switching row is used; the mean bound applies to
        # this class of inputs like to any other (the error is a constant of the key there, so one output decides)
        if (ismux, 'const') in stats and stats[(ismux, 'const')][0] >= 5:
            nc, mc, sc, mxc = mom(stats[(ismux, 'const')])
            if abs(mc) > 0.25 * bound + 8 * sc / math.sqrt(nc):
                ctx.report('noise-mean', '%s: |mean| of the phase error of %s outputs whose inputs are all constants is %.6f over %d outputs (stdev %.6f), bound %.6f' % (tag, what, abs(mc), nc, sc, 0.25 * bound),
                           {'statistic': '|mean| (constant inputs)', 'value': abs(mc), 'bound': 0.25 * bound, 'n': nc, 'gate_class': what, 'param_set': lam, 'backend': backend, 'build': build})
        # same distribution whatever the input history
        cats = [c for c in ('fresh', 'deep', 'noisy') if (ismux, c) in stats and stats[(ismux, c)][0] >= 100]
        for i in range(len(cats)):
            for j in range(i + 1, len(cats)):
                n1, m1, s1, _ = mom(stats[(ismux, cats[i])]); n2, m2, s2, _ = mom(stats[(ismux, cats[j])])
                zv = abs(math.log((s1 * s1) / (s2 * s2))) / math.sqrt(2.0 / (n1 - 1) + 2.0 / (n2 - 1))
                zm = abs(m1 - m2) / math.sqrt(s1 * s1 / n1 + s2 * s2 / n2)
                if zv > 8 or zm > 8:
                    ctx.report('history-dependence', '%s: the error distribution of %s outputs differs between %s and %s inputs (variance ratio z=%.1f, mean difference z=%.1f; stdev %.6f vs %.6f, mean %.6f vs %.6f)' % (
                        tag, what, cats[i], cats[j], zv, zm, s1, s2, m1, m2), {'classes': [cats[i], cats[j]], 'z_var': zv, 'z_mean': zm, 'all': summary(stats), 'param_set': lam, 'backend': backend, 'build': build})
    return undecided

def replay(ctx, data):
    b = data.get('build', 'optim'); be = data.get('backend', 'spqlios-fma')
    if 'case' not in data: print(json.dumps(data, indent=1)[:3000]); return 0
    exe = vlib.build_harness('boot_drv.cpp', vlib.build_lib(b), be, b)
    o = vlib.run_lines(exe, [data['case']], timeout=7200)[0]
    print('netlist re-evaluated; phases of the first destinations now:', o.split()[:8], '\nrecorded:', {k: data[k] for k in data if k in ('instruction', 'error_units', 'what')})
    return 0
