# C14 — ciphertext linear operations act exactly linearly on phases, for every dimension
import vlib, json
LEVEL = 'proof'
EXT = [0, 1, -1, 2**31 - 1, -2**31, 2**31 - 2, -2**31 + 1, 2**30, -2**30]

def vec(rng, n, extreme=False):
    if extreme: return [rng.choice(EXT) for _ in range(n)]
    return [rng.choice(EXT) if rng.random() < 0.15 else rng.randrange(-2**31, 2**31) for _ in range(n)]

def dot(a, s): return sum(x * y for x, y in zip(a, s))
def phase(key, a, b): return vlib.w32(b - dot(a, key))

def negamul(s, a):
    N = len(a); out = [0] * N
    for i in range(N):
        if s[i] == 0: continue
        for j in range(N):
            if i + j < N: out[i + j] += s[i] * a[j]
            else: out[i + j - N] -= s[i] * a[j]
    return out

def run(ctx):
    thorough = ctx.tier == 'thorough'
    rng = ctx.rng
    ctx.rule = ('LWE: n in 1..40 and {500,630,1023,1024,1025,2048}, operations add/sub/addmul/submul/negate/clear/trivial/copy, '
                'p in {0,1,-1,2,INT32_MIN,INT32_MAX,random}, sample aliasing the result, guard zones around every array (out-of-range '
                'writes show as OOB), both builds (assembly and scalar).  TLWE: N in {2,3,4,5,6,7,8,12,16,64,100,1000,1023,1024}, k in {1,2,3}, extraction for all j at small N. '
                'distinct = distinct (operation, build, operands) cases')
    ctx.assumptions = ['tLwePhase itself goes through the FFT: compared at N=1024 within 16 units (C10), exact relations use the Karatsuba route',
                       'the variance annotation is a double: compared with the exact rule within 1e-12 relative']
    ctx.prove()
    exes = {}
    for b in ('optim', 'debug'):
        exes[b] = vlib.build_harness('drv.cpp', vlib.build_lib(b), 'spqlios-fma', b)
    cases = []   # (impl_line, model_line, build, meta)
    ns = list(range(1, 41)) + [500, 630, 1023, 1024, 1025, 2048]
    ps = [0, 1, -1, 2, -2**31, 2**31 - 1, 3, -7]
    for n in ns:
        reps = 1 if n > 40 else 2
        for rep in range(reps * (3 if thorough else 1)):
            key = [rng.randrange(2) for _ in range(n)] if rep % 2 == 0 else vec(rng, n)
            a1, a2 = vec(rng, n, rep % 3 == 2), vec(rng, n); b1, b2 = rng.choice(EXT + [rng.randrange(-2**31, 2**31)]), rng.randrange(-2**31, 2**31)
            for opc in (0, 1, 2, 3, 4, 5, 6, 7, 100, 101, 102, 103, 104, 107):
                p = rng.choice(ps + [rng.randrange(-2**31, 2**31)])
                args = '%d %d %s %d %s %d' % (n, p, ' '.join(map(str, a1)), b1, ' '.join(map(str, a2)), b2)
                il = 'lwelin %d %s' % (opc, args)
                if opc >= 100:
                    ml = 'lwelin %d %d %d %s %d %s %d' % (opc - 100, n, p, ' '.join(map(str, a1)), b1, ' '.join(map(str, a1)), b1)
                    meta = ('lwelin', opc - 100, n, p, key, a1, b1, a1, b1)
                else:
                    ml = il; meta = ('lwelin', opc, n, p, key, a1, b1, a2, b2)
                for b in ('optim', 'debug'): cases.append((il, ml, b, meta))
                if opc == 1:   # the block-structure model of the assembly must agree as well
                    cases.append((il, 'lwelin 8 ' + args, 'optim', meta))
            cases.append(('lwephase %d %s %s %d' % (n, ' '.join(map(str, key)), ' '.join(map(str, a1)), b1), None, 'optim', ('lwephase', key, a1, b1)))
    # TLWE
    for N in (2, 3, 4, 5, 6, 7, 8, 12, 16, 64, 100, 1000, 1023, 1024):          # the coefficient-domain routines take any N, not only powers of two
        pow2 = (N & (N - 1)) == 0
        for k in (1, 2, 3):
            if N >= 1000 and k == 3 and not thorough: continue
            if not pow2 and k == 2 and N > 12 and not thorough: continue
            c1 = vec(rng, (k + 1) * N); c2 = vec(rng, (k + 1) * N)
            keyp = [rng.randrange(2) for _ in range(k * N)] + [0] * N
            base = '%d %d' % (k, N)
            both = ' '.join(map(str, c1)) + ' ' + ' '.join(map(str, c2))
            withkey = ' '.join(map(str, c1)) + ' ' + ' '.join(map(str, keyp))
            for opc in (0, 1, 2, 3):
                p = rng.choice(ps)
                l = 'tlwe %d %s %d %s' % (opc, base, p, both)
                for b in ('optim', 'debug'): cases.append((l, l, b, ('tlwe', opc, k, N, p, c1, c2)))
            for opc in (20, 21, 121, 22, 23, 24, 25, 26):
                p = rng.choice(ps + [rng.randrange(-2**31, 2**31)])
                l = 'tlwe %d %s %d %s' % (opc, base, p, both)
                ml = l if opc != 121 else l.replace('tlwe 121', 'tlwe 21', 1)
                cases.append((l, ml, 'optim', ('tlweop', opc, k, N, p, c1, c2)))
            for a in sorted({0, 1, N - 1, N, N + 1, 2 * N - 1, rng.randrange(2 * N)}):
                l = 'tlwe 4 %s %d %s' % (base, a, both)
                cases.append((l, l, 'optim', ('tlwe', 4, k, N, a, c1, c2)))
            js = range(N) if N <= 64 else sorted({0, 1, N - 1, N // 2, rng.randrange(N), rng.randrange(N)})
            for j in js:
                l = 'tlwe 5 %s %d %s' % (base, j, withkey)
                cases.append((l, l, 'optim', ('ext', k, N, j, c1, keyp)))
                cases.append((l, 'tlwe 15 %s %d %s' % (base, j, withkey), 'debug', ('ext', k, N, j, c1, keyp)))
            if N >= 8 and pow2:
                l = 'tlwe 16 %s 0 %s' % (base, withkey)
                cases.append((l, 'tlwe 6 %s 0 %s' % (base, withkey), 'optim', ('phase', k, N, c1, keyp)))
            l = 'tlwe 7 %s 0 %s' % (base, withkey)
            cases.append((l, l, 'optim', ('extkey', k, N, keyp)))
            if N == 1024:
                l = 'tlwe 6 %s 0 %s' % (base, withkey)
                cases.append((l, l, 'optim', ('phasefft', k, N, c1, keyp)))
    # variance annotation: var1 + p^2 * var2 for |p| < 2^15 (inputs carry 1/4 and 1/16; the result times 16 is an integer)
    vl = []; vexp = []
    for kind, ops in ((0, (0, 1, 2, 3, 4, 5, 6, 7)), (1, (0, 1, 2, 3, 20, 21, 22))):
        for opc in ops:
            for p in (0, 1, -1, 3, -7, 2**15 - 1, -(2**15 - 1), rng.randrange(-2**15 + 1, 2**15)):
                n = rng.choice([1, 3, 8, 9, 16])
                vl.append('variance %d %d %d %d' % (kind, opc, n, p))
                vexp.append({0: 5, 1: 5, 2: 4 + p * p, 3: 4 + p * p, 4: 4, 5: 0, 6: 0, 7: 4, 20: 0, 21: 4, 22: 0}[opc])
    # tLweAddMulRTo (polynomial multiplier, N = 1024): var1 + ||p||^2 * var2; p has the value q at every third coefficient (342 of them)
    for q in (0, 1, -1, 3, -5, 11):
        vl.append('variance 1 30 1024 %d' % q); vexp.append(4 + 342 * q * q)
    for l, o, e in zip(vl, vlib.run_lines(exes['optim'], vl), vexp):
        ctx.count(l)
        if o.strip() != str(e): ctx.report('variance-annotation', '%s: the variance annotation of the result is %s/16, the rule var1 + p^2*var2 (inputs 1/4 and 1/16) gives %d/16' % (l, o.strip(), e), {'case': l, 'impl': o, 'expected': e})
    impl = {}
    for b in ('optim', 'debug'):
        idx = [i for i, c in enumerate(cases) if c[2] == b]
        for i, o in zip(idx, vlib.run_lines(exes[b], [cases[i][0] for i in idx], timeout=1200)): impl[i] = o
    for b in ('optim', 'debug'):
        gi = [i for i, c in enumerate(cases) if c[2] == b and len(c[0]) < 30000][:: (7 if ctx.tier != 'thorough' else 2)]
        vlib.guard_pass(ctx, exes[b], [cases[i][0] for i in gi], [impl[i] for i in gi], 'linear operations, %s build' % b, {'build': b})
    mlines = sorted(set(c[1] for c in cases if c[1]))
    big = [l for l in mlines if len(l) > 20000]
    small = [l for l in mlines if len(l) <= 20000]
    mo = dict(zip(small, vlib.run_model(small, 'pure')))
    mo.update(dict(zip(big, vlib.run_model(big, 'fast'))))
    # the two extractions agree on a sample (cross-check of the zarith directives)
    xs = small[:: max(1, len(small) // 60)]
    for l, o in zip(xs, vlib.run_model(xs, 'fast')):
        if o.strip() != mo[l].strip(): ctx.soft('extraction-crosscheck', 'pure and fast extraction differ on ' + l[:100], {'case': l[:2000]})
    ndis = 0
    phase_by_key = {}
    for i, c in enumerate(cases):
        ctx.count((c[0][:4000], c[2]))
        o = impl[i]; meta = c[3]
        fail = oracle(meta, o)
        if fail:
            ctx.report(meta[0] + '-wrong', '%s build: %s on %s...' % (c[2], fail, c[0][:100]), {'case': c[0][:20000], 'build': c[2], 'impl': o[:4000], 'why': fail})
        if c[1] is not None:
            if meta[0] == 'phasefft':
                try:
                    iv = [int(x) for x in o.split()]; mv = [int(x) for x in mo[c[1]].split()]
                    d = max(abs(vlib.w32(x - y)) for x, y in zip(iv, mv)) if len(iv) == len(mv) else 10**9
                except Exception: d = 10**9
                ctx.hypotheses['tLwePhase_fft_max_units_k%d' % meta[1]] = d
                if d > 16: ctx.report('tlwephase-fft', 'tLwePhase at N=1024 differs from the exact ring phase by %d units' % d, {'case': c[0][:20000], 'max_diff': d})
            elif o.strip() != mo[c[1]].strip():
                ndis += 1
                ctx.soft('correspondence:' + meta[0], '%s build and model disagree on %s...: impl %s model %s' % (c[2], c[0][:80], o[:80], mo[c[1]][:80]),
                         {'case': c[0][:20000], 'model_case': c[1][:20000], 'build': c[2], 'impl': o[:4000], 'model': mo[c[1]][:4000]})
    ctx.cov['correspondence_cases'] = len(cases); ctx.cov['disagreements'] = ndis
    ctx.cov['input_distribution'] = {'lwe_n': ns, 'tlwe_N': [2, 4, 8, 16, 64, 1024], 'k': [1, 2, 3], 'p': ps}
    for c in cases[:: max(1, len(cases) // 8)]: ctx.sample({'case': c[0][:140], 'build': c[2], 'impl': impl[cases.index(c)][:100]})

def oracle(meta, o):
    """the property's phase identities recomputed with plain integers on the implementation output"""
    if o.startswith('CRASH'): return 'process died: ' + o
    try: vals = [int(x) for x in o.split()]
    except Exception: return 'unparsable output'
    kind = meta[0]
    if kind == 'lwelin':
        _, opc, n, p, key, a1, b1, a2, b2 = meta
        if vals[:3] == [-1, -1, -1] and len(vals) == 3 and n != 2: return 'write outside the arrays (guard zone changed)'
        if len(vals) != n + 1: return 'wrong length'
        ph = phase(key, vals[:n], vals[n]); p1 = phase(key, a1, b1); p2 = phase(key, a2, b2)
        pw = vlib.w32(p)
        exp = {0: p1 + p2, 1: p1 - p2, 2: p1 + pw * p2, 3: p1 - pw * p2, 4: -p1, 5: 0, 6: pw, 7: p1}[opc]
        if ph != vlib.w32(exp): return 'phase of the result is %d, expected %d' % (ph, vlib.w32(exp))
        if opc == 7 and vals != a1 + [b1]: return 'copy differs'
    elif kind == 'lwephase':
        _, key, a, b = meta
        if vals[0] != phase(key, a, b): return 'lwePhase = %d, expected %d' % (vals[0], phase(key, a, b))
    elif kind == 'ext':
        _, k, N, j, c1, keyp = meta
        if len(vals) != k * N + 1: return 'extraction: wrong length or guard zone changed'
        lk = keyp[:k * N]
        ph = phase(lk, vals[:k * N], vals[k * N])
        # coefficient j of the TLWE phase, schoolbook
        acc = c1[k * N + j]
        for i in range(k):
            s = keyp[i * N:(i + 1) * N]; a = c1[i * N:(i + 1) * N]
            acc -= sum(s[m] * a[j - m] for m in range(j + 1)) - sum(s[m] * a[N + j - m] for m in range(j + 1, N))
        if ph != vlib.w32(acc): return 'phase of extracted sample %d != coefficient %d of the TLWE phase %d' % (ph, j, vlib.w32(acc))
    elif kind == 'tlwe' and meta[1] <= 3:
        _, opc, k, N, p, c1, c2 = meta
        pw = vlib.w32(p)
        f = {0: lambda x, y: x + y, 1: lambda x, y: x - y, 2: lambda x, y: x + pw * y, 3: lambda x, y: x - pw * y}[opc]
        exp = [vlib.w32(f(x, y)) for x, y in zip(c1, c2)]
        if vals != exp: return 'TLWE coefficient-wise result differs from the exact one'
    elif kind == 'tlweop':
        _, opc, k, N, p, c1, c2 = meta
        pw = vlib.w32(p); exp = list(c1)
        if opc == 20: exp = [0] * ((k + 1) * N)
        elif opc == 22: exp = [0] * (k * N) + c2[k * N:]
        elif opc in (23, 24):
            pos = (k if opc == 23 else 0) * N; exp[pos] = vlib.w32(exp[pos] + pw)
        elif opc in (25, 26):
            pos = (k if opc == 25 else 0) * N
            for j in range(N): exp[pos + j] = vlib.w32(exp[pos + j] + c2[j] * pw)
        if vals != exp: return 'TLWE operation %d differs from its definition (clear / copy / trivial / add constant / add polynomial times constant)' % opc
    elif kind == 'tlwe' and meta[1] == 4:
        _, opc, k, N, a, c1, c2 = meta
        exp = []
        for q in range(k + 1):
            src = c1[q * N:(q + 1) * N]
            for i in range(N):
                t = i - a
                sgn = 1
                while t < 0: t += N; sgn = -sgn
                exp.append(vlib.w32(sgn * src[t] - src[i]))
        if vals != exp: return '(X^a-1)*c differs for a=%d' % a
    elif kind == 'phase':
        _, k, N, c1, keyp = meta
        acc = list(c1[k * N:(k + 1) * N])
        for i in range(k):
            pr = negamul(keyp[i * N:(i + 1) * N], c1[i * N:(i + 1) * N])
            acc = [x - y for x, y in zip(acc, pr)]
        if vals != [vlib.w32(x) for x in acc]: return 'ring phase differs from schoolbook'
    elif kind == 'extkey':
        _, k, N, keyp = meta
        if vals != keyp[:k * N]: return 'extracted key is not the concatenation of the key polynomials'
    return None

def replay(ctx, data):
    b = data.get('build', 'optim')
    exe = vlib.build_harness('drv.cpp', vlib.build_lib(b), 'spqlios-fma', b)
    if data.get('guard'): return vlib.guard_replay(exe, data)
    o = vlib.run_lines(exe, [data['case']])[0]
    print('case:', data['case'][:300], '\nimplementation now:', o[:400], '\nrecorded:', str(data.get('impl'))[:400])
    return 0
