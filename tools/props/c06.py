# C06 — homomorphic evaluation is deterministic, thread-safe and history-independent
import vlib, json, os, re, subprocess
from concurrent.futures import ThreadPoolExecutor
from props.c04 import ints, fmt
LEVEL = 'proof'
FAM = {'spqlios-fma': 'SPQLIOS', 'spqlios-avx': 'SPQLIOS', 'nayuki-portable': 'NAYUKI', 'nayuki-avx': 'NAYUKI', 'fftw': 'FFTW'}

def harness(be, bu):
    fam = FAM[be]
    return vlib.build_harness('eval_drv.cpp', vlib.build_lib(bu), be, bu, name='eval_fam',
                              extra=['-DFAM_' + fam, '-I', os.path.join(vlib.REPO, 'src', 'libtfhe', 'fft_processors', fam.lower())])

def run(ctx):
    thorough = ctx.tier == 'thorough'
    rng = ctx.rng
    ctx.rule = ('per back-end (quick: spqlios-fma, nayuki-portable, fftw; thorough: all five, plus ThreadSanitizer builds of nayuki-portable and fftw), one cloud key shared by all threads: gates (NAND, XOR, MUX, AND, OR, XNOR, NOR) on '
                'random ciphertexts evaluated on 1..64 threads with randomised start offsets and yields, oversubscription, a key-generation/encryption thread with its own data running alongside, workers '
                'interleaving FFT products of unrelated polynomials (results compared with the sequential ones), the main thread (first user of the FFT) evaluating alongside, a key set generated on a fresh thread from the same seed, threads created and destroyed per item; after different same-thread histories (other gates, extreme-valued FFT products, encryptions, a fresh '
                'thread); with the scratch buffers of the thread\'s FFT processor overwritten by NaN / +-1e300 / random bits before every evaluation; every output compared byte for byte with the sequential '
                'reference; writable ELF segments of the library compared before/after evaluations (after warm-up). distinct = distinct (back-end, build, scenario)')
    ctx.assumptions = ['partial: data-race freedom of the compiled C++/assembly, the FFTW planner and the memory model are runtime facts the Gallina model cannot exhibit; the interleavings explored are those the OS scheduler produced on this run (16 cores)',
                       'ThreadSanitizer (thorough) instruments the C/C++ sources only; a report counts as a violation only if both accesses are inside libtfhe code']
    ctx.prove()
    variants = [('spqlios-fma', 'optim'), ('nayuki-portable', 'optim'), ('fftw', 'optim')] if not thorough else [(b, 'optim') for b in vlib.BACKENDS] + [('spqlios-fma', 'debug')]
    spec = fmt([128, 0, 0, 0, 0, 0, 0, 0, 0, ctx.seed * 10 + 4])
    summary = {}
    for (be, bu) in variants:
        exe = harness(be, bu)
        scen = [('footprint', 'footprint %s' % spec), ('history', 'history %s %d' % (spec, ctx.seed + 11)), ('poison', 'poison %s %d' % (spec, ctx.seed + 12)),
                ('keythread', 'keythread %s %d' % (spec, ctx.seed + 13))]
        # threads <nthreads> <iters> <mode> <seed>; mode bits: 1 yields/offsets, 2 keygen thread alongside, 4 unrelated FFT products, 8 create/destroy per item
        tcs = [(1, 8, 0), (2, 8, 1), (4, 8, 5), (16, 12, 7), (64, 4, 1), (8, 6, 15), (32, 4, 3)] if not thorough else \
              [(1, 16, 0), (2, 16, 1), (3, 16, 5), (4, 16, 7), (8, 16, 7), (16, 24, 7), (32, 8, 7), (64, 8, 7), (64, 4, 15), (8, 12, 15), (16, 6, 9), (48, 6, 3)]
        for (nt, it, mode) in tcs: scen.append(('threads nt=%d iters=%d mode=%d' % (nt, it, mode), 'threads %s %d %d %d %d' % (spec, nt, it, mode, ctx.seed + nt)))
        # two harness processes at a time: oversubscription of the 16 cores by the 64-thread scenarios is intended
        with ThreadPoolExecutor(max_workers=2) as ex:
            outs = list(ex.map(lambda sc: vlib.run_lines(exe, [sc[1]], timeout=1800)[0], scen))
        # history across key sets: the outputs under the key set of the spec do not depend on whether this process and thread used another
        # key set (other dimensions) before
        hh = [vlib.run_lines(exe, ['refhash %s %d %d' % (spec, ctx.seed + 21, pre)], timeout=3600)[0] for pre in (0, 1, 2)]
        ctx.count((be, bu, 'refhash'))
        if hh[0].startswith('CRASH') or hh[2].startswith('CRASH') or hh[0].strip() != hh[2].strip():
            ctx.report('nondeterministic-keyset-history', '%s/%s: 16 gate evaluations under the key set of the run give %s when it is the first key set of the process and %s when the thread generated and used a small custom key set with other layouts (n = 12, gadget (4,5), key switch (5,3)) before: the result depends on which key sets were used earlier' % (be, bu, hh[0][:40], hh[2][:40]),
                       {'case': 'refhash %s %d 2' % (spec, ctx.seed + 21), 'scenario': 'refhash', 'backend': be, 'build': bu})
        if hh[0].startswith('CRASH') or hh[1].startswith('CRASH') or hh[0].strip() != hh[1].strip():
            ctx.report('nondeterministic-keyset-history', '%s/%s: 16 gate evaluations under the 128-bit key set give %s when it is the first key set of the process and %s when the thread generated and used the 80-bit key set before: the result depends on which key sets were used earlier' % (be, bu, hh[0][:40], hh[1][:40]),
                       {'case': 'refhash %s %d 1' % (spec, ctx.seed + 21), 'scenario': 'refhash', 'backend': be, 'build': bu})
        # threads come and go, the main thread never runs a transform; freed memory is overwritten (MALLOC_PERTURB_) so that per-thread FFT
        # state another thread still relies on does not survive by luck
        nl = 'nomain %s %d' % (spec, ctx.seed + 23)
        no = vlib.run_lines(exe, [nl], timeout=900, env=dict(os.environ, MALLOC_PERTURB_='165'))[0]; ctx.count((be, bu, 'nomain'))
        nv = ints(no) if not no.startswith('CRASH') and no.strip() else None
        if nv is None or nv[0] != 0:
            ctx.report('nondeterministic-thread-lifetimes', '%s/%s: after the set-up thread (key generation, reference outputs) has exited, %s' % (
                be, bu, ('%d of %d evaluations (main thread first, then fresh threads; three idle threads hold the recycled stack and thread-local block of the set-up thread) differ from the reference' % (nv[0], nv[1])) if nv else 'the evaluation died (%s)' % no[:60]), {'case': nl, 'scenario': 'nomain', 'backend': be, 'build': bu, 'env': 'MALLOC_PERTURB_=165'})
        elif nv: ctx.evaluations += nv[1]
        # objects of the FFT domain handed from the thread that created them to another one (used by one thread at a time; the key only read)
        hl = 'handover %s %d %d %d' % (spec, 4 if not thorough else 8, 6 if not thorough else 12, ctx.seed + 29)
        ho = vlib.run_lines(exe, [hl], timeout=900, env=dict(os.environ, MALLOC_PERTURB_='165'))[0]; ctx.count((be, bu, 'handover'))
        hv = ints(ho) if not ho.startswith('CRASH') and ho.strip() else None
        if hv is None or any(hv[:4]):
            what = ('the run died (%s)' % ho[:60]) if hv is None else ('%d transform/product results on temporaries allocated by the main thread, %d conversions of rows of the shared const key, %d gate outputs of the main thread '
                    'and %d results on temporaries whose creator thread had exited differ from the sequential reference (%d operations)' % tuple(hv[:5]))
            ctx.report('nondeterministic-handover', '%s/%s: Lagrange-domain objects created by one thread and transformed by another (never by two at once): %s' % (be, bu, what),
                       {'case': hl, 'scenario': 'handover', 'backend': be, 'build': bu, 'env': 'MALLOC_PERTURB_=165'})
        elif hv: ctx.evaluations += hv[4]
        # a thread whose first FFT operation ran under a non-default x87 control word (restored afterwards): same outputs as everybody else
        xl = 'x87 %s %d' % (spec, ctx.seed + 37)
        xo = vlib.run_lines(exe, [xl], timeout=900)[0]; ctx.count((be, bu, 'x87'))
        xv = ints(xo) if not xo.startswith('CRASH') and xo.strip() else None
        if xv is None or xv[0] != 0:
            ctx.report('nondeterministic-fp-control', '%s/%s: %s' % (be, bu, ('the run died (%s)' % xo[:60]) if xv is None else '%d of %d results of a thread whose first FFT operation ran under 53-bit / round-toward-zero x87 control (restored before evaluating) differ from the reference: '
                       'per-thread FFT state depends on the floating-point control state at the time it was built' % (xv[0], xv[1])), {'case': xl, 'scenario': 'x87', 'backend': be, 'build': bu})
        elif xv: ctx.evaluations += xv[1]
        # generations of short-lived threads whose first and only work is an FFT product: per-thread FFT state is created and released by
        # many threads at about the same time (for FFTW also: the planner API, which is not reentrant, must never be entered by two threads)
        cl = 'churn %d %d %d' % (12 if not thorough else 40, 16, ctx.seed + 31)
        co = vlib.run_lines(exe, [cl], timeout=600)[0]; ctx.count((be, bu, 'churn'))
        cv = ints(co) if not co.startswith('CRASH') and co.strip() else None
        if cv is None or cv[0] != 0:
            ctx.report('thread-churn', '%s/%s: %s' % (be, bu, ('generations of 16 short-lived threads doing FFT products: the process died (%s)' % co[:60]) if cv is None else
                       '%d of %d FFT products computed by short-lived threads differ from the sequential reference' % (cv[0], cv[1])), {'case': cl, 'scenario': 'churn', 'backend': be, 'build': bu})
        elif cv[2] > 1:
            ctx.report('fftw-planner-reentered', '%s/%s: %d threads were inside the FFTW planner API (plan creation / destruction, not reentrant) at once, %d overlapping calls over %d thread lifetimes: a data race inside libfftw3' % (
                       be, bu, cv[2], cv[3], cv[1]), {'case': cl, 'scenario': 'churn', 'backend': be, 'build': bu})
        else: ctx.evaluations += cv[1]
        for (name, line), o in zip(scen, outs):
            ctx.count((be, bu, name))
            if o.startswith('CRASH') or not o.strip():
                ctx.report('eval-crash', '%s/%s: scenario "%s" died: %s' % (be, bu, name, o[:100]), {'case': line, 'backend': be, 'build': bu}); continue
            v = ints(o)
            if name == 'footprint':
                summary['%s/%s footprint' % (be, bu)] = {'bytes_changed': v[0], 'writable_bytes': v[1]}
                if v[0] != 0: ctx.report('global-state-written', '%s/%s: %d bytes of the library\'s writable segments (%d bytes) changed during evaluation after warm-up: process-global mutable state is written by evaluation' % (be, bu, v[0], v[1]), {'case': line, 'backend': be, 'build': bu})
                continue
            if name == 'keythread':
                ctx.evaluations += v[2]
                summary['%s/%s keythread' % (be, bu)] = {'key_set_differs': v[0], 'gate_mismatches': v[1], 'evaluations': v[2]}
                if v[0] or v[1]:
                    ctx.report('nondeterministic-keygen', '%s/%s: the key set generated from the same seed on a fresh worker thread %s the one generated on the main thread; %d of %d gates evaluated with it differ from the reference (key generation / FFT conversion depends on the thread that runs it)' % (
                        be, bu, 'differs from' if v[0] else 'equals', v[1], v[2]), {'case': line, 'scenario': name, 'backend': be, 'build': bu})
                continue
            ctx.evaluations += v[1]
            summary['%s/%s %s' % (be, bu, name)] = {'mismatches': v[0], 'evaluations': v[1]}
            if name.startswith('threads') and len(v) > 2:
                summary['%s/%s %s' % (be, bu, name)]['fft_product_mismatches'] = v[2]
                if v[2]: ctx.report('nondeterministic-fft', '%s/%s: %d FFT products of unrelated polynomials computed on worker threads differ from the same products computed sequentially on the main thread (%s)' % (be, bu, v[2], name), {'case': line, 'scenario': name, 'backend': be, 'build': bu})
            if name == 'poison' and len(v) > 2 and v[2] != 1: ctx.soft('poison-unavailable', 'scratch buffers of %s not reachable' % be, {'backend': be})
            if v[0] != 0:
                what = {'history': 'after a different same-thread history', 'poison': 'with poisoned FFT scratch buffers (a transform reads a scratch cell it did not write first)'}.get(name, 'when evaluated concurrently (%s)' % name)
                ctx.report('nondeterministic', '%s/%s: %d of %d evaluations differ from the sequential reference %s' % (be, bu, v[0], v[1], what), {'case': line, 'scenario': name, 'backend': be, 'build': bu})
    if thorough:
        for be in ('nayuki-portable', 'fftw'):
            try:
                exe = vlib.build_harness('eval_drv.cpp', vlib.build_lib('tsan'), be, 'tsan', name='eval_tsan')
            except vlib.BuildError as e:
                ctx.notes.append('ThreadSanitizer build failed for %s: %s' % (be, str(e)[-300:])); continue
            line = 'threads %s 8 6 7 %d' % (spec, ctx.seed + 77)
            env = dict(os.environ, TSAN_OPTIONS='halt_on_error=0 report_signal_unsafe=0 exitcode=0')
            p = subprocess.run([exe], input=line + '\n', stdout=subprocess.PIPE, stderr=subprocess.PIPE, text=True, timeout=7200, env=env)
            reports = p.stderr.split('WARNING: ThreadSanitizer:')[1:]
            ours = [r for r in reports if len(re.findall(r'#0 .*(libtfhe|/libtfhe/|src/libtfhe)', r)) >= 2]
            ctx.count((be, 'tsan')); summary['%s/tsan' % be] = {'reports': len(reports), 'inside_libtfhe': len(ours), 'result': p.stdout.strip()[:40]}
            if ours: ctx.report('data-race', 'ThreadSanitizer, %s: data race with both accesses inside libtfhe' % be, {'case': line, 'backend': be, 'build': 'tsan', 'report': ours[0][:3000]})
    ctx.hypotheses.update(summary)
    ctx.sample({k: v for k, v in list(summary.items())[:8]})

def replay(ctx, data):
    be = data.get('backend', 'spqlios-fma'); bu = data.get('build', 'optim')
    exe = harness(be, bu) if bu != 'tsan' else vlib.build_harness('eval_drv.cpp', vlib.build_lib('tsan'), be, 'tsan', name='eval_tsan')
    o = vlib.run_lines(exe, [data['case']], timeout=3600, env=dict(os.environ, MALLOC_PERTURB_='165') if data.get('env') else None)[0]
    print('%s/%s %s -> now: %s' % (be, bu, data['case'][:60], o))
    return 0
