# C04 — bootstrapping maps the rounded input phase through the test polynomial exactly
import vlib, json
LEVEL = 'proof'
N = 1024
A_BK = 32768        # 2^-25 in units of 2^-40
A_KS = 33554432     # 2^-15

def ints(s): return [int(x) for x in s.split()]
def fmt(v): return ' '.join(map(str, v))
def rnd2N(x):
    """library-independent rounding of a torus value to Z_2N (ties up); also says whether x is an exact tie"""
    u = x % 2**32
    return ((u * 2 * N + 2**31) >> 32) % (2 * N), (u * 2 * N + 2**31) % 2**32 == 0

def predict(s, a, b):
    """p = round(2N b) - sum round(2N a_i) s_i mod 2N with ties rounded up (what the extracted model of the library computes),
    and the set of all values p can take when every exact rounding tie may go either way (C13 allows both)"""
    pb, tb = rnd2N(b)
    p = pb; ties = 1 if tb else 0
    for ai, si in zip(a, s):
        if si:
            r, t = rnd2N(ai); p -= r
            if t: ties += 1
    p %= 2 * N
    # b tie down: p-1; a_i tie down: p+1 each
    nb = 1 if tb else 0; na = ties - nb
    cands = {(p - x + y) % (2 * N) for x in range(nb + 1) for y in range(na + 1)}
    return p, cands

def spec_of(conf, seed):
    # lambda n k l B t bb abk aks seed
    return fmt(list(conf) + [seed])

def run(ctx):
    import os; os.environ['MALLOC_PERTURB_'] = '165'     # every block the harness processes get from or return to the allocator is filled: memory that a routine never wrote does not look like zeros by luck
    thorough = ctx.tier == 'thorough'
    rng = ctx.rng
    ctx.rule = ('(i) full size: both default sets and custom sets with n in {1,3,8,1025,1100} (n > N included), k in {1,2}, several (l,Bgbit); inputs: trivial samples at the centre and both '
                'rounding edges of rounded phases incl. 0,1,N-1,N,N+1,2N-1, random masks with b placed so that p hits {0,N-1,N,2N-1} and random p, masks with zero / edge coefficients; '
                'all four variants (FFT / coefficient domain, with / without key switch); the sign is predicted from the secret key with a library-independent rounding formula and by the '
                'extracted model, the output phase must be within 1/16 of the prediction; (ii) reduced n (<= 8): blind-rotate-and-extract with arbitrary test polynomials on generated keys, '
                'phase against the p-th coefficient of the anticyclic extension and against the exact model. distinct = distinct case lines')
    ctx.assumptions = ['output noise below 1/16 of the torus is checked here as a hypothesis of the sign decision; its size and independence of x are C02\'s subject (statistics)',
                       'exact rounding ties of b are accepted either way (C13 allows both)']
    ctx.prove()
    exe = vlib.build_harness('boot_drv.cpp', vlib.build_lib('optim'), 'spqlios-fma', 'optim')
    confs = [((128, 0, 0, 0, 0, 0, 0, 0, 0), 40, 15), ((80, 0, 0, 0, 0, 0, 0, 0, 0), 30, 15),
             ((0, 1025, 1, 3, 7, 8, 2, A_BK, A_KS), 10, 3), ((0, 3, 1, 2, 10, 8, 2, A_BK, A_KS), 30, 15), ((0, 8, 2, 2, 10, 4, 4, A_BK, A_KS), 20, 7),
             ((0, 4, 1, 22, 1, 8, 2, A_BK, A_KS), 12, 15), ((0, 3, 1, 1, 16, 8, 2, 4, A_KS), 12, 15),      # extreme gadget layouts: Bgbit = 1 (digits in {-1,0}), l = 1
             ((0, 4, 1, 2, 13, 8, 2, A_BK // 64, A_KS), 12, 15), ((0, 6, 1, 2, 16, 8, 2, A_BK // 64, A_KS), 12, 15),      # large gadget bases (digits up to 2^12, 2^15) in every variant
             ((-2, 5, 1, 2, 10, 8, 2, A_BK // 64, A_KS), 10, 15), ((-2, 4, 2, 3, 7, 8, 2, A_BK // 64, A_KS), 6, 15),      # lambda = -2: ternary ring key (the final key switch encodes coefficients -1 too)
             ((-1, 1024, 1, 3, 7, 8, 2, A_BK, A_KS), 4, 15)]      # lambda = -1: the in/out LWE parameters are the extracted-sample parameters object itself (n = k*N)
    if thorough:
        confs = [((128, 0, 0, 0, 0, 0, 0, 0, 0), 2048, 15), ((80, 0, 0, 0, 0, 0, 0, 0, 0), 2048, 15),
                 ((0, 1025, 1, 3, 7, 8, 2, A_BK, A_KS), 60, 15), ((0, 1100, 1, 2, 10, 8, 2, A_BK, A_KS), 60, 15), ((0, 1, 1, 3, 7, 8, 2, A_BK, A_KS), 200, 15),
                 ((0, 3, 1, 2, 10, 8, 2, A_BK, A_KS), 200, 15), ((0, 8, 2, 2, 10, 4, 4, A_BK, A_KS), 100, 15), ((0, 500, 1, 4, 8, 15, 2, A_BK, A_KS), 60, 15),
                 ((0, 630, 2, 3, 7, 8, 2, A_BK, A_KS), 40, 15), ((0, 1024, 1, 2, 16, 3, 10, A_BK // 64, A_KS), 40, 15)]
    BOUND = 2**32 // 16
    nfull = 0; maxerr = {}
    for ci, (conf, ntriv, vmask) in enumerate(confs):
        spec = spec_of(conf, ctx.seed * 100 + ci)
        o = vlib.run_lines(exe, ['fullkey ' + spec], timeout=1800)[0]
        if o.startswith('CRASH'):
            ctx.report('keygen-crash', 'key generation for %s died: %s' % (spec, o), {'spec': spec, 'impl': o}); continue
        g = ints(o); n, NN, k, l, B, t, bb = g[:7]; s = g[7:7 + n]
        cases = []
        # a) trivial samples: centre and both edges of selected rounded phases
        ps = [0, 1, N - 1, N, N + 1, 2 * N - 1] + ([rng.randrange(2 * N) for _ in range(ntriv)] if ntriv < 2 * N else list(range(2 * N)))
        for pb in ps:
            c = pb * 2**21
            for d in ((0, 2**20 - 1, -2**20, -2**20 - 1, 2**20) if pb in (0, N - 1, N, 2 * N - 1) or thorough else (rng.choice([0, 2**20 - 1, -2**20]),)):
                cases.append(([0] * n, vlib.w32(c + d), 2**29, 'trivial'))
        # b) random masks, p aimed at the sign boundaries
        for pt in [0, N - 1, N, 2 * N - 1] * (2 if not thorough else 8) + [rng.randrange(2 * N) for _ in range(6 if not thorough else 60)]:
            a = [rng.randrange(-2**31, 2**31) for _ in range(n)]
            d = sum(rnd2N(ai)[0] for ai, si in zip(a, s) if si)
            barb = (pt + d) % (2 * N)
            b = vlib.w32(barb * 2**21 + rng.randrange(-2**20 + 1, 2**20))
            mu = rng.choice([2**29, 2**29, -2**29, 2**30, 1, rng.randrange(-2**31, 2**31)])
            cases.append((a, b, mu, 'aimed p=%d' % pt))
        # c) masks with zero coefficients, coefficients at rounding edges, single non-zero coefficient
        for _ in range(4 if not thorough else 30):
            a = [rng.choice([0, 0, (2 * rng.randrange(2 * N) + 1) * 2**20 + rng.choice([-1, 0]), rng.randrange(-2**31, 2**31), 2**31 - 1, -2**31]) for _ in range(n)]
            cases.append(([vlib.w32(x) for x in a], rng.randrange(-2**31, 2**31), 2**29, 'edge mask'))
        a = [0] * n; a[rng.randrange(n)] = rng.randrange(-2**31, 2**31); cases.append((a, rng.randrange(-2**31, 2**31), 2**29, 'single'))
        # d) exact rounding ties of mask coefficients on key bits that are set, the exponent aimed so that rounding one of them the other
        #    way crosses a sign boundary (the library's modulus switch rounds ties up: p = N-1 or 2N-1 here; one tie down gives N or 0)
        ones = [i for i, si in enumerate(s) if si]
        for rep in range(6 if not thorough else 40):
            if not ones: break
            a = [rng.randrange(-2**31, 2**31) for _ in range(n)]
            for i in rng.sample(ones, min(len(ones), rng.choice([1, 1, 2, 3]))):
                a[i] = vlib.w32((2 * rng.randrange(2 * N) + 1) * 2**20)      # exactly half-way between two multiples of 1/2N: odd and even lower neighbours, positive and negative values
            d = sum(rnd2N(ai)[0] for ai, si in zip(a, s) if si)
            pt = rng.choice([N - 1, 2 * N - 1])
            b = vlib.w32(((pt + d) % (2 * N)) * 2**21 + rng.randrange(-2**19, 2**19))
            cases.append((a, b, 2**29, 'mask ties, aimed p=%d' % pt))
        # e) mask coefficients whose rounded value is a multiple of a power of two (16, 256, N) on key bits that are set: the first rotations act on
        #    the constant test vector, where X^a - 1 has min(a, 2N-a) equal coefficients - structured digit polynomials (all digits equal, sums of
        #    squares that are multiples of 2^32 for large bases)
        for rep in range(8 if not thorough else 48):
            a = [0] * n if rep % 2 == 0 else [rng.randrange(-2**31, 2**31) for _ in range(n)]
            for i in (ones[:1] + rng.sample(ones, min(len(ones), rng.choice([0, 1, 2])))) if ones else []:
                a[i] = vlib.w32(rng.choice([N, 16 * rng.randrange(1, N // 8), 256 * rng.randrange(1, N // 128), 4 * rng.randrange(1, N // 2)]) * 2**21 + rng.randrange(-2**19, 2**19))
            d = sum(rnd2N(ai)[0] for ai, si in zip(a, s) if si)
            pt = rng.choice([0, N - 1, N, 2 * N - 1, rng.randrange(2 * N)])
            b = vlib.w32(((pt + d) % (2 * N)) * 2**21 + rng.randrange(-2**19, 2**19))
            cases.append((a, b, rng.choice([2**29, 2**29, 2**30]), 'power-of-two rotations, aimed p=%d' % pt))
        # model predictions (cheap: no ring arithmetic)
        ml = ['bootp %d %d %s %s %d' % (N, n, fmt(s), fmt(a), b) for (a, b, mu, kind) in cases]
        mo = vlib.run_model(ml, 'fast', timeout=1800)
        # (bit 16 of the variant mask, on three cases per key set: the same bootstrappings through a stand-alone FFT key whose source
        #  LweBootstrappingKey has been re-keyed and deleted)
        standalone = set(rng.sample(range(len(cases)), min(3, len(cases))))
        il = ['fullcase %s %d %d %s %d' % (spec, mu, (vmask if (i % 4 == 0 or kind.startswith('aimed') or kind.startswith('mask ties') or kind.startswith('power')) else (vmask & 5) or 1) + (16 if i in standalone else 0), fmt(a), b) for i, (a, b, mu, kind) in enumerate(cases)]
        io = vlib.run_lines(exe, il, timeout=7200)
        for (a, b, mu, kind), line, o, m in zip(cases, il, io, mo):
            ctx.count((spec, tuple(a[:8]), b, mu)); nfull += 1
            p, cand = predict(s, a, b)
            mb, mp, msign = ints(m)
            if mp != p:
                ctx.soft('model-vs-reference', 'model exponent %d differs from the library-independent prediction %d' % (mp, p), {'spec': spec, 'a': a[:2000], 'b': b, 'secret': s[:2000]})
            if o.startswith('CRASH'):
                ctx.report('bootstrap-crash', 'n=%d k=%d (l,B)=(%d,%d): bootstrapping died (%s) on a %s input' % (n, k, l, B, o[:80], kind), {'case': line[:100000], 'impl': o}); continue
            vals = ints(o)
            if vals[-1] != 1:
                ctx.report('input-modified', 'bootstrapping modified its input sample (n=%d)' % n, {'case': line[:100000]})
            for ph in vals[:-1]:
                errs = [abs(vlib.w32(ph - (mu if q < N else -mu))) for q in sorted(cand)]
                e = min(errs); key = (n, k, l, B); maxerr[key] = max(maxerr.get(key, 0), e)
                if e <= BOUND and abs(vlib.w32(ph - (mu if p < N else -mu))) > BOUND:
                    # right for some admissible rounding of the ties, but not the one the model of the library makes
                    ctx.soft('correspondence:tie-rounding', 'n=%d, %s input: the output sign corresponds to a rounding of an exact tie that differs from the model of modSwitchFromTorus32 (ties up); admissible exponents %s' % (n, kind, sorted(cand)[:6]),
                             {'case': line[:200000], 'p_model': p, 'admissible': sorted(cand), 'phase': ph})
                if e > BOUND:
                    ctx.report('bootstrap-wrong', 'n=%d k=%d (l,B)=(%d,%d), %s input: p = %d (in [0,N): %s) so the output must encrypt %smu = %d, observed phase %d (error %d > 2^28)' % (
                        n, k, l, B, kind, p, p < N, '+' if p < N else '-', mu if p < N else -mu, ph, e),
                        {'case': line[:200000], 'p': p, 'mu': mu, 'phases': vals[:-1], 'secret': s[:2000]})
                    break
    # (ii) reduced n: arbitrary test polynomials
    nred = 0
    rconfs = [(3, 1, 3, 7), (4, 2, 2, 10)] if not thorough else [(8, 1, 3, 7), (4, 2, 2, 10), (5, 1, 2, 10), (6, 1, 4, 8), (2, 1, 16, 2)]
    for ci, (n, k, l, B) in enumerate(rconfs):
        g = ints(vlib.run_lines(exe, ['bkgen %d %d %d %d %d %d %d' % (n, k, N, l, B, A_BK, ctx.seed * 1000 + 50 + ci)], timeout=900)[0])
        s = g[:n]; tk = g[n:n + k * N]; bkflat = g[n + k * N:]
        for pt in [0, N - 1, N, 2 * N - 1, rng.randrange(2 * N)] + ([rng.randrange(2 * N) for _ in range(10)] if thorough else []):
            bara = [rng.choice([0, 2 * N - 1, rng.randrange(2 * N), rng.randrange(2 * N)]) for _ in range(n)]
            barb = (pt + sum(x * y for x, y in zip(bara, s))) % (2 * N)
            v = [rng.randrange(-2**31, 2**31) for _ in range(N)]
            line = 'boot 1 %d %d %d %d %d %s %d %s %s' % (k, N, l, B, n, fmt(bkflat), barb, fmt(bara), fmt(v))
            exp = v[pt] if pt < N else vlib.w32(-v[pt - N])
            mo = ints(vlib.run_model([line], 'fast', timeout=3000)[0])
            pm = vlib.w32(mo[-1] - sum(x * y for x, y in zip(mo[:-1], tk)))
            steps = sum(1 for x in bara if x)
            # per step: 10 standard deviations of the external-product noise (row noise 2^-25 = 128 units) + worst-case truncation term
            bound = max(1, steps) * (int(10 * (((k + 1) * l * N * ((1 << (2 * B)) + 2) / 12.0) ** 0.5) * A_BK / 256) + (1 + k * N) * (1 << (32 - l * B))) + 4096
            if abs(vlib.w32(pm - exp)) > bound:
                ctx.soft('model-vs-reference', 'model blind-rotate-and-extract: phase %d, expected coefficient %d of the anticyclic extension = %d' % (pm, pt, exp), {'case': line[:200000]})
            for var, opc in (('coefficient', 1), ('fft', 101)):
                o = vlib.run_lines(exe, [line.replace('boot 1', 'boot %d' % opc, 1)], timeout=900)[0]
                ctx.count((n, k, l, B, pt, var)); nred += 1
                if o.startswith('CRASH') or o.strip() == '-7 -7':
                    ctx.report('bre-crash', '%s variant: %s' % (var, 'test polynomial modified' if o.strip() == '-7 -7' else o[:80]), {'case': line[:200000], 'opcode': opc}); continue
                r = ints(o); ph = vlib.w32(r[-1] - sum(x * y for x, y in zip(r[:-1], tk)))
                if abs(vlib.w32(ph - exp)) > bound:
                    ctx.report('bre-wrong', '%s variant, n=%d k=%d (l,B)=(%d,%d): p=%d, phase %d but coefficient p of the anticyclic extension of v is %d (bound %d)' % (var, n, k, l, B, pt, ph, exp, bound),
                               {'case': line[:300000], 'opcode': opc, 'p': pt, 'expected': exp, 'phase': ph, 'tlwe_key': tk, 'secret': s})
                elif abs(vlib.w32(ph - pm)) > 2 * bound:
                    ctx.soft('correspondence:bre', '%s variant differs from the model (phase %d vs %d)' % (var, ph, pm), {'case': line[:300000], 'opcode': opc})
        # bootstrap without key switch through the key structure, at reduced n
        for _ in range(2 if not thorough else 8):
            a = [rng.randrange(-2**31, 2**31) for _ in range(n)]; b = rng.randrange(-2**31, 2**31); mu = rng.choice([2**29, rng.randrange(-2**31, 2**31)])
            p, cand = predict(s, a, b); amb = len(cand) > 1
            line = 'boot 2 %d %d %d %d %d %s %d %s %d' % (k, N, l, B, n, fmt(bkflat), mu, fmt(a), b)
            for var, opc in (('coefficient', 2), ('fft', 102)):
                o = vlib.run_lines(exe, [line.replace('boot 2', 'boot %d' % opc, 1)], timeout=900)[0]
                ctx.count((n, k, l, B, tuple(a), b, var)); nred += 1
                if o.startswith('CRASH'): ctx.report('woks-crash', o[:100], {'case': line[:200000], 'opcode': opc}); continue
                r = ints(o); ph = vlib.w32(r[-1] - sum(x * y for x, y in zip(r[:-1], tk)))
                exp = mu if p < N else -mu
                if abs(vlib.w32(ph - exp)) > BOUND and not amb:
                    ctx.report('woks-wrong', '%s variant, n=%d: p=%d, phase %d, expected %d' % (var, n, p, ph, exp), {'case': line[:300000], 'opcode': opc, 'p': p, 'secret': s})
    ctx.cov['full_size_cases'] = nfull; ctx.cov['reduced_n_cases'] = nred
    ctx.hypotheses['max |output phase - predicted| (units of 2^-32) per (n,k,l,Bgbit)'] = {str(k): v for k, v in maxerr.items()}
    ctx.sample({'max error by config': {str(k): v for k, v in maxerr.items()}})

def replay(ctx, data):
    exe = vlib.build_harness('boot_drv.cpp', vlib.build_lib('optim'), 'spqlios-fma', 'optim')
    if 'case' not in data: print(json.dumps(data)[:1500]); return 0
    line = data['case']; toks = line.split(' ', 2)
    if 'opcode' in data: line = '%s %d %s' % (toks[0], data['opcode'], toks[2])
    o = vlib.run_lines(exe, [line], timeout=1800)[0]
    print('case: %s ...\nimplementation now: %s\nrecorded: %s' % (line[:150], o[:300], {k: data[k] for k in data if k in ('p', 'mu', 'phases', 'expected', 'phase')}))
    return 0
