# C05 — export followed by import reproduces every object exactly, on both transports
import re, vlib, json, struct
import codecgen as G
LEVEL = 'proof'

def norm_fields(code, f):
    """expected fields after import: identical, except that per-row variances of key material come back as their maximum"""
    f = list(f)
    def norm_rows(start, count, width):
        # rows of `width` integers followed by one variance each
        vs = [f[start + r * (width + 1) + width] for r in range(count)]
        if not vs: return start
        m = max(vs)
        for r in range(count): f[start + r * (width + 1) + width] = m
        return start + count * (width + 1)
    if code == 10:
        nout = f[0]; n, t, b = f[3], f[4], f[5]
        norm_rows(6, n * t * (1 << b), nout + 1)
    elif code in (11, 13, 14):
        off = 2 if code in (13, 14) else 0
        nin = f[off]; N, k, l = f[off + 3], f[off + 4], f[off + 7]
        p = off + 9
        n, t, b = f[p], f[p + 1], f[p + 2]
        p = norm_rows(p + 3, n * t * (1 << b), nin + 1)
        norm_rows(p, nin * (k + 1) * l, (k + 1) * N)
    return f

def strip_ctx(code, f):
    return f[{2: 1, 5: 2, 8: 3}.get(code, 0):]

def run(ctx):
    thorough = ctx.tier == 'thorough'
    rng = ctx.rng
    ctx.rule = ('14 object types x 2 transports x random/extreme contents (coefficients incl. byte patterns that look like text or tags, noise levels incl. 2^-15, 2^-25, 7.18e-9, '
                '1e-12..0.5, denormals, DBL_MAX); per object: exported bytes vs model, imported fields vs model and vs the original (variance normalised), re-export, both transports '
                'byte-identical; sequences of objects in one stream; full-size key sets: re-import, re-export, gates under original vs re-imported cloud key, decryption under '
                're-imported secret key.  distinct = distinct (type, transport, object) cases')
    ctx.assumptions = ['the real-number text pair printf("%.17lg")/stold is a Section variable of the theorems (hypothesis parse(fmt d) = d), exercised here on every object; '
                       'the model driver uses the same libc through OCaml\'s Printf/float_of_string',
                       'variances of key material are non-negative doubles (bit-pattern order = numeric order)']
    ctx.prove()
    bdir = vlib.build_lib('optim')
    exe = vlib.build_harness('io_drv.cpp', bdir, 'spqlios-fma', 'optim')
    objs = []
    for code in range(1, 15):
        reps = (6 if code <= 9 or code == 12 else 3) * (3 if thorough else 1)
        for r in range(reps):
            f, c = G.gen(rng, code)
            objs.append((code, f, c))
    # 1. export: implementation (both transports) vs model
    il = []; meta = []
    for (code, f, c) in objs:
        for tr in (0, 1):
            il.append('cexp %d %d %s' % (code, tr, ' '.join(map(str, f)))); meta.append((code, tr, f, c))
    io = vlib.run_lines(exe, il, timeout=1200)
    ml = sorted(set('cexp %d %s' % (code, ' '.join(map(str, f))) for (code, f, c) in objs))
    mo = dict(zip(ml, vlib.run_model(ml, 'fast')))
    bytes_of = {}
    ndis = 0
    for (code, tr, f, c), o in zip(meta, io):
        ctx.count(('exp', code, tr, tuple(f)))
        m = mo['cexp %d %s' % (code, ' '.join(map(str, f)))]
        if o.startswith('CRASH'): ctx.report('export-crash', 'export of %s crashed: %s' % (G.NAMES[code], o), {'case': il[meta.index((code, tr, f, c))][:5000]}); continue
        if o.strip() != m.strip():
            ndis += 1
            ctx.soft('correspondence:export-%s' % G.NAMES[code], 'exported bytes of %s (transport %d) differ from the model (first difference at byte %d)' % (G.NAMES[code], tr, first_diff(o.split(), m.split())),
                     {'type': G.NAMES[code], 'transport': tr, 'fields': f[:200], 'impl': o[:3000], 'model': m[:3000]})
        bytes_of[(code, tr, tuple(f))] = o.split()
    for (code, f, c) in objs:
        b0 = bytes_of.get((code, 0, tuple(f))); b1 = bytes_of.get((code, 1, tuple(f)))
        if b0 is not None and b1 is not None and b0 != b1:
            ctx.report('transports-differ', 'FILE and C++-stream exports of %s differ' % G.NAMES[code], {'type': G.NAMES[code], 'fields': f[:200]})
    # 1b. the same exports in a process whose global C++ locale groups digits and uses a decimal comma (an application that called
    #     std::locale::global): the bytes are the same (the formats are locale-independent), and so are the imports below
    sub = [i for i in range(len(il)) if meta[i][0] in (1, 2, 3, 4, 5, 6, 7, 8, 9, 10, 11, 12)][:: (1 if thorough else 3)]
    lo = vlib.run_lines(exe, ['setlocale 1'] + [il[i] for i in sub] + ['setlocale 0'], timeout=1200)[1:-1]
    for i, o in zip(sub, lo):
        (code, tr, f, c) = meta[i]; ctx.count(('exp-locale', code, tr, tuple(f)))
        if o.strip() != io[i].strip():
            ctx.report('export-depends-on-locale', 'export of %s (transport %d) under a global C++ locale with digit grouping and a decimal comma differs from the export under the classic locale (first difference at byte %d): '
                       'the text sections are not written in a locale-independent format' % (G.NAMES[code], tr, first_diff(o.split(), io[i].split())), {'type': G.NAMES[code], 'transport': tr, 'case': il[i][:5000], 'locale': 'setlocale 1 (numpunct: grouping 3, decimal comma)', 'impl': o[:2000], 'classic': io[i][:2000]})
    # 2. import of the exported bytes: vs model, vs the original, then re-export
    il2 = []; meta2 = []
    for (code, tr, f, c) in meta:
        if code in (13, 14): continue          # key-set importers build the FFT key: N = 1024 only (full-size part below)
        b = bytes_of.get((code, tr, tuple(f)))
        if b is None: continue
        il2.append('cimp %d %d %s %d %s' % (code, tr, ' '.join(map(str, c)), len(b), ' '.join(b))); meta2.append((code, tr, f, c, b))
        if tr == 1:   # the same bytes through the C++-stream API over a stream buffer that refills piecewise (transport 2)
            il2.append('cimp %d 2 %s %d %s' % (code, ' '.join(map(str, c)), len(b), ' '.join(b))); meta2.append((code, 2, f, c, b))
    io2 = vlib.run_lines(exe, il2, timeout=1200)
    sub2 = list(range(0, len(il2), 1 if thorough else 4))
    lo2 = vlib.run_lines(exe, ['setlocale 1'] + [il2[i] for i in sub2] + ['setlocale 0'], timeout=1200)[1:-1]
    for i, o in zip(sub2, lo2):
        (code, tr, f, c, b) = meta2[i]; ctx.count(('imp-locale', code, tr, tuple(f)))
        if o.strip() != io2[i].strip():
            ctx.report('import-depends-on-locale', 'import of %s (transport %d) under a global C++ locale with digit grouping and a decimal comma gives a different object than under the classic locale' % (G.NAMES[code], tr),
                       {'type': G.NAMES[code], 'transport': tr, 'case': il2[i][:5000], 'locale': 'setlocale 1', 'impl': o[:2000], 'classic': io2[i][:2000]})
    mo2 = vlib.run_model([re.sub(r'^cimp (\d+) 2 ', r'cimp \1 1 ', l) for l in il2], 'fast')
    re_l = []; re_meta = []
    for (code, tr, f, c, b), o, m in zip(meta2, io2, mo2):
        ctx.count(('imp', code, tr, tuple(f)))
        want = [0, 0, 0, 0] + norm_fields(code, strip_ctx(code, f))
        got = [int(x) for x in o.split()] if o and not o.startswith('CRASH') else None
        if got is None or got[0] != 0:
            ctx.report('import-fails', 'import of a complete, valid export of %s (transport %d) does not return: %s' % (G.NAMES[code], tr, o[:60]), {'type': G.NAMES[code], 'transport': tr, 'case': il2[meta2.index((code, tr, f, c, b))][:6000], 'impl': o[:200]}); continue
        if got != want:
            j = first_diff(got, want)
            ctx.report('roundtrip-%s' % G.NAMES[code], 're-imported %s (transport %d) differs from the original at flattened field %d: got %s, original %s' % (G.NAMES[code], tr, j - 4, got[j] if j < len(got) else None, want[j] if j < len(want) else None),
                       {'type': G.NAMES[code], 'transport': tr, 'fields': f[:300], 'imported': got[:300], 'expected': want[:300]})
        if o.strip() != m.strip():
            ndis += 1
            ctx.soft('correspondence:import-%s' % G.NAMES[code], 'import of %s (transport %d): implementation and model differ' % (G.NAMES[code], tr), {'type': G.NAMES[code], 'impl': o[:2000], 'model': m[:2000]})
        # re-export the imported object: identical bytes
        f2 = f[:{2: 1, 5: 2, 8: 3}.get(code, 0)] + got[4:]
        re_l.append('cexp %d %d %s' % (code, min(tr, 1), ' '.join(map(str, f2)))); re_meta.append((code, tr, b))
    for (code, tr, b), o in zip(re_meta, vlib.run_lines(exe, re_l, timeout=1200)):
        ctx.count(('reexp', code, tr, tuple(b[:50])))
        if o.split() != b: ctx.report('reexport-%s' % G.NAMES[code], 're-exporting the imported %s does not give identical bytes (first difference at byte %d)' % (G.NAMES[code], first_diff(o.split(), b)), {'type': G.NAMES[code], 'transport': tr})
    # 3. several objects back to back in one stream
    seqs = []
    for r in range(12 if not thorough else 60):
        m = rng.randrange(2, 5); tr = rng.randrange(2)
        parts = []
        for _ in range(m):
            code = rng.choice(G.PARAM_FREE); f, c = G.gen(rng, code); parts.append((code, f))
        seqs.append((tr, parts))
    # near-twins: objects with equal dimensions and close but different real-valued parameters, read one after the other in one process
    # (an importer that shares or caches parameter objects between imports must not confuse them); both orders, both transports
    d = G.d2b; AM = d(0.012467)
    twins = [[(1, [630, d(2.0**-15), AM]), (1, [630, d(3.0518e-05), AM])], [(4, [1024, 1, d(7.18e-9), AM]), (4, [1024, 1, d(2.0**-25), AM])],
             [(7, [1024, 1, d(7.18e-9), AM, 2, 10]), (7, [1024, 1, d(2.0**-25), AM, 2, 10])], [(7, [1024, 1, d(7.18e-9), AM, 2, 10]), (7, [1024, 1, d(2.0**-25), AM, 3, 7])],
             [(12, [8, 2, 500, d(2.44e-5), AM, 1024, 1, d(7.18e-9), AM, 2, 10]), (12, [8, 2, 630, d(2.0**-15), AM, 1024, 1, d(2.0**-25), AM, 3, 7])],
             [(6, [4, 1, d(1e-9), d(0.25), 1, 0, 1, 1]), (6, [4, 1, d(1.5e-9), d(0.25), 0, 0, 1, 0]), (4, [4, 1, d(1e-9), d(0.25) + 1])],
             [(9, [2, 1, d(1e-12), AM, 2, 10, 1, 0]), (9, [2, 1, d(2e-12), AM, 2, 10, 0, 1])], [(1, [500, d(2.44e-5), AM]), (12, [8, 2, 500, d(2.44e-5) + 1, AM, 1024, 1, d(7.18e-9), AM, 2, 10]), (1, [500, d(2.44e-5) + 2, AM])]]
    for tw in twins:
        for order in (tw, tw[::-1]):
            seqs.append((rng.randrange(2), list(order)))
    pl = ['cexp %d %d %s' % (code, tr, ' '.join(map(str, f))) for (tr, parts) in seqs for (code, f) in parts]
    pb = vlib.run_lines(exe, pl, timeout=600); it = iter(pb)
    sl = []; swant = []
    for (tr, parts) in seqs:
        allb = []; want = []
        for (code, f) in parts:
            allb += next(it).split(); want.append(norm_fields(code, f))
        sl.append('cimpseq %d %d %s %d %s' % (tr, len(parts), ' '.join(str(c) for c, _ in parts), len(allb), ' '.join(allb))); swant.append(want)
    for l, want, o in zip(sl, swant, vlib.run_lines(exe, sl, timeout=600)):
        ctx.count(('seq', l[:200]))
        exp = '0 0 0 0 ' + ' | '.join(' '.join(map(str, w)) for w in want)
        if ' '.join(o.split()) != ' '.join(exp.split()):
            ctx.report('sequence', 'objects written back to back are not read back correctly: %s...' % l[:60], {'case': l[:6000], 'impl': o[:2000], 'expected': exp[:2000]})
    # 4. full-size key sets through the public API (functional equivalence of re-imported keys)
    kexe = vlib.build_harness('keys_drv.cpp', bdir, 'spqlios-fma', 'optim')
    kl = ['keyio %d 0 12 2 10 8 2 %d 8' % (ctx.seed * 10 + 1, 0), 'keyio %d 0 7 3 7 8 2 %d 8' % (ctx.seed * 10 + 2, 1), 'keyio %d 128 0 0 0 0 0 %d 8' % (ctx.seed * 10 + 3, ctx.seed % 2)]
    if thorough: kl += ['keyio %d 80 0 0 0 0 0 %d 16' % (ctx.seed * 10 + 4, 0), 'keyio %d 128 0 0 0 0 0 %d 16' % (ctx.seed * 10 + 5, 1 - ctx.seed % 2), 'keyio %d 100 0 0 0 0 0 1 16' % (ctx.seed * 10 + 6)]
    for l, o in zip(kl, vlib.run_lines(kexe, kl, timeout=1800)):
        ctx.count(l)
        if o.startswith('CRASH'): ctx.report('keyio-crash', l + ': ' + o, {'case': l, 'impl': o}); continue
        v = [int(x) for x in o.split()]
        names = ['cloud_len', 'secret_len', 'prefix', 'tail', 'ptext', 'n', 'N', 'k', 'l', 't', 'basebit', 'found', 're_cloud', 're_secret', 'gates_eq', 'dec_eq', 'fields', 'cross', 'dec_ok']
        d = dict(zip(names, v))
        if not d['re_cloud'] or not d['re_secret']: ctx.report('keyset-reexport', '%s: re-exporting a re-imported key set does not give identical bytes' % l, {'case': l, 'result': d})
        if not d['gates_eq']: ctx.report('keyset-gates', '%s: gates under the re-imported cloud key give different ciphertexts' % l, {'case': l, 'result': d})
        if not d['dec_eq']: ctx.report('keyset-decrypt', '%s: the re-imported secret key decrypts differently' % l, {'case': l, 'result': d})
        if not d['fields']: ctx.report('keyset-fields', '%s: re-imported key set differs field for field (parameters incl. real-valued noise levels, or key coefficients)' % l, {'case': l, 'result': d})
        if not d['cross']: ctx.report('keyset-transports', '%s: FILE and C++-stream exports differ' % l, {'case': l, 'result': d})
    ctx.cov['correspondence_cases'] = len(il) + len(il2); ctx.cov['disagreements'] = ndis
    ctx.cov['input_distribution'] = {'objects_per_type': {G.NAMES[c]: sum(1 for o in objs if o[0] == c) for c in range(1, 15)}, 'sequences': len(seqs), 'full_size_key_sets': kl}
    for (code, f, c) in objs[:: max(1, len(objs) // 6)]: ctx.sample({'type': G.NAMES[code], 'fields': f[:24]})

def first_diff(a, b):
    for i, (x, y) in enumerate(zip(a, b)):
        if x != y: return i
    return min(len(a), len(b))

def replay(ctx, data):
    print(json.dumps(data, indent=1)[:3000]); return 0
