# C11 — naive, Karatsuba and monomial multiplications are exact in the negacyclic ring
import vlib, json
LEVEL = 'proof'
EXT = [0, 1, -1, 2**31 - 1, -2**31, 2**31 - 2, -2**31 + 1, 2**30, -2**30]

def vec(rng, n, kind):
    if kind == 'ext': return [rng.choice(EXT) for _ in range(n)]
    if kind == 'max': return [2**31 - 1] * n
    if kind == 'min': return [-2**31] * n
    if kind == 'alt': return [(-2**31 if i % 2 else 2**31 - 1) for i in range(n)]
    if kind == 'bin': return [rng.randrange(2) for _ in range(n)]
    return [rng.randrange(-2**31, 2**31) for _ in range(n)]

def negamul(a, b):
    N = len(a); out = [0] * N
    for i in range(N):
        if a[i] == 0: continue
        ai = a[i]
        for j in range(N):
            if i + j < N: out[i + j] += ai * b[j]
            else: out[i + j - N] -= ai * b[j]
    return [vlib.w32(x) for x in out]

def xai(a, src):
    N = len(src); out = []
    for i in range(N):
        t = i - a; sgn = 1
        while t < 0: t += N; sgn = -sgn
        out.append(vlib.w32(sgn * src[t]))
    return out

def run(ctx):
    thorough = ctx.tier == 'thorough'
    rng = ctx.rng
    ctx.rule = ('N in {1,2,4,...,2048}; all a in [0,2N) for N<=64 and {0,1,N-1,N,N+1,2N-1,random} beyond; basis pairs (X^i,X^j) exhaustively for N<=16 '
                '(bilinear check); random, extreme (INT32_MIN/MAX), alternating and binary vectors; p in {0,1,-1,INT32_MIN,INT32_MAX,random}; '
                'naive, Karatsuba (plain/accumulate/subtract), X^a, X^a-1 (torus and int), add/sub/addmulz/submulz (+To). distinct = distinct case lines per build')
    ctx.prove()
    exes = {b: vlib.build_harness('drv.cpp', vlib.build_lib(b), 'spqlios-fma', b) for b in ('optim', 'debug')}
    cases = []  # (impl_line, model_line, build, meta)
    Ns = [1, 2, 4, 8, 16, 32, 64, 128, 256, 512, 1024, 2048]
    kinds = ['rnd', 'ext', 'max', 'min', 'alt', 'bin', 'wrap', 'wrap4']
    def add(opc, N, p, a, b, c=None, mopc=None, builds=('optim',), meta=None):
        body = '%d %d %s %s' % (N, p, ' '.join(map(str, a)), ' '.join(map(str, b)))
        if c is not None: body += ' ' + ' '.join(map(str, c))
        il = 'poly %d %s' % (opc, body); ml = 'poly %d %s' % (mopc if mopc is not None else opc, body)
        for bld in builds: cases.append((il, ml, bld, meta))
    for N in Ns:
        # monomials
        As = range(2 * N) if N <= 64 else sorted({0, 1, N - 1, N, N + 1, 2 * N - 1} | {rng.randrange(2 * N) for _ in range(6)})
        src = vec(rng, N, 'rnd' if N > 2 else 'ext')
        for a in As:
            add(4, N, a, src, src, meta=('xai', a, src))
            add(5, N, a, src, src, meta=('xaim1', a, src))
            if N <= 64 or a in (0, N): add(25, N, a, src, src, mopc=5, meta=('xaim1', a, src))
        # products
        for kind in kinds:
            if N >= 1024 and kind in ('max', 'alt') and not thorough: continue
            if kind in ('wrap', 'wrap4'):
                # non-zero integer polynomials whose sum of squares is a multiple of 2^32 (a norm accumulated in 32 bits says "zero")
                if kind == 'wrap4' and N < 4: continue
                a = [0] * N
                if kind == 'wrap': a[rng.randrange(N)] = rng.choice([65536, -65536, -2**31, 2**17])
                else:
                    for pos in rng.sample(range(N), 4): a[pos] = rng.choice([32768, -32768])
                b = vec(rng, N, 'rnd')
            else:
                a = vec(rng, N, 'bin' if kind == 'bin' else kind); b = vec(rng, N, 'rnd' if kind == 'bin' else kind)
            c = vec(rng, N, 'rnd')
            if kind == 'rnd':
                # the same routines with every const operand in read-only memory (opcode + 1000): a write to an operand, even one that is
                # undone before returning, kills the process
                add(1006, N, 0, a, b, mopc=6, meta=('mul', a, b, None, 0))
                if N >= 2:
                    add(1007, N, 0, a, b, mopc=7, meta=('mul', a, b, None, 0)); add(1010, N, 0, a, b, c, mopc=10, meta=('mul', a, b, c, 1)); add(1011, N, 0, a, b, c, mopc=11, meta=('mul', a, b, c, -1))
                aa = rng.randrange(2 * N)
                add(1004, N, aa, a, a, mopc=4, meta=('xai', aa, a)); add(1005, N, aa, a, a, mopc=5, meta=('xaim1', aa, a)); add(1025, N, aa, a, a, mopc=5, meta=('xaim1', aa, a))
                for opc, f in ((0, 1), (1, -1)):
                    add(1000 + opc, N, 0, a, b, mopc=opc, meta=('lin', a, b, f)); add(1020 + opc, N, 0, a, b, mopc=opc, meta=('lin', a, b, f))
                add(1002, N, 12345, a, b, mopc=2, meta=('lin', a, b, 12345)); add(1003, N, 12345, a, b, mopc=3, meta=('lin', a, b, -12345))
                add(1022, N, 12345, a, b, mopc=2, meta=('lin', a, b, 12345)); add(1023, N, 12345, a, b, mopc=3, meta=('lin', a, b, -12345))
            blds = ('optim', 'debug') if N <= 64 else ('optim',)
            add(6, N, 0, a, b, builds=blds, meta=('mul', a, b, None, 0))
            add(7, N, 0, a, b, builds=blds, meta=('mul', a, b, None, 0))          # N = 1 included: the ring Z[X]/(X+1)
            add(10, N, 0, a, b, c, builds=blds, meta=('mul', a, b, c, 1)); add(11, N, 0, a, b, c, builds=blds, meta=('mul', a, b, c, -1))
            for opc, f in ((0, 1), (1, -1)):
                add(opc, N, 0, a, b, meta=('lin', a, b, f)); add(20 + opc, N, 0, a, b, mopc=opc, meta=('lin', a, b, f))
            for p in (0, 1, -1, -2**31, 2**31 - 1, rng.randrange(-2**31, 2**31)):
                add(2, N, p, a, b, meta=('lin', a, b, p)); add(3, N, p, a, b, meta=('lin', a, b, -p))
                add(22, N, p, a, b, mopc=2, meta=('lin', a, b, p)); add(23, N, p, a, b, mopc=3, meta=('lin', a, b, -p))
                if kind in ('rnd', 'ext'):     # overlapping operands: result = poly2, result = poly1, poly1 = poly2 (oracle only: the model has no aliasing)
                    for opc, aa, bb, pp in ((102, a, b, p), (103, a, b, -p), (112, a, b, p), (113, a, b, -p), (122, a, a, p), (123, a, a, -p)):
                        body = '%d %d %s %s' % (N, p, ' '.join(map(str, a)), ' '.join(map(str, b)))
                        cases.append(('poly %d %s' % (opc, body), None, 'optim', ('lin', aa, bb, pp)))
    # exhaustive basis pairs for small N: bilinear check X^i * X^j
    for N in (1, 2, 4, 8, 16):
        for i in range(N):
            for j in range(N):
                a = [0] * N; b = [0] * N; a[i] = 1; b[j] = rng.choice([1, -1, 2**31 - 1, -2**31])
                add(6, N, 0, a, b, meta=('mul', a, b, None, 0))
                add(7, N, 0, a, b, meta=('mul', a, b, None, 0))
    # descending dimensions: every product follows a larger dense one made by the same thread (whatever a routine keeps between calls - a grown
    # workspace, a table - was last used at a larger size); twice, so that each size also follows the smallest
    for rep in range(2):
        for N in reversed(Ns):
            a = vec(rng, N, 'rnd'); b = vec(rng, N, 'rnd'); c = vec(rng, N, 'rnd')
            blds = ('optim', 'debug') if N <= 64 else ('optim',)
            add(7, N, 0, a, b, builds=blds, meta=('mul', a, b, None, 0)); add(10, N, 0, a, b, c, builds=blds, meta=('mul', a, b, c, 1)); add(11, N, 0, a, b, c, builds=blds, meta=('mul', a, b, c, -1))
            add(6, N, 0, a, b, builds=blds, meta=('mul', a, b, None, 0))
    impl = {}
    for bld in ('optim', 'debug'):
        idx = [i for i, c in enumerate(cases) if c[2] == bld]
        for i, o in zip(idx, vlib.run_lines(exes[bld], [cases[i][0] for i in idx], timeout=1800)): impl[i] = o
    for bld in ('optim', 'debug'):
        gi = [i for i, c in enumerate(cases) if c[2] == bld and len(c[0]) < 30000 and int(c[0].split()[1]) < 1000][:: (9 if ctx.tier != 'thorough' else 3)]
        vlib.guard_pass(ctx, exes[bld], [cases[i][0] for i in gi], [impl[i] for i in gi], 'polynomial operations, %s build' % bld, {'build': bld})
        si = sorted(set(gi[::3]) | set([i for i, c in enumerate(cases) if c[2] == bld and len(c[0]) < 60000 and int(c[0].split()[2]) >= 1024][:12]))
        vlib.stack_pass(ctx, exes[bld], [cases[i][0] for i in si], [impl[i] for i in si], 'polynomial operations, %s build' % bld, {'build': bld})
    mlines = sorted(set(c[1] for c in cases if c[1] is not None))
    mo = dict(zip(mlines, vlib.run_model(mlines, 'fast', timeout=1800)))
    xs = [l for l in mlines if len(l) < 1500][:: 40]
    for l, o in zip(xs, vlib.run_model(xs, 'pure')):
        if o.strip() != mo[l].strip(): ctx.soft('extraction-crosscheck', 'pure and fast extraction differ on ' + l[:100], {'case': l[:2000]})
    ctx.cov['extraction_crosschecked_cases'] = len(xs)
    ndis = 0
    for i, c in enumerate(cases):
        ctx.count((c[0], c[2]))
        o = impl[i]
        fail = oracle(c[3], o)
        if fail: ctx.report('poly-wrong', '%s build: %s on %s...' % (c[2], fail, c[0][:90]), {'case': c[0][:60000], 'build': c[2], 'impl': o[:4000], 'why': fail})
        if c[1] is not None and o.strip() != mo[c[1]].strip():
            ndis += 1
            ctx.soft('correspondence:poly-op%s' % c[0].split()[1], '%s build and model disagree on %s...' % (c[2], c[0][:90]),
                     {'case': c[0][:60000], 'model_case': c[1][:200], 'build': c[2], 'impl': o[:4000], 'model': mo[c[1]][:4000]})
    ctx.cov['correspondence_cases'] = len(cases); ctx.cov['disagreements'] = ndis
    ctx.cov['input_distribution'] = {'N': Ns, 'vector_kinds': kinds}
    # allocation failures inside the three Karatsuba entry points (two scratch arrays each): reported or harmless, never a silent wrong product
    vlib.allocfail_block(ctx, [(fn, N, 1, 2, 8) for fn in (0, 1, 2) for N in (1, 2, 4, 8, 16, 64, 256, 1024)])   # powers of two: the domain of the Karatsuba routines
    for c in cases[:: max(1, len(cases) // 8)]: ctx.sample({'case': c[0][:120], 'build': c[2], 'impl': impl[cases.index(c)][:100]})

def oracle(meta, o):
    if o.startswith('CRASH'): return 'process died: ' + o
    try: vals = [int(x) for x in o.split()]
    except Exception: return 'unparsable'
    k = meta[0]
    if k == 'xai':
        if vals != xai(meta[1], meta[2]): return 'X^%d * src differs from the exact negacyclic rotation (or guard zone changed)' % meta[1]
    elif k == 'xaim1':
        e = [vlib.w32(x - y) for x, y in zip(xai(meta[1], meta[2]), meta[2])]
        if vals != e: return '(X^%d - 1) * src differs' % meta[1]
    elif k == 'lin':
        _, a, b, f = meta
        if vals != [vlib.w32(x + vlib.w32(f) * y) if abs(f) != 2**31 else vlib.w32(x + f * y) for x, y in zip(a, b)]: return 'coefficient-wise operation differs'
    elif k == 'mul':
        _, a, b, c, sgn = meta
        if len(a) > 256 and sum(1 for x in a if x) > 256: return None   # large dense products: the model (proved = ring product) is the reference
        pr = negamul(a, b)
        exp = pr if c is None else [vlib.w32(x + sgn * y) for x, y in zip(c, pr)]
        if vals != exp: return 'product differs from the exact negacyclic product'
    return None

def replay(ctx, data):
    if data.get('tool') == 'allocfail': return vlib.allocfail_replay(data)
    b = data.get('build', 'optim')
    exe = vlib.build_harness('drv.cpp', vlib.build_lib(b), 'spqlios-fma', b)
    if data.get('guard') or data.get('stack_kib'): return vlib.guard_replay(exe, data)
    o = vlib.run_lines(exe, [data['case']])[0]
    print('case:', data['case'][:300], '\nimplementation now:', o[:400], '\nrecorded:', str(data.get('impl'))[:400])
    return 0
