# C03 — decryption inverts encryption for LWE, TLWE, TGSW and gate ciphertexts
import vlib, json
from props.c07 import Enc, ints, fmt, split_draws
LEVEL = 'proof'
N = 1024

def interv(M): return ((2**63 // M) * 2) % 2**64
def enc(mu, M):
    """modSwitchToTorus32, library-independent: floor(mu * interv / 2^32) as int32"""
    return vlib.w32((((mu % 2**64) * interv(M)) % 2**64) >> 32)
def nearest(phase, M):
    """the set of integers in [0,M) nearest to M*phase/2^32 (two at an exact tie)"""
    u = phase % 2**32; x = u * M
    lo = x >> 32; r = x - (lo << 32)
    if r < 2**31: return {lo % M}
    if r > 2**31: return {(lo + 1) % M}
    return {lo % M, (lo + 1) % M}

def run(ctx):
    thorough = ctx.tier == 'thorough'
    rng = ctx.rng
    ctx.rule = ('LWE: n in {1..9,500,630,1024}, Msize in {2..64,100,1000,powers of two up to 2^30, random non powers of two}, every message of [0,Msize) for small Msize, fresh encryptions by the library '
                '(draws replayed, Msize*alpha <= 1/20) and harness-built ciphertexts whose error sits exactly on, one unit inside and one unit outside the decision threshold of either sign; TLWE '
                '(polynomial and constant messages, N=1024, k in {1,2}); TGSW (Msize a power of two <= Bg, small integer polynomials); gate API bits; noiseless trivial samples under random keys. '
                'Each decryption is compared with the message, with the extracted model and with an independent nearest-multiple formula. distinct = distinct case lines')
    ctx.assumptions = ['"every noise level with Msize*alpha <= 1/20" is the statement that a Gaussian exceeds 10 sigma with negligible probability: the theorems are deterministic in the error, the run reports the largest |error|/threshold seen',
                       'TLWE/TGSW phases go through the FFT product (within 2 units of the exact model)']
    ctx.prove()
    exe = vlib.build_harness('enc_drv.cpp', vlib.build_lib('optim'), 'spqlios-fma', 'optim')
    bexe = vlib.build_harness('boot_drv.cpp', vlib.build_lib('optim'), 'spqlios-fma', 'optim')
    E = Enc(exe); sd = ctx.seed * 1000; worst = 0.0
    Ms = [2, 3, 4, 5, 7, 8, 16, 64, 100, 1000, 1024, 2048, 32768, 2**20, 2**30] + [rng.randrange(9, 32768) for _ in range(3 if not thorough else 20)]
    ns = [1, 2, 3, 8, 9, 500, 630] if not thorough else [1, 2, 3, 4, 5, 6, 7, 8, 9, 500, 630, 1024]
    # ---- LWE: library encryption, then decryption
    dl = []; meta = []
    for n in ns:
        key = [rng.randrange(2) for _ in range(n)]
        key[-1] = 1                      # the last and the first term of <a,s> always count (a loop tail that is dropped shows only with the key bit set)
        if n >= 3: key[0] = 1
        for M in (Ms if n in (8, 630) or thorough else rng.sample(Ms, 4)):
            mus = list(range(M)) if M <= 8 else sorted({0, 1, M - 1, M // 2, rng.randrange(M), rng.randrange(M)})
            a_units = min(2**40 // (20 * M), 2**35)          # Msize*alpha = 1/20
            for mu in mus:
                line, r = E.lib(1, [n] + key + [enc(mu, M)], sd + n * 131 + mu, rng.randrange(30), a_units, rng.choice([0, 1, 2, 3, 4]))   # last: noise range announced by the parameter object (independent of alpha)
                ctx.count(('lwe-enc', n, M, mu))
                if r is None: ctx.report('lwe-encrypt-crash', 'lweSymEncrypt n=%d died' % n, {'case': line[:10000]}); continue
                c = r['res']; g = split_draws(r['draws'])[2][0]
                worst = max(worst, abs(g) * 2 * M)
                dl.append('enc 3 0 0 0 0 %d %s %s %d' % (n, fmt(key), fmt(c), M)); meta.append(('fresh', n, M, mu, key, c, None))
        # lweSymEncryptWithExternalNoise: the prescribed noise value near the edge of the decryption interval (|noise| = 0.45 / Msize), alpha
        # as above: the phase is message + noise and nothing else, so the message comes back
        for M in rng.sample(Ms, 3 if not thorough else len(Ms)):
            a_units = min(2**40 // (20 * M), 2**35)
            for mu in sorted({0, M - 1, rng.randrange(M)}):
                for sgn in (1, -1):
                    num = sgn * ((45 * 2**40) // (100 * M))
                    line, r = E.lib(14, [n] + key + [enc(mu, M), num, 40], sd + n * 17 + mu + M % 101, rng.randrange(30), a_units, rng.choice([0, 1, 2, 3, 4]))
                    ctx.count(('lwe-enc-extnoise', n, M, mu, sgn))
                    if r is None: ctx.report('lwe-encrypt-crash', 'lweSymEncryptWithExternalNoise n=%d died' % n, {'case': line[:10000]}); continue
                    dl.append('enc 3 0 0 0 0 %d %s %s %d' % (n, fmt(key), fmt(r['res']), M)); meta.append(('fresh', n, M, mu, key, r['res'], None))
        # harness-built ciphertexts at the decision threshold
        for M in rng.sample(Ms, 3 if not thorough else len(Ms)):
            for mu in sorted({0, M - 1, rng.randrange(M)}):
                e0 = enc(mu, M)
                thr = (2**31 + M - 1) // M      # |M*e| reaches 2^31 around here
                for e in (thr - 3, thr - 1, thr, thr + 1, -(thr - 3), -thr, -thr - 1, 0, 2**31 // M - 2, -(2**31 // M - 2)):
                    a = [rng.randrange(-2**31, 2**31) for _ in range(n)]
                    b = vlib.w32(e0 + e + sum(x for x, y in zip(a, key) if y))
                    dl.append('enc 3 0 0 0 0 %d %s %s %d %d' % (n, fmt(key), fmt(a), b, M)); meta.append(('threshold', n, M, mu, key, a + [b], e))
        # noiseless trivial samples decrypt under every key
        for M in rng.sample(Ms, 2):
            mu = rng.randrange(M)
            dl.append('enc 3 0 0 0 0 %d %s %s %d %d' % (n, fmt([rng.randrange(2) for _ in range(n)]), fmt([0] * n), enc(mu, M), M)); meta.append(('trivial', n, M, mu, None, None, 0))
    io = vlib.run_lines(exe, dl, timeout=3600)
    mo = vlib.run_model([l.replace('enc 3 0 0 0 0', 'enc 3', 1) for l in dl], 'fast', timeout=3600)
    gi = list(range(0, len(dl), 11 if not thorough else 3))
    vlib.guard_pass(ctx, exe, [dl[i] for i in gi], [io[i] for i in gi], 'LWE decryption', {})
    for l, o, m, (kind, n, M, mu, key, c, e) in zip(dl, io, mo, meta):
        ctx.count(l[:3000])
        t = o.split()
        if o.startswith('CRASH') or len(t) < 4: ctx.report('lwe-decrypt-crash', 'lweSymDecrypt n=%d Msize=%d died' % (n, M), {'case': l[:10000]}); continue
        dec, ph = int(t[2]), int(t[3])
        if [dec, ph] != ints(m): ctx.soft('correspondence:lwe-decrypt', 'lweSymDecrypt/lwePhase differ from the model (n=%d, Msize=%d)' % (n, M), {'case': l[:10000], 'impl': [dec, ph], 'model': m})
        cands = {enc(q, M) for q in nearest(ph, M)}
        if dec not in cands:
            ctx.report('decrypt-not-nearest', 'lweSymDecrypt n=%d Msize=%d: phase %d decrypts to %d, the nearest multiples of 1/Msize are %s' % (n, M, ph, dec, sorted(cands)), {'case': l[:10000], 'phase': ph, 'decrypted': dec})
        must = kind in ('fresh', 'trivial') or (e is not None and M * abs(e) + M + 1 < 2**31)
        if must and dec != enc(mu, M):
            ctx.report('decrypt-wrong', '%s LWE ciphertext, n=%d Msize=%d message %d: decrypts to %d instead of %d (phase error %s units, threshold 2^31/Msize = %d)' % (
                kind, n, M, mu, dec, enc(mu, M), e if e is not None else vlib.w32(ph - enc(mu, M)), 2**31 // M), {'case': l[:10000], 'kind': kind, 'message': mu, 'decrypted': dec, 'expected': enc(mu, M)})
    # ---- TLWE encryptions of one process with DIFFERENT noise levels, coarse and noisy first, fine and quiet afterwards (a noise level that
    #      sticks to the first encryption of the process shows only in this order); Msize * alpha = 1/20 throughout
    for k in (1, 2):
        tkey = [rng.randrange(2) for _ in range(k * N)]
        items = [(2**40 // 40, 2, 1)] + [(2**40 // (20 * M), M, rng.randrange(M)) for M in (8, 64, 1000, 65536, 5, 2048)] + [(0, 1024, 77), (2**40 // 40, 2, 0), (2**40 // (20 * 300), 300, 299)]
        line, r = E.lib(17, [k, N] + tkey + [len(items)] + [x for it in items for x in it], sd + 900 + k, rng.randrange(30), 0, 0)
        ctx.count(('tlwe-noise-sequence', k))
        if r is None: ctx.report('tlwe-encrypt-crash', 'a sequence of TLWE encryptions with different noise levels died (k=%d)' % k, {'case': line[:20000]}); continue
        for q, (au, M, mu) in enumerate(items):
            okT, bad = r['res'][2 * q], r['res'][2 * q + 1]
            if not okT or bad:
                ctx.report('tlwe-decrypt-wrong', 'TLWE k=%d, encryption %d of one process (Msize=%d, alpha=%.3g = 1/(20 Msize), after encryptions at other noise levels): tLweSymDecryptT %s, %d of %d coefficients of tLweSymDecrypt are wrong' % (
                           k, q, M, au / 2.0**40, 'right' if okT else 'wrong', bad, N), {'case': line[:20000], 'position': q, 'Msize': M, 'alpha_units': au})
                break
    # ---- TLWE: all decryptions of all keys run in ONE process, keys alternating ("every key": the result must not depend on
    #      which key the process decrypted with before; key objects are created and destroyed per case by the harness)
    tjobs = []; tkeys = {}
    for k in (1, 2):
        tkeys[k] = [[rng.randrange(2) for _ in range(k * N)] for _ in range(2 if not thorough else 4)]
        for ki, tk in enumerate(tkeys[k]):
            for Mi, M in enumerate([8, 5, 1000] if not thorough else [2, 3, 5, 8, 64, 1000, 32768]):
                a_units = min(2**40 // (20 * M), 2**35)
                if Mi == ki % 3: a_units = 0          # the noiseless end of "every noise level": alpha exactly 0
                msg = [enc(rng.randrange(M), M) for _ in range(N)]
                line, r = E.lib(6, [k, N] + tk + msg, sd + 7 * M + k + 100 * ki, rng.randrange(10), a_units, 0); ctx.count(('tlwe', k, ki, M))
                if r is None: ctx.report('tlwe-encrypt-crash', 'tLweSymEncrypt died', {'case': line[:1000]}); continue
                tjobs.append(('poly', k, ki, M, msg, 'enc 8 0 0 0 0 %d %d %s %s %d' % (k, N, fmt(tk), fmt(r['res']), M)))
                mu = rng.randrange(M)
                line, r = E.lib(7, [k, N] + tk + [enc(mu, M)], sd + 11 * M + k + 100 * ki, 0, a_units, 0); ctx.count(('tlweT', k, ki, M))
                if r is None: continue
                tjobs.append(('const', k, ki, M, [enc(mu, M)], 'enc 9 0 0 0 0 %d %d %s %s %d' % (k, N, fmt(tk), fmt(r['res']), M)))
    rng.shuffle(tjobs); tjobs = tjobs + tjobs[:3]          # and the first ones once more, after all the others
    tio = vlib.run_lines(exe, [j[5] for j in tjobs], timeout=3600)
    tmo = vlib.run_model([j[5].replace(' 0 0 0 0', '', 1) for j in tjobs], 'fast', timeout=3600)
    gi = list(range(0, len(tjobs), 5 if not thorough else 2))
    vlib.guard_pass(ctx, exe, [tjobs[i][5] for i in gi], [tio[i] for i in gi], 'TLWE decryption', {})
    for pos, ((kind, k, ki, M, msg, dline), o, m) in enumerate(zip(tjobs, tio, tmo)):
        ctx.count(('tlwe-dec', pos, dline[:3000]))
        if o.startswith('CRASH'): ctx.report('tlwe-decrypt-crash', 'tLweSymDecrypt k=%d Msize=%d died (position %d of the sequence)' % (k, M, pos), {'sequence': [j[5] for j in tjobs[:pos + 1]]}); continue
        dec = [int(x) for x in o.split()[2:2 + len(msg)]]
        if dec != msg:
            alone = [int(x) for x in vlib.run_lines(exe, [dline])[0].split()[2:2 + len(msg)]]
            hist = '; the same decryption alone in a fresh process is %s' % ('right: the result depends on the keys used before in the process' if alone == msg else 'wrong too')
            ctx.report('tlwe-decrypt-wrong', 'tLweSymDecrypt%s k=%d key #%d Msize=%d (position %d of %d decryptions under alternating keys in one process): %d of %d coefficients differ from the message%s' % (
                'T' if kind == 'const' else '', k, ki, M, pos, len(tjobs), sum(1 for x, y in zip(dec, msg) if x != y), len(msg), hist), {'k': k, 'Msize': M, 'sequence': [j[5] for j in tjobs[:pos + 1]], 'message': msg[:16]})
            break
        if ints(m)[:len(msg)] != msg: ctx.soft('correspondence:tlwe-decrypt', 'model tlwe decryption differs from the message', {'k': k, 'Msize': M})
    gjobs = []
    for k in (1, 2):
      for tk in tkeys[k][:2]:
        # ---- TGSW: Msize a power of two <= Bg, |m| < Msize/2
        for (l, B) in ([(3, 7), (2, 10)] if not thorough else [(3, 7), (2, 10), (4, 8), (2, 16)]):
            for M in sorted({2, 4, 1 << B, 1 << (B // 2 + 1)}):
                m = [rng.randrange(-(M // 2) + (1 if M > 2 else 0), (M + 1) // 2) if rng.random() < 0.05 else 0 for _ in range(N)]
                if M == 2: m = [rng.randrange(2) if rng.random() < 0.05 else 0 for _ in range(N)]
                line, r = E.lib(11, [k, N, l, B] + tk + m, sd + 13 * M + l, 0, 32768 if M != 4 else 0, 0); ctx.count(('tgsw', k, l, B, M))
                if r is None: ctx.report('tgsw-encrypt-crash', 'tGswSymEncrypt died', {'case': line[:1000]}); continue
                gjobs.append((k, l, B, M, [x % M for x in m], 'tgsw 4 %d %d %d %d %s %s %d' % (k, N, l, B, fmt(r['res']), fmt(tk), M)))
    rng.shuffle(gjobs)
    if not thorough: gjobs = gjobs[:12]
    gjobs = gjobs + gjobs[:2]
    gio = vlib.run_lines(bexe, [j[5] for j in gjobs], timeout=3600)
    gmo = vlib.run_model([j[5] for j in gjobs], 'fast', timeout=3600)
    for pos, ((k, l, B, M, want, dline), o, md) in enumerate(zip(gjobs, gio, gmo)):
        ctx.count(('tgsw-dec', pos, dline[:3000]))
        if o.startswith('CRASH'): ctx.report('tgsw-decrypt-crash', 'tGswSymDecrypt died', {'sequence': [j[5] for j in gjobs[:pos + 1]]}); continue
        dec = ints(o)
        if dec != want:
            alone = ints(vlib.run_lines(bexe, [dline])[0])
            ctx.report('tgsw-decrypt-wrong', 'tGswSymDecrypt k=%d (l,B)=(%d,%d) Msize=%d (position %d of %d decryptions under alternating keys in one process): %d coefficients differ from the message; alone in a fresh process it is %s' % (
                k, l, B, M, pos, len(gjobs), sum(1 for x, y in zip(dec, want) if x != y), 'right' if alone == want else 'wrong too'), {'sequence': [j[5] for j in gjobs[:pos + 1]], 'Msize': M}); break
        if ints(md) != want: ctx.soft('correspondence:tgsw-decrypt', 'model TGSW decryption differs from the message (k=%d (l,B)=(%d,%d) Msize=%d)' % (k, l, B, M), {'Msize': M})
    # ---- gate API
    for lam in (128, 80):
        spec = fmt([lam, 0, 0, 0, 0, 0, 0, 0, 0, ctx.seed * 10 + 5])
        bits = [rng.randrange(2) for _ in range(200 if not thorough else 2000)]
        o = ints(vlib.run_lines(bexe, ['encdec %s %d %s' % (spec, len(bits), fmt(bits))], timeout=900)[0])
        for i, b in enumerate(bits):
            ctx.count(('gatebit', lam, i))
            ph, d = o[2 * i], o[2 * i + 1]
            worst = max(worst, abs(vlib.w32(ph - (2**29 if b else -2**29))) / 2.0**29 / 4 * 1.0)
            if d != b: ctx.report('boots-decrypt-wrong', '%d-bit set: bootsSymDecrypt(bootsSymEncrypt(%d)) = %d (phase %d)' % (lam, b, d, ph), {'lambda': lam, 'bit': b, 'phase': ph})
    # ---- gate API decryption on harness-built ciphertexts: phase +-1/8 + e decrypts to the bit for every |e| < 1/8
    #      (the whole interval, not only the small noise of fresh encryptions), both default sets
    for lam in (128, 80):
        spec = fmt([lam, 0, 0, 0, 0, 0, 0, 0, 0, ctx.seed * 10 + 5])
        g0 = ints(vlib.run_lines(bexe, ['fullkey ' + spec], timeout=900)[0]); n = g0[0]; s = g0[7:7 + n]
        es = [0, 1, -1, 2**29 - 1, -(2**29 - 1), 2**29 - 4096, -(2**29 - 4096), 2**28, -2**28, 2**28 + 1, -(2**28 + 1), 2**28 - 1, 3 * 2**27, -3 * 2**27, 2**27, -2**27] + [rng.randrange(-2**29 + 1, 2**29) for _ in range(8 if not thorough else 200)]
        dl = []; dm = []
        for bit in (0, 1):
            for e in es:
                a = [rng.randrange(-2**31, 2**31) for _ in range(n)]
                b = vlib.w32((2**29 if bit else -2**29) + e + sum(x for x, y in zip(a, s) if y))
                dl.append('decbit %s %s %d' % (spec, fmt(a), b)); dm.append((bit, e, 'decbit %d %s %s %d' % (n, fmt(s), fmt(a), b)))
        io = vlib.run_lines(bexe, dl, timeout=900); mo = vlib.run_model([m[2] for m in dm], 'fast', timeout=900)
        for l, o, m, (bit, e, ml) in zip(dl, io, mo, dm):
            ctx.count(('decbit', lam, bit, e))
            if o.startswith('CRASH'): ctx.report('boots-decrypt-crash', 'bootsSymDecrypt died', {'case': l[:10000]}); continue
            d = ints(o)[0]
            if d != bit:
                ctx.report('boots-decrypt-wrong', '%d-bit set: a ciphertext of bit %d with phase error %d units (|e| < 2^29 = 1/8) decrypts to %d' % (lam, bit, e, d), {'case': l[:10000], 'kind': 'gate ciphertext', 'message': bit, 'decrypted': d, 'expected': bit})
            if ints(m)[0] != d: ctx.soft('correspondence:decrypt-bit', 'bootsSymDecrypt differs from the model decrypt_bit (phase error %d)' % e, {'case': l[:10000]})
    ctx.hypotheses['largest |error| / decision threshold seen on fresh ciphertexts'] = round(worst, 4)
    # allocation failures inside a TLWE decryption: reported or harmless, never a silent wrong message
    vlib.allocfail_block(ctx, [(9, 1024, k, 2, 8) for k in (1, 2)])
    ctx.sample({'Msizes': Ms, 'dimensions': ns, 'worst_error_over_threshold': round(worst, 4)})

def replay(ctx, data):
    if data.get('tool') == 'allocfail': return vlib.allocfail_replay(data)
    exe = vlib.build_harness('enc_drv.cpp', vlib.build_lib('optim'), 'spqlios-fma', 'optim')
    if data.get('guard'): return vlib.guard_replay(exe, data)
    if 'sequence' in data:
        drv = vlib.build_harness('boot_drv.cpp', vlib.build_lib('optim'), 'spqlios-fma', 'optim') if data['sequence'][0].startswith('tgsw') else exe
        o = vlib.run_lines(drv, data['sequence'], timeout=600)[-1]
        print('last of %d decryptions in one process: implementation now returns %s ...; message %s ...' % (len(data['sequence']), o.split()[:10], data.get('message')))
        return 0
    if 'case' in data and data['case'].startswith('decbit'):
        drv = vlib.build_harness('boot_drv.cpp', vlib.build_lib('optim'), 'spqlios-fma', 'optim')
        print('bootsSymDecrypt now returns (bit, phase): %s; recorded: message %s decrypted %s' % (vlib.run_lines(drv, [data['case']], timeout=600)[0], data.get('message'), data.get('decrypted'))); return 0
    if 'case' not in data or not data['case'].startswith('enc'): print(json.dumps(data, indent=1)[:2000]); return 0
    o = vlib.run_lines(exe, [data['case']], timeout=600)[0]
    print('case: %s ...\nimplementation now: %s\nrecorded: %s' % (data['case'][:120], o[:200], {k: data[k] for k in data if k in ('phase', 'decrypted', 'expected', 'message', 'kind')}))
    return 0
